"""Shared machinery of /verif/check.py (see its docstring for the pipeline)."""
import concurrent.futures as cf
import hashlib
import json
import os
import random
import re
import shutil
import sys as _sys
_sys.setrecursionlimit(100000)   # canonical trees of deeply nested documents are walked recursively
import subprocess
import sys
import time

ROOT = os.path.dirname(os.path.dirname(os.path.abspath(__file__)))
REPO = os.environ.get("VERIF_REPO", "/repo")
LEAN = os.path.join(ROOT, "lean")
BUILD = os.path.join(ROOT, "build")
NPROC = min(16, os.cpu_count() or 4)

ALLOWED_AXIOMS = {"propext", "Classical.choice", "Quot.sound"}
# theorems of Sonic/Props/Consts.lean (extracted in-body source constants = model constants) each property depends on
CONST_THMS = {
    "C01": ["parse_consts", "scan_consts", "simd_consts"], "C02": ["parse_consts", "simd_consts"], "C03": ["parse_consts", "simd_consts"], "C04": ["number_consts"],
    "C05": ["scan_consts", "simd_consts"], "C06": ["serialize_consts", "shared_state_consts"], "C07": ["ftoa_consts", "serialize_consts"], "C08": [], "C09": ["page_consts", "serialize_consts"],
    "C10": ["scan_consts", "simd_consts"], "C11": ["scan_consts", "simd_consts"], "C12": ["dom_consts"], "C13": ["dom_consts", "parse_consts", "shared_state_consts"], "C14": ["page_consts"],
    "C15": ["page_consts", "scan_consts", "parse_consts", "simd_consts"], "C16": ["pool_consts"], "C17": ["pool_consts", "shared_state_consts"], "C18": ["dom_consts"],
    "C19": ["parse_consts"], "C20": ["scan_consts", "serialize_consts", "simd_consts"],
}
FORBIDDEN = re.compile(r"\b(sorry|admit|native_decide|bv_decide|implemented_by|unsafe)\b|^\s*axiom\s|maxHeartbeats\s+0\b",
                       re.M)

ISA_FLAGS = {
    "avx2": ["-mavx2", "-mpclmul", "-mbmi", "-mlzcnt"],
    "sse": ["-msse4.2", "-mpclmul"],
    "dyn": ["-DSONIC_DYNAMIC_DISPATCH", "-mavx2", "-mpclmul", "-mbmi", "-mlzcnt"],
}
MODE_FLAGS = {
    "prod": ["-O2", "-DNDEBUG"],
    "san": ["-O1", "-g", "-fsanitize=address,undefined", "-fno-sanitize-recover=all",
            "-fno-sanitize=nonnull-attribute", "-DSONIC_VERIF_SAN"],
    "tsan": ["-O1", "-g", "-fsanitize=thread"],
}
WIDTH = {"avx2": 32, "sse": 16, "dyn": 32}


def sh(cmd, cwd=None, timeout=None, env=None, input=None):
    p = subprocess.run(cmd, cwd=cwd, timeout=timeout, env=env, input=input, stdout=subprocess.PIPE,
                       stderr=subprocess.STDOUT, text=True, errors="replace")
    return p.returncode, p.stdout


def strip_lean_comments(text):
    out = []
    i, n, depth = 0, len(text), 0
    while i < n:
        if text.startswith("/-", i):
            depth += 1
            i += 2
        elif depth and text.startswith("-/", i):
            depth -= 1
            i += 2
        elif depth:
            i += 1
        elif text.startswith("--", i):
            while i < n and text[i] != "\n":
                i += 1
        elif text[i] == '"':
            j = i + 1
            while j < n and text[j] != '"':
                j += 2 if text[j] == "\\" else 1
            out.append('""')
            i = j + 1
        else:
            out.append(text[i])
            i += 1
    return "".join(out)


def tree_hash(paths, extra=""):
    h = hashlib.sha256()
    h.update(extra.encode())
    for root in paths:
        if os.path.isfile(root):
            h.update(root.encode())
            h.update(open(root, "rb").read())
            continue
        for d, dirs, files in sorted(os.walk(root)):
            dirs.sort()
            for f in sorted(files):
                p = os.path.join(d, f)
                h.update(p.encode())
                with open(p, "rb") as fh:
                    h.update(fh.read())
    return h.hexdigest()[:20]


class Obligation:
    def __init__(self, name, ok, detail=""):
        self.name, self.ok, self.detail = name, ok, detail


# ------------------------------------------------------------------------------------------------ steps
def step_gen():
    """1 gen: tables from /repo's current source -> lean/Sonic/Gen/Tables.lean"""
    os.makedirs(BUILD, exist_ok=True)
    exe = os.path.join(BUILD, "dump_tables")
    rc, out = sh(["g++", "-std=c++17", "-O0", "-fno-access-control", "-I" + os.path.join(REPO, "include"),
                  "-mavx2", "-mpclmul", "-mbmi", "-mlzcnt", os.path.join(ROOT, "tools/dump_tables.cpp"), "-o", exe])
    if rc != 0:
        return Obligation("gen:dump_tables compiles against /repo/include", False, out[-3000:])
    p = subprocess.run([exe], stdout=subprocess.PIPE, stderr=subprocess.PIPE)
    if p.returncode != 0:
        return Obligation("gen:dump_tables runs", False, p.stderr.decode(errors="replace")[-2000:])
    q = subprocess.run([sys.executable, os.path.join(ROOT, "tools/gen_tables.py"),
                        os.path.join(LEAN, "Sonic/Gen/Tables.lean")], input=p.stdout, stdout=subprocess.PIPE,
                       stderr=subprocess.STDOUT)
    if q.returncode != 0:
        return Obligation("gen:tables have the expected shape", False, q.stdout.decode(errors="replace")[-2000:])
    r = subprocess.run([sys.executable, os.path.join(ROOT, "tools/extract_consts.py"), os.path.join(REPO, "include"),
                        os.path.join(LEAN, "Sonic/Gen/SourceConsts.lean")], stdout=subprocess.PIPE, stderr=subprocess.STDOUT)
    if r.returncode != 0:
        return Obligation("gen:in-body constants still found in /repo source (tools/extract_consts.py)", False,
                          r.stdout.decode(errors="replace")[-2000:])
    return Obligation("gen:tables and in-body constants regenerated from /repo source", True,
                      q.stdout.decode().strip() + "; " + r.stdout.decode().strip())


def lake_build(targets, timeout=3000):
    rc, out = sh(["lake", "build"] + targets, cwd=LEAN, timeout=timeout)
    return rc == 0, out


def failing_decls(log):
    """names / locations of the Lean errors in a lake build log"""
    errs = re.findall(r"^error: ([^\n]*)", log, re.M)
    return errs[:20]


def import_closure(mods):
    """relative paths of all project files transitively imported by the given modules"""
    seen, todo = set(), list(mods)
    while todo:
        m = todo.pop()
        rel = m.replace(".", "/") + ".lean"
        p = os.path.join(LEAN, rel)
        if rel in seen or not os.path.exists(p):
            continue
        seen.add(rel)
        for im in re.findall(r"^import\s+(Sonic\.\S+)", open(p).read(), re.M):
            todo.append(im)
    return seen


def step_audit(pid, modules, required, thorough):
    obs = []
    # forbidden tokens in every Lean source the property modules and the driver (transitively) import
    bad = []
    for rel in sorted(import_closure(list(modules) + ["Sonic.Driver"])):
        p = os.path.join(LEAN, rel)
        m = FORBIDDEN.search(strip_lean_comments(open(p).read()))
        if m:
            bad.append(f"{rel}: {m.group(0).strip()}")
    for extra in ["Main.lean"]:
        m = FORBIDDEN.search(strip_lean_comments(open(os.path.join(LEAN, extra)).read()))
        if m:
            bad.append(f"{extra}: {m.group(0).strip()}")
    obs.append(Obligation("audit:no sorry/admit/axiom/native_decide/bv_decide/implemented_by/unsafe/maxHeartbeats 0",
                          not bad, "; ".join(bad)))
    # theorems of the property modules
    names = []
    for mod in modules:
        path = os.path.join(LEAN, mod.replace(".", "/") + ".lean")
        src = strip_lean_comments(open(path).read())
        ns = re.search(r"^namespace\s+(\S+)", src, re.M)
        prefix = ns.group(1) + "." if ns else ""
        for m in re.finditer(r"^(?:private\s+|protected\s+)?theorem\s+(\S+)", src, re.M):
            names.append(prefix + m.group(1))
    missing = [r for r in required if r not in names]
    obs.append(Obligation("audit:required property theorems are present", not missing, "missing: " + ", ".join(missing)))
    tmpd = os.path.join(BUILD, "tmp", pid)
    os.makedirs(tmpd, exist_ok=True)
    af = os.path.join(tmpd, "Audit.lean")
    with open(af, "w") as f:
        for mod in modules:
            f.write(f"import {mod}\n")
        for n in names:
            f.write(f"#print axioms {n}\n")
    rc, out = sh(["lake", "env", "lean", af], cwd=LEAN, timeout=1200)
    axioms = {}
    for m in re.finditer(r"^'(\S+)' (does not depend on any axioms|depends on axioms: \[([^\]]*)\])", out, re.M):
        axioms[m.group(1)] = set() if m.group(3) is None else {a.strip() for a in m.group(3).split(",")}
    for n in names:
        if n not in axioms:
            obs.append(Obligation(f"theorem {n}", False, "no #print axioms output: " + out[-500:]))
        else:
            extra = axioms[n] - ALLOWED_AXIOMS
            obs.append(Obligation(f"theorem {n}", not extra, "axioms: " + ", ".join(sorted(axioms[n]))))
    if thorough:
        for mod in modules:
            rc, out = sh(["lake", "env", "leanchecker", mod], cwd=LEAN, timeout=3000)
            obs.append(Obligation(f"leanchecker {mod}", rc == 0, out[-800:]))
    return obs, names, axioms


def harness_path(isa, mode, defines=()):
    inc = os.path.join(REPO, "include")
    flags = ISA_FLAGS[isa] + MODE_FLAGS[mode] + list(defines)
    key = tree_hash([inc, os.path.join(ROOT, "harness")], " ".join(flags))
    tag = f"h_{isa}_{mode}" + ("_" + hashlib.sha256(" ".join(defines).encode()).hexdigest()[:6] if defines else "")
    return os.path.join(BUILD, f"{tag}_{key}"), flags, tag


def build_harness(isa, mode, defines=()):
    exe, flags, tag = harness_path(isa, mode, defines)
    if os.path.exists(exe):
        os.utime(exe, None)
        return exe, ""
    os.makedirs(BUILD, exist_ok=True)
    # keep the three most recently used binaries of this configuration (the unchanged tree's binary survives an
    # excursion to a modified tree), drop older ones
    same = sorted((f for f in os.listdir(BUILD) if f.startswith(tag + "_") and len(f) == len(tag) + 21),
                  key=lambda f: os.path.getmtime(os.path.join(BUILD, f)), reverse=True)
    for old in same[2:]:
        try:
            os.remove(os.path.join(BUILD, old))
        except OSError:
            pass
    cmd = ["g++", "-std=c++17", "-fno-access-control", "-Wno-attributes", "-I" + os.path.join(REPO, "include"),
           "-I" + os.path.join(ROOT, "harness")] + flags + [os.path.join(ROOT, "harness/harness.cpp"), "-o", exe + ".tmp",
                                                           "-lpthread"]
    rc, out = sh(cmd, timeout=1800)
    if rc != 0:
        return None, out[-4000:]
    os.replace(exe + ".tmp", exe)
    return exe, ""


def existing_modules(mods):
    """Lean property modules that have been integrated, i.e. are imported by lean/Sonic.lean (a file that merely exists may be
    work in progress)"""
    root = open(os.path.join(LEAN, "Sonic.lean")).read()
    return [m for m in mods if re.search(r"^import\s+" + re.escape(m) + r"\s*$", root, re.M)
            and os.path.exists(os.path.join(LEAN, m.replace(".", "/") + ".lean"))]


def norm_cfg(c):
    return (c[0], c[1], tuple(c[2]) if len(c) > 2 else ())


def cfg_label(c):
    return f"{c[0]}_{c[1]}" + ("_" + hashlib.sha256(" ".join(c[2]).encode()).hexdigest()[:6] if c[2] else "")


def run_proc(cmd, infile, outfile, env=None, timeout=int(os.environ.get("VERIF_SHARD_TIMEOUT", "900"))):
    with open(infile, "rb") as fi, open(outfile, "wb") as fo, open(outfile + ".err", "wb") as fe:
        try:
            p = subprocess.run(cmd, stdin=fi, stdout=fo, stderr=fe, env=env, timeout=timeout)
            return p.returncode
        except subprocess.TimeoutExpired:
            return -999


def read_lines(path):
    with open(path, "r", errors="replace") as f:
        return f.read().split("\n")[:-1] if os.path.getsize(path) else []


class Run:
    def __init__(self, pid, tier, seed, mod):
        self.pid, self.tier, self.seed, self.mod = pid, tier, seed, mod
        self.t0 = time.time()
        self.obligations = []
        self.violations = []   # dicts: kind, desc, case, cfg, outputs
        self.known_hits = {}
        self.stats = {}
        self.tmp = os.path.join(BUILD, "tmp", pid)
        os.makedirs(self.tmp, exist_ok=True)
        os.makedirs(os.path.join(ROOT, "replays"), exist_ok=True)
        os.makedirs(os.path.join(ROOT, "evidence"), exist_ok=True)
        self.known = [k for k in json.load(open(os.path.join(ROOT, "known_findings.json")))["findings"]
                      if k["property"] == pid]

    # ---------------------------------------------------------------------------------------- running
    def driver_exe(self):
        return os.path.join(LEAN, ".lake/build/bin/sonic_model")

    def run_cases(self, cases, cfgs, label="main"):
        """Feed the cases' lines to the Lean driver (once per vector width) and to each harness config.
        Returns {cfg: [(case, model_lines, impl_lines)]}; a crashed harness yields impl_lines ending in 'CRASH ...'."""
        nshard = max(1, min(NPROC, len(cases) // 200 + 1))
        shards = [cases[i::nshard] for i in range(nshard)]
        widths = sorted({WIDTH[c[0]] for c in cfgs})
        jobs = []
        env_base = dict(os.environ)
        env_base.update(getattr(self.mod, "ENV", {}))
        for si, sh_cases in enumerate(shards):
            inf = os.path.join(self.tmp, f"{label}.{si}.in")
            with open(inf, "w") as f:
                for c in sh_cases:
                    for ln in c["lines"]:
                        f.write(ln + "\n")
            for w in widths:
                jobs.append(("model", w, si, [self.driver_exe(), str(w)], inf, os.path.join(self.tmp, f"{label}.{si}.model{w}"), env_base))
            for cfg in cfgs:
                exe = self.harness[cfg]
                env = dict(env_base)
                env.update(getattr(self.mod, "CFG_ENV", {}).get(cfg[1], {}))
                if cfg[1] == "san":
                    env.setdefault("ASAN_OPTIONS", "detect_leaks=1:malloc_fill_byte=12:abort_on_error=0:allocator_may_return_null=1")
                    env.setdefault("UBSAN_OPTIONS", "print_stacktrace=1")
                jobs.append(("impl", cfg, si, [exe], inf, os.path.join(self.tmp, f"{label}.{si}.{cfg_label(cfg)}"), env))
        with cf.ThreadPoolExecutor(max_workers=NPROC) as ex:
            futs = {ex.submit(run_proc, j[3], j[4], j[5], j[6], (getattr(self.mod, "SHARD_TIMEOUT", 300) if self.tier == "quick" else 5400)): j for j in jobs}
            rcs = {}
            for fu in cf.as_completed(futs):
                j = futs[fu]
                rcs[(j[0], j[1], j[2])] = fu.result()
        res = {cfg: [] for cfg in cfgs}
        for si, sh_cases in enumerate(shards):
            mouts = {w: read_lines(os.path.join(self.tmp, f"{label}.{si}.model{w}")) for w in widths}
            for w in widths:
                nlines = sum(len(c["lines"]) for c in sh_cases)
                if len(mouts[w]) != nlines:
                    err = open(os.path.join(self.tmp, f"{label}.{si}.model{w}.err"), errors="replace").read()[-500:]
                    raise RuntimeError(f"Lean driver produced {len(mouts[w])} lines for {nlines} commands (rc={rcs[('model', w, si)]}): {err}")
            for cfg in cfgs:
                of = os.path.join(self.tmp, f"{label}.{si}.{cfg_label(cfg)}")
                iouts = read_lines(of)
                nlines = sum(len(c["lines"]) for c in sh_cases)
                crashed = len(iouts) != nlines
                if crashed:
                    iouts = self.locate_crash(sh_cases, cfg, si, label)
                k = 0
                mo = mouts[WIDTH[cfg[0]]]
                for c in sh_cases:
                    n = len(c["lines"])
                    res[cfg].append((c, mo[k:k + n], iouts[k:k + n]))
                    k += n
        return res

    def locate_crash(self, sh_cases, cfg, si, label):
        """The harness died: re-run case by case (fresh process per case) so each crash is attributed."""
        exe = self.harness[cfg]
        env = dict(os.environ)
        env.update(getattr(self.mod, "ENV", {}))
        env.update(getattr(self.mod, "CFG_ENV", {}).get(cfg[1], {}))
        if cfg[1] == "san":
            env.setdefault("ASAN_OPTIONS", "detect_leaks=1:malloc_fill_byte=12:allocator_may_return_null=1")
        env["VERIF_FLUSH"] = "1"

        def one(c):
            data = "".join(ln + "\n" for ln in c["lines"])
            try:
                p = subprocess.run([exe], input=data.encode(), stdout=subprocess.PIPE, stderr=subprocess.PIPE, env=env,
                                   timeout=int(os.environ.get("VERIF_CASE_TIMEOUT", "40")))
                lines = p.stdout.decode(errors="replace").split("\n")[:-1]
                rc, err = p.returncode, p.stderr.decode(errors="replace")
            except subprocess.TimeoutExpired:
                lines, rc, err = [], -999, "timeout: the call did not return (non-termination)"
            if len(lines) != len(c["lines"]) or rc != 0:
                m = re.search(r"(ERROR: \w+Sanitizer: [^\n]*|runtime error: [^\n]*|SUMMARY: [^\n]*)", err)
                what = m.group(1) if m else err.strip().split("\n")[-1][:200] if err.strip() else ""
                lines = lines[:len(c["lines"])]
                lines += [f"CRASH rc={rc} {what}"] * (len(c["lines"]) - len(lines))
                if rc != 0 and not lines[-1].startswith("CRASH"):
                    lines[-1] = lines[-1] + f" CRASH rc={rc} {what}"
            return lines
        # cases are re-run in batches; once enough crashes / hangs have been located in this shard the rest is abandoned (marked, not
        # judged): a tree on which hundreds of cases hang must not stall the check for hours - a few concrete failing inputs suffice
        out = []
        # the budget of located crashes is per run and configuration, not per shard
        if not hasattr(self, "_located"):
            self._located = {}
        located = self._located.get(cfg, 0)
        limit = int(os.environ.get("VERIF_CRASH_LIMIT", "24"))
        batch = NPROC * 2
        with cf.ThreadPoolExecutor(max_workers=NPROC) as ex:
            for k in range(0, len(sh_cases), batch):
                chunk = sh_cases[k:k + batch]
                if located >= limit:
                    for c in chunk:
                        out.extend(["ABANDONED"] * len(c["lines"]))
                    continue
                for lines in ex.map(one, chunk):
                    if any("CRASH" in ln for ln in lines):
                        located += 1
                    out.extend(lines)
                self._located[cfg] = located
        return out

    # ---------------------------------------------------------------------------------------- pipeline
    def execute(self):
        mod, pid = self.mod, self.pid
        thorough = self.tier == "thorough"
        # 1 gen
        self.obligations.append(step_gen())
        # 2 prove
        ok_drv, log_drv = lake_build(["sonic_model"])
        self.obligations.append(Obligation("build:lean model driver sonic_model", ok_drv, log_drv[-3000:] if not ok_drv else ""))
        lean_modules = list(mod.LEAN_MODULES) + ["Sonic.Props.Consts"]
        required = list(mod.REQUIRED_THEOREMS) + ["Sonic.Props.Consts." + t for t in CONST_THMS.get(pid, [])]
        ok_props, log = lake_build(lean_modules)
        self.obligations.append(Obligation("prove:lake build " + " ".join(lean_modules), ok_props,
                                           ("\n".join(failing_decls(log)) + "\n" + log[-3000:]) if not ok_props else ""))
        # 3 audit
        names, axioms = [], {}
        if ok_props:
            obs, names, axioms = step_audit(pid, lean_modules, required, thorough)
            self.obligations.extend(obs)
        # 4 build harnesses
        cfgs = [norm_cfg(c) for c in (mod.CONFIGS_THOROUGH if thorough and hasattr(mod, "CONFIGS_THOROUGH") else mod.CONFIGS)]
        self.harness = {}
        with cf.ThreadPoolExecutor(max_workers=NPROC) as ex:
            futs = {ex.submit(build_harness, c[0], c[1], c[2]): c for c in cfgs}
            for fu in cf.as_completed(futs):
                c = futs[fu]
                exe, err = fu.result()
                if exe is None:
                    self.obligations.append(Obligation(f"correspondence:harness {c} builds from /repo working tree", False, err))
                else:
                    self.harness[c] = exe
        cfgs = [c for c in cfgs if c in self.harness]
        # 5 run
        rng = random.Random(self.seed * 1000003 + 17)
        cases = []
        ndistinct = 0
        if ok_drv and cfgs:
            cases = self.load_corpus() + mod.generate(rng, self.tier)
            self.judge_all(cases, cfgs, "main")
        broken = [o for o in self.obligations if not o.ok]
        # 6 search: an obligation broke but the ordinary corpus saw nothing -> widen
        if broken and not self.violations and ok_drv and cfgs and hasattr(mod, "search"):
            extra = mod.search(rng, [o.name + "\n" + o.detail for o in broken])
            if extra:
                self.judge_all(extra, cfgs, "search")
                cases += extra
        # 7 triage
        exit_code = self.report(broken, cases, cfgs, names, axioms)
        return exit_code

    def load_corpus(self):
        d = os.path.join(ROOT, "corpus", self.pid)
        cases = []
        if os.path.isdir(d):
            for f in sorted(os.listdir(d)):
                if f.endswith(".json"):
                    for c in json.load(open(os.path.join(d, f))):
                        c.setdefault("cls", "regression")
                        c["corpus"] = f
                        cases.append(c)
        return cases

    def judge_all(self, cases, cfgs, label):
        mod = self.mod
        results = self.run_cases(cases, cfgs, label)
        st = self.stats
        for cfg, rows in results.items():
            for (c, mo, io) in rows:
                if io and io[0] == "ABANDONED":
                    st["abandoned"] = st.get("abandoned", 0) + 1
                    continue
                st["evaluations"] = st.get("evaluations", 0) + 1
                v = mod.judge(c, mo, io, cfg)
                # v: None | ("violation"|"drift", description)
                if v is not None:
                    self.violations.append({"kind": v[0], "desc": v[1], "case": c, "cfg": list(cfg), "model": mo, "impl": io})
        if hasattr(mod, "cross_config"):
            for v in mod.cross_config(results):
                self.violations.append(v)
        # distribution
        dist = st.setdefault("distribution", {})
        seen = st.setdefault("_seen", set())
        for c in cases:
            dist[c.get("cls", "?")] = dist.get(c.get("cls", "?"), 0) + 1
            if c.get("nontrivial", True):
                seen.add("\n".join(c["lines"]))
        st["cases"] = st.get("cases", 0) + len(cases)
        if cases and "samples" not in st:
            step = max(1, len(cases) // 6)
            first = results[cfgs[0]]
            st["samples"] = [{"lines": c["lines"][:6], "cls": c.get("cls"), "model": mo[:6], "impl": io[:6]}
                             for (c, mo, io) in first[::step][:6]]

    def minimise(self, v):
        mod = self.mod
        if not hasattr(mod, "shrink"):
            return v
        cfg = norm_cfg(v["cfg"])
        cur = v
        budget = 200
        improved = True
        while improved and budget > 0:
            improved = False
            for cand in mod.shrink(cur["case"]):
                budget -= 1
                if budget <= 0:
                    break
                try:
                    rows = self.run_cases([cand], [cfg], "shrink")[cfg]
                except RuntimeError:
                    continue
                (c, mo, io) = rows[0]
                r = mod.judge(c, mo, io, cfg)
                if r is not None and r[0] == cur["kind"]:
                    cur = {"kind": r[0], "desc": r[1], "case": c, "cfg": list(cfg), "model": mo, "impl": io}
                    improved = True
                    break
        return cur

    def write_replay(self, payload):
        digest = hashlib.sha256(json.dumps(payload, sort_keys=True, default=str).encode()).hexdigest()[:12]
        path = os.path.join(ROOT, "replays", f"{self.pid}-{digest}.json")
        with open(path, "w") as f:
            json.dump(payload, f, indent=1, default=str)
        return path

    def report(self, broken, cases, cfgs, names, axioms):
        mod, pid = self.mod, self.pid
        lines_out = []
        nviol = 0
        # group violations: known findings first
        unknown = []
        for v in self.violations:
            kid = None
            if v["kind"] == "violation" and hasattr(mod, "known_signature"):
                kid = mod.known_signature(v)
            if kid and any(k["id"] == kid and k["status"] == "known" for k in self.known):
                self.known_hits.setdefault(kid, []).append(v)
            else:
                unknown.append(v)
        for k in self.known:
            if k["status"] == "known":
                hits = self.known_hits.get(k["id"], [])
                lines_out.append(f"KNOWN-FINDING: property={pid} {k['id']} {k['description']} (reproduced on {len(hits)} case(s) this run)")
        real = [v for v in unknown if v["kind"] == "violation"]
        drift = [v for v in unknown if v["kind"] != "violation"]
        if real:
            # report up to 3 distinct minimised violations
            seen_desc = set()
            for v in real:
                key = v["desc"].split(":")[0]
                if key in seen_desc or len(seen_desc) >= 3:
                    continue
                seen_desc.add(key)
                m = self.minimise(v)
                path = self.write_replay({"property": pid, "tier": self.tier, "seed": self.seed, "kind": "property violated by the implementation",
                                          "config": m["cfg"], "lines": m["case"]["lines"], "case": m["case"], "model_out": m["model"], "impl_out": m["impl"],
                                          "description": m["desc"], "broken_obligations": [o.name for o in broken]})
                lines_out.append(f"VIOLATION property={pid} replay={path}")
                nviol += 1
        elif drift or broken:
            payload = {"property": pid, "tier": self.tier, "seed": self.seed,
                       "kind": "proof obligation or correspondence no longer checks; no failing input found",
                       "broken_obligations": [{"name": o.name, "detail": o.detail} for o in broken],
                       "correspondence_drift": [{"config": v["cfg"], "lines": v["case"]["lines"], "model_out": v["model"], "impl_out": v["impl"],
                                                 "description": v["desc"]} for v in drift[:5]],
                       "search": f"{self.stats.get('evaluations', 0)} evaluations over {self.stats.get('cases', 0)} cases found no input on which the implementation violates the property"}
            path = self.write_replay(payload)
            lines_out.append(f"VIOLATION property={pid} replay={path} no-failing-input-found")
            nviol += 1
        self.write_evidence(broken, cases, cfgs, names, axioms, nviol, len(real), len(drift))
        # the shard inputs/outputs of a run can be gigabytes in the thorough tier: keep only the audit file (named by checker_cmd)
        if not os.environ.get("VERIF_KEEP_TMP"):
            for fn in os.listdir(self.tmp) if os.path.isdir(self.tmp) else []:
                if fn != "Audit.lean":
                    fp = os.path.join(self.tmp, fn)
                    try:
                        shutil.rmtree(fp) if os.path.isdir(fp) else os.remove(fp)
                    except OSError:
                        pass
        for ln in lines_out:
            print(ln)
        for o in broken:
            print(f"[{pid}] BROKEN obligation: {o.name}\n    {o.detail[:1500]}")
        st = self.stats
        print(f"[{pid}] tier={self.tier} seed={self.seed} obligations={len(self.obligations)} discharged={len(self.obligations) - len(broken)} "
              f"cases={st.get('cases', 0)} evaluations={st.get('evaluations', 0)} violations={len(real)} drift={len(drift)} "
              f"known={sum(len(v) for v in self.known_hits.values())} wall={time.time() - self.t0:.1f}s")
        return 1 if nviol else 0

    def write_evidence(self, broken, cases, cfgs, names, axioms, nviol, nreal, ndrift):
        mod, pid = self.mod, self.pid
        st = self.stats
        used_axioms = sorted({a for n in names for a in axioms.get(n, set())})
        cov = {
            "obligations": len(self.obligations),
            "discharged": len(self.obligations) - len(broken),
            "checker_cmd": f"cd /verif/lean && lake build {' '.join(mod.LEAN_MODULES)} Sonic.Props.Consts sonic_model && lake env lean build/tmp/{pid}/Audit.lean (#print axioms)"
                           + (" && lake env leanchecker <module>" if self.tier == "thorough" else ""),
            "trusted_base": ["Lean 4.33.0 kernel", "axioms used by the property theorems: " + (", ".join(used_axioms) or "none"),
                             "tools/dump_tables.cpp + tools/gen_tables.py (table translator; g++ evaluating the header initialisers)",
                             "harness/*.h + lib/core.py + props/%s.py (correspondence check: differential testing)" % pid.lower()] + list(getattr(mod, "TRUSTED", [])),
            "theorems": names,
            "obligation_list": [{"name": o.name, "ok": o.ok} for o in self.obligations],
            "evaluations": st.get("evaluations", 0),
            "distinct_nontrivial": len(st.get("_seen", ())),
            "rule": getattr(mod, "RULE", ""),
            "samples": st.get("samples", []),
            "distribution": st.get("distribution", {}),
            "configs": [list(c) for c in cfgs],
            "traces_validated_against_impl": st.get("evaluations", 0),
            "explanation": getattr(mod, "EXPLANATION", ""),
            "known_findings_reproduced": {k: len(v) for k, v in self.known_hits.items()},
            "correspondence_drift": ndrift,
        }
        if hasattr(mod, "extra_coverage"):
            cov.update(mod.extra_coverage(self))
        ev = {"property_id": pid, "tier": self.tier, "seed": self.seed, "level": mod.LEVEL, "coverage": cov,
              "assumptions": list(getattr(mod, "ASSUMPTIONS", [])), "wall_s": round(time.time() - self.t0, 2), "violations": nviol}
        with open(os.path.join(ROOT, "evidence", pid + ".json"), "w") as f:
            json.dump(ev, f, indent=1, default=str)

    # ---------------------------------------------------------------------------------------- replay
    def replay(self, path):
        payload = json.load(open(path))
        if "lines" not in payload:
            print(json.dumps(payload, indent=1)[:4000])
            print("replay: this file records a broken obligation / correspondence, not an input; re-run the check to re-evaluate it")
            return 0
        cfg = norm_cfg(payload.get("config") or self.mod.CONFIGS[0])
        step_gen()
        lake_build(["sonic_model"])
        exe, err = build_harness(cfg[0], cfg[1], cfg[2])
        if exe is None:
            print("replay: harness does not build:\n" + err)
            return 2
        self.harness = {cfg: exe}
        case = payload.get("case") or {"lines": payload["lines"]}
        (c, mo, io) = self.run_cases([case], [cfg], "replay")[cfg][0]
        v = self.mod.judge(c, mo, io, cfg)
        for ln, a, b in zip(c["lines"], mo, io):
            print(f"> {ln}\n  model: {a}\n  impl : {b}")
        if v is None:
            print("replay: no violation on the current tree")
            return 0
        print(f"replay: {v[0]}: {v[1]}")
        print(f"VIOLATION property={self.pid} replay={path}")
        return 1
