"""Parser / printer for the canonical tree rendering of the line protocol (see protocol/parse.md).
Python values: None, True/False, ("u",int), ("i",int), ("d",int bits), ("s",bytes), ("arr",[...]), ("obj",[(bytes,val),...])"""


def parse(s):
    v, i = _val(s, 0)
    if i != len(s):
        raise ValueError("trailing characters in tree: " + s[i:i + 20])
    return v


def _hex(s, i):
    j = i
    while j < len(s) and s[j] in "0123456789abcdef-":
        j += 1
    h = s[i:j]
    return (b"" if h == "-" else bytes.fromhex(h)), j


def _int(s, i):
    j = i
    if j < len(s) and s[j] == "-":
        j += 1
    while j < len(s) and s[j].isdigit():
        j += 1
    return int(s[i:j]), j


def _val(s, i):
    c = s[i]
    if c == "n":
        return None, i + 1
    if c == "t":
        return True, i + 1
    if c == "f":
        return False, i + 1
    if c in "uid":
        n, j = _int(s, i + 1)
        return (c, n), j
    if c == "s":
        b, j = _hex(s, i + 1)
        return ("s", b), j
    if c == "[":
        xs = []
        i += 1
        if s[i] == "]":
            return ("arr", xs), i + 1
        while True:
            v, i = _val(s, i)
            xs.append(v)
            if s[i] == ",":
                i += 1
            elif s[i] == "]":
                return ("arr", xs), i + 1
            else:
                raise ValueError("bad array in tree")
    if c == "{":
        kv = []
        i += 1
        if s[i] == "}":
            return ("obj", kv), i + 1
        while True:
            if s[i] != "k":
                raise ValueError("bad object in tree")
            k, i = _hex(s, i + 1)
            if s[i] != ":":
                raise ValueError("bad member in tree")
            v, i = _val(s, i + 1)
            kv.append((k, v))
            if s[i] == ",":
                i += 1
            elif s[i] == "}":
                return ("obj", kv), i + 1
            else:
                raise ValueError("bad object in tree")
    raise ValueError("bad tree at %d: %r" % (i, s[i:i + 10]))


def show(v):
    if v is None:
        return "n"
    if v is True:
        return "t"
    if v is False:
        return "f"
    k = v[0]
    if k in "uid" and len(k) == 1 and k != "s" and not isinstance(v[1], (bytes, list)):
        return k + str(v[1])
    if k == "s":
        return "s" + (v[1].hex() or "-")
    if k == "arr":
        return "[" + ",".join(show(x) for x in v[1]) + "]"
    if k == "obj":
        return "{" + ",".join("k" + (kk.hex() or "-") + ":" + show(x) for kk, x in v[1]) + "}"
    raise ValueError(v)


def has_dup_keys(v):
    if isinstance(v, tuple):
        if v[0] == "arr":
            return any(has_dup_keys(x) for x in v[1])
        if v[0] == "obj":
            ks = [k for k, _ in v[1]]
            return len(set(ks)) != len(ks) or any(has_dup_keys(x) for _, x in v[1])
    return False


def all_finite(v):
    if isinstance(v, tuple):
        if v[0] == "d":
            return ((v[1] >> 52) & 0x7FF) != 0x7FF
        if v[0] == "arr":
            return all(all_finite(x) for x in v[1])
        if v[0] == "obj":
            return all(all_finite(x) for _, x in v[1])
    return True
