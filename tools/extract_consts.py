#!/usr/bin/env python3
"""Second half of the source translator: constants that live INSIDE function bodies of the headers (growth factors, reserve
sizes, padding arithmetic, fixed-point logarithm multipliers, thresholds) are extracted textually from /repo's current
source on every run and written to lean/Sonic/Gen/SourceConsts.lean.  `Sonic/Props/Consts.lean` proves that each extracted
value is the one the hand-written models use, so an edit of such a constant in the source breaks a proof obligation even
before the correspondence run sees a behavioural difference.  A pattern that no longer matches (the code was restructured)
is reported as a broken obligation too: the tie for that constant is then no longer checked."""
import os
import re
import sys

# (lean name, file relative to include/sonic, regex with one capture group per value, [lean names of the groups])
SPECS = [
    ("dom/handler.h", r"size_t cap = len / (\d+) \+ (\d+);\s*if \(cap < (\d+)\) cap = \3;", ["saxCapDiv", "saxCapAdd", "saxCapMin"]),
    ("dom/schema_handler.h", r"size_t cap = len / (\d+) \+ (\d+);\s*if \(cap < (\d+)\) cap = \3;", ["schemaCapDiv", "schemaCapAdd", "schemaCapMin"]),
    ("dom/generic_document.h", r"size_t pad_len = len \+ (\d+);\s*str_ = ", ["docPad"]),
    ("dom/generic_document.h", r"str_\[len\] = '(.)';\s*str_\[len \+ 1\] = '(.)';\s*str_\[len \+ 2\] = '(.)';", ["sentinel0", "sentinel1", "sentinel2"]),
    ("dom/dynamicnode.h", r"constexpr size_t k_default_obj_cap = (\d+);", ["objDefaultCap"]),
    ("dom/dynamicnode.h", r"constexpr size_t k_default_array_cap = (\d+);", ["arrDefaultCap"]),
    ("dom/dynamicnode.h", r"cap \+= \(cap \+ (\d+)\) / (\d+);  // grow by factor 1\.5", ["objGrowAdd", "objGrowDiv"]),
    ("dom/dynamicnode.h", r"size_t new_cap = cap \? cap \+ \(cap \+ (\d+)\) / (\d+) : k_default_array_cap;", ["arrGrowAdd", "arrGrowDiv"]),
    ("dom/serialize.h", r"constexpr size_t kExpectMinifyRatio = (\d+);", ["serMinifyRatio"]),
    ("dom/serialize.h", r"constexpr size_t kNumberSize = (\d+);", ["serNumberSize"]),
    ("dom/serialize.h", r"size_t estimate = node_nums \* kExpectMinifyRatio \+ (\d+);", ["serEstimateAdd"]),
    ("dom/serialize.h", r"inc_len = str_len \* (\d+) \+ (\d+) \+ (\d+);", ["serStrMul", "serStrAdd1", "serStrAdd2"]),
    ("internal/stack.h", r"static constexpr size_t defaultCapcity\(\) \{ return (\d+); \}", ["stackDefaultCap"]),
    ("internal/arch/common/x86_common/quote.inc.h", r"#define PAGE_SIZE (\d+)", ["quotePageSize"]),
    ("internal/arch/common/x86_common/quote.inc.h", r"\(PAGE_SIZE - 1\)\) <= \(PAGE_SIZE - VEC_LEN \* (\d+)\)", ["quoteTailVecs"]),
    ("internal/arch/avx2/base.h", r"static constexpr size_t VecLen = (\d+);\s*static constexpr size_t PageSize = (\d+);", ["memcmpVecLen", "memcmpPageSize"]),
    ("dom/parser.h", r"#define FLOATING_LONGEST_DIGITS (\d+)", ["numLongestDigits"]),
    ("dom/parser.h", r"if \(man_nd > (\d+)\) \{  // slow path", ["numMaxIntDigits"]),
    ("dom/parser.h", r"if \(sonic_likely\(exp < (\d+)\)\) \{", ["numExpCap"]),
    ("dom/parser.h", r"exp10 = exp10_wide > (\d+)\s*\? \1\s*: exp10_wide < -\1\s*\? -\1", ["numExp10Clamp"]),
    ("internal/atof_native.h", r"if \(exp < (\d+)\) \{\s*exp = exp \* 10", ["decExpCap"]),
    ("internal/atof_native.h", r"d->dp = dp_wide > (\d+)\s*\? \1\s*: dp_wide < -\1\s*\? -\1", ["decDpClamp"]),
    ("dom/parser.h", r"\(man >> (\d+)\) == 0 && exp10 <= \((\d+) \+ (\d+)\) && exp10 >= -(\d+)", ["numFastManBits", "numFastExpA", "numFastExpB", "numFastExpNeg"]),
    ("dom/parser.h", r"!trunc && exp10 > -(\d+) \+ (\d+) && exp10 < \+(\d+) - (\d+)", ["numNfLoA", "numNfLoB", "numNfHiA", "numNfHiB"]),
    ("dom/parser.h", r"uint8_t \*dst = \(uint8_t \*\)alloc\.Malloc\(sn \+ (\d+)\);", ["lazyKeySlack"]),
    ("internal/ftoa.h", r"k = \(q \* (\d+) - \(irregular \? (\d+) : 0\)\) >> (\d+);", ["ftoaLog10Mul", "ftoaLog10Irr", "ftoaLog10Shift"]),
    ("internal/ftoa.h", r"h = q \+ \(\(-k\) \* (\d+) >> (\d+)\) \+ 1;", ["ftoaLog2Mul", "ftoaLog2Shift"]),
    ("internal/ftoa.h", r"bool exp_fmt = sci_exp < -(\d+) \|\| sci_exp > (\d+);", ["ftoaSciLo", "ftoaSciHi"]),
    ("internal/parse_number_normal_fast.h", r"exp2 = \(\((\d+) \* exp10 - (\d+)\) >> (\d+)\) - lz;", ["nfLog2Mul", "nfLog2Sub", "nfLog2Shift"]),
    ("internal/atof_native.h", r"#define DECIMAL_MAX_DNUM (\d+)", ["decimalMaxDigits"]),
    ("internal/atof_native.h", r"#define MAX_SHIFT (\d+)", ["decimalMaxShift"]),
    ("internal/atof_native.h", r"\(\(uint64_t\)\(\((\d+) \* exp10\) >> (\d+)\) \+ 64 \+ 1023\)", ["elLog2Mul", "elLog2Shift"]),
    ("internal/arch/simd_skip.h", r"kbuf\.resize\(sn \+ (\d+)\);", ["odKeySlack"]),
    ("internal/arch/common/x86_common/skip.inc.h", r"if \(pos \+ (\d+) \+ (\d+) > len\) \{", ["skipSafeBlock", "skipSafeProbes"]),
    ("internal/arch/common/unicode_common.h", r"digit_to_val32\[(\d+) \+ src\[0\]\];\s*uint32_t v2 = digit_to_val32\[(\d+) \+ src\[1\]\];\s*uint32_t v3 = digit_to_val32\[(\d+) \+ src\[2\]\];\s*uint32_t v4 = digit_to_val32\[(\d+) \+ src\[3\]\];",
     ["hexOff0", "hexOff1", "hexOff2", "hexOff3"]),
    ("internal/arch/common/unicode_common.h", r"code_point >= 0x([0-9a-fA-F]+) && code_point < 0x([0-9a-fA-F]+)\) \{\s*if \(\(\(\*src_ptr\)\[0\]", ["surHiLo:hex", "surHiEnd:hex"]),
    ("allocator.h", r"\(\(\(x\) \+ static_cast<size_t>\((\d+)u\)\) & ~static_cast<size_t>\(\1u\)\)", ["poolAlignMask"]),
    ("allocator.h", r"#define SONIC_ALLOCATOR_DEFAULT_CHUNK_CAPACITY \((\d+) \* (\d+)\)", ["poolDefaultChunkA", "poolDefaultChunkB"]),
    # SIMD literal constants of the scanners: the 16-entry nibble tables of GetNonSpaceBits (both ISAs) and the bytes StringBlock::Find compares with
    ("internal/arch/avx2/unicode.h", r"const auto whitespace_table =\s*simd256<uint8_t>::repeat_16\(([^)]*)\);", ["wsTabAvx2:list"]),
    ("internal/arch/sse/unicode.h", r"\n  __m128i whitespace_table =\s*_mm_setr_epi8\(([^)]*)\);", ["wsTabSse:list"]),
    ("internal/arch/avx2/unicode.h", r"\(v == '(\\\\|.)'\)\.to_bitmask\(\)\),\s*static_cast<uint32_t>\(\(v == '(\\\\|.)'\)\.to_bitmask\(\)\),\s*static_cast<uint32_t>\(\(v <= '\\x([0-9a-fA-F]+)'\)\.to_bitmask\(\)\)",
     ["sbBackslashAvx2:chr", "sbQuoteAvx2:chr", "sbCtrlMaxAvx2:hex"]),
    ("internal/arch/sse/unicode.h", r"_mm_cmpeq_epi8\(v, _mm_set1_epi8\('(\\\\|.)'\)\)\)\),\s*static_cast<uint32_t>\(\s*_mm_movemask_epi8\(_mm_cmpeq_epi8\(v, _mm_set1_epi8\('(\\\\|.)'\)\)\)\),\s*static_cast<uint32_t>\(_mm_movemask_epi8\(\s*_mm_and_si128\(_mm_cmplt_epi8\(v, _mm_set1_epi8\('\\x([0-9a-fA-F]+)'\)\),\s*_mm_cmpgt_epi8\(v, _mm_set1_epi8\((-?\d+)\)\)",
     ["sbBackslashSse:chr", "sbQuoteSse:chr", "sbCtrlLtSse:hex", "sbCtrlGtSse:int8"]),
]


def _item(tok):
    """value of one C initialiser item: integer literal or character literal"""
    tok = tok.strip()
    if tok.startswith("'"):
        body = tok[1:-1]
        esc = {"\\t": 9, "\\n": 10, "\\r": 13, "\\\\": 92, "\\'": 39, "\\0": 0}
        if body in esc:
            return esc[body]
        if body.startswith("\\x"):
            return int(body[2:], 16)
        return ord(body)
    return int(tok, 0) & 0xFF


def main():
    inc = os.path.join(sys.argv[1], "sonic")
    out_path = sys.argv[2]
    lines = ["-- GENERATED by tools/extract_consts.py from /repo's current source (constants inside function bodies). DO NOT EDIT.\n",
             "namespace Sonic.Gen.Src\n"]
    cache = {}
    missing = []
    for rel, rx, names in SPECS:
        if rel not in cache:
            try:
                cache[rel] = open(os.path.join(inc, rel)).read()
            except OSError:
                cache[rel] = ""
        m = re.search(rx, cache[rel])
        if not m:
            missing.append(f"{rel}: pattern for {', '.join(names)} not found")
            continue
        for n, g in zip(names, m.groups()):
            if n.endswith(":list"):
                n = n[:-5]
                vals = [_item(x) for x in g.split(",") if x.strip()]
                lines.append(f"def {n} : List Nat := {vals}")
                continue
            if n.endswith(":chr"):
                n, v = n[:-4], (92 if g == "\\\\" else ord(g))
                lines.append(f"def {n} : Nat := {v}")
                continue
            if n.endswith(":int8"):
                n, v = n[:-5], int(g) & 0xFF
                lines.append(f"def {n} : Nat := {v}")
                continue
            if n.endswith(":hex"):
                n, v = n[:-4], int(g, 16)
            elif g.isdigit():
                v = int(g)
            else:
                v = ord(g)
            lines.append(f"def {n} : Nat := {v}")
    # shared mutable state: every `static` / `thread_local` VARIABLE (not const / constexpr, not a function) declared anywhere in
    # the library headers - a new one is a new way for independent threads / documents to interact (C17, C13)
    stat = []
    rx_static = re.compile(r"^\s*(?:static|thread_local)\s+(?!const\b|constexpr\b|inline\b|sonic_\w+|SONIC_\w+|__attribute__)"
                           r"([\w:<>,\*&\s]+?)\s+(\w+)\s*(?:\{[^}]*\}|=[^;]*|\[[^\]]*\]|\(\s*(?:[\d\"'{][^)]*)?\))?\s*;")
    for root, _dirs, files in sorted(os.walk(inc)):
        for fn in sorted(files):
            if not fn.endswith(".h"):
                continue
            path = os.path.join(root, fn)
            for line in open(path, errors="replace"):
                m = rx_static.match(line)
                if m:
                    stat.append(f"{os.path.relpath(path, inc)}:{' '.join(m.group(1).split())} {m.group(2)}")
    lines.append("def mutableStatics : List String := [" + ", ".join('"' + x + '"' for x in stat) + "]")
    if missing:
        print("extract_consts: " + "; ".join(missing), file=sys.stderr)
        sys.exit(2)
    lines.append("\nend Sonic.Gen.Src\n")
    text = "\n".join(lines)
    old = open(out_path).read() if os.path.exists(out_path) else None
    if old != text:
        with open(out_path, "w") as f:
            f.write(text)
        print("extract_consts: wrote", out_path)
    else:
        print("extract_consts: unchanged", out_path)


if __name__ == "__main__":
    main()
