#!/usr/bin/env python3
"""Writes seeded/<id>/meta.json from a small table (property, what the change needs in order to manifest) and the
result.json left by tools/eval_seed.py (what was run, which checks caught it)."""
import json
import os

ROOT = os.path.dirname(os.path.dirname(os.path.abspath(__file__)))
INFO = {
 "C01-a": ("C01", "parser.h: NormalFast guard `exp10 < 308-20` rewritten as `308-FLOATING_LONGEST_DIGITS`: a pure-integer 19-digit mantissa >= 1797693134862315808 with e290 is accepted as inf/NaN instead of rejected",
           "a 19-digit integer mantissa directly followed by an exponent making exp10 == 290 (overflow probes like 1e309 still rejected)"),
 "C02-a": ("C02", "handler.h: `node()` rewritten branch-free as `np_++ < cap_`: when the node stack is exhausted np_ ends at cap_+1 and TearDown destroys one slot beyond the stack",
           "an invalid text that exhausts the node stack (e.g. 17 x '[') AND a freeing allocator (SimpleAllocator); inert with the pool allocator"),
 "C03-a": ("C03", "parser.h: depth vector replaced by a small-buffer stack whose first spill copies 4 instead of 16 counters: members/array kind of levels 5..16 forgotten",
           "nesting depth >= 17 with a sibling member before the deep child (silent member loss) or an array at levels 5..16 (valid text rejected)"),
 "C04-a": ("C04", "parse_number_normal_fast.h: tie guard `add + 1 > 1` rewritten as `add != ~0`: exact halfway decimals in the table-multiply path round half-up instead of ties-to-even",
           "a double spelling with mantissa >= 2^52, <= 19 digits, effective exponent 0..27, that is an exact tie with an even lower neighbour (e.g. 9007199254740993e0)"),
 "C05-a": ("C05", "unicode.h (avx2+sse) HasQuoteFirst no longer excludes control bytes and quote.inc.h reorders the first loop only: a raw control byte after the first escape, in the same block window as the closing quote, is accepted",
           "a literal with an escape, then >= W-2 plain bytes, then a raw control byte and the closing quote in one find_and_move window"),
 "C06-a": ("C06", "stack.h Grow: `top_+cnt > buf_+2*cap_` simplified to `cnt > 2*cap_` (ignores bytes already in the buffer): serializer writes past the write buffer",
           "a buffer already holding > ~32 bytes and a string dominated by control bytes (6n+35 worst case actually used), e.g. [\"x\"*56, \"\\x01\"*163] with the default buffer"),
 "C07-a": ("C07", "ftoa.h: `(irregular ? 524031 : 0)` rewritten `(524031 & irregular)` (= 1): the 3/4 correction of the decimal exponent is dropped for exact powers of two",
           "one of 33 binary exponents (e.g. bits 0x00c0000000000000) with significand field 0; every other double unaffected"),
 "C08-a": ("C08", "x86_common/itoa.h: lane tables rewritten in decimal, 0x20c5 (8389) transcribed as 8388: the /1000 lane is one too small for 4-digit groups k000",
           "a value with >= 9 digits whose aligned 4-digit group in the low 8/16 digits is exactly k000 (0.18% of 8-digit groups); no 10^k boundary hits it"),
 "C09-a": ("C09", "quote.inc.h: production tail guard `PAGE_SIZE - VEC_LEN*2` tightened to `PAGE_SIZE - VEC_LEN`: vector load into the next page after an escape in the tail",
           "non-sanitizer build, string ending 1..W-2 bytes before an unmapped page with an escape-needing byte in the tail"),
 "C10-a": ("C10", "skip.inc.h GetStringBits: carried `prev_escaped` dropped when the next 64-byte block has no backslash: an escaped quote at a block edge closes the string",
           "a skipped container holding a string with \\\" whose backslash is byte 63 of a 64-byte skip block and the next block has no backslash (1 alignment in 64)"),
 "C11-a": ("C11", "skip_common.h SkipLiteral: per-case bounds checks hoisted into one 4-byte check: `false` cut after `fals` reads data[len] and may return a slice/offset beyond the input",
           "the path resolves to an f-literal with exactly 4 input bytes left, buffer ending at an unmapped page / exact-size heap block"),
 "C12-a": ("C12", "dynamicnode.h removeMemberImpl: map entry patched in place; when the removed member IS the tail its map entry is no longer erased (stale entry)",
           "CreateMap; RemoveMember(last member K); AddMember(other key): lookups of K now hit the new member"),
 "C13-a": ("C13", "dynamicnode.h: DestroyMap refactored into MetaNode::ReleaseMap without `setMap(nullptr)`: dangling map pointer, double release on later destruction",
           "CreateMap, then DestroyMap or EraseMember while the object lives on, then any later touch/destruction, with a freeing allocator"),
 "C14-a": ("C14", "avx2/base.h in_page_32: `a | b` replaced by max(a,b): the lower-addressed operand's page offset is never checked",
           "static AVX2 production build, length 1..31, the LOWER-addressed operand within 31 bytes of an unmapped page and the other operand in-page"),
 "C15-a": ("C15", "sse/unicode.h StringBlock::Find: control bound `< 0x20` changed to `< 0x1f`: only the static SSE build accepts a raw 0x1f before the first escape",
           "SSE build only, byte 0x1f before the first backslash of a literal"),
 "C16-a": ("C16", "allocator.h Realloc: `newSize = SONIC_ALIGN(newSize)` dropped: in-place growth bumps the chunk size by an unaligned amount",
           "a growing Realloc of the most recent block to a size that is not a multiple of 8, then any further allocation"),
 "C17-a": ("C17", "allocator.h Realloc: the tail-block test moved outside LOCK_GUARD (lock-contention 'optimisation')",
           "-DSONIC_LOCKED_ALLOCATOR, >= 2 threads on one pool, one calling Realloc on its most recent block while another allocates"),
 "C18-a": ("C18", "dynamicnode.h operator==: numbers compared by IsDouble class + 8-byte payload instead of kind + whole node: uint >= 2^63 equals the negative int with the same bits",
           "a uint64 >= 2^63 compared with the int64 of the same bit pattern (e.g. 18446744073709551615 vs -1)"),
 "C19-a": ("C19", "generic_document.h allocateSchemaStringBuffer frees the previous schema buffer ('leak fix') although kStringCopy nodes still point into it",
           "freeing allocator, >= 2 ParseSchema calls, an earlier call having built a container with keys/strings that survives"),
 "C20-a": ("C20", "skip.inc.h SkipString: the `escaped` flag is computed from the last block only: long escaped keys are classified plain and keep their raw spelling",
           "a key with an escape whose raw spelling is >= 32 bytes (16 for SSE) and whose last backslash is in a block before the one with the closing quote"),
 "C01-b": ("C01", "unicode.h (avx2+sse) HasQuoteFirst loses its `&& !HasUnescaped()` guard and parseStringInplace reorders only its FIRST loop: the copy loop after the first escape accepts raw control bytes",
           "a string with an escape, then a raw byte < 0x20 at least one vector width into the string, in the same window as the closing quote"),
 "C02-b": ("C02", "generic_document.h allocateStringBuffer keeps the previous string buffer when `str_cap_ >= len` (padded capacity compared with unpadded length): reparse of a longer text overruns the buffer by up to 64 bytes",
           "non-freeing pool allocator, one document parsed twice, second text 1..64 bytes longer than the first, something behind the buffer that notices (guard page / exact chunk)"),
 "C03-b": ("C03", "avx2/base.h Xmemcpy<32>/<16>: bulk of >= 2 KiB handed to std::memcpy without advancing src/dst: the last count%4 members / count%8 elements of big containers stay uninitialised",
           "AVX2 build, an array of >= 128 elements with count%8 != 0 or an object of >= 64 members with count%4 != 0"),
 "C04-b": ("C04", "atof_native.h AtofEiselLemire64: exponent range check moved before the rounding step: a mantissa that carries out at exponent 0x7FE yields +-inf, stored instead of rejected",
           "a value in [DBL_MAX + half ulp, 2^1024) spelled so that it reaches Eisel-Lemire untruncated (e.g. 1.7976931348623159e308)"),
 "C05-b": ("C05", "skip.inc.h SkipString: `found` (escape seen) becomes per-block instead of sticky: long escaped ON-DEMAND keys are compared raw",
           "an on-demand key of >= 32 (SSE 16) raw bytes whose last backslash is in an earlier block than the closing quote"),
 "C06-b": ("C06", "ftoa.h F64toa: non-finite test rewritten as `(raw<<1) == (EXP_MASK<<1)`: only +-inf rejected, every NaN serialises as a finite-looking number",
           "a real node holding any NaN"),
 "C07-b": ("C07", "ftoa.h Pow10CeilSig table row -1 loses one hex digit of its low word (under-estimate): wrong / non-shortest digits",
           "integer-valued doubles in [2^56, 2^59) whose rounding-interval end point is a multiple of 100 (~2% of those binades)"),
 "C08-b": ("C08", "itoa.h Utoa_1_8 5~6 digit branch: `val/10000` replaced by a 25-bit reciprocal multiply that is one too large for 96 inputs",
           "val in 9x9984..9x9999 (x=4..9) as the 1..8 digit group, e.g. 999999 or 10^14-1"),
 "C09-b": ("C09", "quote_common.h DoEscape peeks the next source byte before testing the remaining length: reads src[len]",
           "last byte needs escaping and is consumed by the full-vector loop (e.g. len 32 / 16) and src+len is unmapped"),
 "C10-b": ("C10", "skip.inc.h SkipString reports kEscaped only when an escaped QUOTE was seen: keys with \\n, \\u.. are compared raw by GetOnDemand",
           "path targets a key with a non-quote escape and >= VEC_LEN bytes follow the key's opening quote"),
 "C11-b": ("C11", "skip.inc.h SkipString scalar tail rewritten with `cur != end`: after `if (prev_escaped) pos++` the cursor starts past the end and scans beyond the buffer",
           "text cut inside a string, bytes after the opening quote a non-zero multiple of the vector width, last byte an unescaped backslash"),
 "C12-b": ("C12", "dynamicnode.h addMemberImpl keys the lookup map on the CALLER's key buffer instead of the stored copy",
           "CreateMap before AddMember(copyKey) with a key buffer that is later reused / freed, then any lookup or RemoveMember"),
 "C13-b": ("C13", "dynamicnode.h eraseImpl shifts the tail with std::move (move assignment destroys the already-destroyed slots again): double free",
           "freeing allocator, Erase of a range containing an owning element with at least one element after it"),
 "C14-b": ("C14", "avx2/base.h cmp_lt_32 takes the sign from _mm256_cmpgt_epi8 (signed bytes)",
           "AVX2 static build without sanitizer, < 32 byte in-page operands whose first differing bytes straddle 0x80"),
 "C15-b": ("C15", "skip.inc.h SkipString calls GetEscaped<32> instead of GetEscaped<VEC_LEN>: the SSE build never carries an escape across blocks",
           "SSE build only: a backslash in lane 15 of a 16-byte block with the escaped quote (or closing quote after \\\\) first in the next block, >= 16 more bytes after it"),
 "C16-b": ("C16", "allocator.h AdaptiveChunkPolicy::ChunkSize early-return rewrite: when the next power of two is clamped to 64 KiB a request larger than that gets a chunk smaller than itself",
           "adaptive policy with a current chunk size < 64 KiB and one request > 64 KiB that does not fit the current chunk"),
 "C17-b": ("C17", "allocator.h SpinLock::lock with compare_exchange_weak whose `expected` is never reset: a waiter can 'acquire' a lock another thread has just taken",
           "SONIC_LOCKED_ALLOCATOR build, >= 2 threads contending on one pool"),
 "C18-b": ("C18", "dynamicnode.h removeMemberImpl decrements the length before the map maintenance: the tail key's old map entry is never erased and shadows the new one",
           "object with a lookup map, RemoveMember of a member that is not the last, object then used as the right-hand side of =="),
 "C19-b": ("C19", "schema_handler.h: matched-key counter saved only for in-place objects; the rebuilt-object EndObject resumes the wrong count: later declared keys of a nested in-place object are skipped",
           "a non-root in-place object with a member rebuilt from a text object, followed by further declared members, parent having matched enough keys"),
 "C20-b": ("C20", "lazy_update.h shares one Parser (and so one SkipScanner with its cached 64-byte non-space bitmap) across all lazy parses of an UpdateLazy call",
           "pretty-printed inputs (>= 2 blanks before a token with >= 66 bytes remaining) and a later text / nested slice parsed in the same call"),
}
for sid, (prop, what, needs) in INFO.items():
    d = os.path.join(ROOT, "seeded", sid)
    if not os.path.isdir(d):
        continue
    res = {}
    rp = os.path.join(d, "result.json")
    if os.path.exists(rp):
        res = json.load(open(rp))
    meta = {"id": sid, "breaks_property": prop, "change": what, "needs_to_manifest": needs,
            "origin": "written by a fresh sub-agent that saw only the property text and its own scratch worktree of /repo",
            "confirmed": {"existing_tests": "173 passed + the 6 baseline failures with the change (tools in /tmp/seedtools/run_tests.sh, run by the sub-agent)",
                          "demo": res.get("demo", {}), "how": "python3 tools/eval_seed.py seeded/%s <props> (demo on pristine/patched copy of include/, then git -C /repo apply; check.py; git checkout)" % sid},
            "checks": {p: {"caught": bool(v.get("violation_lines")), "violation": (v.get("violation_lines") or [""])[0], "summary": v.get("summary"), "wall_s": v.get("wall_s")}
                       for p, v in res.get("checks", {}).items()}}
    json.dump(meta, open(os.path.join(d, "meta.json"), "w"), indent=1)
print("meta written")
