#!/usr/bin/env python3
"""Writes seeded/<id>/meta.json from a small table (property, what the change needs in order to manifest) and the
result.json left by tools/eval_seed.py (what was run, which checks caught it)."""
import json
import os

ROOT = os.path.dirname(os.path.dirname(os.path.abspath(__file__)))
INFO = {
 "C01-a": ("C01", "parser.h: NormalFast guard `exp10 < 308-20` rewritten as `308-FLOATING_LONGEST_DIGITS`: a pure-integer 19-digit mantissa >= 1797693134862315808 with e290 is accepted as inf/NaN instead of rejected",
           "a 19-digit integer mantissa directly followed by an exponent making exp10 == 290 (overflow probes like 1e309 still rejected)"),
 "C02-a": ("C02", "handler.h: `node()` rewritten branch-free as `np_++ < cap_`: when the node stack is exhausted np_ ends at cap_+1 and TearDown destroys one slot beyond the stack",
           "an invalid text that exhausts the node stack (e.g. 17 x '[') AND a freeing allocator (SimpleAllocator); inert with the pool allocator"),
 "C03-a": ("C03", "parser.h: depth vector replaced by a small-buffer stack whose first spill copies 4 instead of 16 counters: members/array kind of levels 5..16 forgotten",
           "nesting depth >= 17 with a sibling member before the deep child (silent member loss) or an array at levels 5..16 (valid text rejected)"),
 "C04-a": ("C04", "parse_number_normal_fast.h: tie guard `add + 1 > 1` rewritten as `add != ~0`: exact halfway decimals in the table-multiply path round half-up instead of ties-to-even",
           "a double spelling with mantissa >= 2^52, <= 19 digits, effective exponent 0..27, that is an exact tie with an even lower neighbour (e.g. 9007199254740993e0)"),
 "C05-a": ("C05", "unicode.h (avx2+sse) HasQuoteFirst no longer excludes control bytes and quote.inc.h reorders the first loop only: a raw control byte after the first escape, in the same block window as the closing quote, is accepted",
           "a literal with an escape, then >= W-2 plain bytes, then a raw control byte and the closing quote in one find_and_move window"),
 "C06-a": ("C06", "stack.h Grow: `top_+cnt > buf_+2*cap_` simplified to `cnt > 2*cap_` (ignores bytes already in the buffer): serializer writes past the write buffer",
           "a buffer already holding > ~32 bytes and a string dominated by control bytes (6n+35 worst case actually used), e.g. [\"x\"*56, \"\\x01\"*163] with the default buffer"),
 "C07-a": ("C07", "ftoa.h: `(irregular ? 524031 : 0)` rewritten `(524031 & irregular)` (= 1): the 3/4 correction of the decimal exponent is dropped for exact powers of two",
           "one of 33 binary exponents (e.g. bits 0x00c0000000000000) with significand field 0; every other double unaffected"),
 "C08-a": ("C08", "x86_common/itoa.h: lane tables rewritten in decimal, 0x20c5 (8389) transcribed as 8388: the /1000 lane is one too small for 4-digit groups k000",
           "a value with >= 9 digits whose aligned 4-digit group in the low 8/16 digits is exactly k000 (0.18% of 8-digit groups); no 10^k boundary hits it"),
 "C09-a": ("C09", "quote.inc.h: production tail guard `PAGE_SIZE - VEC_LEN*2` tightened to `PAGE_SIZE - VEC_LEN`: vector load into the next page after an escape in the tail",
           "non-sanitizer build, string ending 1..W-2 bytes before an unmapped page with an escape-needing byte in the tail"),
 "C10-a": ("C10", "skip.inc.h GetStringBits: carried `prev_escaped` dropped when the next 64-byte block has no backslash: an escaped quote at a block edge closes the string",
           "a skipped container holding a string with \\\" whose backslash is byte 63 of a 64-byte skip block and the next block has no backslash (1 alignment in 64)"),
 "C11-a": ("C11", "skip_common.h SkipLiteral: per-case bounds checks hoisted into one 4-byte check: `false` cut after `fals` reads data[len] and may return a slice/offset beyond the input",
           "the path resolves to an f-literal with exactly 4 input bytes left, buffer ending at an unmapped page / exact-size heap block"),
 "C12-a": ("C12", "dynamicnode.h removeMemberImpl: map entry patched in place; when the removed member IS the tail its map entry is no longer erased (stale entry)",
           "CreateMap; RemoveMember(last member K); AddMember(other key): lookups of K now hit the new member"),
 "C13-a": ("C13", "dynamicnode.h: DestroyMap refactored into MetaNode::ReleaseMap without `setMap(nullptr)`: dangling map pointer, double release on later destruction",
           "CreateMap, then DestroyMap or EraseMember while the object lives on, then any later touch/destruction, with a freeing allocator"),
 "C14-a": ("C14", "avx2/base.h in_page_32: `a | b` replaced by max(a,b): the lower-addressed operand's page offset is never checked",
           "static AVX2 production build, length 1..31, the LOWER-addressed operand within 31 bytes of an unmapped page and the other operand in-page"),
 "C15-a": ("C15", "sse/unicode.h StringBlock::Find: control bound `< 0x20` changed to `< 0x1f`: only the static SSE build accepts a raw 0x1f before the first escape",
           "SSE build only, byte 0x1f before the first backslash of a literal"),
 "C16-a": ("C16", "allocator.h Realloc: `newSize = SONIC_ALIGN(newSize)` dropped: in-place growth bumps the chunk size by an unaligned amount",
           "a growing Realloc of the most recent block to a size that is not a multiple of 8, then any further allocation"),
 "C17-a": ("C17", "allocator.h Realloc: the tail-block test moved outside LOCK_GUARD (lock-contention 'optimisation')",
           "-DSONIC_LOCKED_ALLOCATOR, >= 2 threads on one pool, one calling Realloc on its most recent block while another allocates"),
 "C18-a": ("C18", "dynamicnode.h operator==: numbers compared by IsDouble class + 8-byte payload instead of kind + whole node: uint >= 2^63 equals the negative int with the same bits",
           "a uint64 >= 2^63 compared with the int64 of the same bit pattern (e.g. 18446744073709551615 vs -1)"),
 "C19-a": ("C19", "generic_document.h allocateSchemaStringBuffer frees the previous schema buffer ('leak fix') although kStringCopy nodes still point into it",
           "freeing allocator, >= 2 ParseSchema calls, an earlier call having built a container with keys/strings that survives"),
 "C20-a": ("C20", "skip.inc.h SkipString: the `escaped` flag is computed from the last block only: long escaped keys are classified plain and keep their raw spelling",
           "a key with an escape whose raw spelling is >= 32 bytes (16 for SSE) and whose last backslash is in a block before the one with the closing quote"),
}
for sid, (prop, what, needs) in INFO.items():
    d = os.path.join(ROOT, "seeded", sid)
    if not os.path.isdir(d):
        continue
    res = {}
    rp = os.path.join(d, "result.json")
    if os.path.exists(rp):
        res = json.load(open(rp))
    meta = {"id": sid, "breaks_property": prop, "change": what, "needs_to_manifest": needs,
            "origin": "written by a fresh sub-agent that saw only the property text and its own scratch worktree of /repo",
            "confirmed": {"existing_tests": "173 passed + the 6 baseline failures with the change (tools in /tmp/seedtools/run_tests.sh, run by the sub-agent)",
                          "demo": res.get("demo", {}), "how": "python3 tools/eval_seed.py seeded/%s <props> (demo on pristine/patched copy of include/, then git -C /repo apply; check.py; git checkout)" % sid},
            "checks": {p: {"caught": bool(v.get("violation_lines")), "violation": (v.get("violation_lines") or [""])[0], "summary": v.get("summary"), "wall_s": v.get("wall_s")}
                       for p, v in res.get("checks", {}).items()}}
    json.dump(meta, open(os.path.join(d, "meta.json"), "w"), indent=1)
print("meta written")
