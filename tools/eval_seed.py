#!/usr/bin/env python3
"""eval_seed.py <seed-dir> <property> [<property>...]
Confirms a seeded change (patch.diff + demo) and runs the registered quick checks against it:
  1. the demo passes on the pristine /repo include tree and fails with the patch (in a scratch copy of include/),
  2. `git -C /repo apply patch.diff`; python3 check.py <prop> (quick) for each property; `git -C /repo checkout -- .`
Writes <seed-dir>/result.json (which checks reported a VIOLATION, replay path, wall time).  /repo is always restored."""
import json
import os
import shutil
import subprocess
import sys
import tempfile
import time

ROOT = os.path.dirname(os.path.dirname(os.path.abspath(__file__)))
REPO = "/repo"


def sh(cmd, **kw):
    p = subprocess.run(cmd, stdout=subprocess.PIPE, stderr=subprocess.STDOUT, text=True, errors="replace", **kw)
    return p.returncode, p.stdout


def main():
    sd = os.path.abspath(sys.argv[1])
    props = sys.argv[2:]
    patch = os.path.join(sd, "patch.diff")
    res = {"seed": os.path.basename(sd), "checks": {}}
    if os.path.exists(os.path.join(sd, "result.json")):
        try:
            res["checks"] = json.load(open(os.path.join(sd, "result.json"))).get("checks", {})
        except Exception:
            pass
    rc, out = sh(["git", "-C", REPO, "status", "--porcelain", "--untracked-files=no"])
    if out.strip():
        print("refusing: /repo has uncommitted changes:\n" + out)
        sys.exit(2)
    # 1 demo before/after in a scratch copy
    demo = os.path.join(sd, "build_and_run.sh")
    if os.path.exists(demo):
        tmp = tempfile.mkdtemp(prefix="seedinc_")
        try:
            shutil.copytree(os.path.join(REPO, "include"), os.path.join(tmp, "include"))
            rc0, o0 = sh(["bash", demo, os.path.join(tmp, "include")], cwd=sd, timeout=1800)
            rc, o = sh(["git", "apply", "--directory", tmp, "-p1", "--unsafe-paths", patch]) if False else sh(["patch", "-p1", "-d", tmp, "-i", patch])
            rc1, o1 = sh(["bash", demo, os.path.join(tmp, "include")], cwd=sd, timeout=1800)
            res["demo"] = {"pristine_rc": rc0, "patched_rc": rc1, "pristine_tail": o0[-300:], "patched_tail": o1[-400:], "patch_applied": rc == 0}
        finally:
            shutil.rmtree(tmp, ignore_errors=True)
    # 2 checks against the patched /repo
    rc, out = sh(["git", "-C", REPO, "apply", patch])
    if rc != 0:
        print("patch does not apply to /repo:\n" + out)
        sys.exit(2)
    try:
        for p in props:
            t = time.time()
            rc, out = sh([sys.executable, os.path.join(ROOT, "check.py"), p], cwd=ROOT, timeout=7200)
            viol = [l for l in out.split("\n") if l.startswith("VIOLATION")]
            summ = [l for l in out.split("\n") if l.startswith("[" + p + "]")]
            res["checks"][p] = {"exit": rc, "violation_lines": viol, "summary": summ[-1] if summ else "", "wall_s": round(time.time() - t, 1)}
            print(p, "exit", rc, viol[:1], summ[-1] if summ else "")
    finally:
        sh(["git", "-C", REPO, "checkout", "--", "."])
    json.dump(res, open(os.path.join(sd, "result.json"), "w"), indent=1)


if __name__ == "__main__":
    main()
