#!/usr/bin/env python3
"""Writes /verif/MANIFEST.json from the property modules under props/ (run by hand after adding a check)."""
import importlib, json, os, sys
ROOT = os.path.dirname(os.path.dirname(os.path.abspath(__file__)))
sys.path.insert(0, ROOT)
props = [json.loads(l) for l in open(os.path.join(ROOT, "properties.jsonl"))]
checks, na = [], []
for p in props:
    pid = p["id"]
    try:
        m = importlib.import_module("props." + pid.lower())
    except ImportError:
        na.append({"property_id": pid, "reason": "check under construction (model/proofs not yet integrated); see DESIGN.md section 7 for the plan"})
        continue
    checks.append({
        "property_id": pid,
        "quick_cmd": f"python3 check.py {pid} --tier quick",
        "thorough_cmd": f"python3 check.py {pid} --tier thorough",
        "evidence_file": f"/verif/evidence/{pid}.json",
        "replay_cmd_template": f"python3 check.py {pid} --replay {{path}}",
        "engine": "lean4-proof+correspondence",
        "level_claimed": {"category": m.LEVEL, "text": m.LEVEL_TEXT, "design_ref": f"DESIGN.md section 7 ({pid})"},
        "level_note": m.LEVEL_NOTE,
        "technique": m.TECHNIQUE,
    })
man = {
    "version": 1,
    "setup_cmd": "python3 setup.py",
    "hooks": {"guard": "SONIC_VERIF", "enable": "none needed: the harness reaches private state with -fno-access-control and supplies its own allocators as template arguments; /repo carries no instrumentation",
              "baseline_off_cmd": "cmake --build /repo/_build && cd /repo/_build && ./tests/unittest", "source_commits": [], "add_only": True},
    "engines": [{"name": "lean4-proof+correspondence", "path": "/verif/check.py", "serves_properties": [c["property_id"] for c in checks],
                 "kind_free_text": "Lean 4 theorems about executable models (lean/Sonic), tables regenerated from /repo source on every run, models tied to the compiled code by a line-protocol differential (harness/ vs lean driver sonic_model)"}],
    "checks": checks,
    "not_applicable": na,
    "notes": "Every check regenerates lean/Sonic/Gen/Tables.lean from /repo/include, rebuilds and audits the Lean theorems, rebuilds the C++ harness from /repo's working tree and runs the correspondence; see DESIGN.md.",
}
json.dump(man, open(os.path.join(ROOT, "MANIFEST.json"), "w"), indent=1)
print("checks:", [c["property_id"] for c in checks], "n/a:", len(na))
