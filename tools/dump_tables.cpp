// Dumps, as JSON on stdout, the lookup tables and named constants of sonic-cpp as the compiler sees
// them in /repo's current working tree.  tools/gen_tables.py turns the JSON into Sonic/Gen/Tables.lean.
// Built with:  g++ -std=c++17 -O0 -I/repo/include -mavx2 -mpclmul -mbmi -mlzcnt -fno-access-control tools/dump_tables.cpp


#include <cinttypes>
#include <cstdio>
#include <cstring>

#include "sonic/sonic.h"
#include "sonic/experiment/lazy_update.h"

using namespace sonic_json;
using namespace sonic_json::internal;

static bool first_key = true;
static void key(const char* k) {
  printf("%s\n \"%s\": ", first_key ? "" : ",", k);
  first_key = false;
}
template <typename T>
static void arr(const char* k, const T* p, size_t n) {
  key(k);
  printf("[");
  for (size_t i = 0; i < n; i++) printf("%s%" PRIu64, i ? "," : "", (uint64_t)p[i]);
  printf("]");
}
static void num(const char* k, long long v) {
  key(k);
  printf("%lld", v);
}

int main() {
  printf("{");
  // ---- itoa
  arr("kDigits", (const uint8_t*)kDigits, 200);
  arr("kVec16xAsc0", (const uint8_t*)x86_common::kVec16xAsc0, 16);
  arr("kVec8x10", x86_common::kVec8x10, 8);
  arr("kVec4x10k", x86_common::kVec4x10k, 4);
  arr("kVec4xDiv10k", x86_common::kVec4xDiv10k, 4);
  arr("kVecDivPowers", x86_common::kVecDivPowers, 8);
  arr("kVecShiftPowers", x86_common::kVecShiftPowers, 8);
  // ---- quote / unescape tables
  arr("kEscapedMap", kEscapedMap, 256);
  arr("kNeedEscaped", kNeedEscaped, 256);
  {
    key("kQuoteTabN");
    printf("[");
    for (int i = 0; i < 256; i++) printf("%s%ld", i ? "," : "", kQuoteTab[i].n);
    printf("]");
    key("kQuoteTabS");  // the 8 bytes DoEscape stores for each byte value
    printf("[");
    for (int i = 0; i < 256; i++) {
      printf("%s[", i ? "," : "");
      if (kQuoteTab[i].s)  // null pointer for bytes that are never escaped -> empty row
        for (int j = 0; j < 8; j++) printf("%s%u", j ? "," : "", (unsigned)(uint8_t)kQuoteTab[i].s[j]);
      printf("]");
    }
    printf("]");
  }
  arr("digit_to_val32", common::digit_to_val32, 886);
  // ---- atof
  {
    key("kPow10M128Tab");  // rows [lo, hi]
    printf("[");
    for (int i = 0; i < 697; i++)
      printf("%s[%" PRIu64 ",%" PRIu64 "]", i ? "," : "", kPow10M128Tab[i][0], kPow10M128Tab[i][1]);
    printf("]");
    key("kPow10Tab");  // bit patterns
    printf("[");
    for (int i = 0; i < 23; i++) {
      uint64_t b;
      memcpy(&b, &kPow10Tab[i], 8);
      printf("%s%" PRIu64, i ? "," : "", b);
    }
    printf("]");
    arr("kPowTab", kPowTab, 9);
    key("LSHIFT_TAB");
    printf("[");
    for (int i = 0; i < 61; i++) {
      printf("%s[%d,\"%s\"]", i ? "," : "", LSHIFT_TAB[i].delta, LSHIFT_TAB[i].cutoff);
    }
    printf("]");
    arr("kUint8PopCnt", kUint8PopCnt, 256);
  }
  // ---- ftoa
  {
    key("Pow10CeilSig");  // k = -292..324, rows [hi, lo]
    printf("[");
    for (int k = -292; k <= 324; k++) {
      uint64x2 g = Pow10CeilSig(k);
      printf("%s[%" PRIu64 ",%" PRIu64 "]", k == -292 ? "" : ",", g.hi, g.lo);
    }
    printf("]");
  }
  // ---- enums / sizes
  num("kNull", kNull); num("kBool", kBool); num("kNumber", kNumber); num("kString", kString);
  num("kRaw", kRaw); num("kObject", kObject); num("kArray", kArray); num("kFalse", kFalse);
  num("kTrue", kTrue); num("kUint", kUint); num("kSint", kSint); num("kReal", kReal);
  num("kStringCopy", kStringCopy); num("kStringFree", kStringFree); num("kStringConst", kStringConst);
  num("kBasicTypeMask", kBasicTypeMask); num("kSubTypeMask", kSubTypeMask); num("kInfoBits", kInfoBits);
  num("kContainerMask", kContainerMask);
  num("kErrorNone", kErrorNone); num("kParseErrorEof", kParseErrorEof);
  num("kParseErrorInvalidChar", kParseErrorInvalidChar); num("kParseErrorInfinity", kParseErrorInfinity);
  num("kParseErrorUnEscaped", kParseErrorUnEscaped); num("kParseErrorEscapedFormat", kParseErrorEscapedFormat);
  num("kParseErrorEscapedUnicode", kParseErrorEscapedUnicode); num("kParseErrorInvalidUTF8", kParseErrorInvalidUTF8);
  num("kParseErrorUnknownObjKey", kParseErrorUnknownObjKey);
  num("kParseErrorArrIndexOutOfRange", kParseErrorArrIndexOutOfRange);
  num("kParseErrorMismatchType", kParseErrorMismatchType); num("kSerErrorUnsupportedType", kSerErrorUnsupportedType);
  num("kSerErrorInfinity", kSerErrorInfinity); num("kSerErrorInvalidObjKey", kSerErrorInvalidObjKey);
  num("kErrorNoMem", kErrorNoMem); num("kParseErrorUnexpect", kParseErrorUnexpect);
  num("SONICJSON_PADDING", SONICJSON_PADDING);
  num("sizeofNode", sizeof(Node)); num("sizeofMemberNode", sizeof(typename Node::MemberNode));
  num("SONIC_DEFAULT_CHUNK_CAPACITY", SONIC_ALLOCATOR_DEFAULT_CHUNK_CAPACITY);
  num("SONIC_MIN_CHUNK_CAPACITY", SONIC_ALLOCATOR_MIN_CHUNK_CAPACITY);
  num("SONIC_MAX_CHUNK_CAPACITY", SONIC_ALLOCATOR_MAX_CHUNK_CAPACITY);
  {
    using P = MemoryPoolAllocator<>;
    num("SIZEOF_SHARED_DATA", P::SIZEOF_SHARED_DATA);
    num("SIZEOF_CHUNK_HEADER", P::SIZEOF_CHUNK_HEADER);
  }
  printf("\n}\n");
  return 0;
}
