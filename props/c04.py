"""C04 - Numbers parse to the exact integer or the correctly rounded double."""
import re
import struct
from fractions import Fraction

ID = "C04"
LEVEL = "proof"
from lib.core import existing_modules
LEAN_MODULES = ["Sonic.Props.C04"]
REQUIRED_THEOREMS = ["Sonic.Props.C04." + n for n in ["C04_tables", "C04_scan_grammar", "C04_int_kinds", "C04_accumulate", "C04_zero", "C04_fast_exact",
                                                         "C04_fast_path_correct", "Rne_monotone", "C04_retry_sound", "Rne_spec", "C04_el_correct",
                                                         "C04_el_path_correct", "C04_normalfast_correct", "C04_normalfast_path_correct", "C04_decimal_correct",
                                                         "C04_decimal_shift_exact", "C04_native_path_correct", "C04_native_guard_needed", "C04_parseNumber_correct", "C04_parseNumber_correct'",
                                                         "C04_parseNumber_malformed", "C04_parseNumber_shape", "C04_parseNumber_congr", "C04_number_agrees_padded", "C04_native_never_faults"]]
CONFIGS = [("avx2", "prod"), ("sse", "prod"), ("avx2", "san")]
CONFIGS_THOROUGH = CONFIGS + [("dyn", "prod"), ("sse", "san")]
RULE = ("number texts: for every decimal exponent -348..347 (every row of the power-of-ten table) mantissas 1, 2^53-1, 2^53+1, 10^16-1, "
        "10^19-1, 2^64-1 and random ones; exact halfway decimals between adjacent doubles of random binades (incl. subnormal/normal "
        "boundary and the largest finite) and the two neighbours one unit in the last written digit away, written with 17..770 digits; "
        "19/20-digit integers around 2^63, 2^64, 10^19 with both signs; zeros with up to 400 digits and exponents; mantissas of 20..1200 "
        "digits with/without '.' and 'e'; exponents up to +-99999; malformed number spellings; primitives AtofEiselLemire64, "
        "ParseFloatingNormalFast, AtofNative, simd_str2int on raw operands.  distinct = distinct command line; non-trivial = well-formed "
        "number with a fraction, an exponent or more than 15 digits")
EXPLANATION = ("Proved in Lean for ALL inputs: the power-of-ten tables against exact integer bounds, the scanner grammar, integer kinds, digit "
               "accumulation bounds, zero handling, and every conversion path against the exact reference Spec.Rne.round: the exact fast path "
               "(C04_fast_path_correct), yyjson's normal-fast path (C04_normalfast_correct), Eisel-Lemire with the man/man+1 retry "
               "(C04_el_correct, C04_el_path_correct) and the 800-digit big-decimal fallback for texts of any length (C04_decimal_correct, "
               "C04_native_path_correct). The run compares each result with Spec.Rne (exact round-to-nearest-even on big naturals, itself "
               "proved against the definition) and with the literal Lean models of the five paths (same value, same error code/offset).")
ASSUMPTIONS = ["hardware (double)uint64, * and / are correctly rounded (modelled as Rne of the exact result)",
               "number tokens shorter than 2^32 bytes",
               "a fraction-without-exponent token directly followed by '.' (invalid JSON, rejected right afterwards): AtofNative sees the rest "
               "of the buffer and the value handed to the handler is not the token's (C04_native_guard_needed)"]
TRUSTED = ["Spec.Rne.round (exact big-natural rounding) as oracle; compiled Lean evaluation"]
LEVEL_TEXT = ("Machine-checked proof (Lean 4) of the complete number parser model against the exact reference: grammar, integer kinds, zero, "
              "accumulation, and every conversion path (exact fast path, normal-fast, Eisel-Lemire with retry, 800-digit big-decimal fallback) "
              "for number texts of any length below 2^32 bytes and ANY written exponent (C04_parseNumber_correct; after the fix of finding F6 "
              "the 64-bit exponent accumulators saturate only where no digit count can compensate). Infinity <-> the infinity error. The model "
              "is tied to the compiled code by the correspondence run (value, kind, code, offset per path) against Spec.Rne on every input.")
LEVEL_NOTE = "Trusted: Lean kernel; standard axioms; table translator; IEEE hardware arithmetic; compiled Lean evaluation of the spec."
TECHNIQUE = "Lean 4 proof of all conversion paths (fast, normal-fast, Eisel-Lemire, big-decimal) + exact big-number reference oracle + differential correspondence"


def hx(b):
    return b.hex() if b else "-"


def _halfway(rng):
    """exact decimal of the midpoint between two adjacent finite doubles, as digit string and exponent"""
    while True:
        bits = rng.getrandbits(63)
        r = rng.random()
        if r < 0.1:
            bits = rng.randrange(0, 1 << 53)           # subnormal / first binades
        elif r < 0.15:
            bits = (0x7FE << 52) | rng.getrandbits(52)  # largest binade
        elif r < 0.2:
            bits = (rng.randrange(1, 0x7FE) << 52) | rng.choice([0, (1 << 52) - 1])
        if (bits >> 52) >= 0x7FF or ((bits + 1) >> 52) >= 0x7FF:
            continue
        f = Fraction(struct.unpack("<d", struct.pack("<Q", bits))[0])
        g = Fraction(struct.unpack("<d", struct.pack("<Q", bits + 1))[0])
        mid = (f + g) / 2
        k = mid.denominator.bit_length() - 1
        return mid.numerator * 5 ** k, -k


def _spell(rng, m, e):
    """write m*10^e with a random position of the decimal point / exponent"""
    s = str(m)
    style = rng.random()
    if style < 0.4:
        return ("%se%d" % (s, e)).encode()
    if style < 0.7:
        p = rng.randrange(1, len(s) + 1)
        frac = s[p:]
        return ((s[:p] + ("." + frac if frac else "")) + "e%d" % (e + len(frac))).encode()
    if e < 0 and -e < len(s) + 40 and len(s) < 900:
        if -e >= len(s):
            return ("0." + "0" * (-e - len(s)) + s).encode()
        return (s[:e] + "." + s[e:]).encode()
    if 0 <= e < 40:
        return (s + "0" * e).encode() if rng.random() < 0.5 else (s + "0" * e + ".0").encode()
    return ("%sE%+d" % (s, e)).encode()


def generate(rng, tier):
    quick = tier == "quick"
    texts = []
    T = texts.append
    mans = [1, 2, 9, 2 ** 53 - 1, 2 ** 53 + 1, 10 ** 16 - 1, 10 ** 16 + 1, 10 ** 19 - 1, 2 ** 64 - 1, 9007199254740993]
    for e in range(-348, 348):
        for m in (mans if not quick else rng.sample(mans, 3)) + [rng.randrange(1, 2 ** 64) for _ in range(1 if quick else 6)]:
            T(("%de%d" % (m, e)).encode())
    for _ in range(2500 if quick else 400000):
        m, e = _halfway(rng)
        for dm in (-1, 0, 1):
            extra = rng.choice([0, 0, 1, 3, 30, 200]) if dm else 0
            mm = m * 10 ** (extra + 1) + dm
            T(_spell(rng, mm, e - extra - 1))
    # the same midpoints with a non-zero digit pushed out to EXACTLY the capacity of the big-decimal digit store (800) and its neighbours: the
    # sticky "truncated" flag is then produced by the shift routines (not by the reader), for magnitudes above and below one
    for _ in range(150 if quick else 2500):
        m, e = _halfway(rng)
        nd = len(str(m))
        for N in (798, 799, 800, 801, 802, 810):
            if nd + 1 < N:
                extra = N - nd - 1
                for dm in (-1, 1):
                    T(_spell(rng, m * 10 ** (extra + 1) + dm, e - extra - 1))
    # overflow / underflow boundaries spelled with every mantissa width 1..19 (the guards of the fast paths depend on the
    # digit count): largest finite, first decimal that rounds to infinity, and around the smallest subnormal
    from fractions import Fraction as _F
    dmax = _F(struct.unpack("<d", struct.pack("<Q", 0x7FEFFFFFFFFFFFFF))[0])
    over = dmax + _F(2) ** 969          # DBL_MAX + half ulp: rounds to infinity (tie to even -> up)
    tiny = _F(1, 2 ** 1075)             # half the smallest subnormal: rounds to zero (tie to even)
    for nd in range(1, 20):
        e = 308 - (nd - 1)
        m_over = -((-over.numerator) // (over.denominator * 10 ** e))   # ceil
        for m in (m_over - 1, m_over, m_over + 1, 10 ** nd - 1, 10 ** (nd - 1)):
            if m > 0:
                T(("%de%d" % (m, e)).encode())
                T(("-%dE+%d" % (m, e)).encode())
                T(("%de%d" % (m, e + 1)).encode())
        e2 = -324 - (nd - 1)
        m_t = (tiny.numerator * 10 ** (-e2)) // tiny.denominator
        for m in (m_t - 1, m_t, m_t + 1, m_t * 2, m_t * 3 + 1):
            if m > 0:
                T(("%de%d" % (m, e2)).encode())
    for base in (2 ** 63, 2 ** 64, 10 ** 19, 10 ** 18, 2 ** 53, 10 ** 20):
        for d in range(-3, 4):
            T(str(base + d).encode())
            T(b"-" + str(base + d).encode())
            T(str(base + d).encode() + b".0")
            T(str(base + d).encode() + b"e0")
    for nz in [0, 1, 2, 16, 17, 18, 21, 22, 23, 24, 40, 100, 400]:
        for sign in (b"", b"-"):
            T(sign + b"0." + b"0" * nz + b"0")
            T(sign + b"0." + b"0" * nz + b"0e5")
            T(sign + b"0." + b"0" * nz + b"0e-5")
            T(sign + b"0e" + str(nz).encode())
            T(sign + b"0." + b"0" * nz + b"1")
            T(sign + b"0." + b"0" * nz + b"1e" + str(nz).encode())
    for nd in ([20, 21, 40, 100, 400, 799, 800, 801, 1200] if not quick else [20, 21, 100, 800, 801]):
        for _ in range(3 if quick else 40):
            digs = str(rng.randrange(10 ** (nd - 1), 10 ** nd))
            T(digs.encode())
            T((digs + "e-%d" % rng.randrange(0, nd + 20)).encode())
            p = rng.randrange(1, nd)
            T((digs[:p] + "." + digs[p:]).encode())
            T((digs[:p] + "." + digs[p:] + "e%d" % rng.randrange(-400, 400)).encode())
            T(("1" + "0" * (nd - 1) + "e-%d" % (nd - 1)).encode())
    for ex in [0, 1, 22, 23, 37, 38, 287, 288, 308, 309, 310, 400, 9999, 10000, 10001, 99999]:
        for m in (b"1", b"9.99", b"0.001", b"123456789012345678"):
            T(m + b"e" + str(ex).encode())
            T(m + b"e-" + str(ex).encode())
    for _ in range(4000 if quick else 300000):
        f = struct.unpack("<d", struct.pack("<Q", rng.getrandbits(63)))[0]
        if f == f and f != float("inf"):
            T(repr(f).encode())
    for bad in [b"", b"-", b"+1", b".5", b"1.", b"1.e5", b"1e", b"1e+", b"1e-", b"01", b"-01", b"00", b"1.2.3", b"1ee5", b"0x10", b"1e5.5",
                b"--1", b"1-", b"1a", b"Infinity", b"NaN", b"-.5", b"1e+-5", b"0.e1", b"1_000"]:
        T(bad)
    cases = []
    for t in texts:
        wf = re.fullmatch(rb"-?(0|[1-9][0-9]*)(\.[0-9]+)?([eE][+-]?[0-9]+)?", t) is not None
        cases.append({"lines": [f"atof {hx(t)}"], "cls": "atof/wellformed" if wf else "atof/malformed",
                      "nontrivial": wf and (b"." in t or b"e" in t or b"E" in t or len(t) > 15)})
    # primitives on raw operands
    for e in range(-348, 348):
        for m in [1, 2 ** 53 + 1, 2 ** 64 - 1, 10 ** 19 - 1] + [rng.randrange(1, 2 ** 64) for _ in range(1 if quick else 8)]:
            cases.append({"lines": [f"prim-el {m} {e} {rng.randrange(2)}"], "cls": "prim-el"})
            if -307 < e < 288:
                cases.append({"lines": [f"prim-nf {m} {e} {rng.randrange(2)}"], "cls": "prim-nf"})
    for _ in range(800 if quick else 60000):
        m, e = _halfway(rng)
        t = _spell(rng, m * 10 + rng.choice([-1, 0, 1]), e - 1)
        cases.append({"lines": [f"prim-native {hx(t)}"], "cls": "prim-native"})
    for n in range(0, 18):
        for k in range(0, 18):
            t = bytes(rng.choice(b"0123456789") for _ in range(k)) + bytes([rng.choice(b"xe.\"] ")])
            cases.append({"lines": [f"prim-str2int {n} {hx(t)}"], "cls": "prim-str2int"})
    return cases


def _split(line):
    head, _, spec = line.partition(" spec=")
    d = {"spec": spec.strip() if spec else None}
    parts = head.split()
    d["root"] = parts[0] if parts else ""
    for p in parts[1:]:
        if "=" in p:
            k, v = p.split("=", 1)
            d[k] = v
    return d


def judge(case, mo, io, cfg):
    cmd = case["lines"][0].split()[0]
    if "CRASH" in io[0]:
        return ("violation", f"number parsing crashed: {io[0][:200]} for `{case['lines'][0][:160]}`")
    if cmd != "atof":
        if mo[0] != io[0] and not (cmd == "prim-nf" and io[0] == "fail" and False):
            return ("drift", f"primitive model and implementation differ: `{case['lines'][0][:120]}` model={mo[0]} impl={io[0]}")
        return None
    m, i = _split(mo[0]), _split(io[0])
    if m["root"] == "na" or i["root"] == "na":
        return None
    spec = m["spec"]
    r = i["root"]
    if spec and spec != "inf" and spec[0] in "uid":
        if r != spec:
            return ("violation", f"number value/kind differs from the exact reference: impl={r} spec={spec} for `{case['lines'][0][:200]}`")
        if i.get("arr") not in (spec, "na"):
            return ("violation", f"number as array element differs from the exact reference: impl={i.get('arr')} spec={spec}")
    elif spec == "inf":
        if not r.startswith("err3@"):
            return ("violation", f"a number that rounds to infinity was not rejected with the infinity error: impl={r} for `{case['lines'][0][:200]}`")
        if not str(i.get("arr", "")).startswith("err3@") and i.get("arr") != "na":
            return ("violation", f"a number that rounds to infinity inside an array was not rejected with the infinity error: impl={i.get('arr')}")
    elif spec == "malformed":
        if not r.startswith("err"):
            return ("violation", f"malformed number accepted: impl={r} for `{case['lines'][0][:200]}`")
    if m["root"] != r or (m.get("arr") != i.get("arr") and "na" not in (m.get("arr"), i.get("arr"))):
        return ("drift", f"model and implementation differ (value, error code or offset): model={mo[0][:160]} impl={io[0][:160]}")
    return None


def known_signature(v):
    line = v["case"]["lines"][0]
    if line.startswith("atof "):
        t = bytes.fromhex(line.split()[1]) if line.split()[1] != "-" else b""
        mm = re.search(rb"[eE][+-]?([0-9]+)$", t)
        if len(t) > 100000 and mm and len(mm.group(1).lstrip(b"0")) >= 6:
            return "F6"
    return None


def search(rng, broken):
    return generate(rng, "thorough")
