"""C05 - String literals decode exactly per RFC 8259 escapes, wherever they sit."""
ID = "C05"
LEVEL = "proof"
from lib.core import existing_modules
LEAN_MODULES = existing_modules(["Sonic.Props.C05"]) + ["Sonic.Spec.Json"]
REQUIRED_THEOREMS = ["Sonic.Props.C05." + n for n in ["C05_escmap", "C05_hex4", "C05_utf8", "C05_surrogates", "C05_block_idioms",
                                                         "C05_decode_at", "C05_decode", "C05_width_independent", "C05_prefix_preserved"]]
CONFIGS = [("avx2", "prod"), ("sse", "prod"), ("avx2", "san"), ("sse", "san"), ("dyn", "prod")]
CONFIGS_THOROUGH = CONFIGS + [("dyn", "san")]
RULE = ("string literals (bytes after the opening quote): each of the 8 simple escapes, \\u of every UTF-8 length class, valid surrogate "
        "pairs, every malformed kind (unknown escape, bad hex digit at each of the 4 positions, lone low / lone high / high+non-low / "
        "high+non-\\u, truncated escapes), every control byte and every raw byte 0..255 placed at every offset 0..2W inside literals of "
        "every length up to 3W+2, terminated by a quote or running into the sentinel; all (quick: sampled) 65536 \\uXXXX values in upper "
        "and lower case hex; pairs (hi,lo) over boundary and random sets; padding bytes 0x00/0x22/0x5c/0xaa; every valid escape x offset x tail length "
        "again inside documents: as a value and as a key of a full Parse (oracle: the tree the text denotes) and as an on-demand key "
        "(the decoded key is the path; oracle: the member it resolves to).  distinct = distinct "
        "command line; non-trivial = contains an escape, a control byte or is longer than one vector")
EXPLANATION = ("Theorems tie the generated escape/hex tables to RFC 8259 (C05_escmap, C05_hex4), prove UTF-8 encoding and surrogate "
               "pairing of the model for all 16-bit units (C05_utf8, C05_surrogates) and C05_decode_at: for every vector width 0<W<=63, "
               "every literal at every buffer position and every padding the block-wise in-place decoder never faults, terminates and equals "
               "the byte-at-a-time Spec.decodeLit (C05_width_independent is the corollary). The run compares the "
               "compiled parseStringInplace with Spec.decodeLit (accept/reject, bytes, end index) and with the model (error code, whole buffer).")
ASSUMPTIONS = ["SIMD compare/movemask/load/store have their per-byte meaning", "the buffer really has 64 readable bytes after the input (C16/C02)"]
TRUSTED = ["per-byte meaning of the SSE/AVX2 primitives used by StringBlock"]
LEVEL_TEXT = ("Machine-checked proof (Lean 4): the decoder's tables, UTF-8/surrogate arithmetic, the mask idioms and the full block-wise "
              "in-place decoder for every vector width, literal, position and padding equal the byte-at-a-time RFC 8259 spec; differential correspondence of the compiled decoder against the byte-at-a-time "
              "spec and the model in avx2/sse production and sanitizer builds.")
LEVEL_NOTE = "Trusted: Lean kernel; standard axioms; table translator; per-byte meaning of SIMD primitives (validated by the run)."
TECHNIQUE = "Lean 4 theorems over a literal model + generated tables; differential correspondence against a byte-at-a-time spec"

SIMPLE = [b'\\"', b'\\\\', b'\\/', b'\\b', b'\\f', b'\\n', b'\\r', b'\\t']
GOODU = [b'\\u0041', b'\\u00e9', b'\\u20AC', b'\\uFFFF', b'\\u0000', b'\\u007f', b'\\u0080', b'\\u07ff', b'\\u0800', b'\\ud83d\\ude00',
         b'\\uD800\\uDC00', b'\\udbff\\udfff']
BAD = [b'\\q', b'\\u', b'\\u1', b'\\u12', b'\\u123', b'\\u12G4', b'\\uG234', b'\\u1G34', b'\\u123g', b'\\ude00', b'\\ud83d',
       b'\\ud83dx', b'\\ud83d\\n', b'\\ud83d\\u0041', b'\\ud83d\\ud83d', b'\\ud83d\\ue000', b'\\ud83d\\uDBFF', b'\\ud83d\\u', b'\\ud83d\\uDC0',
       b'\\', b'\\U0041', b'\\x41', b'\\0', b'\\a', b'\\v', b"\\'", b'\\ud83d\\uDC0G', b'\\udc00\\ud800']
PADS = [0x00, 0x22, 0x5C, 0xAA]


def _hex(bs):
    return bytes(bs).hex() if bs else "-"


def generate(rng, tier):
    quick = tier == "quick"
    cases = []

    def add(payload, cls, nontrivial=True):
        cases.append({"lines": [f"parsestr {rng.choice(PADS)} {_hex(payload)}"], "cls": cls, "nontrivial": nontrivial})
    filler = lambda n: bytes(rng.choice(b"abcdefgXYZ 09[]{}:,") for _ in range(n))
    W2 = 66
    items = [(e, "simple-escape") for e in SIMPLE] + [(e, "unicode-escape") for e in GOODU] + [(e, "malformed-escape") for e in BAD]
    offsets = range(0, W2) if not quick else list(range(0, 36)) + [47, 48, 62, 63, 64, 65]
    for tok, cls in items:
        for off in offsets:
            tails = [0, 1, 17, 40] if not quick else [rng.choice([0, 1, 17, 40])]
            for tail in tails:
                for closed in (True, False):
                    if quick and not closed and rng.random() < 0.6:
                        continue
                    p = filler(off) + tok + filler(tail) + (b'"' + filler(rng.randrange(0, 5)) if closed else b"")
                    add(p, cls + ("" if closed else "/unterminated"))
    # raw byte values at offsets
    for b in range(256):
        for off in ([0, 15, 16, 31, 32, 33] if quick else range(0, W2)):
            add(filler(off) + bytes([b]) + filler(rng.randrange(0, 40)) + b'"', "rawbyte<0x20" if b < 0x20 else "rawbyte", b < 0x20 or off > 16)
    # plain literals of every length, closed / unterminated
    for n in range(0, 100):
        add(filler(n) + b'"', "plain", n > 16)
        add(filler(n), "plain/unterminated", n > 16)
    # all \u values
    step = 16 if quick else 1
    start = rng.randrange(step)
    for cp in list(range(start, 65536, step)) + [0xD7FF, 0xD800, 0xDBFF, 0xDC00, 0xDFFF, 0xE000]:
        hx = ("%04x" if rng.random() < 0.5 else "%04X") % cp
        add(filler(rng.randrange(0, 34)) + b"\\u" + hx.encode() + b'"', "all-u16")
    # pairs
    bset = [0xD7FF, 0xD800, 0xD801, 0xDBFF, 0xDC00, 0xDC01, 0xDFFF, 0xE000, 0x0041, 0xFFFF]
    pairs = [(h, l) for h in bset for l in bset]
    for _ in range(1500 if quick else 200000):
        pairs.append((rng.randrange(0xD700, 0xE100) if rng.random() < 0.8 else rng.randrange(65536), rng.randrange(0xD700, 0xE100) if rng.random() < 0.8 else rng.randrange(65536)))
    for h, l in pairs:
        add(filler(rng.randrange(0, 34)) + b"\\u%04x\\u%04x" % (h, l) + filler(rng.randrange(0, 3)) + b'"', "u16-pairs")
    # random mixtures
    for _ in range(3000 if quick else 300000):
        parts = []
        for _ in range(rng.randrange(1, 8)):
            r = rng.random()
            if r < 0.45:
                parts.append(filler(rng.randrange(0, 40)))
            elif r < 0.7:
                parts.append(rng.choice(SIMPLE))
            elif r < 0.88:
                parts.append(rng.choice(GOODU))
            elif r < 0.95:
                parts.append(rng.choice(BAD))
            else:
                parts.append(bytes([rng.randrange(256)]))
        add(b"".join(parts) + (b'"' if rng.random() < 0.85 else b""), "random-mix")
    # the same literals in their three positions inside a document: as a VALUE and as a KEY of a fully parsed document (judged by
    # C03's oracle: the tree the text denotes) and as an ON-DEMAND KEY (the decoded key is the path; judged by C10's oracle: the lookup
    # must resolve to the member's value). Escape kind x offset x tail length so that the escape and the closing quote fall in
    # the same / adjacent / distant vector blocks, with a long rest of document so that the vector loops (not the scalar tails) run.
    import json as _json
    offs = list(range(0, 72)) if not quick else rng.sample(range(0, 72), 20) + [0, 31]
    tails = [0, 1, 13, 14, 15, 16, 17, 29, 30, 31, 32, 33, 47, 63, 64, 70] if not quick else None
    for tok in SIMPLE + GOODU:
        for off in offs:
            for tail in (tails or rng.sample([0, 1, 14, 15, 16, 17, 30, 31, 32, 33, 47, 64, 70], 3)):
                body = b"p" * off + tok + b"q" * tail
                try:
                    dec = _json.loads(b'"' + body + b'"').encode("utf-8", "surrogatepass")
                except Exception:
                    continue
                rest = rng.choice([b"", b' ,"pad":"' + b"y" * 100 + b'"', b',"t":[1,{"z":2}]' + b" " * 70])
                which = rng.randrange(3)
                if off + tail <= 1:
                    which = 3      # the bare escape (and with one neighbour) in ALL three positions
                if which in (0, 3):
                    txt = b'["' + body + b'",7]'
                    cases.append({"lines": ["parse pool " + _hex(txt)], "cls": "as-value", "nontrivial": True, "via": "c03"})
                if which in (1, 3):
                    txt = b'{"' + body + b'":[1,2]' + rest + b"}"
                    cases.append({"lines": ["parse pool " + _hex(txt)], "cls": "as-key", "nontrivial": True, "via": "c03"})
                if which in (2, 3):
                    doc = b'{"first":0,"' + body + b'":[1,{"z":2}]' + rest + b"}"
                    cases.append({"lines": ["ondemand " + rng.choice(["heap", "page"]) + " " + _hex(doc) + " k" + (dec.hex() or "-")], "cls": "as-ondemand-key",
                                  "nontrivial": True, "via": "c10"})
    # an escaped key that is NOT the wanted one, in front of it: a well-formed one (any spelling, any length relative to the wanted
    # key) is passed over, a malformed one is an error at that key -- the decode of an unwanted key may not be skipped.
    for tok, good in [(t, True) for t in SIMPLE + GOODU] + [(t, False) for t in BAD]:
        for pre, post in ((0, 0), (1, 0), (0, 1), (rng.randrange(0, 40), rng.randrange(0, 40))):
            for want in (b"k", b"wanted-key-" + b"w" * rng.choice([0, 5, 21, 53])):
                body = b"p" * pre + tok + b"q" * post
                doc = b'{"' + body + b'":[1,{"z":2}],"' + want + b'":{"z":3}}'
                cases.append({"lines": ["ondemand " + rng.choice(["heap", "page"]) + " " + _hex(doc) + " k" + want.hex()],
                              "cls": "escaped-key-before-wanted" if good else "malformed-key-before-wanted", "nontrivial": True, "via": "c10"})
    # a malformed literal as an array element / member value whose REMAINING bytes would continue the container (`,1,"a"]`): wherever the
    # decoder gives up, the document must be rejected - the verdict may not depend on what follows the offending bytes
    for tok in BAD + [b"\t", b"\n", b"\x01"]:
        for pre in (b"", b"p", b"p" * rng.choice([13, 14, 15, 16]), b"p" * rng.choice([29, 30, 31, 32, 33]), b"\\n" + b"p" * rng.randrange(0, 40)):
            for rest in (b',1,"a"]', b',1]', b',-2.5e3,{"k":[]},"a"]', b'",1,"a"]'):
                txt = b'["' + pre + tok + rest
                cases.append({"lines": ["parse pool " + _hex(txt)], "cls": "malformed-literal-rest-continues", "nontrivial": True, "via": "c03"})
                txt = b'{"k":"' + pre + tok + b',"j":1,"a":"b"}'
                cases.append({"lines": ["parse pool " + _hex(txt)], "cls": "malformed-literal-rest-continues", "nontrivial": True, "via": "c03"})
    return cases


def _impl(line):
    if line.startswith("ok "):
        d = dict(p.split("=", 1) for p in line.split()[1:])
        n = int(d["n"])
        buf = bytes.fromhex(d["buf"]) if d["buf"] != "-" else b""
        return ("ok", buf[:n].hex() or "-", int(d["next"]), d["buf"])
    if line.startswith("err="):
        return ("err", line.split()[0][4:], None, None)
    return ("other", line, None, None)


def judge(case, mo, io, cfg):
    if case.get("via") == "c03" or case["lines"][0].startswith("parse "):
        from props import c03
        return c03.judge(case, mo, io, cfg)
    if case.get("via") == "c10" or case["lines"][0].startswith("ondemand "):
        from props import c10
        return c10.judge(case, mo, io, cfg)
    if "CRASH" in io[0]:
        return ("violation", f"decoder crashed / sanitizer report: {io[0][:200]} for `{case['lines'][0][:140]}`")
    mparts = mo[0].rsplit(" spec=", 1)
    mline, spec = mparts[0], mparts[1] if len(mparts) == 2 else "?"
    i = _impl(io[0])
    if spec == "reject":
        if i[0] != "err":
            return ("violation", f"malformed literal accepted: impl={io[0][:100]} for `{case['lines'][0][:140]}`")
        if i[1] not in ("4", "5", "6"):
            return ("violation", f"rejected with a code outside the string error classes: {io[0]}")
    else:
        _, shex, snext = spec.split(":")
        if i[0] != "ok":
            return ("violation", f"valid literal rejected: impl={io[0]} spec={spec[:80]} for `{case['lines'][0][:140]}`")
        if i[1] != shex or i[2] != int(snext):
            return ("violation", f"decoded bytes / end index differ from the spec: impl={i[1][:80]}@{i[2]} spec={shex[:80]}@{snext}")
    if mline != io[0]:
        return ("drift", f"model and implementation differ (error code or buffer contents): model={mline[:120]} impl={io[0][:120]}")
    return None


def shrink(case):
    if not case["lines"][0].startswith("parsestr"):
        return
    t = case["lines"][0].split()
    s = bytes.fromhex(t[2]) if t[2] != "-" else b""
    for k in range(len(s)):
        c = s[:k] + s[k + 1:]
        yield {"lines": [f"parsestr {t[1]} {c.hex() if c else '-'}"], "cls": case.get("cls")}


def search(rng, broken):
    return generate(rng, "thorough")
