"""C08 - 64-bit integers print as their exact decimal representation."""
ID = "C08"
LEVEL = "proof"
LEAN_MODULES = ["Sonic.Props.C08"]
REQUIRED_THEOREMS = ["Sonic.Props.C08." + n for n in [
    "C08_u64_general", "C08_u64", "C08_i64_general", "C08_i64", "C08_extent_u64", "C08_extent_i64",
    "C08_decimal_canonical", "C08_decimal_value", "C08_decimal_length", "C08_decimal_toDigits",
    "C08_decimal_injective", "C08_i64_injective"]]
CONFIGS = [("avx2", "prod"), ("sse", "prod"), ("avx2", "san"), ("dyn", "prod")]
CONFIGS_THOROUGH = [("avx2", "prod"), ("sse", "prod"), ("dyn", "prod"), ("avx2", "san"), ("sse", "san")]
RULE = ("values: 10^k-1, 10^k, 10^k+1 (k<=19), 2^k-1, 2^k, 2^k+1 (k<=64), range boundaries of U64toa's three paths, "
        "strided sweeps of each 8-digit group position, uniformly random values per decimal length; i64: the same "
        "bit patterns reinterpreted, INT64_MIN/MAX.  distinct = distinct command line; non-trivial = value >= 10")
EXPLANATION = ("Theorems C08_u64_general / C08_i64_general prove, for every 64-bit value, every start index and every prior "
               "buffer content, that the Lean transcription of U64toa/I64toa (SSE digit splitter lane by lane over the generated "
               "tables) writes exactly Spec.decimal; the correspondence run ties that transcription to the compiled code "
               "(bytes and write extent), with Spec.decimal as oracle for the implementation's bytes.")
ASSUMPTIONS = ["SSE2 intrinsics _mm_mul_epu32/_mm_mulhi_epu16/_mm_mullo_epi16/_mm_unpacklo_*/_mm_slli_epi64/_mm_packus_epi16 "
               "have their documented per-lane meaning (validated by the correspondence, not proved)",
               "g++ compiles the headers faithfully"]
TRUSTED = ["per-lane semantics of the SSE intrinsics used by UtoaSSE"]


def _vals(rng, tier):
    vs = set()
    for k in range(0, 20):
        for d in (-1, 0, 1):
            vs.add(10 ** k + d)
    for k in range(0, 65):
        for d in (-1, 0, 1):
            vs.add(2 ** k + d)
    for b in (10 ** 8, 10 ** 16):
        for d in range(-3, 4):
            vs.add(b + d)
    n_rand = 2500 if tier == "quick" else 60000
    for nd in range(1, 21):
        lo, hi = 10 ** (nd - 1), 10 ** nd - 1
        for _ in range(n_rand // 20):
            vs.add(rng.randint(lo, hi))
    # strided sweeps: every value of one 8-digit group (stride 997) in each of the positions it can take
    stride = 9973 if tier == "quick" else 997
    off = rng.randrange(stride)
    for g in range(off, 10 ** 8, stride * (40 if tier == "quick" else 1)):
        vs.add(g)                                 # Utoa_1_8
        vs.add(10 ** 8 * (1 + g % 97) + g)        # low group through Utoa_8
        vs.add(g * 10 ** 8 + (g * 7919) % 10 ** 8)  # high group through Utoa_1_8, low through Utoa_8
        vs.add(10 ** 16 * (1 + g % 1844) + g * 10 ** 8 + (g * 31337) % 10 ** 8)  # Utoa_16 both halves
    # digit groups at their extremes TOGETHER: every high part with a low 8-digit group of all nines / all zeros / one off (a reciprocal
    # multiplication that is one bit short fails only for a large quotient combined with the largest remainders), for the 9-10, 11-16
    # and 17-20 digit ranges and around 2^32
    lows = [0, 1, 2, 49999999, 50000000, 99999990, 99999996, 99999997, 99999998, 99999999]
    for hi in list(range(1, 100)) + [rng.randrange(100, 10 ** 8) for _ in range(60 if tier == "quick" else 5000)] + [10 ** 8 - 1, 42949672, 42949673]:
        for lo in lows:
            vs.add(hi * 10 ** 8 + lo)
    for hi in list(range(1, 1845)) if tier != "quick" else (list(range(1, 20)) + rng.sample(range(20, 1845), 40) + [1844]):
        for mid in (0, 99999999, rng.randrange(10 ** 8)):
            for lo in (0, 99999999, 99999998, rng.randrange(10 ** 8)):
                vs.add(hi * 10 ** 16 + mid * 10 ** 8 + lo)
    for d in range(-40, 41):
        vs.add(2 ** 32 + d)
        vs.add(2 ** 31 + d)
    return sorted(v for v in vs if 0 <= v < 2 ** 64)


def generate(rng, tier):
    cases = []
    for v in _vals(rng, tier):
        cases.append({"lines": [f"u64toa {v}"], "cls": f"u64/{len(str(v))}digits", "nontrivial": v >= 10})
        cases.append({"lines": [f"i64toa {v}"], "cls": "i64/neg" if v >= 2 ** 63 else "i64/nonneg", "nontrivial": v >= 10})
    return cases


def _parse(line):
    parts = line.split()
    d = {"hex": parts[0] if parts else ""}
    for p in parts[1:]:
        if "=" in p:
            k, v = p.split("=", 1)
            d[k] = v
        else:
            d[p] = True
    return d


def judge(case, mo, io, cfg):
    m, i = _parse(mo[0]), _parse(io[0])
    if i["hex"] != m.get("spec"):
        return ("violation", f"printed bytes differ from the canonical decimal spelling: impl={i['hex']} spec={m.get('spec')} for `{case['lines'][0]}`")
    if "UNDERWRITE" in i or int(i.get("ext", "0")) > 32:
        return ("violation", f"write outside the 32 bytes reserved: {io[0]}")
    if i["hex"] != m["hex"] or i.get("ext") != m.get("ext"):
        return ("drift", f"model and implementation differ (bytes or write extent): model={mo[0]} impl={io[0]}")
    return None


def search(rng, broken):
    return generate(rng, "thorough")

LEVEL_TEXT = ("Machine-checked proof (Lean 4) that the transcription of U64toa/I64toa prints the canonical decimal spelling for "
              "every 64-bit value, plus a correspondence run tying the transcription to the compiled code on boundary/strided/random values "
              "in avx2/sse production and sanitizer builds. Right level: the kernel is pure integer arithmetic, fully provable.")
LEVEL_NOTE = ("Trusted: Lean kernel; propext/Classical.choice/Quot.sound; the table translator; per-lane meaning of the SSE2 intrinsics "
              "and g++ (validated by the differential run, not proved).")
TECHNIQUE = "Lean 4 theorem over a literal model + generated tables; differential correspondence model vs compiled code"
