"""C09 - String quoting is exact for all bytes and never strays outside its buffers."""
ID = "C09"
LEVEL = "proof"
LEAN_MODULES = ["Sonic.Props.C09"]
REQUIRED_THEOREMS = ["Sonic.Props.C09." + n for n in [
    "C09_tab", "C09_quote", "C09_quote_anyW", "C09_len", "C09_extent", "C09_reads_mapped", "C09_independent"]]
CONFIGS = [("avx2", "prod"), ("sse", "prod"), ("avx2", "san"), ("sse", "san"), ("dyn", "prod")]
CONFIGS_THOROUGH = CONFIGS + [("dyn", "san")]
RULE = ("strings built from a byte alphabet weighted towards specials (quote, backslash, control bytes, 0x7f/0x80/0xff); "
        "each of the 256 byte values at every position 0..2W of strings of length 0..4W+3 (sampled in quick, stride-complete in "
        "thorough); runs of consecutive specials across block edges; source placed 0..80 bytes (and random distances) before an "
        "unmapped page, surrounded by garbage bytes that themselves are specials; destination of exactly 6n+35 bytes ending at an "
        "unmapped page.  distinct = distinct command line; non-trivial = length >= 1")
EXPLANATION = ("C09_quote proves for every W<=32, both tail variants, every address and every memory that the transcription of "
               "Quote/DoEscape returns Spec.quote s without touching an unmapped page or storing beyond 6n+35; C09_tab ties the "
               "generated kQuoteTab/kNeedEscaped to the RFC escape of each byte. The run compares the compiled Quote (production "
               "path on guard pages, and the sanitizer path) with the model (bytes and write extent) and with Spec.quote.")
ASSUMPTIONS = ["SIMD compare/movemask/store primitives have their per-byte meaning (validated by the correspondence)",
               "4096-byte pages; mmap/mprotect guard pages trap out-of-range accesses in the production build"]
TRUSTED = ["per-byte meaning of the SSE/AVX2 compare, movemask and store intrinsics"]
LEVEL_TEXT = ("Machine-checked proof (Lean 4) over a literal model of Quote (both tail branches, page-granular memory, checked "
              "destination) for every string, address and vector width, plus correspondence of model and compiled code in production "
              "builds on guard pages and in sanitizer builds.")
LEVEL_NOTE = ("Trusted: Lean kernel; propext/Classical.choice/Quot.sound; table translator; per-byte meaning of SIMD primitives and "
              "the OS page protection (validated by the differential run, not proved).")
TECHNIQUE = "Lean 4 theorem over a literal model + generated tables; differential correspondence on guard pages"

SPECIALS = [0x22, 0x5C, 0x00, 0x01, 0x08, 0x09, 0x0A, 0x0B, 0x0C, 0x0D, 0x1F]
PLAIN = [0x20, 0x21, 0x23, 0x2F, 0x41, 0x61, 0x7A, 0x7F, 0x80, 0xC3, 0xFF, 0x5B, 0x5D]


def _hex(bs):
    return bytes(bs).hex() if bs else "-"


def _rand_str(rng, n, dens):
    return [rng.choice(SPECIALS) if rng.random() < dens else rng.choice(PLAIN) for _ in range(n)]


def generate(rng, tier):
    cases = []
    quick = tier == "quick"

    def add(off, g, s, cls):
        cases.append({"lines": [f"quote {off} {g} {_hex(s)}"], "cls": cls, "nontrivial": len(s) >= 1})
    garb = [0xAA, 0x22, 0x5C, 0x00, 0x61]
    # every byte value at every position of short strings, abutting the unmapped page
    for b in range(256):
        for n in ([1, 17, 33, 64] if quick else [1, 2, 15, 16, 17, 31, 32, 33, 47, 48, 63, 64, 65, 96, 131]):
            poss = [rng.randrange(n)] if quick else sorted({0, n - 1, rng.randrange(n), min(n - 1, 15), min(n - 1, 16), min(n - 1, 31), min(n - 1, 32)})
            for pos in poss:
                s = [0x61] * n
                s[pos] = b
                add(0, rng.choice(garb), s, "bytevalue")
    # every length x every offset near the page end
    for n in range(0, 132 if not quick else 70):
        for off in ([0, 1, 31, 32, 33, 63, 64, 65] if quick else list(range(0, 81))):
            add(off, rng.choice(garb), _rand_str(rng, n, 0.15), "len-x-offset")
    # specials at every position relative to the block size
    for n in ([40, 70] if quick else [20, 40, 70, 100, 131]):
        for pos in range(n):
            for run in (1, 2, 5):
                s = [0x62] * n
                for k in range(run):
                    if pos + k < n:
                        s[pos + k] = rng.choice(SPECIALS)
                add(rng.choice([0, 0, 3, 40]), rng.choice(garb), s, "special-runs")
    # every ORDERED PAIR of adjacent byte values (the escape-run loop consults a second table for the byte that follows an escaped one):
    # all 65536 pairs in the thorough tier; quick: every pair that contains a byte needing an escape or a neighbour of the class borders
    hot = sorted(set(list(range(0, 0x22)) + [0x22, 0x23, 0x5B, 0x5C, 0x5D, 0x7E, 0x7F, 0x80, 0x81, 0xFF]))
    for a in range(256):
        for b in range(256):
            if quick and not ((a in hot and b in hot) or (a in (0x0A, 0x22, 0x5C, 0x01, 0x1F) or b in (0x0A, 0x22, 0x5C, 0x01, 0x1F))):
                continue
            pre = rng.choice([0, 0, 1, 14, 15, 30, 31])
            add(0, rng.choice(garb), [0x61] * pre + [a, b] + [0x61] * rng.choice([0, 0, 1, 16]), "adjacent-pair")
    # uniformly random bytes (all values, any density of bytes that need escaping)
    for _ in range(1500 if quick else 60000):
        n = rng.choice([1, 2, 3, 8, 16, 31, 32, 33, 64, 65, 100, rng.randrange(0, 200)])
        add(rng.choice([0, 0, 1, 31, 32, 33]), rng.randrange(256), [rng.randrange(256) for _ in range(n)], "uniform-bytes")
    # dense random
    for _ in range(4000 if quick else 150000):
        n = rng.choice([0, 1, 2, 3, 7, 15, 16, 17, 31, 32, 33, 48, 63, 64, 65, 100, 129, 200, rng.randrange(0, 300)])
        add(rng.choice([0, 0, 1, 2, 15, 16, 31, 32, 33, 64, rng.randrange(0, 4097)]), rng.randrange(256),
            _rand_str(rng, n, rng.choice([0.0, 0.05, 0.3, 0.9, 1.0])), "random")
    # the same routine where the library calls it: a string node written by the serializer into a write buffer that ends shortly behind
    # it (judged by C06's oracle: exact dump, no access outside the buffer). Short elements in front of the string inside a NESTED
    # array, so that the buffer is not grown up-front and the per-string reservation (6 x length + block + 3) is the only room the
    # whole-block stores of the vector kernel have; plain, all-escaped and mixed strings of lengths around the block sizes.
    def sj(bs):
        return b"".join(b"\\u%04x" % c if (c < 0x20 or c in (0x22, 0x5C)) else bytes([c]) for c in bs)
    for n in ([1, 2, 3, 7, 8, 15, 16, 17, 31, 32, 33, 47, 64] if not quick else [1, 2, rng.choice([3, 7, 8, 15, 16, 17]), rng.choice([31, 32, 33, 47, 64])]):
        for dens in (0.0, 1.0, rng.choice([0.05, 0.3])):
            body = bytes(rng.choice([1, 0x1F, 0x22, 0x5C, 0x0A]) if rng.random() < dens else rng.choice(b"xyz 09") for _ in range(n))
            cap = 256 if 6 * n + 60 <= 200 else 1024
            # every amount of free room from "too little: the buffer is regrown" to "a whole block to spare"
            for free in range(6 * n, 6 * n + 61):
                used = cap - free - 2
                j = b"" if used % 2 == 0 else b"22,"
                k = (used - len(j)) // 2
                doc = b"[[" + b"1," * k + j + b'"' + sj(body) + b'"]]'
                cases.append({"lines": [f"ser {cap} 0 {_hex(doc)}"], "cls": "string-through-serializer", "nontrivial": True, "via": "c06"})
    # a heavily expanding string (every byte becomes \\u00XX) requested when the buffer is part full: the reservation 6n+35 is at most
    # twice the capacity but used + reservation is more - the growth step must still make room for all of it
    for cap in (64, 256):
        for n in sorted({max(1, (2 * cap - 35) // 6 - j) for j in (0, 1, 2, 5, 9)} | {max(1, cap // 6), max(1, cap // 4)}):
            for f in (range(0, cap + 8, 8) if not quick else rng.sample(range(0, cap + 8, 8), min(10, cap // 8))):
                for ctl in (1, 0x1F):
                    # filler = one string (its own reservation grows the buffer generously) / many small numbers (the buffer fills
                    # up without growing: the string's request then meets a part-full buffer of the initial capacity)
                    for doc in (b'["' + b"x" * f + b'","' + sj(bytes([ctl]) * n) + b'"]', b"[" + b"1," * (f // 2) + b'"' + sj(bytes([ctl]) * n) + b'"]'):
                        cases.append({"lines": [f"ser {cap} {rng.choice([0, 0, 1])} {_hex(doc)}"], "cls": "expanding-string-in-part-full-buffer",
                                      "nontrivial": True, "via": "c06"})
    return cases


def _kv(line):
    parts = line.split()
    d = {"hex": parts[0] if parts else ""}
    for p in parts[1:]:
        if "=" in p:
            k, v = p.split("=", 1)
            d[k] = v
        else:
            d[p] = True
    return d


def judge(case, mo, io, cfg):
    if case.get("via") == "c06" or case["lines"][0].startswith("ser "):
        from props import c06
        return c06.judge(case, mo, io, cfg)
    m, i = _kv(mo[0]), _kv(io[0])
    if io[0].startswith("CRASH") or "CRASH" in io[0]:
        return ("violation", f"Quote crashed / sanitizer report: {io[0][:300]} for `{case['lines'][0][:120]}`")
    if i["hex"] != m.get("spec"):
        return ("violation", f"quoted bytes differ from the JSON escaping of the source: impl={i['hex'][:80]} spec={m.get('spec', '')[:80]}")
    if "NONDET" in i:
        return ("violation", "output depends on the prior contents of the destination")
    mh, me = (m["hex"], m.get("ext")) if cfg[1] != "san" else (m.get("san"), m.get("san_ext"))
    if mh != i["hex"] or me != i.get("ext"):
        return ("drift", f"model and implementation differ (bytes or write extent): model={mh[:60]} ext={me} impl={i['hex'][:60]} ext={i.get('ext')}")
    return None


def shrink(case):
    if case["lines"][0].startswith("ser "):
        return
    t = case["lines"][0].split()
    s = bytes.fromhex(t[3]) if t[3] != "-" else b""
    for k in range(len(s)):
        c = s[:k] + s[k + 1:]
        yield {"lines": [f"quote {t[1]} {t[2]} {c.hex() if c else '-'}"], "cls": case.get("cls")}


def search(rng, broken):
    return generate(rng, "thorough")
