"""C06 - Serialize output is valid JSON that parses back to an equal document."""
import os
import sys
sys.path.insert(0, os.path.dirname(os.path.dirname(os.path.abspath(__file__))))
from gen import jsongen as G
from gen import domgen as D
from lib import tree as T
from lib.core import existing_modules
from props import c12

ID = "C06"
LEVEL = "proof"
LEAN_MODULES = ["Sonic.Props.C06", "Sonic.Props.C09", "Sonic.Props.C08"]
REQUIRED_THEOREMS = ["Sonic.Props.C06." + n for n in ["C06_stack_grow", "C06_write_bounds", "C06_no_overrun", "C06_serialize_eq_render", "C06_nonfinite",
                                                         "C06_quote_decode", "C06_scan_uint", "C06_scan_sint", "C06_render_valid", "C06_roundtrip",
                                                         "C06_roundtrip_noReals", "C06_reserialize", "C06_end_to_end", "C06_ftoaModel_facts", "C06_cfgOK_model",
                                                         "C06_render_valid_model", "C06_roundtrip_model", "C06_reserialize_model", "C06_end_to_end_model"]]
CONFIGS = [("avx2", "prod"), ("sse", "prod"), ("avx2", "san"), ("sse", "san"), ("dyn", "prod")]
CONFIGS_THOROUGH = CONFIGS + [("dyn", "san")]
RULE = ("documents: generator output (empty/nested containers, scalar roots of every kind, duplicate keys, numbers of every kind, strings with "
        "escapes and high bytes), strings of every length 0..200 and documents sized so that the free space before a string is around the "
        "6n+35 growth threshold, doubles from the C07 generator; write buffers with initial capacity 0,1,8,64,256,4096 and reused 0..2 times "
        "- plus API-built documents (arbitrary string bytes, non-finite doubles) through the DOM session when available.  distinct = distinct "
        "command line; non-trivial = contains a container")
EXPLANATION = ("For each document: the implementation's dump must be accepted by Spec.Json (Lean), parse back to the same tree with number kinds "
               "kept, equal the recursive reference printer Spec.Render, re-serialise identically and compare == to the original (checked on the "
               "implementation for duplicate-free documents); a non-finite double must give error 12 and an empty Dump. The literal model of "
               "SerializeImpl drives a (size,cap) model of the write buffer whose every write is checked against the capacity (C06_no_overrun) "
               "and must agree with the compiled code on bytes, Size() and Capacity(). Theorems proved are listed in the evidence.")
ASSUMPTIONS = ["container sizes < 2^31 (uint32_t counters)", "realloc provides the requested number of bytes"]
TRUSTED = ["Spec.Json.parse / Spec.Render as oracles (compiled Lean evaluation)"]
LEVEL_TEXT = ("Machine-checked proof (Lean 4) of the serializer machine for every document (arbitrary string bytes, every finite double, every "
              "64-bit integer) and every write-buffer state: never overruns the buffer (C06_no_overrun), equals the recursive printer "
              "(C06_serialize_eq_render), non-finite => error 12 and empty Dump (C06_nonfinite), and C06_end_to_end_model: output accepted by "
              "the RFC 8259 spec, parses back to the same value with number kinds kept, re-serialisation identical. The facts about F64toa that "
              "used to be a named hypothesis are now discharged for the literal model (C06_ftoaModel_facts, from C07_schubfach + the link to "
              "the exact reference reader + the reader equivalence scan_of_parseDec). The model is tied to the compiled code by the "
              "correspondence run (bytes, Size(), Capacity(), parse-back through the library, re-serialisation) on parsed and API-built "
              "documents including non-finite doubles.")
LEVEL_NOTE = "Trusted: Lean kernel; standard axioms; compiled Lean evaluation of the specs; harness."
TECHNIQUE = "Lean 4 theorems (write-buffer bookkeeping, machine = recursive printer) + executable spec oracles; differential correspondence"


def generate(rng, tier):
    quick = tier == "quick"
    cases = []

    def add(doc, cls, cap0=None, nre=None):
        cap0 = rng.choice([0, 1, 8, 64, 256, 4096]) if cap0 is None else cap0
        nre = rng.choice([0, 0, 1, 2]) if nre is None else nre
        cases.append({"lines": [f"ser {cap0} {nre} {G.hx(doc)}"], "cls": cls, "nontrivial": any(c in doc for c in b"[{")})
    for _ in range(1200 if quick else 80000):
        add(G.gen_doc(rng, maxdepth=rng.choice([1, 3, 5])), "generated")
    for t in [b"null", b"true", b"false", b"0", b"-1", b"1.5", b'""', b'"x"', b"[]", b"{}", b"[[]]", b'{"a":{}}', b"[{}]", b'{"a":[]}', b"[1,[2,[3,[]]]]",
              b'{"a":1,"a":2}', b"18446744073709551615", b"-9223372036854775808", b"1e308", b"5e-324", b"-0.0", b'"\\u0000\\u001f\\"\\\\"']:
        for cap0 in (0, 1, 8, 256):
            add(t, "handwritten", cap0, 0)
    # strings around the growth threshold: [ "pad…", "target…" ] with varying lengths
    for n in (range(0, 201, 1 if not quick else 7)):
        s = bytes(rng.choice(b"ab\\\"") if rng.random() < 0.3 else 0x61 for _ in range(n))
        lit = b'"' + s.replace(b"\\", b"\\\\").replace(b'"', b'\\"') + b'"'
        for padn in ([0, 40, 100] if quick else [0, 10, 40, 60, 70, 80, 100, 150]):
            add(b"[" + b'"' + b"p" * padn + b'",' + lit + b"]", "string-threshold", rng.choice([0, 64, 82, 100, 256]), 0)
    for m in (range(0, 97, 8) if quick else range(0, 97)):
        for n in ([0, 1, 40, 80, 120, 150, 160, 161, 162, 163, 164, 165, 170, 200] if quick else range(0, 201)):
            ctl = b"".join(b"\\u00%02x" % rng.choice([1, 2, 0x1f, 0x0b, 0]) for _ in range(n))
            add(b'["' + b"x" * m + b'","' + ctl + b'"]', "control-heavy", rng.choice([0, 1, 64, 256, 1000]), rng.choice([0, 0, 1]))
    import struct
    for _ in range(600 if quick else 60000):
        f = struct.unpack("<d", struct.pack("<Q", rng.getrandbits(63)))[0]
        if f == f and f != float("inf"):
            add(b"[" + repr(f).encode() + b",-" + repr(f).encode() + b"]", "doubles")
    # the longest number texts (25-byte fixed-form negative doubles just above 1e-6, 24-byte exponent forms, 20-digit integers) written
    # at every distance from the end of the buffer: the per-number reservation is the only room F64toa / itoa have
    longest = [b"-0.0000012345678901234567", b"-0.0000098765432109876543", b"-1.7976931348623157e+308", b"-2.2250738585072014e-308",
               b"18446744073709551615", b"-9223372036854775808", b"0.000001234567890123456"]
    for pad in (range(0, 300) if not quick else list(range(180, 262)) + rng.sample(range(0, 180), 30)):
        for num in (longest[0], longest[1 + pad % (len(longest) - 1)]):
            add(b'["' + b"p" * pad + b'",' + num + b"]", "longest-number", rng.choice([256, 256, 0, 264, 100]), 0)
    for k in range(0, 140):
        for num in longest[:2]:
            # short elements in front: the buffer does not grow before the number, which lands at every distance from its end
            add(b"[" + b"1," * k + num + b"]", "longest-number", 256, 0)
            # nested: the up-front estimate only counts the root's own children, so the inner array fills a small buffer gradually
            for j in (b"", b"22,"):
                add(b"[[" + b"1," * k + j + num + b"]]", "longest-number", rng.choice([256, 256, 0, 264]), 0)
            add(b"[" + b"1," * k + rng.choice([b"", b"[],"]) + num + b"," + num + b"]", "longest-number", rng.choice([256, 128, 64]), rng.choice([0, 1]))
    # short strings (plain, and control bytes followed by a plain byte) written at every distance from the end of the buffer: the
    # vector kernels of Quote store whole blocks, the per-string reservation is the only room they have
    for k in range(0, 140):
        for sbody in (b"x", b"xy", b"\\u0001\\u0002z", b"\\u001f" * 3 + b"q"):
            for j in (b"", b"22,", b"null,"):
                if quick and (k + len(sbody) + len(j)) % 3:
                    continue
                add(b"[[" + b"1," * k + j + b'"' + sbody + b'"]]', "string-at-buffer-end", rng.choice([256, 256, 0, 264, 128]), 0)
    # string VALUES handed over as zero-copy views (SetString(ptr, len)) whose bytes end 0..72 bytes in front of an unmapped page - a string
    # that lives in a mapped file: the serialization must succeed with the same bytes however the document was built
    def esc(bs):
        return b"".join(b"\\u%04x" % c if (c < 0x20 or c in (0x22, 0x5C)) else bytes([c]) for c in bs)
    for gap in (range(0, 73) if not quick else sorted(set(rng.sample(range(0, 73), 20) + [0, 1, 2, 14, 15, 16, 17, 30, 31, 32, 33, 63, 64]))):
        for n in (1, 2, rng.choice([3, 5, 9]), rng.choice([15, 16, 17, 31, 32, 33]), rng.choice([40, 63, 64, 65, 100, 130])):
            for pat in (0, 1, 2, 3):
                body = bytearray(rng.choice(b"xyz 09") for _ in range(n))
                if pat == 1:
                    body[-1] = rng.choice([0x22, 0x5C, 0x0A, 1])
                elif pat == 2:
                    body[0] = rng.choice([0x22, 0x5C, 0x0A, 1])
                elif pat == 3:
                    body = bytearray(rng.choice([0x22, 0x5C, 0x0A, 1, 0x1F, 0x61]) for _ in range(n))
                doc = b'{"k":["' + esc(bytes(body)) + b'"]}'
                cases.append({"lines": [f"serv {gap} {rng.choice([0, 0, 1])} {G.hx(doc)}"], "cls": "string-view-at-page-end", "nontrivial": True})
    # long chains of closing brackets behind a small last leaf, in small / fresh / reused buffers: '[[[...leaf...]]]' and the object
    # form, every depth (quick: sampled) up to 400 - the reservation made when a scope is closed is the only room the closers have
    depths = list(range(0, 401)) if not quick else sorted(set(rng.sample(range(0, 401), 60) + [38, 39, 40, 41, 42, 80, 81, 82, 83, 126, 127, 128, 129, 130, 255, 256, 257]))
    for dep in depths:
        leaf = rng.choice([b"[]", b"{}", b"false", b"true", b"null", b"0", b'""'])
        for form in (0, 1):
            if form == 0:
                t = b"[" * dep + leaf + b"]" * dep
            else:
                t = b'{"a":' * dep + leaf + b"}" * dep
            add(t, "closer-chain", rng.choice([0, 1, 16, 100, 256]), rng.choice([0, 0, 1]))
        add(b'[' + b'"' + b"p" * rng.randrange(0, 120) + b'",' + b"[" * dep + leaf + b"]" * dep + b"]", "closer-chain", rng.choice([0, 1, 64, 256]), 0)
    # documents assembled through the mutation API (arbitrary string bytes, duplicate keys, every number kind); one third of them
    # contain a non-finite double (both infinities, quiet / signalling / negative / payload NaNs) at a random position or as the root
    for k in range(500 if quick else 40000):
        nf = k % 3 == 0
        v = D.api_tree(rng, nonfinite=(0.15 if nf else 0.0), maxdepth=rng.choice([0, 1, 2, 3]))
        if nf and T.all_finite(T.parse(D.show(v))):
            bad = ("d", rng.choice(D.NONFINITE))
            v = rng.choice([bad, D.arr([v, bad]), D.arr([bad, v]), D.obj([[b"a", v], [b"nf", bad], [b"z", None]]), D.arr([D.arr([D.obj([[b"k", bad]])]), v])])
        lines = ["dom-reset " + rng.choice(["pool", "simple", "track"])]
        D.build_cmds(0, [], v, lines)
        exp = [{"_skip": True}] * len(lines)
        tree = D.show(v)
        fin = T.all_finite(T.parse(tree))
        for _ in range(rng.choice([1, 2])):
            lines.append(f"dom-dumpwb 0 / {rng.choice([0, 1, 8, 64, 256, 4096])} {rng.choice([0, 0, 1, 2])}")
            exp.append({"_dump": True, "finite": fin, "tree": tree, "dups": D.has_dups(v)})
        lines.append("dom-end")
        exp.append({"ok": True, "ledger": "ok"})
        cases.append({"lines": lines, "exp": exp, "cls": "api-built/" + ("finite" if fin else "nonfinite"), "nontrivial": isinstance(v, list)})
    return cases


def _kv(line):
    return dict(p.split("=", 1) for p in line.split() if "=" in p)


def judge(case, mo, io, cfg):
    if "exp" in case:
        return c12.judge_lines(case, mo, io, cfg)
    if "CRASH" in io[0]:
        return ("violation", f"Serialize crashed / sanitizer report: {io[0][:220]} for `{case['lines'][0][:160]}`")
    if io[0] in ("bad-input", "bad-op") or mo[0] in ("bad-input", "bad-op"):
        return None if io[0] == mo[0] else ("drift", f"model={mo[0][:80]} impl={io[0][:80]}")
    i, m = _kv(io[0]), _kv(mo[0])
    tr = T.parse(m["tree"])
    if T.all_finite(tr):
        if i["err"] != "0":
            return ("violation", f"serialisation of a finite document failed with {i['err']} for `{case['lines'][0][:160]}`")
        if i["dump"] == m["dump"]:
            rep = m["reparse"]
        else:
            return ("violation" if i["dump"] != m.get("render") else "drift", f"dump differs from the reference printer: impl={i['dump'][:120]} render={m.get('render', '')[:120]}")
        if rep != "ok:" + m["tree"]:
            return ("violation", f"dump does not parse back (per the RFC 8259 spec) to the original value: {rep[:160]} vs {m['tree'][:160]}")
        if i["dump"] != m.get("render"):
            return ("violation", f"dump differs from the reference printer: impl={i['dump'][:120]} render={m.get('render', '')[:120]}")
        if i.get("again") != "1" or i.get("str") != "1":
            return ("violation", f"re-serialisation / Dump() / ToString() inconsistent: {io[0][-60:]}")
        if i.get("rt") != "1" and not T.has_dup_keys(tr):
            return ("violation", f"parsed-back document is not == the original: `{case['lines'][0][:160]}`")
    else:
        if i["err"] != "12" or i["dump"] != "-" or i.get("str") != "1":
            return ("violation", f"non-finite double: expected error 12 and an empty Dump, got {io[0][:120]}")
    for k in ("err", "dump", "size", "cap"):
        if i.get(k) != m.get(k):
            return ("drift", f"model and implementation differ in {k}: model={m.get(k, '')[:80]} impl={i.get(k, '')[:80]} for `{case['lines'][0][:120]}`")
    return None


def search(rng, broken):
    return generate(rng, "thorough")
