"""C11 - On-demand scanning of arbitrary unpadded input stays inside the input."""
import os
import sys
sys.path.insert(0, os.path.dirname(os.path.dirname(os.path.abspath(__file__))))
from gen import jsongen as G
from lib.core import existing_modules
from props import c10

ID = "C11"
LEVEL = "proof"
LEAN_MODULES = ["Sonic.Props.C11"]
REQUIRED_THEOREMS = ["Sonic.Props.C11." + n for n in ["C11_in_bounds", "C11_slice", "C11_termination", "C11_kbuf", "C11_getNextToken",
                                                         "C11_skipString", "C11_skipContainer", "C11_skipSpaceSafe"]]
CONFIGS = [("avx2", "san"), ("sse", "san"), ("avx2", "prod"), ("sse", "prod"), ("dyn", "san"), ("dyn", "prod")]
CONFIGS_THOROUGH = CONFIGS
RULE = ("arbitrary byte strings: lengths 0,1,15,16,17,31,32,33,63..67,127..130 and random; every prefix of valid texts; single-byte "
        "mutations; unterminated strings / keys / containers cut at every byte; keys with truncated or malformed escapes; token soup over "
        "the structural alphabet - each with root, existing, missing and random paths; buffer placed in an exact-size heap block (sanitizer "
        "builds) and ending at an unmapped page (production builds).  distinct = distinct command line; non-trivial = length >= 1")
EXPLANATION = ("The literal model reads the input through checked accesses of exactly len bytes (vector loads need p+W<=len): C11_in_bounds / "
               "C11_slice (listed in the evidence when proved) state that it never faults and that a successful result is a sub-range "
               "with offset <= len, for ALL byte strings and paths. The run validates the model against the compiled code (same code, "
               "offset, bounds) with the input in an exact-size heap block under ASan and ending at a PROT_NONE page in production builds.")
ASSUMPTIONS = ["SIMD loads read exactly W (or 64) bytes at the given address"]
TRUSTED = ["ASan and guard pages as observers of out-of-range reads of the compiled code"]
LEVEL_TEXT = ("Machine-checked proof (Lean 4): for every byte string, path, key-buffer content and vector width the checked-access model of "
              "GetOnDemand never reads outside [0,len) (C11_in_bounds), terminates, and a successful result is a sub-range with offset <= len "
              "(C11_slice); the model is validated against the compiled code on exact-size heap blocks (ASan) and page-end buffers.")
LEVEL_NOTE = "Trusted: Lean kernel; standard axioms; ASan/guard pages; harness."
TECHNIQUE = "Lean 4 theorem over a checked-access model + differential correspondence on exact-size / page-end buffers"

SOUP = list(b'{}[]:,"\\ \n0129-.eEtrufalsn') + [0x00, 0x1F, 0x80, 0xFF]


def generate(rng, tier):
    quick = tier == "quick"
    cases = []
    docs = [G.gen_doc(rng, maxdepth=4) for _ in range(200 if quick else 15000)]
    texts = []
    for d in docs[: (40 if quick else 2500)]:
        if len(d) <= 220:
            texts += G.prefixes(d)
    for d in docs[: (60 if quick else 4000)]:
        if len(d) <= 150:
            texts += G.mutations(rng, d, limit=6 if quick else None)
    for n in [0, 1, 2, 15, 16, 17, 31, 32, 33, 63, 64, 65, 66, 67, 127, 128, 129, 130]:
        for _ in range(6 if quick else 200):
            texts.append(bytes(rng.choice(SOUP) for _ in range(n)))
            texts.append(b'{"' + bytes(rng.choice(b'ab\\"') for _ in range(max(0, n - 2))))
            texts.append(b"[" * (n // 2) + b'"' + b"\\" * (n - n // 2))
            texts.append(b" " * n)
            texts.append((b'{"k' + b"\\" * (n % 7) + b'":[1,2,{"z":"') [: n] if n else b"")
    # pretty-printed texts (blank runs reaching / crossing the ends of cached 64-byte whitespace blocks), whole and truncated anywhere
    pretty = set()
    for t in G.pretty_docs(rng, quick):
        if len(t) <= 400:
            texts.append(t)
            pretty.add(t)
            for _ in range(2 if quick else 12):
                texts.append(t[: rng.randrange(1, len(t))])
    texts += [b"", b'{"\\x":1}', b'{"a\\', b'{"a\\u12', b'{"\\ud800":1}', b'"', b"[", b"{", b'{"a":', b'[1,', b"tru", b"nul", b"f", b"-"]
    for t in texts:
        ps = c10.paths_of(rng, t) if rng.random() < 0.3 else [[]]
        cand = [[], ["k61"], ["n0"], ["n1"], ["k61", "n0"], ["n0", "k61"], ["k" + b"a\nb".hex()], rng.choice(ps)]
        if t in pretty:
            allp = c10.paths_of(rng, t)
            cand = cand + (rng.sample(allp, min(len(allp), 6 if quick else 40)))
        for p in (rng.sample(cand, 3) if quick and t not in pretty else cand):
            cases.append({"lines": [f"ondemand {rng.choice(['heap', 'page'])} {G.hx(t)} " + " ".join(p)], "cls": "len%s" % (len(t) if len(t) < 3 else ("<=33" if len(t) <= 33 else "<=67" if len(t) <= 67 else ">67")),
                          "nontrivial": len(t) >= 1})
    return cases


def judge(case, mo, io, cfg):
    toks = case["lines"][0].split()
    n = 0 if toks[2] == "-" else len(toks[2]) // 2
    if "CRASH" in io[0]:
        return ("violation", f"out-of-bounds access / crash: {io[0][:220]} for `{case['lines'][0][:200]}`")
    if "OUTSIDE" in io[0]:
        return ("violation", f"returned slice lies outside the input: {io[0]} for `{case['lines'][0][:200]}`")
    i = c10._kv(io[0])
    if io[0].startswith("ok"):
        s, e, off = int(i["start"]), int(i["end"]), int(i["off"])
        if not (0 <= s <= e <= n) or off > n:
            return ("violation", f"success with slice [{s},{e}) / offset {off} not inside the {n}-byte input for `{case['lines'][0][:200]}`")
    head = mo[0].partition(" spec=")[0]
    if head.startswith("fault"):
        return ("drift", f"the checked-access model faults on `{case['lines'][0][:200]}` (impl: {io[0]})")
    if head != io[0]:
        return ("drift", f"model and implementation differ: model={head[:140]} impl={io[0][:140]}")
    return None


def search(rng, broken):
    return generate(rng, "thorough")
