"""C03 - A successful Parse yields exactly the value the text denotes."""
import os
import sys
sys.path.insert(0, os.path.dirname(os.path.dirname(os.path.abspath(__file__))))
from gen import jsongen as G
from lib.core import existing_modules
from props import c01

ID = "C03"
LEVEL = "proof"
LEAN_MODULES = ['Sonic.Props.C03', 'Sonic.Props.C05']
REQUIRED_THEOREMS = ["Sonic.Props.C03." + n for n in ["C03_value", "C03_value_of_ok", "C03_sax_assemble", "C03_root_finished", "C03_xmemcpy_copy"]]
CONFIGS = [("avx2", "prod"), ("sse", "prod"), ("avx2", "san")]
CONFIGS_THOROUGH = CONFIGS + [("dyn", "prod"), ("sse", "san")]
RULE = ("valid texts: every combination of value kinds as array element / member value / root, member and element counts 0..40 with mixed kinds and 41..300 (+ sparse to 5003) "
        "with integer children (crossing the Xmemcpy 4-/8-chunk unrolls, their tails and any bulk-copy threshold), nesting to depth 64, whitespace runs longer than a 64-byte block, containers closing at "
        "64-byte block edges (text shifted so the closing bracket lands on offsets 62..65), strings and numbers straddling block edges, "
        "duplicate keys; pretty-printed documents with every indentation width 0..140 (blanks, tabs, CRLF).  distinct = distinct command line; non-trivial = contains a container or an escape")
EXPLANATION = ("Oracle: the value computed by Spec.Json.parse (Lean), rendered canonically; the implementation's document is read back through "
               "the public accessor API only (type tests, Size, iteration, getters) and must render identically (number kinds and bit patterns, "
               "decoded string bytes, member order, duplicates). Theorems: C05 (strings), C04 (numbers) and, as they land, C03_sax_assemble / "
               "C03_value listed in the evidence.")
ASSUMPTIONS = ["the cursor-level Xmemcpy model (proved to be a copy, C03_xmemcpy_copy) is tied to the four kernels by correspondence on chunk counts 0..520 (+ sparse to 4097), guard pages on both blocks"]
TRUSTED = ["Spec.Json.parse as oracle (compiled Lean evaluation)"]
LEVEL_TEXT = ("Machine-checked proof (Lean 4): Spec.Json.parse bs = ok v implies the parser model builds exactly v (nesting, order, duplicates, "
              "decoded strings not clobbered by later in-place decoding, number kinds and values) - C03_value, C03_sax_assemble - and the "
              "children-block copy is a copy (C03_xmemcpy_copy). No hypothesis about numbers is left: the number model is proved against the exact reference for every conversion path and every written exponent (C04, after the fix of finding F6); the only size bound is length + 4 < 2^32. Every valid text of the run is also compared with the value "
              "denoted per the executable spec, through the public accessor API.")
LEVEL_NOTE = "Trusted: Lean kernel; standard axioms; compiled Lean evaluation of the spec; harness accessor walk."
TECHNIQUE = "Lean 4 whole-parser refinement proof (tree = denoted value) + differential correspondence of trees"

KINDS = [b"null", b"true", b"false", b"0", b"-7", b"1.5", b"18446744073709551615", b"1e300", b'""', b'"s\\n"', b"[]", b"{}", b"[1]", b'{"a":1}']


def generate(rng, tier):
    quick = tier == "quick"
    cases = []

    def add(t, cls, alloc=None):
        cases.append({"lines": [f"parse {alloc or rng.choice(['pool', 'simple'])} {G.hx(t)}"], "cls": cls,
                      "nontrivial": any(c in t for c in b"[{\\")})
    for a in KINDS:
        add(a, "root-kind")
        for b in KINDS:
            add(b"[" + a + b"," + b + b"]", "kinds-array")
            add(b'{"x":' + a + b',"y":' + b + b"}", "kinds-object")
    for n in range(0, 41):
        add(b"[" + b",".join(rng.choice(KINDS) for _ in range(n)) + b"]", "count-array")
        add(b"{" + b",".join(b'"k%d":' % i + rng.choice(KINDS) for i in range(n)) + b"}", "count-object")
    # large containers: every count up to 300 (all residues of the 4- and 8-chunk copy unrolls, beyond any bulk-copy threshold),
    # then sparse up to 5000; flat, nested in a member, and as siblings
    big = list(range(41, 301)) + [511, 512, 513, 1023, 1025, 2047, 2049, 4099, 5003]
    if quick:
        big = [n for n in big if n > 300 or n % 3 == rng.randrange(3) or n in (63, 64, 65, 127, 128, 129, 255, 256, 257)] 
    for n in big:
        arr = b"[" + b",".join(b"%d" % i for i in range(n)) + b"]"
        obj = b"{" + b",".join(b'"k%d":%d' % (i, i) for i in range(n)) + b"}"
        add(arr, "big-array")
        add(obj, "big-object")
        if n <= 600:
            add(b'{"a":' + arr + b',"o":' + obj + b',"z":[' + b",".join(rng.choice(KINDS) for _ in range(n)) + b"]}", "big-nested")
    # the children-block copy on its own (guard pages on both blocks): every chunk count 0..520, then sparse
    for n in list(range(0, 521)) + [1000, 1023, 1024, 1025, 2047, 2049, 4097]:
        for size in (16, 32):
            cases.append({"lines": [f"xmemcpy {size} {n}"], "cls": "xmemcpy", "nontrivial": n > 4})
    # documents larger than one 64 KiB pool chunk (string buffer, node stack and children blocks all cross chunk boundaries)
    for target in ([66000] if quick else [66000, 131100, 200000]):
        parts, size, i = [], 0, 0
        while size < target:
            item = rng.choice([b'{"id":%d,"name":"%s","tags":["a","b\\n"],"v":[1.5,-2,null,true]}' % (i, b"n" * rng.randrange(0, 90)),
                               b'"%s"' % (b"s" * rng.randrange(0, 300)), b"%d.25" % i, b"[[],{},[%d]]" % i])
            parts.append(item)
            size += len(item) + 1
            i += 1
        add(b"[" + b",".join(parts) + b"]", "big-doc", "pool")
    for d in ([1, 2, 8, 31, 32, 33, 64] if quick else range(1, 65)):
        add(b"[" * d + b"1" + b"]" * d, "depth")
        add(b'{"a":' * d + b"null" + b"}" * d, "depth")
        add((b'[{"a":' * (d // 2 + 1)) + b"[]" + (b"}]" * (d // 2 + 1)), "depth")
    for sh in range(0, 70):
        for body in (b'{"k":[1,2,{"z":"abc"}],"q":"' + b"s" * 30 + b'"}', b"[" + b"1234567.25," * 5 + b'"end"]'):
            if quick and sh % 3:
                continue
            add(b" " * sh + body, "shift")
            add(body[:1] + b" " * sh + body[1:-1] + b"\n" * (64 - (sh % 64)) + body[-1:], "ws-run")
    for t in G.pretty_docs(rng, quick):
        add(t, "pretty-printed")
    for n in G.long_numbers(rng):
        add(b"[" + n + b"]", "long-number")
    for n in G.number_edges():
        add(rng.choice([b"[%s]", b'{"v":%s}', b"[0,%s ,1]"]) % n, "number-edge")
    for _ in range(1500 if quick else 120000):
        add(G.gen_doc(rng, maxdepth=rng.choice([2, 4, 6])), "random")
    return cases


def judge(case, mo, io, cfg):
    if "CRASH" in io[0]:
        return ("violation", f"Parse crashed: {io[0][:200]} for `{case['lines'][0][:160]}`")
    if case["lines"][0].startswith("xmemcpy"):
        if io[0] != "ok":
            return ("violation", f"Xmemcpy is not a copy of exactly the requested chunks: {io[0]} for `{case['lines'][0]}`")
        if mo[0] != io[0]:
            return ("drift", f"Xmemcpy model and implementation differ: model={mo[0]} impl={io[0]} for `{case['lines'][0]}`")
        return None
    mhead, spec = c01.split(mo[0])
    if spec.startswith("ok:"):
        want = spec[3:]
        if not io[0].startswith("ok "):
            return ("violation", f"valid text rejected: {io[0]} for `{case['lines'][0][:200]}`")
        got = io[0].split(" tree=", 1)[1]
        if got != want:
            return ("violation", f"parsed document differs from the value the text denotes: impl={got[:200]} spec={want[:200]} for `{case['lines'][0][:200]}`")
    elif io[0].startswith("ok "):
        return ("violation", f"invalid text accepted: {io[0][:120]}")
    if mhead and mhead != io[0]:
        return ("drift", f"parser model and implementation differ: model={mhead[:160]} impl={io[0][:160]}")
    return None


def shrink(case):
    if case["lines"][0].startswith("xmemcpy"):
        return iter(())
    return c01.shrink(case)


def search(rng, broken):
    return generate(rng, "thorough")
