"""C14 - Member lookup compares keys by exact bytes for every length and address."""
ID = "C14"
LEVEL = "proof"
LEAN_MODULES = ["Sonic.Props.C14"]
REQUIRED_THEOREMS = ["Sonic.Props.C14." + n for n in [
    "C14_eq", "C14_cmp", "C14_reads", "C14_san_agree", "C14_sse_agree", "C14_less", "C14_find", "C14_find_at",
    "C14_map_linear_agree", "C14_less_at"]]
CONFIGS = [("avx2", "prod"), ("avx2", "san"), ("sse", "prod")]
CONFIGS_THOROUGH = CONFIGS + [("sse", "san")]
RULE = ("pairs of equal-length byte ranges: lengths 0..130, every mismatch position and no mismatch, mismatch direction both ways "
        "(unsigned bytes incl. 0x00/0x7f/0x80/0xff), each operand placed 0..40 bytes and at random distances (all residues mod 32) "
        "before an unmapped page, surrounded by garbage equal to / different from the operand bytes.  distinct = distinct command "
        "line; non-trivial = length >= 1")
EXPLANATION = ("C14_eq/C14_cmp prove for every length, address pair and both build modes that the transcription of the AVX2 kernels "
               "returns exact byte equality / the memcmp sign without loading from a page that holds no operand byte (C14_reads); "
               "C14_less, C14_find tie the ordering functor and the linear lookup to byte equality. The run compares the compiled "
               "kernels (production build: in_page_32 fast path on guard pages; sanitizer build; SSE build = memcmp) with the model.")
ASSUMPTIONS = ["AVX2/SSE load, cmpeq, movemask, bzhi, ctz have their per-byte / per-bit meaning (validated by the correspondence)",
               "4096-byte pages"]
TRUSTED = ["per-byte meaning of _mm256_cmpeq_epi8/_mm256_movemask_epi8/bzhi/ctz"]
LEVEL_TEXT = ("Machine-checked proof (Lean 4) over a literal model of InlinedMemcmpEq/InlinedMemcmp (page-granular memory, both "
              "in_page_32 variants) for every length and address, plus correspondence with the compiled kernels in production builds "
              "on guard pages (a code path the test-suite never runs: ASan disables it).")
LEVEL_NOTE = "Trusted: Lean kernel; propext/Classical.choice/Quot.sound; per-byte meaning of the SIMD primitives; OS page protection."
TECHNIQUE = "Lean 4 theorem over a literal model; differential correspondence on guard pages"


def _hex(bs):
    return bytes(bs).hex() if bs else "-"


def generate(rng, tier):
    quick = tier == "quick"
    cases = []

    def add(oa, ob, g, a, b, cls):
        cases.append({"lines": [f"memcmp {oa} {ob} {g} {_hex(a)} {_hex(b)}"], "cls": cls, "nontrivial": len(a) >= 1})
    lens = list(range(0, 131)) if not quick else list(range(0, 70)) + [95, 96, 97, 127, 128, 129, 130]
    offs_near = list(range(0, 41))
    for n in lens:
        base = [rng.randrange(256) for _ in range(n)]
        positions = list(range(n)) + [None]
        if quick and n > 40:
            positions = sorted(set([0, 1, n - 1, n - 2, 15, 16, 31, 32, 33, 63, 64, n // 2, rng.randrange(n)]) & set(range(n))) + [None]
        for pos in positions:
            for rep in range(4 if quick else 12):
                a = list(base)
                b = list(base)
                if pos is not None:
                    d = rng.choice([1, 0x7F, 0x80, 0xFF, rng.randrange(1, 256)])
                    b[pos] = (a[pos] + d) % 256
                    # bytes after the mismatch differ arbitrarily (must not matter)
                    for j in range(pos + 1, n):
                        if rng.random() < 0.3:
                            b[j] = rng.randrange(256)
                oa = rng.choice(offs_near) if rng.random() < 0.7 else rng.randrange(0, 4097)
                ob = rng.choice(offs_near) if rng.random() < 0.7 else rng.randrange(0, 4097)
                g = rng.choice([0xAA, base[0] if n else 0, (b[pos] if pos is not None else 0)])
                if rng.random() < 0.5:
                    a, b = b, a
                add(oa, ob, g, a, b, "grid" if pos is not None else "equal")
    # exactly ONE differing byte, at every position of every length 0..200 (thorough: 0..300): a block that is never compared shows
    for n in range(1, 201 if quick else 301):
        base = [rng.randrange(256) for _ in range(n)]
        for pos in range(n):
            b = list(base)
            b[pos] ^= rng.choice([0x01, 0x80, 0xFF, 0x20])
            oa = rng.choice(offs_near) if rng.random() < 0.5 else rng.randrange(0, 4097)
            ob = rng.choice(offs_near) if rng.random() < 0.5 else rng.randrange(0, 4097)
            a2, b2 = (base, b) if rng.random() < 0.5 else (b, base)
            add(oa, ob, rng.choice([0xAA, 0x00, base[0]]), a2, b2, "single-difference")
    # both operands at every offset in the last 40 bytes for a few lengths
    for n in ([5, 31, 33] if quick else [1, 5, 15, 16, 17, 31, 32, 33, 45, 64, 65]):
        for oa in range(0, 41, 1 if not quick else 2):
            for ob in range(0, 41, 1 if not quick else 3):
                a = [rng.randrange(256) for _ in range(n)]
                b = list(a)
                if rng.random() < 0.5:
                    b[rng.randrange(n)] ^= 0x40
                add(oa, ob, 0x55, a, b, "page-end-grid")
    # member lookup through the public API (all overloads, with and without the lookup map): keys of every length class with
    # bytes >= 0x80, looked up exactly, with one byte changed, one byte shorter / longer, and the empty key; the key is handed to
    # the library as an exact-size block ending at an unmapped page (harness dom-find)
    lens = [0, 1, 2, 15, 16, 17, 31, 32, 33, 47, 63, 64, 65, 66, 95, 96, 97, 129]
    for rep in range(6 if quick else 200):
        keys = []
        for n in rng.sample(lens, 9) + [0]:
            k = bytes(rng.choice([0x61, 0x62, 0x7F, 0x80, 0xC3, 0xFF, 0x00, 0x22]) if rng.random() < 0.3 else rng.randrange(256) for _ in range(n))
            if k not in keys:
                keys.append(k)
        alloc = rng.choice(["pool", "simple"])
        lines = [f"dom-reset {alloc}", "dom-set 0 / obj"]
        exp = [{"_skip": True}, {"_skip": True}]
        for i, k in enumerate(keys):
            lines.append(f"dom-add 0 / {k.hex() or '-'} u{i} 1")
            exp.append({"_skip": True})
        if rep % 2:
            lines.append("dom-createmap 0 /")
            exp.append({"_skip": True})
        probes = []
        for i, k in enumerate(keys):
            probes.append(k)
            for pos in {0, len(k) // 2, 31, 32, len(k) - 33, len(k) - 1}:
                if 0 <= pos < len(k):
                    probes.append(k[:pos] + bytes([k[pos] ^ rng.choice([1, 0x80, 0xFF])]) + k[pos + 1:])
            probes.append(k[:-1])
            probes.append(k + bytes([rng.randrange(256)]))
        for pk in probes:
            idx = keys.index(pk) if pk in keys else None
            lines.append(f"dom-find 0 / {pk.hex() or '-'}")
            exp.append({"sv": str(idx) if idx is not None else "none", "pl": str(idx) if idx is not None else "none",
                        "has": "1" if idx is not None else "0", "at": f"u{idx}" if idx is not None else "n"})
        lines.append("dom-end")
        exp.append({"ok": True, "ledger": "ok"})
        cases.append({"lines": lines, "exp": exp, "cls": "member-lookup/" + ("map" if rep % 2 else "linear"), "nontrivial": True})
    # objects with MANY members and a lookup map: the map is ordered by the three-way comparison, so one inconsistent (non-transitive)
    # answer between three keys files a key where a lookup does not look. Field-name-like keys, short (< 8 bytes) and long mixed, from a
    # small alphabet (shared prefixes, order decided late) plus keys whose first bytes descend while later bytes ascend
    for rep in range(40 if quick else 2000):
        keys = []
        alpha = rng.choice([b"abcdeiu_", b"ab", bytes(range(0x30, 0x7B)), bytes([0x01, 0x61, 0x7F, 0x80, 0xFF])])
        for _ in range(rng.choice([8, 9, 12, 16, 24, 40])):
            n = rng.choice([1, 2, 3, 5, 7, 8, 9, 10, 12, 16, 17, 24, 33])
            k = bytes(rng.choice(alpha) for _ in range(n))
            if k not in keys:
                keys.append(k)
        lines = [f"dom-reset {rng.choice(['pool', 'simple'])}", "dom-set 0 / obj"]
        exp = [{"_skip": True}, {"_skip": True}]
        for i, k in enumerate(keys):
            lines.append(f"dom-add 0 / {k.hex() or '-'} u{i} 1")
            exp.append({"_skip": True})
        lines.append("dom-createmap 0 /")
        exp.append({"_skip": True})
        probes = list(keys) + [k[:-1] for k in keys[:6]] + [k + b"a" for k in keys[:6]]
        for pk in probes:
            idx = keys.index(pk) if pk in keys else None
            lines.append(f"dom-find 0 / {pk.hex() or '-'}")
            exp.append({"sv": str(idx) if idx is not None else "none", "pl": str(idx) if idx is not None else "none",
                        "has": "1" if idx is not None else "0", "at": f"u{idx}" if idx is not None else "n"})
        lines.append("dom-end")
        exp.append({"ok": True, "ledger": "ok"})
        cases.append({"lines": lines, "exp": exp, "cls": "member-lookup/map-many", "nontrivial": True})
    return cases


def _kv(line):
    d = {}
    for p in line.split():
        if "=" in p:
            k, v = p.split("=", 1)
            d[k] = v
    return d


def judge(case, mo, io, cfg):
    if "exp" in case:
        from props import c12
        return c12.judge_lines(case, mo, io, cfg)
    t = case["lines"][0].split()
    a = bytes.fromhex(t[4]) if t[4] != "-" else b""
    b = bytes.fromhex(t[5]) if t[5] != "-" else b""
    if "CRASH" in io[0]:
        return ("violation", f"comparison kernel crashed (read beyond a mapped page?): {io[0][:200]} for `{case['lines'][0][:140]}`")
    i, m = _kv(io[0]), _kv(mo[0])
    # property oracle: exact bytes
    eq = "1" if a == b else "0"
    cmp_ = "0" if a == b else ("-1" if a < b else "1")
    if i.get("eq") != eq or i.get("cmp") != cmp_:
        return ("violation", f"kernel result differs from byte comparison: impl={io[0]} expected eq={eq} cmp={cmp_} for `{case['lines'][0][:140]}`")
    pre = "san_" if cfg[1] == "san" else ""
    if m.get(pre + "eq") != i.get("eq") or m.get(pre + "cmp") != i.get("cmp"):
        return ("drift", f"model and implementation differ: model={mo[0]} impl={io[0]}")
    return None


def search(rng, broken):
    return generate(rng, "thorough")
