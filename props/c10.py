"""C10 - On-demand lookup returns exactly what full parsing plus pointer lookup returns."""
import os
import subprocess
import sys
sys.path.insert(0, os.path.dirname(os.path.dirname(os.path.abspath(__file__))))
from gen import jsongen as G
from lib.core import existing_modules

ID = "C10"
LEVEL = "proof"
LEAN_MODULES = ["Sonic.Props.C10", "Sonic.Props.C11"]
REQUIRED_THEOREMS = ["Sonic.Props.C10." + n for n in ["C10_agree", "C10_success_iff", "C10_skipString_seq", "C10_skipContainer_seq",
                                                         "C10_skipOne_value", "C10_skipSpaceSafe_exact", "C10_getNextToken_exact", "C10_parse_on_demand",
                                                         "C10_parse_on_demand_width"]]
CONFIGS = [("avx2", "prod"), ("sse", "prod"), ("avx2", "san"), ("sse", "san"), ("dyn", "prod")]
CONFIGS_THOROUGH = CONFIGS + [("dyn", "san")]
RULE = ("valid JSON texts from the type-directed generator (keys whose raw spelling differs from the decoded one, strings containing "
        "brackets/quotes/commas, duplicate keys, empty containers, whitespace runs, nesting), each shifted by 0..63 leading spaces; paths: "
        "every existing path of the document (enumerated from the text's structure) plus missing key, index = size, size+1, -1, wrong-kind "
        "step, steps through a duplicate key and into empty containers.  distinct = distinct command line; non-trivial = path length >= 1")
EXPLANATION = ("Oracle: Spec.Pointer.at applied to Spec.Json.parse of the text (Lean), and Spec.Json.parse of the returned slice. The "
               "implementation must succeed exactly when the path resolves, the slice must lie inside the input and denote the same value, "
               "ParseOnDemand must yield that value, and an unresolved path must give an error with an empty slice. The literal model "
               "(Model.OnDemand, all skipping primitives block-wise) must agree on code, offsets and slice bounds for each vector width. "
               "Theorems proved so far are listed in the evidence.")
ASSUMPTIONS = ["GetEscaped<N>, PrefixXor, CountOnes, TrailingZeroes have their per-bit meaning (validated by the correspondence)"]
TRUSTED = ["Spec.Json.parse / Spec.Pointer.at as oracle (compiled Lean evaluation)"]
LEVEL_TEXT = ("Machine-checked proof (Lean 4, C10_agree): for every valid JSON text (per the executable RFC 8259 spec), every path, vector "
              "width and key-buffer content, the literal block-wise model of GetOnDemand succeeds iff the path resolves (first match for "
              "duplicate keys), the slice [start,stop) lies in the input and the spec parser reads the resolved value at `start` (followed "
              "only by whitespace inside the slice); otherwise an error with an empty target. GetEscaped's bit trick is a stated primitive "
              "(validated by the run) unless C10_getEscaped is listed. ParseOnDemand = slice + Parse is compared by trees in the run.")
LEVEL_NOTE = "Trusted: Lean kernel; standard axioms; compiled Lean evaluation of the spec; harness."
TECHNIQUE = "Lean 4 executable spec as oracle + component theorems; differential correspondence"


def paths_of(rng, text):
    """enumerate (some) paths from the TEXT structure with a tiny permissive walker (valid generator output only)"""
    import json

    class K(str):
        pass
    try:
        # object_pairs_hook keeps duplicates; strings decoded by python (surrogates may appear: handled by latin-1 trick below)
        v = json.loads(text.decode("utf-8", "surrogateescape"), object_pairs_hook=lambda kv: ("obj", kv))
    except Exception:
        return [[]]
    out = [[]]

    def enc(k):
        try:
            return k.encode("utf-8", "surrogatepass").hex() or "-"
        except Exception:
            return None

    def walk(x, pre, depth):
        if depth > 6 or len(out) > 60:
            return
        if isinstance(x, tuple) and x and x[0] == "obj":
            seen = set()
            for k, val in x[1]:
                e = enc(k)
                if e is None or k in seen:
                    continue
                seen.add(k)
                p = pre + ["k" + e]
                out.append(p)
                walk(val, p, depth + 1)
            out.append(pre + ["k" + b"missing-key".hex()])
            out.append(pre + ["n0"])
        elif isinstance(x, list):
            for i, val in enumerate(x[:6]):
                p = pre + ["n%d" % i]
                out.append(p)
                walk(val, p, depth + 1)
            out.append(pre + ["n%d" % len(x)])
            out.append(pre + ["n%d" % (len(x) + 1)])
            out.append(pre + ["n-1"])
            out.append(pre + ["k61"])
        else:
            out.append(pre + ["n0"])
            out.append(pre + ["k61"])
    walk(v, [], 0)
    return out


def generate(rng, tier):
    quick = tier == "quick"
    cases = []
    docs = [G.gen_doc(rng, maxdepth=rng.choice([2, 3, 5])) for _ in range(500 if quick else 40000)]
    docs += [b'{"a\\"b":[1,{"c":"]}"}],"d":2}', b'{"\\u0061":1,"a":2}', b'[[],5]', b'{"a":[],"b":[7]}', b'{"a":{},"b":{"a":1}}', b'[1 ,2 , 3]',
             b'{"k":"v,]}\\\\","z":[{"k":"\\""}]}', b'[[[[[[1]]]]]]', b'{"":{"":1}}', b' [ ] ', b'{"a":1,"a":2}', b'["\\\\",1]', b'["\\\\\\"",1]']
    docs += G.pretty_docs(rng, quick)
    for d in docs:
        ps = paths_of(rng, d)
        if len(ps) > (6 if quick else 40):
            ps = rng.sample(ps, 6 if quick else 40)
        shift = b" " * rng.choice([0, 0, 1, 5, 31, 32, 33, 63])
        for p in ps:
            place = rng.choice(["heap", "page"])
            cases.append({"lines": [f"ondemand {place} {G.hx(shift + d)} " + " ".join(p)], "cls": "ondemand/len%d" % min(len(p), 4), "nontrivial": len(p) >= 1})
            if rng.random() < 0.25:
                cases.append({"lines": [f"pod {G.hx(shift + d)} " + " ".join(p)], "cls": "pod", "nontrivial": len(p) >= 1})
    # strings with \" and backslash runs placed at every offset relative to the 64-byte skip blocks, inside containers that
    # the lookup has to SKIP (earlier array element / value of a non-matching key), as values and as keys
    for pad in (range(0, 140, 1) if not quick else list(range(0, 140, 3)) + [61, 62, 63, 64, 65, 125, 126, 127, 128, 129]):
        x = b"x" * pad
        for esc in (b'\\"', b'\\\\', b'\\\\\\"', b'\\n'):
            for d, ps in ((b'[["' + x + esc + b']",1,2],3]', [["n1"], ["n2"], ["n0", "n1"], ["n0", "n0"]]),
                          (b'{"a":["' + x + esc + b']",{"b":1}],"b":2}', [["k62"], ["k61", "n1", "k62"], ["k63"]]),
                          (b'{"' + x + esc + b'}":{"z":[1]},"q":{"' + x + esc + b'":7}}', [["k71"], ["k71", "k" + (x + {b'\\"': b'"', b'\\\\': b'\\', b'\\\\\\"': b'\\"', b'\\n': b'\n'}[esc]).hex()]]),
                          (b'[{"k":"' + x + esc + b'"},[' + b'"' + esc + x + b'"' + b'],' + b" " * (pad % 7) + b'{"t":true}]', [["n2", "k74"], ["n1", "n0"], ["n3"]])):
                if quick and (pad % 2) and esc != b'\\"':
                    continue
                for p in ps:
                    cases.append({"lines": [f"ondemand {rng.choice(['heap', 'page'])} {G.hx(d)} " + " ".join(p)], "cls": "escape-at-block-edge", "nontrivial": True})
    # keys written with escapes, looked up by their DECODED form (resolves), by their RAW spelling (resolves only if another member
    # decodes to exactly those bytes), and by near-misses of both; duplicates whose spellings differ
    import json as _json
    raws = [b"a\\\\b", b"a\\nb", b"\\u0061", b'x\\"y', b"k\\\\", b"\\/", b"q\\tq\\\\", b"\\u005c", b"\\\\\\\\", b'k\\"', b"a\\u005cb"]
    for raw in raws:
        dec = _json.loads(b'"' + raw + b'"').encode("utf-8", "surrogatepass")
        other = rng.choice(raws)
        for d in (b'{"' + raw + b'":1,"zz":[2]}', b'{"first":0,"' + raw + b'":{"in":[1,2]},"' + other + b'":7}' + b" " * 70,
                  b'{"' + raw + b'":1,"' + raw.replace(b"\\\\", b"\\\\\\\\") + b'":2}', b'[{"' + raw + b'":[true]}]'):
            pre = [] if d[:1] == b"{" else ["n0"]
            for key in (dec, raw, raw + b"\\", dec + b"\\", raw[:-1], dec[:-1] if dec else b"x", other):
                cases.append({"lines": [f"ondemand {rng.choice(['heap', 'page'])} {G.hx(d)} " + " ".join(pre + ["k" + (key.hex() or "-")])], "cls": "escaped-key-spellings",
                              "nontrivial": True})
                if rng.random() < 0.3:
                    cases.append({"lines": [f"pod {G.hx(d)} " + " ".join(pre + ["k" + (key.hex() or "-")])], "cls": "pod", "nontrivial": True})
    for d in docs[: (20 if quick else 800)]:
        if len(d) < 120:
            ps = paths_of(rng, d)
            p = rng.choice(ps)
            for sh in range(0, 64, 3 if quick else 1):
                cases.append({"lines": [f"ondemand heap {G.hx(b' ' * sh + d)} " + " ".join(p)], "cls": "shifted", "nontrivial": len(p) >= 1})
    return cases


_DRIVER = os.path.join(os.path.dirname(os.path.dirname(os.path.abspath(__file__))), "lean/.lake/build/bin/sonic_model")


def _kv(s):
    return dict(p.split("=", 1) for p in s.split() if "=" in p)


def judge(case, mo, io, cfg):
    toks = case["lines"][0].split()
    if "CRASH" in io[0]:
        return ("violation", f"on-demand crashed / sanitizer report: {io[0][:200]} for `{case['lines'][0][:200]}`")
    if toks[0] == "pod":
        spec = mo[0].split("spec=", 1)[1].strip()
        if spec.startswith("found:"):
            if io[0] != "ok tree=" + spec[6:]:
                return ("violation", f"ParseOnDemand result differs from Parse+pointer: impl={io[0][:160]} spec={spec[:160]} for `{case['lines'][0][:200]}`")
        elif spec == "unresolved" and io[0].startswith("ok"):
            return ("violation", f"ParseOnDemand succeeded although the path does not resolve: {io[0][:160]} for `{case['lines'][0][:200]}`")
        head = mo[0].split(" spec=", 1)[0]
        if head != io[0]:
            return ("drift", f"ParseOnDemand: composed model (GetOnDemand + Parse of the slice) and implementation differ: model={head[:140]} impl={io[0][:140]}")
        return None
    head, _, rest = mo[0].partition(" spec=")
    spec, _, sl = rest.partition(" slice=")
    i = _kv(io[0])
    ok = io[0].startswith("ok")
    if "OUTSIDE" in io[0]:
        return ("violation", f"returned slice lies outside the input: {io[0]}")
    if spec.startswith("found:"):
        if not ok:
            return ("violation", f"path resolves in the parsed document but on-demand failed: {io[0]} for `{case['lines'][0][:220]}`")
        m = _kv(head)
        if (i.get("start"), i.get("end")) == (m.get("start"), m.get("end")):
            slice_spec = sl.strip()
        else:
            slice_spec = subprocess.run([_DRIVER], input=f"slice-spec {toks[2]} {i.get('start')} {i.get('end')}\n", capture_output=True, text=True).stdout.strip()
        if slice_spec != "ok:" + spec[6:]:
            return ("violation", f"returned slice denotes {slice_spec[:120]} but the path resolves to {spec[6:][:120]} for `{case['lines'][0][:220]}`")
    elif spec == "unresolved":
        if ok:
            return ("violation", f"path does not resolve but on-demand returned a slice: {io[0]} for `{case['lines'][0][:220]}`")
        if i.get("tsize") != "0":
            return ("violation", f"error with a non-empty slice: {io[0]}")
    if head != io[0]:
        return ("drift", f"model and implementation differ (code, offsets or slice bounds): model={head[:140]} impl={io[0][:140]}")
    return None


def search(rng, broken):
    return generate(rng, "thorough")
