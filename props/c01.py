"""C01 - Parse accepts exactly the RFC 8259 language and reports failure coherently."""
import os
import sys
sys.path.insert(0, os.path.dirname(os.path.dirname(os.path.abspath(__file__))))
from gen import jsongen as G

ID = "C01"
LEVEL = "proof"
from lib.core import existing_modules
LEAN_MODULES = ['Sonic.Props.C01', 'Sonic.Props.C05']
REQUIRED_THEOREMS = ["Sonic.Props.C01." + n for n in ["C01_skipSpace_naive", "C01_skipSpace_padded", "C01_skipSpace_cache_stable", "C01_literal", "C01_literal_spec",
                                                         "C01_accept_iff", "C01_accept_iff_fresh", "C01_ok_offset", "C01_fail_shape", "C01_pad_irrelevant_partial",
                                                         "C01_width_irrelevant_partial", "C01_pad_irrelevant", "C01_pad_irrelevant_fresh", "C01_width_irrelevant",
                                                         "C01_width_differs"]]
CONFIGS = [("avx2", "prod"), ("sse", "prod"), ("avx2", "san"), ("sse", "san"), ("dyn", "prod")]
CONFIGS_THOROUGH = CONFIGS + [("dyn", "san")]
PARSE_CODES = {"1", "2", "3", "4", "5", "6", "7", "15"}
RULE = ("valid texts from a type-directed generator (all kinds, nesting, member counts incl. 0, duplicate keys, whitespace runs of "
        "0..130 bytes); EVERY proper prefix of valid texts up to 300 bytes; single-byte replacements / deletions / insertions at every "
        "position of texts up to 120 bytes from an alphabet of structural, control and high bytes; each text shifted by 0..63 leading "
        "spaces (position relative to the 32/64-byte blocks); trailing garbage after the root; sentinel look-alikes (x\"x); deep and "
        "uneven nesting; pretty-printed documents with every indentation width 0..140 (blanks, tabs, CRLF) and their prefixes; EVERY byte "
        "value at token positions behind 2/3/64 (thorough: 0..70) blanks; numbers at the overflow / underflow / integer-kind boundaries "
        "for every mantissa width; raw control bytes after an escape at every block distance.  distinct = distinct command line; "
        "non-trivial = longer than 2 bytes")
EXPLANATION = ("Oracle: Spec.Json.parse (Lean recursive-descent reader written from RFC 8259 with Spec.decodeLit / Spec.Number.scanNumber / "
               "Spec.Rne), evaluated by the compiled driver on every input; the implementation must accept iff the spec does, report "
               "code 0 and offset = length on success, and a parse error code, a null document and an offset within [0,len] on failure "
               "(code 3 exactly for numbers that round to infinity). Theorems: see the list in the evidence (component theorems of the "
               "parser refinement; the full accept-iff theorem is stated in Props/C01.lean when proved).")
ASSUMPTIONS = ["SIMD primitives have their per-byte meaning", "Malloc(len+64) yields len+64 usable bytes (C16)"]
TRUSTED = ["Spec.Json.parse as oracle (compiled Lean evaluation)"]
LEVEL_TEXT = ("Machine-checked proof (Lean 4): for every byte string (length + 4 < 2^32), every vector width 0 < W <= 63, every padding and stale "
              "node-stack content, the literal model of parseImpl (goto state machine, cached whitespace bitmap, in-place string decoding, SAX "
              "stack, the complete number parser) accepts iff the RFC 8259 spec does (C01_accept_iff), success offset = length, failure => null "
              "document, parse code, offset <= length (C01_fail_shape); code/offset/tree are independent of the uninitialised memory "
              "(C01_pad_irrelevant) and of the width except inside a malformed string literal (C01_width_irrelevant). "
              "No hypothesis about numbers is left: the number model is proved against the exact reference for every conversion path and every written exponent (C04, after the fix of finding F6); the only size bound is length + 4 < 2^32. The model is tied to the compiled code by the correspondence run (exact code and offset per width) and the SIMD/in-body "
              "constants extracted from the source (simd_consts, parse_consts, scan_consts).")
LEVEL_NOTE = "Trusted: Lean kernel; standard axioms; compiled Lean evaluation of the spec; harness."
TECHNIQUE = "Lean 4 whole-parser refinement proof (model = RFC 8259 spec) + source-constant theorems + differential correspondence"


def _case(t, cls, alloc="pool"):
    return {"lines": [f"parse {alloc} {G.hx(t)}"], "cls": cls, "nontrivial": len(t) > 2}


def generate(rng, tier):
    quick = tier == "quick"
    cases = []
    docs = [G.gen_doc(rng) for _ in range(600 if quick else 40000)]
    for d in docs:
        cases.append(_case(d, "valid", rng.choice(["pool", "simple"])))
    for d in docs[: (60 if quick else 3000)]:
        if len(d) <= 300:
            for p in G.prefixes(d):
                cases.append(_case(p, "prefix"))
    for d in docs[: (150 if quick else 8000)]:
        if len(d) <= 120:
            for mt in G.mutations(rng, d, limit=12 if quick else None):
                cases.append(_case(mt, "mutation"))
    for d in docs[: (30 if quick else 1500)]:
        if len(d) <= 100:
            for sh in (range(0, 64, 7) if quick else range(0, 64)):
                cases.append(_case(b" " * sh + d, "shifted"))
                if rng.random() < 0.3:
                    cases.append(_case(b" " * sh + d[: rng.randrange(0, len(d) + 1)], "shifted-prefix"))
    for d in docs[: (100 if quick else 5000)]:
        for tail in (b"x", b" x", b",", b"]", b"}", b"1", b'"', b" \n", b"\x00", b"//", b"x\"x", b"null"):
            if rng.random() < (0.25 if quick else 1.0):
                cases.append(_case(d + tail, "trailing"))
    for t in [b"", b" ", b"x", b"x\"x", b"\"x", b"\"\\", b"\"abc", b"[\"abc", b"[1", b"[1,", b"{\"a\"", b"{\"a\":", b"tru", b"nul", b"fals",
              b"true ", b"nullx", b"falsex", b"\xef\xbb\xbf[]", b"[]]", b"{}}", b"[,]", b"[1,]", b"{,}", b"{\"a\":1,}", b"{\"a\" 1}", b"{a:1}",
              b"['a']", b"[1 2]", b"\"\x00\"", b"\"\x1f\"", b"\"\x7f\"", b"1e999", b"[1e999]", b"-", b"[-]", b"\"\\ud800\"", b"\"\\udc00\"",
              b"[\"\\u12\"]", b"\t\n\r []", b"\x0b[]", b"\x0c[]", b"\xa0[]"]:
        cases.append(_case(t, "handwritten"))
    for t in G.nesting_texts(rng):
        cases.append(_case(t, "nesting"))
    for t in G.pretty_docs(rng, quick):
        cases.append(_case(t, "pretty-printed", rng.choice(["pool", "simple"])))
        if rng.random() < 0.5:
            cut = rng.randrange(0, len(t))
            cases.append(_case(t[:cut], "pretty-printed-prefix"))
    # maximally compact texts (one node per two bytes: the node stack is sized from the input length): flat arrays of single digits,
    # nests around one digit, combs - every length class up to 300 bytes
    for n in (range(1, 150) if not quick else list(range(1, 40)) + [63, 64, 65, 100, 149]):
        cases.append(_case(b"[" + b",".join(b"%d" % (i % 10) for i in range(n)) + b"]", "compact"))
        cases.append(_case(b"[" * n + b"7" + b"]" * n, "compact"))
        cases.append(_case(b"[1," * n + b"1" + b"]" * n, "compact"))
        cases.append(_case(b'{"":' * n + b"1" + b"}" * n, "compact"))
    # every byte value at a token position behind runs of blanks (the vector whitespace classifier takes over after two blanks;
    # 63..65 blanks cross a 64-byte bitmap block): accepted only for whitespace, digits 1-9 and '-'
    for b in range(256):
        for k in ([2, 3, 64] if quick else [0, 1, 2, 3, 7, 31, 62, 63, 64, 65, 70]):
            ws = bytes(rng.choice(b" \t\n\r") for _ in range(k))
            cases.append(_case(b"[1," + ws + bytes([b]) + b"2]", "byte-after-blanks"))
            cases.append(_case(rng.choice([b'{"a":' + ws + bytes([b]) + b" 1}", b"[" + ws + bytes([b]) + b"]", ws + bytes([b]), b'{"a"' + ws + bytes([b]) + b":1}",
                                          b"[1" + ws + bytes([b]) + b"]", b"[1]" + ws + bytes([b])]), "byte-after-blanks"))
    # numbers at the overflow / underflow / integer-kind boundaries, as root, element and member value
    for n in G.number_edges():
        cases.append(_case(rng.choice([n, b"[" + n + b"]", b'{"limit":' + n + b"}", b"[0," + n + b" ]"]), "number-edge"))
    # raw control bytes inside strings: after an escape, at every block distance from the opening and the closing quote
    for body in G.ctrl_strings(rng, quick):
        wrap = rng.choice([b'["%s"]', b'{"k":"%s"}', b'{"%s":1}', b'"%s"', b'[1,"%s" ,2]'])
        cases.append(_case(wrap % body, "ctrl-in-string"))
        if rng.random() < 0.3:
            valid = bytes(b if b >= 0x20 else 0x20 for b in body)
            cases.append(_case(wrap % valid, "ctrl-twin-valid"))
    return cases


def split(mo0):
    head, _, spec = mo0.rpartition("spec=")
    return head.strip(), spec.strip()


def judge(case, mo, io, cfg):
    text = bytes.fromhex(case["lines"][0].split()[2]) if case["lines"][0].split()[2] != "-" else b""
    if "CRASH" in io[0]:
        return ("violation", f"Parse crashed / sanitizer report: {io[0][:200]} for `{case['lines'][0][:160]}`")
    mhead, spec = split(mo[0])
    f = dict(p.split("=", 1) for p in io[0].split()[1:] if "=" in p) if io[0].startswith("ok") else dict(p.split("=", 1) for p in io[0].split() if "=" in p)
    ok = io[0].startswith("ok ")
    if spec.startswith("ok:"):
        if not ok:
            return ("violation", f"valid JSON text rejected: {io[0]} for `{case['lines'][0][:200]}`")
        if f.get("off") != str(len(text)):
            return ("violation", f"success but reported offset {f.get('off')} != length {len(text)}")
    else:
        if ok:
            return ("violation", f"invalid JSON text accepted ({spec}): {io[0][:120]} for `{case['lines'][0][:200]}`")
        if f.get("null") != "1":
            return ("violation", f"document not null after a failed parse: {io[0]}")
        if f.get("err") not in PARSE_CODES:
            return ("violation", f"failure reported with a non-parse error code: {io[0]}")
        if not (0 <= int(f.get("off", "-1")) <= len(text)):
            return ("violation", f"error offset {f.get('off')} outside [0,{len(text)}] for `{case['lines'][0][:200]}`")
        if spec == "infinity" and f.get("err") != "3":
            # the spec only says infinity when the text is otherwise well-formed up to that number
            return ("violation", f"a number that rounds to infinity was rejected with code {f.get('err')} instead of the infinity error")
    if mhead and mhead != io[0]:
        return ("drift", f"parser model and implementation differ (error code/offset): model={mhead[:120]} impl={io[0][:120]}")
    return None


def shrink(case):
    t = case["lines"][0].split()
    s = bytes.fromhex(t[2]) if t[2] != "-" else b""
    for k in range(len(s)):
        c = s[:k] + s[k + 1:]
        yield {"lines": [f"parse {t[1]} {G.hx(c)}"], "cls": case.get("cls")}


def search(rng, broken):
    return generate(rng, "thorough")
