"""C07 - Finite doubles print as the shortest decimal that reads back to the same double."""
import os
import re
import struct
import subprocess

ID = "C07"
LEVEL = "proof"
from lib.core import existing_modules
LEAN_MODULES = ["Sonic.Props.C07"]
REQUIRED_THEOREMS = ["Sonic.Props.C07." + n for n in ["C07_tables", "C07_exponents", "C07_checker_sound", "C07_inInterval", "C07_zero", "C07_integer_path",
                                                         "C07_format", "C07_decimal_path", "C07_output", "C07_validCQ", "C07_schubfach", "C07_shortest",
                                                         "C07_roundTrips_iff_rne", "C07_roundTrips_iff_rne_signed", "C07_chk_reparse", "C07_chk_reparse_signed",
                                                         "C07_fast_chk", "C07_print_shortest_and_reparses"]]
CONFIGS = [("avx2", "prod"), ("sse", "prod"), ("avx2", "san"), ("dyn", "prod")]
CONFIGS_THOROUGH = CONFIGS + [("sse", "san")]
RULE = ("bit patterns: for each of the 2046 finite binary exponents the smallest significand (irregular boundary), +1, the largest, and "
        "random ones; every subnormal exponent; 10^k (k=-323..308) and both neighbours; integers 0..N, powers of two and 2^53 neighbourhood; "
        "single-precision values widened; uniformly random 64-bit patterns; both signs.  distinct = distinct bit pattern; "
        "non-trivial = finite and non-zero")
EXPLANATION = ("Proved in Lean for ALL doubles: every row of the power-of-ten table and the three fixed-point logarithm approximations "
               "(C07_tables), soundness of the decidable certificate chk (round-trips / minimal digits / closest; C07_checker_sound), the zero, "
               "integer and formatting paths (C07_output ...), the Schubfach core (C07_schubfach: the decimal chosen by the model of F64ToDecimal "
               "satisfies chk for every finite non-zero double - via 2046 kernel-checked number-theoretic certificates showing that RoundToOdd of "
               "the 128-bit table product is the exact round-to-odd of the true scaled value; C07_shortest) and the link to the reference reader "
               "(C07_roundTrips_iff_rne: the rounding interval is exactly the preimage of the bit pattern under Spec.Rne.round; C07_chk_reparse). "
               "The run ties the model to the compiled code: bytes and write extent equal the model's, and - independently of the model - chk and "
               "the exact reference rounding are evaluated on the digits the implementation printed; the text is also read back through the "
               "library's own parser.")
ASSUMPTIONS = ["__uint128_t multiplication is exact (modelled as Nat product mod 2^128)",
               "the model of ftoa.h is tied to the compiled code by correspondence (bytes, extent) on the generated bit patterns"]
TRUSTED = ["the decidable checker Spec.Shortest.chk (proved sound) evaluated by the compiled Lean driver on each printed text (cross-check)"]
LEVEL_TEXT = ("Machine-checked proof (Lean 4) for every double: C07_print_shortest_and_reparses - for every finite non-zero bit pattern, on "
              "both paths (integer fast path, Schubfach), the model of F64toa does not fault, prints a JSON number with a fraction or exponent of "
              "at most 25 bytes inside the 32 reserved, denoting a decimal that satisfies the certificate (reads back as the same double, minimal "
              "number of digits, closest among those) and that the exact reference reader Spec.Rne.round maps back to the same bits; C07_zero "
              "and the non-finite case complete it. The model is tied to the compiled code by the correspondence run (bytes, extent) plus an "
              "independent per-output evaluation of the proved-sound certificate.")
LEVEL_NOTE = "Trusted: Lean kernel; standard axioms; table translator; exactness of 128-bit multiplication; correspondence run (model = compiled code)."
TECHNIQUE = "Lean 4 proof of the Schubfach model for all doubles (kernel-checked certificates) + per-output proved-sound checker + differential correspondence"


def _bits(f):
    return struct.unpack("<Q", struct.pack("<d", f))[0]


def generate(rng, tier):
    quick = tier == "quick"
    vals = set()
    for e in range(0, 2047):
        base = e << 52
        sigs = [0, 1, (1 << 52) - 1] + [rng.getrandbits(52) for _ in range(2 if quick else 40)]
        if quick and e % 3:
            sigs = sigs[:3] + sigs[3:4]
        for s in sigs:
            vals.add(base | s)
    for s in range(0, 53):
        vals.add(1 << s)
        vals.add((1 << s) + 1 if s else 3)
        vals.add((1 << s) - 1 if s else 2)
    for k in range(-323, 309):
        try:
            b = _bits(float("1e%d" % k))
        except OverflowError:
            continue
        for d in (-1, 0, 1):
            vals.add(b + d)
    for n in list(range(0, 2000 if quick else 200000)) + [2 ** 53 - 1, 2 ** 53, 2 ** 53 + 2, 10 ** 15, 10 ** 16, 10 ** 17, 10 ** 20, 10 ** 21, 10 ** 22, 123456789012345678]:
        vals.add(_bits(float(n)))
    for _ in range(3000 if quick else 400000):
        f32 = struct.unpack("<f", struct.pack("<I", rng.getrandbits(32)))[0]
        if f32 == f32 and abs(f32) != float("inf"):
            vals.add(_bits(float(f32)))
    for _ in range(6000 if quick else 1500000):
        vals.add(rng.getrandbits(63))
    # decimal-looking values (short reprs, both formats and the sci_exp thresholds -7/-6/20/21)
    for _ in range(3000 if quick else 200000):
        m = rng.randrange(1, 10 ** rng.randrange(1, 18))
        e = rng.randrange(-30, 30)
        vals.add(_bits(float("%de%d" % (m, e))))
    cases = []
    for v in sorted(vals):
        for sign in ((0, 1 << 63) if (v % 7 == 0 or v < 4) else (0,)):
            b = v | sign
            fin = ((b >> 52) & 0x7FF) != 0x7FF
            cases.append({"lines": [f"f64toa {b}"], "cls": ("nonfinite" if not fin else "zero" if (b << 1) & (2 ** 64 - 1) == 0 else "subnormal" if ((b >> 52) & 0x7FF) == 0 else "normal"),
                          "nontrivial": fin and (b & (2 ** 63 - 1)) != 0})
    return cases


def _kv(line):
    parts = line.split()
    d = {"hex": parts[0] if parts else ""}
    for p in parts[1:]:
        if "=" in p:
            k, v = p.split("=", 1)
            d[k] = v
        else:
            d[p] = True
    return d


_DRIVER = os.path.join(os.path.dirname(os.path.dirname(os.path.abspath(__file__))), "lean/.lake/build/bin/sonic_model")


def _oracle(bits, hexs):
    out = subprocess.run([_DRIVER], input=f"f64chk {bits} {hexs}\n", capture_output=True, text=True).stdout.strip()
    return _kv("x " + out)


def judge(case, mo, io, cfg):
    bits = int(case["lines"][0].split()[1])
    if "CRASH" in io[0]:
        return ("violation", f"F64toa crashed: {io[0][:200]} for bits {bits}")
    fin = ((bits >> 52) & 0x7FF) != 0x7FF
    if not fin:
        if io[0] != "nonfinite":
            return ("violation", f"non-finite double printed as {io[0]}")
        return None if mo[0] == "nonfinite" else ("drift", f"model={mo[0]} impl={io[0]}")
    i, m = _kv(io[0]), _kv(mo[0])
    text = bytes.fromhex(i["hex"]).decode("latin1") if i["hex"] not in ("-", "nonfinite") else ""
    if i["hex"] == "nonfinite":
        return ("violation", f"finite double {bits} not printed")
    if not re.fullmatch(r"-?(0|[1-9][0-9]*)(\.[0-9]+)?([eE][+-]?[0-9]+)?", text):
        return ("violation", f"printed text is not a JSON number: {text!r} for bits {bits}")
    if "." not in text and "e" not in text and "E" not in text:
        return ("violation", f"printed text has neither fraction nor exponent: {text!r}")
    mant = re.split("[eE]", text)[0]
    if "." in mant and mant.endswith("0") and not mant.endswith(".0"):
        return ("violation", f"superfluous trailing zero digits: {text!r}")
    if len(text) > 32 or "UNDERWRITE" in i or int(i.get("ext", "0")) > 32:
        return ("violation", f"more than the 32 reserved bytes touched: {io[0]}")
    if i.get("rb") != f"d{bits}":
        return ("violation", f"the library's own parser reads {text!r} back as {i.get('rb')} instead of d{bits}")
    if i["hex"] == m["hex"]:
        chk, rt = m.get("chk"), m.get("rt")
    else:
        o = _oracle(bits, i["hex"])
        chk, rt = o.get("chk"), o.get("rt")
    if rt != "1":
        return ("violation", f"{text!r} does not round (nearest-even) to the double with bits {bits}")
    if chk != "1":
        return ("violation", f"{text!r} is not the shortest/closest decimal for bits {bits}")
    if i["hex"] != m["hex"] or i.get("ext") != m.get("ext"):
        return ("drift", f"model and implementation differ (bytes or write extent): model={mo[0]} impl={io[0]}")
    return None


def search(rng, broken):
    return generate(rng, "thorough")
