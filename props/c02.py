"""C02 - Parse is total and memory-safe on arbitrary bytes for every allocator kind."""
import os
import sys
sys.path.insert(0, os.path.dirname(os.path.dirname(os.path.abspath(__file__))))
from gen import jsongen as G
from lib.core import existing_modules
from props import c01

ID = "C02"
LEVEL = "proof"
LEAN_MODULES = ['Sonic.Props.C02', 'Sonic.Props.C05']
REQUIRED_THEOREMS = ["Sonic.Props.C02." + n for n in ["C02_no_fault", "C02_reads_bounded", "C02_stack_bounded", "C02_node_full", "C02_teardown_init", "C02_reusable",
                                                         "C02_no_leak"]]
CONFIGS = [("avx2", "san"), ("sse", "san"), ("avx2", "prod"), ("sse", "prod"), ("dyn", "san")]
CONFIGS_THOROUGH = CONFIGS + [("dyn", "prod")]
ENV = {"MALLOC_PERTURB_": "243"}   # glibc fills fresh blocks with 0x0C (= kStringFree: worst case for a stale node) in prod builds
RULE = ("the C01 corpus (valid, every prefix, mutations) plus deep/uneven nesting ('[' x n ']' x m for m<=n<=80, '{\"a\":' x n, texts whose node "
        "count crosses len/2+2 with scalars following the exhausted stack), each parsed with the pool allocator, SimpleAllocator, a "
        "tracking allocator (ledger: foreign/double free, write-after-free through poisoned quarantine, leaks after destruction) and a "
        "guard-page allocator (every allocator-owned block ends at a PROT_NONE page, freed blocks are unmapped) - in sanitizer builds "
        "(ASan+UBSan+LSan) and in production builds with a dirty heap (MALLOC_PERTURB_); fresh documents and one document reused across "
        "2-5 parses with valid and invalid texts interleaved; `gpool` = the non-freeing pool over the guard allocator with minimal chunks "
        "(every pool block ends at a guard page) with reparse sequences growing by 1..66 bytes; `upool-N-E` = pool over a user-supplied "
        "buffer of every size 96..700 between canaries (every start/end misalignment); one document larger than a 64 KiB chunk.  distinct = distinct command line; non-trivial = longer than 2 bytes")
EXPLANATION = ("What a Lean model cannot exhibit (undefined behaviour of compiled code, the real heap) is observed by running the real code "
               "under ASan/UBSan/LSan, a tracking allocator and guard pages; this validates the checked-memory model (C02_no_fault family, "
               "listed in the evidence when proved) rather than replacing it. Any crash, sanitizer report, ledger problem or disagreement "
               "with the executable spec on accept/reject is a violation.")
ASSUMPTIONS = ["std::vector growth of the depth stack and the base malloc are not modelled"]
TRUSTED = ["ASan/UBSan/LSan, mmap guard pages and the harness ledger as observers of the compiled code"]
LEVEL_TEXT = ("Machine-checked proof (Lean 4) over the checked-memory parser model: for ANY bytes, width, padding and stale stack content no "
              "read/write outside the len+64 buffer, no node-stack index >= max(16,len/2+2), no use or destruction of an unconstructed slot, "
              "document reusable afterwards, nothing leaked (C02_no_fault, C02_reads_bounded, C02_stack_bounded, C02_teardown_init, C02_reusable, "
              "C02_no_leak) - no hypothesis about numbers is left: the number model is proved against the exact reference for every conversion path and every written exponent (C04, after the fix of finding F6); the only size bound is length + 4 < 2^32. What a model cannot exhibit (real UB of compiled code, "
              "the heap) is outside any model; the model is tied to the compiled code by sanitizer, guard-page (incl. guarded non-freeing pool and user-buffer pool between canaries), dirty-heap and ledger runs on the differential corpus.")
LEVEL_NOTE = "Trusted: Lean kernel; sanitizers, guard pages, tracking allocator; compiled Lean evaluation of the spec."
TECHNIQUE = "Lean 4 checked-memory model theorems + sanitizer/guard-page/ledger validation of the real code on a differential corpus"


def generate(rng, tier):
    quick = tier == "quick"
    texts = []
    docs = [G.gen_doc(rng) for _ in range(250 if quick else 20000)]
    texts += [(d, "valid") for d in docs]
    for d in docs[: (40 if quick else 2500)]:
        if len(d) <= 200:
            texts += [(p, "prefix") for p in G.prefixes(d)]
    for d in docs[: (80 if quick else 5000)]:
        if len(d) <= 120:
            texts += [(m, "mutation") for m in G.mutations(rng, d, limit=8 if quick else None)]
    texts += [(t, "nesting") for t in G.nesting_texts(rng)]
    for n in range(17, 70, 1 if not quick else 4):
        for j in range(1, 9, 1 if not quick else 3):
            for tok in (b"true", b"null", b"false", b"1", b'"s"', b"[]", b"{}"):
                texts.append((b"[" * n + b",".join([tok] * j) + b"]", "stack-exhaustion"))
                texts.append((b'{"a":' * n + tok + b"}" * (j % 3), "stack-exhaustion"))
    cases = []
    # one document larger than a 64 KiB pool chunk, whole and cut in the middle of a token, with every allocator kind
    parts, size, i = [], 0, 0
    while size < 66000:
        item = rng.choice([b'{"id":%d,"name":"%s","v":[1.5,-2,null,true]}' % (i, b"n" * rng.randrange(0, 90)), b'"%s"' % (b"s" * rng.randrange(0, 300)), b"[[],{},[%d]]" % i])
        parts.append(item)
        size += len(item) + 1
        i += 1
    bigdoc = b"[" + b",".join(parts) + b"]"
    for alloc in ["pool", "track", "gpool"] + ([] if quick else ["simple", "guard"]):
        cut = rng.randrange(len(bigdoc) // 2, len(bigdoc))
        cases.append({"lines": [f"parse-seq {alloc} {G.hx(bigdoc)} {G.hx(bigdoc[:cut])} {G.hx(b'[1]')}"], "cls": "big-doc/" + alloc, "nontrivial": True})
    # pool over a user-supplied buffer of every size 96..700 (every misalignment; the first chunk is filled to the brim for some sizes)
    udocs = [b"[" + b",".join(b"%d" % i for i in range(12)) + b"]", b'{"a":1,"b":[true,null,"x"],"c":{"d":2.5}}', b"[[[[1,2],[3,", b'[1,2,3,nul]']
    for n in (range(96, 701) if not quick else range(96, 701, 1)):
        d = udocs[n % len(udocs)]
        for e in ((n % 8, (n * 3 + 1) % 8) if quick else range(8)):
            cases.append({"lines": [f"parse-seq upool-{n}-{e} {G.hx(d)} {G.hx(udocs[(n // 4) % len(udocs)])}"], "cls": "user-buffer-pool", "nontrivial": True})
    # numbers of 700..1200 digits through every shape of the big-decimal fallback (its 800-digit scratch buffer lives on the stack)
    for n in G.long_numbers(rng):
        for shape in ((b"%s", b"[%s]") if quick else (b"%s", b"[%s]", b'{"k":%s}', b"[1,%s ,2]")):
            cases.append({"lines": [f"parse-seq {rng.choice(['pool', 'simple', 'track'])} {G.hx(shape % n)} {G.hx(b'[1]')}"], "cls": "long-number", "nontrivial": True})
    for t, cls in texts:
        alloc = rng.choice(["pool", "simple", "track", "track", "guard", "gpool"] if len(t) < 400 else ["pool", "simple", "track"])
        cases.append({"lines": [f"parse {alloc} {G.hx(t)}"], "cls": cls + "/" + alloc, "nontrivial": len(t) > 2})
    pool = [t for t, _ in texts if len(t) < 200]
    for _ in range(300 if quick else 30000):
        k = rng.randrange(2, 6)
        alloc = rng.choice(["pool", "simple", "track", "guard", "gpool"])
        seq = [rng.choice(pool) for _ in range(k)]
        cases.append({"lines": [f"parse-seq {alloc} " + " ".join(G.hx(t) for t in seq)], "cls": "reuse/" + alloc, "nontrivial": True})
    # reuse with GROWING inputs: the second text is 1..66 bytes longer than the first (a buffer kept from the earlier parse would be
    # too small by less than the 64-byte padding), ending in blanks / a string / a number / a truncated token
    bases = [d for d in docs if 2 <= len(d) <= 160][: (25 if quick else 1500)] + [b"[" + b"1," * 98 + b"1]"]
    for d in bases:
        for k in ([1, 3, 62, 64, 66] if quick else range(1, 67)):
            grown = [d + b" " * k, b"[" + d + b',"' + b"s" * max(0, k - 5) + b'"]', b"[" + d + b"," + b"7" * max(1, k - 3) + b"]",
                     b"[" + d + b',"' + b"s" * max(0, k - 4)]
            g = rng.choice(grown)
            alloc = rng.choice(["gpool", "gpool", "pool", "guard", "track"])
            seq = [d, g] if rng.random() < 0.7 else [d + b"]", g, d]
            cases.append({"lines": [f"parse-seq {alloc} " + " ".join(G.hx(t) for t in seq)], "cls": "reuse-grow/" + alloc, "nontrivial": True})
    return cases


def judge(case, mo, io, cfg):
    if "CRASH" in io[0]:
        return ("violation", f"memory-safety failure (crash / sanitizer report): {io[0][:260]} for `{case['lines'][0][:160]}`")
    if "CANARY" in io[0]:
        return ("violation", f"Parse wrote outside the user-supplied pool buffer (canary clobbered): `{case['lines'][0][:160]}`")
    if "guardleak" in io[0]:
        return ("violation", f"blocks still allocated after the document was destroyed (guard allocator): `{case['lines'][0][:160]}`")
    body = io[0]
    if " ledger=" in body:
        body, _, led = body.rpartition(" ledger=")
        if led != "ok":
            return ("violation", f"allocator ledger reports {led} for `{case['lines'][0][:200]}`")
    iparts = body.split(" | ")
    mbody = mo[0]
    if " ledger=" in mbody:
        mbody = mbody.rpartition(" ledger=")[0]
    mparts = mbody.split(" | ")
    if len(iparts) != len(mparts):
        return ("drift", f"different number of results: model={mo[0][:100]} impl={io[0][:100]}")
    for ip, mp in zip(iparts, mparts):
        mhead, spec = c01.split(mp)
        mhead = mhead.replace(" ledger=ok", "")
        ok = ip.startswith("ok ")
        if spec.startswith("ok:") != ok:
            return ("violation", f"accept/reject differs from the spec ({spec[:40]}): {ip[:100]} for `{case['lines'][0][:160]}`")
        if ok and ip.split(" tree=", 1)[1] != spec[3:]:
            return ("violation", f"document after (re)parse differs from the value the text denotes: {ip[:160]} vs {spec[:160]}")
        if not ok and "null=1" not in ip:
            return ("violation", f"document not null after a failed parse: {ip}")
        if mhead and mhead != ip:
            return ("drift", f"parser model and implementation differ: model={mhead[:120]} impl={ip[:120]}")
    return None


def search(rng, broken):
    return generate(rng, "thorough")
