"""C18 - Document equality is JSON value equality."""
import os
import sys
sys.path.insert(0, os.path.dirname(os.path.dirname(os.path.abspath(__file__))))
from gen import domgen as D
from lib.core import existing_modules
from props import c12

ID = "C18"
LEVEL = "proof"
LEAN_MODULES = ["Sonic.Props.C18", "Sonic.Props.C12"]
REQUIRED_THEOREMS = ["Sonic.Props.C18." + n for n in ["C18_eq", "C18_eq_ordered", "C18_equiv", "C18_repr_independent", "C18_copy", "C18_reparse",
                                                         "C18_asymmetric_dups", "C18_reparse_model"]]
CONFIGS = [("avx2", "prod"), ("avx2", "san"), ("sse", "prod"), ("dyn", "prod")]
CONFIGS_THOROUGH = CONFIGS + [("sse", "san")]
RULE = ("pairs of documents built through different histories: the same value assembled member by member in two documents with members "
        "permuted, with/without Reserve/MemberReserve, with/without a lookup map, copied (CopyFrom with and without copyString), constant vs "
        "copied strings, pool / freeing / tracking allocators; then one leaf, one key, one kind (1 vs 1.0, -0.0 vs 0.0, 5 vs -5), one length "
        "or one element order changed; transitivity triples; plus the random op-sequence stream of C12 with dom-eq.  distinct = distinct op "
        "sequence; non-trivial = compares two containers")
EXPLANATION = ("Expected results come from an independent value-equality function (arrays in order, objects as key->value maps, strings by "
               "bytes, numbers by kind and bit pattern); == / != / reversed == / reflexivity are read from the compiled code and from the Lean "
               "model of operator== (object: size test + FindMember per member; numbers: 16-byte compare). Theorems (nodeEq = decide eqv, "
               "equivalence laws, representation independence) are listed in the evidence when proved.")
ASSUMPTIONS = ["documents compared have no duplicate keys (the property's hypothesis)"]
TRUSTED = ["Python value-equality mirror as L1 oracle"]
LEVEL_TEXT = ("Machine-checked proof (Lean 4): the literal model of operator== equals the statement's value equality for duplicate-free "
              "documents (C18_eq), which is an equivalence relation (C18_equiv), depends only on the abstract value - not capacity, map, "
              "ownership kind (C18_repr_independent) -, holds for deep copies (C18_copy) and for the re-parsed serialisation (C18_reparse, "
              "conditional on the FtoaFacts hypothesis of C06 for doubles); the duplicate-key hypothesis is shown necessary by a checked "
              "example. The model is tied to the compiled code by the three-way differential of the DOM protocol.")
LEVEL_NOTE = "Trusted: Lean kernel; standard axioms; Python mirror; harness."
TECHNIQUE = "Lean 4 theorem (operator== = JSON value equality) + differential correspondence"


def rand_value(rng, depth=0):
    r = rng.random()
    if depth > 2 or r < 0.45:
        l, v = D.lit(rng)
        while l in ("arr", "obj"):
            l, v = D.lit(rng)
        return v
    if r < 0.7:
        return D.arr([rand_value(rng, depth + 1) for _ in range(rng.randrange(0, 5))])
    keys = rng.sample(D.KEYS, rng.randrange(0, 6))
    return D.obj([[k, rand_value(rng, depth + 1)] for k in keys])


def lit_of(v):
    if v is None:
        return "null"
    if v is True:
        return "true"
    if v is False:
        return "false"
    if isinstance(v, tuple):
        if v[0] == "s":
            return "s" + (v[1].hex() or "-")
        return v[0] + str(v[1])
    return "arr" if v[0] == "arr" else "obj"


def build(rng, emit, d, path, v, permute=False, extras=False):
    """emit ops that build value v at path of doc d"""
    emit(f"dom-set {d} {D.pstr(path)} {lit_of(v)}")
    if D.is_arr(v):
        if extras and rng.random() < 0.5:
            emit(f"dom-reserve {d} {D.pstr(path)} {rng.choice([1, 17, 40])}")
        for i, x in enumerate(v[1]):
            emit(f"dom-push {d} {D.pstr(path)} {lit_of(x)}")
            if isinstance(x, list):
                build(rng, emit, d, path + [("i", i)], x, permute, extras)
    elif D.is_obj(v):
        order = list(range(len(v[1])))
        if permute:
            rng.shuffle(order)
        if extras and rng.random() < 0.5:
            emit(f"dom-mreserve {d} {D.pstr(path)} {rng.choice([1, 17, 40])}")
        if extras and rng.random() < 0.3:
            emit(f"dom-createmap {d} {D.pstr(path)}")
        for pos, idx in enumerate(order):
            k, x = v[1][idx]
            emit(f"dom-add {d} {D.pstr(path)} {k.hex() or '-'} {lit_of(x)} {rng.choice('01')}")
            if isinstance(x, list):
                build(rng, emit, d, path + [("m", pos)], x, permute, extras)
        if extras and rng.random() < 0.4:
            emit(f"dom-createmap {d} {D.pstr(path)}")


def tweak(rng, v):
    """a value that differs from v in exactly one place (returns None if v has no tweakable place)"""
    import copy
    w = copy.deepcopy(v)
    nodes = []

    def walk(x, setter):
        nodes.append((x, setter))
        if D.is_arr(x):
            for i in range(len(x[1])):
                walk(x[1][i], lambda nv, x=x, i=i: x[1].__setitem__(i, nv))
        elif D.is_obj(x):
            for i in range(len(x[1])):
                walk(x[1][i][1], lambda nv, x=x, i=i: x[1][i].__setitem__(1, nv))
    holder = [w]
    walk(w, lambda nv: holder.__setitem__(0, nv))
    x, setter = rng.choice(nodes)
    if isinstance(x, tuple) and x[0] == "u":
        setter(rng.choice([("d", 0x3FF0000000000000 if x[1] == 1 else 0x4014000000000000), ("u", x[1] ^ 1), ("i", -max(1, x[1] % 1000))]))
    elif isinstance(x, tuple) and x[0] == "d":
        setter(("d", x[1] ^ (1 << 63)))
    elif isinstance(x, tuple) and x[0] == "i":
        setter(("i", x[1] + 1 if x[1] < -1 else -7))
    elif isinstance(x, tuple) and x[0] == "s":
        setter(("s", x[1] + b"!") if rng.random() < 0.5 else ("s", x[1][:-1] if x[1] else b"q"))
    elif x is None or x is True or x is False:
        setter({None: False, True: None, False: True}[x])
    elif D.is_arr(x):
        if len(x[1]) >= 2 and rng.random() < 0.5 and not D.jeq(x[1][0], x[1][1]):
            x[1][0], x[1][1] = x[1][1], x[1][0]
        else:
            x[1].append(None)
    else:
        if x[1] and rng.random() < 0.5:
            x[1][0][0] = x[1][0][0] + b"~"
        else:
            x[1].append([b"extra-key", None])
    return holder[0]


def generate(rng, tier):
    quick = tier == "quick"
    cases = []
    for k in range(250 if quick else 25000):
        alloc = ["pool", "simple", "track"][k % 3]
        lines, exp = ["dom-reset " + alloc], [{"ok": True}]

        def emit(l, e=None):
            lines.append(l)
            exp.append(e or {"ok": True})
        v = rand_value(rng)
        w = tweak(rng, v)
        build(rng, emit, 0, [], v)
        build(rng, emit, 1, [], v, permute=True, extras=True)
        build(rng, emit, 2, [], w, permute=True, extras=True)
        q = lambda a, b: {"eq": "1" if D.jeq(a, b) else "0", "ne": "0" if D.jeq(a, b) else "1", "eqr": "1" if D.jeq(a, b) else "0", "refl": "1"}
        emit("dom-eq 0 / 1 /", q(v, v))
        emit("dom-eq 0 / 2 /", q(v, w))
        emit("dom-eq 2 / 1 /", q(w, v))
        emit(f"dom-copy 3 / 0 / {rng.choice('01')}")
        emit("dom-eq 3 / 0 /", q(v, v))
        emit("dom-eq 3 / 1 /", q(v, v))     # transitivity instance: 3==0, 0==1 => 3==1
        emit("dom-eq 3 / 2 /", q(v, w))
        if isinstance(v, list) and v[1]:
            # sub-node comparisons across documents
            emit(f"dom-eq 0 /{'i' if v[0] == 'arr' else 'm'}0 3 /{'i' if v[0] == 'arr' else 'm'}0", q(v[1][0] if v[0] == "arr" else v[1][0][1], v[1][0] if v[0] == "arr" else v[1][0][1]))
        lines.append("dom-dumpwb 0 / 256 0")
        exp.append({"_dump": True, "finite": True, "tree": D.show(v), "dups": False})
        lines.append("dom-end")
        exp.append({"ok": True, "ledger": "ok"})
        cases.append({"lines": lines, "exp": exp, "cls": f"pairs/{alloc}", "nontrivial": isinstance(v, list)})
    # wide objects with record-like keys (short and long mixed) and a lookup map on one or both sides: reflexive, symmetric, independent of
    # the map, of member order, of the allocator; a deep copy and the unequal neighbour
    for k in range(40 if quick else 3000):
        alloc = ["pool", "simple", "track"][k % 3]
        lines, exp = ["dom-reset " + alloc], [{"ok": True}]

        def emit(l, e=None):
            lines.append(l)
            exp.append(e or {"ok": True})
        keys = D.wide_keys(rng)
        v = D.obj([[kk, ("u", i)] for i, kk in enumerate(keys)])
        w = tweak(rng, v)
        build(rng, emit, 0, [], v)
        build(rng, emit, 1, [], v, permute=True, extras=True)
        build(rng, emit, 2, [], w, permute=True, extras=True)
        for d in rng.sample([0, 1, 2], rng.choice([1, 2, 3])):
            emit(f"dom-createmap {d} /")
        q = lambda a, b: {"eq": "1" if D.jeq(a, b) else "0", "ne": "0" if D.jeq(a, b) else "1", "eqr": "1" if D.jeq(a, b) else "0", "refl": "1"}
        emit("dom-eq 0 / 0 /", q(v, v))
        emit("dom-eq 1 / 1 /", q(v, v))
        emit("dom-eq 0 / 1 /", q(v, v))
        emit("dom-eq 1 / 0 /", q(v, v))
        emit("dom-eq 0 / 2 /", q(v, w))
        emit("dom-eq 2 / 1 /", q(w, v))
        emit(f"dom-copy 3 / 1 / {rng.choice('01')}")
        emit("dom-eq 3 / 1 /", q(v, v))
        emit("dom-eq 3 / 0 /", q(v, v))
        emit("dom-eq 3 / 2 /", q(v, w))
        lines.append("dom-end")
        exp.append({"ok": True, "ledger": "ok"})
        cases.append({"lines": lines, "exp": exp, "cls": f"wide/{alloc}", "nontrivial": True})
    # plus the generic op-sequence stream (dom-eq on random nodes)
    cases += c12.generate(rng, tier)[: (100 if quick else 8000)]
    return cases


def judge(case, mo, io, cfg):
    return c12.judge_lines(case, mo, io, cfg)


def search(rng, broken):
    return generate(rng, "thorough")
