"""C19 - ParseSchema updates exactly the members the existing document declares."""
import os
import re
import sys
sys.path.insert(0, os.path.dirname(os.path.dirname(os.path.abspath(__file__))))
from gen import mergegen as MG
from gen import jsongen as G
from lib import tree as T
from lib.core import existing_modules

ID = "C19"
LEVEL = "other"
LEAN_MODULES = ['Sonic.Props.C19']
REQUIRED_THEOREMS = ["Sonic.Props.C19." + n for n in ["C19_model_eq_spec_partial", "C19_counterexample", "C19_keys_kept", "C19_undeclared_ignored",
                                                         "C19_omitted_unchanged", "C19_provided_replaced", "C19_replaced_whole", "C19_idempotent", "C19_repeat",
                                                         "C19_handler_refines", "C19_handler_refines_text", "C19_text_eq_spec_partial"]]
CONFIGS = [("avx2", "prod"), ("sse", "prod"), ("avx2", "san"), ("sse", "san"), ("dyn", "prod")]
CONFIGS_THOROUGH = CONFIGS + [("dyn", "san")]
RULE = ("pairs (existing document, valid text) without duplicate keys: the text is derived from the existing value (declared keys kept / "
        "omitted / re-kinded, undeclared keys inserted before, between and after, members reordered, escaped spellings of declared keys) or "
        "independent, covering every combination of kinds at the root and at matched keys, nesting to depth 5, empty containers, arrays of "
        "objects whose keys coincide with the existing object's keys; 1..3 texts applied in sequence; pool, freeing and tracking "
        "allocators.  distinct = distinct command line; non-trivial = both sides are non-empty objects")
EXPLANATION = ("Oracle: Spec.Merge.schema (Lean, written from the statement) chained over the texts; the implementation's document after each "
               "ParseSchema must equal it - except the known finding F12 (a non-empty existing object meeting {} in the text keeps its "
               "members), recognised by signature: the difference disappears when the model's F12-faithful `apply` is used instead. The literal "
               "SAX-handler model must agree exactly (L2). Sanitizers / the tracking ledger cover the memory clause. Theorems listed in the evidence.")
ASSUMPTIONS = ["documents and texts have no duplicate keys (the property's hypothesis)"]
TRUSTED = ["Spec.Merge.schema as oracle (compiled Lean evaluation)"]
LEVEL_TEXT = ("Machine-checked (Lean 4): the literal SAX handler machine computes the functional reading `apply` for EVERY existing document and "
              "every valid text (C19_handler_refines_text), and `apply` equals the statement's merge on duplicate-free inputs except where an empty "
              "text object meets a non-empty existing object (C19_model_eq_spec_partial; the exception is the known finding F12, pinned by "
              "C19_counterexample); the clauses of the statement are proved on the spec. Level 'other' because the full statement is false on "
              "the unchanged tree (F12).")
LEVEL_NOTE = "Trusted: Lean kernel; standard axioms; compiled Lean evaluation; harness; sanitizers."
TECHNIQUE = "Lean 4 spec + refinement theorems; differential correspondence against the statement-derived merge"


def generate(rng, tier):
    quick = tier == "quick"
    cases = []
    for k in range(1500 if quick else 150000):
        e = MG.gen(rng, maxdepth=rng.choice([2, 3, 5]))
        if rng.random() < 0.6 and not (isinstance(e, tuple) and e[0] == "o"):
            e = ("o", [(b"a", e), (b"k", MG.gen(rng, 1))])
        n = rng.choice([1, 1, 1, 2, 3])
        texts, cur = [], e
        for _ in range(n):
            t = MG.derive(rng, cur) if rng.random() < 0.8 else MG.gen(rng)
            texts.append(t)
        alloc = ["pool", "simple", "track"][k % 3]
        line = f"schema {alloc} {G.hx(MG.doc(rng, e))} " + " ".join(G.hx(MG.doc(rng, t)) for t in texts)
        cases.append({"lines": [line], "cls": f"x{n}/{alloc}", "ntexts": n, "empty_obj": any(MG.has_empty_obj(t) for t in texts),
                      "nontrivial": isinstance(e, tuple) and e[0] == "o" and bool(e[1])})
    # existing documents whose object members were emptied through the mutation API first (value `{}`, capacity / map retained):
    # "the existing side is not a non-empty object" - the text's value must be taken whole
    for k in range(150 if quick else 10000):
        e, t = MG.schema_pair(rng)
        alloc = ["pool", "simple", "track"][k % 3]
        cases.append({"lines": [f"schema-prep{rng.choice([1, 2, 3])} {alloc} {G.hx(e)} {G.hx(t)}"], "cls": f"prep/{alloc}", "ntexts": 1, "empty_obj": re.search(rb"\{\s*\}", t) is not None,
                      "nontrivial": True})
    # repeated application on ONE document object across pairs (Parse, ParseSchema, Parse, ParseSchema, destroy) and after a document swap
    for k in range(120 if quick else 8000):
        e, t = MG.schema_pair(rng)
        alloc = ["simple", "track", "pool"][k % 3]
        cases.append({"lines": [f"{rng.choice(['schema-reparse', 'schema-swap'])} {alloc} {G.hx(e)} {G.hx(t)}"], "cls": f"reuse/{alloc}", "ntexts": 1,
                      "empty_obj": re.search(rb"\{\s*\}", t) is not None, "nontrivial": True})
    return cases


def _parts(line):
    body = line
    led = None
    if " ledger=" in body:
        body, _, led = body.rpartition(" ledger=")
    return [dict(p.split("=", 1) for p in seg.split() if "=" in p) for seg in body.split(" | ")], led


def judge(case, mo, io, cfg):
    if "CRASH" in io[0]:
        return ("violation", f"ParseSchema crashed / sanitizer report: {io[0][:220]} for `{case['lines'][0][:200]}`")
    if io[0] in ("bad-input", "bad-op"):
        return None
    if " copy=" in io[0]:
        body = io[0].rpartition(" ledger=")[0] if " ledger=" in io[0] else io[0]
        head, _, cp = body.rpartition(" copy=")
        if cp != head.rpartition(" tree=")[2]:
            return ("violation", f"document changed after swap / reuse of the document object: now {cp[:160]} for `{case['lines'][0][:200]}`")
    ip, iled = _parts(io[0])
    mp, _ = _parts(mo[0])
    if len(ip) != len(mp):
        return ("drift", f"result count differs: model={mo[0][:100]} impl={io[0][:100]}")
    for n, (a, m) in enumerate(zip(ip, mp)):
        if a.get("err") != "0":
            return ("violation", f"ParseSchema of a valid text failed with {a.get('err')} (text #{n}) for `{case['lines'][0][:200]}`")
        if a.get("tree") != m.get("spec"):
            kind = "violation"
            return (kind, f"document after ParseSchema #{n} differs from the statement's merge: impl={a.get('tree', '')[:160]} spec={m.get('spec', '')[:160]} model={m.get('tree', '')[:80]}")
    if iled not in (None, "ok") and case.get("ntexts", 1) == 1:
        return ("violation", f"allocator ledger reports {iled} after a single ParseSchema for `{case['lines'][0][:200]}`")
    for n, (a, m) in enumerate(zip(ip, mp)):
        if a.get("tree") != m.get("tree") or a.get("err") != m.get("err"):
            return ("drift", f"SAX-handler model and implementation differ at text #{n}: model={m.get('tree', '')[:140]} impl={a.get('tree', '')[:140]}")
    return None


def known_signature(v):
    # F12: the implementation agrees with the F12-faithful model (`tree=` of the model line) and the text contains an empty object
    if "differs from the statement's merge" not in v["desc"] or not v["case"].get("empty_obj"):
        return None
    ip, _ = _parts(v["impl"][0])
    mp, _ = _parts(v["model"][0])
    if len(ip) == len(mp) and all(a.get("tree") == m.get("tree") and a.get("err") == m.get("err") for a, m in zip(ip, mp)):
        return "F12"
    return None


def search(rng, broken):
    return generate(rng, "thorough")
