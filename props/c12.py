"""C12 - The mutation API behaves like plain ordered containers."""
import os
import sys
sys.path.insert(0, os.path.dirname(os.path.dirname(os.path.abspath(__file__))))
from gen import domgen as D
from lib.core import existing_modules

ID = "C12"
LEVEL = "proof"
LEAN_MODULES = ["Sonic.Props.C12", "Sonic.Props.C14"]
REQUIRED_THEOREMS = ["Sonic.Props.C12." + n for n in ["C12_refine", "C12_refine_node", "C12_inv_all", "C12_all", "C12_all_prefixes",
                                                         "C12_map_invisible", "C12_map_invisible_run", "C12_dup_keys_note"]]
CONFIGS = [("avx2", "prod"), ("avx2", "san"), ("sse", "prod"), ("dyn", "prod")]
CONFIGS_THOROUGH = CONFIGS + [("sse", "san"), ("dyn", "san")]
ALLOCS = ["pool", "simple", "track"]
RULE = ("operation sequences of 10..60 steps over four documents drawn from the repo's own API vocabulary (set scalar/string/array/object, "
        "AddMember with copied/uncopied keys, RemoveMember, EraseMember incl. the full range, MemberReserve, PushBack, PopBack, Erase, "
        "Reserve, Clear, node move-assignment incl. child-into-parent, CopyFrom incl. into a descendant, Swap, document move/swap), with "
        "CreateMap/DestroyMap interleaved at any point, lookups (FindMember both overloads, HasMember, operator[], AtPointer with missing "
        "keys / out-of-range / negative indices / wrong kinds, Size, Empty, Back) and equality after every few steps; pool, freeing and "
        "tracking allocators; a separate stream with duplicate keys (no maps).  distinct = distinct op sequence; non-trivial = >= 10 ops")
EXPLANATION = ("Three-way comparison after EVERY operation: the compiled DNode API (read back through the accessor API), the Lean model "
               "(len/cap/map bookkeeping; proved to refine Spec.Containers as listed in the evidence) and an independent Python mirror of the "
               "simple model of the statement. A difference between implementation and mirror is a violation; a difference only between "
               "implementation and Lean model (capacity, map flag) is reported as correspondence drift.")
ASSUMPTIONS = ["std::multimap behaves as an ordered multiset with stable insertion order among equal keys"]
TRUSTED = ["the Python mirror of the simple container model (gen/domgen.py) as L1 oracle"]
LEVEL_TEXT = ("Machine-checked refinement proof (Lean 4): for every finite op sequence satisfying the API preconditions the model (len/cap/map "
              "bookkeeping of DNode) keeps its invariant and is abstractly equal to the simple container spec with identical outputs (C12_all), "
              "and the lookup map is invisible for objects with distinct keys (C12_map_invisible); the model is tied to the compiled code by a "
              "three-way differential (implementation = model = independent Python mirror) after every operation.")
LEVEL_NOTE = "Trusted: Lean kernel; standard axioms; Python mirror; harness."
TECHNIQUE = "Lean 4 refinement proof (model -> simple containers) + three-way differential correspondence on op sequences"


def generate(rng, tier, allocs=ALLOCS, nonfinite=False, nops=None, parses=False):
    quick = tier == "quick"
    cases = []
    for k in range(450 if quick else 40000):
        alloc = allocs[k % len(allocs)]
        dups = (k % 7 == 3)
        n = nops or rng.choice([10, 20, 40, 60, 120])
        M, lines, exp = D.gen_case(rng, alloc, n, dups=dups, allow_nonfinite=nonfinite, maps=not dups, focus=rng.choice([0.0, 0.0, 0.6, 0.9]), parses=parses and (k % 2 == 0))
        lines, exp = D.finish(M, lines, exp, rng)
        cases.append({"lines": lines, "exp": exp, "cls": f"{alloc}/{'dups' if dups else 'distinct'}/{n}", "nontrivial": len(lines) >= 10})
    # wide objects (many members, record-like keys, families of long keys differing in one byte): every key through every lookup overload
    # without a map, with a map, after DestroyMap and with a new map (appended behind the op-sequence stream: callers slice the front)
    for k in range(40 if quick else 3000):
        lines, exp = D.wide_lookup(rng, allocs[k % len(allocs)])
        cases.append({"lines": lines, "exp": exp, "cls": "wide-lookup", "nontrivial": True})
    return cases


def _kv(line):
    d = {}
    for p in line.split():
        if "=" in p:
            k, v = p.split("=", 1)
            d[k] = v
        else:
            d[p] = True
    return d


def judge_lines(case, mo, io, cfg, want_dump=True):
    exp = case["exp"]
    for n, (ln, e, m, i) in enumerate(zip(case["lines"], exp, mo, io)):
        where = f"step {n} `{ln[:100]}`"
        if "CRASH" in i:
            return ("violation", f"crash / sanitizer report at {where}: {i[:200]}")
        if i == "bad-op" or m == "bad-op":
            if i != m:
                return ("drift", f"precondition handling differs at {where}: model={m} impl={i}")
            return ("drift", f"generator emitted an operation outside the preconditions at {where}")
        iv, mv = _kv(i), _kv(m)
        if e.get("_dump"):
            if e["finite"]:
                if iv.get("err") != "0":
                    return ("violation", f"serialisation failed ({iv.get('err')}) at {where}")
                if iv.get("again") != "1" or iv.get("str") != "1" or (iv.get("rt") != "1" and not e["dups"]):
                    return ("violation", f"dump does not round-trip at {where}: {i[-40:]}")
            else:
                if iv.get("err") != "12" or iv.get("dump") != "-":
                    return ("violation", f"non-finite document: expected err=12 and empty dump at {where}: {i[:80]}")
            for k in ("err", "dump", "size", "cap"):
                if iv.get(k) != mv.get(k):
                    return ("drift", f"model and implementation differ in {k} at {where}: model={mv.get(k, '')[:60]} impl={iv.get(k, '')[:60]}")
            continue
        if e.get("_err") and not i.startswith("err="):
            return ("violation", f"invalid text accepted by Parse at {where}: {i[:100]}")
        if not e.get("_skip"):
            for k, want in e.items():
                if k.startswith("_") or want is True:
                    continue
                if k == "ledger":
                    if " ledger=" in i and iv.get("ledger") != "ok":
                        return ("violation", f"allocator ledger reports {iv.get('ledger')} at the end of the history ({case['lines'][0]})")
                    continue
                if iv.get(k) != want:
                    return ("violation", f"{k} differs from the simple container model at {where}: impl={str(iv.get(k))[:120]} expected={want[:120]}")
        if ln.startswith("dom-parse") and m.startswith("err=") and i.startswith("err="):
            # the DOM model does not predict the parse error code (the parser model of C01 does): compare the document only
            m, i = m.split(" ", 1)[-1], i.split(" ", 1)[-1]
        if m != i:
            return ("drift", f"model and implementation differ at {where}: model={m[:140]} impl={i[:140]}")
    return None


def judge(case, mo, io, cfg):
    return judge_lines(case, mo, io, cfg)


def shrink(case):
    # drop one operation at a time (keeping reset/end); expectations are recomputed by replaying through a fresh mirror is
    # not possible for arbitrary drops, so shrinking only truncates the tail
    lines, exp = case["lines"], case["exp"]
    for cut in range(len(lines) - 2, 1, -1):
        yield {"lines": lines[:cut] + ["dom-end"], "exp": exp[:cut] + [{"ok": True, "ledger": "ok"}], "cls": case.get("cls")}


def search(rng, broken):
    return generate(rng, "thorough")
