"""C15 - All supported x86 build configurations compute identical results."""
import os
import re
import sys
sys.path.insert(0, os.path.dirname(os.path.dirname(os.path.abspath(__file__))))
from lib.core import existing_modules
from props import c01, c03, c05, c06, c09, c10, c11, c04, c07, c08, c19, c20

ID = "C15"
LEVEL = "proof"
LEAN_MODULES = ["Sonic.Props.C15"] + existing_modules(["Sonic.Props.C10", "Sonic.Props.C11", "Sonic.Props.C01"])
REQUIRED_THEOREMS = ["Sonic.Props.C15." + n for n in ["C15_string_width_independent", "C15_quote_width_independent", "C15_memcmp_avx2_eq_sse",
                                                     "C15_memcmp_prod_eq_san", "C15_parse_width_independent", "C15_serialize_config_independent",
                                                     "C15_ondemand_width_independent", "C15_lazy_width_independent"]]
CONFIGS = [("avx2", "prod"), ("sse", "prod"), ("dyn", "prod"), ("avx2", "san"), ("sse", "san"), ("dyn", "san")]
SRC = {"c01": c01, "c03": c03, "c04": c04, "c05": c05, "c06": c06, "c07": c07, "c08": c08, "c09": c09, "c10": c10, "c11": c11, "c20": c20}
RULE = ("the corpus lines of C01 (accept/reject: valid, prefixes, mutations), C03 (trees), C05 (string literals), C06 (serialisation), C09 "
        "(quoting), C10/C11 (on-demand), C04 (number conversion), C07/C08 (number printing), C20 (UpdateLazy) are run unchanged through all six binaries {static AVX2, static SSE4.2, runtime dispatch} x "
        "{production, sanitizer}; every binary must match the Lean model instantiated at its vector width (L1+L2), and the six outputs "
        "must agree with each other except for the code/offset of an error inside a malformed string literal.  distinct = distinct "
        "command line; non-trivial = as in the source corpus")
EXPLANATION = ("The builds differ in the vector width of the scanners, in the key-comparison kernels and in the sanitizer-only tail variants; "
               "each is a parameter of the Lean models and the theorems C15_* (corollaries of C05_width_independent, C09_quote, C14_sse_agree, "
               "C14_san_agree; for the parser and the on-demand scanner C01_width_irrelevant / C10_agree as listed) state independence of that "
               "parameter. The run compares the six compiled binaries with each other on a shared corpus.")
ASSUMPTIONS = ["a CPU with SSE4.2 and AVX2 (the target(\"default\") dispatch stubs are never selected)"]
TRUSTED = ["the dispatch wrappers in x86_ifuncs/*.h are pure forwards (exercised by the dyn binaries)"]
LEVEL_TEXT = ("Machine-checked proof (Lean 4): every component with configuration-dependent code is modelled with the configuration as a "
              "parameter (vector width 16 = SSE kernels / 32 = AVX2 kernels, sanitizer tail, write limit; runtime dispatch selects one of the two "
              "kernels) and proved equal to a configuration-free spec, hence pairwise identical: the full parser incl. error code/offset except "
              "inside a malformed string literal - the exception the property allows - (C15_parse_width_independent), string decoding "
              "(C15_string_width_independent), quoting (C15_quote_width_independent), key comparison (C15_memcmp_*), serialisation bytes "
              "(C15_serialize_config_independent), on-demand lookup (C15_ondemand_width_independent), UpdateLazy (C15_lazy_width_independent); "
              "number conversion and number printing have no configuration-dependent code except the SSE splitter of itoa (C08). The six "
              "compiled configurations are tied to the models and to each other by the cross-configuration differential on the shared corpus.")
LEVEL_NOTE = "Trusted: Lean kernel; standard axioms; harness."
TECHNIQUE = "Lean 4 proofs that every component model is independent of its configuration parameter + cross-configuration differential"


def generate(rng, tier):
    cases = []
    per = 700 if tier == "quick" else 60000
    for name, mod in SRC.items():
        cs = mod.generate(rng, tier)
        rng.shuffle(cs)
        for c in cs[:per]:
            c = dict(c)
            c["src"] = name
            c["cls"] = name + "/" + str(c.get("cls"))
            cases.append(c)
    return cases


def judge(case, mo, io, cfg):
    return SRC[case["src"]].judge(case, mo, io, cfg)


STRERR = re.compile(r"err=([456])\b.*")


_HEX4 = re.compile(rb"[0-9a-fA-F]{4}")


def first_malformed_literal(text):
    """offset of the opening quote of the first string literal that is malformed (control byte, bad escape, bad \\u, unpaired surrogate,
    unterminated), scanning quotes from the start of the text; None if every literal is well-formed"""
    i, n = 0, len(text)
    while i < n:
        if text[i] != 0x22:
            i += 1
            continue
        start = i
        i += 1
        pending_high = False
        while True:
            if i >= n:
                return start                      # unterminated
            c = text[i]
            if c == 0x22:
                if pending_high:
                    return start
                i += 1
                break
            if c < 0x20:
                return start
            if c != 0x5C:
                if pending_high:
                    return start
                i += 1
                continue
            if i + 1 >= n:
                return start
            e = text[i + 1]
            if e == 0x75:
                h = text[i + 2:i + 6]
                if len(h) < 4 or not _HEX4.fullmatch(h):
                    return start
                cp = int(h, 16)
                if 0xDC00 <= cp <= 0xDFFF:
                    if not pending_high:
                        return start
                    pending_high = False
                else:
                    if pending_high:
                        return start
                    pending_high = 0xD800 <= cp <= 0xDBFF
                i += 6
            elif e in b'"\\/bfnrt':
                if pending_high:
                    return start
                i += 2
            else:
                return start
    return None


_ERROFF = re.compile(r"^err=(\d+) off=(\d+)\b")


def digest(case, line):
    cmd = case["lines"][0].split()[0]
    if "CRASH" in line:
        return "CRASH"
    if cmd in ("parse", "ondemand", "pod"):
        # the property's own exemption: inside a malformed string literal the reported code and offset may differ between the
        # configurations (faults are detected per vector block) - the decision to reject may not
        m = _ERROFF.match(line)
        if m and m.group(1) != "0":
            toks = case["lines"][0].split()
            try:
                text = bytes.fromhex(toks[2]) if len(toks) > 2 and toks[2] != "-" else b""
            except ValueError:
                text = None
            if text is not None:
                fm = first_malformed_literal(text)
                if fm is not None and int(m.group(2)) >= fm:
                    return "err=in-malformed-string"
        return STRERR.sub("err=string", line)
    if cmd == "parsestr":
        if line.startswith("ok "):
            d = dict(p.split("=", 1) for p in line.split()[1:])
            n = int(d["n"])
            return f"ok n={n} next={d['next']} dec={d['buf'][:2 * n]}"
        return "err=string"
    if cmd == "quote":
        return line.split()[0]
    return line


def cross_config(results):
    out = []
    cfgs = list(results)
    if len(cfgs) < 2:
        return out
    n = len(results[cfgs[0]])
    for k in range(n):
        case = results[cfgs[0]][k][0]
        if any(results[cfg][k][2][0] == "ABANDONED" for cfg in cfgs):
            continue
        ds = {cfg: digest(case, results[cfg][k][2][0]) for cfg in cfgs}
        ref = ds[cfgs[0]]
        for cfg in cfgs[1:]:
            if ds[cfg] != ref:
                out.append({"kind": "violation", "desc": f"build configurations disagree: {cfgs[0][:2]} -> {ref[:140]} but {cfg[:2]} -> {ds[cfg][:140]} for `{case['lines'][0][:160]}`",
                            "case": case, "cfg": list(cfg), "model": results[cfg][k][1], "impl": results[cfg][k][2]})
                break
    return out


def search(rng, broken):
    return generate(rng, "thorough")
