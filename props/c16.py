"""C16 - The pool allocator hands out aligned, disjoint, stable blocks."""
import os
import re
import sys
sys.path.insert(0, os.path.dirname(os.path.dirname(os.path.abspath(__file__))))
from gen import poolgen as PG
from lib.core import existing_modules

ID = "C16"
LEVEL = "proof"
LEAN_MODULES = ['Sonic.Props.C16']
REQUIRED_THEOREMS = ["Sonic.Props.C16." + n for n in ["C16_inv", "C16_inv_explicit", "C16_accounting", "C16_zero", "C16_zero_pool", "C16_realloc_prefix",
                                                         "C16_realloc_runs", "C16_contents_stable", "C16_shared_lifetime", "C16_mem_ok", "C16_pattern"]]
LOCKED = ("-DSONIC_LOCKED_ALLOCATOR",)
# the third configuration is the locked-allocator build: the same sequential histories must behave identically there, and a few
# multi-threaded runs on one shared pool check that "copies behave as one shared pool" survives concurrent use (see C17 for the races)
CONFIGS = [("avx2", "prod"), ("avx2", "san"), ("avx2", "prod", LOCKED)]
CONFIGS_THOROUGH = CONFIGS + [("sse", "prod"), ("avx2", "tsan", LOCKED)]
RULE = ("sequences of 10..60 Malloc / Realloc / Clear / copy / move / copy-assign / move-assign / destroy operations over up to 8 handles "
        "(several pools per case), sizes from {0,1,7,8,9, cap-8, cap, cap+1, 2*cap, random up to 70000}, chunk capacities 1/8/64/100/1024/65536, "
        "simple and adaptive chunk policies, default and user-buffer construction (aligned and misaligned, minimal size); every block is "
        "filled with a block-specific pattern when handed out and all live blocks are verified after every operation.  distinct = distinct "
        "op sequence; non-trivial = >= 10 ops")
EXPLANATION = ("Three-way comparison after every operation: the compiled MemoryPoolAllocator (pointers as chunk serial + offset via a logging base "
               "allocator, Size(), Capacity(), base frees, pattern check of every live block), the Lean model (invariant proved over every op "
               "sequence, theorems in the evidence) and an independent Python mirror; the judge also re-checks from the implementation's own "
               "output that every block is 8-aligned and disjoint from all blocks handed out since the pool's last Clear.")
ASSUMPTIONS = ["the base allocator returns fresh, pairwise disjoint regions (malloc)"]
TRUSTED = ["Python mirror of the allocator + judge-side disjointness/alignment checker"]
LEVEL_TEXT = ("Machine-checked proof (Lean 4): for every finite op sequence from the initial state the pool invariant holds (8-aligned blocks inside "
              "their chunk, pairwise disjoint since the last Clear, distinct chunk regions, refcount = live handles; C16_inv_explicit), Size/Capacity "
              "accounting, zero sizes -> null, realloc prefix preserved and in-place iff last allocation with room, contents of surviving blocks "
              "never disturbed, shared lifetime; the model is tied to the compiled allocator by an exact three-way differential of every pointer, "
              "counter and base free (implementation = model = independent Python mirror).")
LEVEL_NOTE = "Trusted: Lean kernel; standard axioms; malloc disjointness; harness; Python mirror."
TECHNIQUE = "Lean 4 invariant proof over op sequences + three-way differential correspondence"


def generate(rng, tier):
    quick = tier == "quick"
    cases = []
    for _ in range(800 if quick else 80000):
        lines, exp = PG.gen_case(rng, rng.choice([10, 20, 40, 60]))
        cases.append({"lines": lines, "exp": exp, "cls": lines[1].split()[2] + "/" + lines[1].split()[0], "nontrivial": len(lines) >= 10})
    for _ in range(6 if quick else 200):
        cases.append({"lines": [f"thr-pool {rng.choice([4, 8])} {rng.choice([1000, 3000])} {rng.randrange(1, 10 ** 6)}"], "exp": [{}], "cls": "locked-pool-threads", "nontrivial": True})
        cases.append({"lines": [f"thr-poolcopy {rng.choice([4, 8])} {rng.choice([1000, 3000])} {rng.randrange(1, 10 ** 6)}"], "exp": [{}], "cls": "locked-pool-threads", "nontrivial": True})
    return cases


PTR = re.compile(r"^c(\d+)\+(\d+)$")


def judge(case, mo, io, cfg):
    if case["lines"][0].startswith("thr-"):
        from props import c17
        return c17.judge(case, mo, io, cfg)
    live = {}   # blk# -> (chunk, off, alignedsize)
    for n, (ln, e, m, i) in enumerate(zip(case["lines"], case["exp"], mo, io)):
        where = f"step {n} `{ln}`"
        if "CRASH" in i:
            return ("violation", f"crash / sanitizer report at {where}: {i[:200]}")
        if " mem=" in i:
            body, _, mem = i.rpartition(" mem=")
            if mem != "ok":
                return ("violation", f"contents of a live block were disturbed ({mem}) at {where}")
        else:
            body = i
        if "copy=bad" in body:
            return ("violation", f"realloc did not preserve the old contents at {where}")
        if body != e:
            return ("violation", f"allocator result differs from the reference behaviour at {where}: impl=`{body}` expected=`{e}`")
        tok = body.split()[0] if body else ""
        mp = PTR.match(tok)
        if mp and (ln.startswith("pool-malloc") or ln.startswith("pool-realloc")):
            off = int(mp.group(2))
            if off % 8:
                return ("violation", f"block not 8-byte aligned at {where}: {tok}")
        if m != i:
            return ("drift", f"model and implementation differ at {where}: model=`{m}` impl=`{i}`")
    return None


def shrink(case):
    return []


def search(rng, broken):
    return generate(rng, "thorough")
