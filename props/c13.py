"""C13 - Every allocation is released exactly once and copies are independent."""
import os
import sys
sys.path.insert(0, os.path.dirname(os.path.dirname(os.path.abspath(__file__))))
from gen import jsongen as G
from lib.core import existing_modules
from props import c12, c02

ID = "C13"
LEVEL = "other"
LEAN_MODULES = ["Sonic.Props.C13", "Sonic.Props.C12"]
REQUIRED_THEOREMS = ["Sonic.Props.C13." + n for n in ["C13_ledger", "C13_step", "C13_balanced", "C13_copy_independent", "C13_erase", "C13_complete",
                                                         "C13_foreign_ref_note", "C13_docbuf_inv", "C13_docbuf_no_leak", "C13_docbuf_schema_keeps"]]
CONFIGS = [("avx2", "san"), ("avx2", "prod"), ("sse", "san")]
CONFIGS_THOROUGH = CONFIGS + [("dyn", "san"), ("sse", "prod")]
ENV = {"MALLOC_PERTURB_": "243"}
RULE = ("histories over four documents with the tracking allocator (every block recorded: serial, size, liveness; freed blocks poisoned and "
        "quarantined): the C12 op vocabulary incl. CopyFrom across documents, node/document move and swap, maps created/destroyed, Clear, "
        "Parse of valid and invalid text into used documents, ParseSchema (single and repeated), destruction of everything at the end; the "
        "same histories under ASan/LSan with SimpleAllocator.  distinct = distinct history; non-trivial = >= 10 ops")
EXPLANATION = ("The ledger of the tracking allocator reports foreign frees, double frees, writes after free (poison check) and blocks still live "
               "after every owner was destroyed; independence of copies is checked by the C12 mirror (mutating or destroying one side never "
               "changes the other). Theorems about the ownership ledger model are listed in the evidence when proved. Finding F13 (a repeated ParseSchema never freed the previous schema "
               "buffer) was repaired (4babc12): the buffers are chained and released with the document.")
ASSUMPTIONS = ["std::multimap node allocations go through MapAllocator (seen by the ledger)"]
TRUSTED = ["harness TrackingAllocator ledger, ASan/LSan"]
LEVEL_TEXT = ("Machine-checked (Lean 4) ownership-ledger model on top of the DOM model (every owning payload carries a block id; C13_erase: it "
              "erases to the C12 model): for every op sequence no foreign/double free, reachable blocks = live blocks and pairwise distinct, "
              "parse-buffer views point to their own document's live buffer (C13_ledger), nothing live after dom-end (C13_balanced), deep copies "
              "own only fresh blocks (C13_copy_independent). Partial by nature (the real heap is outside the model) and ParseSchema is outside the "
              "ledger model: level 'other'; validated by the tracking-allocator ledger / LeakSanitizer on random histories.")
LEVEL_NOTE = "Trusted: Lean kernel; harness ledger; sanitizers."
TECHNIQUE = "Lean 4 ownership-ledger invariant + tracking-allocator differential runs"


def generate(rng, tier):
    quick = tier == "quick"
    cases = c12.generate(rng, tier, allocs=["track", "track", "simple"], nonfinite=True, parses=True)[: (300 if quick else 30000)]
    docs = [G.gen_doc(rng, maxdepth=4) for _ in range(200 if quick else 10000)]
    bad = []
    for d in docs[:80 if quick else 3000]:
        if 2 < len(d) < 150:
            bad.append(d[: rng.randrange(1, len(d))])
            bad += G.mutations(rng, d, limit=2)
    # a COMPLETE value followed by garbage: the parse fails after the root was finished (its storage is owned by the parser's stack slot 0)
    for d in docs[:60 if quick else 3000]:
        if len(d) < 400:
            bad.append(d + rng.choice([b" x", b"]", b"}", b" 1", b",", d, b'"', b"\x00"]))
    for _ in range(300 if quick else 20000):
        seq = [rng.choice(docs if rng.random() < 0.6 else bad) for _ in range(rng.randrange(2, 6))]
        cases.append({"lines": ["parse-seq track " + " ".join(G.hx(t) for t in seq)], "cls": "parse-seq", "kind": "parse", "nontrivial": True})
    objs = [d for d in docs if d.strip().startswith(b"{")]
    for _ in range(200 if quick else 15000):
        e = rng.choice(docs)
        n = rng.choice([1, 1, 1, 2, 3])
        texts = [rng.choice(objs if rng.random() < 0.7 and objs else docs) for _ in range(n)]
        # track: ledger (leaks, double frees); simple: the real heap under ASan (a read of a released schema buffer through a string node)
        alloc = "track" if rng.random() < 0.6 else "simple"
        cases.append({"lines": [f"schema {alloc} " + G.hx(e) + " " + " ".join(G.hx(t) for t in texts)], "cls": f"schema/x{n}/{alloc}", "kind": "schema", "ntexts": n,
                      "nontrivial": True})
    # ParseSchema followed by a deep copy whose source is destroyed: strings updated in place, strings in rebuilt sub-trees, keys
    from gen import mergegen as MG
    for _ in range(250 if quick else 20000):
        e, t = MG.schema_pair(rng) if hasattr(MG, "schema_pair") else (rng.choice(objs or docs), rng.choice(objs or docs))
        cases.append({"lines": [f"schema-copy {rng.choice(['track', 'track', 'simple'])} " + G.hx(e) + " " + G.hx(t)], "cls": "schema-copy", "kind": "schema",
                      "ntexts": 1, "nontrivial": True})
    # ParseSchema, then document swap with the donor destroyed / the same document object parsed and updated again
    for _ in range(150 if quick else 10000):
        e, t = MG.schema_pair(rng)
        cases.append({"lines": [f"{rng.choice(['schema-swap', 'schema-reparse'])} {rng.choice(['track', 'simple', 'simple'])} " + G.hx(e) + " " + G.hx(t)],
                      "cls": "schema-swap/reparse", "kind": "schema", "ntexts": 1, "nontrivial": True})
    for e, t in [(b'{"tags":[1],"meta":{},"s":"v"}', b'{"tags":["alpha","beta","gamma"],"meta":{"k":"vvvvvvvvvvvvvvvv"},"s":"w"}'),
                 (b'{"a":{"b":"x"}}', b'{"a":{"b":"a longer string value here"}}')]:
        for cmd in ("schema-swap", "schema-reparse"):
            for alloc in ("track", "simple", "pool"):
                cases.append({"lines": [f"{cmd} {alloc} " + G.hx(e) + " " + G.hx(t)], "cls": "schema-swap/reparse", "kind": "schema", "ntexts": 1, "nontrivial": True})
    # ParseSchema over objects that were emptied through the API and still own a children block / capacity / lookup map
    for _ in range(150 if quick else 10000):
        e, t = MG.schema_pair(rng)
        cases.append({"lines": [f"schema-prep{rng.choice([1, 2, 3])} {rng.choice(['track', 'track', 'simple'])} " + G.hx(e) + " " + G.hx(t)], "cls": "schema-prep",
                      "kind": "schema", "ntexts": 1, "nontrivial": True})
    for e, t in [(b'{"o":{"a":1,"b":2},"p":{"x":{"y":1}},"s":"v"}', b'{"o":{"a":5,"c":6},"p":{"x":7},"s":"w"}'), (b'{"o":{"a":1}}', b'{"o":{}}'),
                 (b'{"o":{"a":1,"b":2,"c":3,"d":4,"e":5,"f":6,"g":7,"h":8,"i":9}}', b'{"o":{"z":[1,2,3]}}')]:
        for prep in (1, 2, 3):
            for alloc in ("track", "simple", "pool"):
                cases.append({"lines": [f"schema-prep{prep} {alloc} " + G.hx(e) + " " + G.hx(t)], "cls": "schema-prep", "kind": "schema", "ntexts": 1, "nontrivial": True})
    for e, t in [(b'{"name":"old","info":{"city":"x","n":1}}', b'{"name":"a much longer new name","info":{"city":"new city","n":2}}'),
                 (b'{"s":"v"}', b'{"s":"w"}'), (b'"root"', b'"other root string"'), (b'{"a":{"b":{"c":"deep"}}}', b'{"a":{"b":{"c":"deeper \\n escaped"}}}'),
                 (b'{"k":[1,2]}', b'{"k":["now","strings"]}'), (b'{"k":null}', b'{"k":{"new":"object","with":["strings"]}}')]:
        for alloc in ("track", "simple", "pool"):
            cases.append({"lines": [f"schema-copy {alloc} " + G.hx(e) + " " + G.hx(t)], "cls": "schema-copy", "kind": "schema", "ntexts": 1, "nontrivial": True})
    # the documents' own text buffers (str_, the chain of schema_str_ buffers) through every history of Parse / ParseSchema / Swap / move
    # assignment / destruction over two documents, with values that own no node storage: the ledger's live-block count after EVERY
    # operation is compared with the model Sonic.Model.DocBuf (theorems C13_docbuf_*), and at the end nothing may be live
    texts = [b"1", b"true", b"null", b"-2.5e3", b'"s"', b'"a longer string with \\n an escape and \\u00e9"', b'""', b" 7 ", b"x", b'"ab', b"tru", b"1.", b"",
             b"1 2", b'"a" x', b'"' + b"y" * 100 + b'"']
    for _ in range(400 if quick else 40000):
        ops = []
        for _ in range(rng.choice([3, 6, 10, 25])):
            r = rng.random()
            if r < 0.3:
                ops.append("p" + rng.choice("ab") + ":" + (rng.choice(texts).hex()))
            elif r < 0.7:
                # (a string value written by ParseSchema is an owned copy, i.e. node storage: not in these histories)
                ops.append("s" + rng.choice("ab") + ":" + (rng.choice([t for t in texts if b'"' not in t]).hex()))
            else:
                ops.append(rng.choice(["w", "w", "mab", "mba", "da", "db"]))
        cases.append({"lines": ["docbuf " + " ".join(ops)], "cls": "docbuf", "kind": "docbuf", "nontrivial": len(ops) >= 6})
    return cases


def judge(case, mo, io, cfg):
    if case.get("kind") == "docbuf":
        if "CRASH" in io[0]:
            return ("violation", f"crash / sanitizer report in a document-buffer history: {io[0][:220]} for `{case['lines'][0][:200]}`")
        if io[0] == "bad-op" or mo[0] == "bad-op":
            return None if io[0] == mo[0] else ("drift", f"model={mo[0][:80]} impl={io[0][:80]}")
        f = dict(p.split("=", 1) for p in io[0].split() if "=" in p)
        if f.get("faults") != "0" or f.get("final") != "0":
            return ("violation", f"text buffers not released exactly once: faults={f.get('faults')} still live after both documents were destroyed={f.get('final')} "
                                 f"{f.get('problems', '')} for `{case['lines'][0][:200]}`")
        if io[0] != mo[0]:
            return ("drift", f"live text buffers differ from the model: model={mo[0][:120]} impl={io[0][:120]} for `{case['lines'][0][:160]}`")
        return None
    if case.get("kind") == "parse":
        return c02.judge(case, mo, io, cfg)
    if case.get("kind") == "schema":
        if "CRASH" in io[0]:
            return ("violation", f"crash / sanitizer report in ParseSchema: {io[0][:220]} for `{case['lines'][0][:160]}`")
        body = io[0]
        led = "ok"
        if " ledger=" in body:
            body, _, led = body.rpartition(" ledger=")
        if " copy=" in body:
            body, _, cp = body.rpartition(" copy=")
            last = body.rpartition(" tree=")[2]
            if cp != last:
                return ("violation", f"deep copy of a ParseSchema-updated document changed when its source was destroyed: copy={cp[:160]} source was={last[:160]} "
                                     f"for `{case['lines'][0][:200]}`")
        if led != "ok":
            return ("violation", f"allocator ledger reports {led} after ParseSchema x{case['ntexts']} for `{case['lines'][0][:200]}`")
        return None
    return c12.judge_lines(case, mo, io, cfg)


def known_signature(v):
    c = v["case"]
    if c.get("kind") == "schema" and c.get("ntexts", 1) >= 2 and "leak:" in v["desc"] and "double-free" not in v["desc"] and "foreign" not in v["desc"] and "write-after" not in v["desc"]:
        # every leaked block must be a schema buffer of an EARLIER call: len_i + 64 bytes
        import re
        m = re.search(r"leak:(\d+)blk/(\d+)B", v["desc"])
        if m:
            toks = c["lines"][0].split()
            lens = [0 if t == "-" else len(t) // 2 for t in toks[3:]]
            nblk, nbytes = int(m.group(1)), int(m.group(2))
            if nblk == len(lens) - 1 and nbytes == sum(l + 64 for l in lens[:-1]):
                return "F13"
    return None


def search(rng, broken):
    return generate(rng, "thorough")
