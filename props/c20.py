"""C20 - UpdateLazy is a faithful recursive object merge."""
import os
import subprocess
import sys
sys.path.insert(0, os.path.dirname(os.path.dirname(os.path.abspath(__file__))))
from gen import mergegen as MG
from gen import jsongen as G
from lib.core import existing_modules

ID = "C20"
LEVEL = "proof"
LEAN_MODULES = ['Sonic.Props.C20']
REQUIRED_THEOREMS = ["Sonic.Props.C20." + n for n in ["C20_spec_props", "C20_tree_merge", "C20_parseLazy", "C20_serialize", "C20_model_eq_spec",
                                                         "C20_key_spelling", "C20_no_member_lost"]]
CONFIGS = [("avx2", "prod"), ("sse", "prod"), ("avx2", "san"), ("sse", "san"), ("dyn", "prod")]
CONFIGS_THOROUGH = CONFIGS + [("dyn", "san")]
ENV = {"MALLOC_PERTURB_": "243"}
RULE = ("pairs of valid duplicate-free JSON texts: all 7x7 kind combinations at the root and nested, objects of 0..40 members, source derived "
        "from the target (shared / new / omitted keys, re-kinded values), keys with every escape kind and \\u spellings of ASCII letters so "
        "that equal decoded keys are spelled differently on the two sides, whitespace variants incl. runs > 64 bytes, nesting to depth 6."
        "  distinct = distinct command line; non-trivial = both roots are objects")
EXPLANATION = ("Oracle: Spec.Merge.update (Lean, from the statement) on the values of the two texts; the string returned by UpdateLazy must "
               "parse (Spec.Json) to it. The literal model (one-level lazy parse with raw slices via the on-demand skipper, decoded keys, "
               "UpdateNodeLazy, serialisation of raw nodes) must produce the identical bytes (L2). Theorems listed in the evidence.")
ASSUMPTIONS = ["inputs are valid JSON without duplicate keys (the property's hypothesis)"]
TRUSTED = ["Spec.Merge.update / Spec.Json.parse as oracle (compiled Lean evaluation)"]
LEVEL_TEXT = ("Machine-checked proof (Lean 4, C20_model_eq_spec): for every pair of valid JSON texts, vector width and key-buffer content the "
              "literal model of UpdateLazy (one-level lazy parse with raw slices via the on-demand skipper, decoded keys, UpdateNodeLazy, "
              "serialisation of raw nodes) returns a text that the RFC 8259 spec parses to Spec.Merge.update of the two values; keys match by "
              "decoded value, no member is lost. The model is tied to the compiled code by byte-exact correspondence of the output.")
LEVEL_NOTE = "Trusted: Lean kernel; standard axioms; compiled Lean evaluation; harness; sanitizers."
TECHNIQUE = "Lean 4 spec + model theorems; differential correspondence against the statement-derived merge"

_DRIVER = os.path.join(os.path.dirname(os.path.dirname(os.path.abspath(__file__))), "lean/.lake/build/bin/sonic_model")
KINDS = [b"null", b"true", b"1", b'"s"', b"[1,2]", b"{}", b'{"a":1,"b":{"c":2}}']


def generate(rng, tier):
    quick = tier == "quick"
    cases = []

    def add(t, s, cls):
        cases.append({"lines": [f"lazy {G.hx(t)} {G.hx(s)}"], "cls": cls, "nontrivial": t.strip().startswith(b"{") and s.strip().startswith(b"{")})
    for a in KINDS:
        for b in KINDS:
            add(a, b, "kinds-root")
            add(b'{"k":' + a + b',"z":0}', b'{"k":' + b + b"}", "kinds-nested")
    for n in ([0, 1, 2, 15, 16, 17, 40] if quick else range(0, 41)):
        t = b"{" + b",".join(b'"k%d":%d' % (i, i) for i in range(n)) + b"}"
        s = b"{" + b",".join(b'"k%d":"new"' % i for i in range(0, n + 3, 2)) + b"}"
        add(t, s, "sizes")
    for _ in range(1500 if quick else 150000):
        tv = MG.gen(rng, maxdepth=rng.choice([2, 4, 6]))
        if rng.random() < 0.7 and not (isinstance(tv, tuple) and tv[0] == "o"):
            tv = ("o", [(b"a", tv), (b"b", MG.gen(rng, 1))])
        sv = MG.derive(rng, tv) if rng.random() < 0.8 else MG.gen(rng)
        add(MG.doc(rng, tv), MG.doc(rng, sv), "derived")
    return cases


def judge(case, mo, io, cfg):
    if "CRASH" in io[0]:
        return ("violation", f"UpdateLazy crashed / sanitizer report: {io[0][:220]} for `{case['lines'][0][:200]}`")
    m = dict(p.split("=", 1) for p in mo[0].split() if "=" in p)
    i = dict(p.split("=", 1) for p in io[0].split() if "=" in p)
    spec = m.get("spec")
    if spec and spec != "invalid-input":
        if i.get("out") == m.get("out"):
            rep = m.get("reparse")
        else:
            # judge the implementation's own bytes with the spec parser (driver as oracle)
            o = subprocess.run([_DRIVER], input=f"parse pool {i.get('out', '-')}\n", capture_output=True, text=True).stdout.strip()
            rep = o.rpartition("spec=")[2]
        if rep != "ok:" + spec:
            return ("violation", f"UpdateLazy result does not denote the merge of the two values: result parses to {rep[:160]}, expected {spec[:160]} for `{case['lines'][0][:200]}`")
    if i.get("out") != m.get("out"):
        return ("drift", f"model and implementation produce different bytes: model={m.get('out', '')[:120]} impl={i.get('out', '')[:120]}")
    return None


def search(rng, broken):
    return generate(rng, "thorough")
