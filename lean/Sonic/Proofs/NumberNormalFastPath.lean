import Sonic.Proofs.NumberConvert

/-!
# Helper for C04: a result with path `normalfast` comes from the `ParseFloatingNormalFast` branch of `convert`
-/
namespace Sonic.Proofs.Number

open Sonic.Spec (JNum)
open Sonic.Model.Number

/-- a result with path `normalfast` comes from the `ParseFloatingNormalFast` branch of `convert`, whose guards hold -/
theorem convert_normalfast (f : FloatIn) (native : List Nat) (v : JNum) (n : Nat)
    (h : convert f native = .ok v n .normalfast) :
    f.man ≠ 0 ∧ f.trunc = false ∧ f.exp10 > -308 + 1 ∧ f.exp10 < 308 - 20 ∧
    ∃ raw, Sonic.Model.NormalFast.parseFloatingNormalFast f.exp10 f.man f.neg = some raw ∧ v = .real raw ∧
      n = f.next := by
  -- the `ParseFloatingNormalFast` call of `convert`, with its guard
  have key : ∀ raw,
      (if (!f.trunc) = true ∧ f.exp10 > -308 + 1 ∧ f.exp10 < 308 - 20 then
        Sonic.Model.NormalFast.parseFloatingNormalFast f.exp10 f.man f.neg else none) = some raw →
      f.trunc = false ∧ f.exp10 > -308 + 1 ∧ f.exp10 < 308 - 20 ∧
        Sonic.Model.NormalFast.parseFloatingNormalFast f.exp10 f.man f.neg = some raw := by
    intro raw hr
    by_cases hg : (!f.trunc) = true ∧ f.exp10 > -308 + 1 ∧ f.exp10 < 308 - 20
    · rw [if_pos hg] at hr
      refine ⟨?_, hg.2.1, hg.2.2, hr⟩
      cases ht : f.trunc with
      | false => rfl
      | true => rw [ht] at hg; exact absurd hg.1 (by decide)
    · rw [if_neg hg] at hr; cases hr
  have notEl : ∀ r : PResult, r = parseFloatEiselLemire64 f native → r ≠ .ok v n .normalfast := by
    intro r hr heq
    rw [hr] at heq
    rcases pfel_cases f native with ⟨v', p, hp, h''⟩ | h'' | h'' | ⟨b, h''⟩
    · rw [h''] at heq
      simp only [PResult.ok.injEq] at heq
      rcases hp with hp | hp <;> rw [hp] at heq <;> exact absurd heq.2.2 (by decide)
    · rw [h''] at heq; cases heq
    · rw [h''] at heq; cases heq
    · rw [h''] at heq; cases heq
  unfold convert at h
  by_cases h0 : f.man = 0
  · rw [if_pos h0] at h; cases h
  · rw [if_neg h0] at h
    dsimp only at h
    by_cases hc : f.man / 2 ^ 52 = 0 ∧ f.exp10 ≤ 22 + 15 ∧ f.exp10 ≥ -22
    · rw [if_pos hc] at h
      cases hp : parseFloatingFast f.exp10 f.man with
      | some d => rw [hp] at h; cases h
      | none =>
        rw [hp] at h
        dsimp only at h
        cases hnf : (if (!f.trunc) = true ∧ f.exp10 > -308 + 1 ∧ f.exp10 < 308 - 20 then
            Sonic.Model.NormalFast.parseFloatingNormalFast f.exp10 f.man f.neg else none) with
        | some raw =>
          rw [hnf] at h
          simp only [PResult.ok.injEq] at h
          obtain ⟨k1, k2, k3, k4⟩ := key raw hnf
          exact ⟨h0, k1, k2, k3, raw, k4, h.1.symm, h.2.1.symm⟩
        | none =>
          rw [hnf] at h
          exact absurd h (notEl _ rfl)
    · rw [if_neg hc] at h
      dsimp only at h
      cases hnf : (if (!f.trunc) = true ∧ f.exp10 > -308 + 1 ∧ f.exp10 < 308 - 20 then
          Sonic.Model.NormalFast.parseFloatingNormalFast f.exp10 f.man f.neg else none) with
      | some raw =>
        rw [hnf] at h
        simp only [PResult.ok.injEq] at h
        obtain ⟨k1, k2, k3, k4⟩ := key raw hnf
        exact ⟨h0, k1, k2, k3, raw, k4, h.1.symm, h.2.1.symm⟩
      | none =>
        rw [hnf] at h
        exact absurd h (notEl _ rfl)

end Sonic.Proofs.Number
