import Sonic.Spec.Json
import Sonic.Spec.Quote
import Sonic.Model.Lazy
import Sonic.Proofs.MergeLazy
import Sonic.Proofs.MergeLazyText
import Sonic.Proofs.MergeShift
import Sonic.Proofs.SerializeQuoteDecode

/-!
# C20: the serialisation of a lazy tree is read back by the spec reader as the value the tree denotes
-/
namespace Sonic.Proofs.MergeSerialize
open Sonic.Spec Sonic.Spec.Merge Sonic.Spec.Json Sonic.Model.Lazy Sonic.Model.OnDemand
open Sonic.Proofs.OnDemand Sonic.Proofs.MergeLazy Sonic.Proofs.MergeLazyText Sonic.Proofs.MergeShift
open Sonic.Proofs.Serialize

/-- list-length side goals -/
macro "len_tac" : tactic =>
  `(tactic| (first | omega | (simp only [List.length_append, List.length_cons, List.length_singleton, List.length_nil] at * <;> omega)))

/-! ## indexing into `pre ++ (a ++ b)` -/

theorem get_mid (pre a b : List Nat) (j : Nat) (hj : j < a.length) : (pre ++ (a ++ b))[pre.length + j]? = a[j]? := by
  rw [getElem?_pre, List.getElem?_append_left hj]

theorem get_post (pre a b : List Nat) (j : Nat) : (pre ++ (a ++ b))[pre.length + (a.length + j)]? = b[j]? := by
  rw [getElem?_pre, List.getElem?_append_right (Nat.le_add_right _ _), Nat.add_sub_cancel_left]

theorem skipWs_stay {d : List Nat} {a c : Nat} (h : d[a]? = some c) (hc : isSpace c = false) :
    skipWs d d.length a = a :=
  skipWs_unique ⟨Nat.le_refl _, Sonic.Proofs.StringDec.lt_of_get h, fun j h1 h2 => by omega,
    fun c' hc' => by rw [h] at hc'; cases hc'; exact hc⟩

/-! ## the first byte of a serialisation -/

theorem shape_start {d : List Nat} {f p : Nat} {v : JVal} {e c : Nat} (sh : ValShape d f p v e c) :
    c ≠ 0x5D ∧ c ≠ 0x7D := by
  cases sh with
  | num c' hc n h hv => rcases hc with rfl | hc
                        · exact ⟨by decide, by decide⟩
                        · omega
  | _ => exact ⟨by decide, by decide⟩

theorem serialize_head : ∀ (n : LNode) (v : JVal), den n = some v →
    ∃ c t, serialize n = c :: t ∧ isSpace c = false ∧ c ≠ 0x5D ∧ c ≠ 0x7D
  | .raw bs, v, h => by
    rw [den] at h
    obtain ⟨c, rest, rfl, hw, hp, _⟩ := rawDen_inv h
    obtain ⟨e0, hv, _⟩ := parse_inv hp
    have h0 : skipWs (c :: rest) (c :: rest).length 0 = 0 :=
      skipWs_stay (c := c) (by simp) (by rw [← isWs_eq]; exact hw)
    rw [h0] at hv
    obtain ⟨c', hc', sh⟩ := parseValue_inv hv
    simp only [List.getElem?_cons_zero, Option.some.injEq] at hc'
    subst hc'
    exact ⟨c, rest, by rw [serialize], by rw [← isWs_eq]; exact hw, shape_start sh⟩
  | .arr xs, v, _ => ⟨0x5B, serElems xs ++ [0x5D], by rw [serialize]; rfl, rfl, by decide, by decide⟩
  | .obj kvs, v, _ => ⟨0x7B, serMembers kvs ++ [0x7D], by rw [serialize]; rfl, rfl, by decide, by decide⟩

theorem serialize_arr (xs : List LNode) : serialize (.arr xs) = 0x5B :: (serElems xs ++ [0x5D]) := by
  rw [serialize]; rfl
theorem serialize_obj (kvs : LMembers) : serialize (.obj kvs) = 0x7B :: (serMembers kvs ++ [0x7D]) := by
  rw [serialize]; rfl

theorem quote_cons (k : List Nat) : quote k = 0x22 :: (k.flatMap escapeByte ++ [0x22]) := rfl

theorem quote_length_ge (k : List Nat) : 2 ≤ (quote k).length := by
  rw [quote_cons]; simp

/-- a raw slice embedded in a text, followed by something that does not continue a number -/
theorem raw_value (bs : List Nat) (v : JVal) (h : rawDen bs = some v) (pre post : List Nat) (hpost : NonNum post)
    (f : Nat) (hf : 2 * bs.length ≤ f) :
    ∃ e, parseValue (pre ++ (bs ++ post)) f pre.length = .ok (v, e) ∧ pre.length < e ∧
      e ≤ pre.length + bs.length ∧ WsRange (pre ++ (bs ++ post)) e (pre.length + bs.length) := by
  obtain ⟨c, rest, rfl, hw, hp, _⟩ := rawDen_inv h
  obtain ⟨e0, hv, hend⟩ := parse_inv hp
  have h0 : skipWs (c :: rest) (c :: rest).length 0 = 0 :=
    skipWs_stay (c := c) (by simp) (by rw [← isWs_eq]; exact hw)
  rw [h0] at hv
  obtain ⟨b1, b2, _⟩ := (value_neut (c :: rest) _).1 _ _ _ hv
  have hws : WsRange (c :: rest) e0 (c :: rest).length := by
    have := skipWs_range (c :: rest) (c :: rest).length e0
    rwa [hend] at this
  have hA : Agree (c :: rest) 0 (pre ++ ((c :: rest) ++ post)) pre.length (e0 - 0) := by
    intro j hj
    rw [Nat.zero_add, get_mid _ _ _ _ (by omega)]
  have hN1 : NumEnd (c :: rest) e0 := by
    intro c' hc'
    exact isNumChar_of_space (hws e0 (Nat.le_refl _) (Sonic.Proofs.StringDec.lt_of_get hc') c' hc')
  have hN2 : NumEnd (pre ++ ((c :: rest) ++ post)) (pre.length + (e0 - 0)) := by
    intro c' hc'
    rw [Nat.sub_zero] at hc'
    by_cases hlt : e0 < (c :: rest).length
    · rw [get_mid _ _ _ _ hlt] at hc'
      exact hN1 c' hc'
    · have he : e0 = (c :: rest).length + 0 := by omega
      rw [he, get_post] at hc'
      rcases hpost with rfl | ⟨c0, t, rfl, hc0⟩
      · simp at hc'
      · simp at hc'; subst hc'; exact hc0
  have := parseValue_shift hv hA hN1 hN2 f (by omega)
  refine ⟨pre.length + e0, by simpa using this, by omega, by omega, ?_⟩
  intro j hj1 hj2 c' hc'
  have : (pre ++ ((c :: rest) ++ post))[pre.length + (j - pre.length)]? = (c :: rest)[j - pre.length]? :=
    get_mid _ _ _ _ (by omega)
  rw [show pre.length + (j - pre.length) = j by omega] at this
  rw [this] at hc'
  exact hws _ (by omega) (by omega) c' hc'

/-- what follows a member's value inside `serMembers` -/
def mtail : LMembers → List Nat
  | [] => []
  | m :: ms => 0x2C :: serMembers (m :: ms)

theorem serMembers_cons (k : List Nat) (x : LNode) (rest : LMembers) :
    serMembers ((k, x) :: rest) = quote k ++ 0x3A :: (serialize x ++ mtail rest) := by
  cases rest with
  | nil => simp [serMembers, mtail]
  | cons m ms => obtain ⟨k', x'⟩ := m; simp [serMembers, mtail]

def etail : List LNode → List Nat
  | [] => []
  | y :: ys => 0x2C :: serElems (y :: ys)

theorem serElems_cons (x : LNode) (rest : List LNode) : serElems (x :: rest) = serialize x ++ etail rest := by
  cases rest with
  | nil => simp [serElems, etail]
  | cons y ys => simp [serElems, etail]

theorem get_at (pre l : List Nat) (n : Nat) (hn : n = pre.length) : (pre ++ l)[n]? = l[0]? := by
  subst hn; exact getElem?_pre0 pre l

theorem nonNum_cons {c : Nat} (t : List Nat) (h : isNumChar c = false) : NonNum (c :: t) := Or.inr ⟨c, t, rfl, h⟩

/-- the position just after an embedded value whose trailing bytes are whitespace is found by `skipWs` -/
theorem skipWs_to {d : List Nat} {e q c : Nat} (hws : WsRange d e q) (heq : e ≤ q) (hq : d[q]? = some c)
    (hc : isSpace c = false) : skipWs d d.length e = q :=
  skipWs_unique ⟨heq, Sonic.Proofs.StringDec.lt_of_get hq, hws, fun c' hc' => by rw [hq] at hc'; cases hc'; exact hc⟩

theorem denList_nil_inv {m : List JVal} (h : denList [] = some m) : m = [] := by
  simpa [denList] using h.symm

theorem denList_cons {x : LNode} {rest : List LNode} {m : List JVal} (h : denList (x :: rest) = some m) :
    ∃ v m', den x = some v ∧ denList rest = some m' ∧ m = v :: m' := by
  rw [denList] at h
  cases hx : den x with
  | none => simp [hx] at h
  | some v =>
    cases hr : denList rest with
    | none => simp [hx, hr] at h
    | some m' => simp only [hx, hr, Option.some.injEq] at h; exact ⟨v, m', rfl, rfl, h.symm⟩

theorem den_arr {xs : List LNode} {v : JVal} (h : den (.arr xs) = some v) :
    ∃ m, denList xs = some m ∧ v = .arr m := by
  rw [den] at h
  cases hm : denList xs with
  | none => simp [hm] at h
  | some m => simp only [hm, Option.some.injEq] at h; exact ⟨m, rfl, h.symm⟩

theorem mtail_head (rest : LMembers) (post : List Nat) :
    ∃ c t, mtail rest ++ 0x7D :: post = c :: t ∧ isSpace c = false ∧ isNumChar c = false ∧
      (rest = [] → c = 0x7D) ∧ (rest ≠ [] → c = 0x2C) := by
  cases rest with
  | nil => exact ⟨0x7D, post, rfl, rfl, rfl, fun _ => rfl, fun h => absurd rfl h⟩
  | cons m ms => exact ⟨0x2C, _, rfl, rfl, rfl, fun h => (by cases h), fun _ => rfl⟩

theorem etail_head (rest : List LNode) (post : List Nat) :
    ∃ c t, etail rest ++ 0x5D :: post = c :: t ∧ isSpace c = false ∧ isNumChar c = false ∧
      (rest = [] → c = 0x5D) ∧ (rest ≠ [] → c = 0x2C) := by
  cases rest with
  | nil => exact ⟨0x5D, post, rfl, rfl, rfl, fun _ => rfl, fun h => absurd rfl h⟩
  | cons m ms => exact ⟨0x2C, _, rfl, rfl, rfl, fun h => (by cases h), fun _ => rfl⟩

mutual
theorem ser_value : ∀ (n : LNode) (v : JVal), den n = some v → ∀ (pre post : List Nat), NonNum post →
    ∀ f, 2 * (serialize n).length ≤ f →
    ∃ e, parseValue (pre ++ (serialize n ++ post)) f pre.length = .ok (v, e) ∧ pre.length < e ∧
      e ≤ pre.length + (serialize n).length ∧
      WsRange (pre ++ (serialize n ++ post)) e (pre.length + (serialize n).length)
  | .raw bs, v, h, pre, post, hp, f, hf => by
    rw [den] at h
    simp only [serialize] at hf ⊢
    exact raw_value bs v h pre post hp f hf
  | .arr xs, v, h, pre, post, hp, f, hf => by
    obtain ⟨m, hm, rfl⟩ := den_arr h
    rw [serialize_arr] at hf ⊢
    obtain ⟨g, rfl⟩ : ∃ g, f = g + 1 := ⟨f - 1, by simp at hf; omega⟩
    have hb0 : (pre ++ (0x5B :: (serElems xs ++ [0x5D]) ++ post))[pre.length]? = some 0x5B := by
      rw [getElem?_pre0]; rfl
    cases xs with
    | nil =>
      rw [denList_nil_inv hm]
      have hb1 : (pre ++ (0x5B :: (serElems [] ++ [0x5D]) ++ post))[pre.length + 1]? = some 0x5D := by
        rw [getElem?_pre]; rfl
      have hs := skipWs_stay hb1 rfl
      refine ⟨pre.length + 1 + 1, parseValue_of_shape hb0 (.arrEmpty (by rw [hs]; exact hb1) rfl (by rw [hs])),
        by omega, by simp [serElems], fun j h1 h2 => by simp [serElems] at h2; omega⟩
    | cons x rest =>
      have hbuf : pre ++ (0x5B :: (serElems (x :: rest) ++ [0x5D]) ++ post) =
          (pre ++ [0x5B]) ++ (serElems (x :: rest) ++ 0x5D :: post) := by simp
      obtain ⟨vx, _, hvx, _, _⟩ := denList_cons hm
      obtain ⟨c, t, hc1, hc2, hc3, hc4⟩ := serialize_head x vx hvx
      have hb1 : (pre ++ (0x5B :: (serElems (x :: rest) ++ [0x5D]) ++ post))[pre.length + 1]? = some c := by
        rw [hbuf, get_at _ _ _ (by len_tac), serElems_cons, hc1]; rfl
      have hs := skipWs_stay hb1 hc2
      have hel := ser_elems (x :: rest) m hm (by simp) (pre ++ [0x5B]) post g (by simp at hf ⊢; omega)
      rw [← hbuf] at hel
      refine ⟨_, parseValue_of_shape hb0 (.arr m (by
          rw [hs, hb1]; intro hh; cases hh; exact hc3 rfl) (by rw [hs]; simpa using hel) rfl), ?_, ?_, ?_⟩
      · len_tac
      · len_tac
      · intro j h1 h2; len_tac
  | .obj kvs, v, h, pre, post, hp, f, hf => by
    obtain ⟨m, hm, rfl⟩ := den_obj h
    rw [serialize_obj] at hf ⊢
    obtain ⟨g, rfl⟩ : ∃ g, f = g + 1 := ⟨f - 1, by simp at hf; omega⟩
    have hb0 : (pre ++ (0x7B :: (serMembers kvs ++ [0x7D]) ++ post))[pre.length]? = some 0x7B := by
      rw [getElem?_pre0]; rfl
    cases kvs with
    | nil =>
      rw [denMembers_nil_inv hm]
      have hb1 : (pre ++ (0x7B :: (serMembers [] ++ [0x7D]) ++ post))[pre.length + 1]? = some 0x7D := by
        rw [getElem?_pre]; rfl
      have hs := skipWs_stay hb1 rfl
      refine ⟨pre.length + 1 + 1, parseValue_of_shape hb0 (.objEmpty (by rw [hs]; exact hb1) rfl (by rw [hs])),
        by omega, by simp [serMembers], fun j h1 h2 => by simp [serMembers] at h2; omega⟩
    | cons kx rest =>
      obtain ⟨k, x⟩ := kx
      have hbuf : pre ++ (0x7B :: (serMembers ((k, x) :: rest) ++ [0x7D]) ++ post) =
          (pre ++ [0x7B]) ++ (serMembers ((k, x) :: rest) ++ 0x7D :: post) := by simp
      have hb1 : (pre ++ (0x7B :: (serMembers ((k, x) :: rest) ++ [0x7D]) ++ post))[pre.length + 1]? = some 0x22 := by
        rw [hbuf, get_at _ _ _ (by len_tac), serMembers_cons, quote_cons]; rfl
      have hs := skipWs_stay hb1 rfl
      have hel := ser_members ((k, x) :: rest) m hm (by simp) (pre ++ [0x7B]) post g (by simp at hf ⊢; omega)
      rw [← hbuf] at hel
      refine ⟨_, parseValue_of_shape hb0 (.obj m (by rw [hs, hb1]; simp) (by rw [hs]; simpa using hel) rfl),
        ?_, ?_, ?_⟩
      · len_tac
      · len_tac
      · intro j h1 h2; len_tac
theorem ser_members : ∀ (kvs : LMembers) (m : Members), denMembers kvs = some m → kvs ≠ [] →
    ∀ (pre post : List Nat) (f : Nat), 2 * (serMembers kvs).length + 1 ≤ f →
    parseMembers (pre ++ (serMembers kvs ++ 0x7D :: post)) f pre.length =
      .ok (m, pre.length + (serMembers kvs).length + 1)
  | [], _, _, hne, _, _, _, _ => absurd rfl hne
  | (k, x) :: rest, m, hm, _, pre, post, f, hf => by
    obtain ⟨v, m', hv, hm', rfl⟩ := denMembers_cons hm
    rw [serMembers_cons] at hf ⊢
    obtain ⟨g, rfl⟩ : ∃ g, f = g + 1 := ⟨f - 1, by omega⟩
    have hql := quote_length_ge k
    -- the buffer, re-associated at every position that is read
    have e1 : pre ++ ((quote k ++ 0x3A :: (serialize x ++ mtail rest)) ++ 0x7D :: post) =
        pre ++ (quote k ++ (0x3A :: (serialize x ++ (mtail rest ++ 0x7D :: post)))) := by simp
    have e2 : pre ++ ((quote k ++ 0x3A :: (serialize x ++ mtail rest)) ++ 0x7D :: post) =
        (pre ++ quote k) ++ (0x3A :: (serialize x ++ (mtail rest ++ 0x7D :: post))) := by simp
    have e3 : pre ++ ((quote k ++ 0x3A :: (serialize x ++ mtail rest)) ++ 0x7D :: post) =
        (pre ++ quote k ++ [0x3A]) ++ (serialize x ++ (mtail rest ++ 0x7D :: post)) := by simp
    have e4 : pre ++ ((quote k ++ 0x3A :: (serialize x ++ mtail rest)) ++ 0x7D :: post) =
        (pre ++ quote k ++ [0x3A] ++ serialize x) ++ (mtail rest ++ 0x7D :: post) := by simp
    have h0 : (pre ++ ((quote k ++ 0x3A :: (serialize x ++ mtail rest)) ++ 0x7D :: post))[pre.length]? = some 0x22 := by
      rw [e1, getElem?_pre0, quote_cons]; rfl
    have hk : decodeLit (pre ++ ((quote k ++ 0x3A :: (serialize x ++ mtail rest)) ++ 0x7D :: post)) (pre.length + 1) =
        some (k, pre.length + (quote k).length) := by
      rw [e1]; exact decodeLit_quote k pre _
    have hcol : (pre ++ ((quote k ++ 0x3A :: (serialize x ++ mtail rest)) ++ 0x7D :: post))[pre.length + (quote k).length]?
        = some 0x3A := by
      rw [e2, get_at _ _ _ (by len_tac)]; rfl
    have hsA := skipWs_stay hcol rfl
    obtain ⟨c, t, hc1, hc2, hc3, hc4⟩ := serialize_head x v hv
    have hvs : (pre ++ ((quote k ++ 0x3A :: (serialize x ++ mtail rest)) ++ 0x7D :: post))[pre.length + (quote k).length + 1]?
        = some c := by
      rw [e3, get_at _ _ _ (by len_tac), hc1]; rfl
    have hsB := skipWs_stay hvs hc2
    obtain ⟨cq, tq, hq1, hq2, hq3, hq4, hq5⟩ := mtail_head rest post
    obtain ⟨e, hpv, he1, he2, hews⟩ := ser_value x v hv (pre ++ quote k ++ [0x3A]) (mtail rest ++ 0x7D :: post)
      (by rw [hq1]; exact nonNum_cons _ hq3) g (by simp at hf; omega)
    rw [← e3] at hpv hews
    simp only [List.length_append, List.length_singleton] at hpv he1 he2 hews
    have hqq : (pre ++ ((quote k ++ 0x3A :: (serialize x ++ mtail rest)) ++ 0x7D :: post))[pre.length + (quote k).length + 1 + (serialize x).length]?
        = some cq := by
      rw [e4, get_at _ _ _ (by len_tac), hq1]; rfl
    have hsC := skipWs_to hews he2 hqq hq2
    cases rest with
    | nil =>
      have hcq := hq4 rfl
      subst hcq
      rw [denMembers_nil_inv hm']
      have := parseMembers_last h0 hk (by rw [hsA]; exact hcol) (by rw [hsA, hsB]; exact hpv)
        (by rw [hsC]; exact hqq)
      rw [this, hsC]
      simp [mtail]; omega
    | cons r rs =>
      have hcq := hq5 (by simp)
      subst hcq
      have e5 : pre ++ ((quote k ++ 0x3A :: (serialize x ++ mtail (r :: rs))) ++ 0x7D :: post) =
          (pre ++ quote k ++ [0x3A] ++ serialize x ++ [0x2C]) ++ (serMembers (r :: rs) ++ 0x7D :: post) := by
        simp [mtail]
      have hnx : (pre ++ ((quote k ++ 0x3A :: (serialize x ++ mtail (r :: rs))) ++ 0x7D :: post))[pre.length + (quote k).length + 1 + (serialize x).length + 1]?
          = some 0x22 := by
        obtain ⟨k', x'⟩ := r
        rw [e5, get_at _ _ _ (by len_tac), serMembers_cons, quote_cons]; rfl
      have hsD := skipWs_stay hnx rfl
      have hrest := ser_members (r :: rs) m' hm' (by simp)
        (pre ++ quote k ++ [0x3A] ++ serialize x ++ [0x2C]) post g (by simp [mtail] at hf ⊢; omega)
      rw [← e5] at hrest
      simp only [List.length_append, List.length_singleton] at hrest
      have := parseMembers_cons h0 hk (by rw [hsA]; exact hcol) (by rw [hsA, hsB]; exact hpv)
        (by rw [hsC]; exact hqq) (by rw [hsC, hsD]; exact hrest)
      rw [this]
      simp [mtail]; omega
theorem ser_elems : ∀ (xs : List LNode) (m : List JVal), denList xs = some m → xs ≠ [] →
    ∀ (pre post : List Nat) (f : Nat), 2 * (serElems xs).length + 1 ≤ f →
    parseElems (pre ++ (serElems xs ++ 0x5D :: post)) f pre.length =
      .ok (m, pre.length + (serElems xs).length + 1)
  | [], _, _, hne, _, _, _, _ => absurd rfl hne
  | x :: rest, m, hm, _, pre, post, f, hf => by
    obtain ⟨v, m', hv, hm', rfl⟩ := denList_cons hm
    rw [serElems_cons] at hf ⊢
    obtain ⟨g, rfl⟩ : ∃ g, f = g + 1 := ⟨f - 1, by omega⟩
    have e3 : pre ++ ((serialize x ++ etail rest) ++ 0x5D :: post) =
        pre ++ (serialize x ++ (etail rest ++ 0x5D :: post)) := by simp
    have e4 : pre ++ ((serialize x ++ etail rest) ++ 0x5D :: post) =
        (pre ++ serialize x) ++ (etail rest ++ 0x5D :: post) := by simp
    obtain ⟨cq, tq, hq1, hq2, hq3, hq4, hq5⟩ := etail_head rest post
    obtain ⟨e, hpv, he1, he2, hews⟩ := ser_value x v hv pre (etail rest ++ 0x5D :: post)
      (by rw [hq1]; exact nonNum_cons _ hq3) g (by simp at hf; omega)
    rw [← e3] at hpv hews
    have hqq : (pre ++ ((serialize x ++ etail rest) ++ 0x5D :: post))[pre.length + (serialize x).length]? = some cq := by
      rw [e4, get_at _ _ _ (by len_tac), hq1]; rfl
    have hsC := skipWs_to hews he2 hqq hq2
    cases rest with
    | nil =>
      have hcq := hq4 rfl
      subst hcq
      rw [denList_nil_inv hm']
      have := parseElems_last hpv (by rw [hsC]; exact hqq)
      rw [this, hsC]
      simp [etail]
    | cons r rs =>
      have hcq := hq5 (by simp)
      subst hcq
      have e5 : pre ++ ((serialize x ++ etail (r :: rs)) ++ 0x5D :: post) =
          (pre ++ serialize x ++ [0x2C]) ++ (serElems (r :: rs) ++ 0x5D :: post) := by
        simp [etail]
      obtain ⟨vr, _, hvr, _, _⟩ := denList_cons hm'
      obtain ⟨c, t, hc1, hc2, hc3, hc4⟩ := serialize_head r vr hvr
      have hnx : (pre ++ ((serialize x ++ etail (r :: rs)) ++ 0x5D :: post))[pre.length + (serialize x).length + 1]?
          = some c := by
        rw [e5, get_at _ _ _ (by len_tac), serElems_cons, hc1]; rfl
      have hsD := skipWs_stay hnx hc2
      have hrest := ser_elems (r :: rs) m' hm' (by simp) (pre ++ serialize x ++ [0x2C]) post g
        (by simp [etail] at hf ⊢; omega)
      rw [← e5] at hrest
      simp only [List.length_append, List.length_singleton] at hrest
      have := parseElems_cons hpv (by rw [hsC]; exact hqq) (by rw [hsC, hsD]; exact hrest)
      rw [this]
      simp [etail]; omega
end

/-- the serialisation of a lazy tree reads back as the value the tree denotes -/
theorem serializeOK : SerializeOK := by
  intro n v h
  obtain ⟨c, t, hc1, hc2, _, _⟩ := serialize_head n v h
  obtain ⟨e, hpv, he1, he2, hws⟩ := ser_value n v h [] [] (Or.inl rfl) (2 * (serialize n).length + 2) (by omega)
  simp only [List.nil_append, List.append_nil, List.length_nil, Nat.zero_add] at hpv he1 he2 hws
  have h0 : skipWs (serialize n) (serialize n).length 0 = 0 :=
    skipWs_stay (c := c) (by rw [hc1]; rfl) hc2
  exact parse_intro (by rw [h0]; exact hpv) (skipWs_end he2 hws)

end Sonic.Proofs.MergeSerialize
