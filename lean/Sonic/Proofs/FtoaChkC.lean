import Sonic.Proofs.FtoaChk

/-!
# C07: a completeness direction for the certificate `Spec.Shortest.chk`

`chk c q sig exp = true` follows from the conditions it encodes, stated on its own integer scale
(units of `10^(exp-1)`; `[tmin, tmaxE)` = the integers in the rounding interval; `t·A` against `V` = the decimal
`t·10^(exp-1)` against the value `c·2^q`).  Used to show that the decimal chosen by `F64ToDecimal` satisfies it.
-/
namespace Sonic.Proofs.Ftoa
open Sonic.Spec.Shortest

theorem noCand_complete (a bE n j : Nat)
    (h : ∀ s, 10 ^ (n - 1) ≤ s → s < 10 ^ n → a ≤ s * 10 ^ j → s * 10 ^ j < bE → False) :
    noCand a bE n j = true := by
  have hP : 0 < 10 ^ j := Nat.pow_pos (by decide)
  simp only [noCand, decide_eq_true_eq]
  apply Decidable.byContradiction
  intro hn
  have hn : max (ceilDiv a (10 ^ j)) (10 ^ (n - 1)) < min (ceilDiv bE (10 ^ j)) (10 ^ n) := by omega
  have h1 : ceilDiv a (10 ^ j) ≤ max (ceilDiv a (10 ^ j)) (10 ^ (n - 1)) := Nat.le_max_left _ _
  have h2 : 10 ^ (n - 1) ≤ max (ceilDiv a (10 ^ j)) (10 ^ (n - 1)) := Nat.le_max_right _ _
  have h3 : min (ceilDiv bE (10 ^ j)) (10 ^ n) ≤ ceilDiv bE (10 ^ j) := Nat.min_le_left _ _
  have h4 : min (ceilDiv bE (10 ^ j)) (10 ^ n) ≤ 10 ^ n := Nat.min_le_right _ _
  generalize max (ceilDiv a (10 ^ j)) (10 ^ (n - 1)) = s at *
  exact h s h2 (by omega) ((ceilDiv_le_iff _ _ _ hP).1 h1) ((lt_ceilDiv_iff _ _ _ hP).1 (by omega))

theorem noCands_complete (a bE n : Nat) (js : List Nat)
    (h : ∀ j, j ∈ js → ∀ s, 10 ^ (n - 1) ≤ s → s < 10 ^ n → a ≤ s * 10 ^ j → s * 10 ^ j < bE → False) :
    noCands a bE n js = true := by
  unfold noCands
  rw [List.all_eq_true]
  intro j hj
  exact noCand_complete a bE n j (h j hj)

/-- what `chkClosest` asks of one candidate `t` (all on the integer scale) -/
def CloseOk (A V X sig t : Nat) : Prop :=
  (V < X * A → t < X → t * A + X * A ≤ 2 * V ∧ (t * A + X * A = 2 * V → sig % 2 = 0)) ∧
  (X * A < V → X < t → 2 * V ≤ t * A + X * A ∧ (t * A + X * A = 2 * V → sig % 2 = 0))

theorem chkClosest_complete (A V tmin tmaxE X n sig : Nat) (hA : 0 < A)
    (h : ∀ j, j ∈ [0, 1, 2] → ∀ s, 10 ^ (n - 1) ≤ s → s < 10 ^ n → tmin ≤ s * 10 ^ j → s * 10 ^ j < tmaxE →
      CloseOk A V X sig (s * 10 ^ j)) :
    chkClosest A V tmin tmaxE X n sig = true := by
  unfold chkClosest
  simp only
  by_cases c0 : X * A = V
  · simp [c0]
  simp only [if_neg c0]
  by_cases c1 : V < X * A
  · simp only [if_pos c1, Bool.and_eq_true, Bool.or_eq_true]
    constructor
    · apply noCands_complete
      intro j hj s b1 b2 b3 b4
      have hc := (h j hj s b1 b2 (by omega) (by omega)).1 c1 (by omega)
      generalize s * 10 ^ j = t at *
      split at b3
      · rename_i hle
        have : (2 * V - X * A) / A + 1 ≤ t := by omega
        rw [Nat.succ_le_iff, Nat.div_lt_iff_lt_mul hA] at this
        omega
      · omega
    · by_cases hev : sig % 2 = 0
      · left; left; simpa using hev
      by_cases htie : X * A ≤ 2 * V ∧ (2 * V - X * A) % A = 0
      · right
        apply noCands_complete
        intro j hj s b1 b2 b3 b4
        have ht : s * 10 ^ j = (2 * V - X * A) / A := by omega
        have hd : (2 * V - X * A) / A * A = 2 * V - X * A :=
          Nat.div_mul_cancel (Nat.dvd_of_mod_eq_zero htie.2)
        have hlt : s * 10 ^ j < X := by
          apply Nat.lt_of_mul_lt_mul_right (a := A)
          rw [ht, hd]; omega
        have hc := (h j hj s b1 b2 (by omega) (by omega)).1 c1 hlt
        rw [ht, hd] at hc
        exact hev (hc.2 (by omega))
      · left; right
        simp only [Bool.not_eq_true', Bool.and_eq_false_iff, decide_eq_false_iff_not, beq_eq_false_iff_ne]
        by_cases h1 : X * A ≤ 2 * V
        · right; intro h2; exact htie ⟨h1, h2⟩
        · left; exact h1
  · simp only [if_neg c1, Bool.and_eq_true, Bool.or_eq_true]
    have c2 : X * A < V := by omega
    constructor
    · apply noCands_complete
      intro j hj s b1 b2 b3 b4
      have hc := (h j hj s b1 b2 (by omega) (by omega)).2 c2 (by omega)
      have : s * 10 ^ j < ceilDiv (2 * V - X * A) A := by omega
      rw [lt_ceilDiv_iff _ _ _ hA] at this
      omega
    · by_cases hev : sig % 2 = 0
      · left; left; simpa using hev
      by_cases htie : (2 * V - X * A) % A = 0
      · right
        apply noCands_complete
        intro j hj s b1 b2 b3 b4
        have ht : s * 10 ^ j = (2 * V - X * A) / A := by omega
        have hd : (2 * V - X * A) / A * A = 2 * V - X * A :=
          Nat.div_mul_cancel (Nat.dvd_of_mod_eq_zero htie)
        have hlt : X < s * 10 ^ j := by
          apply Nat.lt_of_mul_lt_mul_right (a := A)
          rw [ht, hd]; omega
        have hc := (h j hj s b1 b2 (by omega) (by omega)).2 c2 hlt
        rw [ht, hd] at hc
        exact hev (hc.2 (by omega))
      · left; right
        simpa using htie

/-- `chk` from the conditions it encodes -/
theorem chk_intro (c : Nat) (q : Int) (sig : Nat) (exp : Int)
    (h0 : 0 < sig) (h1 : (tRange c q (exp - 1)).1 ≤ 10 * sig) (h2 : 10 * sig < (tRange c q (exp - 1)).2)
    (hmin : nDigits sig ≠ 1 → ∀ j, j ∈ [1, 2, 3] → ∀ s, 10 ^ (nDigits sig - 1 - 1) ≤ s → s < 10 ^ (nDigits sig - 1) →
      (tRange c q (exp - 1)).1 ≤ s * 10 ^ j → s * 10 ^ j < (tRange c q (exp - 1)).2 → False)
    (hclose : ∀ j, j ∈ [0, 1, 2] → ∀ s, 10 ^ (nDigits sig - 1) ≤ s → s < 10 ^ nDigits sig →
      (tRange c q (exp - 1)).1 ≤ s * 10 ^ j → s * 10 ^ j < (tRange c q (exp - 1)).2 →
      CloseOk (scaleA (exp - 1) (q - 2)) (4 * c * scaleB (exp - 1) (q - 2)) (10 * sig) sig (s * 10 ^ j)) :
    chk c q sig exp = true := by
  unfold chk
  simp only [Bool.and_eq_true, Bool.or_eq_true, decide_eq_true_eq, beq_iff_eq]
  refine ⟨⟨⟨⟨h0, h1⟩, h2⟩, ?_⟩, ?_⟩
  · by_cases hn : nDigits sig = 1
    · exact Or.inl hn
    · exact Or.inr (noCands_complete _ _ _ _ (hmin hn))
  · exact chkClosest_complete _ _ _ _ _ _ _ (scaleA_pos _ _) hclose

end Sonic.Proofs.Ftoa
