import Sonic.Proofs.DecRightShift
import Sonic.Proofs.DecLeftShift2
import Mathlib.Tactic.Linarith
import Mathlib.Tactic.Positivity
import Mathlib.Tactic.FieldSimp
import Mathlib.Tactic.Ring
import Mathlib.Tactic.NormNum
import Mathlib.Tactic.LinearCombination
import Mathlib.Algebra.Order.Field.Power
import Mathlib.Algebra.Order.Field.Rat

/-!
# The big decimal as a rational number; the two shifts as exact-or-floored scalings
-/
namespace Sonic.Proofs.Dec

open Sonic.Model.BigDecimal

/-- the rational number `0.d₁d₂…d_nd · 10^dp` -/
def val (d : Decimal) : ℚ := (Dnat d : ℚ) * (10 : ℚ) ^ (d.dp - (d.nd : ℤ))

/-- `d'` holds the target value `T` exactly (and `trunc` is unchanged), or floored to the 800-digit grid
    `10^(dp-800)` with `trunc` raised -/
def StepQ (T : ℚ) (tr : Bool) (d' : Decimal) : Prop :=
  val d' ≤ T ∧ T < val d' + (10 : ℚ) ^ (d'.dp - 800) ∧
    ((d'.trunc = tr ∧ val d' = T) ∨ (d'.trunc = true ∧ val d' < T))

theorem ten_ne : (10 : ℚ) ≠ 0 := by norm_num
theorem two_ne : (2 : ℚ) ≠ 0 := by norm_num

theorem approx_Q (Wf wf D' nd' : Nat) (tr tr' : Bool) (dp' : ℤ) (h : Approx Wf wf D' nd' tr tr') :
    (D' : ℚ) * 10 ^ (dp' - (nd' : ℤ)) ≤ (Wf : ℚ) * 10 ^ (dp' - (wf : ℤ)) ∧
    (Wf : ℚ) * 10 ^ (dp' - (wf : ℤ)) < (D' : ℚ) * 10 ^ (dp' - (nd' : ℤ)) + 10 ^ (dp' - 800) ∧
    ((tr' = tr ∧ (D' : ℚ) * 10 ^ (dp' - (nd' : ℤ)) = (Wf : ℚ) * 10 ^ (dp' - (wf : ℤ))) ∨
      (tr' = true ∧ (D' : ℚ) * 10 ^ (dp' - (nd' : ℤ)) < (Wf : ℚ) * 10 ^ (dp' - (wf : ℤ)))) := by
  obtain ⟨c, hc, hD, hcase⟩ := h
  have hdm := Nat.div_add_mod Wf (10 ^ c)
  rw [← hD] at hdm
  have hWf : (Wf : ℚ) = (D' : ℚ) * 10 ^ c + ((Wf % 10 ^ c : ℕ) : ℚ) := by
    have : (Wf : ℚ) = ((10 ^ c * D' + Wf % 10 ^ c : ℕ) : ℚ) := by rw [hdm]
    rw [this]; push_cast; ring
  have hexp : (10 : ℚ) ^ (dp' - (nd' : ℤ)) = 10 ^ c * 10 ^ (dp' - (wf : ℤ)) := by
    have : dp' - (nd' : ℤ) = (c : ℤ) + (dp' - (wf : ℤ)) := by omega
    rw [this, zpow_add₀ ten_ne, zpow_natCast]
  have hpos : (0 : ℚ) < 10 ^ (dp' - (wf : ℤ)) := by positivity
  have hdiff : (Wf : ℚ) * 10 ^ (dp' - (wf : ℤ)) - (D' : ℚ) * 10 ^ (dp' - (nd' : ℤ))
      = ((Wf % 10 ^ c : ℕ) : ℚ) * 10 ^ (dp' - (wf : ℤ)) := by
    rw [hexp, hWf]; ring
  have hr0 : (0 : ℚ) ≤ ((Wf % 10 ^ c : ℕ) : ℚ) := by positivity
  rcases hcase with ⟨h0, htr⟩ | ⟨h0, htr, h8, hlt⟩
  · rw [h0] at hdiff
    simp only [Nat.cast_zero, zero_mul] at hdiff
    have heq : (D' : ℚ) * 10 ^ (dp' - (nd' : ℤ)) = (Wf : ℚ) * 10 ^ (dp' - (wf : ℤ)) := by linarith
    refine ⟨le_of_eq heq, ?_, Or.inl ⟨htr, heq⟩⟩
    have : (0 : ℚ) < 10 ^ (dp' - 800) := by positivity
    linarith
  · have hrpos : (0 : ℚ) < ((Wf % 10 ^ c : ℕ) : ℚ) := by
      have : 0 < Wf % 10 ^ c := Nat.pos_of_ne_zero h0
      exact_mod_cast this
    have hrlt : ((Wf % 10 ^ c : ℕ) : ℚ) < 10 ^ (wf - 800 : ℕ) := by exact_mod_cast hlt
    have h1 : ((Wf % 10 ^ c : ℕ) : ℚ) * 10 ^ (dp' - (wf : ℤ)) < 10 ^ (dp' - 800) := by
      have : (10 : ℚ) ^ (dp' - 800) = 10 ^ (wf - 800 : ℕ) * 10 ^ (dp' - (wf : ℤ)) := by
        rw [← zpow_natCast, ← zpow_add₀ ten_ne]
        congr 1
        omega
      rw [this]
      exact mul_lt_mul_of_pos_right hrlt hpos
    have h2 : 0 < ((Wf % 10 ^ c : ℕ) : ℚ) * 10 ^ (dp' - (wf : ℤ)) := mul_pos hrpos hpos
    refine ⟨by linarith, by linarith, Or.inr ⟨htr, by linarith⟩⟩

/-- `RightShift`, as a statement about rational values -/
theorem rightShift_Q (d : Decimal) (k : Nat) (hwf : WF d) (hpos : 0 < Dnat d) (hk : k ≤ 60) :
    WF (rightShift d k) ∧ (rightShift d k).neg = d.neg ∧ 0 < Dnat (rightShift d k) ∧ Trimmed (rightShift d k) ∧
    StepQ (val d / 2 ^ k) d.trunc (rightShift d k) := by
  obtain ⟨h1, h2, h3, h4, Wf, wf, b, e1, e2, e3, e4, e5, e6⟩ := rightShift_spec d k hwf hpos hk
  have hA := approx_Q Wf wf (Dnat (rightShift d k)) (rightShift d k).nd d.trunc (rightShift d k).trunc
    (rightShift d k).dp e6
  have hT : (Wf : ℚ) * 10 ^ ((rightShift d k).dp - (wf : ℤ)) = val d / 2 ^ k := by
    unfold val
    have hq : (Wf : ℚ) * (10 * 2 ^ k) = (Dnat d : ℚ) * 10 ^ b := by exact_mod_cast e1
    have hexp : (rightShift d k).dp - (wf : ℤ) = (d.dp - (d.nd : ℤ)) + (1 - (b : ℤ)) := by omega
    have h1b : (10 : ℚ) ^ (1 - (b : ℤ)) = 10 / 10 ^ b := by rw [zpow_sub₀ ten_ne, zpow_one, zpow_natCast]
    rw [hexp, zpow_add₀ ten_ne, h1b]
    generalize (10 : ℚ) ^ (d.dp - (d.nd : ℤ)) = E
    have h2k : (2 : ℚ) ^ k ≠ 0 := by positivity
    have h10b : (10 : ℚ) ^ b ≠ 0 := by positivity
    field_simp
    linear_combination E * hq
  have hpos' : 0 < Dnat (rightShift d k) := by
    obtain ⟨c, hc1, hc2, _⟩ := e6
    rw [hc2]
    apply Nat.div_pos _ (Nat.pow_pos (by omega))
    calc 10 ^ c ≤ 10 ^ (wf - 1) := Nat.pow_le_pow_right (by omega) (by omega)
      _ ≤ Wf := e2
  refine ⟨h1, h2, hpos', h4, ?_⟩
  unfold StepQ
  rw [← hT]
  exact hA

/-- `LeftShift`, as a statement about rational values -/
theorem leftShift_Q (d : Decimal) (k : Nat) (hwf : WF d) (hpos : 0 < Dnat d) (hk1 : 1 ≤ k) (hk : k ≤ 60) :
    WF (leftShift d k) ∧ (leftShift d k).neg = d.neg ∧ 0 < Dnat (leftShift d k) ∧ Trimmed (leftShift d k) ∧
    StepQ (val d * 2 ^ k) d.trunc (leftShift d k) := by
  obtain ⟨h1, h2, h3, h4, wf, e2, e3, e4, e5, e6⟩ := leftShift_spec d k hwf hpos hk1 hk
  have hA := approx_Q (Dnat d * 2 ^ k) wf (Dnat (leftShift d k)) (leftShift d k).nd d.trunc (leftShift d k).trunc
    (leftShift d k).dp e6
  have hT : ((Dnat d * 2 ^ k : ℕ) : ℚ) * 10 ^ ((leftShift d k).dp - (wf : ℤ)) = val d * 2 ^ k := by
    unfold val
    rw [e5]; push_cast; ring
  have hpos' : 0 < Dnat (leftShift d k) := by
    obtain ⟨c, hc1, hc2, _⟩ := e6
    rw [hc2]
    apply Nat.div_pos _ (Nat.pow_pos (by omega))
    calc 10 ^ c ≤ 10 ^ (wf - 1) := Nat.pow_le_pow_right (by omega) (by omega)
      _ ≤ Dnat d * 2 ^ k := e2
  refine ⟨h1, h2, hpos', h4, ?_⟩
  unfold StepQ
  rw [← hT]
  exact hA

/-- a well-formed non-zero decimal: `10^(dp-1) ≤ val < 10^dp`, and `val` is a multiple of the grid `10^(dp-800)` -/
theorem val_bounds (d : Decimal) (hwf : WF d) (hpos : 0 < Dnat d) :
    (10 : ℚ) ^ (d.dp - 1) ≤ val d ∧ val d < 10 ^ d.dp ∧ ∃ N : ℕ, val d = (N : ℚ) * 10 ^ (d.dp - 800) := by
  obtain ⟨hnd, hlo, hhi⟩ := dnat_bounds d hwf hpos
  have hp : (0 : ℚ) < 10 ^ (d.dp - (d.nd : ℤ)) := by positivity
  refine ⟨?_, ?_, Dnat d * 10 ^ (800 - d.nd), ?_⟩
  · have : (10 : ℚ) ^ (d.dp - 1) = (10 ^ (d.nd - 1) : ℕ) * 10 ^ (d.dp - (d.nd : ℤ)) := by
      push_cast
      rw [← zpow_natCast, ← zpow_add₀ ten_ne]; congr 1; omega
    rw [this]; unfold val
    exact mul_le_mul_of_nonneg_right (by exact_mod_cast hlo) hp.le
  · have : (10 : ℚ) ^ d.dp = (10 ^ d.nd : ℕ) * 10 ^ (d.dp - (d.nd : ℤ)) := by
      push_cast
      rw [← zpow_natCast, ← zpow_add₀ ten_ne]; congr 1; omega
    rw [this]; unfold val
    exact mul_lt_mul_of_pos_right (by exact_mod_cast hhi) hp
  · unfold val
    have hle := hwf.nd_le
    push_cast
    rw [mul_assoc, ← zpow_natCast, ← zpow_add₀ ten_ne]
    congr 2
    omega

end Sonic.Proofs.Dec
