import Sonic.Proofs.DecNoFault

/-!
# Written exponents of magnitude 100000 and more: both exponent accumulators saturate, the result is still right
for texts of at most 9600 bytes (the value is far outside the binary64 range on the same side)
-/
namespace Sonic.Proofs.Dec

open Sonic.Model.BigDecimal
open Sonic.Spec.Number
open Sonic.Proofs.Number (isD isD_iff accDigits accDigits_cons accDigits_nil digitsVal_eq allDigits fracLen
  digitsVal_lt)

/-- `SetDecimal`'s exponent loop saturates in `[10000, 99999]` -/
theorem expLoop_big (eds r : List Nat) (hd : ∀ c ∈ eds, 48 ≤ c ∧ c ≤ 57) :
    ∀ e : Nat, e < 100000 → (10000 ≤ e ∨ 100000 ≤ accDigits e eds) →
      ∃ E : Nat, expLoop (eds ++ r) (e : Int) = (E : Int) ∧ 10000 ≤ E ∧ E < 100000 := by
  induction eds with
  | nil =>
    intro e he h
    have he1 : 10000 ≤ e := by
      rcases h with h | h
      · exact h
      · rw [accDigits_nil] at h; omega
    refine ⟨e, ?_, he1, he⟩
    cases r with
    | nil => rfl
    | cons c r' => simp only [List.nil_append]; rw [expLoop, if_neg (by omega)]
  | cons c eds ih =>
    intro e he h
    have hc := hd c (List.mem_cons_self ..)
    by_cases hlt : e < 10000
    · rw [List.cons_append, expLoop, if_pos ⟨(isDigit_iff c).2 hc, by omega⟩]
      have e1 : (e : Int) * 10 + ((c : Int) - 48) = ((e * 10 + (c - 48) : Nat) : Int) := by omega
      rw [e1]
      apply ih (fun x hx => hd x (List.mem_cons_of_mem _ hx)) _ (by omega)
      rcases h with h | h
      · omega
      · right; rw [accDigits_cons] at h; exact h
    · refine ⟨e, ?_, by omega, he⟩
      rw [List.cons_append, expLoop, if_neg (by omega)]

/-- `SetDecimal` on a token whose written exponent has magnitude 100000 or more: digits as usual; the decimal point
    is off by a saturated exponent of the same sign and magnitude in `[10000, 99999]` -/
theorem setDecimal_token_big (txt : List Nat) (t : Token) (h : scanToken txt = some t)
    (hbig : 100000 ≤ (expVal t.exp).natAbs) :
    SInv (setDecimal txt) (strip (allDigits t)) ∧ (setDecimal txt).neg = t.neg ∧
    ∃ E : Int, (setDecimal txt).dp = ((strip (allDigits t)).length : Int) - (fracLen t : Int) + E ∧
      (0 < expVal t.exp → 10000 ≤ E) ∧ (expVal t.exp < 0 → E ≤ -10000) := by
  obtain ⟨hids, hidne, hfds, hcase⟩ := scanToken_struct txt t h
  obtain ⟨c0, ids', hc0⟩ : ∃ c0 ids', t.intDigits = c0 :: ids' := by
    cases hi : t.intDigits with
    | nil => exact absurd hi hidne
    | cons c0 ids' => exact ⟨c0, ids', rfl⟩
  have hc0d : 48 ≤ c0 ∧ c0 ≤ 57 := (isD_iff c0).1 (hids c0 (by rw [hc0]; simp))
  have hfdsr : ∀ c ∈ t.fracDigits.getD [], 48 ≤ c ∧ c ≤ 57 := by
    cases hf : t.fracDigits with
    | none => intro c hc; simp at hc
    | some fs => exact range_of_isD fs (hfds fs hf)
  have hfracB : fracB t.fracDigits = if t.fracDigits.isSome then 46 :: t.fracDigits.getD [] else [] := by
    cases t.fracDigits <;> rfl
  rcases hcase with ⟨hex, _⟩ | ⟨ce, sg, eds, es, rest, hex, htxt, hce, hsg, heds, hedsne, hrest⟩
  · rw [hex] at hbig; simp [expVal] at hbig
  · have hedsr := range_of_isD _ heds
    have hval : 100000 ≤ digitsVal eds := by
      rw [hex] at hbig
      simp only [expVal] at hbig
      rcases hsg with ⟨_, h2⟩ | ⟨_, h2⟩ | ⟨_, h2⟩ <;> subst h2 <;> omega
    have hstop : Stops (ce :: (sg ++ eds ++ rest)) :=
      Or.inr ⟨ce, _, rfl, by rcases hce with h | h <;> subst h <;> decide, by omega⟩
    obtain ⟨d, sd, dr, hl, hinv, hneg, hdp⟩ := setLoop_mantissa t.neg t.intDigits (t.fracDigits.getD [])
      t.fracDigits.isSome (ce :: (sg ++ eds ++ rest)) (range_of_isD _ hids) hfdsr (by
        intro hf; cases hfd : t.fracDigits with
        | none => rfl
        | some fs => rw [hfd] at hf; simp at hf) hstop
    obtain ⟨E, hE, hE1, hE2⟩ := expLoop_big eds rest hedsr 0 (by omega) (Or.inr (by rw [← digitsVal_eq]; exact hval))
    simp only [Nat.cast_zero] at hE
    have hset : setDecimal txt = { (if sd then d else { d with dp := (d.nd : Int) + dr }) with
        dp := (if sd then d else { d with dp := (d.nd : Int) + dr }).dp + (E : Int) * es } := by
      rw [htxt, List.append_assoc, List.append_assoc, hc0, List.cons_append, setDecimal_sgn t.neg c0 _ hc0d,
        ← List.cons_append, ← hc0, ← List.append_assoc, hfracB, hl,
        finishSet_exp' d sd dr ce sg eds rest es hce hsg hedsr hedsne, hE]
    rw [hset]
    refine ⟨⟨hinv.size, hinv.nd, hinv.arr, hinv.trunc, hinv.fault, hinv.sigd, hinv.lead⟩, hneg, (E : Int) * es, ?_, ?_, ?_⟩
    · simp only
      rw [hdp]
      simp only [fracLen, allDigits]
    · rw [hex]; simp only [expVal]
      intro hpos
      have hdv : (0 : Int) ≤ (digitsVal eds : Int) := Int.natCast_nonneg _
      rcases hsg with ⟨_, h2⟩ | ⟨_, h2⟩ | ⟨_, h2⟩ <;> subst h2 <;> omega
    · rw [hex]; simp only [expVal]
      intro hneg'
      have hdv : (0 : Int) ≤ (digitsVal eds : Int) := Int.natCast_nonneg _
      rcases hsg with ⟨_, h2⟩ | ⟨_, h2⟩ | ⟨_, h2⟩ <;> subst h2 <;> omega

theorem digits_le_len (t : Token) : (allDigits t).length ≤ t.len ∧ fracLen t ≤ (allDigits t).length := by
  unfold allDigits fracLen Token.len
  cases t.fracDigits with
  | none => simp [fracBytes]; omega
  | some fs => simp [fracBytes]; omega

theorem strip_len_le (l : List Nat) : (strip l).length ≤ l.length := strip_length_le l

/-- **`AtofNative` with a saturated exponent** (text of at most 9600 bytes, non-zero mantissa): the decimal point is
    beyond `310` resp. below `-330`, so the result is `±inf` resp. `±0` — as for the exact exponent -/
theorem atofNative_big (txt : List Nat) (t : Token) (ht : scanToken txt = some t)
    (hbig : 100000 ≤ (expVal t.exp).natAbs) (hlen : t.len ≤ 9600) (hM : 0 < t.mantissa) :
    (0 < expVal t.exp → atofNative txt = (encodeBits t.neg none, false)) ∧
    (expVal t.exp < 0 → atofNative txt = (sgnBit t.neg, false)) := by
  obtain ⟨hinv, hneg, E, hdp, hE1, hE2⟩ := setDecimal_token_big txt t ht hbig
  obtain ⟨hwf, hnd, _, _⟩ := sinv_out _ _ hinv
  obtain ⟨hD1, hD2⟩ := digits_le_len t
  have hall : ∀ c ∈ allDigits t, isD c = true := by
    obtain ⟨hids, _, hfds, _⟩ := scanToken_struct txt t ht
    intro c hc
    unfold allDigits at hc
    rcases List.mem_append.1 hc with h1 | h1
    · exact hids c h1
    · cases hf : t.fracDigits with
      | none => rw [hf] at h1; simp at h1
      | some fs => rw [hf] at h1; exact hfds fs hf c (by simpa using h1)
  have hS1 : 1 ≤ (strip (allDigits t)).length := by
    by_contra hcon
    have h0 : (strip (allDigits t)).length = 0 := by omega
    have := (strip_bounds (allDigits t) hall).2
    rw [h0, ← Sonic.Proofs.Number.mantissa_eq] at this
    simp at this; omega
  have hS2 := strip_len_le (allDigits t)
  have hndne : (setDecimal txt).nd ≠ 0 := by rw [hnd]; omega
  unfold atofNative
  constructor
  · intro hpos
    have hE := hE1 hpos
    unfold decimalToF64
    rw [if_neg hndne, if_pos (by rw [hdp]; omega)]
    simp only
    rw [overflow_bits, hwf.nofault, hneg]
  · intro hnegv
    have hE := hE2 hnegv
    unfold decimalToF64
    rw [if_neg hndne, if_neg (by rw [hdp]; omega), if_pos (by rw [hdp]; omega), hwf.nofault,
      assemble_eq _ 0 (-1023) 0 (by omega) (by norm_num), hneg]
    simp

end Sonic.Proofs.Dec
