import Sonic.Proofs.ConcurrencyAccess

/-!
# C17 helper lemmas: independent documents / allocators / buffers (`Model/Access.lean`, scenario 2)
-/

namespace Sonic.Proofs.Concurrency
open Sonic.Model.Access

/-- an access (read or write) to one of the worker's own resources -/
def OwnRes (r : Res) (t : ThreadId) (a : Access) : Prop :=
  a.loc = .threadLocal t ∨ a.loc = .docAll r.doc ∨ a.loc = .poolAll r.pool ∨ a.loc = .wbuf r.buf

/-- a read of a process-wide location that nobody writes -/
def GlobalRd (a : Access) : Prop :=
  a.isWrite = false ∧ (a.loc = .constData ∨ (∃ i, a.loc = .extInput i) ∨ a.loc = .staticNull)

/-- every access of a non-misusing call is to the worker's own resources or a global read -/
theorem ownFootprint_ok (r : Res) (t : ThreadId) (op : OwnOp) (hop : op ≠ .writeFallback) :
    ∀ a ∈ ownFootprintIn true r t op, OwnRes r t a ∨ GlobalRd a := by
  intro a ha
  cases op with
  | writeFallback => exact absurd rfl hop
  | parse i =>
    simp only [ownFootprintIn, List.mem_cons, List.not_mem_nil, or_false] at ha
    rcases ha with rfl | rfl | rfl | rfl | rfl
    · exact Or.inl (Or.inl rfl)
    · exact Or.inr ⟨rfl, Or.inr (Or.inl ⟨i, rfl⟩)⟩
    · exact Or.inr ⟨rfl, Or.inl rfl⟩
    · exact Or.inl (Or.inr (Or.inl rfl))
    · exact Or.inl (Or.inr (Or.inr (Or.inl rfl)))
  | mutate =>
    simp only [ownFootprintIn, List.mem_cons, List.not_mem_nil, or_false] at ha
    rcases ha with rfl | rfl | rfl | rfl
    · exact Or.inl (Or.inl rfl)
    · exact Or.inr ⟨rfl, Or.inl rfl⟩
    · exact Or.inl (Or.inr (Or.inl rfl))
    · exact Or.inl (Or.inr (Or.inr (Or.inl rfl)))
  | read =>
    simp only [ownFootprintIn, fpFallback, if_true, List.mem_cons, List.not_mem_nil, or_false] at ha
    rcases ha with rfl | rfl | rfl | rfl | rfl
    · exact Or.inl (Or.inl rfl)
    · exact Or.inr ⟨rfl, Or.inl rfl⟩
    · exact Or.inl (Or.inr (Or.inl rfl))
    · exact Or.inl (Or.inr (Or.inr (Or.inr rfl)))
    · exact Or.inr ⟨rfl, Or.inr (Or.inr rfl)⟩
  | indexMiss =>
    simp only [ownFootprintIn, fpFallback, if_true, List.mem_cons, List.not_mem_nil, or_false] at ha
    rcases ha with rfl | rfl | rfl
    · exact Or.inl (Or.inl rfl)
    · exact Or.inl (Or.inr (Or.inl rfl))
    · exact Or.inr ⟨rfl, Or.inr (Or.inr rfl)⟩
  | destroy =>
    simp only [ownFootprintIn, List.mem_cons, List.not_mem_nil, or_false] at ha
    rcases ha with rfl | rfl | rfl
    · exact Or.inl (Or.inl rfl)
    · exact Or.inl (Or.inr (Or.inl rfl))
    · exact Or.inl (Or.inr (Or.inr (Or.inl rfl)))

theorem ownStaticAfter_true (op : OwnOp) (hop : op ≠ .writeFallback) : ownStaticAfter true op = true := by
  cases op <;> first | rfl | exact absurd rfl hop

/-- accesses of two workers with different thread numbers, documents, pools and buffers never conflict -/
theorem ownRes_no_conflict {r1 r2 : Res} {t1 t2 : ThreadId} (ht : t1 ≠ t2) (hd : r1.doc ≠ r2.doc)
    (hp : r1.pool ≠ r2.pool) (hb : r1.buf ≠ r2.buf) {a b : Access}
    (ha : OwnRes r1 t1 a ∨ GlobalRd a) (hb' : OwnRes r2 t2 b ∨ GlobalRd b) : ¬ Conflict a b := by
  intro ⟨hov, hw⟩
  rcases ha with ha | ⟨haw, ha⟩ <;> rcases hb' with hb' | ⟨hbw, hb'⟩
  · rcases ha with ha | ha | ha | ha <;> rcases hb' with hb' | hb' | hb' | hb' <;>
      rw [ha, hb'] at hov <;> simp [Loc.overlaps, Loc.coarse] at hov <;>
      first
      | exact ht (hov.elim id Eq.symm)
      | exact hd (hov.elim id Eq.symm)
      | exact hp (hov.elim id Eq.symm)
      | exact hb (hov.elim id Eq.symm)
  · rcases ha with ha | ha | ha | ha <;> rcases hb' with hb' | ⟨i, hb'⟩ | hb' <;>
      rw [ha, hb'] at hov <;> simp [Loc.overlaps, Loc.coarse] at hov
  · rcases hb' with hb' | hb' | hb' | hb' <;> rcases ha with ha | ⟨i, ha⟩ | ha <;>
      rw [ha, hb'] at hov <;> simp [Loc.overlaps, Loc.coarse] at hov
  · rcases hw with h | h
    · rw [haw] at h; cases h
    · rw [hbw] at h; cases h

/-- the workers keep their resources, and nobody misuses the fallback node -/
structure OwnInv (R : ThreadId → Res) (s : OwnState) : Prop where
  static : s.staticIsNull = true
  res : ∀ t w, s.workers[t]? = some w → w.res = R t ∧ OwnOp.writeFallback ∉ w.prog

theorem ownInv_step {R : ThreadId → Res} {s : OwnState} (h : OwnInv R s) (t : ThreadId) :
    OwnInv R (ownStep s t).1 ∧ ∀ e ∈ (ownStep s t).2, e.tid = t ∧ (OwnRes (R t) t e.acc ∨ GlobalRd e.acc) := by
  unfold ownStep
  split
  · next r op rest hw =>
    obtain ⟨hr, hnf⟩ := h.res t _ hw
    simp only at hr
    have hop : op ≠ .writeFallback := fun e => hnf (by rw [e]; exact List.mem_cons_self)
    refine ⟨⟨?_, ?_⟩, ?_⟩
    · simp only; rw [h.static]; exact ownStaticAfter_true op hop
    · intro t' w' hw'
      simp only at hw'
      rw [List.getElem?_set] at hw'
      split at hw'
      · next e =>
        subst e
        split at hw'
        · cases hw'
          exact ⟨hr, fun hm => hnf (List.mem_cons_of_mem _ hm)⟩
        · cases hw'
      · exact h.res t' w' hw'
    · intro e he
      simp only [List.mem_map] at he
      obtain ⟨a, ha, rfl⟩ := he
      rw [h.static] at ha
      refine ⟨rfl, ?_⟩
      rw [← hr]
      exact ownFootprint_ok r t op hop a ha
  · exact ⟨h, fun e he => by simp at he⟩

theorem ownTrace_ok {R : ThreadId → Res} : ∀ (sched : List ThreadId) (s : OwnState), OwnInv R s →
    ∀ e ∈ ownTrace s sched, OwnRes (R e.tid) e.tid e.acc ∨ GlobalRd e.acc
  | [], _, _ => by intro e he; simp [ownTrace] at he
  | t :: sched, s, h => by
    intro e he
    simp only [ownTrace, List.mem_append] at he
    obtain ⟨h1, h2⟩ := ownInv_step h t
    rcases he with he | he
    · obtain ⟨e1, e2⟩ := h2 e he
      rw [e1]; exact e2
    · exact ownTrace_ok sched _ h1 e he

/-- events only come from existing threads -/
theorem ownTrace_tid : ∀ (sched : List ThreadId) (s : OwnState),
    ∀ e ∈ ownTrace s sched, e.tid < s.workers.length
  | [], _ => by intro e he; simp [ownTrace] at he
  | t :: sched, s => by
    intro e he
    simp only [ownTrace, List.mem_append] at he
    rcases he with he | he
    · unfold ownStep at he
      split at he
      · next r op rest hw =>
        simp only [List.mem_map] at he
        obtain ⟨a, _, rfl⟩ := he
        exact (List.getElem?_eq_some_iff.mp hw).1
      · simp at he
    · have := ownTrace_tid sched _ e he
      have hl : (ownStep s t).1.workers.length = s.workers.length := by
        unfold ownStep; split <;> simp
      rw [hl] at this; exact this

end Sonic.Proofs.Concurrency
