import Sonic.Model.ParseOnDemand
import Sonic.Proofs.OnDemandAgree
import Sonic.Proofs.MergeParseLazy
import Sonic.Proofs.ParseNumberOK
import Sonic.Proofs.ParseTop

/-!
# `Document::ParseOnDemand` = `GetOnDemand` ∘ `Parse` of the slice (C10)

* `query_agree_follow` / `getOnDemand_follow`: `OnDemandAgree.query_agree` once more, with the additional conclusion
  that the value found is followed as in a valid text (`Follow`: whitespace, then `,` `]` `}` or the end) — the proof is
  the proof of `query_agree` (only the base case produces the success tuple).
* the slice `[start, stop)` is a JSON text for the same value (`slice_parse_eq`, from `MergeShift.parseValue_shift`),
  and its number tokens are number tokens of `data` (`expSmall_slice`: what follows the slice continues no number).
* `parseOnDemand_spec`: the composed model against `Spec.Json.parse` and `Spec.Pointer.at`.
-/
namespace Sonic.Proofs.OnDemand
open Sonic.Model.OnDemand Sonic.Gen Sonic.Spec Sonic.Spec.Json Sonic.Spec.Pointer

/-- `query_agree` with `Follow d ue` in the success case -/
theorem query_agree_follow {W : Nat} (hW : 0 < W) (hW32 : W ≤ 32) (d : List Nat) (hd : ∀ x ∈ d, x < 256)
    (junk : Nat → Nat → Nat) (hj : ∀ s i, junk s i < 256) :
    ∀ (path : List Step) (F : Nat) (v : JVal) (cache : Cache) (pos : Nat), ValAt d F pos v →
    CInv d cache pos → CValid d cache →
    (∀ u, «at» v path = some u → ∃ s stop f' ue, query W d junk path cache pos = .ok (.ok s stop) ∧ f' ≤ F ∧
        parseValue d f' s = .ok (u, ue) ∧ ue ≤ stop ∧ stop ≤ d.length ∧ WsRange d ue stop ∧
        ((∀ n, u ≠ .num n) → stop = ue) ∧ Follow d ue) ∧
    («at» v path = none → ∃ code pos', query W d junk path cache pos = .ok (.err code pos') ∧ ErrCode code) := by
  intro path
  induction path with
  | nil =>
    intro F v cache pos hva hI hV
    obtain ⟨f, p, e, hfF, hns, hv, hfol⟩ := hva
    obtain ⟨stop, e1, h1, h2, h3, h4⟩ := skipOne_value hW hv hfol hns hI hV
    refine ⟨fun u hu => ?_, fun hn => by simp [«at»] at hn⟩
    simp only [«at», Option.some.injEq] at hu
    subst hu
    exact ⟨p, stop, f, e, e1, hfF, hv, h1, h2, h3, h4, hfol⟩
  | cons st rest ih =>
    intro F v cache pos hva hI hV
    obtain ⟨f, p, e, hfF, hns, hv, hfol⟩ := hva
    obtain ⟨f, rfl⟩ : ∃ f', f = f' + 1 := by
      cases f with
      | zero => exact absurd hv parseValue_zero
      | succ f' => exact ⟨f', rfl⟩
    obtain ⟨c, hc, sh⟩ := parseValue_inv hv
    obtain ⟨c', hc', _, _, _, _, hobj, harr⟩ := value_start hv
    rw [hc] at hc'; injection hc' with hc'; subst hc'
    obtain ⟨cache1, e1, hI1, hV1⟩ := skipSpaceSafe_found d cache pos p hns hI hV
    have hpl := hns.2.1
    have hat : «at» v (st :: rest) = match stepInto v st with | some u => «at» u rest | none => none := rfl
    cases st with
    | key k =>
      have hpre : ∀ (X : M Res),
          ((if (c != 0x7B) = true then (pure (.err kParseErrorMismatchType (decPos (p + 1))) : M Res) else do
            let t ← getNextToken W d [0x22, 0x7D] (p + 1)
            if (t.1 != 0x22) = true then pure (.err kParseErrorUnknownObjKey t.2) else
            match ← objKey W d junk k (d.length + 2) cache1 t.2 with
            | .inl (code, pos) => pure (.err code pos)
            | .inr (pos, cache) => query W d junk rest cache pos) = X) →
          query W d junk (.key k :: rest) cache pos = X := by
        intro X hX
        unfold query
        simp only [bind, Except.bind, pure, Except.pure]
        rw [e1, getD_of_get hc]
        simp only [bind, Except.bind, pure, Except.pure] at hX
        exact hX
      by_cases hcb : c = 0x7B
      · subst hcb
        obtain ⟨kvs, hvk⟩ := hobj.mpr rfl
        subst hvk
        have hstep : stepInto (.obj kvs) (.key k) = lookupKey k kvs := rfl
        rw [hat, hstep]
        have hws : WsRange d (p + 1) (skipWs d d.length (p + 1)) := skipWs_range _ _ _
        have hws0 := (skipWs_spec d d.length (p + 1)).1
        cases sh with
        | objEmpty hq hvs he =>
          injection hvs with hvs; subst hvs
          have hql := Sonic.Proofs.StringDec.lt_of_get hq
          have htok := getNextToken_found hW d [0x22, 0x7D] (p + 1) _
            ⟨hws0, hql, fun j hj hjr x hx => (contains_of_space (hws j hj hjr x hx)).1,
             fun y hy => by rw [hq] at hy; injection hy with hy; subst hy; decide⟩
          refine ⟨fun u hu => (by simp [lookupKey] at hu), fun _ => ⟨kParseErrorUnknownObjKey, skipWs d d.length (p + 1), ?_, Or.inl rfl⟩⟩
          apply hpre
          rw [if_neg (by decide)]
          simp only [bind, Except.bind, pure, Except.pure]
          rw [htok, getD_of_get hq]
          rfl
        | obj kvs' hq hel hvs =>
          injection hvs with hvs; subst hvs
          obtain ⟨f', rfl⟩ : ∃ f', f = f' + 1 := by
            cases f with
            | zero => simp [parseMembers] at hel
            | succ f' => exact ⟨f', rfl⟩
          obtain ⟨hq2, _⟩ := parseMembers_inv hel
          have hql := Sonic.Proofs.StringDec.lt_of_get hq2
          have htok := getNextToken_found hW d [0x22, 0x7D] (p + 1) _
            ⟨hws0, hql, fun j hj hjr x hx => (contains_of_space (hws j hj hjr x hx)).1,
             fun y hy => by rw [hq2] at hy; injection hy with hy; subst hy; decide⟩
          obtain ⟨o1, o2⟩ := objKey_agree hW hW32 d hd junk hj k (f' + 1) _ kvs e hel (d.length + 2) cache1
            (by omega) (hI1.mono (by omega)) hV1
          have hstep2 : ∀ (X : M Res),
              ((do match ← objKey W d junk k (d.length + 2) cache1 (skipWs d d.length (p + 1)) with
                | .inl (code, pos) => pure (.err code pos)
                | .inr (pos, cache) => query W d junk rest cache pos) = X) →
              query W d junk (.key k :: rest) cache pos = X := by
            intro X hX
            apply hpre
            rw [if_neg (by decide)]
            simp only [bind, Except.bind, pure, Except.pure]
            rw [htok, getD_of_get hq2]
            simp only [show ((0x22 : Nat) != 0x22) = false by decide, Bool.false_eq_true, if_false]
            simp only [bind, Except.bind, pure, Except.pure] at hX
            exact hX
          cases hlk : lookupKey k kvs with
          | none =>
            obtain ⟨pos', eo⟩ := o2 hlk
            refine ⟨fun u hu => (by cases hu), fun _ => ⟨kParseErrorUnknownObjKey, pos', ?_, Or.inl rfl⟩⟩
            apply hstep2
            simp only [bind, Except.bind, pure, Except.pure]
            rw [eo]
          | some v' =>
            obtain ⟨pos', cache', eo, hI', hV', hva'⟩ := o1 v' hlk
            obtain ⟨i1, i2⟩ := ih F v' cache' pos' (hva'.mono (by omega)) hI' hV'
            have hq' : query W d junk (.key k :: rest) cache pos = query W d junk rest cache' pos' := by
              apply hstep2
              simp only [bind, Except.bind, pure, Except.pure]
              rw [eo]
            rw [hq']
            exact ⟨i1, i2⟩
        | num _ hcc n hn hvs => cases hvs
      · -- not an object
        have hstep : stepInto v (.key k) = none := by
          cases v with
          | obj kvs => exact absurd (hobj.mp ⟨kvs, rfl⟩) hcb
          | null => rfl
          | bool b => rfl
          | num n => rfl
          | str s => rfl
          | arr xs => rfl
        rw [hat, hstep]
        refine ⟨fun u hu => (by cases hu), fun _ => ⟨kParseErrorMismatchType, decPos (p + 1), ?_, Or.inr (Or.inr (Or.inl rfl))⟩⟩
        apply hpre
        rw [if_pos (by simpa using hcb)]
        rfl
    | idx i =>
      have hpre : ∀ (X : M Res),
          ((if (c != 0x5B) = true then (pure (.err kParseErrorMismatchType (decPos (p + 1))) : M Res) else do
            let r ← (if i < 0 then (pure (kParseErrorInvalidChar, p + 1, cache1) : M (Nat × Nat × Cache))
              else getArrayElem W d i.toNat cache1 (p + 1))
            if (r.1 != 0) = true then pure (.err r.1 r.2.1) else query W d junk rest r.2.2 r.2.1) = X) →
          query W d junk (.idx i :: rest) cache pos = X := by
        intro X hX
        unfold query
        simp only [bind, Except.bind, pure, Except.pure]
        rw [e1, getD_of_get hc]
        simp only [bind, Except.bind, pure, Except.pure] at hX
        simp only
        split
        · rename_i hcn
          rw [if_pos hcn] at hX; exact hX
        · rename_i hcn
          rw [if_neg hcn] at hX
          split
          · rename_i hi
            rw [if_pos hi] at hX
            exact hX
          · rename_i hi
            rw [if_neg hi] at hX
            revert hX
            cases getArrayElem W d i.toNat cache1 (p + 1) with
            | error e => exact id
            | ok r => obtain ⟨a, b, c⟩ := r; exact id
      by_cases hcb : c = 0x5B
      · subst hcb
        obtain ⟨xs, hvk⟩ := harr.mpr rfl
        subst hvk
        have hstep : stepInto (.arr xs) (.idx i) = if i < 0 then none else xs[i.toNat]? := rfl
        rw [hat, hstep]
        by_cases hneg : i < 0
        · rw [if_pos hneg]
          refine ⟨fun u hu => (by cases hu), fun _ => ⟨kParseErrorInvalidChar, p + 1, ?_, Or.inr (Or.inr (Or.inr rfl))⟩⟩
          apply hpre
          rw [if_neg (by decide), if_pos hneg]
          rfl
        rw [if_neg hneg]
        have hws0 := (skipWs_spec d d.length (p + 1)).1
        cases sh with
        | arrEmpty hq hvs he =>
          injection hvs with hvs; subst hvs
          have hns2 : IsFirstNS d (p + 1) (skipWs d d.length (p + 1)) := skipWs_first hq (by decide)
          refine ⟨fun u hu => (by simp at hu), fun _ => ?_⟩
          cases hi : i.toNat with
          | zero =>
            obtain ⟨code, pos', eq', hcode⟩ := query_at_close (W := W) d junk rest cache1 (p + 1) _ hns2 hq
              (hI1.mono (by omega)) hV1
            refine ⟨code, pos', ?_, hcode⟩
            apply hpre
            rw [if_neg (by decide), if_neg hneg, hi]
            simp only [getArrayElem, bind, Except.bind, pure, Except.pure]
            exact eq'
          | succ j =>
            obtain ⟨cache2, e2, _, _⟩ := skipSpaceSafe_found d cache1 (p + 1) _ hns2 (hI1.mono (by omega)) hV1
            refine ⟨kParseErrorArrIndexOutOfRange, skipWs d d.length (p + 1) + 1, ?_, Or.inr (Or.inl rfl)⟩
            apply hpre
            rw [if_neg (by decide), if_neg hneg, hi]
            have hql := Sonic.Proofs.StringDec.lt_of_get hq
            unfold getArrayElem
            rw [if_pos (by omega)]
            simp only [bind, Except.bind, pure, Except.pure]
            rw [e2, getD_of_get hq]
            rfl
        | arr xs' hq hel hvs =>
          injection hvs with hvs; subst hvs
          obtain ⟨f', rfl⟩ : ∃ f', f = f' + 1 := by
            cases f with
            | zero => simp [parseElems] at hel
            | succ f' => exact ⟨f', rfl⟩
          obtain ⟨v2, next2, hv2, _⟩ := parseElems_inv hel
          obtain ⟨c2, hc2, hc2ns, _⟩ := value_start hv2
          have hns2 : IsFirstNS d (p + 1) (skipWs d d.length (p + 1)) := skipWs_first hc2 hc2ns
          obtain ⟨g1, g2⟩ := getArrayElem_agree hW d i.toNat (f' + 1) _ xs e hel cache1 (p + 1) hns2
            (hI1.mono (by omega)) hV1
          cases hx : xs[i.toNat]? with
          | none =>
            obtain ⟨pos', cache', eg⟩ := g2 hx
            refine ⟨fun u hu => (by cases hu), fun _ => ⟨kParseErrorArrIndexOutOfRange, pos', ?_, Or.inr (Or.inl rfl)⟩⟩
            apply hpre
            rw [if_neg (by decide), if_neg hneg]
            simp only [bind, Except.bind, pure, Except.pure]
            rw [eg]
            rfl
          | some x =>
            obtain ⟨pos', cache', eg, hI', hV', hva'⟩ := g1 x hx
            obtain ⟨i1, i2⟩ := ih F x cache' pos' (hva'.mono (by omega)) hI' hV'
            have hq' : query W d junk (.idx i :: rest) cache pos = query W d junk rest cache' pos' := by
              apply hpre
              rw [if_neg (by decide), if_neg hneg]
              simp only [bind, Except.bind, pure, Except.pure]
              rw [eg]
              rfl
            rw [hq']
            exact ⟨i1, i2⟩
        | num _ hcc n hn hvs => cases hvs
      · have hstep : stepInto v (.idx i) = none := by
          cases v with
          | arr xs => exact absurd (harr.mp ⟨xs, rfl⟩) hcb
          | null => rfl
          | bool b => rfl
          | num n => rfl
          | str s => rfl
          | obj kvs => rfl
        rw [hat, hstep]
        refine ⟨fun u hu => (by cases hu), fun _ => ⟨kParseErrorMismatchType, decPos (p + 1), ?_, Or.inr (Or.inr (Or.inl rfl))⟩⟩
        apply hpre
        rw [if_pos (by simpa using hcb)]
        rfl

/-- `getOnDemand_agree`, success case, with `Follow` -/
theorem getOnDemand_follow {W : Nat} (hW : 0 < W) (hW32 : W ≤ 32) (d : List Nat) (hd : ∀ x ∈ d, x < 256)
    (hlen : d.length < 2 ^ 64) (junk : Nat → Nat → Nat) (hj : ∀ s i, junk s i < 256) (path : List Step)
    (v : JVal) (hv : parse d = .ok v) (u : JVal) (hu : «at» v path = some u) :
    ∃ start stop ue, getOnDemand W d junk path = .ok (.ok start stop stop) ∧
      parseAt d start = .ok (u, ue) ∧ start < ue ∧ ue ≤ stop ∧ stop ≤ d.length ∧ WsRange d ue stop ∧
      ((∀ n, u ≠ .num n) → stop = ue) ∧ Follow d ue := by
  obtain ⟨q1, _⟩ := query_agree_follow hW hW32 d hd junk hj path _ v Cache.init 0 (valAt_of_parse hv)
    (CInv.init d 0) (CValid.init d)
  obtain ⟨s, stop, f', ue, eq, hf, hp, h1, h2, h3, h4, h5⟩ := q1 u hu
  obtain ⟨b1, _, _⟩ := (value_neut d f').1 _ _ _ hp
  refine ⟨s, stop, ue, ?_, parseValue_mono hp hf, b1, h1, h2, h3, h4, h5⟩
  unfold getOnDemand
  simp only [bind, Except.bind, pure, Except.pure]
  rw [eq]
  simp only
  have : s + (stop + 2 ^ 64 - s) % 2 ^ 64 = stop := by
    have : stop + 2 ^ 64 - s = (stop - s) + 2 ^ 64 := by omega
    rw [this, Nat.add_mod_right, Nat.mod_eq_of_lt (by omega)]
    omega
  rw [this]

open Sonic.Proofs.MergeShift Sonic.Proofs.MergeParseLazy Sonic.Proofs.MergeLazyText in
/-- a value found at `p` in a text, together with trailing whitespace, is a JSON text for the same value -/
theorem slice_parse_eq {d : List Nat} {f p : Nat} {v : JVal} {e stop : Nat} (hv : parseValue d f p = .ok (v, e))
    (h1 : e ≤ stop) (h2 : stop ≤ d.length) (hws : WsRange d e stop) (hN : NumEnd d e) :
    parse (seg d p stop) = .ok v := by
  obtain ⟨b1, b2, _⟩ := (value_neut d f).1 _ _ _ hv
  obtain ⟨c, hc, hcs, _⟩ := value_start hv
  have hlen : (seg d p stop).length = stop - p := seg_length h2
  have hA : Agree d p (seg d p stop) 0 (e - p) := by
    intro j hj
    rw [Nat.zero_add, seg_get (by omega)]
  have hN2 : NumEnd (seg d p stop) (0 + (e - p)) := by
    intro c' hc'
    rw [Nat.zero_add] at hc'
    by_cases hlt : e < stop
    · rw [seg_get (by omega), show p + (e - p) = e by omega] at hc'
      exact hN c' hc'
    · rw [List.getElem?_eq_none (by omega)] at hc'; cases hc'
  have hpv := parseValue_shift hv hA hN hN2 (2 * (seg d p stop).length + 2) (by omega)
  rw [Nat.zero_add] at hpv
  have hhead : (seg d p stop)[0]? = some c := by rw [seg_get (by omega)]; exact hc
  have h0 : skipWs (seg d p stop) (seg d p stop).length 0 = 0 :=
    skipWs_unique ⟨Nat.le_refl _, by omega, fun j h1 h2 => by omega,
      fun c' hc' => by rw [hhead] at hc'; cases hc'; exact hcs⟩
  have hend : skipWs (seg d p stop) (seg d p stop).length (e - p) = (seg d p stop).length := by
    apply skipWs_end (by omega)
    intro j hj1 hj2 c' hc'
    rw [seg_get (by omega)] at hc'
    exact hws _ (by omega) (by omega) c' hc'
  exact parse_intro (by rw [h0]; exact hpv) hend

open Sonic.Proofs.MergeShift in
/-- what follows the slice `[start, stop)` of a properly followed value continues no number token -/
theorem numEnd_after_slice {d : List Nat} {e stop : Nat} (hf : Follow d e) (h1 : e ≤ stop) (hws : WsRange d e stop) :
    NumEnd d stop := by
  obtain ⟨q, hq1, hq2, hq3, hq4⟩ := hf
  intro c hc
  have hlt := Sonic.Proofs.StringDec.lt_of_get hc
  by_cases hsq : stop < q
  · exact isNumChar_of_space (hq3 stop h1 hsq c hc)
  · rcases hq4 with hq4 | ⟨c', hc', hcc⟩
    · omega
    · by_cases heq : stop = q
      · subst heq
        rw [hc] at hc'; injection hc' with hc'; subst hc'
        rcases hcc with rfl | rfl | rfl <;> rfl
      · have := hws q hq1 (by omega) c' hc'
        rcases hcc with rfl | rfl | rfl <;> exact absurd this (by decide)

open Sonic.Proofs.MergeShift Sonic.Proofs.Parse in
/-- the number tokens of such a slice are number tokens of the whole text -/
theorem expSmall_slice {d : List Nat} {p stop : Nat} (hexp : ExpSmall d) (hps : p ≤ stop) (h2 : stop ≤ d.length)
    (hN : NumEnd d stop) : ExpSmall (seg d p stop) := by
  intro k t ht
  have hlen : (seg d p stop).length = stop - p := seg_length h2
  by_cases hk : k ≤ (seg d p stop).length
  · have e : d.drop (p + k) = (seg d p stop).drop k ++ d.drop stop := by
      rw [← List.drop_drop, seg_drop hps h2, List.drop_append_of_le_length hk]
    have : Spec.Number.scanToken (d.drop (p + k)) = some t := by
      rw [e, scanToken_append (nonNum_drop hN)]; exact ht
    exact hexp (p + k) t this
  · rw [List.drop_eq_nil_of_le (by omega)] at ht
    have h0 : Spec.Number.scanToken [] = none := by decide
    rw [h0] at ht
    cases ht

/-! ## the composed model -/

open Sonic.Model.Parse (Doc Result Node parseDoc setUpCap) in
open Sonic.Proofs.Parse in
/-- **`ParseOnDemand` on a valid text** -/
theorem parseOnDemand_spec {W : Nat} (hW : 0 < W) (hW32 : W ≤ 32) (data : List Nat) (hd : ∀ x ∈ data, x < 256)
    (hL : data.length + 4 < 2 ^ 32) (hexp : ExpSmall data) (junk : Nat → Nat → Nat) (hj : ∀ s i, junk s i < 256)
    (pad : List Nat) (hpad : ∀ x ∈ pad, x < 256) (hpl : pad.length = 61) (raw : Nat → List (Option Node))
    (hraw : ∀ n, (raw n).length = n) (doc : Doc) (path : List Step) (v : JVal) (hv : parse data = .ok v) :
    (∀ u, «at» v path = some u →
      ∃ r start stop, getOnDemand W data junk path = .ok (.ok start stop stop) ∧
        parseOnDemand W junk pad raw doc data path = .ok r ∧ r.err = 0 ∧ r.off = stop - start ∧
        r.doc.value = some u ∧ (Balanced doc → Balanced r.doc)) ∧
    («at» v path = none →
      ∃ r, parseOnDemand W junk pad raw doc data path = .ok r ∧ ErrCode r.err ∧ r.doc.root = .null ∧
        r.doc.value = some .null) := by
  have hlen64 : data.length < 2 ^ 64 := by omega
  refine ⟨fun u hu => ?_, fun hn => ?_⟩
  · obtain ⟨start, stop, ue, hg, hp, h1, h2, h3, h4, _, hfol⟩ :=
      getOnDemand_follow hW hW32 data hd hlen64 junk hj path v hv u hu
    have hNe := Sonic.Proofs.MergeParseLazy.numEnd_of_follow hfol
    have hNs := numEnd_after_slice hfol h2 h4
    have hparse : parse (sliceOf data start stop) = .ok u := slice_parse_eq hp h2 h3 h4 hNe
    have hslen : (sliceOf data start stop).length = stop - start := seg_length h3
    have hsb : ∀ x ∈ sliceOf data start stop, x < 256 := fun x hx =>
      hd x (List.mem_of_mem_drop (List.mem_of_mem_take hx))
    have hexps : ExpSmall (sliceOf data start stop) := expSmall_slice hexp (by omega) h3 hNs
    have hspec := parseDoc_spec (W := W) (bs := sliceOf data start stop) (pad := pad)
      ⟨hW, by omega, hsb, hpad, hpl, by rw [hslen]; omega⟩ (numberOK_of_exp hexps)
      (raw := raw (setUpCap (sliceOf data start stop).length)) (hraw _) doc
    rw [hparse] at hspec
    obtain ⟨r, hr, he, ho, hval, hbal⟩ := hspec
    refine ⟨r, start, stop, hg, ?_, he, by rw [ho, hslen], hval, hbal⟩
    unfold parseOnDemand
    rw [hg]
    simp only [hr]
  · obtain ⟨_, q2⟩ := getOnDemand_agree hW hW32 data hd hlen64 junk hj path v hv
    obtain ⟨code, off, hg, hc⟩ := q2 hn
    refine ⟨{ err := code, off := off, doc := doc.destroyDom }, ?_, hc, rfl, rfl⟩
    unfold parseOnDemand
    rw [hg]

end Sonic.Proofs.OnDemand
