import Sonic.Model.Ftoa
import Sonic.Proofs.Itoa

/-!
# C07: `FormatSignificand` writes the canonical digits (buffer level)

`Wrote st st' out k ds`: the state `st'` differs from `st` exactly by the `k` bytes `ds` at `[out, out+k)`,
and the write extent grew to `out + k`.  Brute-force per digit count, in the style of `Proofs/Itoa.lean`.
-/
namespace Sonic.Proofs.Ftoa
open Sonic.Model.Itoa Sonic.Model.Ftoa Sonic.Spec Sonic.Proofs.Itoa

theorem c2_buf (s : St) (pos src : Nat) : (s.c2 pos src).buf = copy2 s.buf pos src := rfl
theorem c2_ext (s : St) (pos src : Nat) : (s.c2 pos src).ext = max s.ext (pos + 2) := rfl
theorem w_buf (s : St) (i v : Nat) : (s.w i v).buf = wr s.buf i v := rfl
theorem w_ext (s : St) (i v : Nat) : (s.w i v).ext = max s.ext (i + 1) := rfl

set_option linter.unusedSimpArgs false

/-- contract of the digit writers: `k` digits of `v` at `[out, out+k)`, nothing else touched -/
def Wrote (st st' : St) (out k : Nat) (ds : List Nat) : Prop :=
  slice st'.buf out (out + k) = ds ∧ st'.ext = max st.ext (out + k) ∧
  ∀ j, j < out ∨ out + k ≤ j → st'.buf j = st.buf j

theorem u32_sub (s : Nat) (h : s < 2 ^ 32) :
    (s + 2 ^ 32 - 10000 * (s / 10000) % 2 ^ 32) % 2 ^ 32 = s % 10000 := by
  omega

macro "fslow_tac" : tactic => `(tactic| (
  unfold Wrote fsLow
  rw [Nat.mod_eq_of_lt (by omega : _ < 2 ^ 32)]
  simp (disch := omega) only [fsLoop, fsTail, if_pos, if_neg, ge_iff_le, Nat.not_le, w_buf, w_ext,
    c2_buf, c2_ext, u32_sub]
  refine ⟨?_, by first | trivial | omega, ?_⟩
  · simp [slice, List.range', copy2_apply, wr_apply, digitsW, Nat.add_assoc]
    try simp (disch := omega) only [dig_even, dig_odd, and_true]
    try omega
  · intro j hj
    simp (disch := omega) only [copy2_frame, wr_apply, if_neg]))

theorem low_d1 (st : St) (out s : Nat) (h : s < 10) :
    Wrote st (fsLow st out (out + 1) s) out 1 (digitsW 1 s) := by fslow_tac
theorem low_d2 (st : St) (out s : Nat) (h0 : 10 ≤ s) (h : s < 100) :
    Wrote st (fsLow st out (out + 2) s) out 2 (digitsW 2 s) := by fslow_tac
theorem low_d3 (st : St) (out s : Nat) (h0 : 100 ≤ s) (h : s < 1000) :
    Wrote st (fsLow st out (out + 3) s) out 3 (digitsW 3 s) := by fslow_tac
theorem low_d4 (st : St) (out s : Nat) (h0 : 1000 ≤ s) (h : s < 10000) :
    Wrote st (fsLow st out (out + 4) s) out 4 (digitsW 4 s) := by fslow_tac
theorem low_d5 (st : St) (out s : Nat) (h0 : 10000 ≤ s) (h : s < 100000) :
    Wrote st (fsLow st out (out + 5) s) out 5 (digitsW 5 s) := by fslow_tac
theorem low_d6 (st : St) (out s : Nat) (h0 : 100000 ≤ s) (h : s < 1000000) :
    Wrote st (fsLow st out (out + 6) s) out 6 (digitsW 6 s) := by fslow_tac
theorem low_d7 (st : St) (out s : Nat) (h0 : 1000000 ≤ s) (h : s < 10000000) :
    Wrote st (fsLow st out (out + 7) s) out 7 (digitsW 7 s) := by fslow_tac
theorem low_d8 (st : St) (out s : Nat) (h0 : 10000000 ≤ s) (h : s < 100000000) :
    Wrote st (fsLow st out (out + 8) s) out 8 (digitsW 8 s) := by fslow_tac
theorem low_d9 (st : St) (out s : Nat) (h0 : 100000000 ≤ s) (h : s < 1000000000) :
    Wrote st (fsLow st out (out + 9) s) out 9 (digitsW 9 s) := by fslow_tac
theorem low_d10 (st : St) (out s : Nat) (h0 : 1000000000 ≤ s) (h : s < 4294967296) :
    Wrote st (fsLow st out (out + 10) s) out 10 (digitsW 10 s) := by fslow_tac


/-! ## digit counts -/

theorem dlen_of_bounds (k s : Nat) (h1 : 10 ^ k ≤ s) (h2 : s < 10 ^ (k + 1)) :
    (decimal s).length = k + 1 := by
  rw [decimal_eq_digitsW k s h1 h2, digitsW_length]

theorem dlen_lt10 (s : Nat) (h : s < 10) : (decimal s).length = 1 := by
  rw [decimal_lt s h]; rfl

theorem ctz10_eq (s : Nat) (h : s < 10 ^ 17) : ctz10 s = (decimal s).length := by
  unfold ctz10
  split
  · split
    · exact (dlen_of_bounds 10 s (by omega) (by omega)).symm
    split
    · exact (dlen_of_bounds 11 s (by omega) (by omega)).symm
    split
    · exact (dlen_of_bounds 12 s (by omega) (by omega)).symm
    split
    · exact (dlen_of_bounds 13 s (by omega) (by omega)).symm
    split
    · exact (dlen_of_bounds 14 s (by omega) (by omega)).symm
    split
    · exact (dlen_of_bounds 15 s (by omega) (by omega)).symm
    · exact (dlen_of_bounds 16 s (by omega) (by omega)).symm
  · split
    · exact (dlen_lt10 s (by omega)).symm
    split
    · exact (dlen_of_bounds 1 s (by omega) (by omega)).symm
    split
    · exact (dlen_of_bounds 2 s (by omega) (by omega)).symm
    split
    · exact (dlen_of_bounds 3 s (by omega) (by omega)).symm
    split
    · exact (dlen_of_bounds 4 s (by omega) (by omega)).symm
    split
    · exact (dlen_of_bounds 5 s (by omega) (by omega)).symm
    split
    · exact (dlen_of_bounds 6 s (by omega) (by omega)).symm
    split
    · exact (dlen_of_bounds 7 s (by omega) (by omega)).symm
    split
    · exact (dlen_of_bounds 8 s (by omega) (by omega)).symm
    · exact (dlen_of_bounds 9 s (by omega) (by omega)).symm

/-- the low part (`< 2^32`) of `FormatSignificand` writes the canonical spelling ending at `p` -/
theorem fsLow_spec (st : St) (out s : Nat) (h : s < 2 ^ 32) :
    Wrote st (fsLow st out (out + (decimal s).length) s) out (decimal s).length (decimal s) := by
  by_cases c1 : s < 10
  · rw [dlen_lt10 s c1, decimal_lt s c1]
    have := low_d1 st out s c1
    simp only [digitsW, List.nil_append, Nat.mod_eq_of_lt c1] at this
    exact this
  by_cases c2 : s < 100
  · rw [dlen_of_bounds 1 s (by omega) (by omega), decimal_eq_digitsW 1 s (by omega) (by omega)]
    exact low_d2 st out s (by omega) c2
  by_cases c3 : s < 1000
  · rw [dlen_of_bounds 2 s (by omega) (by omega), decimal_eq_digitsW 2 s (by omega) (by omega)]
    exact low_d3 st out s (by omega) c3
  by_cases c4 : s < 10000
  · rw [dlen_of_bounds 3 s (by omega) (by omega), decimal_eq_digitsW 3 s (by omega) (by omega)]
    exact low_d4 st out s (by omega) c4
  by_cases c5 : s < 100000
  · rw [dlen_of_bounds 4 s (by omega) (by omega), decimal_eq_digitsW 4 s (by omega) (by omega)]
    exact low_d5 st out s (by omega) c5
  by_cases c6 : s < 1000000
  · rw [dlen_of_bounds 5 s (by omega) (by omega), decimal_eq_digitsW 5 s (by omega) (by omega)]
    exact low_d6 st out s (by omega) c6
  by_cases c7 : s < 10000000
  · rw [dlen_of_bounds 6 s (by omega) (by omega), decimal_eq_digitsW 6 s (by omega) (by omega)]
    exact low_d7 st out s (by omega) c7
  by_cases c8 : s < 100000000
  · rw [dlen_of_bounds 7 s (by omega) (by omega), decimal_eq_digitsW 7 s (by omega) (by omega)]
    exact low_d8 st out s (by omega) c8
  by_cases c9 : s < 1000000000
  · rw [dlen_of_bounds 8 s (by omega) (by omega), decimal_eq_digitsW 8 s (by omega) (by omega)]
    exact low_d9 st out s (by omega) c9
  · rw [dlen_of_bounds 9 s (by omega) (by omega), decimal_eq_digitsW 9 s (by omega) (by omega)]
    exact low_d10 st out s (by omega) (by omega)

/-! ## the head block: the low 8 digits -/

theorem head_r (sig : Nat) (h : sig < 10 ^ 17) :
    (sig % 2 ^ 32 + 2 ^ 32 - 100000000 * (sig / 100000000 % 2 ^ 32) % 2 ^ 32) % 2 ^ 32 = sig % 100000000 := by
  have : sig / 100000000 % 2 ^ 32 = sig / 100000000 := Nat.mod_eq_of_lt (by omega)
  rw [this]
  omega

theorem fsHead_small (st : St) (sig p : Nat) (h : sig < 2 ^ 32) : fsHead st sig p = (st, p, sig, 0) := by
  unfold fsHead
  rw [if_neg (by rw [Nat.div_eq_of_lt h]; simp)]

theorem fsHead_zero (st : St) (sig p : Nat) (h0 : 2 ^ 32 ≤ sig) (h : sig < 10 ^ 17)
    (hz : sig % 100000000 = 0) : fsHead st sig p = (st, p - 8, sig / 100000000, 8) := by
  unfold fsHead
  have : sig / 2 ^ 32 ≠ 0 := by
    have := (Nat.le_div_iff_mul_le (by decide : 0 < 2 ^ 32)).2 (show 1 * 2 ^ 32 ≤ sig by omega)
    omega
  simp only [if_pos this, head_r sig h, hz, ne_eq, not_true_eq_false, if_false]

theorem fsHead_nz (st : St) (sig p : Nat) (h0 : 2 ^ 32 ≤ sig) (h : sig < 10 ^ 17)
    (hz : sig % 100000000 ≠ 0) (hp : 8 ≤ p) :
    (fsHead st sig p).2 = (p - 8, sig / 100000000, 0) ∧
    Wrote st (fsHead st sig p).1 (p - 8) 8 (digitsW 8 (sig % 100000000)) := by
  unfold fsHead
  have : sig / 2 ^ 32 ≠ 0 := by
    have := (Nat.le_div_iff_mul_le (by decide : 0 < 2 ^ 32)).2 (show 1 * 2 ^ 32 ≤ sig by omega)
    omega
  simp only [if_pos this, head_r sig h, ne_eq, hz, not_false_eq_true, if_true, true_and]
  have hr : sig % 100000000 < 100000000 := Nat.mod_lt _ (by decide)
  generalize sig % 100000000 = r at hr
  obtain ⟨o, rfl⟩ : ∃ o, p = o + 8 := ⟨p - 8, by omega⟩
  unfold Wrote
  simp only [c2_buf, c2_ext]
  refine ⟨?_, by omega, ?_⟩
  · simp [slice, List.range', copy2_apply, digitsW, Nat.add_assoc]
    simp (disch := omega) only [dig_even, dig_odd, and_true]
    omega
  · intro j hj
    simp (disch := omega) only [copy2_frame]

end Sonic.Proofs.Ftoa
