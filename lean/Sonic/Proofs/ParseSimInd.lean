import Sonic.Proofs.ParseSimMain

/-!
# Simulation: the induction steps for values and array elements
-/
namespace Sonic.Proofs.Parse
open Sonic.Gen Sonic.Spec Sonic.Model.Parse

theorem landed_cons {bs pad : List Nat} {g : Frame} {rest' : List Frame} {e : Nat} {cfg : PState × Option Label}
    {node : Node} (h : Landed bs pad (g :: rest') e cfg node) :
    ∃ c', cfg = (cfg.1, some (contOf g c')) ∧
      At bs pad .cont cfg.1 (pushItem node (g :: rest')) (Json.skipWs bs bs.length e) c' := by
  obtain ⟨c', h1, h2⟩ := h
  obtain ⟨s', l'⟩ := cfg
  simp only at h1
  subst h1
  exact ⟨c', rfl, h2⟩

theorem value_step {W : Nat} {bs pad : List Nat} (ctx : Ctx W bs pad) (hnum : NumberCorrectOn bs) (fuel : Nat)
    (ihE : ElemsSim W bs pad fuel) (ihM : MembersSim W bs pad fuel) : ValueSim W bs pad (fuel + 1) := by
  intro s f rest p c hat hfuel
  rcases hat.tok_bs with ⟨hp, hbp⟩ | ⟨hpL, hcx, hbn⟩
  case inr =>
    rw [Json.parseValue, hbn]
    subst hcx
    exact val_other hat (by decide) (by decide) (by decide) (by decide) (by decide) (by decide) (by decide)
  by_cases h22 : c = 0x22
  · subst h22
    rw [Json.parseValue, hbp]
    simp only [Nat.reduceBEq, Bool.false_eq_true, if_false, if_true]
    exact val_str ctx hat rfl
  by_cases h5B : c = 0x5B
  · subst h5B
    rw [Json.parseValue, hbp]
    simp only [Nat.reduceBEq, Bool.false_eq_true, if_false, if_true]
    have hvs : valueSwitch W s 0x5B (contOf f) = openArr s := rfl
    rcases openArr_ok ctx.hL hat.inv hat.pos hp with ⟨hfull, s', hop, hfin⟩ | ⟨hlt, c1, htok1, hcase⟩
    · exact ValGoal_of_full hfull (ErrT.now (by rw [hvs, hop]) hfin (by omega)) _
    · have hq1 := skipWs_ge bs (pos := p + 1) (by omega)
      have htest := tok_test htok1 hq1.2 0x5D (by decide)
      rcases hcase with ⟨hc1, hq1L, cfg, hop, hland, hpres⟩ | ⟨hc1, s2, hop, hat2, hpres, hnp, hcap⟩
      · rw [if_pos (htest.mpr hc1)]
        obtain ⟨c', hcfg, hat'⟩ := landed_cons hland
        exact Or.inl ⟨0, cfg.1, .arr [], c', ⟨cfg, by rw [hvs, hop], by rw [← hcfg]; exact Reaches.refl _⟩, hat',
          GoodAt.arr (GoodList.nil _), hpres, by omega, by omega⟩
      · rw [if_neg (fun h => hc1 (htest.mp h))]
        have hE := ihE s2 ⟨true, []⟩ (f :: rest) _ c1 [] rfl hat2 (GoodList.nil _) (by omega)
        cases hres : Json.parseElems bs fuel (Json.skipWs bs bs.length (p + 1)) with
        | error e =>
          rw [hres] at hE
          exact ErrT.ofR (by rw [hvs, hop]) hE (by omega)
        | ok x =>
          obtain ⟨xs, e⟩ := x
          rw [hres] at hE
          have hpe := (spec_progress hnum fuel _).2.1 xs e hres
          rcases hE with ⟨k, cfg, node, hreach, hland, hgood, hpres2, hk, he⟩ | ⟨hErr, hncap⟩
          · obtain ⟨c', hcfg, hat'⟩ := landed_cons hland
            refine Or.inl ⟨k, cfg.1, node, c', ⟨_, by rw [hvs, hop], by rw [← hcfg]; exact hreach⟩, hat', ?_,
              hpres.trans hpres2, by omega, he⟩
            simpa using hgood
          · refine Or.inr ⟨ErrT.ofR (by rw [hvs, hop]) hErr (by omega), fun hcv => hncap ?_⟩
            unfold CapV at hcv
            unfold CapE
            omega
  by_cases h7B : c = 0x7B
  · subst h7B
    rw [Json.parseValue, hbp]
    simp only [Nat.reduceBEq, Bool.false_eq_true, if_false, if_true]
    have hvs : valueSwitch W s 0x7B (contOf f) = openObj s := rfl
    rcases openObj_ok ctx.hL hat.inv hat.pos hp with ⟨hfull, s', hop, hfin⟩ | ⟨hlt, c1, htok1, hcase⟩
    · exact ValGoal_of_full hfull (ErrT.now (by rw [hvs, hop]) hfin (by omega)) _
    · have hq1 := skipWs_ge bs (pos := p + 1) (by omega)
      have htest := tok_test htok1 hq1.2 0x7D (by decide)
      rcases hcase with ⟨hc1, hq1L, cfg, hop, hland, hpres⟩ | ⟨hc1, s2, hop, hat2, hpres, hnp, hcap⟩
      · rw [if_pos (htest.mpr hc1)]
        obtain ⟨c', hcfg, hat'⟩ := landed_cons hland
        exact Or.inl ⟨0, cfg.1, .obj [], c', ⟨cfg, by rw [hvs, hop], by rw [← hcfg]; exact Reaches.refl _⟩, hat',
          GoodAt.obj (GoodMem.nil _), hpres, by omega, by omega⟩
      · rw [if_neg (fun h => hc1 (htest.mp h))]
        have hE := ihM s2 ⟨false, []⟩ (f :: rest) _ c1 [] rfl hat2 (GoodMem.nil _) (by omega)
        cases hres : Json.parseMembers bs fuel (Json.skipWs bs bs.length (p + 1)) with
        | error e =>
          rw [hres] at hE
          exact ErrT.ofR (by rw [hvs, hop]) hE (by omega)
        | ok x =>
          obtain ⟨xs, e⟩ := x
          rw [hres] at hE
          have hpe := (spec_progress hnum fuel _).2.2 xs e hres
          rcases hE with ⟨k, cfg, node, hreach, hland, hgood, hpres2, hk, he⟩ | ⟨hErr, hncap⟩
          · obtain ⟨c', hcfg, hat'⟩ := landed_cons hland
            refine Or.inl ⟨k, cfg.1, node, c', ⟨_, by rw [hvs, hop], by rw [← hcfg]; exact hreach⟩, hat', ?_,
              hpres.trans hpres2, by omega, he⟩
            simpa using hgood
          · refine Or.inr ⟨ErrT.ofR (by rw [hvs, hop]) hErr (by omega), fun hcv => hncap ?_⟩
            unfold CapV at hcv
            unfold CapE
            omega
  by_cases h74 : c = 0x74
  · subst h74
    rw [Json.parseValue, hbp]
    simp only [Nat.reduceBEq, Bool.false_eq_true, if_false, if_true]
    exact val_lit3 hat 0x74 0x72 0x75 0x65 rfl (by decide) (by decide) (by decide) (by decide) (.bool true) rfl
      (.bool true) (fun _ => rfl) rfl
  by_cases h66 : c = 0x66
  · subst h66
    rw [Json.parseValue, hbp]
    simp only [Nat.reduceBEq, Bool.false_eq_true, if_false, if_true]
    exact val_false hat rfl
  by_cases h6E : c = 0x6E
  · subst h6E
    rw [Json.parseValue, hbp]
    simp only [Nat.reduceBEq, Bool.false_eq_true, if_false, if_true]
    exact val_lit3 hat 0x6E 0x75 0x6C 0x6C rfl (by decide) (by decide) (by decide) (by decide) .null rfl
      .null (fun _ => rfl) rfl
  by_cases hn : isNumStart c = true
  · rw [Json.parseValue, hbp]
    simp only [beq_iff_eq, h22, h5B, h7B, h74, h66, h6E, if_false, specNumTest, hn, if_true]
    exact val_num ctx hnum hat hn
  · rw [Json.parseValue, hbp]
    simp only [beq_iff_eq, h22, h5B, h7B, h74, h66, h6E, if_false, specNumTest, hn, Bool.false_eq_true]
    exact val_other hat h7B h5B (by simpa using hn) h74 h66 h6E h22

end Sonic.Proofs.Parse
