import Sonic.Proofs.ParseSimMain

/-!
# Simulation: the induction steps for values and array elements
-/
namespace Sonic.Proofs.Parse
open Sonic.Gen Sonic.Spec Sonic.Model.Parse

theorem landed_cons {bs pad : List Nat} {g : Frame} {rest' : List Frame} {e : Nat} {cfg : PState × Option Label}
    {node : Node} (h : Landed bs pad (g :: rest') e cfg node) :
    ∃ c', cfg = (cfg.1, some (contOf g c')) ∧
      At bs pad .cont cfg.1 (pushItem node (g :: rest')) (Json.skipWs bs bs.length e) c' := by
  obtain ⟨c', h1, h2⟩ := h
  obtain ⟨s', l'⟩ := cfg
  simp only at h1
  subst h1
  exact ⟨c', rfl, h2⟩

theorem value_step {W : Nat} {bs pad : List Nat} (ctx : Ctx W bs pad) (hnum : NumberOK bs) (fuel : Nat)
    (ihE : ElemsSim W bs pad fuel) (ihM : MembersSim W bs pad fuel) : ValueSim W bs pad (fuel + 1) := by
  intro s f rest p c hat hfuel
  rcases hat.tok_bs with ⟨hp, hbp⟩ | ⟨hpL, hcx, hbn⟩
  case inr =>
    rw [Json.parseValue, hbn]
    subst hcx
    exact val_other hat (by decide) (by decide) (by decide) (by decide) (by decide) (by decide) (by decide)
  by_cases h22 : c = 0x22
  · subst h22
    rw [Json.parseValue, hbp]
    simp only [Nat.reduceBEq, Bool.false_eq_true, if_false, if_true]
    exact val_str ctx hat rfl
  by_cases h5B : c = 0x5B
  · subst h5B
    rw [Json.parseValue, hbp]
    simp only [Nat.reduceBEq, Bool.false_eq_true, if_false, if_true]
    have hvs : valueSwitch W s 0x5B (contOf f) = openArr s := rfl
    rcases openArr_ok ctx.hL hat.inv hat.pos hp with ⟨hfull, s', hop, hfin⟩ | ⟨hlt, c1, htok1, hcase⟩
    · exact ValGoal_of_full hfull (ErrT.now (by rw [hvs, hop]) hfin (by omega)) _
    · have hq1 := skipWs_ge bs (pos := p + 1) (by omega)
      have htest := tok_test htok1 hq1.2 0x5D (by decide)
      rcases hcase with ⟨hc1, hq1L, cfg, hop, hland, hpres⟩ | ⟨hc1, s2, hop, hat2, hpres, hnp, hcap⟩
      · rw [if_pos (htest.mpr hc1)]
        obtain ⟨c', hcfg, hat'⟩ := landed_cons hland
        exact Or.inl ⟨0, cfg.1, .arr [], c', ⟨cfg, by rw [hvs, hop], by rw [← hcfg]; exact Reaches.refl _⟩, hat',
          GoodAt.arr (GoodList.nil _), hpres, by omega, by omega⟩
      · rw [if_neg (fun h => hc1 (htest.mp h))]
        have hE := ihE s2 ⟨true, []⟩ (f :: rest) _ c1 [] rfl hat2 (GoodList.nil _) (by omega)
        cases hres : Json.parseElems bs fuel (Json.skipWs bs bs.length (p + 1)) with
        | error e =>
          rw [hres] at hE
          exact ErrT.ofR (by rw [hvs, hop]) hE (by omega)
        | ok x =>
          obtain ⟨xs, e⟩ := x
          rw [hres] at hE
          have hpe := (spec_progress hnum fuel _).2.1 xs e hres
          rcases hE with ⟨k, cfg, node, hreach, hland, hgood, hpres2, hk, he⟩ | ⟨hErr, hncap⟩
          · obtain ⟨c', hcfg, hat'⟩ := landed_cons hland
            refine Or.inl ⟨k, cfg.1, node, c', ⟨_, by rw [hvs, hop], by rw [← hcfg]; exact hreach⟩, hat', ?_,
              hpres.trans hpres2, by omega, he⟩
            simpa using hgood
          · refine Or.inr (Or.inl ⟨ErrT.ofR (by rw [hvs, hop]) hErr (by omega), fun hcv => hncap ?_⟩)
            unfold CapV at hcv
            unfold CapE
            omega
  by_cases h7B : c = 0x7B
  · subst h7B
    rw [Json.parseValue, hbp]
    simp only [Nat.reduceBEq, Bool.false_eq_true, if_false, if_true]
    have hvs : valueSwitch W s 0x7B (contOf f) = openObj s := rfl
    rcases openObj_ok ctx.hL hat.inv hat.pos hp with ⟨hfull, s', hop, hfin⟩ | ⟨hlt, c1, htok1, hcase⟩
    · exact ValGoal_of_full hfull (ErrT.now (by rw [hvs, hop]) hfin (by omega)) _
    · have hq1 := skipWs_ge bs (pos := p + 1) (by omega)
      have htest := tok_test htok1 hq1.2 0x7D (by decide)
      rcases hcase with ⟨hc1, hq1L, cfg, hop, hland, hpres⟩ | ⟨hc1, s2, hop, hat2, hpres, hnp, hcap⟩
      · rw [if_pos (htest.mpr hc1)]
        obtain ⟨c', hcfg, hat'⟩ := landed_cons hland
        exact Or.inl ⟨0, cfg.1, .obj [], c', ⟨cfg, by rw [hvs, hop], by rw [← hcfg]; exact Reaches.refl _⟩, hat',
          GoodAt.obj (GoodMem.nil _), hpres, by omega, by omega⟩
      · rw [if_neg (fun h => hc1 (htest.mp h))]
        have hE := ihM s2 ⟨false, []⟩ (f :: rest) _ c1 [] rfl hat2 (GoodMem.nil _) (by omega)
        cases hres : Json.parseMembers bs fuel (Json.skipWs bs bs.length (p + 1)) with
        | error e =>
          rw [hres] at hE
          exact ErrT.ofR (by rw [hvs, hop]) hE (by omega)
        | ok x =>
          obtain ⟨xs, e⟩ := x
          rw [hres] at hE
          have hpe := (spec_progress hnum fuel _).2.2 xs e hres
          rcases hE with ⟨k, cfg, node, hreach, hland, hgood, hpres2, hk, he⟩ | ⟨hErr, hncap⟩
          · obtain ⟨c', hcfg, hat'⟩ := landed_cons hland
            refine Or.inl ⟨k, cfg.1, node, c', ⟨_, by rw [hvs, hop], by rw [← hcfg]; exact hreach⟩, hat', ?_,
              hpres.trans hpres2, by omega, he⟩
            simpa using hgood
          · refine Or.inr (Or.inl ⟨ErrT.ofR (by rw [hvs, hop]) hErr (by omega), fun hcv => hncap ?_⟩)
            unfold CapV at hcv
            unfold CapE
            omega
  by_cases h74 : c = 0x74
  · subst h74
    rw [Json.parseValue, hbp]
    simp only [Nat.reduceBEq, Bool.false_eq_true, if_false, if_true]
    exact val_lit3 hat 0x74 0x72 0x75 0x65 rfl (by decide) (by decide) (by decide) (by decide) (.bool true) rfl
      (.bool true) (fun _ => rfl) rfl
  by_cases h66 : c = 0x66
  · subst h66
    rw [Json.parseValue, hbp]
    simp only [Nat.reduceBEq, Bool.false_eq_true, if_false, if_true]
    exact val_false hat rfl
  by_cases h6E : c = 0x6E
  · subst h6E
    rw [Json.parseValue, hbp]
    simp only [Nat.reduceBEq, Bool.false_eq_true, if_false, if_true]
    exact val_lit3 hat 0x6E 0x75 0x6C 0x6C rfl (by decide) (by decide) (by decide) (by decide) .null rfl
      .null (fun _ => rfl) rfl
  by_cases hn : isNumStart c = true
  · rw [Json.parseValue, hbp]
    simp only [beq_iff_eq, h22, h5B, h7B, h74, h66, h6E, if_false, specNumTest, hn, if_true]
    exact val_num ctx hnum hat hn
  · rw [Json.parseValue, hbp]
    simp only [beq_iff_eq, h22, h5B, h7B, h74, h66, h6E, if_false, specNumTest, hn, Bool.false_eq_true]
    exact val_other hat h7B h5B (by simpa using hn) h74 h66 h6E h22

theorem contOf_arr {f : Frame} (hf : f.isArr = true) : contOf f = Label.arrCont := by
  unfold contOf; rw [hf]; rfl
theorem contOf_obj {f : Frame} (hf : f.isArr = false) : contOf f = Label.objCont := by
  unfold contOf; rw [hf]; rfl

theorem elems_step {W : Nat} {bs pad : List Nat} (ctx : Ctx W bs pad) (hnum : NumberOK bs) (fuel : Nat)
    (ihV : ValueSim W bs pad fuel) (ihE : ElemsSim W bs pad fuel) : ElemsSim W bs pad (fuel + 1) := by
  intro s f rest p c dvals hf hat hgood hfuel
  rw [Json.parseElems]
  have hstep : step W s (.arrVal c) = valueSwitch W s c (contOf f) := by rw [contOf_arr hf]; rfl
  have hV := ihV s f rest p c hat (by omega)
  cases hv : Json.parseValue bs fuel p with
  | error e =>
    rw [hv] at hV
    exact ErrT.step hstep hV
  | ok x =>
    obtain ⟨v, next⟩ := x
    rw [hv] at hV
    simp only
    have hvp := (spec_progress hnum fuel p).1 v next hv
    have hq := skipWs_ge bs (pos := next) hvp.2
    rcases hV with ⟨k, s', node, c', ⟨cfg0, hcfg0, hreach⟩, hat', hgood', hpres, hk, hnl⟩ | ⟨hErr, hncap⟩ |
        ⟨hErr, hdoom⟩
    · -- the element has been pushed; `c'` is the token after it
      have hreach1 : Reaches W (k + 1) (s, some (.arrVal c)) (s', some (.arrCont c')) := by
        have := Reaches.step (by rw [hstep, hcfg0]) hreach
        rwa [contOf_arr hf] at this
      have ht5D := tok_test hat'.tok hat'.le 0x5D (by decide)
      have ht2C := tok_test hat'.tok hat'.le 0x2C (by decide)
      have hnp := hat.np_push hat'
      have hgl : GoodList s' (f.items ++ [node]) (dvals ++ [v]) := (hgood.mono hpres).snoc hgood'
      rcases arrCont_step (W := W) ctx.hL hat' hf with ⟨hc, hqL, s2, c2, hst, hat2, hpres2, hsax⟩ |
          ⟨hc, hqL, cfg, hst, hland, hpres2⟩ | ⟨hc1, hc2, s3, hst, hfin⟩
      · -- `,`
        rw [if_neg (fun h => by have := ht5D.mp h; omega), if_pos (ht2C.mpr hc)]
        have hq2 := skipWs_ge bs (pos := Json.skipWs bs bs.length next + 1) (by omega)
        have hreach2 : Reaches W (k + 1 + 1) (s, some (.arrVal c)) (s2, some (.arrVal c2)) :=
          hreach1.trans (Reaches.step hst (Reaches.refl _))
        have hE := ihE s2 { f with items := f.items ++ [node] } rest _ c2 (dvals ++ [v]) hf hat2
          (hgl.mono hpres2) (by omega)
        cases hres : Json.parseElems bs fuel (Json.skipWs bs bs.length (Json.skipWs bs bs.length next + 1)) with
        | error e =>
          rw [hres] at hE
          exact ErrT.prepend hreach2 hE (by omega)
        | ok y =>
          obtain ⟨vs, e⟩ := y
          rw [hres] at hE
          have hpe := (spec_progress hnum fuel _).2.1 vs e hres
          rcases hE with ⟨k2, cfg, node2, hr2, hland, hg2, hp2, hk2, he⟩ | ⟨hErr, hncap⟩
          · refine Or.inl ⟨k + 1 + 1 + k2, cfg, node2, hreach2.trans hr2, hland, ?_, (hpres.trans hpres2).trans hp2,
              by omega, he⟩
            simpa using hg2
          · refine Or.inr ⟨ErrT.prepend hreach2 hErr (by omega), fun hcv => hncap ?_⟩
            unfold CapE at hcv ⊢
            rw [hsax, hnp.1, hnp.2]
            omega
      · -- `]`
        rw [if_pos (ht5D.mpr hc)]
        refine Or.inl ⟨k + 1 + 1, cfg, .arr (f.items ++ [node]), hreach1.trans (Reaches.step hst (Reaches.refl _)),
          hland, GoodAt.arr (hgl.mono hpres2), hpres.trans hpres2, by omega, by omega⟩
      · -- anything else
        rw [if_neg (fun h => hc2 (ht5D.mp h)), if_neg (fun h => hc1 (ht2C.mp h))]
        exact ⟨k + 1 + 1, s3, ⟨_, rfl, hreach1.trans (Reaches.step hst (Reaches.refl _))⟩, hfin, by omega⟩
    · -- the stack was exhausted inside the element
      have hE := ErrT.step hstep hErr
      by_cases hb1 : (bs[Json.skipWs bs bs.length next]? == some 93) = true
      · rw [if_pos hb1]
        refine Or.inr ⟨hE, fun hcv => hncap ?_⟩
        unfold CapE at hcv
        unfold CapV
        omega
      · rw [if_neg hb1]
        by_cases hb2 : (bs[Json.skipWs bs bs.length next]? == some 44) = true
        · rw [if_pos hb2]
          have hql := lt_of_get_some (beq_some_iff.mp hb2)
          have hq2 := skipWs_ge bs (pos := Json.skipWs bs bs.length next + 1) (by omega)
          cases hres : Json.parseElems bs fuel (Json.skipWs bs bs.length (Json.skipWs bs bs.length next + 1)) with
          | error e => exact hE
          | ok y =>
            obtain ⟨vs, e⟩ := y
            have hpe := (spec_progress hnum fuel _).2.1 vs e hres
            refine Or.inr ⟨hE, fun hcv => hncap ?_⟩
            unfold CapE at hcv
            unfold CapV
            omega
        · rw [if_neg hb2]
          exact hE
    · -- a doomed number: its next byte is neither `]` nor `,`
      obtain ⟨d, hdd, hsp, hd1, hd2, _⟩ := hdoom.notWs
      rw [skipWs_fix hdd hsp, hdd]
      rw [if_neg (by simp only [beq_iff_eq, Option.some.injEq]; exact hd2),
        if_neg (by simp only [beq_iff_eq, Option.some.injEq]; exact hd1)]
      exact ErrT.step hstep hErr

end Sonic.Proofs.Parse
