import Sonic.Proofs.DecQ

/-!
# The invariant of `DecimalToF64` and its preservation by the shifts

`x` is the exact positive rational the text denotes; after shifts by a total of `s` bits the decimal `d` stands for
`x·2^s`.  Truncation to 800 digits only ever floors, and the key fact is that no "simple" binary number
`g = M·2^q` (`M < 2^54`) with `g ≤ x < 2g` is ever crossed by the flooring: it stays `≤ val d` (scaled).
-/
namespace Sonic.Proofs.Dec

open Sonic.Model.BigDecimal

set_option exponentiation.threshold 2000 in
theorem pow_bound (dp t : ℤ) (ht0 : 0 < t) (ht : t ≤ 1110) (h : (10 : ℚ) ^ (dp - 1) < 2 ^ (55 - t)) :
    t + dp ≤ 800 := by
  by_contra hcon
  have hge : 801 - t ≤ dp := by omega
  have h1 : (10 : ℚ) ^ (800 - t) ≤ 10 ^ (dp - 1) := zpow_le_zpow_right₀ (by norm_num) (by omega)
  have h2 : (10 : ℚ) ^ (800 - t) < 2 ^ (55 - t) := lt_of_le_of_lt h1 h
  obtain ⟨u, hu⟩ : ∃ u : ℕ, t = 1110 - (u : ℤ) := ⟨(1110 - t).toNat, by omega⟩
  have e1 : (800 : ℤ) - t = (u : ℤ) - 310 := by omega
  have e2 : (55 : ℤ) - t = (u : ℤ) - 1055 := by omega
  have e3 : (10 : ℚ) ^ (310 : ℤ) = 10 ^ (310 : ℕ) := zpow_natCast (10 : ℚ) 310
  have e4 : (2 : ℚ) ^ (1055 : ℤ) = 2 ^ (1055 : ℕ) := zpow_natCast (2 : ℚ) 1055
  rw [e1, e2, zpow_sub₀ ten_ne, zpow_sub₀ two_ne, zpow_natCast, zpow_natCast, e3, e4] at h2
  have h3 : (10 : ℚ) ^ u * 2 ^ (1055 : ℕ) < 2 ^ u * 10 ^ (310 : ℕ) := by
    rw [div_lt_div_iff₀ (by positivity) (by positivity)] at h2
    exact h2
  have h10 : (10 : ℚ) ^ u = 2 ^ u * 5 ^ u := by rw [← mul_pow]; norm_num
  rw [h10] at h3
  have h5 : (1 : ℚ) ≤ 5 ^ u := one_le_pow₀ (by norm_num)
  have h2u : (0 : ℚ) < 2 ^ u := by positivity
  have h4 : (5 : ℚ) ^ u * 2 ^ (1055 : ℕ) < 10 ^ (310 : ℕ) := by
    have : (2 : ℚ) ^ u * (5 ^ u * 2 ^ (1055 : ℕ)) < 2 ^ u * 10 ^ (310 : ℕ) := by linarith
    exact lt_of_mul_lt_mul_left this h2u.le
  have h6 : (2 : ℚ) ^ (1055 : ℕ) ≤ 5 ^ u * 2 ^ (1055 : ℕ) :=
    le_mul_of_one_le_left (by positivity) h5
  have h7 : (2 : ℚ) ^ (1055 : ℕ) < 10 ^ (310 : ℕ) := lt_of_le_of_lt h6 h4
  have h8 : (2 : ℕ) ^ 1055 < 10 ^ 310 := by exact_mod_cast h7
  exact absurd h8 (by decide)

/-- an integer multiple of the grid that is `≤ T` is `≤` the floor of `T` on the grid -/
theorem le_floor_of_mult (T u : ℚ) (hu : 0 < u) (N K : ℕ) (hfl : T < (N : ℚ) * u + u) (hK : (K : ℚ) * u ≤ T) :
    (K : ℚ) * u ≤ (N : ℚ) * u := by
  have h1 : (K : ℚ) * u < ((N : ℚ) + 1) * u := by linarith
  have h2 : (K : ℚ) < (N : ℚ) + 1 := lt_of_mul_lt_mul_right h1 hu.le
  have h3 : K < N + 1 := by exact_mod_cast h2
  have h4 : (K : ℚ) ≤ (N : ℚ) := by exact_mod_cast (Nat.lt_succ_iff.1 h3)
  exact mul_le_mul_of_nonneg_right h4 hu.le

set_option exponentiation.threshold 2000 in
/-- **Flooring to 800 digits does not cross a simple binary number.**  If `v` is `T` floored to the grid
    `10^(dp-800)` (`v`'s leading digit is at `10^(dp-1)`), then every `g = M·2^a` with `M < 2^54` and `g ≤ T < 2g`
    is still `≤ v` — because `g` itself lies on the grid (it has few enough decimal digits). -/
theorem floor_grid (T v : ℚ) (dp : ℤ) (N : ℕ) (hvN : v = (N : ℚ) * 10 ^ (dp - 800)) (hvT : v ≤ T)
    (hfl : T < v + 10 ^ (dp - 800)) (hlead : (10 : ℚ) ^ (dp - 1) ≤ v) (hdp : dp ≤ 310)
    (M : ℕ) (a : ℤ) (hM : M < 2 ^ 54) (ha : -1110 ≤ a ∨ -30 ≤ dp) (hg : (M : ℚ) * 2 ^ a ≤ T)
    (hT2 : T < 2 * ((M : ℚ) * 2 ^ a)) : (M : ℚ) * 2 ^ a ≤ v := by
  have hu : (0 : ℚ) < 10 ^ (dp - 800) := by positivity
  rw [hvN] at hfl ⊢
  -- it suffices to write `g` as a multiple of the grid
  suffices hK : ∃ K : ℕ, (M : ℚ) * 2 ^ a = (K : ℚ) * 10 ^ (dp - 800) by
    obtain ⟨K, hK⟩ := hK
    rw [hK] at hg ⊢
    exact le_floor_of_mult T _ hu N K hfl hg
  by_cases ha0 : 0 ≤ a
  · obtain ⟨an, han⟩ : ∃ an : ℕ, a = (an : ℤ) := ⟨a.toNat, by omega⟩
    obtain ⟨e, he⟩ : ∃ e : ℕ, (800 : ℤ) - dp = (e : ℤ) := ⟨(800 - dp).toNat, by omega⟩
    refine ⟨M * 2 ^ an * 10 ^ e, ?_⟩
    push_cast
    rw [han, zpow_natCast, mul_assoc ((M : ℚ) * 2 ^ an), ← zpow_natCast (10 : ℚ) e, ← zpow_add₀ ten_ne,
      show (e : ℤ) + (dp - 800) = 0 by omega]
    simp
  · obtain ⟨t, htdef⟩ : ∃ t : ℕ, a = -(t : ℤ) := ⟨(-a).toNat, by omega⟩
    have htpos : 0 < t := by omega
    have hMq : (M : ℚ) < 2 ^ (54 : ℕ) := by exact_mod_cast hM
    have h2t : (0 : ℚ) < 2 ^ a := by positivity
    have hTlt : T < 2 ^ ((55 : ℤ) - t) := by
      have e : (2 : ℚ) ^ ((55 : ℤ) - t) = 2 * (2 ^ (54 : ℕ) * 2 ^ a) := by
        rw [htdef, show (55 : ℤ) - t = 1 + ((54 : ℕ) : ℤ) + -(t : ℤ) by omega, zpow_add₀ two_ne, zpow_add₀ two_ne,
          zpow_natCast, zpow_one]
        ring
      rw [e]
      have : (M : ℚ) * 2 ^ a < 2 ^ (54 : ℕ) * 2 ^ a := mul_lt_mul_of_pos_right hMq h2t
      linarith
    have hlead2 : (10 : ℚ) ^ (dp - 1) < 2 ^ ((55 : ℤ) - t) := by
      have : (10 : ℚ) ^ (dp - 1) ≤ T := by rw [hvN] at hlead; linarith
      linarith
    have ht1110 : (t : ℤ) ≤ 1110 := by
      rcases ha with h | h
      · omega
      · by_contra hbig
        have h1 : (10 : ℚ) ^ (-31 : ℤ) ≤ 10 ^ (dp - 1) := zpow_le_zpow_right₀ (by norm_num) (by omega)
        have h2 : (2 : ℚ) ^ ((55 : ℤ) - t) ≤ 2 ^ (-1055 : ℤ) := zpow_le_zpow_right₀ (by norm_num) (by omega)
        have h3 : (10 : ℚ) ^ (-31 : ℤ) < 2 ^ (-1055 : ℤ) := by linarith
        rw [zpow_neg, zpow_neg, show ((31 : ℤ)) = ((31 : ℕ) : ℤ) by rfl, show ((1055 : ℤ)) = ((1055 : ℕ) : ℤ) by rfl,
          zpow_natCast, zpow_natCast, inv_lt_inv₀ (by positivity) (by positivity)] at h3
        have h4 : (2 : ℕ) ^ 1055 < 10 ^ 31 := by exact_mod_cast h3
        exact absurd h4 (by decide)
    have hsum := pow_bound dp t (by omega) ht1110 hlead2
    obtain ⟨e, he⟩ : ∃ e : ℕ, (800 : ℤ) - dp - t = (e : ℤ) := ⟨(800 - dp - t).toNat, by omega⟩
    refine ⟨M * 5 ^ t * 10 ^ e, ?_⟩
    push_cast
    have h25 : (2 : ℚ) ^ a = 5 ^ t * 10 ^ (-(t : ℤ)) := by
      rw [htdef, zpow_neg, zpow_neg, zpow_natCast, zpow_natCast]
      have : (10 : ℚ) ^ t = 2 ^ t * 5 ^ t := by rw [← mul_pow]; norm_num
      rw [this]
      field_simp
    rw [h25, mul_assoc ((M : ℚ) * 5 ^ t), ← zpow_natCast (10 : ℚ) e, ← zpow_add₀ ten_ne,
      show (e : ℤ) + (dp - 800) = -(t : ℤ) by omega]
    ring

/-- the invariant: after a total shift of `s` bits the decimal `d` stands for `x·2^s` -/
structure Inv (x : ℚ) (d : Decimal) (s : ℤ) : Prop where
  wf : WF d
  pos : 0 < Dnat d
  le : val d ≤ x * 2 ^ s
  exact : d.trunc = false → val d = x * 2 ^ s
  strict : d.trunc = true → val d < x * 2 ^ s
  grid : ∀ (M : ℕ) (q : ℤ), M < 2 ^ 54 → -1110 ≤ q → (M : ℚ) * 2 ^ q ≤ x → x < 2 * ((M : ℚ) * 2 ^ q) →
    (M : ℚ) * 2 ^ (q + s) ≤ val d
  rng : 0 ≤ s ∨ -30 ≤ d.dp
  dphi : d.dp ≤ 310

theorem inv_step (x : ℚ) (hx : 0 < x) (d d' : Decimal) (s j : ℤ) (h : Inv x d s) (hwf : WF d') (hpos : 0 < Dnat d')
    (hstep : StepQ (val d * 2 ^ j) d.trunc d') (hrng : 0 ≤ s + j ∨ -30 ≤ d'.dp) (hdp : d'.dp ≤ 310) :
    Inv x d' (s + j) := by
  obtain ⟨h1, h2, h3⟩ := hstep
  have h2j : (0 : ℚ) < 2 ^ j := by positivity
  have hxs : x * 2 ^ (s + j) = x * 2 ^ s * 2 ^ j := by rw [zpow_add₀ two_ne]; ring
  have hTle : val d * 2 ^ j ≤ x * 2 ^ (s + j) := by
    rw [hxs]; exact mul_le_mul_of_nonneg_right h.le h2j.le
  refine ⟨hwf, hpos, le_trans h1 hTle, ?_, ?_, ?_, hrng, hdp⟩
  · intro htr
    rcases h3 with ⟨e1, e2⟩ | ⟨e1, _⟩
    · rw [e2, hxs, h.exact (by rw [← e1]; exact htr)]
    · rw [e1] at htr; cases htr
  · intro htr
    rcases h3 with ⟨e1, e2⟩ | ⟨_, e2⟩
    · rw [e2, hxs]
      exact mul_lt_mul_of_pos_right (h.strict (by rw [← e1]; exact htr)) h2j
    · exact lt_of_lt_of_le e2 hTle
  · intro M q hM hq hg hx2
    obtain ⟨hlead, _, N, hN⟩ := val_bounds d' hwf hpos
    have hold := h.grid M q hM hq hg hx2
    have e : (M : ℚ) * 2 ^ (q + (s + j)) = (M : ℚ) * 2 ^ (q + s) * 2 ^ j := by
      rw [show q + (s + j) = (q + s) + j by ring, zpow_add₀ two_ne]; ring
    apply floor_grid (val d * 2 ^ j) (val d') d'.dp N hN h1 h2 hlead hdp M (q + (s + j)) hM
    · rcases hrng with hr | hr
      · left; omega
      · right; exact hr
    · rw [e]; exact mul_le_mul_of_nonneg_right hold h2j.le
    · have : x * 2 ^ (s + j) < 2 * ((M : ℚ) * 2 ^ q) * 2 ^ (s + j) :=
        mul_lt_mul_of_pos_right hx2 (by positivity)
      have e2 : 2 * ((M : ℚ) * 2 ^ q) * 2 ^ (s + j) = 2 * ((M : ℚ) * 2 ^ (q + (s + j))) := by
        rw [zpow_add₀ two_ne q]; ring
      rw [← e2]
      exact lt_of_le_of_lt hTle this

theorem nd_pos_of_dnat (d : Decimal) (h : 0 < Dnat d) : d.nd ≠ 0 := by
  intro h0; unfold Dnat at h; rw [h0] at h; simp [dval] at h

theorem decimalShift_left (d : Decimal) (k : Nat) (hnd : d.nd ≠ 0) (hk1 : 1 ≤ k) (hk : k ≤ 60) :
    decimalShift d (k : ℤ) = leftShift d k := by
  unfold decimalShift
  rw [if_neg (by omega), if_pos (by omega), Int.toNat_natCast, shiftLeftBy, if_neg (by unfold maxShift; omega),
    if_pos (by omega)]

theorem decimalShift_right (d : Decimal) (k : Nat) (hnd : d.nd ≠ 0) (hk1 : 1 ≤ k) (hk : k ≤ 60) :
    decimalShift d (-(k : ℤ)) = rightShift d k := by
  unfold decimalShift
  rw [if_neg (by omega), if_neg (by omega), show (-(-(k : ℤ))).toNat = k by omega, shiftRightBy,
    if_neg (by unfold maxShift; omega), if_pos (by omega)]

theorem decimalShift_right2 (d : Decimal) (k : Nat) (hnd : d.nd ≠ 0) (hk1 : 60 < k) (hk : k ≤ 120) :
    decimalShift d (-(k : ℤ)) = rightShift (rightShift d 60) (k - 60) := by
  unfold decimalShift
  rw [if_neg (by omega), if_neg (by omega), show (-(-(k : ℤ))).toNat = k by omega, shiftRightBy,
    if_pos (by unfold maxShift; omega)]
  obtain ⟨f, hf⟩ : ∃ f, k = f + 1 := ⟨k - 1, by omega⟩
  rw [hf, shiftRightBy, if_neg (by unfold maxShift; omega), if_pos (by unfold maxShift; omega)]
  rfl

theorem inv_leftShift (x : ℚ) (hx : 0 < x) (d : Decimal) (s : ℤ) (k : Nat) (h : Inv x d s) (hk1 : 1 ≤ k) (hk : k ≤ 60)
    (hsmall : val d * 2 ^ k ≤ 2 ^ (53 : ℕ)) :
    Inv x (leftShift d k) (s + k) ∧ (leftShift d k).neg = d.neg ∧ Trimmed (leftShift d k) ∧
    d.dp ≤ (leftShift d k).dp ∧ StepQ (val d * 2 ^ k) d.trunc (leftShift d k) := by
  obtain ⟨h1, h2, h3, h4, h5⟩ := leftShift_Q d k h.wf h.pos hk1 hk
  obtain ⟨hlead', hhi', _⟩ := val_bounds _ h1 h3
  obtain ⟨hlead, hhi, _⟩ := val_bounds d h.wf h.pos
  have hv : (0 : ℚ) < val d := lt_of_lt_of_le (by positivity) hlead
  -- the decimal point does not move left
  have hdpge : d.dp ≤ (leftShift d k).dp := by
    by_contra hcon
    have hle : (leftShift d k).dp ≤ d.dp - 1 := by omega
    have a1 : val (leftShift d k) < val d :=
      lt_of_lt_of_le hhi' (le_trans (zpow_le_zpow_right₀ (by norm_num) hle) hlead)
    have a2 : (10 : ℚ) ^ ((leftShift d k).dp - 800) ≤ val (leftShift d k) :=
      le_trans (zpow_le_zpow_right₀ (by norm_num) (by omega)) hlead'
    have a3 : (2 : ℚ) ≤ 2 ^ k := by
      calc (2 : ℚ) = 2 ^ 1 := by norm_num
        _ ≤ 2 ^ k := pow_le_pow_right₀ (by norm_num) hk1
    have a4 : val d * 2 ≤ val d * 2 ^ k := mul_le_mul_of_nonneg_left a3 hv.le
    have := h5.2.1
    linarith
  have hdphi : (leftShift d k).dp ≤ 310 := by
    by_contra hcon
    have a1 : (10 : ℚ) ^ (16 : ℤ) ≤ 10 ^ ((leftShift d k).dp - 1) := zpow_le_zpow_right₀ (by norm_num) (by omega)
    have a2 : val (leftShift d k) ≤ 2 ^ (53 : ℕ) := le_trans h5.1 hsmall
    have a3 : (10 : ℚ) ^ (16 : ℤ) ≤ 2 ^ (53 : ℕ) := by linarith
    norm_num at a3
  have hstep : StepQ (val d * 2 ^ ((k : ℕ) : ℤ)) d.trunc (leftShift d k) := by rw [zpow_natCast]; exact h5
  refine ⟨inv_step x hx d _ s k h h1 h3 hstep ?_ hdphi, h2, h4, hdpge, h5⟩
  rcases h.rng with hr | hr
  · left; omega
  · right; omega

theorem inv_rightShift (x : ℚ) (hx : 0 < x) (d : Decimal) (s : ℤ) (k : Nat) (h : Inv x d s) (hk : k ≤ 60)
    (hr : 0 ≤ s - k ∨ (10 : ℚ) ^ (-29 : ℤ) ≤ val d / 2 ^ k) :
    Inv x (rightShift d k) (s - k) ∧ (rightShift d k).neg = d.neg ∧ Trimmed (rightShift d k) ∧
    (rightShift d k).dp ≤ d.dp ∧ StepQ (val d / 2 ^ k) d.trunc (rightShift d k) := by
  obtain ⟨h1, h2, h3, h4, h5⟩ := rightShift_Q d k h.wf h.pos hk
  obtain ⟨hlead', hhi', _⟩ := val_bounds _ h1 h3
  obtain ⟨hlead, hhi, _⟩ := val_bounds d h.wf h.pos
  have hv : (0 : ℚ) < val d := lt_of_lt_of_le (by positivity) hlead
  have h2k : (1 : ℚ) ≤ 2 ^ k := one_le_pow₀ (by norm_num)
  have hTle : val d / 2 ^ k ≤ val d := div_le_self hv.le h2k
  have hdple : (rightShift d k).dp ≤ d.dp := by
    by_contra hcon
    have a1 : (10 : ℚ) ^ d.dp ≤ 10 ^ ((rightShift d k).dp - 1) := zpow_le_zpow_right₀ (by norm_num) (by omega)
    have := h5.1
    linarith
  have hstep : StepQ (val d * 2 ^ (-(k : ℤ))) d.trunc (rightShift d k) := by
    rw [zpow_neg, zpow_natCast, ← div_eq_mul_inv]; exact h5
  have hrng : 0 ≤ s + -(k : ℤ) ∨ -30 ≤ (rightShift d k).dp := by
    rcases hr with hr | hr
    · left; omega
    · right
      by_contra hcon
      have a1 : (10 : ℚ) ^ ((rightShift d k).dp - 800) ≤ val (rightShift d k) :=
        le_trans (zpow_le_zpow_right₀ (by norm_num) (by omega)) hlead'
      have a2 : val (rightShift d k) < 10 ^ (-31 : ℤ) :=
        lt_of_lt_of_le hhi' (zpow_le_zpow_right₀ (by norm_num) (by omega))
      have a3 := h5.2.1
      have a5 : val d / 2 ^ k < 2 * val (rightShift d k) := by linarith
      have a6 : val d / 2 ^ k < 2 * 10 ^ (-31 : ℤ) :=
        lt_trans a5 (mul_lt_mul_of_pos_left a2 (by norm_num))
      have a4 : (10 : ℚ) ^ (-29 : ℤ) < 2 * 10 ^ (-31 : ℤ) := lt_of_le_of_lt hr a6
      norm_num at a4
  have := inv_step x hx d _ s (-(k : ℤ)) h h1 h3 hstep hrng (by have := h.dphi; omega)
  rw [show s + -(k : ℤ) = s - k by ring] at this
  exact ⟨this, h2, h4, hdple, h5⟩

end Sonic.Proofs.Dec
