import Sonic.Proofs.ParseMach

/-!
# Simulation of the reference reader by `parseImpl`: building blocks

`At ph s F p c`: the machine has just read the token `c` at index `p` (`pos_ = p + 1`) inside the open containers `F`.
`ErrFinal s`: a state in which `parseImpl` may return with an error: a parse error code, and a node stack whose
constructed part is well defined (so that `TearDown` is safe).
Then: pushing scalars, reading the next token, closing a container (`End*` + `scope_end`), opening one.
-/
namespace Sonic.Proofs.Parse
open Sonic.Gen Sonic.Spec Sonic.Model.Parse

structure At (bs pad : List Nat) (ph : Phase) (s : PState) (F : List Frame) (p c : Nat) : Prop where
  inv : MInv bs pad ph s F
  pos : s.pos = p + 1
  le : p ≤ bs.length
  tok : (paddedBuf bs pad)[p]? = some c
  suf : s.buf.drop p = (paddedBuf bs pad).drop p

theorem At.tok_bs {bs pad : List Nat} {ph : Phase} {s : PState} {F : List Frame} {p c : Nat}
    (h : At bs pad ph s F p c) : (p < bs.length ∧ bs[p]? = some c) ∨ (p = bs.length ∧ c = 0x78 ∧ bs[p]? = none) := by
  by_cases hp : p < bs.length
  · exact Or.inl ⟨hp, by rw [← B0_lt (pad := pad) hp]; exact h.tok⟩
  · have : p = bs.length := by have := h.le; omega
    subst this
    have := h.tok
    rw [B0_L] at this
    injection this with this
    exact Or.inr ⟨rfl, this.symm, List.getElem?_eq_none (Nat.le_refl _)⟩

/-- a token that is not `x` lies inside the input -/
theorem At.lt_of_ne {bs pad : List Nat} {ph : Phase} {s : PState} {F : List Frame} {p c : Nat}
    (h : At bs pad ph s F p c) (hc : c ≠ 0x78) : p < bs.length ∧ bs[p]? = some c := by
  rcases h.tok_bs with h1 | ⟨_, h2, _⟩
  · exact h1
  · exact absurd h2 hc

structure ErrFinal (bs : List Nat) (s : PState) : Prop where
  err : s.err = 2 ∨ s.err = 3 ∨ s.err = 4 ∨ s.err = 5 ∨ s.err = 6
  len : s.len = bs.length
  blen : s.buf.length = bs.length + 64
  cap : s.sax.cap = setUpCap bs.length
  st : ∃ ns, StackNodes s.sax ns ∧ s.sax.mallocs = allocsList ns

/-- `parseImpl` returns with an error after `k` more steps -/
def ErrT (W : Nat) (bs : List Nat) (r : StepResult) (p : Nat) : Prop :=
  ∃ k s', ReachesR W k r (s', none) ∧ ErrFinal bs s' ∧ k + p ≤ bs.length + 1

theorem ErrT.now {W : Nat} {bs : List Nat} {r : StepResult} {s' : PState} {p : Nat} (hr : r = .ok (s', none))
    (he : ErrFinal bs s') (hp : p ≤ bs.length + 1) : ErrT W bs r p :=
  ⟨0, s', ⟨_, hr, Reaches.refl _⟩, he, by omega⟩

/-- any state that keeps the buffer size and the stack of a state satisfying `MInv`, with an error code set -/
theorem MInv.errFinal {bs pad : List Nat} {ph : Phase} {s s' : PState} {F : List Frame} (h : MInv bs pad ph s F)
    (he : s'.err = 2 ∨ s'.err = 3 ∨ s'.err = 4 ∨ s'.err = 5 ∨ s'.err = 6) (h1 : s'.len = s.len)
    (h2 : s'.buf.length = s.buf.length) (h3 : s'.sax = s.sax) : ErrFinal bs s' :=
  ⟨he, by rw [h1]; exact h.b.len, by rw [h2]; exact h.b.blen, by rw [h3]; exact h.cap,
    ⟨nodesOf F, by rw [h3]; exact h.st.1, by rw [h3]; exact h.led⟩⟩

/-! ## pushing nodes -/

theorem allocsList_nodesOf_push (n : Node) (f : Frame) (rest : List Frame) :
    allocsList (nodesOf (pushItem n (f :: rest))) = allocsList (nodesOf (f :: rest)) + n.allocs := by
  rw [nodesOf_pushItem, allocsList_append]
  simp [allocsList]

/-- the stack after one more `SONIC_ADD_NODE` callback -/
def pushed (sax : Sax) (n : Node) : Sax := { sax with np := sax.np + 1, st := sax.st.set sax.np (some n) }

theorem MInv.push_val {bs pad : List Nat} {s s' : PState} {f : Frame} {rest : List Frame}
    (h : MInv bs pad .val s (f :: rest)) (hlt : s.sax.np < s.sax.cap) (n : Node) (hn : n.allocs = 0)
    (hb : BInv bs pad s') (he : s'.err = 0) (hd : s'.depth = s.depth) (hs : s'.sax = pushed s.sax n) :
    MInv bs pad .cont s' (pushItem n (f :: rest)) := by
  refine ⟨hb, he, by rw [hs]; exact h.st.push hlt n, by rw [hs]; exact h.cap, ?_, ?_⟩
  · rw [hs, allocsList_nodesOf_push, hn]; exact h.led
  · rw [hd]
    have := h.depth
    cases hdd : s.depth with
    | nil => rw [hdd] at this; exact this.elim
    | cons d ds =>
      rw [hdd] at this
      exact ⟨topOK_push_val n this.1, this.2⟩

theorem MInv.push_key {bs pad : List Nat} {s s' : PState} {f : Frame} {rest : List Frame}
    (h : MInv bs pad .key s (f :: rest)) (hlt : s.sax.np < s.sax.cap) (n : Node) (hn : n.allocs = 0)
    (hb : BInv bs pad s') (he : s'.err = 0) (hd : s'.depth = s.depth) (hs : s'.sax = pushed s.sax n) :
    MInv bs pad .val s' (pushItem n (f :: rest)) := by
  refine ⟨hb, he, by rw [hs]; exact h.st.push hlt n, by rw [hs]; exact h.cap, ?_, ?_⟩
  · rw [hs, allocsList_nodesOf_push, hn]; exact h.led
  · rw [hd]
    have := h.depth
    cases hdd : s.depth with
    | nil => rw [hdd] at this; exact this.elim
    | cons d ds =>
      rw [hdd] at this
      exact ⟨topOK_push_key n this.1, this.2⟩

/-- the error state after a callback declined (`node()` failed): stack unchanged -/
theorem MInv.errFull {bs pad : List Nat} {ph : Phase} {s s' : PState} {F : List Frame} (h : MInv bs pad ph s F)
    (he : s'.err = 2) (h1 : s'.len = s.len) (h2 : s'.buf.length = s.buf.length) (h3 : s'.sax = s.sax) :
    ErrFinal bs s' := h.errFinal (Or.inl he) h1 h2 h3

/-- the error state after a node has been pushed and an error code set -/
theorem MInv.errPushed {bs pad : List Nat} {ph : Phase} {s s' : PState} {F : List Frame} (h : MInv bs pad ph s F)
    (hlt : s.sax.np < s.sax.cap) (n : Node) (hn : n.allocs = 0)
    (he : s'.err = 2 ∨ s'.err = 3 ∨ s'.err = 4 ∨ s'.err = 5 ∨ s'.err = 6) (h1 : s'.len = s.len)
    (h2 : s'.buf.length = s.buf.length) (h3 : s'.sax = pushed s.sax n) : ErrFinal bs s' :=
  ⟨he, by rw [h1]; exact h.b.len, by rw [h2]; exact h.b.blen, by rw [h3]; exact h.cap,
    ⟨nodesOf F ++ [n], by rw [h3]; exact h.st.1.push hlt n, by
      rw [h3, allocsList_append]; simp only [pushed, allocsList, hn]; exact h.led⟩⟩

/-! ## reading the next token -/

theorem skip_at {bs pad : List Nat} {ph : Phase} {s : PState} {F : List Frame} (h : MInv bs pad ph s F)
    (hpos : s.pos ≤ bs.length) :
    ∃ c s', skip s = .ok (c, s') ∧ At bs pad ph s' F (Json.skipWs bs bs.length s.pos) c ∧ Pres s s' ∧
      s'.buf = s.buf ∧ s.pos ≤ Json.skipWs bs bs.length s.pos := by
  obtain ⟨c, k', hk, hb, hsuf, htok, _, _, h1, h2⟩ := skip_ok h.b hpos
  refine ⟨c, _, hk, ⟨⟨hb, h.err, h.st, h.cap, h.led, h.depth⟩, rfl, h2, htok, hsuf⟩, ⟨?_, rfl⟩, rfl, h1⟩
  simp only; omega

/-! ## closing a container: `End*` followed by `scope_end` -/

/-- `parseImpl` is about to return successfully: the root node is the only node on the stack -/
structure RootDone (bs pad : List Nat) (s : PState) (node : Node) (e : Nat) : Prop where
  err : s.err = 0
  b : BInv bs pad s
  pos : s.pos = e
  le : e ≤ bs.length
  st : StackNodes s.sax [node]
  led : s.sax.mallocs = node.allocs
  cap : s.sax.cap = setUpCap bs.length

/-- where the machine stands after the container whose text ends at `e` has been closed -/
def Landed (bs pad : List Nat) (rest : List Frame) (e : Nat) (cfg : PState × Option Label) (node : Node) : Prop :=
  match rest with
  | [] => cfg.2 = none ∧ RootDone bs pad cfg.1 node e
  | g :: rest' => ∃ c', cfg.2 = some (contOf g c') ∧
      At bs pad .cont cfg.1 (pushItem node (g :: rest')) (Json.skipWs bs bs.length e) c'

theorem allocsList_nodesOf_cons (f : Frame) (rest : List Frame) :
    allocsList (nodesOf (f :: rest)) = allocsList (nodesOf rest) + allocsList f.items := by
  simp only [nodesOf]
  rw [allocsList_append]
  simp [allocsList, Node.allocs]

theorem close_ok {bs pad : List Nat} (hL : bs.length + 4 < 2 ^ 32) {s : PState} {f : Frame} {rest : List Frame}
    {d : Nat} {ds : List Nat} {q : Nat}
    (hb : BInv bs pad s) (herr : s.err = 0) (hst : StackOK s.sax (f :: rest))
    (hcap : s.sax.cap = setUpCap bs.length) (hled : s.sax.mallocs = allocsList (nodesOf (f :: rest)))
    (hdep : s.depth = d :: ds) (hrest : RestOK ds rest) (hpos : s.pos = q + 1) (hq : q < bs.length)
    (mk : List Node → Node)
    (hmk : ∀ xs, (mk xs).allocs = (if xs.length = 0 then 0 else 1) + allocsList xs) :
    ∃ sax' cfg, s.sax.endContainer f.items.length mk = .ok sax' ∧ scopeEnd { s with sax := sax' } = .ok cfg ∧
      Landed bs pad rest (q + 1) cfg (mk f.items) ∧ Pres s cfg.1 ∧ cfg.1.buf = s.buf := by
  obtain ⟨sax', hend, hsn, hpar, hcap', hmal⟩ := endContainer_ok hst mk
  have hled' : sax'.mallocs = allocsList (nodesOf rest) + (mk f.items).allocs := by
    rw [hmal, hled, allocsList_nodesOf_cons, hmk]; omega
  cases rest with
  | nil =>
    cases ds with
    | cons _ _ => exact hrest.elim
    | nil =>
      refine ⟨sax', ({ s with sax := sax', depth := [] }, none), hend, ?_, ?_, ⟨Nat.le_refl _, rfl⟩, rfl⟩
      · unfold scopeEnd
        simp only [herr, kErrorNone, ne_eq, not_true_eq_false, if_false, hdep]
      · refine ⟨rfl, ⟨herr, ⟨hb.blen, hb.len, hb.suffix, hb.cache⟩, hpos, by omega, ?_, ?_, by rw [hcap']; exact hcap⟩⟩
        · simpa [nodesOf] using hsn
        · simpa [nodesOf, allocsList] using hled'
  | cons g rest' =>
    cases ds with
    | nil => exact hrest.elim
    | cons dg ds' =>
      obtain ⟨hg, hrest'⟩ := hrest
      have hnode := (mk f.items)
      have hglt : g.items.length < 2 ^ 31 := by
        have h1 := hst.1.np
        have h2 := hst.1.le
        rw [length_nodesOf] at h1
        simp only [lenOf] at h1
        have := setUpCap_lt hL
        omega
      have hM : MInv bs pad .cont { s with sax := sax', depth := dg :: ds' }
          (pushItem (mk f.items) (g :: rest')) := by
        refine ⟨⟨hb.blen, hb.len, hb.suffix, hb.cache⟩, herr, ⟨?_, ?_⟩, by simp only [hcap']; exact hcap, ?_,
          ⟨topOK_push_val _ hg, hrest'⟩⟩
        · rw [nodesOf_pushItem]; exact hsn
        · rw [parentOf_pushItem]; exact hpar
        · simp only; rw [allocsList_nodesOf_push]; exact hled'
      obtain ⟨c', s2, hsk, hat, hpres, hbuf, _⟩ := skip_at hM (by simp only [hpos]; omega)
      simp only [hpos] at hat
      refine ⟨sax', (s2, some (contOf g c')), hend, ?_, ⟨c', rfl, hat⟩, ⟨hpres.1, hpres.2⟩, hbuf⟩
      unfold scopeEnd
      simp only [herr] at hsk
      simp only [herr, kErrorNone, ne_eq, not_true_eq_false, if_false, hdep, hsk]
      rw [isArrFrame_val hg hglt]
      unfold contOf
      cases g.isArr <;> simp

theorem allocs_arr (xs : List Node) : (Node.arr xs).allocs = (if xs.length = 0 then 0 else 1) + allocsList xs := by
  cases xs <;> simp [Node.allocs]
theorem allocs_obj (xs : List Node) : (Node.obj xs).allocs = (if xs.length = 0 then 0 else 1) + allocsList xs := by
  cases xs <;> simp [Node.allocs]

theorem DepthOK.rest {D : List Nat} {F : List Frame} (h : DepthOK .val D F) : RestOK D F := by
  cases D with
  | nil => cases F with
    | nil => trivial
    | cons _ _ => exact h.elim
  | cons d ds => cases F with
    | nil => exact h.elim
    | cons f fs => exact h

/-! ## opening a container -/

theorem openArr_ok {bs pad : List Nat} (hL : bs.length + 4 < 2 ^ 32) {s : PState} {F : List Frame} {p : Nat}
    (h : MInv bs pad .val s F) (hpos : s.pos = p + 1) (hp : p < bs.length) :
    (¬ s.sax.np < s.sax.cap ∧ ∃ s', openArr s = .ok (s', none) ∧ ErrFinal bs s') ∨
    (s.sax.np < s.sax.cap ∧ ∃ c1, (paddedBuf bs pad)[Json.skipWs bs bs.length (p + 1)]? = some c1 ∧
      ((c1 = 0x5D ∧ Json.skipWs bs bs.length (p + 1) < bs.length ∧ ∃ cfg, openArr s = .ok cfg ∧
          Landed bs pad F (Json.skipWs bs bs.length (p + 1) + 1) cfg (.arr []) ∧ Pres s cfg.1) ∨
       (c1 ≠ 0x5D ∧ ∃ s2, openArr s = .ok (s2, some (.arrVal c1)) ∧
          At bs pad .val s2 (⟨true, []⟩ :: F) (Json.skipWs bs bs.length (p + 1)) c1 ∧ Pres s s2 ∧
          s2.sax.np = s.sax.np + 1 ∧ s2.sax.cap = s.sax.cap))) := by
  by_cases hlt : s.sax.np < s.sax.cap
  · refine Or.inr ⟨hlt, ?_⟩
    have hstart := start_ok h.st.1 hlt
    have hM : MInv bs pad .val
        { s with sax := { s.sax with np := s.sax.np + 1, st := s.sax.st.set s.sax.np (some (.hole s.sax.parent)),
                                     parent := s.sax.np }, depth := kArrMask :: s.depth } (⟨true, []⟩ :: F) := by
      refine ⟨⟨h.b.blen, h.b.len, h.b.suffix, h.b.cache⟩, h.err, h.st.start hlt true, h.cap, ?_, ?_⟩
      · simp only; rw [allocsList_nodesOf_cons]; simp only [allocsList]; exact h.led
      · exact ⟨⟨fun _ => rfl, fun hb => by cases hb⟩, h.depth.rest⟩
    obtain ⟨c1, s2, hsk, hat, hpres, hbuf, _⟩ := skip_at hM (by simp only [hpos]; omega)
    simp only [hpos] at hat
    refine ⟨c1, hat.tok, ?_⟩
    by_cases hc : c1 = 0x5D
    · refine Or.inl ⟨hc, (hat.lt_of_ne (by omega)).1, ?_⟩
      have hdep2 : s2.depth = kArrMask :: s.depth := by
        unfold skip at hsk
        split at hsk
        · cases hsk
        · injection hsk with hsk; injection hsk with _ hsk; rw [← hsk]
      obtain ⟨sax', cfg, hend, hsc, hland, hpr2, _⟩ := close_ok hL hat.inv.b hat.inv.err hat.inv.st hat.inv.cap
        hat.inv.led hdep2 h.depth.rest hat.pos (hat.lt_of_ne (by omega)).1 .arr allocs_arr
      refine ⟨cfg, ?_, hland, ⟨Nat.le_trans hpres.1 hpr2.1, ?_⟩⟩
      · unfold openArr
        rw [hstart]
        simp only [hsk, hc, if_true]
        unfold Sax.endArray
        simp only [List.length_nil] at hend
        rw [hend]
        exact hsc
      · have := Pres.trans hpres hpr2
        exact this.2
    · refine Or.inr ⟨hc, s2, ?_, hat, hpres, ?_, ?_⟩
      · unfold openArr
        rw [hstart]
        simp only [hsk, hc, if_false]
      · have := hat.inv.st.1.np
        rw [this, length_nodesOf]; simp only [lenOf, List.length_nil]
        have := h.st.1.np
        rw [length_nodesOf] at this; omega
      · rw [hat.inv.cap, h.cap]
  · refine Or.inl ⟨hlt, _, ?_, h.errFull (s' := { s with err := kParseErrorInvalidChar }) rfl rfl rfl rfl⟩
    unfold openArr
    rw [start_full hlt]
    rfl
theorem openObj_ok {bs pad : List Nat} (hL : bs.length + 4 < 2 ^ 32) {s : PState} {F : List Frame} {p : Nat}
    (h : MInv bs pad .val s F) (hpos : s.pos = p + 1) (hp : p < bs.length) :
    (¬ s.sax.np < s.sax.cap ∧ ∃ s', openObj s = .ok (s', none) ∧ ErrFinal bs s') ∨
    (s.sax.np < s.sax.cap ∧ ∃ c1, (paddedBuf bs pad)[Json.skipWs bs bs.length (p + 1)]? = some c1 ∧
      ((c1 = 0x7D ∧ Json.skipWs bs bs.length (p + 1) < bs.length ∧ ∃ cfg, openObj s = .ok cfg ∧
          Landed bs pad F (Json.skipWs bs bs.length (p + 1) + 1) cfg (.obj []) ∧ Pres s cfg.1) ∨
       (c1 ≠ 0x7D ∧ ∃ s2, openObj s = .ok (s2, some (.objKey c1)) ∧
          At bs pad .key s2 (⟨false, []⟩ :: F) (Json.skipWs bs bs.length (p + 1)) c1 ∧ Pres s s2 ∧
          s2.sax.np = s.sax.np + 1 ∧ s2.sax.cap = s.sax.cap))) := by
  by_cases hlt : s.sax.np < s.sax.cap
  · refine Or.inr ⟨hlt, ?_⟩
    have hstart := start_ok h.st.1 hlt
    have hM : MInv bs pad .key
        { s with sax := { s.sax with np := s.sax.np + 1, st := s.sax.st.set s.sax.np (some (.hole s.sax.parent)),
                                     parent := s.sax.np }, depth := kObjMask :: s.depth } (⟨false, []⟩ :: F) := by
      refine ⟨⟨h.b.blen, h.b.len, h.b.suffix, h.b.cache⟩, h.err, h.st.start hlt false, h.cap, ?_, ?_⟩
      · simp only; rw [allocsList_nodesOf_cons]; simp only [allocsList]; exact h.led
      · exact ⟨⟨rfl, rfl⟩, h.depth.rest⟩
    obtain ⟨c1, s2, hsk, hat, hpres, hbuf, _⟩ := skip_at hM (by simp only [hpos]; omega)
    simp only [hpos] at hat
    refine ⟨c1, hat.tok, ?_⟩
    by_cases hc : c1 = 0x7D
    · refine Or.inl ⟨hc, (hat.lt_of_ne (by omega)).1, ?_⟩
      have hdep2 : s2.depth = kObjMask :: s.depth := by
        unfold skip at hsk
        split at hsk
        · cases hsk
        · injection hsk with hsk; injection hsk with _ hsk; rw [← hsk]
      obtain ⟨sax', cfg, hend, hsc, hland, hpr2, _⟩ := close_ok hL hat.inv.b hat.inv.err hat.inv.st hat.inv.cap
        hat.inv.led hdep2 h.depth.rest hat.pos (hat.lt_of_ne (by omega)).1 .obj allocs_obj
      refine ⟨cfg, ?_, hland, ⟨Nat.le_trans hpres.1 hpr2.1, ?_⟩⟩
      · unfold openObj
        rw [hstart]
        simp only [hsk, hc, if_true]
        unfold Sax.endObject
        simp only [List.length_nil] at hend
        rw [hend]
        exact hsc
      · have := Pres.trans hpres hpr2
        exact this.2
    · refine Or.inr ⟨hc, s2, ?_, hat, hpres, ?_, ?_⟩
      · unfold openObj
        rw [hstart]
        simp only [hsk, hc, if_false]
      · have := hat.inv.st.1.np
        rw [this, length_nodesOf]; simp only [lenOf, List.length_nil]
        have := h.st.1.np
        rw [length_nodesOf] at this; omega
      · rw [hat.inv.cap, h.cap]
  · refine Or.inl ⟨hlt, _, ?_, h.errFull (s' := { s with err := kParseErrorInvalidChar }) rfl rfl rfl rfl⟩
    unfold openObj
    rw [start_full hlt]
    rfl

/-! ## goals of the simulation at a value position -/

/-- enough stack capacity for the value that spans `[p, next)` (`cap = max 16 (len/2 + 2)`) -/
def CapV (s : PState) (p next : Nat) : Prop := 2 * s.sax.np + (next - p) + 2 ≤ 2 * s.sax.cap
/-- enough stack capacity for the rest of a container whose text ends at `e`, the next child starting at `p` -/
def CapE (s : PState) (p e : Nat) : Prop := 2 * s.sax.np + (e - p) + 1 ≤ 2 * s.sax.cap

/-- the value `v` spanning `[p, next)` has been pushed as `node` and the next token read -/
def AfterVal (W : Nat) (bs pad : List Nat) (s : PState) (f : Frame) (rest : List Frame) (r : StepResult)
    (p next : Nat) (v : JVal) : Prop :=
  ∃ k s' node c', ReachesR W k r (s', some (contOf f c')) ∧
    At bs pad .cont s' (pushItem node (f :: rest)) (Json.skipWs bs bs.length next) c' ∧
    GoodAt s' node v ∧ Pres s s' ∧ k + p + 1 ≤ next ∧ next ≤ bs.length

def ValGoal (W : Nat) (bs pad : List Nat) (s : PState) (f : Frame) (rest : List Frame) (p c : Nat)
    (res : Except Json.Reject (JVal × Nat)) : Prop :=
  match res with
  | .ok (v, next) => AfterVal W bs pad s f rest (valueSwitch W s c (contOf f)) p next v ∨
      (ErrT W bs (valueSwitch W s c (contOf f)) (p + 1) ∧ ¬ CapV s p next) ∨
      -- a number token followed by `.` or a digit (`Doomed`): the reference rejects at the next token, and so does
      -- the machine, whatever value it has pushed
      (ErrT W bs (valueSwitch W s c (contOf f)) (p + 1) ∧ Doomed bs next)
  | .error _ => ErrT W bs (valueSwitch W s c (contOf f)) (p + 1)

theorem afterScalar_ok {bs pad : List Nat} {ph : Phase} {s : PState} {F : List Frame} (h : MInv bs pad ph s F)
    (hpos : s.pos ≤ bs.length) (cont : Nat → Label) :
    ∃ c' s', afterScalar s cont = .ok (s', some (cont c')) ∧
      At bs pad ph s' F (Json.skipWs bs bs.length s.pos) c' ∧ Pres s s' ∧ s'.buf = s.buf := by
  obtain ⟨c', s', hsk, hat, hpres, hbuf, _⟩ := skip_at h hpos
  refine ⟨c', s', ?_, hat, hpres, hbuf⟩
  unfold afterScalar
  rw [hsk]

/-- a scalar has been pushed in state `s1`; reading the next token lands at the `cont` label -/
theorem scalar_land {W : Nat} {bs pad : List Nat} {s s1 : PState} {f : Frame} {rest : List Frame} {p c : Nat}
    (hat : At bs pad .val s (f :: rest) p c) (hlt : s.sax.np < s.sax.cap) (n : Node) (v : JVal) (next : Nat)
    (hb1 : BInv bs pad s1) (he1 : s1.err = 0) (hd1 : s1.depth = s.depth) (hs1 : s1.sax = pushed s.sax n)
    (hn : n.allocs = 0) (hpos1 : s1.pos = next) (hnext : p < next ∧ next ≤ bs.length) (hpres : Pres s s1)
    (hgood : GoodAt s1 n v) {r : StepResult} (hr : r = afterScalar s1 (contOf f)) :
    AfterVal W bs pad s f rest r p next v := by
  have hM := hat.inv.push_val hlt n hn hb1 he1 hd1 hs1
  obtain ⟨c', s', ha, hat', hpres', _⟩ := afterScalar_ok hM (by rw [hpos1]; exact hnext.2) (contOf f)
  rw [hpos1] at hat'
  exact ⟨0, s', n, c', ⟨_, by rw [hr]; exact ha, Reaches.refl _⟩, hat', hgood.mono hpres', hpres.trans hpres',
    by omega, hnext.2⟩

/-- at a `cont` label a token that is neither `,` nor a closing bracket ends the parse -/
theorem cont_err_final {W : Nat} {bs pad : List Nat} {s : PState} {f : Frame} {rest : List Frame} {c : Nat}
    (h : MInv bs pad .cont s (f :: rest)) (h1 : c ≠ 0x2C) (h2 : c ≠ 0x5D) (h3 : c ≠ 0x7D) :
    ∃ s', step W s (contOf f c) = .ok (s', none) ∧ ErrFinal bs s' := by
  have hd := h.depth
  cases hdd : s.depth with
  | nil => rw [hdd] at hd; exact hd.elim
  | cons d ds =>
    refine ⟨{ s with depth := incr d :: ds, err := kParseErrorInvalidChar }, ?_,
      h.errFull (by rfl) rfl rfl rfl⟩
    unfold contOf
    cases f.isArr
    · simp only [Bool.false_eq_true, if_false, step, bumpDepth, hdd, h1]
      rw [if_pos h3]
      rfl
    · simp only [if_true, step, bumpDepth, hdd, h1, if_false, h2]
      rfl

/-- at a `cont` label the sentinel `x` is neither `,` nor a closing bracket -/
theorem cont_x_err {W : Nat} {bs pad : List Nat} {s : PState} {f : Frame} {rest : List Frame}
    (h : MInv bs pad .cont s (f :: rest)) :
    ∃ s', step W s (contOf f 0x78) = .ok (s', none) ∧ ErrFinal bs s' := by
  have hd := h.depth
  cases hdd : s.depth with
  | nil => rw [hdd] at hd; exact hd.elim
  | cons d ds =>
    refine ⟨{ s with depth := incr d :: ds, err := kParseErrorInvalidChar }, ?_,
      h.errFull (by rfl) rfl rfl rfl⟩
    unfold contOf
    cases f.isArr
    · simp only [Bool.false_eq_true, if_false, step, bumpDepth, hdd]
      rfl
    · simp only [if_true, step, bumpDepth, hdd]
      rfl

end Sonic.Proofs.Parse
