import Sonic.Model.OnDemand
import Sonic.Proofs.OnDemandBits

/-!
# In-bounds / termination lemmas for the on-demand scanner on ARBITRARY input (C11)

Every lemma has the shape: under the stated precondition on `pos` (and the cache invariant), the model function
returns `.ok` — no out-of-bounds load, no exhausted fuel, no undefined shift — and the new `pos` satisfies the
stated bound.  No hypothesis on the content of `data`.
-/
namespace Sonic.Proofs.OnDemand
open Sonic.Model.OnDemand Sonic.Gen

theorem rd_ok {d : List Nat} {p : Nat} (h : p < d.length) : rd d p = .ok d[p] := by
  unfold rd; rw [List.getElem?_eq_getElem h]

theorem rdVec_ok {d : List Nat} {p n : Nat} (h : p + n ≤ d.length) : rdVec d p n = .ok ((d.drop p).take n) := by
  unfold rdVec; rw [if_pos h]

theorem vec_length {d : List Nat} {p n : Nat} (h : p + n ≤ d.length) : ((d.drop p).take n).length = n := by
  rw [List.length_take, List.length_drop]; omega

theorem vec_get {d : List Nat} {p n j : Nat} (hj : j < n) : ((d.drop p).take n)[j]? = d[p + j]? := by
  rw [List.getElem?_take, if_pos hj, List.getElem?_drop]

/-! ## `GetNextToken` -/

theorem nextTokenScalar_ok (d toks : List Nat) : ∀ (f pos : Nat), d.length - pos < f →
    ∃ c p', nextTokenScalar d toks f pos = .ok (c, p') ∧ pos ≤ p' ∧ p' ≤ max pos d.length ∧
      (c ≠ 0 → p' < d.length) := by
  intro f
  induction f with
  | zero => intro pos h; omega
  | succ f ih =>
    intro pos h
    unfold nextTokenScalar
    by_cases hp : pos < d.length
    · rw [if_pos hp, rd_ok hp]
      simp only [bind, Except.bind, pure, Except.pure]
      by_cases ht : toks.contains d[pos] = true
      · rw [if_pos ht]; exact ⟨_, _, rfl, Nat.le_refl _, by omega, fun _ => hp⟩
      · rw [if_neg ht]
        obtain ⟨c, p', e, h1, h2, h3⟩ := ih (pos + 1) (by omega)
        exact ⟨c, p', e, by omega, by omega, h3⟩
    · rw [if_neg hp]; exact ⟨_, _, rfl, Nat.le_refl _, by omega, fun h => absurd rfl h⟩

theorem tokMask_length (v toks : List Nat) : (tokMask v toks).length = v.length := by simp [tokMask]

theorem nextTokenBlock_ok {W : Nat} (hW : 0 < W) (d toks : List Nat) : ∀ (f pos : Nat), d.length - pos < f →
    ∃ c p', nextTokenBlock W d toks f pos = .ok (c, p') ∧ pos ≤ p' ∧ p' ≤ max pos d.length ∧
      (c ≠ 0 → p' < d.length) := by
  intro f
  induction f with
  | zero => intro pos h; omega
  | succ f ih =>
    intro pos h
    unfold nextTokenBlock
    by_cases hp : pos + W ≤ d.length
    · rw [if_pos hp, rdVec_ok hp]
      simp only [bind, Except.bind, pure, Except.pure]
      by_cases hn : nonzero (tokMask ((d.drop pos).take W) toks) = true
      · rw [if_pos hn]
        have hlt := tz_lt hn
        rw [tokMask_length, vec_length hp] at hlt
        have hr : pos + tz (tokMask ((d.drop pos).take W) toks) < d.length := by omega
        rw [rd_ok hr]
        exact ⟨_, _, rfl, by omega, by omega, fun _ => hr⟩
      · rw [if_neg hn]
        obtain ⟨c, p', e, h1, h2, h3⟩ := ih (pos + W) (by omega)
        exact ⟨c, p', e, by omega, by omega, h3⟩
    · rw [if_neg hp]
      obtain ⟨c, p', e, h1, h2, h3⟩ := nextTokenScalar_ok d toks (d.length + 2) pos (by omega)
      exact ⟨c, p', e, h1, h2, h3⟩

theorem getNextToken_ok {W : Nat} (hW : 0 < W) (d toks : List Nat) (pos : Nat) :
    ∃ c p', getNextToken W d toks pos = .ok (c, p') ∧ pos ≤ p' ∧ p' ≤ max pos d.length ∧
      (c ≠ 0 → p' < d.length) :=
  nextTokenBlock_ok hW d toks _ pos (by omega)

/-! ## `SkipString` -/

theorem skipStringScalar_ok (d : List Nat) : ∀ (f : Nat) (found : Bool) (pos : Nat), d.length + 1 - pos < f →
    ∃ r p', skipStringScalar d f found pos = .ok (r, p') ∧ (r ≠ 0 → pos < p' ∧ p' ≤ d.length) ∧
      pos ≤ p' ∧ p' ≤ max pos d.length := by
  intro f
  induction f with
  | zero => intro _ pos h; omega
  | succ f ih =>
    intro found pos h
    unfold skipStringScalar
    by_cases hp : pos < d.length
    · rw [if_pos hp, rd_ok hp]
      simp only [bind, Except.bind, pure, Except.pure]
      by_cases hb : (d[pos] == 0x5C) = true
      · rw [if_pos hb]
        by_cases h1 : pos + 1 ≥ d.length
        · rw [if_pos h1]; exact ⟨_, _, rfl, fun h => absurd rfl h, Nat.le_refl _, by omega⟩
        · rw [if_neg h1]
          obtain ⟨r, p', e, h2, h3, h4⟩ := ih true (pos + 2) (by omega)
          exact ⟨r, p', e, fun hr => ⟨by have := h2 hr; omega, (h2 hr).2⟩, by omega, by omega⟩
      · rw [if_neg hb]
        by_cases hq : (d[pos] == 0x22) = true
        · rw [if_pos hq]
          exact ⟨_, _, rfl, fun _ => ⟨by omega, by omega⟩, by omega, by omega⟩
        · rw [if_neg hq]
          obtain ⟨r, p', e, h2, h3, h4⟩ := ih found (pos + 1) (by omega)
          exact ⟨r, p', e, fun hr => ⟨by have := h2 hr; omega, (h2 hr).2⟩, by omega, by omega⟩
    · rw [if_neg hp]; exact ⟨_, _, rfl, fun h => absurd rfl h, Nat.le_refl _, by omega⟩

theorem skipStringBlock_ok {W : Nat} (hW : 0 < W) (d : List Nat) :
    ∀ (f : Nat) (pe found : Bool) (pos : Nat), pos ≤ d.length → d.length - pos < f →
    ∃ r p', skipStringBlock W d f pe found pos = .ok (r, p') ∧ (r ≠ 0 → pos < p' ∧ p' ≤ d.length) ∧
      pos ≤ p' ∧ p' ≤ d.length + 1 := by
  intro f
  induction f with
  | zero => intro _ _ pos _ h; omega
  | succ f ih =>
    intro pe found pos hle h
    unfold skipStringBlock
    by_cases hp : pos + W ≤ d.length
    · rw [if_pos hp, rdVec_ok hp]
      simp only [bind, Except.bind, pure, Except.pure]
      generalize hu : (if (nonzero (mand (decr (eqMask ((d.drop pos).take W) 0x22))
            (eqMask ((d.drop pos).take W) 0x5C)) || pe) = true then
          ((mandn (eqMask ((d.drop pos).take W) 0x22) (getEscaped pe (eqMask ((d.drop pos).take W) 0x5C)).1,
            (getEscaped pe (eqMask ((d.drop pos).take W) 0x5C)).2, true) : Mask × Bool × Bool)
        else (eqMask ((d.drop pos).take W) 0x22, pe, found)) = upd
      have hlen : upd.1.length = W := by
        rw [← hu]; split
        · simp [vec_length hp]
        · simp [vec_length hp]
      by_cases hn : nonzero upd.1 = true
      · rw [if_pos hn]
        have hlt := tz_lt hn
        rw [hlen] at hlt
        refine ⟨_, _, rfl, fun _ => ⟨by omega, by omega⟩, by omega, by omega⟩
      · rw [if_neg hn]
        obtain ⟨r, p', e, h2, h3, h4⟩ := ih upd.2.1 upd.2.2 (pos + W) hp (by omega)
        exact ⟨r, p', e, fun hr => ⟨by have := h2 hr; omega, (h2 hr).2⟩, by omega, h4⟩
    · rw [if_neg hp]
      obtain ⟨r, p', e, h2, h3, h4⟩ :=
        skipStringScalar_ok d (d.length + 2) found (if pe = true then pos + 1 else pos) (by split <;> omega)
      refine ⟨r, p', e, fun hr => ⟨?_, (h2 hr).2⟩, ?_, ?_⟩
      · have := (h2 hr).1; split at this <;> omega
      · split at h3 <;> omega
      · split at h4 <;> omega

theorem skipString_ok {W : Nat} (hW : 0 < W) (d : List Nat) (pos : Nat) (hle : pos ≤ d.length) :
    ∃ r p', skipString W d pos = .ok (r, p') ∧ (r ≠ 0 → pos < p' ∧ p' ≤ d.length) ∧
      pos ≤ p' ∧ p' ≤ d.length + 1 :=
  skipStringBlock_ok hW d _ false false pos hle (by omega)

/-! ## `SkipContainer` -/

theorem rbraceLoop_ok (lbrace : Mask) (last : Nat) : ∀ (f : Nat) (rbrace : Mask) (rnum lnum : Nat),
    popcount rbrace < f →
    ∃ r, rbraceLoop lbrace last f rbrace rnum lnum = .ok r ∧ (∀ k, r.1 = some k → rbrace[k]? = some true) := by
  intro f
  induction f with
  | zero => intro _ _ _ h; omega
  | succ f ih =>
    intro rbrace rnum lnum h
    unfold rbraceLoop
    by_cases hn : nonzero rbrace = true
    · rw [if_pos hn]
      simp only
      split
      · refine ⟨_, rfl, ?_⟩
        intro k hk
        simp only [Option.some.injEq] at hk
        rw [← hk]; exact tz_get hn
      · have hpc := popcount_clearLowest rbrace hn
        obtain ⟨r, e, hr⟩ := ih (mand rbrace (decr rbrace)) (rnum + 1)
          (last + popcount (mand (decr rbrace) lbrace)) (by omega)
        exact ⟨r, e, fun k hk => clearLowest_sub rbrace k (hr k hk)⟩
    · rw [if_neg hn]
      exact ⟨_, rfl, fun k hk => by simp at hk⟩

theorem skipLoop_ok (v : List Nat) (st : CState) (left right : Nat) :
    ∃ r, skipLoop v st left right = .ok r ∧ (∀ k, r = .inl k → v[k]? = some right) := by
  unfold skipLoop
  simp only
  generalize hi : (getStringBits v st.prevInstring st.prevEscaped).1 = instring
  have hpc : popcount (mandn (eqMask v right) instring) < v.length + 1 := by
    have := popcount_le_length (mandn (eqMask v right) instring)
    rw [mandn_length, eqMask_length] at this
    omega
  obtain ⟨r, e, hr⟩ := rbraceLoop_ok (mandn (eqMask v left) instring) st.lbraceNum (v.length + 1)
    (mandn (eqMask v right) instring) st.rbraceNum st.lbraceNum hpc
  rw [e]
  obtain ⟨c, rn, ln⟩ := r
  cases c with
  | none => exact ⟨_, rfl, fun k hk => by cases hk⟩
  | some k =>
    refine ⟨_, rfl, ?_⟩
    intro k' hk'
    injection hk' with hk'
    subst hk'
    exact eqMask_get (mandn_get (hr k rfl)).1

theorem skipContainerLoop_ok (d : List Nat) (left right : Nat) (hr0 : right ≠ 0) :
    ∀ (f : Nat) (st : CState) (pos : Nat), pos ≤ d.length → d.length - pos < f →
    ∃ b p', skipContainerLoop d left right f st pos = .ok (b, p') ∧ (b = true → pos < p' ∧ p' ≤ d.length) ∧
      pos ≤ p' ∧ p' ≤ d.length := by
  intro f
  induction f with
  | zero => intro _ pos _ h; omega
  | succ f ih =>
    intro st pos hle h
    unfold skipContainerLoop
    by_cases hp : pos + 64 ≤ d.length
    · rw [if_pos hp, rdVec_ok hp]
      simp only [bind, Except.bind, pure, Except.pure]
      obtain ⟨r, e, hk⟩ := skipLoop_ok ((d.drop pos).take 64) st left right
      rw [e]
      cases r with
      | inl k =>
        simp only
        have := hk k rfl
        have hlt : k < 64 := by
          apply Classical.byContradiction; intro hn
          rw [List.getElem?_eq_none (by rw [vec_length hp]; omega)] at this; cases this
        exact ⟨_, _, rfl, fun _ => ⟨by omega, by omega⟩, by omega, by omega⟩
      | inr st' =>
        simp only
        obtain ⟨b, p', e2, h2, h3, h4⟩ := ih st' (pos + 64) hp (by omega)
        exact ⟨b, p', e2, fun hb => ⟨by have := h2 hb; omega, (h2 hb).2⟩, by omega, h4⟩
    · rw [if_neg hp]
      have hv : pos + (d.length - pos) ≤ d.length := by omega
      simp only [bind, Except.bind, pure, Except.pure, throw, throwThe, MonadExceptOf.throw]
      rw [if_neg (by omega), rdVec_ok hv]
      simp only
      obtain ⟨r, e, hk⟩ := skipLoop_ok ((d.drop pos).take (d.length - pos) ++
        List.replicate (64 - ((d.drop pos).take (d.length - pos)).length) 0) st left right
      rw [e]
      cases r with
      | inl k =>
        simp only
        have := hk k rfl
        have hlt : k < d.length - pos := by
          apply Classical.byContradiction; intro hn
          rw [List.getElem?_append_right (by rw [vec_length hv]; omega)] at this
          rw [List.getElem?_replicate] at this
          split at this
          · injection this with this; exact hr0 this.symm
          · cases this
        exact ⟨_, _, rfl, fun _ => ⟨by omega, by omega⟩, by omega, by omega⟩
      | inr st' => exact ⟨_, _, rfl, fun hb => Bool.noConfusion hb, Nat.le_refl _, hle⟩

theorem skipContainer_ok (d : List Nat) (left right : Nat) (hr0 : right ≠ 0) (pos : Nat) (hle : pos ≤ d.length) :
    ∃ b p', skipContainer d left right pos = .ok (b, p') ∧ (b = true → pos < p' ∧ p' ≤ d.length) ∧
      pos ≤ p' ∧ p' ≤ d.length :=
  skipContainerLoop_ok d left right hr0 _ _ pos hle (by omega)

/-! ## `SkipLiteral` -/

theorem skipLiteral_ok (d : List Nat) (pos token : Nat) (h0 : 0 < pos) (hle : pos ≤ d.length) :
    ∃ b p', skipLiteral d pos token = .ok (b, p') ∧ pos ≤ p' ∧ p' ≤ d.length := by
  unfold skipLiteral
  rw [if_neg (by omega)]
  simp only [bind, Except.bind, pure, Except.pure]
  split
  · split
    · rename_i h4
      rw [rdVec_ok h4]; simp only
      split
      · exact ⟨_, _, rfl, by omega, by omega⟩
      · exact ⟨_, _, rfl, by omega, by omega⟩
    · exact ⟨_, _, rfl, by omega, by omega⟩
  · split
    · split
      · rename_i h4
        rw [rdVec_ok h4]; simp only
        split
        · exact ⟨_, _, rfl, by omega, by omega⟩
        · exact ⟨_, _, rfl, by omega, by omega⟩
      · exact ⟨_, _, rfl, by omega, by omega⟩
    · split
      · split
        · rename_i h5
          rw [rdVec_ok (by omega)]; simp only
          split
          · exact ⟨_, _, rfl, by omega, by omega⟩
          · exact ⟨_, _, rfl, by omega, by omega⟩
        · exact ⟨_, _, rfl, by omega, by omega⟩
      · exact ⟨_, _, rfl, by omega, by omega⟩

/-! ## `skip_space_safe` -/

/-- invariant of the scanner's cached block `(nonspace_bits_end_, nonspace_bits_)` relative to the current `pos`:
    64 lanes; the cached block `[nbEnd - 64, nbEnd)` lies inside the input and does not start after `pos` -/
structure CInv (d : List Nat) (cache : Cache) (pos : Nat) : Prop where
  len : cache.nb.length = 64
  le : cache.nbEnd ≤ d.length
  blk : cache.nbEnd ≤ pos + 64
  ge : cache.nbEnd = 0 ∨ 64 ≤ cache.nbEnd

theorem CInv.mono {d : List Nat} {cache : Cache} {pos p' : Nat} (h : CInv d cache pos) (hp : pos ≤ p') :
    CInv d cache p' := ⟨h.len, h.le, by have := h.blk; omega, h.ge⟩

theorem CInv.init (d : List Nat) (pos : Nat) : CInv d Cache.init pos :=
  ⟨by simp [Cache.init], by simp [Cache.init], by simp [Cache.init], Or.inl rfl⟩

theorem tailRet_ok (d : List Nat) (pos : Nat) (hle : pos ≤ d.length) :
    ∃ c, tailRet d pos = .ok (c, pos) ∧ (c ≠ 0 → 0 < pos) := by
  unfold tailRet
  by_cases h : pos > 0
  · rw [if_pos h, rd_ok (show pos - 1 < d.length by omega)]
    exact ⟨_, rfl, fun _ => h⟩
  · rw [if_neg h]; exact ⟨0, rfl, fun h => absurd rfl h⟩

theorem spaceTail_ok (d : List Nat) : ∀ (f pos : Nat), pos ≤ d.length → d.length - pos < f →
    ∃ c p', spaceTail d f pos = .ok (c, p') ∧ pos ≤ p' ∧ p' ≤ d.length ∧ (c ≠ 0 → 0 < p') := by
  intro f
  induction f with
  | zero => intro pos _ h; omega
  | succ f ih =>
    intro pos hle h
    unfold spaceTail
    by_cases hp : pos < d.length
    · rw [if_pos hp, rd_ok hp]
      simp only [bind, Except.bind]
      split
      · obtain ⟨c, p', e, h1, h2, h3⟩ := ih (pos + 1) (by omega) (by omega)
        exact ⟨c, p', e, by omega, h2, h3⟩
      · obtain ⟨c, e, h3⟩ := tailRet_ok d (pos + 1) (by omega)
        exact ⟨c, _, e, by omega, by omega, h3⟩
    · rw [if_neg hp]
      obtain ⟨c, e, h3⟩ := tailRet_ok d pos hle
      exact ⟨c, _, e, Nat.le_refl _, hle, h3⟩

theorem foundSpace_ok (d : List Nat) : ∀ (f : Nat) (cache : Cache) (pos : Nat), pos ≤ d.length →
    CInv d cache pos → d.length - pos < f →
    ∃ c p' cache', foundSpace d f cache pos = .ok (c, p', cache') ∧ pos ≤ p' ∧ p' ≤ d.length ∧
      CInv d cache' p' ∧ (c ≠ 0 → 0 < p') := by
  intro f
  induction f with
  | zero => intro _ pos _ _ h; omega
  | succ f ih =>
    intro cache pos hle hI h
    unfold foundSpace
    by_cases hp : pos + 64 ≤ d.length
    · rw [if_pos hp, rdVec_ok hp]
      simp only [bind, Except.bind, pure, Except.pure]
      split
      · rename_i hn
        have hlt := tz_lt hn
        rw [List.length_map, vec_length hp] at hlt
        rw [rd_ok (by omega)]
        refine ⟨_, _, _, rfl, by omega, by omega, ⟨?_, hp, ?_, Or.inr (Nat.le_add_left _ _)⟩, fun _ => by omega⟩
        · show (List.map _ _).length = 64
          rw [List.length_map, vec_length hp]
        · show pos + 64 ≤ _
          omega
      · obtain ⟨c, p', cache', e, h1, h2, h3, h4⟩ := ih cache (pos + 64) hp (hI.mono (by omega)) (by omega)
        exact ⟨c, p', cache', e, by omega, h2, h3, h4⟩
    · rw [if_neg hp]
      obtain ⟨c, p', e, h1, h2, h3⟩ := spaceTail_ok d (d.length + 2) pos hle (by omega)
      simp only [bind, Except.bind, pure, Except.pure]
      rw [e]
      exact ⟨c, p', cache, rfl, h1, h2, hI.mono h1, h3⟩

theorem skipSpaceSafe_ok (d : List Nat) (cache : Cache) (pos : Nat) (hle : pos ≤ d.length)
    (hI : CInv d cache pos) :
    ∃ c p' cache', skipSpaceSafe d cache pos = .ok (c, p', cache') ∧ pos ≤ p' ∧ p' ≤ d.length ∧
      CInv d cache' p' ∧ (c ≠ 0 → 0 < p') := by
  unfold skipSpaceSafe
  by_cases hp : pos + 64 + 2 > d.length
  · rw [if_pos hp]
    obtain ⟨c, p', e, h1, h2, h3⟩ := spaceTail_ok d (d.length + 2) pos hle (by omega)
    simp only [bind, Except.bind, pure, Except.pure]
    rw [e]
    exact ⟨c, p', cache, rfl, h1, h2, hI.mono h1, h3⟩
  · rw [if_neg hp]
    simp only [bind, Except.bind, pure, Except.pure, throw, throwThe, MonadExceptOf.throw]
    rw [rd_ok (show pos < d.length by omega)]
    simp only
    split
    · exact ⟨_, _, _, rfl, by omega, by omega, hI.mono (by omega), fun _ => by omega⟩
    rw [rd_ok (show pos + 1 < d.length by omega)]
    simp only
    split
    · exact ⟨_, _, _, rfl, by omega, by omega, hI.mono (by omega), fun _ => by omega⟩
    split
    · obtain ⟨c, p', cache', e, h1, h2, h3, h4⟩ :=
        foundSpace_ok d (d.length + 2) cache (pos + 2) (by omega) (hI.mono (by omega)) (by omega)
      exact ⟨c, p', cache', e, by omega, h2, h3, h4⟩
    · rename_i hlt
      have hge := hI.ge
      have hblk := hI.blk
      have hcle := hI.le
      rw [if_neg (by omega), if_neg (by omega), if_neg (by omega)]
      split
      · obtain ⟨c, p', cache', e, h1, h2, h3, h4⟩ :=
          foundSpace_ok d (d.length + 2) cache cache.nbEnd hcle
            ⟨hI.len, hcle, by omega, hge⟩ (by omega)
        exact ⟨c, p', cache', e, by omega, h2, h3, h4⟩
      · rename_i hnz
        have hnz' : nonzero (clearBelow (pos + 2 - (cache.nbEnd - 64)) cache.nb) = true := by
          simpa using hnz
        have h1 := tz_lt hnz'
        have h2 := le_tz_clearBelow hnz'
        rw [clearBelow_length, hI.len] at h1
        rw [rd_ok (by omega)]
        exact ⟨_, _, _, rfl, by omega, by omega, ⟨hI.len, hcle, by omega, hge⟩, fun _ => by omega⟩

/-! ## `SkipScanner` members -/

theorem skipCSQ_ok {W : Nat} (hW : 0 < W) (d : List Nat) (c pos : Nat) (hle : pos ≤ d.length) :
    ∃ b p', skipCSQ W d c pos = .ok (b, p') ∧ (b = true → pos ≤ p' ∧ p' ≤ d.length) := by
  unfold skipCSQ
  split
  · obtain ⟨b, p', e, h1, h2, h3⟩ := skipContainer_ok d 0x7B 0x7D (by decide) pos hle
    exact ⟨b, p', e, fun _ => ⟨h2, h3⟩⟩
  split
  · obtain ⟨b, p', e, h1, h2, h3⟩ := skipContainer_ok d 0x5B 0x5D (by decide) pos hle
    exact ⟨b, p', e, fun _ => ⟨h2, h3⟩⟩
  split
  · obtain ⟨r, p', e, h1, h2, h3⟩ := skipString_ok hW d pos hle
    simp only [bind, Except.bind, pure, Except.pure]
    rw [e]
    refine ⟨_, _, rfl, fun hb => ?_⟩
    have : r ≠ 0 := by simpa using hb
    exact ⟨h2, (h1 this).2⟩
  · exact ⟨_, _, rfl, fun _ => ⟨Nat.le_refl _, hle⟩⟩

theorem getArrayElem_ok {W : Nat} (hW : 0 < W) (d : List Nat) : ∀ (i : Nat) (cache : Cache) (pos : Nat),
    pos ≤ d.length → CInv d cache pos →
    ∃ e p' cache', getArrayElem W d i cache pos = .ok (e, p', cache') ∧
      (e = 0 → pos ≤ p' ∧ p' ≤ d.length ∧ CInv d cache' p') := by
  intro i
  induction i with
  | zero => intro cache pos hle hI; exact ⟨_, _, _, rfl, fun _ => ⟨Nat.le_refl _, hle, hI⟩⟩
  | succ i ih =>
    intro cache pos hle hI
    unfold getArrayElem
    split
    · obtain ⟨c, p1, cache1, e1, h1, h2, hI1, _⟩ := skipSpaceSafe_ok d cache pos hle hI
      simp only [bind, Except.bind, pure, Except.pure]
      rw [e1]
      simp only
      split
      · exact ⟨_, _, _, rfl, fun h => by simp [kParseErrorArrIndexOutOfRange] at h⟩
      obtain ⟨b, p2, e2, h3⟩ := skipCSQ_ok hW d c p1 h2
      rw [e2]
      simp only
      split
      · exact ⟨_, _, _, rfl, fun h => by simp [kParseErrorInvalidChar] at h⟩
      rename_i hb
      have hb' : b = true := by simpa using hb
      obtain ⟨h4, h5⟩ := h3 hb'
      obtain ⟨t, p3, e3, h6, h7, h8⟩ := getNextToken_ok hW d [0x2C, 0x5D] p2
      rw [e3]
      simp only
      split
      · exact ⟨_, _, _, rfl, fun h => by simp [kParseErrorArrIndexOutOfRange] at h⟩
      rename_i ht
      have ht' : t = 0x2C := by simpa using ht
      have hp3 : p3 < d.length := h8 (by omega)
      obtain ⟨e, p', cache', e4, h9⟩ := ih cache1 (p3 + 1) (by omega) (hI1.mono (by omega))
      refine ⟨e, p', cache', e4, fun he => ?_⟩
      obtain ⟨h10, h11, h12⟩ := h9 he
      exact ⟨by omega, h11, h12⟩
    · exact ⟨_, _, _, rfl, fun h => by simp [kParseErrorInvalidChar] at h⟩

theorem skipOne_ok {W : Nat} (hW : 0 < W) (d : List Nat) (cache : Cache) (pos : Nat) (hle : pos ≤ d.length)
    (hI : CInv d cache pos) :
    ∃ r, skipOne W d cache pos = .ok r ∧ (∀ s p', r = .ok s p' → s < p' ∧ p' ≤ d.length) := by
  unfold skipOne
  obtain ⟨c, p1, cache1, e1, h1, h2, hI1, h0⟩ := skipSpaceSafe_ok d cache pos hle hI
  simp only [bind, Except.bind, pure, Except.pure]
  rw [e1]
  simp only
  split
  · rename_i hc
    have hc0 : c ≠ 0 := by have : c = 0x22 := by simpa using hc
                           omega
    have := h0 hc0
    obtain ⟨r, p', e, h3, h4, h5⟩ := skipString_ok hW d p1 h2
    rw [e]; simp only
    split
    · exact ⟨_, rfl, fun s p' h => by cases h⟩
    · rename_i hr
      have hr' : r ≠ 0 := by simpa using hr
      refine ⟨_, rfl, fun s p'' h => ?_⟩
      injection h with hs hp; subst hs; subst hp
      have := h3 hr'
      omega
  split
  · rename_i _ hc
    have hc0 : c ≠ 0 := by have : c = 0x7B := by simpa using hc
                           omega
    have := h0 hc0
    obtain ⟨b, p', e, h3, h4, h5⟩ := skipContainer_ok d 0x7B 0x7D (by decide) p1 h2
    rw [e]; simp only
    split
    · exact ⟨_, rfl, fun s p' h => by cases h⟩
    · rename_i hb
      have hb' : b = true := by simpa using hb
      refine ⟨_, rfl, fun s p'' h => ?_⟩
      injection h with hs hp; subst hs; subst hp
      have := h3 hb'
      omega
  split
  · rename_i _ _ hc
    have hc0 : c ≠ 0 := by have : c = 0x5B := by simpa using hc
                           omega
    have := h0 hc0
    obtain ⟨b, p', e, h3, h4, h5⟩ := skipContainer_ok d 0x5B 0x5D (by decide) p1 h2
    rw [e]; simp only
    split
    · exact ⟨_, rfl, fun s p' h => by cases h⟩
    · rename_i hb
      have hb' : b = true := by simpa using hb
      refine ⟨_, rfl, fun s p'' h => ?_⟩
      injection h with hs hp; subst hs; subst hp
      have := h3 hb'
      omega
  split
  · rename_i _ _ _ hc
    have hc0 : c ≠ 0 := by
      simp only [Bool.or_eq_true, beq_iff_eq] at hc
      omega
    have := h0 hc0
    obtain ⟨b, p', e, h3, h4⟩ := skipLiteral_ok d p1 c this h2
    rw [e]; simp only
    split
    · exact ⟨_, rfl, fun s p' h => by cases h⟩
    · refine ⟨_, rfl, fun s p'' h => ?_⟩
      injection h with hs hp; subst hs; subst hp
      omega
  split
  · rename_i _ _ _ _ hc
    have hc0 : c ≠ 0 := by
      simp only [isNumStart, Bool.or_eq_true, beq_iff_eq, Bool.and_eq_true, decide_eq_true_eq] at hc
      omega
    have := h0 hc0
    obtain ⟨t, p', e, h3, h4, h5⟩ := getNextToken_ok hW d [0x5D, 0x7D, 0x2C] p1
    rw [e]; simp only
    refine ⟨_, rfl, fun s p'' h => ?_⟩
    injection h with hs hp; subst hs; subst hp
    omega
  · exact ⟨_, rfl, fun s p' h => by cases h⟩

end Sonic.Proofs.OnDemand
