import Sonic.Proofs.DecTop
import Sonic.Proofs.NumberAnchor
import Sonic.Proofs.NumberConvert
import Sonic.Proofs.NumberMaster

/-!
# The native fall-back inside `parseNumber`
-/
namespace Sonic.Proofs.Dec

open Sonic.Spec (JNum)
open Sonic.Spec.Number
open Sonic.Model.Number
open Sonic.Model.BigDecimal (atofNative)

/-- the last branch of `parseFloatEiselLemire64`: call `AtofNative` and test for infinity -/
def nativeTail (f : FloatIn) (native : List Nat) : PResult :=
  let (bits, fault) := atofNative native
  if fault then .err 255 f.next
  else if bits * 2 % 2 ^ 64 = 0xFFE0000000000000 then .err errInfinity f.next
  else .ok (.real bits) f.next .native

theorem round_finite (neg : Bool) (m : Nat) (e : Int) (b : Nat) (h : Sonic.Spec.Rne.round neg m e = some b) :
    b * 2 % 2 ^ 64 ≠ 0xFFE0000000000000 := by
  cases neg with
  | false =>
    have := (Sonic.Proofs.Rne.round_nearest m e b h 0).1
    omega
  | true =>
    rw [Sonic.Proofs.Rne.round_neg] at h
    cases hr : Sonic.Spec.Rne.round false m e with
    | none => rw [hr] at h; cases h
    | some b' =>
      rw [hr] at h
      simp only [Option.map_some, Option.some.injEq] at h
      have := (Sonic.Proofs.Rne.round_nearest m e b' hr 0).1
      omega

theorem nativeTail_correct (f : FloatIn) (native : List Nat) (t : Token) (ht : scanToken native = some t)
    (hg : nativeGuard t (native.drop t.len) = true) (hexp : (expVal t.exp).natAbs < 10000000000000000 ∨ t.len < 2 ^ 32) :
    nativeTail f native =
      match Sonic.Spec.Rne.round t.neg t.mantissa t.exponent with
      | some b => .ok (.real b) f.next .native
      | none => .err errInfinity f.next := by
  unfold nativeTail
  rw [atofNative_correct native t ht hg hexp]
  simp only [Bool.false_eq_true, if_false]
  cases hr : Sonic.Spec.Rne.round t.neg t.mantissa t.exponent with
  | none =>
    simp only [specBits, sgnBit]
    cases t.neg <;> simp
  | some b =>
    have hb : specBits t.neg (some b) = b := rfl
    rw [hb, if_neg (round_finite t.neg t.mantissa t.exponent b hr)]

theorem pfel_native (f : FloatIn) (native : List Nat) :
    (∃ v p, (p = Path.el ∨ p = Path.el2) ∧ parseFloatEiselLemire64 f native = .ok (.real v) f.next p) ∨
    parseFloatEiselLemire64 f native = nativeTail f native := by
  unfold parseFloatEiselLemire64 nativeTail
  cases h1 : Sonic.Model.EiselLemire.atofEiselLemire64 f.man f.exp10 f.neg with
  | none => right; rfl
  | some v =>
    dsimp only
    by_cases ht : (!f.trunc) = true
    · rw [if_pos ht]; left; exact ⟨v, .el, Or.inl rfl, rfl⟩
    · rw [if_neg ht]
      cases h2 : Sonic.Model.EiselLemire.atofEiselLemire64 ((f.man + 1) % 2 ^ 64) f.exp10 f.neg with
      | none => right; rfl
      | some up =>
        dsimp only
        by_cases hu : up = v
        · rw [if_pos hu]; left; exact ⟨v, .el2, Or.inr rfl, rfl⟩
        · rw [if_neg hu]; right; rfl

/-- when the guard fails, the token has no exponent part and is followed by `.` (after a fraction) or by a digit
    (after a fraction-less token, i.e. after a lone `0`): such a text is not a JSON value followed by a delimiter -/
theorem nativeGuard_false (t : Token) (rest : List Nat) (h : nativeGuard t rest = false) :
    t.exp = none ∧ ∃ c r, rest = c :: r ∧
      ((t.fracDigits.isSome = true ∧ c = 46) ∨ (t.fracDigits = none ∧ Sonic.Spec.Number.isDigit c = true)) := by
  cases rest with
  | nil => simp [nativeGuard] at h
  | cons c r =>
    simp only [nativeGuard, Bool.not_eq_false', Bool.and_eq_true, Bool.or_eq_true, beq_iff_eq] at h
    refine ⟨by simpa using h.1, c, r, rfl, ?_⟩
    rcases h.2 with ⟨h1, h2⟩ | ⟨h1, h2⟩
    · exact Or.inl ⟨h1, h2⟩
    · exact Or.inr ⟨by simpa using h1, h2⟩

/-- the value of a token that is not stored as an integer -/
theorem value_nonint (t : Token) (hn : ¬ (t.isInteger = true ∧ t.mantissa < 2 ^ 64)) :
    t.value = (Sonic.Spec.Rne.round t.neg t.mantissa t.exponent).map .real := by
  unfold Token.value
  by_cases hi : t.isInteger = true
  · have hbig : ¬ (t.mantissa < 2 ^ 64) := fun hh => hn ⟨hi, hh⟩
    have h0 : t.mantissa ≠ 0 := by
      intro h0; rw [h0] at hbig; exact hbig (Nat.pow_pos (by omega))
    have h63 : ¬ (t.mantissa ≤ 2 ^ 63) := by
      intro h63; exact hbig (Nat.lt_of_le_of_lt h63 (by decide))
    simp only [hi, Bool.true_and, Bool.and_eq_true, decide_eq_true_eq, hbig, and_false, if_false, h0, h63]
  · have hi' : t.isInteger = false := by simpa using hi
    simp only [hi', Bool.false_and, Bool.false_eq_true, if_false]

/-- **End-to-end for the native path.**  Whenever `parseNumber` answers through `AtofNative` — with a double or
    with `kParseErrorInfinity` — the reference scanner says the same, provided the text handed to `AtofNative`
    (`len_ - pos_ + 1` bytes from the start of the number) shows the same token and satisfies `nativeGuard`. -/
theorem native_path_agrees (buf : List Nat) (len start : Nat) (t : Token)
    (ht : scanToken (buf.drop start) = some t)
    (ht' : scanToken ((buf.drop start).take (len - start)) = some t)
    (hg : nativeGuard t (((buf.drop start).take (len - start)).drop t.len) = true)
    (hexp : (expVal t.exp).natAbs < 10000000000000000 ∨ t.len < 2 ^ 32) :
    (∀ v n, parseNumber buf len start = .ok v n .native → scanNumber buf start = .ok v n) ∧
    (∀ p, parseNumber buf len start = .err errInfinity p → scanNumber buf start = .infinity p) := by
  have hspec : ∀ f, Sonic.Proofs.Number.Good t (start + t.len) f →
      ¬ (t.isInteger = true ∧ t.mantissa < 2 ^ 64) →
      (∀ v n, convert f ((buf.drop start).take (len - start)) = .ok v n .native → scanNumber buf start = .ok v n) ∧
      (∀ p, convert f ((buf.drop start).take (len - start)) = .err errInfinity p →
        scanNumber buf start = .infinity p) := by
    intro f hgood hn
    have hval := value_nonint t hn
    have htail := nativeTail_correct f _ t ht' hg hexp
    have hnext := hgood.next
    have key : ∀ r, convert f ((buf.drop start).take (len - start)) = r →
        (∀ v n, r = .ok v n .native → scanNumber buf start = .ok v n) ∧
        (∀ p, r = .err errInfinity p → scanNumber buf start = .infinity p) := by
      intro r hr
      rcases Sonic.Proofs.Number.convert_cases f ((buf.drop start).take (len - start)) with
        ⟨_, h'⟩ | ⟨_, _, d, _, h'⟩ | ⟨_, raw, h'⟩ | ⟨_, h'⟩
      · rw [h'] at hr; subst hr
        exact ⟨fun v n h => (by cases h), fun p h => (by cases h)⟩
      · rw [h'] at hr; subst hr
        exact ⟨fun v n h => (by cases h), fun p h => (by cases h)⟩
      · rw [h'] at hr; subst hr
        exact ⟨fun v n h => (by cases h), fun p h => (by cases h)⟩
      · rw [h'] at hr
        rcases pfel_native f ((buf.drop start).take (len - start)) with ⟨v', p', hp, h''⟩ | h''
        · rw [h''] at hr; subst hr
          refine ⟨fun v n h => ?_, fun p h => (by cases h)⟩
          simp only [PResult.ok.injEq] at h
          rcases hp with hp | hp <;> rw [hp] at h <;> exact absurd h.2.2 (by decide)
        · rw [h'', htail] at hr
          subst hr
          simp only [scanNumber, ht, hval]
          cases hround : Sonic.Spec.Rne.round t.neg t.mantissa t.exponent with
          | none =>
            refine ⟨fun v n h => (by cases h), fun p h => ?_⟩
            simp only [PResult.err.injEq] at h
            simp only [Option.map_none]
            rw [← h.2, hnext]
          | some b =>
            refine ⟨fun v n h => ?_, fun p h => (by cases h)⟩
            simp only [PResult.ok.injEq] at h
            simp only [Option.map_some]
            rw [← h.1, ← h.2.1, hnext]
    exact key _ rfl
  unfold parseNumber
  rcases (Sonic.Proofs.Number.accumulate_spec buf start).2 t ht with ⟨_, _, ha⟩ | ⟨_, _, ha⟩ | ⟨hn, f, ha, hgood⟩
  · rw [ha]; exact ⟨fun v n h => (by cases h), fun p h => (by cases h)⟩
  · rw [ha]; exact ⟨fun v n h => (by cases h), fun p h => (by cases h)⟩
  · rw [ha]; exact hspec f hgood hn

end Sonic.Proofs.Dec
