import Lean.Elab.Tactic
import Sonic.Model.NormalFast

/-!
# Helper for C04: `ParseFloatingNormalFast` without matchers

`Sonic.Model.NormalFast.parseFloatingNormalFast` is a literal transcription with `let (hi, exact) := if .. then .. else ..`.
Such a `match` on an `if` whose condition is `x < 510` for an open term `x` containing `% 2^64` cannot be weak-head
normalised by the kernel (matchers carry `abbrev` hints, so they are unfolded eagerly; the kernel then evaluates
`Nat.decLt` on an open term and peels the literal `2^64` in unary).  For the same reason `unfold`, the equation lemma
`parseFloatingNormalFast.eq_1`, `simp only [parseFloatingNormalFast]`, `split` ... all make the kernel loop.

This file proves, with a few explicit proof-term-building tactics that never ask for such a normalisation,
`nf_eq : parseFloatingNormalFast e m neg = nfClean ...`, where `nfClean` is the same computation written with
projections and nested `if`s (`nfSel` chooses the high word, `nfTail` rounds and packs).  Every step is a rewrite
with one of the generic matcher lemmas `m1`/`m3`/`m5` (`match p with | (a, b) => f a b = f p.1 p.2`), a head
beta/zeta step, or the final `Eq.refl` checked by the kernel between two matcher-free terms.
-/
open Sonic.Model.EiselLemire Sonic.Model.NormalFast

namespace Sonic.Proofs.NormalFast

open Lean Elab Tactic Meta in
/-- `delta_fun_eq c with H` adds `H : @c = <the value of the definition c>` (proved by `Eq.refl`). -/
elab "delta_fun_eq " id:ident " with " h:ident : tactic => withMainContext do
  let n ← realizeGlobalConstNoOverloadWithInfo id
  let info ← getConstInfo n
  let some v := info.value? | throwError "no value"
  let c := mkConst n (info.levelParams.map mkLevelParam)
  let ty ← mkEq c v
  let pf ← mkExpectedTypeHint (← mkEqRefl v) ty
  let g ← getMainGoal
  let g' ← g.assert h.getId ty pf
  let (_, g'') ← g'.intro1P
  replaceMainGoal [g'']

/-- head beta / head zeta only (what the kernel's `whnf_core` does without unfolding anything) -/
def headBZ : Nat → Lean.Expr → Lean.Expr
  | 0, e => e
  | n + 1, e =>
    match e.headBeta with
    | .letE _ _ v b _ => headBZ n (b.instantiate1 v)
    | e' => e'

open Lean Elab Tactic Meta in
/-- in a goal `a = b`, replace `a` by its head-beta/zeta normal form -/
elab "head_reduce_lhs" : tactic => withMainContext do
  let g ← getMainGoal
  let t ← instantiateMVars (← g.getType)
  let some (_, a, b) := t.eq? | throwError "not an equation"
  let g' ← g.replaceTargetDefEq (← mkEq (headBZ 100 a) b)
  replaceMainGoal [g']

open Lean Elab Tactic Meta in
/-- in a goal `(if c then a else b) = r`, replace `a` by its head-beta/zeta normal form -/
elab "head_reduce_then" : tactic => withMainContext do
  let g ← getMainGoal
  let t ← instantiateMVars (← g.getType)
  let some (_, a, b) := t.eq? | throwError "not an equation"
  unless a.isAppOfArity ``ite 5 do throwError "lhs is not an if-then-else"
  let args := a.getAppArgs
  let a' := mkAppN a.getAppFn (args.set! 3 (headBZ 100 args[3]!))
  let g' ← g.replaceTargetDefEq (← mkEq a' b)
  replaceMainGoal [g']

theorem m1 {α : Type} (p : Nat × Nat) (f : Nat → Nat → α) :
    parseFloatingNormalFast.match_1 (fun _ => α) p f = f p.1 p.2 := by cases p; rfl
theorem m5 {α : Type} (p : Nat × Bool) (f : Nat → Bool → α) :
    parseFloatingNormalFast.match_5 (fun _ => α) p f = f p.1 p.2 := by cases p; rfl
theorem m3 {α : Type} (p : Nat × Int) (f : Nat → Int → α) :
    parseFloatingNormalFast.match_3 (fun _ => α) p f = f p.1 p.2 := by cases p; rfl

open Lean Elab Tactic Meta in
/-- `peel_match M using lem`: find the first application `M (fun _ => α) p alt` (three arguments, no loose bound
    variables) in the goal, and rewrite all its occurrences with `lem p alt : M (fun _ => α) p alt = alt p.1 p.2`,
    the right-hand side being head-beta/zeta reduced.  Everything is built explicitly (no unification). -/
elab "peel_match " mid:ident " using " lid:ident : tactic => withMainContext do
  let mName ← realizeGlobalConstNoOverloadWithInfo mid
  let lName ← realizeGlobalConstNoOverloadWithInfo lid
  let g ← getMainGoal
  let t ← instantiateMVars (← g.getType)
  let some occ := t.find? (fun e => e.isAppOfArity mName 3 && !e.hasLooseBVars)
    | throwError "no occurrence"
  let args := occ.getAppArgs
  let motive := args[0]!
  let p := args[1]!
  let alt := args[2]!
  let .lam _ _ α _ := motive | throwError "motive is not a lambda"
  if α.hasLooseBVars then throwError "dependent motive"
  let h := mkApp3 (mkConst lName) α p alt
  let hTy ← inferType h
  let some (_, _, rhs) := hTy.eq? | throwError "lemma is not an equation"
  let rhs' := headBZ 100 rhs
  let occTy ← inferType occ
  let (motiveFn, newGoalTy) ← withLocalDeclD `x occTy fun x => do
    let body := t.replace (fun e => if e == occ then some x else none)
    let m ← mkLambdaFVars #[x] body
    return (m, body.replaceFVar x rhs')
  let newGoal ← mkFreshExprSyntheticOpaqueMVar newGoalTy (← g.getTag)
  let eqPf ← mkCongrArg motiveFn h
  g.assign (mkApp4 (mkConst ``Eq.mpr [Level.zero]) t newGoalTy eqPf newGoal)
  replaceMainGoal [newGoal.mvarId!]

open Lean Elab Tactic Meta in
/-- close `a = b` by `Eq.refl a`, leaving the definitional-equality check to the kernel -/
elab "kernel_rfl" : tactic => withMainContext do
  let g ← getMainGoal
  let t ← instantiateMVars (← g.getType)
  let some (_, a, _) := t.eq? | throwError "not an equation"
  g.assign (← mkExpectedTypeHint (← mkEqRefl a) t)
  replaceMainGoal []

/-- choice of the high word: `(hi, exact)` -/
def nfSel (sig1 sig2 sig2Ext : Nat) : Nat × Bool :=
  let hi := (mulU64 sig1 sig2).1
  let lo := (mulU64 sig1 sig2).2
  let bits := hi % 512
  if (bits + (2 ^ 64 - 1)) % 2 ^ 64 < 510 then (hi, true)
  else
    let hi2 := (mulU64 sig1 sig2Ext).1
    let add := (lo + hi2) % 2 ^ 64
    if (add + 1) % 2 ^ 64 > 1 then
      let carry : Nat := if add < lo ∨ add < hi2 then 1 else 0
      ((hi + carry) % 2 ^ 64, true)
    else (hi, false)

/-- the rounding tail, given the exact high word -/
def nfTail (hi : Nat) (exp2 : Int) (neg : Bool) : Nat :=
  let lz : Nat := if hi < 2 ^ 63 then 1 else 0
  let hi := hi * 2 ^ lz % 2 ^ 64
  let exp2 := exp2 - (lz : Int)
  let exp2 := exp2 + 64
  let roundUp := hi / 2 ^ 10 % 2 = 1
  let hi := if roundUp then (hi + 2 ^ 10) % 2 ^ 64 else hi
  let p : Nat × Int := if hi < 2 ^ 10 then (2 ^ 63, exp2 + 1) else (hi, exp2)
  let hi := p.1 / 2 ^ 11
  let exp2 := p.2 + (64 - 53 + 52)
  let exp2 := exp2 + 1023
  let raw := (toU64 exp2 * 2 ^ 52 % 2 ^ 64) ||| (hi % 2 ^ 52)
  if neg then raw ||| 2 ^ 63 else raw

def nfClean (sig1 sig2 sig2Ext : Nat) (exp2 : Int) (neg : Bool) : Option Nat :=
  if (nfSel sig1 sig2 sig2Ext).2 = true then some (nfTail (nfSel sig1 sig2 sig2Ext).1 exp2 neg) else none

theorem nf_eq (e : Int) (m : Nat) (neg : Bool) :
    parseFloatingNormalFast e m neg =
      nfClean (m * 2 ^ clz64 m % 2 ^ 64) (pow10M128 (e + 348).toNat).2 (pow10M128 (e + 348).toNat).1
        (((217706 * e - 4128768) >>> 16) - (clz64 m : Int)) neg := by
  delta_fun_eq parseFloatingNormalFast with H
  rw [H]
  clear H
  head_reduce_lhs
  peel_match parseFloatingNormalFast.match_1 using m1
  peel_match parseFloatingNormalFast.match_5 using m5
  head_reduce_then
  peel_match parseFloatingNormalFast.match_3 using m3
  peel_match parseFloatingNormalFast.match_1 using m1
  kernel_rfl

end Sonic.Proofs.NormalFast
