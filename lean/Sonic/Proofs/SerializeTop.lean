import Sonic.Proofs.SerializeRun

/-!
# C06 helper lemmas: `SerializeImpl` as a whole, `Dump`, reuse of the buffer, and `rT = render`
-/
namespace Sonic.Proofs.Serialize
open Sonic.Spec Sonic.Spec.Render Sonic.Model Sonic.Model.Stack Sonic.Model.Serialize Sonic.Proofs.SerializeStack

/-! ## the total printer is the reference printer on finite well-formed documents -/

theorem dropLast_snoc (a : List Nat) (t : Nat) : (a ++ [t]).dropLast = a := by simp

theorem emitA_ne_nil (F : FtoaFn) : ∀ x xs, emitA F (x :: xs) ≠ [] := by intro x xs; simp [emitA]
theorem emitO_ne_nil (F : FtoaFn) : ∀ kv kvs, emitO F (kv :: kvs) ≠ [] := by
  intro kv kvs; obtain ⟨k, v⟩ := kv; simp [emitO]

theorem dropLast_emitA (F : FtoaFn) (x : JVal) (xs : List JVal) :
    (emitA F (x :: xs)).dropLast = if xs.isEmpty then rT F x else rT F x ++ 0x2C :: (emitA F xs).dropLast := by
  cases xs with
  | nil => simp [emitA]
  | cons y ys =>
    have h := emitA_ne_nil F y ys
    simp only [emitA] at h ⊢
    rw [List.dropLast_append_of_ne_nil (by simp), List.dropLast_cons_of_ne_nil h]
    simp

theorem emitO_cons (F : FtoaFn) (k : List Nat) (v : JVal) (kvs : List (List Nat × JVal)) :
    emitO F ((k, v) :: kvs) = (quote k ++ 0x3A :: rT F v) ++ [0x2C] ++ emitO F kvs := by simp [emitO]

theorem dropLast_emitO (F : FtoaFn) (k : List Nat) (v : JVal) (kvs : List (List Nat × JVal)) :
    (emitO F ((k, v) :: kvs)).dropLast =
      if kvs.isEmpty then quote k ++ 0x3A :: rT F v else quote k ++ 0x3A :: rT F v ++ 0x2C :: (emitO F kvs).dropLast := by
  cases kvs with
  | nil =>
    rw [emitO_cons]
    simp only [emitO, List.append_nil, List.isEmpty_nil, if_true]
    exact dropLast_snoc _ _
  | cons y ys =>
    have h := emitO_ne_nil F y ys
    rw [emitO_cons, List.dropLast_append_of_ne_nil h]
    simp

mutual
theorem render_eq_rT {F : FtoaFn} (hF : FtoaSize F) :
    ∀ v : JVal, WF v = true → AllFinite v = true → render (ftoaText F) v = some (rT F v)
  | .null, _, _ => rfl
  | .bool true, _, _ => rfl
  | .bool false, _, _ => rfl
  | .num (.uint n), _, _ => rfl
  | .num (.sint n), _, _ => rfl
  | .num (.real bits), hw, hf => by
    have hb : bits < 2 ^ 64 := by simpa [WF, numWF] using hw
    have hfb : finiteBits bits = true := by simpa [AllFinite, numFinite] using hf
    obtain ⟨o, ho, h1, _, _⟩ := hF.finite bits hb hfb
    have hne : ¬ o.text.length = 0 := by omega
    simp [render, renderNum, ftoaText, rT, ho, hne]
  | .str s, _, _ => rfl
  | .arr xs, hw, hf => by
    have := renderElems_eq hF xs (by simpa [WF] using hw) (by simpa [AllFinite] using hf)
    simp [render, rT, this]
  | .obj kvs, hw, hf => by
    have := renderMembers_eq hF kvs (by simpa [WF] using hw) (by simpa [AllFinite] using hf)
    simp [render, rT, this]
theorem renderElems_eq {F : FtoaFn} (hF : FtoaSize F) :
    ∀ xs : List JVal, wfList xs = true → allFiniteList xs = true →
      renderElems (ftoaText F) xs = some (emitA F xs).dropLast
  | [], _, _ => rfl
  | x :: xs, hw, hf => by
    have hw' : WF x = true ∧ wfList xs = true := by simpa [wfList] using hw
    have hf' : AllFinite x = true ∧ allFiniteList xs = true := by simpa [allFiniteList] using hf
    have h1 := render_eq_rT hF x hw'.1 hf'.1
    have h2 := renderElems_eq hF xs hw'.2 hf'.2
    rw [dropLast_emitA]
    simp only [renderElems, h1, h2]
theorem renderMembers_eq {F : FtoaFn} (hF : FtoaSize F) :
    ∀ kvs : List (List Nat × JVal), wfMems kvs = true → allFiniteMems kvs = true →
      renderMembers (ftoaText F) kvs = some (emitO F kvs).dropLast
  | [], _, _ => rfl
  | (k, v) :: kvs, hw, hf => by
    have hw' : (bytesWF k = true ∧ WF v = true) ∧ wfMems kvs = true := by simpa [wfMems] using hw
    have hf' : AllFinite v = true ∧ allFiniteMems kvs = true := by simpa [allFiniteMems] using hf
    have h1 := render_eq_rT hF v hw'.1.2 hf'.1
    have h2 := renderMembers_eq hF kvs hw'.2 hf'.2
    rw [dropLast_emitO]
    simp only [renderMembers, h1, h2]
end

/-! ## `render = none` exactly for non-finite documents -/

mutual
theorem render_none {F : FtoaFn} (hF : FtoaSize F) :
    ∀ v : JVal, WF v = true → AllFinite v = false → render (ftoaText F) v = none
  | .null, _, hf => by simp [AllFinite] at hf
  | .bool _, _, hf => by simp [AllFinite] at hf
  | .str _, _, hf => by simp [AllFinite] at hf
  | .num (.uint n), _, hf => by simp [AllFinite, numFinite] at hf
  | .num (.sint n), _, hf => by simp [AllFinite, numFinite] at hf
  | .num (.real bits), hw, hf => by
    have hb : bits < 2 ^ 64 := by simpa [WF, numWF] using hw
    have hfb : finiteBits bits = false := by simpa [AllFinite, numFinite] using hf
    obtain ⟨o, ho, h1, _⟩ := hF.nonfinite bits hb hfb
    simp [render, renderNum, ftoaText, ho, h1]
  | .arr xs, hw, hf => by
    have := renderElems_none hF xs (by simpa [WF] using hw) (by simpa [AllFinite] using hf)
    simp [render, this]
  | .obj kvs, hw, hf => by
    have := renderMembers_none hF kvs (by simpa [WF] using hw) (by simpa [AllFinite] using hf)
    simp [render, this]
theorem renderElems_none {F : FtoaFn} (hF : FtoaSize F) :
    ∀ xs : List JVal, wfList xs = true → allFiniteList xs = false → renderElems (ftoaText F) xs = none
  | [], _, hf => by simp [allFiniteList] at hf
  | x :: xs, hw, hf => by
    have hw' : WF x = true ∧ wfList xs = true := by simpa [wfList] using hw
    cases hx : AllFinite x
    · simp [renderElems, render_none hF x hw'.1 hx]
    · have hxs : allFiniteList xs = false := by simpa [allFiniteList, hx] using hf
      simp only [renderElems, renderElems_none hF xs hw'.2 hxs]
      split <;> simp_all
theorem renderMembers_none {F : FtoaFn} (hF : FtoaSize F) :
    ∀ kvs : List (List Nat × JVal), wfMems kvs = true → allFiniteMems kvs = false →
      renderMembers (ftoaText F) kvs = none
  | [], _, hf => by simp [allFiniteMems] at hf
  | (k, v) :: kvs, hw, hf => by
    have hw' : (bytesWF k = true ∧ WF v = true) ∧ wfMems kvs = true := by simpa [wfMems] using hw
    cases hx : AllFinite v
    · simp [renderMembers, render_none hF v hw'.1.2 hx]
    · have hxs : allFiniteMems kvs = false := by simpa [allFiniteMems, hx] using hf
      simp only [renderMembers, renderMembers_none hF kvs hw'.2 hxs]
      split <;> simp_all
end

/-! ## one call of `SerializeImpl` -/

/-- the outcome of `SerializeImpl(&v, wb)` from any buffer state satisfying the representation invariant -/
theorem serialize_spec {cfg : Cfg} (hc : CfgOK cfg) (v : JVal) (hwf : WF v = true) (wb : Stk) (hinv : StackInv wb) :
    (AllFinite v = true ∧ ∃ wb' stk', serialize cfg v wb = .done Gen.kErrorNone wb' stk' ∧
        wb'.buf = rT cfg.ftoa v ∧ StackInv wb') ∨
    (AllFinite v = false ∧ ∃ wb' stk', serialize cfg v wb = .done Gen.kSerErrorInfinity wb' stk' ∧ StackInv wb') := by
  have hres : StackInv (wb.clear.reserve ((if isContainer v then nodeSize v else 1) * kExpectMinifyRatio + 64)) :=
    reserve_inv (clear_inv hinv) _
  have hbuf0 : (wb.clear.reserve ((if isContainer v then nodeSize v else 1) * kExpectMinifyRatio + 64)).buf = [] := by
    rw [reserve_buf]; rfl
  have hcap0 := (reserve_cap_ge wb.clear ((if isContainer v then nodeSize v else 1) * kExpectMinifyRatio + 64)).1
  generalize hw0 : wb.clear.reserve ((if isContainer v then nodeSize v else 1) * kExpectMinifyRatio + 64) = wb0
    at hres hbuf0 hcap0
  by_cases hsingle : isSingle v = true
  · -- scalar or empty container at the root
    have hstart : start cfg v wb = .goto .valBegin
        { wb := wb0, stk := Stk.dflt, ctx := [], isObj := isObject v, valCnt := 1, memberCnt := 0, node := [v] } := by
      simp only [start, hsingle, if_true, hw0]
    have hshape : isObject v = true → ObjShape [v] 0 := by
      intro _
      exact ⟨[], rfl, Or.inr ⟨v, rfl⟩⟩
    obtain ⟨c, hc1, hc2, hreach⟩ := seq hc (isSingle v) (nodesList [v])
      { wb := wb0, stk := Stk.dflt, ctx := [], isObj := isObject v, valCnt := 1, memberCnt := 0, node := [v] }
      (by simp) (Nat.le_refl _)
      ⟨hres, dflt_inv, by simp [dflt_size], rfl, hshape, by simp [wfList, hwf]⟩
    have hnl : nodesList [v] = nodes v := by simp [nodesList]
    simp only [hnl] at hc2
    have hfuel : fuelOf v = (fuelOf v - c - 1 + 1) + c := by unfold fuelOf; omega
    rcases hreach with ⟨hf, s', hrun, post⟩ | ⟨hf, hrun⟩
    · left
      have hfv : AllFinite v = true := by simpa [allFiniteList] using hf
      refine ⟨hfv, ?_⟩
      have hne : s'.wb.buf ≠ [] := by rw [post.buf]; simp [emitN]
      obtain ⟨wb', hstop, hb, hi⟩ := scopeEnd_doc (cfg := cfg) (isSingle v) s' post.wbInv hne
        (by intro ho; rw [post.isObj] at ho; exact post.mc ho)
        (by rw [post.stkSize]; exact dflt_size)
      refine ⟨wb', s'.stk, ?_, ?_, hi⟩
      · simp only [serialize, hstart]
        rw [hfuel, hrun]
        exact run_stop (l := .scopeEnd) hstop _
      · rw [hb, hsingle, post.buf]
        simp [emitN, hbuf0]
    · right
      have hfv : AllFinite v = false := by simpa [allFiniteList] using hf
      refine ⟨hfv, ?_⟩
      obtain ⟨wb', stk', h, hi⟩ := hrun (fuelOf v - c - 1 + 1)
      refine ⟨wb', stk', ?_, hi⟩
      simp only [serialize, hstart]
      rw [hfuel]; exact h
  · -- non-empty container at the root
    have hsingle' : isSingle v = false := by simpa using hsingle
    obtain ⟨hcv, hchne⟩ := not_single v hsingle'
    have hroom : Room wb0 1 := by
      refine ⟨?_, hres.cap_le⟩
      have : wb0.size = 0 := by simp [Stk.size, hbuf0]
      have := bound_first (if isContainer v then nodeSize v else 1)
      omega
    obtain ⟨wb1, hw1, hb1, hr1⟩ := pushUnsafe_ex cfg.strict [openCh (isObject v)] hroom (by simp)
    have hstart : start cfg v wb = .goto .valBegin
        { wb := wb1, stk := Stk.dflt, ctx := [], isObj := isObject v, valCnt := nodeSize v <<< b2n (isObject v),
          memberCnt := nodeSize v, node := children v } := by
      simp only [start, hsingle', hw0, hw1]
      simp
    obtain ⟨c, hc1, hc2, hreach⟩ := seq hc (isSingle v) (nodesList (children v))
      { wb := wb1, stk := Stk.dflt, ctx := [], isObj := isObject v, valCnt := nodeSize v <<< b2n (isObject v),
        memberCnt := nodeSize v, node := children v }
      hchne (Nat.le_refl _)
      ⟨hr1.inv, dflt_inv, by simp [dflt_size], (children_length v hcv).symm,
       by
         intro ho
         cases v with
         | obj kvs => exact objShape_flat kvs
         | _ => simp [isObject] at ho,
       by simp only; rw [wf_children v hcv]; exact hwf⟩
    have hnc := nodes_children v hcv
    simp only at hc2
    have hfuel : fuelOf v = (fuelOf v - c - 1 + 1) + c := by unfold fuelOf; omega
    rcases hreach with ⟨hf, s', hrun, post⟩ | ⟨hf, hrun⟩
    · left
      simp only at hf
      rw [allFinite_children v hcv] at hf
      refine ⟨hf, ?_⟩
      have hE := emitN_ne_nil cfg.ftoa (isObject v) (children v) hchne
      have hne : s'.wb.buf ≠ [] := by rw [post.buf]; simp [hE]
      obtain ⟨wb', hstop, hb, hi⟩ := scopeEnd_doc (cfg := cfg) (isSingle v) s' post.wbInv hne
        (by intro ho; rw [post.isObj] at ho; exact post.mc ho)
        (by rw [post.stkSize]; exact dflt_size)
      refine ⟨wb', s'.stk, ?_, ?_, hi⟩
      · simp only [serialize, hstart]
        rw [hfuel, hrun]
        exact run_stop (l := .scopeEnd) hstop _
      · rw [hb, hsingle', post.buf, post.isObj]
        simp only [hb1, hbuf0, Bool.false_eq_true, if_false, List.nil_append]
        rw [dropLast_append_ne _ _ hE, emitN_children cfg.ftoa v hcv]
        simp
    · right
      simp only at hf
      rw [allFinite_children v hcv] at hf
      refine ⟨hf, ?_⟩
      obtain ⟨wb', stk', h, hi⟩ := hrun (fuelOf v - c - 1 + 1)
      refine ⟨wb', stk', ?_, hi⟩
      simp only [serialize, hstart]
      rw [hfuel]; exact h

/-! ## reuse of the same buffer, `Dump()` -/

theorem serializeN_spec {cfg : Cfg} (hc : CfgOK cfg) (v : JVal) (hwf : WF v = true) :
    ∀ (n : Nat) (wb : Stk), StackInv wb →
    (AllFinite v = true ∧ ∃ wb' stk', serializeN cfg v n wb = .done Gen.kErrorNone wb' stk' ∧
        wb'.buf = rT cfg.ftoa v ∧ StackInv wb') ∨
    (AllFinite v = false ∧ ∃ wb' stk', serializeN cfg v n wb = .done Gen.kSerErrorInfinity wb' stk' ∧ StackInv wb')
  | 0, wb, hinv => by simpa [serializeN] using serialize_spec hc v hwf wb hinv
  | n + 1, wb, hinv => by
    rcases serialize_spec hc v hwf wb hinv with ⟨_, wb', stk', h, _, hi⟩ | ⟨_, wb', stk', h, hi⟩
    · simpa [serializeN, h] using serializeN_spec hc v hwf n wb' hi
    · simpa [serializeN, h] using serializeN_spec hc v hwf n wb' hi

theorem dump_spec {cfg : Cfg} (hc : CfgOK cfg) (v : JVal) (hwf : WF v = true) :
    dump cfg v = some (if AllFinite v then rT cfg.ftoa v else []) := by
  rcases serialize_spec hc v hwf Stk.dflt dflt_inv with ⟨hf, wb', stk', h, hb, hi⟩ | ⟨hf, wb', stk', h, hi⟩
  · have hroom := grow_room hi 1
    have hsc := scratch_ok cfg.strict hroom (Nat.le_refl 1)
    simp [dump, h, Stk.toString, hsc, grow_buf, hb, hf]
  · simp [dump, h, hf, Gen.kSerErrorInfinity, Gen.kErrorNone]

end Sonic.Proofs.Serialize
