import Sonic.Proofs.OnDemandBounds
import Sonic.Proofs.OnDemandString
import Sonic.Proofs.OnDemandDec

/-!
# `GetOnDemand` on ARBITRARY input: no fault, termination, slice bounds (C11)
-/
namespace Sonic.Proofs.OnDemand
open Sonic.Model.OnDemand Sonic.Gen Sonic.Spec.Pointer

/-- the private key buffer satisfies the decoder's context: the copied closing quote is the first unescaped
    quote of `kbuf`, and exactly 31 bytes follow it -/
theorem kbuf_ctx {W : Nat} (hW : 0 < W) (hW32 : W ≤ 32) (d : List Nat) (hd : ∀ x ∈ d, x < 256)
    (junk : Nat → Nat) (hj : ∀ i, junk i < 256) (sp i : Nat) (hi : scanL false (d.drop sp) = some i) :
    KCtx (mkKbuf ((d.drop sp).take (i + 1)) junk) i W ∧
      closeAt (mkKbuf ((d.drop sp).take (i + 1)) junk) 0 = some i := by
  have hlt := scanL_lt _ _ _ hi
  have hl : ((d.drop sp).take (i + 1)).length = i + 1 := by rw [List.length_take]; omega
  refine ⟨⟨hW, hW32, ?_, ?_⟩, ?_⟩
  · simp [mkKbuf, hl]
  · intro k c hc
    have hm := List.mem_of_getElem? hc
    simp only [mkKbuf, List.mem_append, List.mem_map, List.mem_range] at hm
    rcases hm with h | ⟨a, _, rfl⟩
    · exact hd c (List.mem_of_mem_drop (List.mem_of_mem_take h))
    · exact hj a
  · unfold closeAt mkKbuf
    rw [List.drop_zero, scanL_append, scanL_take _ _ _ hi]
    rfl

theorem keyCmp_ok {W : Nat} (hW : 0 < W) (hW32 : W ≤ 32) (d : List Nat) (hd : ∀ x ∈ d, x < 256)
    (junk : Nat → Nat) (hj : ∀ i, junk i < 256) (key : List Nat) (sp i skips : Nat)
    (hi : scanL false (d.drop sp) = some i) (hsp : sp ≤ d.length) :
    ∃ r, keyCmp W d junk key sp i skips = .ok r := by
  have hlt := scanL_lt _ _ _ hi
  rw [List.length_drop] at hlt
  unfold keyCmp
  split
  · rw [rdVec_ok (by omega)]
    simp only [bind, Except.bind, pure, Except.pure, throw, throwThe, MonadExceptOf.throw]
    obtain ⟨ctx, hc⟩ := kbuf_ctx hW hW32 d hd junk hj sp i hi
    obtain ⟨r, src, e, hf⟩ := decRun_ok ctx hc
    rw [e]
    cases r with
    | err code => exact ⟨_, rfl⟩
    | ok n next b =>
      simp only
      obtain ⟨out, _, hn, hI, hnext⟩ := hf
      have h1 := hI.le
      have h2 := hI.len
      have h3 := ctx.len
      split
      · rw [if_pos (by omega)]; exact ⟨_, rfl⟩
      · exact ⟨_, rfl⟩
  · split
    · rw [rdVec_ok (by omega)]; exact ⟨_, rfl⟩
    · exact ⟨_, rfl⟩

theorem objKey_ok {W : Nat} (hW : 0 < W) (hW32 : W ≤ 32) (d : List Nat) (hd : ∀ x ∈ d, x < 256)
    (junk : Nat → Nat → Nat) (hj : ∀ s i, junk s i < 256) (key : List Nat) :
    ∀ (f : Nat) (cache : Cache) (pos : Nat), pos < d.length → CInv d cache pos → d.length - pos < f →
    ∃ r, objKey W d junk key f cache pos = .ok r ∧
      (∀ p' c', r = .inr (p', c') → pos < p' ∧ p' ≤ d.length ∧ CInv d c' p') := by
  intro f
  induction f with
  | zero => intro _ pos _ _ h; omega
  | succ f ih =>
    intro cache pos hlt hI hf
    unfold objKey
    obtain ⟨r, p1, e1, hpost⟩ := skipString_seq hW d (pos + 1) (by omega)
    simp only [bind, Except.bind, pure, Except.pure, throw, throwThe, MonadExceptOf.throw]
    rw [e1]
    simp only
    split
    · exact ⟨_, rfl, fun p' c' h => by cases h⟩
    rename_i hr0
    have hr0' : r ≠ 0 := by simpa using hr0
    cases hs : scanL false (d.drop (pos + 1)) with
    | none => exact absurd (hpost.2 hs) hr0'
    | some i =>
      obtain ⟨_, hp1, _⟩ := hpost.1 i hs
      have hil := scanL_lt _ _ _ hs
      rw [List.length_drop] at hil
      rw [if_neg (by omega)]
      have hsn : p1 - 1 - (pos + 1) = i := by omega
      rw [hsn]
      obtain ⟨cmp, ec⟩ := keyCmp_ok hW hW32 d hd (junk (pos + 1)) (hj (pos + 1)) key (pos + 1) i r hs (by omega)
      rw [ec]
      cases cmp with
      | inl e => exact ⟨_, rfl, fun p' c' h => by cases h⟩
      | inr isMatch =>
        simp only
        obtain ⟨c2, p2, cache2, e2, h21, h22, hI2, _⟩ := skipSpaceSafe_ok d cache p1 (by omega) (hI.mono (by omega))
        rw [e2]
        simp only
        split
        · exact ⟨_, rfl, fun p' c' h => by cases h⟩
        split
        · refine ⟨_, rfl, fun p' c' h => ?_⟩
          injection h with h; injection h with h1 h2; subst h1; subst h2
          exact ⟨by omega, h22, hI2⟩
        obtain ⟨c3, p3, cache3, e3, h31, h32, hI3, _⟩ := skipSpaceSafe_ok d cache2 p2 h22 hI2
        rw [e3]
        simp only
        obtain ⟨b4, p4, e4, h4⟩ := skipCSQ_ok hW d c3 p3 h32
        rw [e4]
        simp only
        split
        · exact ⟨_, rfl, fun p' c' h => by cases h⟩
        rename_i hb4
        have hb4' : b4 = true := by simpa using hb4
        obtain ⟨h41, h42⟩ := h4 hb4'
        obtain ⟨t, p5, e5, h51, h52, h53⟩ := getNextToken_ok hW d [0x22, 0x7D] p4
        rw [e5]
        simp only
        split
        · exact ⟨_, rfl, fun p' c' h => by cases h⟩
        rename_i ht
        have ht' : t = 0x22 := by simpa using ht
        have hp5 : p5 < d.length := h53 (by omega)
        obtain ⟨r6, e6, h6⟩ := ih cache3 p5 hp5 (hI3.mono (by omega)) (by omega)
        refine ⟨r6, e6, fun p' c' h => ?_⟩
        obtain ⟨h61, h62, h63⟩ := h6 p' c' h
        exact ⟨by omega, h62, h63⟩

theorem query_ok {W : Nat} (hW : 0 < W) (hW32 : W ≤ 32) (d : List Nat) (hd : ∀ x ∈ d, x < 256)
    (junk : Nat → Nat → Nat) (hj : ∀ s i, junk s i < 256) :
    ∀ (path : List Step) (cache : Cache) (pos : Nat), pos ≤ d.length → CInv d cache pos →
    ∃ r, query W d junk path cache pos = .ok r ∧ (∀ s p', r = .ok s p' → s < p' ∧ p' ≤ d.length) := by
  intro path
  induction path with
  | nil => intro cache pos hle hI; exact skipOne_ok hW d cache pos hle hI
  | cons st rest ih =>
    intro cache pos hle hI
    unfold query
    obtain ⟨c1, p1, cache1, e1, h11, h12, hI1, _⟩ := skipSpaceSafe_ok d cache pos hle hI
    simp only [bind, Except.bind, pure, Except.pure]
    rw [e1]
    simp only
    cases st with
    | key k =>
      simp only
      split
      · exact ⟨_, rfl, fun s p' h => by cases h⟩
      obtain ⟨t, p2, e2, h21, h22, h23⟩ := getNextToken_ok hW d [0x22, 0x7D] p1
      rw [e2]
      simp only
      split
      · exact ⟨_, rfl, fun s p' h => by cases h⟩
      rename_i ht
      have ht' : t = 0x22 := by simpa using ht
      have hp2 : p2 < d.length := h23 (by omega)
      obtain ⟨r3, e3, h3⟩ := objKey_ok hW hW32 d hd junk hj k (d.length + 2) cache1 p2 hp2 (hI1.mono h21) (by omega)
      rw [e3]
      cases r3 with
      | inl e => obtain ⟨code, p⟩ := e; exact ⟨_, rfl, fun s p' h => by cases h⟩
      | inr x =>
        obtain ⟨p3, cache3⟩ := x
        simp only
        obtain ⟨_, h32, hI3⟩ := h3 p3 cache3 rfl
        exact ih cache3 p3 h32 hI3
    | idx i =>
      simp only
      split
      · exact ⟨_, rfl, fun s p' h => by cases h⟩
      split
      · exact ⟨_, rfl, fun s p' h => by cases h⟩
      · obtain ⟨e, p2, cache2, e2, h2⟩ := getArrayElem_ok hW d i.toNat cache1 p1 h12 hI1
        rw [e2]
        simp only
        split
        · exact ⟨_, rfl, fun s p' h => by cases h⟩
        · rename_i he
          have he' : e = 0 := by simpa using he
          obtain ⟨_, h22, hI2⟩ := h2 he'
          exact ih cache2 p2 h22 hI2

/-- **C11, core**: for every byte string and every path `GetOnDemand` returns (no out-of-bounds read of the
    input, no access outside `kbuf`, no undefined shift, every loop terminates within its fuel); a success reports
    a slice `[start, stop)` with `start < stop ≤ len` and `off = stop`; an error reports an empty target -/
theorem getOnDemand_ok {W : Nat} (hW : 0 < W) (hW32 : W ≤ 32) (d : List Nat) (hd : ∀ x ∈ d, x < 256)
    (hlen : d.length < 2 ^ 64) (junk : Nat → Nat → Nat) (hj : ∀ s i, junk s i < 256) (path : List Step) :
    ∃ r, getOnDemand W d junk path = .ok r ∧
      (∀ s e off, r = .ok s e off → s < e ∧ e ≤ d.length ∧ off = e) ∧
      (∀ c off t, r = .err c off t → t = 0) := by
  unfold getOnDemand
  obtain ⟨r, e, h⟩ := query_ok hW hW32 d hd junk hj path Cache.init 0 (Nat.zero_le _) (CInv.init d 0)
  simp only [bind, Except.bind, pure, Except.pure]
  rw [e]
  cases r with
  | err code pos =>
    refine ⟨_, rfl, fun s e off h => (by cases h), fun c off t h => ?_⟩
    injection h with _ _ h; exact h.symm
  | ok start pos =>
    obtain ⟨h1, h2⟩ := h start pos rfl
    refine ⟨_, rfl, fun s e off h => ?_, fun c off t h => by cases h⟩
    injection h with hs he ho
    subst hs; subst ho
    have : start + (pos + 2 ^ 64 - start) % 2 ^ 64 = pos := by
      have : pos + 2 ^ 64 - start = (pos - start) + 2 ^ 64 := by omega
      rw [this, Nat.add_mod_right, Nat.mod_eq_of_lt (by omega)]
      omega
    omega

end Sonic.Proofs.OnDemand
