import Sonic.Proofs.ParsePadVal

/-!
# Two runs of the parser: one `step` of the label machine, and `runSteps` in lock-step
-/
namespace Sonic.Proofs.Parse
open Sonic.Gen Sonic.Spec Sonic.Model.Parse
open Sonic.Proofs.StringDec (get_of_drop drop_mono)

/-! ## `arr_cont` / `obj_cont` -/

/-- a token that is neither `,` nor the closing bracket of the innermost container -/
theorem cont_err_out {W : Nat} {bs pad : List Nat} {s : PState} {f : Frame} {rest : List Frame} {c : Nat}
    (h : MInv bs pad .cont s (f :: rest)) (h1 : c ≠ 0x2C) (h2 : f.isArr = true → c ≠ 0x5D)
    (h3 : f.isArr = false → c ≠ 0x7D) : Exits (step W s (contOf f c)) 2 s.pos := by
  have hd := h.depth
  cases hdd : s.depth with
  | nil => rw [hdd] at hd; exact hd.elim
  | cons d ds =>
    refine ⟨{ s with depth := incr d :: ds, err := kParseErrorInvalidChar }, ?_, rfl, rfl⟩
    unfold contOf
    cases hf : f.isArr with
    | false =>
      have := h3 hf
      simp only [Bool.false_eq_true, if_false, step, bumpDepth, hdd, h1]
      rw [if_pos this]
      rfl
    | true =>
      have := h2 hf
      simp only [if_true, step, bumpDepth, hdd, h1, if_false, this]
      rfl

section two
variable {W1 W2 : Nat} {bs pad1 pad2 : List Nat}

theorem cont_rel (hL : bs.length + 4 < 2 ^ 32) {s1 s2 : PState} {f : Frame} {rest : List Frame} {q c : Nat}
    (a1 : At bs pad1 .cont s1 (f :: rest) q c) (a2 : At bs pad2 .cont s2 (f :: rest) q c)
    {cfg1 cfg2 : PState × Option Label} (e1 : step W1 s1 (contOf f c) = .ok cfg1)
    (e2 : step W2 s2 (contOf f c) = .ok cfg2) : CfgRel W1 W2 bs pad1 pad2 cfg1 cfg2 := by
  have hpp1 := a1.pos
  have hpp2 := a2.pos
  cases hf : f.isArr with
  | true =>
    by_cases h1 : c = 0x2C
    · rw [contOf_arr hf] at e1 e2
      rcases arrCont_step (W := W1) hL a1 hf with ⟨_, _, t1, c1, hs1, at1, _⟩ | ⟨hc, _⟩ | ⟨hc, _⟩
      · rcases arrCont_step (W := W2) hL a2 hf with ⟨_, _, t2, c2, hs2, at2, _⟩ | ⟨hc, _⟩ | ⟨hc, _⟩
        · rw [hs1] at e1; rw [hs2] at e2
          injection e1 with e1; injection e2 with e2
          subst e1; subst e2
          have := tok_det at1.tok at2.tok at1.le
          subst this
          exact .live at1 at2 ⟨hf, rfl⟩
        · omega
        · exact absurd h1 hc
      · omega
      · exact absurd h1 hc
    · by_cases h2 : c = 0x5D
      · rw [contOf_arr hf] at e1 e2
        rcases arrCont_step (W := W1) hL a1 hf with ⟨hc, _⟩ | ⟨_, _, g1, hs1, hl1, _⟩ | ⟨_, hc, _⟩
        · exact absurd hc h1
        · rcases arrCont_step (W := W2) hL a2 hf with ⟨hc, _⟩ | ⟨_, _, g2, hs2, hl2, _⟩ | ⟨_, hc, _⟩
          · exact absurd hc h1
          · rw [hs1] at e1; rw [hs2] at e2
            injection e1 with e1; injection e2 with e2
            subst e1; subst e2
            exact .of_landed hl1 hl2
          · exact absurd h2 hc
        · exact absurd h2 hc
      · have o1 := cont_err_out (W := W1) a1.inv h1 (fun _ => h2) (fun h => by rw [hf] at h; cases h)
        have o2 := cont_err_out (W := W2) a2.inv h1 (fun _ => h2) (fun h => by rw [hf] at h; cases h)
        rw [hpp1] at o1; rw [hpp2] at o2
        exact .of_exits o1 o2 (by decide) e1 e2
  | false =>
    by_cases h1 : c = 0x2C
    · rw [contOf_obj hf] at e1 e2
      rcases objCont_step (W := W1) hL a1 hf with ⟨_, _, t1, c1, hs1, at1, _⟩ | ⟨hc, _⟩ | ⟨hc, _⟩
      · rcases objCont_step (W := W2) hL a2 hf with ⟨_, _, t2, c2, hs2, at2, _⟩ | ⟨hc, _⟩ | ⟨hc, _⟩
        · rw [hs1] at e1; rw [hs2] at e2
          injection e1 with e1; injection e2 with e2
          subst e1; subst e2
          have := tok_det at1.tok at2.tok at1.le
          subst this
          exact .live at1 at2 rfl
        · omega
        · exact absurd h1 hc
      · omega
      · exact absurd h1 hc
    · by_cases h2 : c = 0x7D
      · rw [contOf_obj hf] at e1 e2
        rcases objCont_step (W := W1) hL a1 hf with ⟨hc, _⟩ | ⟨_, _, g1, hs1, hl1, _⟩ | ⟨_, hc, _⟩
        · exact absurd hc h1
        · rcases objCont_step (W := W2) hL a2 hf with ⟨hc, _⟩ | ⟨_, _, g2, hs2, hl2, _⟩ | ⟨_, hc, _⟩
          · exact absurd hc h1
          · rw [hs1] at e1; rw [hs2] at e2
            injection e1 with e1; injection e2 with e2
            subst e1; subst e2
            exact .of_landed hl1 hl2
          · exact absurd h2 hc
        · exact absurd h2 hc
      · have o1 := cont_err_out (W := W1) a1.inv h1 (fun h => by rw [hf] at h; cases h) (fun _ => h2)
        have o2 := cont_err_out (W := W2) a2.inv h1 (fun h => by rw [hf] at h; cases h) (fun _ => h2)
        rw [hpp1] at o1; rw [hpp2] at o2
        exact .of_exits o1 o2 (by decide) e1 e2

end two

/-! ## `obj_key` -/

theorem objKey_eq (W : Nat) (s : PState) : step W s (.objKey 0x22) =
    match parseStr W s with
    | .error e => .error e
    | .ok (s, found) =>
      if s.err ≠ kErrorNone then .ok (s, none) else
      if !found then errInvalidChar s else
      match skip s with
      | .error e => .error e
      | .ok (c, s) =>
        if c ≠ 0x3A then errInvalidChar s else
        match skip s with
        | .error e => .error e
        | .ok (c, s) => valueSwitch W s c .objCont := rfl

open Sonic.Model.StringDec (run) in
/-- an accepted key -/
theorem key_ok_out {W : Nat} {bs pad : List Nat} {s : PState} {f : Frame} {rest : List Frame} {p : Nat}
    (hat : At bs pad .key s (f :: rest) p 0x22) {n next : Nat} {b' out : List Nat}
    (hrun : run W s.buf s.pos = .ok (.ok n next b')) (hok : StrOk bs pad s n next b' out) :
    (¬ s.sax.np < s.sax.cap → Exits (step W s (.objKey 0x22)) 2 next) ∧
    (s.sax.np < s.sax.cap → next = bs.length + 2 → Exits (step W s (.objKey 0x22)) 2 (bs.length + 3)) ∧
    (s.sax.np < s.sax.cap → next ≤ bs.length →
      ∃ c2 s2, At bs pad .val s2 (pushItem (.str (p + 1) n) (f :: rest)) (Json.skipWs bs bs.length next) c2 ∧
        (c2 ≠ 0x3A → Exits (step W s (.objKey 0x22)) 2 (Json.skipWs bs bs.length next + 1)) ∧
        (c2 = 0x3A → ∃ c3 s3, At bs pad .val s3 (pushItem (.str (p + 1) n) (f :: rest))
            (Json.skipWs bs bs.length (Json.skipWs bs bs.length next + 1)) c3 ∧
            step W s (.objKey 0x22) = valueSwitch W s3 c3 .objCont)) := by
  rw [objKey_eq, parseStr_of_ok hrun, hat.pos]
  refine ⟨fun hlt => ?_, fun hlt hin => ?_, fun hlt hin => ?_⟩
  · rw [scalar_full hlt]
    refine ⟨{ s with buf := b', pos := next, err := kParseErrorInvalidChar }, ?_, rfl, rfl⟩
    simp only [hat.inv.err, kErrorNone, ne_eq, not_true_eq_false, if_false, Bool.not_false, if_true]
    rfl
  · rw [scalar_ok hat.inv.st.1 hlt]
    subst hin
    have hM1 : MInv bs pad .val { s with buf := b', pos := bs.length + 2, sax := pushed s.sax (.str (p + 1) n) }
        (pushItem (.str (p + 1) n) (f :: rest)) :=
      hat.inv.push_key hlt _ rfl (hok.binv.congr rfl rfl rfl (Nat.le_refl _)) hat.inv.err rfl rfl
    obtain ⟨k', hsk, hB2⟩ := skip_sentinel hM1.b rfl
    refine ⟨{ s with buf := b', pos := bs.length + 3, cache := k', sax := pushed s.sax (.str (p + 1) n),
                     err := kParseErrorInvalidChar }, ?_, rfl, rfl⟩
    simp only [hat.inv.err, kErrorNone, ne_eq, not_true_eq_false, if_false, Bool.not_true, Bool.false_eq_true]
    simp only [pushed, hat.inv.err] at hsk
    rw [hsk]
    rfl
  · rw [scalar_ok hat.inv.st.1 hlt]
    have hM1 : MInv bs pad .val { s with buf := b', pos := next, sax := pushed s.sax (.str (p + 1) n) }
        (pushItem (.str (p + 1) n) (f :: rest)) :=
      hat.inv.push_key hlt _ rfl (hok.binv.congr rfl rfl rfl (Nat.le_refl _)) hat.inv.err rfl rfl
    obtain ⟨c2, s2, hsk, hat2, _, _, _⟩ := skip_at hM1 hin
    simp only at hat2
    refine ⟨c2, s2, hat2, fun hc2 => ?_, fun hc2 => ?_⟩
    · refine ⟨{ s2 with err := kParseErrorInvalidChar }, ?_, rfl, hat2.pos⟩
      simp only [hat.inv.err, kErrorNone, ne_eq, not_true_eq_false, if_false, Bool.not_true, Bool.false_eq_true]
      simp only [pushed, hat.inv.err] at hsk
      rw [hsk]
      simp only [hc2, not_false_eq_true, if_true]
      rfl
    · have hq := (hat2.lt_of_ne (by omega)).1
      obtain ⟨c3, s3, hsk3, hat3, _, _, _⟩ := skip_at hat2.inv (by rw [hat2.pos]; omega)
      rw [hat2.pos] at hat3
      refine ⟨c3, s3, hat3, ?_⟩
      simp only [hat.inv.err, kErrorNone, ne_eq, not_true_eq_false, if_false, Bool.not_true, Bool.false_eq_true]
      simp only [pushed, hat.inv.err] at hsk
      rw [hsk]
      simp only [hc2, not_true_eq_false, if_false, hsk3]

open Sonic.Model.StringDec (run) in
/-- a rejected key -/
theorem key_err_out {W : Nat} {bs pad : List Nat} {s : PState} {f : Frame} {rest : List Frame} {p : Nat}
    (hat : At bs pad .key s (f :: rest) p 0x22) {code p' : Nat}
    (hrun : run W s.buf s.pos = .ok (.err code)) (hep : strErrPos W s.buf s.pos = .ok p')
    (hcode : code = 4 ∨ code = 5 ∨ code = 6) : Exits (step W s (.objKey 0x22)) code p' := by
  rw [objKey_eq, parseStr_of_err hrun hep]
  have hne : code ≠ kErrorNone := by simp only [kErrorNone]; omega
  by_cases hlt : s.sax.np < s.sax.cap
  · rw [scalar_ok hat.inv.st.1 hlt]
    simp only
    rw [if_pos hne]
    exact ⟨_, rfl, rfl, rfl⟩
  · rw [scalar_full hlt]
    simp only
    rw [if_pos hne]
    exact ⟨_, rfl, rfl, rfl⟩

theorem key_isObj {bs pad : List Nat} {s : PState} {f : Frame} {rest : List Frame} (h : MInv bs pad .key s (f :: rest)) :
    f.isArr = false := by
  have hd := h.depth
  cases hdd : s.depth with
  | nil => rw [hdd] at hd; exact hd.elim
  | cons d ds => rw [hdd] at hd; exact hd.1.1

section two
variable {W1 W2 : Nat} {bs pad1 pad2 : List Nat}

theorem objKey_rel (ctx1 : Ctx W1 bs pad1) (ctx2 : Ctx W2 bs pad2) (hnum : NumberOK bs)
    {s1 s2 : PState} {f : Frame} {rest : List Frame} {p c : Nat}
    (a1 : At bs pad1 .key s1 (f :: rest) p c) (a2 : At bs pad2 .key s2 (f :: rest) p c)
    {cfg1 cfg2 : PState × Option Label} (e1 : step W1 s1 (.objKey c) = .ok cfg1)
    (e2 : step W2 s2 (.objKey c) = .ok cfg2) : CfgRel W1 W2 bs pad1 pad2 cfg1 cfg2 := by
  have hpp1 := a1.pos
  have hpp2 := a2.pos
  by_cases h22 : c = 0x22
  case neg =>
    have o1 : Exits (step W1 s1 (.objKey c)) 2 s1.pos := ⟨{ s1 with err := kParseErrorInvalidChar }, by
      simp only [step, ne_eq, h22, not_false_eq_true, if_true]; rfl, rfl, rfl⟩
    have o2 : Exits (step W2 s2 (.objKey c)) 2 s2.pos := ⟨{ s2 with err := kParseErrorInvalidChar }, by
      simp only [step, ne_eq, h22, not_false_eq_true, if_true]; rfl, rfl, rfl⟩
    rw [hpp1] at o1; rw [hpp2] at o2
    exact .of_exits o1 o2 (by decide) e1 e2
  subst h22
  obtain ⟨hp, hbp⟩ := a1.lt_of_ne (by decide)
  have hpe : s1.pos = s2.pos := by rw [a1.pos, a2.pos]
  have hpos : s1.pos ≤ bs.length := by rw [a1.pos]; omega
  obtain ⟨hnp, hcap⟩ := a1.inv.np_eq a2.inv
  have hobj := key_isObj a1.inv
  rcases str_align ctx1 ctx2 a1.inv.b a2.inv.b hpe hpos with
    ⟨n, next, out, b1, b2, hr1, hr2, ok1, ok2, hdec, hn, hnx⟩ | ⟨c1, p1, c2, p2, hr1, hp1, hr2, hp2, hc1, hc2, hl1, hl2, hw, hdec⟩
  · obtain ⟨x1, y1, z1⟩ := key_ok_out a1 hr1 ok1
    obtain ⟨x2, y2, z2⟩ := key_ok_out a2 hr2 ok2
    by_cases hlt : s1.sax.np < s1.sax.cap
    · have hlt2 : s2.sax.np < s2.sax.cap := by omega
      by_cases hin : next ≤ bs.length
      · obtain ⟨k1, t1, at1, u1, v1⟩ := z1 hlt hin
        obtain ⟨k2, t2, at2, u2, v2⟩ := z2 hlt2 hin
        have := tok_det at1.tok at2.tok at1.le
        subst this
        by_cases hk : k1 = 0x3A
        · obtain ⟨m1, w1, bt1, q1⟩ := v1 hk
          obtain ⟨m2, w2, bt2, q2⟩ := v2 hk
          have := tok_det bt1.tok bt2.tok bt1.le
          subst this
          rw [q1] at e1; rw [q2] at e2
          have hco : Label.objCont = contOf { f with items := f.items ++ [Node.str (p + 1) n] } := by
            unfold contOf; simp only [hobj, Bool.false_eq_true, if_false]
          rw [hco] at e1 e2
          exact vs_rel ctx1 ctx2 hnum bt1 bt2 e1 e2
        · exact .of_exits (u1 hk) (u2 hk) (by decide) e1 e2
      · have := next_sentinel a1.inv.b hpos hdec hnx hin
        exact .of_exits (y1 hlt this) (y2 hlt2 this) (by decide) e1 e2
    · have hlt2 : ¬ s2.sax.np < s2.sax.cap := by omega
      exact .of_exits (x1 hlt) (x2 hlt2) (by decide) e1 e2
  · obtain ⟨t1, ht1, hx1, hq1⟩ := key_err_out a1 hr1 hp1 hc1
    obtain ⟨t2, ht2, hx2, hq2⟩ := key_err_out a2 hr2 hp2 hc2
    rw [ht1] at e1; rw [ht2] at e2
    injection e1 with e1; injection e2 with e2
    subst e1; subst e2
    have hbad := badLit_of a1.inv.b a1.pos hbp hdec
    refine .exit (.ofStr (q := p) ?_ hbad ⟨by omega, by omega⟩ ⟨by omega, by omega⟩)
    intro hW
    obtain ⟨ec, ep⟩ := hw hW
    exact ⟨by omega, by omega⟩

/-! ## one step, and `runSteps` -/

theorem step_rel (ctx1 : Ctx W1 bs pad1) (ctx2 : Ctx W2 bs pad2) (hnum : NumberOK bs)
    {s1 s2 : PState} {l1 l2 : Label} (h : CfgRel W1 W2 bs pad1 pad2 (s1, some l1) (s2, some l2))
    {cfg1 cfg2 : PState × Option Label} (e1 : step W1 s1 l1 = .ok cfg1) (e2 : step W2 s2 l2 = .ok cfg2) :
    CfgRel W1 W2 bs pad1 pad2 cfg1 cfg2 := by
  cases h with
  | @live ph F p c l _ _ a1 a2 hl =>
    cases F with
    | nil => cases ph <;> exact hl.elim
    | cons f rest =>
      cases ph with
      | val =>
        obtain ⟨hf, hl⟩ := hl
        subst hl
        have v1 : step W1 s1 (.arrVal c) = valueSwitch W1 s1 c (contOf f) := by rw [contOf_arr hf]; rfl
        have v2 : step W2 s2 (.arrVal c) = valueSwitch W2 s2 c (contOf f) := by rw [contOf_arr hf]; rfl
        rw [v1] at e1; rw [v2] at e2
        exact vs_rel ctx1 ctx2 hnum a1 a2 e1 e2
      | key =>
        have hl : l1 = .objKey c := hl
        subst hl
        exact objKey_rel ctx1 ctx2 hnum a1 a2 e1 e2
      | cont =>
        have hl : l1 = contOf f c := hl
        subst hl
        exact cont_rel ctx1.hL a1 a2 e1 e2
  | @zombie f rest _ _ m1 m2 hpe =>
    have hx : ∀ (g : Frame), (g.isArr = true → (0x78 : Nat) ≠ 0x5D) ∧ (g.isArr = false → (0x78 : Nat) ≠ 0x7D) :=
      fun _ => ⟨fun _ => by decide, fun _ => by decide⟩
    have o1 := cont_err_out (W := W1) (c := 0x78) m1 (by decide) (hx f).1 (hx f).2
    have o2 := cont_err_out (W := W2) (c := 0x78) m2 (by decide) (hx f).1 (hx f).2
    rw [hpe] at o1
    exact .of_exits o1 o2 (by decide) e1 e2

theorem runSteps_none (W fuel : Nat) (s : PState) : runSteps W fuel (s, none) = .ok s := by
  cases fuel <;> rfl

/-- **lock-step**: from related configurations the two runs of `runSteps` return related states -/
theorem runSteps_rel (ctx1 : Ctx W1 bs pad1) (ctx2 : Ctx W2 bs pad2) (hnum : NumberOK bs) :
    ∀ (f1 f2 : Nat) (cfg1 cfg2 : PState × Option Label) (t1 t2 : PState), CfgRel W1 W2 bs pad1 pad2 cfg1 cfg2 →
    runSteps W1 f1 cfg1 = .ok t1 → runSteps W2 f2 cfg2 = .ok t2 → ExitRel W1 W2 bs pad1 pad2 t1 t2 := by
  intro f1
  induction f1 with
  | zero =>
    intro f2 cfg1 cfg2 t1 t2 h r1 r2
    cases h with
    | exit hx =>
      rw [runSteps_none] at r1 r2
      injection r1 with r1; injection r2 with r2
      subst r1; subst r2
      exact hx
    | live _ _ _ => simp [runSteps] at r1
    | zombie _ _ _ => simp [runSteps] at r1
  | succ f1 ih =>
    intro f2 cfg1 cfg2 t1 t2 h r1 r2
    obtain ⟨s1, ol1⟩ := cfg1
    obtain ⟨s2, ol2⟩ := cfg2
    cases ol1 with
    | none =>
      cases h with
      | exit hx =>
        rw [runSteps_none] at r1 r2
        injection r1 with r1; injection r2 with r2
        subst r1; subst r2
        exact hx
    | some l1 =>
      cases ol2 with
      | none => cases h
      | some l2 =>
        cases f2 with
        | zero => simp [runSteps] at r2
        | succ f2 =>
          simp only [runSteps] at r1 r2
          cases hs1 : step W1 s1 l1 with
          | error e => rw [hs1] at r1; cases r1
          | ok c1 =>
            cases hs2 : step W2 s2 l2 with
            | error e => rw [hs2] at r2; cases r2
            | ok c2 =>
              rw [hs1] at r1; rw [hs2] at r2
              exact ih f2 c1 c2 t1 t2 (step_rel ctx1 ctx2 hnum h hs1 hs2) r1 r2

end two

end Sonic.Proofs.Parse
