import Sonic.Proofs.ConcurrencyPool

/-!
# C17 helper lemmas: the invariant of the locked-pool interleaving semantics (`Model/Lock.lean`, part (b))

`CInv c` holds in every reachable state (`cinv_init`, `cinv_step`, `cinv_run`):
* `shared`  – the sequential allocator invariant (`SharedInv`) of the shared pool state;
* `owner_len` – every block number handed out so far has an owner;
* `lock` – the number of threads inside a guarded region is 1 if the flag is set and 0 otherwise;
* `phase_ok` – the blocks a thread's current request refers to exist and are owned by that thread;
* `cont` – every requested byte of every block holds the block's pattern, except the bytes its owner still
  has to write (`pending`: the fill after a `Malloc`, the tail after a growth, the `memcpy` destination).
-/

namespace Sonic.Proofs.Concurrency
open Sonic.Model.Pool Sonic.Proofs.Pool Sonic.Model.Lock

/-- block number `id` exists, is owned by thread `t`, and satisfies `P` -/
def OwnedBlock (blocks : List Block) (owner : List Nat) (t id : Nat) (P : Block → Prop) : Prop :=
  owner[id]? = some t ∧ ∃ b ∈ blocks, b.id = id ∧ P b

def GuardOk (blocks : List Block) (owner : List Nat) (t : Nat) : Guarded → Prop
  | .malloc n => n ≠ 0
  | .grow blk new => OwnedBlock blocks owner t blk (fun b => alignUp b.req < alignUp new)
  | .fallback blk new => OwnedBlock blocks owner t blk (fun b => alignUp b.req < alignUp new)

def PrivOk (blocks : List Block) (owner : List Nat) (t : Nat) : Priv → Prop
  | .none => True
  | .fillNew id => OwnedBlock blocks owner t id (fun _ => True)
  | .fillTail id old => OwnedBlock blocks owner t id (fun b => old ≤ b.req)
  | .retry blk new => OwnedBlock blocks owner t blk (fun b => alignUp b.req < alignUp new)
  | .copy src dst =>
    src ≠ dst ∧ owner[src]? = some t ∧ owner[dst]? = some t ∧
      ∃ bs ∈ blocks, bs.id = src ∧ ∃ bd ∈ blocks, bd.id = dst ∧ alignUp bs.req ≤ bd.asz

def PhaseOk (blocks : List Block) (owner : List Nat) (t : Nat) : Phase → Prop
  | .idle => True
  | .acq g _ => GuardOk blocks owner t g
  | .crit g => GuardOk blocks owner t g
  | .rel k => PrivOk blocks owner t k
  | .priv k => PrivOk blocks owner t k

/-- byte `i` of block `id` is still to be written by a thread whose continuation is `k` -/
def pendingPriv : Priv → Nat → Nat → Bool
  | .fillNew id', id, _ => id == id'
  | .fillTail id' old, id, i => id == id' && decide (old ≤ i)
  | .copy _ dst, id, _ => id == dst
  | _, _, _ => false

def pending : Phase → Nat → Nat → Bool
  | .rel k, id, i => pendingPriv k id i
  | .priv k, id, i => pendingPriv k id i
  | _, _, _ => false

def lockCount (c : CState) : Nat := c.threads.countP (fun th => th.phase.holdsLock)

structure CInv (c : CState) : Prop where
  shared : SharedInv c.sh
  owner_len : c.owner.length = c.sh.nextBlock
  lock : lockCount c = if c.flag then 1 else 0
  phase_ok : ∀ t th, c.threads[t]? = some th → PhaseOk c.sh.blocks c.owner t th.phase
  cont : ∀ b ∈ c.sh.blocks, ∀ i, i < b.req →
    (∀ (u : Nat) (thu : PThread), c.threads[u]? = some thu → pending thu.phase b.id i = false) →
    c.sh.mem.read b.reg (b.off + i) = some (pat b.id i)

/-! ### frame: what a step of thread `t` may not do to the other threads -/

theorem OwnedBlock.frame {blocks blocks' : List Block} {owner owner' : List Nat} {t u id : Nat}
    {P : Block → Prop} (h : OwnedBlock blocks owner u id P) (hu : u ≠ t)
    (hmono : ∀ (id u : Nat), owner[id]? = some u → owner'[id]? = some u)
    (hframe : ∀ b ∈ blocks, owner[b.id]? ≠ some t → b ∈ blocks') : OwnedBlock blocks' owner' u id P := by
  obtain ⟨ho, b, hb, hid, hP⟩ := h
  refine ⟨hmono _ _ ho, b, hframe b hb ?_, hid, hP⟩
  rw [hid, ho]; intro e; cases e; exact hu rfl

theorem PhaseOk.frame {blocks blocks' : List Block} {owner owner' : List Nat} {t u : Nat} {ph : Phase}
    (h : PhaseOk blocks owner u ph) (hu : u ≠ t)
    (hmono : ∀ (id u : Nat), owner[id]? = some u → owner'[id]? = some u)
    (hframe : ∀ b ∈ blocks, owner[b.id]? ≠ some t → b ∈ blocks') : PhaseOk blocks' owner' u ph := by
  have hcopy : ∀ k, PrivOk blocks owner u k → PrivOk blocks' owner' u k := by
    intro k hk
    cases k with
    | none => trivial
    | fillNew id => exact OwnedBlock.frame hk hu hmono hframe
    | fillTail id old => exact OwnedBlock.frame hk hu hmono hframe
    | retry blk new => exact OwnedBlock.frame hk hu hmono hframe
    | copy src dst =>
      obtain ⟨hne, ho1, ho2, bs, hbs, e1, bd, hbd, e2, hle⟩ := hk
      have hn : ∀ b : Block, owner[b.id]? = some u → owner[b.id]? ≠ some t := by
        intro b hb; rw [hb]; intro e; cases e; exact hu rfl
      exact ⟨hne, hmono _ _ ho1, hmono _ _ ho2, bs, hframe bs hbs (hn bs (by rw [e1]; exact ho1)), e1,
        bd, hframe bd hbd (hn bd (by rw [e2]; exact ho2)), e2, hle⟩
  have hg : ∀ g, GuardOk blocks owner u g → GuardOk blocks' owner' u g := by
    intro g hgk
    cases g with
    | malloc n => exact hgk
    | grow blk new => exact OwnedBlock.frame hgk hu hmono hframe
    | fallback blk new => exact OwnedBlock.frame hgk hu hmono hframe
  cases ph with
  | idle => trivial
  | acq g sp => exact hg g h
  | crit g => exact hg g h
  | rel k => exact hcopy k h
  | priv k => exact hcopy k h

/-- a thread that still has to write a byte of a block owns that block -/
theorem pending_owner {blocks : List Block} {owner : List Nat} {t : Nat} {ph : Phase}
    (h : PhaseOk blocks owner t ph) {id i : Nat} (hp : pending ph id i = true) : owner[id]? = some t := by
  have hk : ∀ k, PrivOk blocks owner t k → pendingPriv k id i = true → owner[id]? = some t := by
    intro k hk hp
    cases k with
    | none => cases hp
    | retry _ _ => cases hp
    | fillNew id' =>
      simp only [pendingPriv, beq_iff_eq] at hp; subst hp; exact hk.1
    | fillTail id' old =>
      simp only [pendingPriv, Bool.and_eq_true, beq_iff_eq] at hp
      obtain ⟨rfl, _⟩ := hp; exact hk.1
    | copy src dst =>
      simp only [pendingPriv, beq_iff_eq] at hp; subst hp; exact hk.2.2.1
  cases ph with
  | idle => cases hp
  | acq _ _ => cases hp
  | crit _ => cases hp
  | rel k => exact hk k h hp
  | priv k => exact hk k h hp

/-! ### the generic update -/

/-- what a step of thread `t` does to memory: it keeps every defined byte, or it overwrites part of the
    aligned extent of one block owned by `t` -/
def MemEffect (t : Nat) (c : CState) (mem' : Mem) : Prop :=
  (∀ r o v, c.sh.mem.read r o = some v → mem'.read r o = some v) ∨
  ∃ b ∈ c.sh.blocks, c.owner[b.id]? = some t ∧ ∃ o0 len f, o0 + len ≤ b.asz ∧
    mem' = c.sh.mem.fill b.reg (b.off + o0) len f

/-- the result of a step of thread `t`: the invariant again, ownership only grows, the block records of the
    other threads are untouched, and memory changes as described by `MemEffect` -/
structure StepOk (t : Nat) (c c' : CState) : Prop where
  inv : CInv c'
  mono : ∀ (id u : Nat), c.owner[id]? = some u → c'.owner[id]? = some u
  frame : ∀ b ∈ c.sh.blocks, c.owner[b.id]? ≠ some t → b ∈ c'.sh.blocks
  mem : MemEffect t c c'.sh.mem

theorem StepOk.refl {c : CState} (h : CInv c) (t : Nat) : StepOk t c c :=
  ⟨h, fun _ _ e => e, fun _ hb _ => hb, Or.inl (fun _ _ _ e => e)⟩

theorem lockCount_set (c : CState) {t : Nat} {th : PThread} (ht : c.threads[t]? = some th) (th' : PThread)
    (f : Bool) (s : State) (o : List Nat) :
    lockCount ⟨f, s, o, c.threads.set t th'⟩ + (if th.phase.holdsLock then 1 else 0) =
      lockCount c + (if th'.phase.holdsLock then 1 else 0) := by
  obtain ⟨hlt, e⟩ := List.getElem?_eq_some_iff.mp ht
  simp only [lockCount]
  rw [List.countP_set hlt, e]
  have hpos : th.phase.holdsLock = true → 1 ≤ c.threads.countP (fun th => th.phase.holdsLock) := by
    intro hh
    apply List.countP_pos_iff.mpr
    exact ⟨c.threads[t], List.getElem_mem hlt, by rw [e]; exact hh⟩
  cases h1 : th.phase.holdsLock <;> cases h2 : th'.phase.holdsLock <;> simp
  · have := hpos h1; omega
  · have := hpos h1; omega

theorem CInv.update {c : CState} (h : CInv c) {t : Nat} {th : PThread} (ht : c.threads[t]? = some th)
    (flag' : Bool) (sh' : State) (owner' : List Nat) (th' : PThread)
    (hsh : SharedInv sh')
    (hlen : owner'.length = sh'.nextBlock)
    (hmono : ∀ (id u : Nat), c.owner[id]? = some u → owner'[id]? = some u)
    (hframe : ∀ b ∈ c.sh.blocks, c.owner[b.id]? ≠ some t → b ∈ sh'.blocks)
    (hlock : (if flag' then 1 else 0) + (if th.phase.holdsLock then 1 else 0) =
      (if c.flag then 1 else 0) + (if th'.phase.holdsLock then 1 else 0))
    (hphase : PhaseOk sh'.blocks owner' t th'.phase)
    (hmem : MemEffect t c sh'.mem)
    (hcont : ∀ b ∈ sh'.blocks, ∀ i, i < b.req → pending th'.phase b.id i = false →
      (∀ (u : Nat) (thu : PThread), u ≠ t → c.threads[u]? = some thu → pending thu.phase b.id i = false) →
      sh'.mem.read b.reg (b.off + i) = some (pat b.id i)) :
    StepOk t c ⟨flag', sh', owner', c.threads.set t th'⟩ := by
  have hlt := (List.getElem?_eq_some_iff.mp ht).1
  refine ⟨⟨hsh, hlen, ?_, ?_, ?_⟩, hmono, hframe, hmem⟩
  · have h1 := lockCount_set c ht th' flag' sh' owner'
    have h2 := h.lock
    simp only at hlock ⊢
    omega
  · intro u thu hu
    simp only at hu
    rw [List.getElem?_set] at hu
    split at hu
    · next e =>
      subst e
      first
      | (rw [if_pos hlt] at hu; cases hu; exact hphase)
      | (cases hu; exact hphase)
    · next e =>
      exact (h.phase_ok u thu hu).frame (fun e' => e e'.symm) hmono hframe
  · intro b hb i hi hnp
    simp only at hb hnp ⊢
    refine hcont b hb i hi ?_ ?_
    · exact hnp t th' (by rw [List.getElem?_set_self hlt])
    · intro u thu hu hthu
      exact hnp u thu (by rw [List.getElem?_set_ne (fun e => hu e.symm)]; exact hthu)

/-- a step that only changes the thread's own control state (and possibly the flag) -/
theorem CInv.phaseOnly {c : CState} (h : CInv c) {t : Nat} {th : PThread} (ht : c.threads[t]? = some th)
    (flag' : Bool) (th' : PThread)
    (hlock : (if flag' then 1 else 0) + (if th.phase.holdsLock then 1 else 0) =
      (if c.flag then 1 else 0) + (if th'.phase.holdsLock then 1 else 0))
    (hphase : PhaseOk c.sh.blocks c.owner t th'.phase)
    (hpend : ∀ id i, pending th'.phase id i = false → pending th.phase id i = false) :
    StepOk t c ⟨flag', c.sh, c.owner, c.threads.set t th'⟩ := by
  refine h.update ht flag' c.sh c.owner th' h.shared h.owner_len (fun _ _ e => e) (fun _ hb _ => hb)
    hlock hphase (Or.inl (fun _ _ _ e => e)) ?_
  intro b hb i hi hp hothers
  refine h.cont b hb i hi ?_
  intro u thu hu
  by_cases e : u = t
  · subst e; rw [ht] at hu; cases hu; exact hpend _ _ hp
  · exact hothers u thu e hu

end Sonic.Proofs.Concurrency
