import Sonic.Proofs.FtoaTables

/-!
# C07: `F64ToDecimal` never faults and its result is small

For every finite non-zero double: the table index and the shift count are in range (no `none`), and the decimal
`(sig, exp)` it returns has `1 ≤ sig < 10^17` and `-324 ≤ exp ≤ 293`.  (That `(sig, exp)` is the *right* decimal
is not proved here; it is validated per input by `Spec.Shortest.chk`.)
-/
namespace Sonic.Proofs.Ftoa
open Sonic.Gen Sonic.Model.Ftoa Sonic.Model.Itoa

theorem or_one_bounds (x : Nat) : x ≤ x ||| 1 ∧ x ||| 1 ≤ x + 1 := by
  have h1 := @Nat.or_div_two x 1
  have h2 : (x ||| 1) % 2 = 1 := Nat.or_mod_two_eq_one.2 (Or.inr rfl)
  simp at h1
  omega

theorem or_b2n_bounds (x : Nat) (b : Bool) : x ≤ x ||| b2n b ∧ x ||| b2n b ≤ x + 1 := by
  cases b
  · simp [b2n]
  · simpa [b2n] using or_one_bounds x

theorem div_div_pow64 (a b : Nat) : (a + b / 2 ^ 64) / 2 ^ 64 = (a * 2 ^ 64 + b) / 2 ^ 128 := by
  rw [show (2 : Nat) ^ 128 = 2 ^ 64 * 2 ^ 64 by decide, ← Nat.div_div_eq_div_mul]
  congr 1
  rw [Nat.mul_comm a, Nat.mul_add_div (by decide)]

/-- `RoundToOdd(g, cp)` is `⌊cp·g / 2^128⌋` or one more -/
theorem roundToOdd_bounds (hi lo cp : Nat) (hhi : hi < 2 ^ 64) (hlo : lo < 2 ^ 64) (hcp : cp < 2 ^ 64) :
    cp * (hi * 2 ^ 64 + lo) / 2 ^ 128 ≤ roundToOdd (hi, lo) cp ∧
    roundToOdd (hi, lo) cp ≤ cp * (hi * 2 ^ 64 + lo) / 2 ^ 128 + 1 := by
  have m1 : cp * lo < 2 ^ 128 := by
    calc cp * lo < 2 ^ 64 * 2 ^ 64 := Nat.mul_lt_mul'' hcp hlo
      _ = 2 ^ 128 := by decide
  have m2 : cp * hi ≤ (2 ^ 64 - 1) * (2 ^ 64 - 1) := Nat.mul_le_mul (by omega) (by omega)
  have m3 : cp * lo / 2 ^ 64 < 2 ^ 64 := by
    rw [Nat.div_lt_iff_lt_mul (by decide)]
    calc cp * lo < 2 ^ 128 := m1
      _ = 2 ^ 64 * 2 ^ 64 := by decide
  have m4 : cp * hi + cp * lo / 2 ^ 64 < 2 ^ 128 := by
    have : (2 ^ 64 - 1) * (2 ^ 64 - 1) + 2 ^ 64 ≤ 2 ^ 128 := by decide
    omega
  have e : cp * (hi * 2 ^ 64 + lo) = cp * hi * 2 ^ 64 + cp * lo := by
    rw [Nat.mul_add, Nat.mul_assoc]
  have m5 : (cp * hi + cp * lo / 2 ^ 64) / 2 ^ 64 < 2 ^ 64 := by
    rw [Nat.div_lt_iff_lt_mul (by decide)]
    calc _ < 2 ^ 128 := m4
      _ = 2 ^ 64 * 2 ^ 64 := by decide
  unfold roundToOdd
  simp only [Nat.mod_eq_of_lt m1, Nat.mod_eq_of_lt m3, Nat.mod_eq_of_lt m4, Nat.mod_eq_of_lt m5]
  rw [div_div_pow64, ← e]
  exact or_b2n_bounds _ _

theorem b2n_le_one (b : Bool) : b2n b ≤ 1 := by cases b <;> simp [b2n]

/-- the hypotheses under which `F64toa` calls `F64ToDecimal` -/
theorem f64ToDecimal_range (rsig rexp c : Nat) (q : Int) (hq1 : -1074 ≤ q) (hq2 : q ≤ 971)
    (hc1 : 1 ≤ c) (hc2 : c < 2 ^ 53)
    (hirr : (rsig == 0 && decide (rexp > 1)) = true → c = 2 ^ 52) :
    ∃ d, f64ToDecimal rsig rexp c q = some d ∧ 1 ≤ d.sig ∧ d.sig < 10 ^ 17 ∧ -324 ≤ d.exp ∧ d.exp ≤ 293 := by
  unfold f64ToDecimal
  simp only
  generalize hI : (rsig == 0 && decide (rexp > 1)) = irr at *
  obtain ⟨⟨hi, lo⟩, hrow, rhi, rlo, k1, k2, hh1, hh2, g1, g2⟩ := exp_ok q hq1 hq2 irr
  simp only at rhi rlo g1 g2
  rw [hrow]
  have hsh : ∀ x, shl64 x (hOf q (kOf q irr)) = some (x * 2 ^ (hOf q (kOf q irr)).toNat % 2 ^ 64) := by
    intro x; unfold shl64; rw [if_pos ⟨by omega, by omega⟩]
  simp only [hsh]
  -- the middle value
  have hcb : 4 * c % 2 ^ 64 = 4 * c := Nat.mod_eq_of_lt (by omega)
  obtain ⟨hn, hhn1, hhn2⟩ : ∃ hn : Nat, (hOf q (kOf q irr)).toNat = hn ∧ 1 ≤ hn ∧ hn ≤ 4 :=
    ⟨_, rfl, by omega, by omega⟩
  rw [hhn1] at g1 g2 ⊢
  have hp : 2 ^ hn ≤ 16 := by
    have : hn = 1 ∨ hn = 2 ∨ hn = 3 ∨ hn = 4 := by omega
    rcases this with h | h | h | h <;> subst h <;> decide
  have hp1 : 1 ≤ 2 ^ hn := Nat.pow_pos (by decide)
  have hcp : 4 * c * 2 ^ hn < 2 ^ 64 := by
    calc 4 * c * 2 ^ hn ≤ 4 * c * 16 := Nat.mul_le_mul_left _ hp
      _ < 2 ^ 64 := by omega
  rw [hcb, Nat.mod_eq_of_lt hcp]
  obtain ⟨r1, r2⟩ := roundToOdd_bounds hi lo (4 * c * 2 ^ hn) rhi rlo hcp
  -- bounds on the product
  have hcmax : 4 * c ≤ (if irr = true then 2 ^ 54 else 2 ^ 55) := by
    cases irr
    · simp; omega
    · have := hirr rfl; subst this; simp
  have up : 4 * c * 2 ^ hn * (hi * 2 ^ 64 + lo) ≤ (4 * 10 ^ 17 - 12) * 2 ^ 128 := by
    calc 4 * c * 2 ^ hn * (hi * 2 ^ 64 + lo)
        ≤ (if irr = true then 2 ^ 54 else 2 ^ 55) * 2 ^ hn * (hi * 2 ^ 64 + lo) :=
          Nat.mul_le_mul_right _ (Nat.mul_le_mul_right _ hcmax)
      _ ≤ _ := g2
  have lowb : 4 * 2 ^ 128 ≤ 4 * c * 2 ^ hn * (hi * 2 ^ 64 + lo) := by
    calc 4 * 2 ^ 128 ≤ 4 * (2 ^ hn * (hi * 2 ^ 64 + lo)) := Nat.mul_le_mul_left _ g1
      _ = 4 * 1 * 2 ^ hn * (hi * 2 ^ 64 + lo) := by rw [Nat.mul_one, Nat.mul_assoc]
      _ ≤ 4 * c * 2 ^ hn * (hi * 2 ^ 64 + lo) :=
          Nat.mul_le_mul_right _ (Nat.mul_le_mul_right _ (Nat.mul_le_mul_left _ hc1))
  have q1 : 4 ≤ 4 * c * 2 ^ hn * (hi * 2 ^ 64 + lo) / 2 ^ 128 :=
    (Nat.le_div_iff_mul_le (by decide)).2 lowb
  have q2 : 4 * c * 2 ^ hn * (hi * 2 ^ 64 + lo) / 2 ^ 128 ≤ 4 * 10 ^ 17 - 12 :=
    Nat.div_le_of_le_mul (by rw [Nat.mul_comm (2 ^ 128)]; exact up)
  generalize roundToOdd (hi, lo) (4 * c * 2 ^ hn) = vb at *
  generalize roundToOdd (hi, lo) _ = vbl
  generalize roundToOdd (hi, lo) _ = vbr
  have s1 : 1 ≤ vb / 4 := by omega
  have s2 : vb / 4 + 1 < 10 ^ 17 := by omega
  have b1 := b2n_le_one
  split
  · rename_i hc
    simp only [Bool.and_eq_true, decide_eq_true_eq] at hc
    refine ⟨_, rfl, ?_, ?_, by simp only; omega, by simp only; omega⟩
    · simp only
      have := b1 (decide ((40 * (vb / 4 / 10) + 40) % 2 ^ 64 ≤ (vbr + 2 ^ 64 - b2n !(c % 2 == 0)) % 2 ^ 64))
      rw [Nat.mod_eq_of_lt (by omega)]; omega
    · simp only
      have := b1 (decide ((40 * (vb / 4 / 10) + 40) % 2 ^ 64 ≤ (vbr + 2 ^ 64 - b2n !(c % 2 == 0)) % 2 ^ 64))
      rw [Nat.mod_eq_of_lt (by omega)]; omega
  · split
    · refine ⟨_, rfl, ?_, ?_, by simp only; omega, by simp only; omega⟩
      · simp only
        have := b1 (decide ((4 * (vb / 4) + 4) % 2 ^ 64 ≤ (vbr + 2 ^ 64 - b2n !(c % 2 == 0)) % 2 ^ 64))
        rw [Nat.mod_eq_of_lt (by omega)]; omega
      · simp only
        have := b1 (decide ((4 * (vb / 4) + 4) % 2 ^ 64 ≤ (vbr + 2 ^ 64 - b2n !(c % 2 == 0)) % 2 ^ 64))
        rw [Nat.mod_eq_of_lt (by omega)]; omega
    · refine ⟨_, rfl, ?_, ?_, by simp only; omega, by simp only; omega⟩
      · simp only
        generalize (decide (vb > (4 * (vb / 4) + 2) % 2 ^ 64) ||
          decide (vb = (4 * (vb / 4) + 2) % 2 ^ 64) && decide (vb / 4 % 2 ≠ 0)) = ru
        have := b1 ru
        rw [Nat.mod_eq_of_lt (by omega)]; omega
      · simp only
        generalize (decide (vb > (4 * (vb / 4) + 2) % 2 ^ 64) ||
          decide (vb = (4 * (vb / 4) + 2) % 2 ^ 64) && decide (vb / 4 % 2 ≠ 0)) = ru
        have := b1 ru
        rw [Nat.mod_eq_of_lt (by omega)]; omega

end Sonic.Proofs.Ftoa
