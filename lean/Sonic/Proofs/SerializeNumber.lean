import Sonic.Spec.Number
import Sonic.Spec.Decimal
import Sonic.Proofs.Decimal

/-!
# C06 helper lemmas: the reference number reader on printed numbers

* `scanToken_append` — a number token is not changed by appending a delimiter (`,` `]` `}` or end of text);
* `scanNumber_decimal` / `scanNumber_neg` — `decimal n` reads back as `uint n`, `-decimal m` as `sint (-m)`;
* `scanNumber_embed` — a standalone `scanNumber t 0 = ok v |t|` carries over to `t` embedded in a larger text.
-/
namespace Sonic.Proofs.Serialize
open Sonic.Spec Sonic.Spec.Number

/-- what may follow a value inside a JSON text produced by the printer -/
def Delim (rest : List Nat) : Prop := rest = [] ∨ ∃ c t, rest = c :: t ∧ (c = 0x2C ∨ c = 0x5D ∨ c = 0x7D)

theorem delim_nil : Delim [] := Or.inl rfl
theorem delim_comma (t : List Nat) : Delim (0x2C :: t) := Or.inr ⟨_, t, rfl, Or.inl rfl⟩
theorem delim_rbracket (t : List Nat) : Delim (0x5D :: t) := Or.inr ⟨_, t, rfl, Or.inr (Or.inl rfl)⟩
theorem delim_rbrace (t : List Nat) : Delim (0x7D :: t) := Or.inr ⟨_, t, rfl, Or.inr (Or.inr rfl)⟩

theorem takeDigits_delim {rest : List Nat} (h : Delim rest) : takeDigits rest = [] := by
  rcases h with rfl | ⟨c, t, rfl, hc⟩
  · rfl
  · rcases hc with rfl | rfl | rfl <;> simp [takeDigits, Number.isDigit]

theorem takeDigits_append {rest : List Nat} (h : Delim rest) : ∀ a, takeDigits (a ++ rest) = takeDigits a
  | [] => by simpa [takeDigits] using takeDigits_delim h
  | x :: a => by
    have ih := takeDigits_append h a
    unfold takeDigits at ih ⊢
    simp only [List.cons_append, List.takeWhile_cons, ih]

theorem takeDigits_length_le (a : List Nat) : (takeDigits a).length ≤ a.length := by
  unfold takeDigits; exact List.takeWhile_sublist _ |>.length_le

theorem scanInt_append {rest : List Nat} (h : Delim rest) (a : List Nat) (ha : a ≠ []) :
    scanInt (a ++ rest) = scanInt a := by
  cases a with
  | nil => exact absurd rfl ha
  | cons c a =>
    have := takeDigits_append h (c :: a)
    simp only [List.cons_append] at this
    simp only [scanInt, List.cons_append, this]

theorem scanInt_len {a ids : List Nat} (h : scanInt a = some ids) : ids.length ≤ a.length := by
  cases a with
  | nil => simp [scanInt] at h
  | cons c a =>
    simp only [scanInt] at h
    split at h
    · cases h; simp
    · split at h
      · cases h; exact takeDigits_length_le _
      · cases h

theorem scanFrac_append {rest : List Nat} (h : Delim rest) (a : List Nat) : scanFrac (a ++ rest) = scanFrac a := by
  cases a with
  | nil =>
    rcases h with rfl | ⟨c, t, rfl, hc⟩
    · rfl
    · rcases hc with rfl | rfl | rfl <;> rfl
  | cons c a =>
    by_cases hc : c = 46
    · subst hc
      simp only [List.cons_append, scanFrac, takeDigits_append h a]
    · have e1 : scanFrac (c :: a) = some none := by
        unfold scanFrac; split
        · rename_i heq; cases heq; exact absurd rfl hc
        · rfl
      have e2 : scanFrac (c :: (a ++ rest)) = some none := by
        unfold scanFrac; split
        · rename_i heq; cases heq; exact absurd rfl hc
        · rfl
      rw [List.cons_append, e1, e2]

theorem scanFrac_len {a : List Nat} {fs : List Nat} (h : scanFrac a = some (some fs)) : 1 + fs.length ≤ a.length := by
  unfold scanFrac at h
  split at h
  · rename_i r
    split at h
    · cases h
    · cases h
      have := takeDigits_length_le r
      simp only [List.length_cons]; omega
  · cases h

theorem expSign_append {rest : List Nat} (h : Delim rest) (r : List Nat) : expSign (r ++ rest) = expSign r := by
  cases r with
  | nil =>
    rcases h with rfl | ⟨c, t, rfl, hc⟩
    · rfl
    · rcases hc with rfl | rfl | rfl <;> rfl
  | cons c r =>
    by_cases h1 : c = 43
    · subst h1; rfl
    · by_cases h2 : c = 45
      · subst h2; rfl
      · have e : ∀ t, expSign (c :: t) = (1, 0) := by
          intro t; unfold expSign; split
          · rename_i heq; cases heq; exact absurd rfl h1
          · rename_i heq; cases heq; exact absurd rfl h2
          · rfl
        rw [List.cons_append, e, e]

theorem expSign_len (r : List Nat) : (expSign r).2 ≤ r.length := by
  unfold expSign; split <;> simp

theorem scanExp_append {rest : List Nat} (h : Delim rest) (a : List Nat) : scanExp (a ++ rest) = scanExp a := by
  cases a with
  | nil =>
    rcases h with rfl | ⟨c, t, rfl, hc⟩
    · rfl
    · rcases hc with rfl | rfl | rfl <;> simp [scanExp]
  | cons c r =>
    simp only [List.cons_append, scanExp, expSign_append h r]
    rw [List.drop_append_of_le_length (expSign_len r), takeDigits_append h]

theorem signLen_append (a rest : List Nat) (ha : a ≠ []) : signLen (a ++ rest) = signLen a := by
  cases a with
  | nil => exact absurd rfl ha
  | cons c a => unfold signLen; split <;> simp_all

theorem signLen_le (a : List Nat) : signLen a ≤ a.length := by
  unfold signLen; split <;> simp

theorem signLen_delim {rest : List Nat} (h : Delim rest) : signLen rest = 0 := by
  rcases h with rfl | ⟨c, t, rfl, hc⟩
  · rfl
  · rcases hc with rfl | rfl | rfl <;> rfl

theorem scanInt_delim {rest : List Nat} (h : Delim rest) : scanInt rest = none := by
  rcases h with rfl | ⟨c, t, rfl, hc⟩
  · rfl
  · rcases hc with rfl | rfl | rfl <;> simp [scanInt, Number.isDigit]

/-- appending a delimiter does not change the token -/
theorem scanToken_append {rest : List Nat} (h : Delim rest) (t : List Nat) : scanToken (t ++ rest) = scanToken t := by
  by_cases ht : t = []
  · subst ht
    simp only [List.nil_append]
    unfold scanToken
    simp only [signLen_delim h, List.drop_zero, scanInt_delim h]
    rfl
  · unfold scanToken
    simp only [signLen_append t rest ht]
    rw [List.drop_append_of_le_length (signLen_le t)]
    by_cases h1 : List.drop (signLen t) t = []
    · simp only [h1, List.nil_append, scanInt_delim h]
      rfl
    · rw [scanInt_append h _ h1]
      cases hi : scanInt (List.drop (signLen t) t) with
      | none => rfl
      | some ids =>
        simp only
        rw [List.drop_append_of_le_length (scanInt_len hi), scanFrac_append h]
        cases hfr : scanFrac (List.drop ids.length (List.drop (signLen t) t)) with
        | none => rfl
        | some fr =>
          simp only
          have hlen : fracBytes fr ≤ (List.drop ids.length (List.drop (signLen t) t)).length := by
            cases fr with
            | none => simp [fracBytes]
            | some fs => exact scanFrac_len hfr
          rw [List.drop_append_of_le_length hlen, scanExp_append h]

/-- a successful standalone read carries over to the token embedded in a text, followed by a delimiter -/
theorem scanNumber_embed (pre t rest : List Nat) (hd : Delim rest) (v : JNum)
    (h : scanNumber t 0 = .ok v t.length) :
    scanNumber (pre ++ (t ++ rest)) pre.length = .ok v (pre.length + t.length) := by
  unfold scanNumber at h ⊢
  rw [List.drop_left, scanToken_append hd]
  simp only [List.drop_zero] at h
  cases htok : scanToken t with
  | none => rw [htok] at h; cases h
  | some tok =>
    rw [htok] at h
    simp only at h ⊢
    cases hv : tok.value with
    | none => rw [hv] at h; cases h
    | some w =>
      rw [hv] at h
      simp only at h ⊢
      injection h with h1 h2
      rw [h1]
      congr 1
      omega

/-- a text that `scanNumber` accepts starts with `-` or a digit -/
theorem scanNumber_head (t : List Nat) (v : JNum) (n : Nat) (h : scanNumber t 0 = .ok v n) :
    ∃ c r, t = c :: r ∧ (c = 45 ∨ Number.isDigit c = true) := by
  unfold scanNumber at h
  simp only [List.drop_zero] at h
  cases t with
  | nil => simp [scanToken, signLen, scanInt] at h
  | cons c r =>
    refine ⟨c, r, rfl, ?_⟩
    by_cases hc : c = 45
    · exact Or.inl hc
    · right
      have hs : signLen (c :: r) = 0 := by
        unfold signLen; split
        · rename_i heq; cases heq; exact absurd rfl hc
        · rfl
      unfold scanToken at h
      simp only [hs, List.drop_zero] at h
      by_cases hd : Number.isDigit c = true
      · exact hd
      · have : scanInt (c :: r) = none := by
          have h48 : c ≠ 48 := by intro h48; subst h48; simp [Number.isDigit] at hd
          simp [scanInt, h48, hd]
        rw [this] at h
        cases h

/-! ## integers -/

theorem isDigit_eq (c : Nat) : Number.isDigit c = Spec.isDigit c := rfl

theorem takeDigits_all (l : List Nat) (h : ∀ d ∈ l, 48 ≤ d ∧ d ≤ 57) : takeDigits l = l := by
  unfold takeDigits
  induction l with
  | nil => rfl
  | cons x l ih =>
    have hx := h x (by simp)
    have : Number.isDigit x = true := by simp [Number.isDigit, hx.1, hx.2]
    rw [List.takeWhile_cons, this, if_pos rfl, ih (fun d hd => h d (by simp [hd]))]

theorem digitsVal_decimal (n : Nat) : digitsVal (decimal n) = n := Sonic.Proofs.Itoa.decValue_decimal n

/-- the token of `decimal n` -/
theorem scanToken_decimal (n : Nat) :
    scanToken (decimal n) = some { neg := false, intDigits := decimal n, fracDigits := none, exp := none } := by
  have hdig := Sonic.Proofs.Itoa.decimal_digits n
  have hne := Sonic.Proofs.Itoa.decimal_ne_nil n
  obtain ⟨c, r, hcr⟩ := List.exists_cons_of_ne_nil hne
  have hc := hdig c (by rw [hcr]; simp)
  have hsign : signLen (decimal n) = 0 := by
    rw [hcr]; unfold signLen; split
    · rename_i heq; cases heq; omega
    · rfl
  have hint : scanInt (decimal n) = some (decimal n) := by
    by_cases h0 : n = 0
    · subst h0
      rw [Sonic.Proofs.Itoa.decimal_lt 0 (by decide)]
      rfl
    · have hhead := Sonic.Proofs.Itoa.decimal_head n (by omega)
      have hall := takeDigits_all (decimal n) hdig
      rw [hcr] at hhead hall ⊢
      have h48 : c ≠ 48 := by intro h; subst h; simp at hhead
      simp only [scanInt, h48, if_false, Number.isDigit, hc.1, hc.2, decide_true, Bool.and_self, if_true, hall]
  unfold scanToken
  simp only [hsign, List.drop_zero, hint, List.drop_length, scanFrac, scanExp]
  rfl

theorem scanNumber_decimal (n : Nat) (hn : n < 2 ^ 64) :
    scanNumber (decimal n) 0 = .ok (.uint n) (decimal n).length := by
  unfold scanNumber
  simp only [List.drop_zero, scanToken_decimal]
  have hm : Token.mantissa { neg := false, intDigits := decimal n, fracDigits := none, exp := none } = n := by
    simp [Token.mantissa, digitsVal_decimal]
  simp only [Token.value, hm, Token.isInteger, Option.isNone_none, Bool.and_self, Bool.not_false, hn,
    decide_true, if_true, Token.len]
  simp [fracBytes, expLen]

/-- the token of `-` followed by `decimal m` -/
theorem scanNumber_neg (m : Nat) (h1 : 1 ≤ m) (h2 : m ≤ 2 ^ 63) :
    scanNumber (45 :: decimal m) 0 = .ok (.sint (-(m : Int))) (45 :: decimal m).length := by
  have htok : scanToken (45 :: decimal m) =
      some { neg := true, intDigits := decimal m, fracDigits := none, exp := none } := by
    have h := scanToken_decimal m
    unfold scanToken at h ⊢
    have hs : signLen (45 :: decimal m) = 1 := rfl
    simp only [hs, List.drop_succ_cons, List.drop_zero]
    cases hsd : signLen (decimal m) with
    | zero =>
      simp only [hsd, List.drop_zero] at h
      cases hi : scanInt (decimal m) with
      | none => rw [hi] at h; cases h
      | some ids =>
        rw [hi] at h
        simp only at h ⊢
        cases hf : scanFrac (List.drop ids.length (decimal m)) with
        | none => rw [hf] at h; cases h
        | some fr =>
          rw [hf] at h
          simp only at h ⊢
          cases he : scanExp (List.drop (fracBytes fr) (List.drop ids.length (decimal m))) with
          | none => rw [he] at h; cases h
          | some ex =>
            rw [he] at h
            simp only at h ⊢
            injection h with h
            injection h with _ h2 h3 h4
            subst h2 h3 h4
            rfl
    | succ k =>
      exfalso
      have hdig := Sonic.Proofs.Itoa.decimal_digits m
      obtain ⟨c, r, hcr⟩ := List.exists_cons_of_ne_nil (Sonic.Proofs.Itoa.decimal_ne_nil m)
      have hc := hdig c (by rw [hcr]; simp)
      rw [hcr] at hsd
      unfold signLen at hsd
      split at hsd
      · rename_i heq; cases heq; omega
      · cases hsd
  unfold scanNumber
  simp only [List.drop_zero, htok]
  have hm : Token.mantissa { neg := true, intDigits := decimal m, fracDigits := none, exp := none } = m := by
    simp [Token.mantissa, digitsVal_decimal]
  have hm0 : ¬ m = 0 := by omega
  simp only [Token.value, hm, Token.isInteger, Option.isNone_none, Bool.and_self, Bool.not_true, Bool.and_false,
    Bool.false_eq_true, if_false, hm0, decide_false, h2, decide_true, if_true, Token.len]
  simp [fracBytes, expLen]; omega

end Sonic.Proofs.Serialize
