import Sonic.Model.StringDec

/-!
# Bit-level and table lemmas for C05 (`Sonic.Model.StringDec`)

* the generated tables `kEscapedMap`, `digit_to_val32` against the reference `simpleEscape` / `hexVal`
  (`decide +kernel` on list equalities, 256 rows each);
* `hex_to_u32_nocheck` = positional value of four hex digits, `0xFFFFFFFF` otherwise (bit algebra, no enumeration);
* `codepoint_to_utf8` = the reference UTF-8 encoder;
* the `StringBlock` idioms (`(bs_bits - 1) & quote_bits`, `TrailingZeroes`, …) on `uint32_t` masks are the
  "index of the first lane" comparisons used by the model.
-/
namespace Sonic.Proofs.StringBits
open Sonic.Gen Sonic.Spec Sonic.Model.StringDec

/-- the RFC table as a total function: 0 = "not an escape" -/
def escVal (c : Nat) : Nat := match simpleEscape c with | some v => v | none => 0

theorem escmap_list : kEscapedMap = (List.range 256).map escVal := by decide +kernel

theorem escmap_table (b : Nat) (hb : b < 256) : kEscapedMap[b]? = some (escVal b) := by
  rw [escmap_list]; simp [hb]

/-- what the table holds for a byte at weight `w` -/
def hexEntry (w c : Nat) : Nat := match hexVal c with | some h => w * h | none => 0xFFFFFFFF

theorem hexTab3_list : (digit_to_val32.drop 630).take 256 = (List.range 256).map (hexEntry 4096) := by
  decide +kernel
theorem hexTab2_list : (digit_to_val32.drop 420).take 256 = (List.range 256).map (hexEntry 256) := by
  decide +kernel
theorem hexTab1_list : (digit_to_val32.drop 210).take 256 = (List.range 256).map (hexEntry 16) := by
  decide +kernel
theorem hexTab0_list : (digit_to_val32.drop 0).take 256 = (List.range 256).map (hexEntry 1) := by
  decide +kernel

theorem tab_of_list {t : List Nat} {off : Nat} {f : Nat → Nat}
    (h : (t.drop off).take 256 = (List.range 256).map f) (b : Nat) (hb : b < 256) :
    t[off + b]? = some (f b) := by
  have := congrArg (fun l => l[b]?) h
  simpa [List.getElem?_take, List.getElem?_drop, hb] using this

theorem hexTab3 (b : Nat) (hb : b < 256) : digit_to_val32[630 + b]? = some (hexEntry 4096 b) :=
  tab_of_list hexTab3_list b hb
theorem hexTab2 (b : Nat) (hb : b < 256) : digit_to_val32[420 + b]? = some (hexEntry 256 b) :=
  tab_of_list hexTab2_list b hb
theorem hexTab1 (b : Nat) (hb : b < 256) : digit_to_val32[210 + b]? = some (hexEntry 16 b) :=
  tab_of_list hexTab1_list b hb
theorem hexTab0 (b : Nat) (hb : b < 256) : digit_to_val32[0 + b]? = some (hexEntry 1 b) :=
  tab_of_list hexTab0_list b hb

theorem hexVal_lt {c h : Nat} (hh : hexVal c = some h) : h < 16 := by
  unfold hexVal at hh
  split at hh
  · injection hh; omega
  · split at hh
    · injection hh; omega
    · split at hh
      · injection hh; omega
      · cases hh

theorem hexEntry_le (w c : Nat) (hw : w ≤ 4096) : hexEntry w c < 2 ^ 32 := by
  unfold hexEntry
  split
  · rename_i h hh
    have := hexVal_lt hh
    have : w * h ≤ 4096 * 16 := Nat.mul_le_mul hw (by omega)
    omega
  · decide

theorem or_allones {x : Nat} (hx : x < 2 ^ 32) : x ||| 0xFFFFFFFF = 0xFFFFFFFF := by
  apply Nat.le_antisymm
  · have : x ||| 0xFFFFFFFF < 2 ^ 32 := Nat.or_lt_two_pow hx (by decide)
    omega
  · exact Nat.right_le_or

/-- combining four in-range digit values by `|` is the positional sum -/
theorem or_digits {h0 h1 h2 h3 : Nat} (_l0 : h0 < 16) (l1 : h1 < 16) (l2 : h2 < 16) (l3 : h3 < 16) :
    4096 * h0 ||| 256 * h1 ||| 16 * h2 ||| 1 * h3 = 4096 * h0 + 256 * h1 + 16 * h2 + h3 := by
  have e1 : 4096 * h0 ||| 256 * h1 = 4096 * h0 + 256 * h1 :=
    (Nat.two_pow_add_eq_or_of_lt (i := 12) (by omega) h0).symm
  have e2 : (4096 * h0 + 256 * h1) ||| 16 * h2 = 4096 * h0 + 256 * h1 + 16 * h2 := by
    have := (Nat.two_pow_add_eq_or_of_lt (i := 8) (b := 16 * h2) (by omega) (16 * h0 + h1)).symm
    have e : 2 ^ 8 * (16 * h0 + h1) = 4096 * h0 + 256 * h1 := by omega
    rw [e] at this; exact this
  have e3 : (4096 * h0 + 256 * h1 + 16 * h2) ||| 1 * h3 = 4096 * h0 + 256 * h1 + 16 * h2 + h3 := by
    have := (Nat.two_pow_add_eq_or_of_lt (i := 4) (b := 1 * h3) (by omega) (256 * h0 + 16 * h1 + h2)).symm
    have e : 2 ^ 4 * (256 * h0 + 16 * h1 + h2) = 4096 * h0 + 256 * h1 + 16 * h2 := by omega
    rw [e] at this; omega
  rw [e1, e2, e3]

/-- the result of `hex_to_u32_nocheck` as a function of the four bytes -/
def hexResult (b0 b1 b2 b3 : Nat) : Nat :=
  match hexVal b0, hexVal b1, hexVal b2, hexVal b3 with
  | some h0, some h1, some h2, some h3 => 4096 * h0 + 256 * h1 + 16 * h2 + h3
  | _, _, _, _ => 0xFFFFFFFF

theorem hexToU32_eq (b0 b1 b2 b3 : Nat) (l0 : b0 < 256) (l1 : b1 < 256) (l2 : b2 < 256) (l3 : b3 < 256) :
    hexToU32 b0 b1 b2 b3 = .ok (hexResult b0 b1 b2 b3) := by
  unfold hexToU32 tbl
  rw [hexTab3 b0 l0, hexTab2 b1 l1, hexTab1 b2 l2, hexTab0 b3 l3]
  simp only
  congr 1
  have m3 := hexEntry_le 4096 b0 (by omega)
  have m2 := hexEntry_le 256 b1 (by omega)
  have m1 := hexEntry_le 16 b2 (by omega)
  have m0 := hexEntry_le 1 b3 (by omega)
  have lt12 : hexEntry 4096 b0 ||| hexEntry 256 b1 < 2 ^ 32 := Nat.or_lt_two_pow m3 m2
  have lt123 : hexEntry 4096 b0 ||| hexEntry 256 b1 ||| hexEntry 16 b2 < 2 ^ 32 := Nat.or_lt_two_pow lt12 m1
  have lt : hexEntry 4096 b0 ||| hexEntry 256 b1 ||| hexEntry 16 b2 ||| hexEntry 1 b3 < 2 ^ 32 :=
    Nat.or_lt_two_pow lt123 m0
  have g3 : hexEntry 4096 b0 ≤ hexEntry 4096 b0 ||| hexEntry 256 b1 ||| hexEntry 16 b2 ||| hexEntry 1 b3 :=
    Nat.le_trans (Nat.le_trans Nat.left_le_or Nat.left_le_or) Nat.left_le_or
  have g2 : hexEntry 256 b1 ≤ hexEntry 4096 b0 ||| hexEntry 256 b1 ||| hexEntry 16 b2 ||| hexEntry 1 b3 :=
    Nat.le_trans (Nat.le_trans Nat.right_le_or Nat.left_le_or) Nat.left_le_or
  have g1 : hexEntry 16 b2 ≤ hexEntry 4096 b0 ||| hexEntry 256 b1 ||| hexEntry 16 b2 ||| hexEntry 1 b3 :=
    Nat.le_trans Nat.right_le_or Nat.left_le_or
  have g0 : hexEntry 1 b3 ≤ hexEntry 4096 b0 ||| hexEntry 256 b1 ||| hexEntry 16 b2 ||| hexEntry 1 b3 :=
    Nat.right_le_or
  unfold hexResult
  cases e0 : hexVal b0 with
  | none => simp only [hexEntry, e0] at g3 lt ⊢; omega
  | some h0 =>
    cases e1 : hexVal b1 with
    | none => simp only [hexEntry, e1] at g2 lt ⊢; omega
    | some h1 =>
      cases e2 : hexVal b2 with
      | none => simp only [hexEntry, e2] at g1 lt ⊢; omega
      | some h2 =>
        cases e3 : hexVal b3 with
        | none => simp only [hexEntry, e3] at g0 lt ⊢; omega
        | some h3 =>
          simp only [hexEntry, e0, e1, e2, e3]
          exact or_digits (hexVal_lt e0) (hexVal_lt e1) (hexVal_lt e2) (hexVal_lt e3)

theorem hexResult_cases (b0 b1 b2 b3 : Nat) :
    hexResult b0 b1 b2 b3 < 2 ^ 16 ∨ hexResult b0 b1 b2 b3 = 0xFFFFFFFF := by
  unfold hexResult
  split
  · rename_i h0 h1 h2 h3 e0 e1 e2 e3
    have := hexVal_lt e0; have := hexVal_lt e1; have := hexVal_lt e2; have := hexVal_lt e3
    left; omega
  · right; rfl

/-! ### `codepoint_to_utf8` -/

theorem and63 (x : Nat) : x &&& 63 = x % 64 := Nat.and_two_pow_sub_one_eq_mod x 6

theorem codepointToUtf8_eq (cp : Nat) : codepointToUtf8 cp = utf8 cp := by
  unfold codepointToUtf8 utf8
  simp only [Nat.shiftRight_eq_div_pow, and63, Nat.reducePow]
  by_cases h1 : cp ≤ 0x7F
  · rw [if_pos h1, if_pos (show cp < 128 by omega)]; congr 1; omega
  · rw [if_neg h1, if_neg (show ¬ cp < 128 by omega)]
    by_cases h2 : cp ≤ 0x7FF
    · rw [if_pos h2, if_pos (show cp < 2048 by omega)]
      congr 1
      · omega
      · congr 1; omega
    · rw [if_neg h2, if_neg (show ¬ cp < 2048 by omega)]
      by_cases h3 : cp ≤ 0xFFFF
      · rw [if_pos h3, if_pos (show cp < 65536 by omega)]
        congr 1
        · omega
        · congr 1
          · omega
          · congr 1; omega
      · rw [if_neg h3, if_neg (show ¬ cp < 65536 by omega)]
        by_cases h4 : cp ≤ 0x10FFFF
        · rw [if_pos h4, if_pos (show cp < 1114112 by omega)]
          congr 1
          · omega
          · congr 1
            · omega
            · congr 1
              · omega
              · congr 1; omega
        · rw [if_neg h4, if_neg (show ¬ cp < 1114112 by omega)]

/-! ### the `StringBlock` bit idioms

`mask p v` is `(v ⋈ …).to_bitmask()`: bit `i` is set iff lane `i` satisfies `p`.  The model represents a mask by
the index of its lowest set bit (`List.findIdx`, `= length` for the zero mask); the lemmas below show that this
is exactly what the `uint32_t` expressions of `StringBlock` compute. -/

def mask (p : Nat → Bool) : List Nat → Nat
  | [] => 0
  | x :: xs => (if p x then 1 else 0) + 2 * mask p xs

/-- `__builtin_ctz` for a non-zero argument (`fuel` = word size) -/
def ctz : Nat → Nat → Nat
  | 0, _ => 0
  | fuel + 1, m => if m % 2 = 1 then 0 else 1 + ctz fuel (m / 2)

theorem mask_lt (p : Nat → Bool) : ∀ v : List Nat, mask p v < 2 ^ v.length
  | [] => by simp [mask]
  | x :: xs => by
    have := mask_lt p xs
    simp only [mask, List.length_cons, Nat.pow_succ]
    split <;> omega

theorem mask_eq_zero_iff (p : Nat → Bool) : ∀ v : List Nat, mask p v = 0 ↔ v.findIdx p = v.length
  | [] => by simp [mask]
  | x :: xs => by
    have ih := mask_eq_zero_iff p xs
    simp only [mask, List.findIdx_cons, List.length_cons]
    cases hp : p x
    · simp only [Bool.false_eq_true, if_false, cond_false]; omega
    · simp only [if_true, cond_true]; omega

theorem and_bit {a c : Nat} (m n : Nat) (ha : a < 2) (hc : c < 2) :
    (a + 2 * m) &&& (c + 2 * n) = (a &&& c) + 2 * (m &&& n) := by
  have hac : a &&& c < 2 := by
    have : a = 0 ∨ a = 1 := by omega
    have : c = 0 ∨ c = 1 := by omega
    rcases ‹a = 0 ∨ a = 1› with rfl | rfl <;> rcases ‹c = 0 ∨ c = 1› with rfl | rfl <;> decide
  apply Nat.eq_of_testBit_eq
  intro i
  cases i with
  | zero =>
    rw [Nat.testBit_and]
    simp only [Nat.testBit_zero]
    have e1 : (a + 2 * m) % 2 = a := by omega
    have e2 : (c + 2 * n) % 2 = c := by omega
    have e3 : ((a &&& c) + 2 * (m &&& n)) % 2 = a &&& c := by omega
    rw [e1, e2, e3]
    have : a = 0 ∨ a = 1 := by omega
    have : c = 0 ∨ c = 1 := by omega
    rcases ‹a = 0 ∨ a = 1› with rfl | rfl <;> rcases ‹c = 0 ∨ c = 1› with rfl | rfl <;> decide
  | succ i =>
    rw [Nat.testBit_and]
    simp only [Nat.testBit_add_one]
    have e1 : (a + 2 * m) / 2 = m := by omega
    have e2 : (c + 2 * n) / 2 = n := by omega
    have e3 : ((a &&& c) + 2 * (m &&& n)) / 2 = m &&& n := by omega
    rw [e1, e2, e3, Nat.testBit_and]

/-- lanes cannot satisfy two disjoint predicates: the masks do not overlap -/
theorem mask_disjoint {p q : Nat → Bool} (hd : ∀ x, ¬(p x = true ∧ q x = true)) :
    ∀ v : List Nat, mask p v &&& mask q v = 0
  | [] => by simp [mask]
  | x :: xs => by
    have ih := mask_disjoint hd xs
    simp only [mask]
    rw [and_bit _ _ (by split <;> omega) (by split <;> omega), ih]
    have := hd x
    cases hp : p x <;> cases hq : q x <;> simp_all

/-- `(m - 1) & n != 0` for a non-zero `m`: some `n`-lane lies below the lowest `m`-lane -/
theorem and_pred_ne_zero {p q : Nat → Bool} (hd : ∀ x, ¬(p x = true ∧ q x = true)) :
    ∀ v : List Nat, mask p v ≠ 0 → ((mask p v - 1) &&& mask q v ≠ 0 ↔ v.findIdx q < v.findIdx p)
  | [] => by simp [mask]
  | x :: xs => by
    intro hne
    have ih := and_pred_ne_zero hd xs
    simp only [mask, List.findIdx_cons] at hne ⊢
    cases hp : p x
    · simp only [hp, Bool.false_eq_true, if_false, Nat.zero_add, cond_false] at hne ⊢
      have hne' : mask p xs ≠ 0 := by omega
      have e : 2 * mask p xs - 1 = 1 + 2 * (mask p xs - 1) := by omega
      rw [e, and_bit _ _ (by omega) (by split <;> omega)]
      cases hq : q x
      · simp only [Bool.false_eq_true, if_false, cond_false]
        have := ih hne'
        rw [show (1 &&& 0) = 0 by decide]
        omega
      · simp only [if_true, cond_true]
        rw [show (1 &&& 1) = 1 by decide]
        omega
    · simp only [if_true, cond_true]
      have hq : q x = false := by
        cases hq : q x
        · rfl
        · exact absurd ⟨hp, hq⟩ (hd x)
      simp only [hq, Bool.false_eq_true, if_false, cond_false]
      rw [show 1 + 2 * mask p xs - 1 = 0 + 2 * mask p xs by omega,
        and_bit _ _ (by omega) (by omega), mask_disjoint hd xs]
      simp

/-- the `uint32_t` idiom `((m - 1) & n) != 0` (with wrap-around for `m = 0`) on masks of at most 32 lanes -/
theorem idiom_lt {p q : Nat → Bool} (hd : ∀ x, ¬(p x = true ∧ q x = true)) (v : List Nat)
    (hv : v.length ≤ 32) :
    (((mask p v + 2 ^ 32 - 1) % 2 ^ 32) &&& mask q v ≠ 0) ↔ v.findIdx q < v.findIdx p := by
  have hp := mask_lt p v
  have hq := mask_lt q v
  have h32 : 2 ^ v.length ≤ 2 ^ 32 := Nat.pow_le_pow_right (by omega) hv
  by_cases h0 : mask p v = 0
  · have hf := (mask_eq_zero_iff p v).1 h0
    rw [h0, hf, show (0 + 2 ^ 32 - 1) % 2 ^ 32 = 2 ^ 32 - 1 by decide, Nat.and_comm,
      Nat.and_two_pow_sub_one_eq_mod, Nat.mod_eq_of_lt (by omega)]
    have := mask_eq_zero_iff q v
    have := @List.findIdx_le_length _ q v
    omega
  · rw [show (mask p v + 2 ^ 32 - 1) % 2 ^ 32 = mask p v - 1 by omega]
    exact and_pred_ne_zero hd v h0

/-- `TrailingZeroes(m)` of a non-zero mask is the index of the first lane -/
theorem ctz_mask (p : Nat → Bool) : ∀ (v : List Nat) (fuel : Nat), v.length ≤ fuel → mask p v ≠ 0 →
    ctz fuel (mask p v) = v.findIdx p
  | [], _, _, h => by simp [mask] at h
  | x :: xs, fuel, hl, hne => by
    obtain ⟨f, rfl⟩ : ∃ f, fuel = f + 1 := ⟨fuel - 1, by simp at hl; omega⟩
    simp only [mask, List.findIdx_cons, ctz] at hne ⊢
    by_cases hp : p x = true
    · simp only [hp, if_true, cond_true]
      rw [if_pos (by omega)]
    · have hp' : p x = false := by simpa using hp
      simp only [hp', Bool.false_eq_true, if_false, Nat.zero_add, cond_false] at hne ⊢
      rw [if_neg (by omega), show 2 * mask p xs / 2 = mask p xs by omega,
        ctz_mask p xs f (by simp at hl; omega) (by omega)]
      omega

/-- the three `StringBlock` predicates and the two index functions, as computed on `uint32_t` masks
    (`bs_bits`, `quote_bits`, `unescaped_bits` of a vector of at most 32 lanes), are the model's `Block` -/
theorem block_idioms (v : List Nat) (hv : v.length ≤ 32) :
    let bs := mask isBs v; let quote := mask isQuote v; let unesc := mask isCtl v
    let k := mkBlock v
    ((decide (((quote + 2 ^ 32 - 1) % 2 ^ 32) &&& unesc ≠ 0)) = k.hasUnescaped) ∧
    ((decide (((bs + 2 ^ 32 - 1) % 2 ^ 32) &&& quote ≠ 0) && !k.hasUnescaped) = k.hasQuoteFirst) ∧
    ((decide (((quote + 2 ^ 32 - 1) % 2 ^ 32) &&& bs ≠ 0)) = k.hasBackslash) ∧
    (quote ≠ 0 → ctz 32 quote = k.qi) ∧ (bs ≠ 0 → ctz 32 bs = k.bi) := by
  have dqc : ∀ x, ¬(isQuote x = true ∧ isCtl x = true) := by
    intro x; simp only [isQuote, isCtl, beq_iff_eq, decide_eq_true_eq]; omega
  have dbq : ∀ x, ¬(isBs x = true ∧ isQuote x = true) := by
    intro x; simp only [isQuote, isBs, beq_iff_eq]; omega
  have dqb : ∀ x, ¬(isQuote x = true ∧ isBs x = true) := by
    intro x; simp only [isQuote, isBs, beq_iff_eq]; omega
  intro bs quote unesc k
  refine ⟨?_, ?_, ?_, fun h => ctz_mask isQuote v 32 hv h, fun h => ctz_mask isBs v 32 hv h⟩
  · simp only [Block.hasUnescaped]
    exact decide_eq_decide.2 (idiom_lt dqc v hv)
  · simp only [Block.hasQuoteFirst]
    congr 1
    exact decide_eq_decide.2 (idiom_lt dbq v hv)
  · simp only [Block.hasBackslash]
    exact decide_eq_decide.2 (idiom_lt dqb v hv)

end Sonic.Proofs.StringBits
