/-!
# Rational-number plumbing for C07

`rv a x y = a·2^x·10^y` (exact, in `Rat`, integer exponents) and its comparison by integer
cross-multiplication; monotonicity of integer powers.  Core only.
-/
namespace Sonic.Proofs.Ftoa

theorem zpow_split (b : Rat) (hb : 0 < b) (x : Int) :
    b ^ x * b ^ (-x).toNat = b ^ x.toNat := by
  have hb0 : b ≠ 0 := (Rat.ne_of_lt hb).symm
  rcases Int.le_total 0 x with h | h
  · obtain ⟨n, rfl⟩ := Int.eq_ofNat_of_zero_le h
    have e1 : (-(n : Int)).toNat = 0 := by omega
    have e2 : ((n : Int)).toNat = n := by omega
    rw [e1, e2, Rat.zpow_natCast, Rat.pow_zero, Rat.mul_one]
  · obtain ⟨n, hn⟩ := Int.eq_ofNat_of_zero_le (show 0 ≤ -x by omega)
    have ex : x = -(n : Int) := by omega
    subst ex
    have e1 : (-(-(n : Int))).toNat = n := by omega
    have e2 : (-(n : Int)).toNat = 0 := by omega
    rw [e1, e2, Rat.zpow_neg, Rat.zpow_natCast, Rat.pow_zero]
    exact Rat.inv_mul_cancel _ (Rat.ne_of_lt (Rat.pow_pos hb)).symm

/-- `a·2^x·10^y` -/
def rv (a : Nat) (x y : Int) : Rat := (a : Rat) * (2 : Rat) ^ x * (10 : Rat) ^ y

/-- numerator side of the cross-multiplication: `a·2^max(x,0)·10^max(y,0)` -/
def sideP (a : Nat) (x y : Int) : Nat := a * 2 ^ x.toNat * 10 ^ y.toNat
/-- denominator side: `2^max(-x,0)·10^max(-y,0)` -/
def negP (x y : Int) : Nat := 2 ^ (-x).toNat * 10 ^ (-y).toNat

theorem negP_pos (x y : Int) : 0 < negP x y :=
  Nat.mul_pos (Nat.pow_pos (by decide)) (Nat.pow_pos (by decide))

theorem rv_mul_negP (a : Nat) (x y : Int) : rv a x y * (negP x y : Rat) = (sideP a x y : Rat) := by
  have h2 := zpow_split 2 (by decide) x
  have h10 := zpow_split 10 (by decide) y
  simp only [rv, negP, sideP, Rat.natCast_mul, Rat.natCast_pow]
  have e2 : ((2 : Nat) : Rat) = 2 := rfl
  have e10 : ((10 : Nat) : Rat) = 10 := rfl
  rw [e2, e10, ← h2, ← h10]
  grind

/-- `a·2^x·10^y ≤ b·2^x'·10^y'` by integer cross-multiplication -/
def LeS (a : Nat) (x y : Int) (b : Nat) (x' y' : Int) : Prop :=
  sideP a x y * negP x' y' ≤ sideP b x' y' * negP x y
def LtS (a : Nat) (x y : Int) (b : Nat) (x' y' : Int) : Prop :=
  sideP a x y * negP x' y' < sideP b x' y' * negP x y

instance : Decidable (LeS a x y b x' y') := by unfold LeS; infer_instance
instance : Decidable (LtS a x y b x' y') := by unfold LtS; infer_instance

theorem cross_cast (a : Nat) (x y : Int) (x' y' : Int) :
    ((sideP a x y * negP x' y' : Nat) : Rat) = rv a x y * ((negP x y : Rat) * (negP x' y' : Rat)) := by
  rw [Rat.natCast_mul, ← rv_mul_negP]; grind

theorem leS_iff (a : Nat) (x y : Int) (b : Nat) (x' y' : Int) :
    LeS a x y b x' y' ↔ rv a x y ≤ rv b x' y' := by
  have hpos : (0 : Rat) < (negP x y : Rat) * (negP x' y' : Rat) :=
    Rat.mul_pos (Rat.natCast_pos.2 (negP_pos _ _)) (Rat.natCast_pos.2 (negP_pos _ _))
  unfold LeS
  rw [← Rat.natCast_le_natCast, cross_cast, cross_cast,
    Rat.mul_comm (negP x' y' : Rat) (negP x y : Rat)]
  constructor
  · intro h; exact Rat.le_of_mul_le_mul_right h hpos
  · intro h; exact Rat.mul_le_mul_of_nonneg_right h (Rat.le_of_lt hpos)

theorem ltS_iff (a : Nat) (x y : Int) (b : Nat) (x' y' : Int) :
    LtS a x y b x' y' ↔ rv a x y < rv b x' y' := by
  have hpos : (0 : Rat) < (negP x y : Rat) * (negP x' y' : Rat) :=
    Rat.mul_pos (Rat.natCast_pos.2 (negP_pos _ _)) (Rat.natCast_pos.2 (negP_pos _ _))
  unfold LtS
  rw [← Rat.natCast_lt_natCast, cross_cast, cross_cast,
    Rat.mul_comm (negP x' y' : Rat) (negP x y : Rat)]
  exact Rat.mul_lt_mul_right hpos

/-! ## monotonicity of integer powers -/

theorem one_le_pow (b : Rat) (hb : 1 ≤ b) (n : Nat) : 1 ≤ b ^ n := by
  induction n with
  | zero => simp
  | succ n ih =>
    rw [Rat.pow_succ]
    have h0 : (0 : Rat) ≤ b ^ n := Rat.le_trans (by decide) ih
    have := Rat.mul_le_mul_of_nonneg_left hb h0
    rw [Rat.mul_one] at this
    exact Rat.le_trans ih this

theorem one_lt_pow (b : Rat) (hb : 1 < b) (n : Nat) (hn : 0 < n) : 1 < b ^ n := by
  obtain ⟨m, rfl⟩ : ∃ m, n = m + 1 := ⟨n - 1, by omega⟩
  rw [Rat.pow_succ]
  have h1 := one_le_pow b (Rat.le_of_lt hb) m
  have h0 : (0 : Rat) < b ^ m := by grind
  have := Rat.mul_lt_mul_of_pos_left hb h0
  rw [Rat.mul_one] at this
  grind

theorem zpow_le_zpow (b : Rat) (hb : 1 ≤ b) {m n : Int} (h : m ≤ n) : b ^ m ≤ b ^ n := by
  have hb0 : (0 : Rat) < b := by grind
  obtain ⟨k, hk⟩ := Int.eq_ofNat_of_zero_le (show 0 ≤ n - m by omega)
  have e : n = m + (k : Int) := by omega
  rw [e, Rat.zpow_add (Rat.ne_of_lt hb0).symm, Rat.zpow_natCast]
  have := Rat.mul_le_mul_of_nonneg_left (one_le_pow b hb k) (Rat.le_of_lt (Rat.zpow_pos hb0 (n := m)))
  rwa [Rat.mul_one] at this

theorem zpow_lt_zpow (b : Rat) (hb : 1 < b) {m n : Int} (h : m < n) : b ^ m < b ^ n := by
  have hb0 : (0 : Rat) < b := by grind
  obtain ⟨k, hk⟩ := Int.eq_ofNat_of_zero_le (show 0 ≤ n - m by omega)
  have e : n = m + (k : Int) := by omega
  rw [e, Rat.zpow_add (Rat.ne_of_lt hb0).symm, Rat.zpow_natCast]
  have := Rat.mul_lt_mul_of_pos_left (one_lt_pow b hb k (by omega)) (Rat.zpow_pos hb0 (n := m))
  rwa [Rat.mul_one] at this

/-- strict comparison of powers reflects to exponents -/
theorem lt_of_zpow_lt_zpow (b : Rat) (hb : 1 ≤ b) {m n : Int} (h : b ^ m < b ^ n) : m < n := by
  apply Decidable.byContradiction
  intro hn
  have := zpow_le_zpow b hb (show n ≤ m by omega)
  grind

end Sonic.Proofs.Ftoa
