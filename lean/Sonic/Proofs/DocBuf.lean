import Sonic.Model.DocBuf

/-!
# Proofs about the document text-buffer model (`Sonic.Model.DocBuf`)

For every sequence of `Parse` / `ParseSchema` / `Swap` / move assignment / destruction over two documents: no double or
foreign free, the allocator's live set is exactly what the two documents point to (nothing leaked, nothing dangling), every
buffer is pointed to from exactly one place, and `ParseSchema` frees nothing (the buffers of all earlier `ParseSchema` calls
since the last `Parse` stay live as long as their document does).
-/
namespace Sonic.Model.DocBuf

structure Inv (s : State) : Prop where
  faults : s.faults = 0
  ownedNodup : s.owned.Nodup
  liveIff : ∀ x, x ∈ s.live ↔ x ∈ s.owned
  liveNodup : s.live.Nodup
  fresh : ∀ x ∈ s.live, x < s.next

theorem free1_live (s : State) (x : Nat) (h : x ∈ s.live) : free1 s x = { s with live := s.live.erase x } := by
  simp [free1, h]

theorem freeList_spec (xs : List Nat) : ∀ (s : State), xs.Nodup → (∀ x ∈ xs, x ∈ s.live) → s.live.Nodup →
    (freeList s xs).faults = s.faults ∧ (freeList s xs).a = s.a ∧ (freeList s xs).b = s.b ∧
    (freeList s xs).next = s.next ∧ (freeList s xs).live.Nodup ∧
    ∀ y, y ∈ (freeList s xs).live ↔ (y ∈ s.live ∧ y ∉ xs) := by
  induction xs with
  | nil => intro s _ _ hn; simp [freeList, hn]
  | cons x xs ih =>
    intro s hx hl hn
    have hxl : x ∈ s.live := hl x (by simp)
    have hxs : xs.Nodup := (List.nodup_cons.mp hx).2
    have hxn : x ∉ xs := (List.nodup_cons.mp hx).1
    have e : freeList s (x :: xs) = freeList { s with live := s.live.erase x } xs := by
      simp [freeList, List.foldl_cons, free1_live s x hxl]
    have hn' : (s.live.erase x).Nodup := hn.erase x
    have hl' : ∀ y ∈ xs, y ∈ s.live.erase x := by
      intro y hy
      have : y ≠ x := fun h => hxn (h ▸ hy)
      exact (hn.mem_erase_iff).mpr ⟨this, hl y (by simp [hy])⟩
    obtain ⟨h1, h2, h3, h4, h5, h6⟩ := ih { s with live := s.live.erase x } hxs hl' hn'
    rw [e]
    refine ⟨h1, h2, h3, h4, h5, ?_⟩
    intro y
    rw [h6 y]
    simp only [hn.mem_erase_iff, List.mem_cons, not_or]
    constructor
    · rintro ⟨⟨a, b⟩, c⟩; exact ⟨b, a, c⟩
    · rintro ⟨b, a, c⟩; exact ⟨⟨a, b⟩, c⟩

theorem free1_ab (s : State) (x : Nat) : (free1 s x).a = s.a ∧ (free1 s x).b = s.b := by
  unfold free1; split <;> simp

theorem freeList_ab (xs : List Nat) : ∀ s : State, (freeList s xs).a = s.a ∧ (freeList s xs).b = s.b := by
  induction xs with
  | nil => intro s; simp [freeList]
  | cons x xs ih =>
    intro s
    have := ih (free1 s x)
    simp only [freeList, List.foldl_cons] at this ⊢
    rw [this.1, this.2]; exact free1_ab s x

theorem owned_a (s : State) : s.owned = s.a.buffers ++ s.b.buffers := rfl

/-- the buffers of one document are among the owned ones, distinct, and live -/
theorem Inv.doc (s : State) (h : Inv s) (w : Who) :
    (s.get w).buffers.Nodup ∧ (∀ x ∈ (s.get w).buffers, x ∈ s.live) ∧
    (∀ x ∈ (s.get w).buffers, x ∉ (s.get w.other).buffers) := by
  have hn := h.ownedNodup
  rw [owned_a, List.nodup_append] at hn
  obtain ⟨ha, hb, hab⟩ := hn
  cases w
  · refine ⟨ha, fun x hx => (h.liveIff x).mpr (by simp [owned_a]; exact Or.inl hx), ?_⟩
    intro x hx hx'
    exact hab x hx x hx' rfl
  · refine ⟨hb, fun x hx => (h.liveIff x).mpr (by simp [owned_a]; exact Or.inr hx), ?_⟩
    intro x hx hx'
    exact hab x hx' x hx rfl

/-- freeing one document's buffers: the state afterwards, described completely -/
theorem freeDoc_spec (s : State) (h : Inv s) (w : Who) :
    let s' := freeList s (s.get w).buffers
    s'.faults = 0 ∧ s'.a = s.a ∧ s'.b = s.b ∧ s'.next = s.next ∧ s'.live.Nodup ∧
    (∀ y, y ∈ s'.live ↔ y ∈ (s.get w.other).buffers) := by
  obtain ⟨hn, hl, hd⟩ := h.doc s w
  obtain ⟨h1, h2, h3, h4, h5, h6⟩ := freeList_spec _ s hn hl h.liveNodup
  refine ⟨h1 ▸ h.faults, h2, h3, h4, h5, ?_⟩
  intro y
  rw [h6 y, h.liveIff y, owned_a]
  obtain ⟨_, _, hd'⟩ := h.doc s w.other
  cases w <;> simp only [State.get, Who.other, List.mem_append] at * <;> grind

theorem init_inv : Inv ({} : State) := by
  constructor <;> simp [State.owned, Doc.buffers]

@[simp] theorem buffers_empty : ({} : Doc).buffers = [] := rfl
@[simp] theorem buffers_str (x : Nat) : ({ str := some x } : Doc).buffers = [x] := rfl
theorem buffers_push (d : Doc) (x : Nat) :
    ({ d with chain := x :: d.chain } : Doc).buffers.Perm (x :: d.buffers) := by
  cases d with
  | mk str chain =>
    cases str with
    | none => simp [Doc.buffers]
    | some v => exact List.Perm.swap x v chain

@[simp] theorem set_a_a (s : State) (d : Doc) : (s.set .a d).a = d := rfl
@[simp] theorem set_a_b (s : State) (d : Doc) : (s.set .a d).b = s.b := rfl
@[simp] theorem set_b_a (s : State) (d : Doc) : (s.set .b d).a = s.a := rfl
@[simp] theorem set_b_b (s : State) (d : Doc) : (s.set .b d).b = d := rfl
@[simp] theorem set_live (s : State) (w : Who) (d : Doc) : (s.set w d).live = s.live := by cases w <;> rfl
@[simp] theorem set_next (s : State) (w : Who) (d : Doc) : (s.set w d).next = s.next := by cases w <;> rfl
@[simp] theorem set_faults (s : State) (w : Who) (d : Doc) : (s.set w d).faults = s.faults := by cases w <;> rfl

theorem destroyDom_inv (s : State) (h : Inv s) (w : Who) : Inv (destroyDom s w) := by
  obtain ⟨h1, h2, h3, h4, h5, h6⟩ := freeDoc_spec s h w
  obtain ⟨hn, hl, _⟩ := h.doc s w.other
  have hf := h.fresh
  cases w <;> constructor <;>
    simp only [destroyDom, State.get, Who.other, State.owned, set_a_a, set_a_b, set_b_a, set_b_b, set_live, set_next,
      set_faults, buffers_empty, List.nil_append, List.append_nil, h1, h2, h3, h4] at * <;>
    first | assumption | grind

theorem destroyDom_get (s : State) (w : Who) : (destroyDom s w).get w = {} := by
  cases w <;> simp [destroyDom, State.get]

/-- a fresh block put into document `w`, whose buffers become `d`'s: the old ones plus the new block -/
theorem alloc_set_inv (t : State) (h : Inv t) (w : Who) (d : Doc)
    (hd : d.buffers.Perm (t.next :: (t.get w).buffers)) : Inv ((alloc t).1.set w d) := by
  obtain ⟨h1, h2, h3, h4, h5⟩ := h
  have hnew : t.next ∉ t.live := fun hm => Nat.lt_irrefl _ (h5 _ hm)
  have hmem : ∀ y, y ∈ d.buffers ↔ y = t.next ∨ y ∈ (t.get w).buffers := fun y => by rw [hd.mem_iff]; simp
  have hdn : d.buffers.Nodup ↔ (t.next ∉ (t.get w).buffers ∧ (t.get w).buffers.Nodup) := by
    rw [hd.nodup_iff]; simp
  rw [owned_a, List.nodup_append] at h2
  cases w <;> constructor <;>
    simp only [alloc, State.get, State.owned, set_a_a, set_a_b, set_b_a, set_b_b, set_live, set_next, set_faults,
      List.mem_cons, List.mem_append, List.nodup_cons, List.nodup_append] at * <;>
    first | assumption | grind

theorem step_inv (s : State) (h : Inv s) (op : Op) : Inv (step s op) := by
  cases op with
  | destroy w => exact destroyDom_inv s h w
  | swap =>
    obtain ⟨h1, h2, h3, h4, h5⟩ := h
    constructor <;> simp only [step, State.owned] at * <;> try assumption
    · rw [List.nodup_append] at h2 ⊢
      obtain ⟨a, b, c⟩ := h2
      exact ⟨b, a, fun x hx y hy e => c y hy x hx e.symm⟩
    · intro x; rw [h3 x]; simp only [List.mem_append]; exact Or.comm
  | schema w =>
    exact alloc_set_inv s h w _ (by cases w <;> exact buffers_push _ _)
  | parse w =>
    have hd := destroyDom_inv s h w
    have ht := destroyDom_get s w
    simp only [step]
    exact alloc_set_inv _ hd w _ (by rw [ht]; exact List.Perm.refl _)
  | massign dst =>
    obtain ⟨h1, h2, h3, h4, h5, h6⟩ := freeDoc_spec s h dst
    obtain ⟨hn, hl, _⟩ := h.doc s dst.other
    have hf := h.fresh
    cases dst <;> constructor <;>
      simp only [step, State.get, Who.other, State.owned, set_a_a, set_a_b, set_b_a, set_b_b, set_live, set_next,
        set_faults, buffers_empty, List.nil_append, List.append_nil, h1, h2, h3, h4] at * <;>
      first | assumption | grind

/-- **Every history**: the invariant holds after any sequence of operations from two fresh documents -/
theorem run_inv (ops : List Op) : Inv (run ops) := by
  unfold run
  suffices ∀ s, Inv s → Inv (ops.foldl step s) from this _ init_inv
  induction ops with
  | nil => intro s h; exact h
  | cons op ops ih => intro s h; exact ih _ (step_inv s h op)

/-- nothing is leaked: once both documents are destroyed the allocator holds no live block -/
theorem run_no_leak (ops : List Op) : (run (ops ++ [.destroy .a, .destroy .b])).live = [] ∧
    (run (ops ++ [.destroy .a, .destroy .b])).faults = 0 := by
  have h := run_inv (ops ++ [.destroy .a, .destroy .b])
  refine ⟨?_, h.faults⟩
  have ho : (run (ops ++ [.destroy .a, .destroy .b])).owned = [] := by
    simp only [run, List.foldl_append, List.foldl_cons, List.foldl_nil, step]
    generalize List.foldl step {} ops = s
    simp [State.owned, destroyDom, State.get, (freeList_ab _ _).1, (freeList_ab _ _).2]
  exact List.eq_nil_iff_forall_not_mem.mpr (fun x hx => by have := (h.liveIff x).mp hx; rw [ho] at this; simp at this)

/-- `ParseSchema` frees nothing: every block that was live stays live (string nodes written by earlier `ParseSchema` calls
    keep pointing into live buffers), and exactly one block is added -/
theorem schema_keeps (s : State) (w : Who) : (step s (.schema w)).live = s.next :: s.live ∧
    (step s (.schema w)).faults = s.faults := by
  cases w <;> simp [step, alloc]

/-- the buffers of all `ParseSchema` calls on a document since its last `Parse` are live and distinct -/
theorem chain_live (ops : List Op) (w : Who) :
    ((run ops).get w).chain.Nodup ∧ ∀ x ∈ ((run ops).get w).chain, x ∈ (run ops).live := by
  obtain ⟨hn, hl, _⟩ := (run_inv ops).doc _ w
  simp only [Doc.buffers, List.nodup_append] at hn
  exact ⟨hn.2.1, fun x hx => hl x (by simp [Doc.buffers, hx])⟩

end Sonic.Model.DocBuf
