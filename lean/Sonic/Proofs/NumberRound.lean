import Sonic.Proofs.NumberRne

/-!
# Helper lemmas for C04: `Spec.Rne.round` (decimal to binary64) — sign, scaling, monotonicity
-/
namespace Sonic.Proofs.Rne

open Sonic.Spec.Rne

/-- number of decimal digits -/
def dl (m : Nat) : Nat := (Nat.toDigits 10 m).length

theorem dl_pos (m : Nat) : 0 < dl m := Nat.length_toDigits_pos

theorem dl_le_iff (m k : Nat) (hk : 0 < k) : dl m ≤ k ↔ m < 10 ^ k :=
  Nat.length_toDigits_le_iff (by omega) hk

theorem lt_pow_dl (m : Nat) : m < 10 ^ dl m := (dl_le_iff m (dl m) (dl_pos m)).1 (Nat.le_refl _)

theorem pow_dl_le (m : Nat) (hm : 0 < m) : 10 ^ (dl m - 1) ≤ m := by
  apply Classical.byContradiction
  intro h
  have hlt : m < 10 ^ (dl m - 1) := by omega
  by_cases h1 : dl m - 1 = 0
  · rw [h1] at hlt; simp at hlt; omega
  · have := (dl_le_iff m (dl m - 1) (by omega)).2 hlt
    have := dl_pos m
    omega

theorem dl_mono {m m' : Nat} (h : m ≤ m') : dl m ≤ dl m' :=
  (dl_le_iff m (dl m') (dl_pos m')).2 (Nat.lt_of_le_of_lt h (lt_pow_dl m'))

theorem dl_mul_pow (m k : Nat) (hm : 0 < m) : dl (m * 10 ^ k) = dl m + k := by
  apply Nat.le_antisymm
  · apply (dl_le_iff _ _ (by have := dl_pos m; omega)).2
    rw [Nat.pow_add]
    exact Nat.mul_lt_mul_of_pos_right (lt_pow_dl m) (Nat.pow_pos (by omega))
  · apply Classical.byContradiction
    intro h
    have h1 : dl (m * 10 ^ k) ≤ dl m + k - 1 := by omega
    have hp := dl_pos m
    have h2 := (dl_le_iff (m * 10 ^ k) (dl m + k - 1) (by
      have := dl_pos (m * 10 ^ k); omega)).1 h1
    have e : dl m + k - 1 = (dl m - 1) + k := by omega
    rw [e, Nat.pow_add] at h2
    have h3 := Nat.lt_of_mul_lt_mul_right h2
    have := pow_dl_le m hm
    omega

/-- `round` for a non-zero mantissa, as one expression -/
theorem round_eq (neg : Bool) (m : Nat) (e : Int) (hm : m ≠ 0) :
    round neg m e =
      if e + (dl m : Int) > 400 then none
      else if e + (dl m : Int) < -400 then some (if neg then 2 ^ 63 else 0)
      else (roundRat (m * 10 ^ e.toNat) (10 ^ (-e).toNat)).map (· + (if neg then 2 ^ 63 else 0)) := by
  unfold round
  simp only [hm, if_false]
  show (if e + (dl m : Int) > 400 then none else if e + (dl m : Int) < -400 then _ else _) = _
  split
  · rfl
  · split
    · rfl
    · cases e with
      | ofNat k =>
        have h1 : (Int.ofNat k).toNat = k := rfl
        have h2 : (-(Int.ofNat k)).toNat = 0 := by
          show (-(k : Int)).toNat = 0; omega
        simp only [h1, h2, Nat.pow_zero]
      | negSucc k =>
        have h1 : (Int.negSucc k).toNat = 0 := rfl
        have h2 : (-(Int.negSucc k)).toNat = k + 1 := rfl
        simp only [h1, h2, Nat.pow_zero, Nat.mul_one]

theorem round_neg (m : Nat) (e : Int) : round true m e = (round false m e).map (· + 2 ^ 63) := by
  by_cases hm : m = 0
  · subst hm; simp [round]
  · rw [round_eq true m e hm, round_eq false m e hm]
    split
    · rfl
    · split
      · rfl
      · simp only [if_true, Bool.false_eq_true, if_false, Nat.add_zero, Option.map_map]
        congr 1

theorem optLe_refl (x : Option Nat) : optLe x x := by
  cases x <;> simp [optLe]

theorem optLe_zero (x : Option Nat) : optLe (some 0) x := by
  cases x <;> simp [optLe]

theorem optLe_none (x : Option Nat) : optLe x none := by
  cases x <;> simp [optLe]

theorem optLe_trans {x y z : Option Nat} (h1 : optLe x y) (h2 : optLe y z) : optLe x z := by
  cases x <;> cases y <;> cases z <;> simp_all [optLe]
  omega

theorem optLe_antisymm {x y : Option Nat} (h1 : optLe x y) (h2 : optLe y x) : x = y := by
  cases x <;> cases y <;> simp_all [optLe]
  omega

theorem map_add_inj (c : Nat) (x y : Option Nat) (h : x.map (· + c) = y.map (· + c)) : x = y := by
  cases x <;> cases y <;> simp_all

theorem map_add_zero (x : Option Nat) : x.map (· + 0) = x := by cases x <;> rfl

/-- **Rne_monotone**: for a fixed decimal exponent, the correctly rounded double is monotone in the mantissa
    (bit patterns of non-negative doubles; `none` = +∞ on top) -/
theorem round_mono (m m' : Nat) (e : Int) (h : m ≤ m') : optLe (round false m e) (round false m' e) := by
  by_cases hm : m = 0
  · subst hm
    have : round false 0 e = some 0 := by simp [round]
    rw [this]; exact optLe_zero _
  · have hm' : m' ≠ 0 := by omega
    rw [round_eq false m e hm, round_eq false m' e hm']
    have hd := dl_mono h
    simp only [Bool.false_eq_true, if_false, map_add_zero]
    by_cases h1 : e + (dl m : Int) > 400
    · have h1' : e + (dl m' : Int) > 400 := by omega
      rw [if_pos h1, if_pos h1']; trivial
    · rw [if_neg h1]
      by_cases h2 : e + (dl m : Int) < -400
      · rw [if_pos h2]; exact optLe_zero _
      · rw [if_neg h2]
        by_cases h1' : e + (dl m' : Int) > 400
        · rw [if_pos h1']; exact optLe_none _
        · have h2' : ¬ (e + (dl m' : Int) < -400) := by omega
          rw [if_neg h1', if_neg h2']
          exact roundRat_mono_den _ _ _ (Nat.mul_pos (by omega) (Nat.pow_pos (by omega)))
            (Nat.mul_le_mul_right _ h) (Nat.pow_pos (by omega))

/-- the same decimal written with a longer mantissa: `m·10^k · 10^(e-k) = m · 10^e` -/
theorem round_scale (neg : Bool) (m k : Nat) (e : Int) : round neg (m * 10 ^ k) (e - k) = round neg m e := by
  by_cases hm : m = 0
  · subst hm; simp [round]
  · have hmk : m * 10 ^ k ≠ 0 := Nat.ne_of_gt (Nat.mul_pos (by omega) (Nat.pow_pos (by omega)))
    rw [round_eq neg _ _ hmk, round_eq neg m e hm, dl_mul_pow m k (by omega)]
    have e1 : e - (k : Int) + ((dl m + k : Nat) : Int) = e + (dl m : Int) := by omega
    rw [e1]
    split
    · rfl
    · split
      · rfl
      · congr 1
        apply roundRat_congr
        · exact Nat.mul_pos (Nat.mul_pos (by omega) (Nat.pow_pos (by omega))) (Nat.pow_pos (by omega))
        · exact Nat.pow_pos (by omega)
        · exact Nat.mul_pos (by omega) (Nat.pow_pos (by omega))
        · exact Nat.pow_pos (by omega)
        · -- m·10^k·10^(e-k)⁺·10^(e)⁻ = m·10^(e)⁺·10^(e-k)⁻
          have : k + (e - (k : Int)).toNat + (-e).toNat = e.toNat + (-(e - (k : Int))).toNat := by omega
          calc m * 10 ^ k * 10 ^ (e - (k : Int)).toNat * 10 ^ (-e).toNat
              = m * (10 ^ k * 10 ^ (e - (k : Int)).toNat * 10 ^ (-e).toNat) := by ac_rfl
            _ = m * 10 ^ (k + (e - (k : Int)).toNat + (-e).toNat) := by rw [Nat.pow_add, Nat.pow_add]
            _ = m * 10 ^ (e.toNat + (-(e - (k : Int))).toNat) := by rw [this]
            _ = m * 10 ^ e.toNat * 10 ^ (-(e - (k : Int))).toNat := by rw [Nat.pow_add]; ac_rfl

/-- **Soundness of the `man` / `man + 1` retry.**  If the decimals `man·10^e` and `(man+1)·10^e` round to the same
    double `b`, then so does every decimal `N·10^(e-k)` with `man·10^k ≤ N ≤ (man+1)·10^k` in between. -/
theorem retry_sound (neg : Bool) (man : Nat) (e : Int) (k N : Nat) (b : Option Nat)
    (hlo : round neg man e = b) (hhi : round neg (man + 1) e = b)
    (h1 : man * 10 ^ k ≤ N) (h2 : N ≤ (man + 1) * 10 ^ k) :
    round neg N (e - k) = b := by
  have key : round false N (e - k) = round false man e := by
    have hlo' : round false man e = round false (man + 1) e := by
      cases neg with
      | false => rw [hlo, hhi]
      | true =>
        rw [round_neg] at hlo hhi
        exact map_add_inj _ _ _ (hlo.trans hhi.symm)
    have a1 := round_mono (man * 10 ^ k) N (e - k) h1
    have a2 := round_mono N ((man + 1) * 10 ^ k) (e - k) h2
    rw [round_scale] at a1 a2
    rw [← hlo'] at a2
    exact optLe_antisymm a2 a1
  cases neg with
  | false => rw [key, hlo]
  | true => rw [round_neg, key, ← round_neg, hlo]

end Sonic.Proofs.Rne
