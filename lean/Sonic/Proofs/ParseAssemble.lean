import Sonic.Proofs.ParseSax

/-!
# Stack assembly: the SAX events of a tree, replayed on the node stack, rebuild that tree

`evNode n` is the sequence of handler calls that `parseImpl` makes for a value whose finished DOM node is `n`
(scalars and keys: one `SONIC_ADD_NODE` callback; containers: `Start*`, the events of the children in order,
`End*(count)`).  `assemble`: replaying `evNode n` on any node stack with enough room pushes exactly `n` — same
nesting, children in order, object members as `key, value, key, value, …`.
-/
namespace Sonic.Proofs.Parse
open Sonic.Model.Parse

inductive SaxEv where
  | scalar (n : Node)            -- Null / Bool / Uint / Int / Double / String / Key
  | startArr
  | startObj
  | endArr (count : Nat)
  | endObj (pairs : Nat)

def applyEv (s : Sax) : SaxEv → Except Fault (Sax × Bool)
  | .scalar n => s.scalar n
  | .startArr => s.start
  | .startObj => s.start
  | .endArr c => match s.endArray c with
    | .error e => .error e
    | .ok s' => .ok (s', true)
  | .endObj p => match s.endObject p with
    | .error e => .error e
    | .ok s' => .ok (s', true)

/-- replay; stops at the first callback that returns false (as `parseImpl` does) -/
def runEvs (s : Sax) : List SaxEv → Except Fault (Sax × Bool)
  | [] => .ok (s, true)
  | e :: es =>
    match applyEv s e with
    | .error f => .error f
    | .ok (s', false) => .ok (s', false)
    | .ok (s', true) => runEvs s' es

mutual
/-- a finished tree: no placeholder, objects hold an even number of nodes -/
def finNode : Node → Bool
  | .arr xs => finList xs
  | .obj xs => finList xs && xs.length % 2 == 0
  | .hole _ => false
  | _ => true
def finList : List Node → Bool
  | [] => true
  | x :: xs => finNode x && finList xs
end

mutual
def evNode : Node → List SaxEv
  | .arr xs => .startArr :: (evList xs ++ [.endArr xs.length])
  | .obj xs => .startObj :: (evList xs ++ [.endObj (xs.length / 2)])
  | n => [.scalar n]
def evList : List Node → List SaxEv
  | [] => []
  | x :: xs => evNode x ++ evList xs
end

mutual
/-- number of nodes of a tree -/
def countNode : Node → Nat
  | .arr xs => 1 + countList xs
  | .obj xs => 1 + countList xs
  | _ => 1
def countList : List Node → Nat
  | [] => 0
  | x :: xs => countNode x + countList xs
end

theorem countNode_pos (n : Node) : 1 ≤ countNode n := by
  cases n <;> simp [countNode] <;> omega

theorem runEvs_append (s : Sax) (a b : List SaxEv) :
    runEvs s (a ++ b) = match runEvs s a with
      | .error f => .error f
      | .ok (s', false) => .ok (s', false)
      | .ok (s', true) => runEvs s' b := by
  induction a generalizing s with
  | nil => rfl
  | cons e es ih =>
    simp only [List.cons_append, runEvs]
    cases h : applyEv s e with
    | error f => rfl
    | ok x =>
      obtain ⟨s', r⟩ := x
      cases r with
      | false => rfl
      | true => exact ih s'

/-- `End*` on a flat stack `ns ++ hole old :: items` whose `parent_` is the placeholder -/
theorem endContainer_flat {sax : Sax} {ns items : List Node} {old : Nat}
    (hs : StackNodes sax (ns ++ Node.hole old :: items)) (hpar : sax.parent = ns.length) (mk : List Node → Node) :
    ∃ sax', sax.endContainer items.length mk = .ok sax' ∧ StackNodes sax' (ns ++ [mk items]) ∧ sax'.parent = old ∧
      sax'.cap = sax.cap := by
  have hhole : (ns ++ Node.hole old :: items)[sax.parent]? = some (.hole old) := by
    rw [hpar]; simp
  have hnp : sax.np = ns.length + 1 + items.length := by
    rw [hs.np]; simp; omega
  unfold Sax.endContainer
  rw [hs.get hhole]
  simp only
  have hread : sax.readNodes (sax.parent + 1) items.length = .ok items := by
    apply readNodes_ok
    intro j n hj
    apply hs.getElem?
    rw [hpar, List.getElem?_append_right (by omega)]
    rw [show ns.length + 1 + j - ns.length = j + 1 by omega]
    simpa using hj
  rw [hread]
  simp only
  obtain ⟨r1, r2, r3, r4, r5, r6⟩ := release_spec sax items.length (sax.parent + 1)
  have hlt : sax.parent < sax.st.length := by rw [hs.len]; have := hs.le; omega
  simp only [Sax.put, r5, r1]
  rw [if_pos hlt]
  refine ⟨_, rfl, ⟨?_, ?_, ?_, ?_⟩, rfl, by simp only [r4]⟩
  · simp only [List.length_set, r1, r4]; exact hs.len
  · simp only [List.length_append, List.length_cons, List.length_nil]; omega
  · simp only [r4]; have := hs.le; omega
  · simp only
    rw [List.take_add_one, List.getElem?_set_self (by rw [r1]; exact hlt),
      List.take_set_of_le (Nat.le_refl _)]
    have h2 := congrArg (List.take sax.parent) r2
    rw [List.take_take, List.take_take, Nat.min_eq_left (by omega)] at h2
    rw [h2]
    have h3 := congrArg (List.take sax.parent) hs.pre
    rw [List.take_take, Nat.min_eq_left (by omega)] at h3
    rw [h3, hpar]
    simp

theorem finList_length_even_div (xs : List Node) (h : xs.length % 2 = 0) : 2 * (xs.length / 2) = xs.length := by
  omega

mutual
/-- **stack assembly**: replaying the events of a finished tree `n` on a stack holding `ns` (with room for
    `countNode n` more nodes) succeeds, pushes exactly `n`, and restores `parent_` -/
theorem assemble : ∀ (n : Node), finNode n = true → ∀ (sax : Sax) (ns : List Node), StackNodes sax ns →
    sax.np + countNode n ≤ sax.cap →
    ∃ sax', runEvs sax (evNode n) = .ok (sax', true) ∧ StackNodes sax' (ns ++ [n]) ∧
      sax'.parent = sax.parent ∧ sax'.cap = sax.cap
  | .arr xs, hfin, sax, ns, hs, hc => by
    simp only [finNode] at hfin
    simp only [countNode] at hc
    have hlt : sax.np < sax.cap := by omega
    have hst := hs.push hlt (.hole sax.parent)
    obtain ⟨sax2, h2, hs2, hp2, hc2⟩ := assembleList xs hfin
      { sax with np := sax.np + 1, st := sax.st.set sax.np (some (.hole sax.parent)), parent := sax.np }
      (ns ++ [.hole sax.parent]) ⟨hst.len, hst.np, hst.le, hst.pre⟩ (by simp only; omega)
    simp only at hp2 hc2
    rw [List.append_assoc] at hs2
    obtain ⟨sax3, h3, hs3, hp3, hc3⟩ := endContainer_flat (items := xs) (old := sax.parent)
      (by simpa using hs2) (by rw [hp2, hs.np]) .arr
    refine ⟨sax3, ?_, hs3, hp3, by rw [hc3, hc2]⟩
    simp only [evNode, runEvs, applyEv, start_ok hs hlt]
    rw [runEvs_append, h2]
    simp only [runEvs, applyEv, Sax.endArray, h3]
  | .obj xs, hfin, sax, ns, hs, hc => by
    simp only [finNode, Bool.and_eq_true, beq_iff_eq] at hfin
    simp only [countNode] at hc
    have hlt : sax.np < sax.cap := by omega
    have hst := hs.push hlt (.hole sax.parent)
    obtain ⟨sax2, h2, hs2, hp2, hc2⟩ := assembleList xs hfin.1
      { sax with np := sax.np + 1, st := sax.st.set sax.np (some (.hole sax.parent)), parent := sax.np }
      (ns ++ [.hole sax.parent]) ⟨hst.len, hst.np, hst.le, hst.pre⟩ (by simp only; omega)
    simp only at hp2 hc2
    rw [List.append_assoc] at hs2
    obtain ⟨sax3, h3, hs3, hp3, hc3⟩ := endContainer_flat (items := xs) (old := sax.parent)
      (by simpa using hs2) (by rw [hp2, hs.np]) .obj
    refine ⟨sax3, ?_, hs3, hp3, by rw [hc3, hc2]⟩
    simp only [evNode, runEvs, applyEv, start_ok hs hlt]
    rw [runEvs_append, h2]
    simp only [runEvs, applyEv, Sax.endObject, finList_length_even_div xs hfin.2, h3]
  | .hole _, hfin, _, _, _, _ => by simp [finNode] at hfin
  | .null, _, sax, ns, hs, hc => by
    have hlt : sax.np < sax.cap := by simp only [countNode] at hc; omega
    exact ⟨_, by simp only [evNode, runEvs, applyEv, scalar_ok hs hlt], hs.push hlt _, rfl, rfl⟩
  | .bool _, _, sax, ns, hs, hc => by
    have hlt : sax.np < sax.cap := by simp only [countNode] at hc; omega
    exact ⟨_, by simp only [evNode, runEvs, applyEv, scalar_ok hs hlt], hs.push hlt _, rfl, rfl⟩
  | .uint _, _, sax, ns, hs, hc => by
    have hlt : sax.np < sax.cap := by simp only [countNode] at hc; omega
    exact ⟨_, by simp only [evNode, runEvs, applyEv, scalar_ok hs hlt], hs.push hlt _, rfl, rfl⟩
  | .sint _, _, sax, ns, hs, hc => by
    have hlt : sax.np < sax.cap := by simp only [countNode] at hc; omega
    exact ⟨_, by simp only [evNode, runEvs, applyEv, scalar_ok hs hlt], hs.push hlt _, rfl, rfl⟩
  | .dbl _, _, sax, ns, hs, hc => by
    have hlt : sax.np < sax.cap := by simp only [countNode] at hc; omega
    exact ⟨_, by simp only [evNode, runEvs, applyEv, scalar_ok hs hlt], hs.push hlt _, rfl, rfl⟩
  | .str _ _, _, sax, ns, hs, hc => by
    have hlt : sax.np < sax.cap := by simp only [countNode] at hc; omega
    exact ⟨_, by simp only [evNode, runEvs, applyEv, scalar_ok hs hlt], hs.push hlt _, rfl, rfl⟩
theorem assembleList : ∀ (xs : List Node), finList xs = true → ∀ (sax : Sax) (ns : List Node), StackNodes sax ns →
    sax.np + countList xs ≤ sax.cap →
    ∃ sax', runEvs sax (evList xs) = .ok (sax', true) ∧ StackNodes sax' (ns ++ xs) ∧
      sax'.parent = sax.parent ∧ sax'.cap = sax.cap
  | [], _, sax, ns, hs, _ => ⟨sax, rfl, by simpa using hs, rfl, rfl⟩
  | x :: xs, hfin, sax, ns, hs, hc => by
    simp only [finList, Bool.and_eq_true] at hfin
    simp only [countList] at hc
    obtain ⟨sax1, h1, hs1, hp1, hc1⟩ := assemble x hfin.1 sax ns hs (by omega)
    have hnp1 : sax1.np = sax.np + 1 := by
      rw [hs1.np, hs.np]; simp
    obtain ⟨sax2, h2, hs2, hp2, hc2⟩ := assembleList xs hfin.2 sax1 (ns ++ [x]) hs1 (by have := countNode_pos x; rw [hc1, hnp1]; omega)
    refine ⟨sax2, ?_, by simpa using hs2, by rw [hp2, hp1], by rw [hc2, hc1]⟩
    simp only [evList]
    rw [runEvs_append, h1]
    exact h2
end

mutual
/-- a node that denotes a JSON value is a finished tree -/
theorem fin_of_toJVal (buf : Buf) : ∀ (n : Node) (v : Sonic.Spec.JVal), n.toJVal buf = some v → finNode n = true
  | .arr xs, v, h => by
    simp only [Node.toJVal] at h
    cases hx : toJVals buf xs with
    | none => rw [hx] at h; cases h
    | some vs => simp only [finNode]; exact fin_of_toJVals buf xs vs hx
  | .obj xs, v, h => by
    simp only [Node.toJVal] at h
    cases hx : toMembers buf xs none with
    | none => rw [hx] at h; cases h
    | some kvs =>
      have := fin_of_toMembers buf xs none kvs hx
      simp only [finNode, Bool.and_eq_true, beq_iff_eq]
      exact ⟨this.1, by simpa using this.2⟩
  | .hole _, v, h => by simp [Node.toJVal] at h
  | .null, _, _ => rfl
  | .bool _, _, _ => rfl
  | .uint _, _, _ => rfl
  | .sint _, _, _ => rfl
  | .dbl _, _, _ => rfl
  | .str _ _, _, _ => rfl
theorem fin_of_toJVals (buf : Buf) : ∀ (xs : List Node) (vs : List Sonic.Spec.JVal), toJVals buf xs = some vs →
    finList xs = true
  | [], _, _ => rfl
  | x :: xs, vs, h => by
    simp only [toJVals] at h
    cases hx : x.toJVal buf with
    | none => rw [hx] at h; cases h
    | some xv =>
      cases ha : toJVals buf xs with
      | none => rw [hx, ha] at h; cases h
      | some avs =>
        simp only [finList, Bool.and_eq_true]
        exact ⟨fin_of_toJVal buf x xv hx, fin_of_toJVals buf xs avs ha⟩
theorem fin_of_toMembers (buf : Buf) : ∀ (xs : List Node) (pending : Option (List Nat))
    (kvs : List (List Nat × Sonic.Spec.JVal)), toMembers buf xs pending = some kvs →
    finList xs = true ∧ (xs.length + (if pending.isSome then 1 else 0)) % 2 = 0
  | [], none, _, _ => ⟨rfl, rfl⟩
  | [], some _, _, h => by simp [toMembers] at h
  | x :: xs, none, kvs, h => by
    cases x with
    | str p n =>
      simp only [toMembers] at h
      have := fin_of_toMembers buf xs (some ((buf.drop p).take n)) kvs h
      simp only [finList, finNode, Bool.true_and, List.length_cons]
      refine ⟨this.1, ?_⟩
      have h2 := this.2
      simp only [Option.isSome_some, if_true] at h2
      simp only [Option.isSome_none, Bool.false_eq_true, if_false]
      omega
    | _ => simp [toMembers] at h
  | x :: xs, some k, kvs, h => by
    simp only [toMembers] at h
    cases hx : x.toJVal buf with
    | none => rw [hx] at h; cases h
    | some xv =>
      cases ha : toMembers buf xs none with
      | none => rw [hx, ha] at h; cases h
      | some akvs =>
        have := fin_of_toMembers buf xs none akvs ha
        simp only [finList, Bool.and_eq_true, List.length_cons]
        refine ⟨⟨fin_of_toJVal buf x xv hx, this.1⟩, ?_⟩
        have h2 := this.2
        simp only [Option.isSome_none, Bool.false_eq_true, if_false] at h2
        simp only [Option.isSome_some, if_true]
        omega
end

end Sonic.Proofs.Parse
