import Sonic.Proofs.SerializeTop
import Sonic.Proofs.SerializeQuoteDecode
import Sonic.Proofs.SerializeNumber
import Sonic.Spec.Json

/-!
# C06 helper lemmas: the independent reader `Spec.Json.parse` reads the printed text back

`parse_rT`: for a well-formed document whose doubles print to texts that `scanNumber` reads back (`RealsOK`), the
reference reader started at the text of `v` (embedded anywhere, followed by a delimiter) returns exactly `v` and the
index just after the text.  No hypothesis on the doubles is needed for documents without doubles.
-/
namespace Sonic.Proofs.Serialize
open Sonic.Spec Sonic.Spec.Render Sonic.Spec.Json Sonic.Model.Serialize

/-! ## what is needed of the double printer, per document -/

/-- the text of `bits` is non-empty and reads back as `real bits` -/
def RealOK (F : FtoaFn) (bits : Nat) : Prop :=
  ∃ o, F bits = some o ∧ 1 ≤ o.text.length ∧ Number.scanNumber o.text 0 = .ok (.real bits) o.text.length

mutual
def RealsOK (F : FtoaFn) : JVal → Prop
  | .num (.real b) => RealOK F b
  | .arr xs => realsOKList F xs
  | .obj kvs => realsOKMems F kvs
  | _ => True
def realsOKList (F : FtoaFn) : List JVal → Prop
  | [] => True
  | x :: xs => RealsOK F x ∧ realsOKList F xs
def realsOKMems (F : FtoaFn) : List (List Nat × JVal) → Prop
  | [] => True
  | (_, v) :: kvs => RealsOK F v ∧ realsOKMems F kvs
end

mutual
/-- no double at all -/
def NoReals : JVal → Bool
  | .num (.real _) => false
  | .arr xs => noRealsList xs
  | .obj kvs => noRealsMems kvs
  | _ => true
def noRealsList : List JVal → Bool
  | [] => true
  | x :: xs => NoReals x && noRealsList xs
def noRealsMems : List (List Nat × JVal) → Bool
  | [] => true
  | (_, v) :: kvs => NoReals v && noRealsMems kvs
end

mutual
theorem realsOK_of_facts {F : FtoaFn} (hF : FtoaFacts F) :
    ∀ v : JVal, WF v = true → AllFinite v = true → RealsOK F v
  | .null, _, _ => trivial
  | .bool _, _, _ => trivial
  | .str _, _, _ => trivial
  | .num (.uint _), _, _ => trivial
  | .num (.sint _), _, _ => trivial
  | .num (.real bits), hw, hf => by
    have hb : bits < 2 ^ 64 := by simpa [WF, numWF] using hw
    have hfb : finiteBits bits = true := by simpa [AllFinite, numFinite] using hf
    obtain ⟨o, ho, h1, _, _⟩ := hF.finite bits hb hfb
    exact ⟨o, ho, h1, hF.roundtrip bits o hb hfb ho⟩
  | .arr xs, hw, hf => by
    simp only [RealsOK]
    exact realsOKList_of_facts hF xs (by simpa [WF] using hw) (by simpa [AllFinite] using hf)
  | .obj kvs, hw, hf => by
    simp only [RealsOK]
    exact realsOKMems_of_facts hF kvs (by simpa [WF] using hw) (by simpa [AllFinite] using hf)
theorem realsOKList_of_facts {F : FtoaFn} (hF : FtoaFacts F) :
    ∀ xs : List JVal, wfList xs = true → allFiniteList xs = true → realsOKList F xs
  | [], _, _ => trivial
  | x :: xs, hw, hf => by
    have hw' : WF x = true ∧ wfList xs = true := by simpa [wfList] using hw
    have hf' : AllFinite x = true ∧ allFiniteList xs = true := by simpa [allFiniteList] using hf
    exact ⟨realsOK_of_facts hF x hw'.1 hf'.1, realsOKList_of_facts hF xs hw'.2 hf'.2⟩
theorem realsOKMems_of_facts {F : FtoaFn} (hF : FtoaFacts F) :
    ∀ kvs : List (List Nat × JVal), wfMems kvs = true → allFiniteMems kvs = true → realsOKMems F kvs
  | [], _, _ => trivial
  | (k, v) :: kvs, hw, hf => by
    have hw' : (bytesWF k = true ∧ WF v = true) ∧ wfMems kvs = true := by simpa [wfMems] using hw
    have hf' : AllFinite v = true ∧ allFiniteMems kvs = true := by simpa [allFiniteMems] using hf
    exact ⟨realsOK_of_facts hF v hw'.1.2 hf'.1, realsOKMems_of_facts hF kvs hw'.2 hf'.2⟩
end

mutual
theorem realsOK_of_noReals (F : FtoaFn) : ∀ v : JVal, NoReals v = true → RealsOK F v
  | .null, _ => trivial
  | .bool _, _ => trivial
  | .str _, _ => trivial
  | .num (.uint _), _ => trivial
  | .num (.sint _), _ => trivial
  | .num (.real _), h => by simp [NoReals] at h
  | .arr xs, h => by simp only [RealsOK]; exact realsOKList_of_noReals F xs (by simpa [NoReals] using h)
  | .obj kvs, h => by simp only [RealsOK]; exact realsOKMems_of_noReals F kvs (by simpa [NoReals] using h)
theorem realsOKList_of_noReals (F : FtoaFn) : ∀ xs : List JVal, noRealsList xs = true → realsOKList F xs
  | [], _ => trivial
  | x :: xs, h => by
    have h' : NoReals x = true ∧ noRealsList xs = true := by simpa [noRealsList] using h
    exact ⟨realsOK_of_noReals F x h'.1, realsOKList_of_noReals F xs h'.2⟩
theorem realsOKMems_of_noReals (F : FtoaFn) : ∀ kvs : List (List Nat × JVal), noRealsMems kvs = true → realsOKMems F kvs
  | [], _ => trivial
  | (k, v) :: kvs, h => by
    have h' : NoReals v = true ∧ noRealsMems kvs = true := by simpa [noRealsMems] using h
    exact ⟨realsOK_of_noReals F v h'.1, realsOKMems_of_noReals F kvs h'.2⟩
end

/-! ## reading bytes of an embedded text -/

theorem get_after (pre a R : List Nat) : (pre ++ (a ++ R))[pre.length + a.length]? = R[0]? := by
  rw [← List.append_assoc, show pre.length + a.length = (pre ++ a).length + 0 by simp, getElem?_pre]

theorem get_in (pre a R : List Nat) (j : Nat) (h : j < a.length) : (pre ++ (a ++ R))[pre.length + j]? = a[j]? := by
  rw [getElem?_pre, List.getElem?_append_left h]

/-! ## whitespace, dispatch -/

theorem skipWs_eq (buf : List Nat) (fuel p : Nat) (h : ∀ c, buf[p]? = some c → isWs c = false) :
    skipWs buf fuel p = p := by
  cases fuel with
  | zero => rfl
  | succ f =>
    unfold skipWs
    cases hg : buf[p]? with
    | none => rfl
    | some c => simp [h c hg]

/-- a byte at which no value starts -/
def NotStart (c : Nat) : Prop := c = 0x20 ∨ c = 9 ∨ c = 10 ∨ c = 13 ∨ c = 0x5D ∨ c = 0x7D

theorem parseValue_notStart (buf : List Nat) (fuel p c : Nat) (hget : buf[p]? = some c) (hc : NotStart c) :
    parseValue buf fuel p = .error .malformed := by
  cases fuel with
  | zero => rfl
  | succ f =>
    unfold parseValue
    rw [hget]
    rcases hc with rfl | rfl | rfl | rfl | rfl | rfl <;> rfl

/-- where a value was read, a value starts: the byte is neither whitespace nor a closing bracket -/
theorem parseValue_ok_head {buf : List Nat} {fuel p : Nat} {r : JVal × Nat} (h : parseValue buf fuel p = .ok r) :
    ∀ c, buf[p]? = some c → isWs c = false ∧ c ≠ 0x5D ∧ c ≠ 0x7D := by
  intro c hget
  have hn : ¬ NotStart c := by
    intro hc
    rw [parseValue_notStart buf fuel p c hget hc] at h
    cases h
  unfold NotStart at hn
  refine ⟨?_, by omega, by omega⟩
  simp only [isWs, Bool.or_eq_false_iff, beq_eq_false_iff_ne]
  omega

theorem parseElems_ok_head {buf : List Nat} {fuel p : Nat} {r : List JVal × Nat} (h : parseElems buf fuel p = .ok r) :
    ∀ c, buf[p]? = some c → isWs c = false ∧ c ≠ 0x5D ∧ c ≠ 0x7D := by
  cases fuel with
  | zero => simp [parseElems] at h
  | succ f =>
    unfold parseElems at h
    cases hv : parseValue buf f p with
    | error e => rw [hv] at h; cases h
    | ok r' => exact parseValue_ok_head hv

theorem matchLit_embed (pre lit R : List Nat) : matchLit (pre ++ (lit ++ R)) pre.length lit = true := by
  unfold matchLit
  rw [List.all_eq_true]
  intro i hi
  have hi' : i < lit.length := by simpa using hi
  rw [get_in pre lit R i hi']
  simp

/-- dispatch of `parseValue` on a byte that starts a number -/
theorem parseValue_number (buf : List Nat) (fuel p c : Nat) (hget : buf[p]? = some c)
    (hc : c = 45 ∨ Number.isDigit c = true) :
    parseValue buf (fuel + 1) p =
      match Number.scanNumber buf p with
      | .ok v next => .ok (.num v, next)
      | .infinity _ => .error .infinity
      | .malformed => .error .malformed := by
  unfold parseValue
  rw [hget]
  rcases hc with rfl | hd
  · rfl
  · have hb : 48 ≤ c ∧ c ≤ 57 := by simpa [Number.isDigit] using hd
    have h1 : (c == 0x22) = false := by simp; omega
    have h2 : (c == 0x5B) = false := by simp; omega
    have h3 : (c == 0x7B) = false := by simp; omega
    have h4 : (c == 0x74) = false := by simp; omega
    have h5 : (c == 0x66) = false := by simp; omega
    have h6 : (c == 0x6E) = false := by simp; omega
    have h7 : (c == 0x2D || (decide (0x30 ≤ c) && decide (c ≤ 0x39))) = true := by simp; omega
    simp only [h1, h2, h3, h4, h5, h6, h7, Bool.false_eq_true, if_false, if_true]
    rfl

/-- a number text embedded in a buffer is read by `parseValue` -/
theorem parseValue_num_embed (buf pre t rest : List Nat) (fuel : Nat) (n : JNum) (hbuf : buf = pre ++ (t ++ rest))
    (hd : Delim rest) (h : Number.scanNumber t 0 = .ok n t.length) :
    parseValue buf (fuel + 1) pre.length = .ok (.num n, pre.length + t.length) := by
  obtain ⟨c, r, ht, hc⟩ := scanNumber_head t n _ h
  have hget : buf[pre.length]? = some c := by
    rw [hbuf, getElem?_pre0, ht]; rfl
  rw [parseValue_number buf fuel pre.length c hget hc, hbuf, scanNumber_embed pre t rest hd n h]

/-! ## lengths: every node prints at least one byte (fuel bound of `parse`) -/

theorem quote_length_ge (s : List Nat) : 2 ≤ (quote s).length := by simp [quote]

mutual
theorem nodes_le_length {F : FtoaFn} : ∀ v : JVal, RealsOK F v → nodes v ≤ (rT F v).length
  | .null, _ => by simp [nodes, rT, litNull]
  | .bool true, _ => by simp [nodes, rT, litTrue]
  | .bool false, _ => by simp [nodes, rT, litFalse]
  | .num (.uint n), _ => by
    have := Sonic.Proofs.Itoa.decimal_length_pos n
    simp only [nodes, rT]; omega
  | .num (.sint n), _ => by simp [nodes, rT]
  | .num (.real b), h => by
    obtain ⟨o, ho, h1, _⟩ := h
    simp only [nodes, rT, ho]; omega
  | .str s, _ => by have := quote_length_ge s; simp only [nodes, rT]; omega
  | .arr xs, h => by
    have := nodesList_le_length xs (by simpa [RealsOK] using h)
    simp only [nodes, rT, List.length_cons, List.length_append, List.length_dropLast, List.length_nil]
    omega
  | .obj kvs, h => by
    have := nodesMems_le_length kvs (by simpa [RealsOK] using h)
    simp only [nodes, rT, List.length_cons, List.length_append, List.length_dropLast, List.length_nil]
    omega
theorem nodesList_le_length {F : FtoaFn} : ∀ xs : List JVal, realsOKList F xs → nodesList xs ≤ (emitA F xs).length
  | [], _ => by simp [nodesList]
  | x :: xs, h => by
    have h1 := nodes_le_length x h.1
    have h2 := nodesList_le_length xs h.2
    simp only [nodesList, emitA, List.length_append, List.length_cons]
    omega
theorem nodesMems_le_length {F : FtoaFn} :
    ∀ kvs : List (List Nat × JVal), realsOKMems F kvs → nodesMems kvs ≤ (emitO F kvs).length
  | [], _ => by simp [nodesMems]
  | (k, v) :: kvs, h => by
    have h1 := nodes_le_length v h.1
    have h2 := nodesMems_le_length kvs h.2
    have h3 := quote_length_ge k
    simp only [nodesMems, emitO, List.length_append, List.length_cons]
    omega
end

/-! ## the reader on the printed text -/

theorem delim_cases (xsEmpty : Bool) (close : Nat) (hclose : close = 0x5D ∨ close = 0x7D) (M rest : List Nat) :
    Delim (if xsEmpty then close :: rest else 0x2C :: (M ++ close :: rest)) := by
  cases xsEmpty
  · exact delim_comma _
  · rcases hclose with rfl | rfl
    · exact delim_rbracket _
    · exact delim_rbrace _

mutual
theorem parse_rT {F : FtoaFn} : ∀ (v : JVal), WF v = true → RealsOK F v →
    ∀ (buf pre rest : List Nat) (fuel : Nat), buf = pre ++ (rT F v ++ rest) → Delim rest → 2 * nodes v ≤ fuel →
      parseValue buf fuel pre.length = .ok (v, pre.length + (rT F v).length)
  | .null, _, _ => by
    intro buf pre rest fuel hbuf _ hf
    obtain ⟨f, rfl⟩ : ∃ f, fuel = f + 1 := ⟨fuel - 1, by simp [nodes] at hf; omega⟩
    have hget : buf[pre.length]? = some 0x6E := by rw [hbuf, getElem?_pre0]; rfl
    have hm : matchLit buf pre.length [0x6E, 0x75, 0x6C, 0x6C] = true := by
      rw [hbuf]; exact matchLit_embed pre litNull rest
    unfold parseValue
    rw [hget]
    simp [hm, rT, litNull]
  | .bool true, _, _ => by
    intro buf pre rest fuel hbuf _ hf
    obtain ⟨f, rfl⟩ : ∃ f, fuel = f + 1 := ⟨fuel - 1, by simp [nodes] at hf; omega⟩
    have hget : buf[pre.length]? = some 0x74 := by rw [hbuf, getElem?_pre0]; rfl
    have hm : matchLit buf pre.length [0x74, 0x72, 0x75, 0x65] = true := by
      rw [hbuf]; exact matchLit_embed pre litTrue rest
    unfold parseValue
    rw [hget]
    simp [hm, rT, litTrue]
  | .bool false, _, _ => by
    intro buf pre rest fuel hbuf _ hf
    obtain ⟨f, rfl⟩ : ∃ f, fuel = f + 1 := ⟨fuel - 1, by simp [nodes] at hf; omega⟩
    have hget : buf[pre.length]? = some 0x66 := by rw [hbuf, getElem?_pre0]; rfl
    have hm : matchLit buf pre.length [0x66, 0x61, 0x6C, 0x73, 0x65] = true := by
      rw [hbuf]; exact matchLit_embed pre litFalse rest
    unfold parseValue
    rw [hget]
    simp [hm, rT, litFalse]
  | .num (.uint n), hw, _ => by
    intro buf pre rest fuel hbuf hd hf
    obtain ⟨f, rfl⟩ : ∃ f, fuel = f + 1 := ⟨fuel - 1, by simp [nodes] at hf; omega⟩
    have hn : n < 2 ^ 64 := by simpa [WF, numWF] using hw
    exact parseValue_num_embed buf pre (decimal n) rest f (.uint n) hbuf hd (scanNumber_decimal n hn)
  | .num (.sint i), hw, _ => by
    intro buf pre rest fuel hbuf hd hf
    obtain ⟨f, rfl⟩ : ∃ f, fuel = f + 1 := ⟨fuel - 1, by simp [nodes] at hf; omega⟩
    have hi : -(2 ^ 63 : Int) ≤ i ∧ i < 0 := by simpa [WF, numWF] using hw
    have h := scanNumber_neg i.natAbs (by omega) (by omega)
    have hneg : -(i.natAbs : Int) = i := by omega
    rw [hneg] at h
    exact parseValue_num_embed buf pre (45 :: decimal i.natAbs) rest f (.sint i) hbuf hd h
  | .num (.real b), _, hr => by
    intro buf pre rest fuel hbuf hd hf
    obtain ⟨f, rfl⟩ : ∃ f, fuel = f + 1 := ⟨fuel - 1, by simp [nodes] at hf; omega⟩
    obtain ⟨o, ho, _, hrt⟩ := hr
    have ht : rT F (.num (.real b)) = o.text := by simp [rT, ho]
    rw [ht] at hbuf ⊢
    exact parseValue_num_embed buf pre o.text rest f (.real b) hbuf hd hrt
  | .str s, _, _ => by
    intro buf pre rest fuel hbuf _ hf
    obtain ⟨f, rfl⟩ : ∃ f, fuel = f + 1 := ⟨fuel - 1, by simp [nodes] at hf; omega⟩
    have hget : buf[pre.length]? = some 0x22 := by rw [hbuf, getElem?_pre0]; rfl
    have hdec := decodeLit_quote s pre rest
    unfold parseValue
    rw [hget]
    simp only [rT] at hbuf ⊢
    rw [hbuf, hdec]
    rfl
  | .arr xs, hw, hr => by
    intro buf pre rest fuel hbuf _ hf
    obtain ⟨f, rfl⟩ : ∃ f, fuel = f + 1 := ⟨fuel - 1, by simp [nodes] at hf; omega⟩
    have hget : buf[pre.length]? = some 0x5B := by rw [hbuf, getElem?_pre0]; rfl
    by_cases hxs : xs = []
    · subst hxs
      have hget1 : buf[pre.length + 1]? = some 0x5D := by rw [hbuf, getElem?_pre]; rfl
      have hq : skipWs buf buf.length (pre.length + 1) = pre.length + 1 :=
        skipWs_eq _ _ _ (by intro c hc; rw [hget1] at hc; cases hc; rfl)
      unfold parseValue
      rw [hget]
      simp [hq, hget1, rT, emitA]
    · have hbuf' : buf = (pre ++ [0x5B]) ++ ((emitA F xs).dropLast ++ 0x5D :: rest) := by
        rw [hbuf]; simp [rT]
      have hpe := parse_elems xs hxs (by simpa [WF] using hw) (by simpa [RealsOK] using hr) buf (pre ++ [0x5B]) rest f
        hbuf' (by simp only [nodes] at hf; omega)
      simp only [List.length_append, List.length_cons, List.length_nil, Nat.zero_add] at hpe
      have hhead := parseElems_ok_head hpe
      have hq : skipWs buf buf.length (pre.length + 1) = pre.length + 1 :=
        skipWs_eq _ _ _ (fun c hc => (hhead c hc).1)
      have hne : (buf[pre.length + 1]? == some 0x5D) = false := by
        cases hg : buf[pre.length + 1]? with
        | none => rfl
        | some c => have := (hhead c hg).2.1; simp [this]
      unfold parseValue
      rw [hget]
      simp only [hq, hne, hpe]
      simp [rT]; omega
  | .obj kvs, hw, hr => by
    intro buf pre rest fuel hbuf _ hf
    obtain ⟨f, rfl⟩ : ∃ f, fuel = f + 1 := ⟨fuel - 1, by simp [nodes] at hf; omega⟩
    have hget : buf[pre.length]? = some 0x7B := by rw [hbuf, getElem?_pre0]; rfl
    by_cases hxs : kvs = []
    · subst hxs
      have hget1 : buf[pre.length + 1]? = some 0x7D := by rw [hbuf, getElem?_pre]; rfl
      have hq : skipWs buf buf.length (pre.length + 1) = pre.length + 1 :=
        skipWs_eq _ _ _ (by intro c hc; rw [hget1] at hc; cases hc; rfl)
      unfold parseValue
      rw [hget]
      simp [hq, hget1, rT, emitO]
    · have hbuf' : buf = (pre ++ [0x7B]) ++ ((emitO F kvs).dropLast ++ 0x7D :: rest) := by
        rw [hbuf]; simp [rT]
      have hpm := parse_members kvs hxs (by simpa [WF] using hw) (by simpa [RealsOK] using hr) buf (pre ++ [0x7B]) rest f
        hbuf' (by simp only [nodes] at hf; omega)
      simp only [List.length_append, List.length_cons, List.length_nil, Nat.zero_add] at hpm
      have hk : buf[pre.length + 1]? = some 0x22 := by
        obtain ⟨kv, kvs', rfl⟩ := List.exists_cons_of_ne_nil hxs
        obtain ⟨k, v⟩ := kv
        rw [hbuf', show pre.length + 1 = (pre ++ [0x7B]).length + 0 by simp, getElem?_pre, dropLast_emitO]
        split <;> simp [quote]
      have hq : skipWs buf buf.length (pre.length + 1) = pre.length + 1 :=
        skipWs_eq _ _ _ (by intro c hc; rw [hk] at hc; cases hc; rfl)
      unfold parseValue
      rw [hget]
      simp only [hq, hk, hpm]
      simp [rT]; omega
theorem parse_elems {F : FtoaFn} : ∀ (xs : List JVal), xs ≠ [] → wfList xs = true → realsOKList F xs →
    ∀ (buf pre rest : List Nat) (fuel : Nat), buf = pre ++ ((emitA F xs).dropLast ++ 0x5D :: rest) →
      2 * nodesList xs + 1 ≤ fuel →
      parseElems buf fuel pre.length = .ok (xs, pre.length + (emitA F xs).dropLast.length + 1)
  | [], h, _, _ => absurd rfl h
  | x :: xs, _, hw, hr => by
    intro buf pre rest fuel hbuf hf
    obtain ⟨f, rfl⟩ : ∃ f, fuel = f + 1 := ⟨fuel - 1, by omega⟩
    have hw' : WF x = true ∧ wfList xs = true := by simpa [wfList] using hw
    have hx1 := nodes_pos x
    simp only [nodesList] at hf
    rw [dropLast_emitA] at hbuf ⊢
    -- the value
    have hbufv : buf = pre ++ (rT F x ++
        (if xs.isEmpty then 0x5D :: rest else 0x2C :: ((emitA F xs).dropLast ++ 0x5D :: rest))) := by
      rw [hbuf]; split <;> simp
    have hv := parse_rT x hw'.1 hr.1 buf pre _ f hbufv (delim_cases xs.isEmpty 0x5D (Or.inl rfl) _ rest) (by omega)
    have hnext : buf[pre.length + (rT F x).length]? =
        some (if xs.isEmpty then 0x5D else 0x2C) := by
      rw [hbufv, get_after]; split <;> rfl
    have hq : skipWs buf buf.length (pre.length + (rT F x).length) = pre.length + (rT F x).length :=
      skipWs_eq _ _ _ (by intro c hc; rw [hnext] at hc; cases hc; split <;> rfl)
    unfold parseElems
    rw [hv]
    simp only [hq, hnext]
    by_cases hxs : xs = []
    · subst hxs
      simp
    · have hemp : xs.isEmpty = false := by cases xs <;> simp_all
      simp only [hemp, Bool.false_eq_true, if_false] at hbuf ⊢
      have hbuf' : buf = (pre ++ (rT F x ++ [0x2C])) ++ ((emitA F xs).dropLast ++ 0x5D :: rest) := by
        rw [hbuf]; simp
      have hpe := parse_elems xs hxs hw'.2 hr.2 buf (pre ++ (rT F x ++ [0x2C])) rest f hbuf' (by omega)
      simp only [List.length_append, List.length_cons, List.length_nil, Nat.zero_add, ← Nat.add_assoc] at hpe
      have hhead := parseElems_ok_head hpe
      have hq2 : skipWs buf buf.length (pre.length + (rT F x).length + 1) = pre.length + (rT F x).length + 1 :=
        skipWs_eq _ _ _ (fun c hc => (hhead c hc).1)
      simp only [hq2, hpe]
      simp; omega
theorem parse_members {F : FtoaFn} : ∀ (kvs : List (List Nat × JVal)), kvs ≠ [] → wfMems kvs = true →
    realsOKMems F kvs →
    ∀ (buf pre rest : List Nat) (fuel : Nat), buf = pre ++ ((emitO F kvs).dropLast ++ 0x7D :: rest) →
      2 * nodesMems kvs + 1 ≤ fuel →
      parseMembers buf fuel pre.length = .ok (kvs, pre.length + (emitO F kvs).dropLast.length + 1)
  | [], h, _, _ => absurd rfl h
  | (k, v) :: kvs, _, hw, hr => by
    intro buf pre rest fuel hbuf hf
    obtain ⟨f, rfl⟩ : ∃ f, fuel = f + 1 := ⟨fuel - 1, by omega⟩
    have hw' : (bytesWF k = true ∧ WF v = true) ∧ wfMems kvs = true := by simpa [wfMems] using hw
    have hx1 := nodes_pos v
    simp only [nodesMems] at hf
    rw [dropLast_emitO] at hbuf ⊢
    -- key, colon
    have hbufk : buf = pre ++ (quote k ++ (0x3A :: (rT F v ++
        (if kvs.isEmpty then 0x7D :: rest else 0x2C :: ((emitO F kvs).dropLast ++ 0x7D :: rest))))) := by
      rw [hbuf]; split <;> simp
    have hget : buf[pre.length]? = some 0x22 := by rw [hbufk, getElem?_pre0]; rfl
    have hdec : decodeLit buf (pre.length + 1) = some (k, pre.length + (quote k).length) := by
      rw [hbufk]; exact decodeLit_quote k pre _
    have hcolon : buf[pre.length + (quote k).length]? = some 0x3A := by rw [hbufk, get_after]; rfl
    have hq : skipWs buf buf.length (pre.length + (quote k).length) = pre.length + (quote k).length :=
      skipWs_eq _ _ _ (by intro c hc; rw [hcolon] at hc; cases hc; rfl)
    -- the value
    have hbufv : buf = (pre ++ (quote k ++ [0x3A])) ++ (rT F v ++
        (if kvs.isEmpty then 0x7D :: rest else 0x2C :: ((emitO F kvs).dropLast ++ 0x7D :: rest))) := by
      rw [hbufk]; simp
    have hv := parse_rT v hw'.1.2 hr.1 buf (pre ++ (quote k ++ [0x3A])) _ f hbufv
      (delim_cases kvs.isEmpty 0x7D (Or.inr rfl) _ rest) (by omega)
    simp only [List.length_append, List.length_cons, List.length_nil, Nat.zero_add, ← Nat.add_assoc] at hv
    have hvhead := parseValue_ok_head hv
    have hq1 : skipWs buf buf.length (pre.length + (quote k).length + 1) = pre.length + (quote k).length + 1 :=
      skipWs_eq _ _ _ (fun c hc => (hvhead c hc).1)
    have hnext : buf[pre.length + (quote k).length + 1 + (rT F v).length]? =
        some (if kvs.isEmpty then 0x7D else 0x2C) := by
      rw [hbufv, show pre.length + (quote k).length + 1 + (rT F v).length =
        (pre ++ (quote k ++ [0x3A])).length + (rT F v).length by simp; omega, get_after]
      split <;> rfl
    have hq2 : skipWs buf buf.length (pre.length + (quote k).length + 1 + (rT F v).length) =
        pre.length + (quote k).length + 1 + (rT F v).length :=
      skipWs_eq _ _ _ (by intro c hc; rw [hnext] at hc; cases hc; split <;> rfl)
    unfold parseMembers
    simp only [hget, hdec, hq, hcolon, hq1, hv, hq2, hnext]
    by_cases hxs : kvs = []
    · subst hxs
      simp; omega
    · have hemp : kvs.isEmpty = false := by cases kvs <;> simp_all
      simp only [hemp, Bool.false_eq_true, if_false] at hbuf ⊢
      have hbuf' : buf = (pre ++ (quote k ++ 0x3A :: rT F v ++ [0x2C])) ++ ((emitO F kvs).dropLast ++ 0x7D :: rest) := by
        rw [hbuf]; simp
      have hpm := parse_members kvs hxs hw'.2 hr.2 buf (pre ++ (quote k ++ 0x3A :: rT F v ++ [0x2C])) rest f hbuf'
        (by omega)
      have hidx : (pre ++ (quote k ++ 0x3A :: rT F v ++ [0x2C])).length =
          pre.length + (quote k).length + 1 + (rT F v).length + 1 := by simp; omega
      rw [hidx] at hpm
      have hk2 : buf[pre.length + (quote k).length + 1 + (rT F v).length + 1]? = some 0x22 := by
        obtain ⟨kv, kvs', rfl⟩ := List.exists_cons_of_ne_nil hxs
        obtain ⟨k2, v2⟩ := kv
        rw [hbuf', show pre.length + (quote k).length + 1 + (rT F v).length + 1 =
          (pre ++ (quote k ++ 0x3A :: rT F v ++ [0x2C])).length + 0 by simp; omega, getElem?_pre, dropLast_emitO]
        split <;> simp [quote]
      have hq3 : skipWs buf buf.length (pre.length + (quote k).length + 1 + (rT F v).length + 1) =
          pre.length + (quote k).length + 1 + (rT F v).length + 1 :=
        skipWs_eq _ _ _ (by intro c hc; rw [hk2] at hc; cases hc; rfl)
      simp only [hq3, hpm]
      simp; omega
end

/-- the whole text: `parse (rT v) = ok v` -/
theorem parse_text {F : FtoaFn} (v : JVal) (hw : WF v = true) (hr : RealsOK F v) :
    parse (rT F v) = .ok v := by
  have hlen := nodes_le_length v hr
  have hv := parse_rT v hw hr (rT F v) [] [] (2 * (rT F v).length + 2) (by simp) delim_nil (by omega)
  simp only [List.length_nil, Nat.zero_add] at hv
  have hhead := parseValue_ok_head hv
  have h0 : skipWs (rT F v) (rT F v).length 0 = 0 := skipWs_eq _ _ _ (fun c hc => (hhead c hc).1)
  have hend : skipWs (rT F v) (rT F v).length (rT F v).length = (rT F v).length :=
    skipWs_eq _ _ _ (by intro c hc; simp at hc)
  unfold parse
  simp only [h0, hv, hend, beq_self_eq_true, if_true]

/-! ## documents without doubles: the rendering does not depend on the double printer -/

mutual
theorem render_noReals (ftoa : Nat → Option (List Nat)) (F : FtoaFn) :
    ∀ v : JVal, NoReals v = true → render ftoa v = some (rT F v)
  | .null, _ => rfl
  | .bool true, _ => rfl
  | .bool false, _ => rfl
  | .num (.uint n), _ => rfl
  | .num (.sint n), _ => rfl
  | .num (.real bits), h => by simp [NoReals] at h
  | .str s, _ => rfl
  | .arr xs, h => by
    have := renderElems_noReals ftoa F xs (by simpa [NoReals] using h)
    simp [render, rT, this]
  | .obj kvs, h => by
    have := renderMembers_noReals ftoa F kvs (by simpa [NoReals] using h)
    simp [render, rT, this]
theorem renderElems_noReals (ftoa : Nat → Option (List Nat)) (F : FtoaFn) :
    ∀ xs : List JVal, noRealsList xs = true → renderElems ftoa xs = some (emitA F xs).dropLast
  | [], _ => rfl
  | x :: xs, h => by
    have h' : NoReals x = true ∧ noRealsList xs = true := by simpa [noRealsList] using h
    have h1 := render_noReals ftoa F x h'.1
    have h2 := renderElems_noReals ftoa F xs h'.2
    rw [dropLast_emitA]
    simp only [renderElems, h1, h2]
theorem renderMembers_noReals (ftoa : Nat → Option (List Nat)) (F : FtoaFn) :
    ∀ kvs : List (List Nat × JVal), noRealsMems kvs = true → renderMembers ftoa kvs = some (emitO F kvs).dropLast
  | [], _ => rfl
  | (k, v) :: kvs, h => by
    have h' : NoReals v = true ∧ noRealsMems kvs = true := by simpa [noRealsMems] using h
    have h1 := render_noReals ftoa F v h'.1
    have h2 := renderMembers_noReals ftoa F kvs h'.2
    rw [dropLast_emitO]
    simp only [renderMembers, h1, h2]
end

mutual
theorem allFinite_of_noReals : ∀ v : JVal, NoReals v = true → AllFinite v = true
  | .null, _ => rfl
  | .bool _, _ => rfl
  | .str _, _ => rfl
  | .num (.uint _), _ => rfl
  | .num (.sint _), _ => rfl
  | .num (.real _), h => by simp [NoReals] at h
  | .arr xs, h => by simp only [AllFinite]; exact allFiniteList_of_noReals xs (by simpa [NoReals] using h)
  | .obj kvs, h => by simp only [AllFinite]; exact allFiniteMems_of_noReals kvs (by simpa [NoReals] using h)
theorem allFiniteList_of_noReals : ∀ xs : List JVal, noRealsList xs = true → allFiniteList xs = true
  | [], _ => rfl
  | x :: xs, h => by
    have h' : NoReals x = true ∧ noRealsList xs = true := by simpa [noRealsList] using h
    simp [allFiniteList, allFinite_of_noReals x h'.1, allFiniteList_of_noReals xs h'.2]
theorem allFiniteMems_of_noReals : ∀ kvs : List (List Nat × JVal), noRealsMems kvs = true → allFiniteMems kvs = true
  | [], _ => rfl
  | (k, v) :: kvs, h => by
    have h' : NoReals v = true ∧ noRealsMems kvs = true := by simpa [noRealsMems] using h
    simp [allFiniteMems, allFinite_of_noReals v h'.1, allFiniteMems_of_noReals kvs h'.2]
end

end Sonic.Proofs.Serialize
