import Sonic.Proofs.DomBasic

/-!
# DOM model: the lookup multimap as a sorted association list (helper lemmas for C12)

`MapExact ks mp` : the entries of `mp` are exactly `{(ks[i], i) | i < ks.length}`, each once (so `mp` and
`ks.zipIdx` are equal as multisets).
`MapSorted mp`   : non-decreasing keys (what `std::multimap` iteration guarantees).
`MapAsc mp`      : strictly increasing in (key, index): among equal keys the map order is the vector order.
-/
namespace Sonic.Proofs.Dom
open Sonic.Spec Sonic.Model.Dom
open Sonic.Spec.Containers (Key)

def MapExact (ks : List Key) (mp : MapT) : Prop :=
  mp.Nodup ∧ ∀ x : Key × Nat, x ∈ mp ↔ ks[x.2]? = some x.1

def MapSorted (mp : MapT) : Prop := mp.Pairwise (fun a b => a.1 ≤ b.1)

def MapAsc (mp : MapT) : Prop := mp.Pairwise (fun a b => a.1 < b.1 ∨ (a.1 = b.1 ∧ a.2 < b.2))

theorem MapAsc.sorted {mp : MapT} (h : MapAsc mp) : MapSorted mp :=
  List.Pairwise.imp (fun {a b} hab => by
    rcases hab with h | ⟨h, _⟩
    · exact List.le_of_lt h
    · rw [h]; exact List.le_refl _) h

theorem MapAsc.nodup {mp : MapT} (h : MapAsc mp) : mp.Nodup :=
  List.Pairwise.imp (fun {a b} hab hEq => by
    subst hEq
    rcases hab with h | ⟨_, h⟩
    · exact List.lt_irrefl _ h
    · exact Nat.lt_irrefl _ h) h

/-! ## `emplace` -/

theorem mapInsert_perm (e : Key × Nat) : ∀ mp : MapT, (mapInsert e mp).Perm (e :: mp)
  | [] => by simp [mapInsert]
  | x :: xs => by
    simp only [mapInsert]
    split
    · exact List.Perm.refl _
    · exact ((mapInsert_perm e xs).cons x).trans (List.Perm.swap e x xs)

theorem mem_mapInsert {e x : Key × Nat} {mp : MapT} : x ∈ mapInsert e mp ↔ x = e ∨ x ∈ mp := by
  rw [(mapInsert_perm e mp).mem_iff, List.mem_cons]

theorem nodup_mapInsert {e : Key × Nat} {mp : MapT} : (mapInsert e mp).Nodup ↔ e ∉ mp ∧ mp.Nodup := by
  rw [(mapInsert_perm e mp).nodup_iff, List.nodup_cons]

theorem sorted_mapInsert (e : Key × Nat) : ∀ {mp : MapT}, MapSorted mp → MapSorted (mapInsert e mp)
  | [], _ => by simp [mapInsert, MapSorted]
  | x :: xs, h => by
    unfold MapSorted at h ⊢
    rw [List.pairwise_cons] at h
    simp only [mapInsert]
    split
    · rename_i hlt
      refine List.pairwise_cons.2 ⟨fun y hy => ?_, List.pairwise_cons.2 h⟩
      rcases List.mem_cons.1 hy with rfl | hy
      · exact List.le_of_lt hlt
      · exact List.le_of_lt (Std.lt_of_lt_of_le hlt (h.1 y hy))
    · rename_i hnlt
      refine List.pairwise_cons.2 ⟨fun y hy => ?_, sorted_mapInsert e h.2⟩
      rcases mem_mapInsert.1 hy with rfl | hy
      · exact List.not_lex_lt.mp hnlt
      · exact h.1 y hy

theorem asc_mapInsert (e : Key × Nat) : ∀ {mp : MapT}, MapAsc mp → (∀ x ∈ mp, x.1 = e.1 → x.2 < e.2) →
    MapAsc (mapInsert e mp)
  | [], _, _ => by simp [mapInsert, MapAsc]
  | x :: xs, h, hlt => by
    unfold MapAsc at h ⊢
    rw [List.pairwise_cons] at h
    simp only [mapInsert]
    split
    · rename_i hl
      refine List.pairwise_cons.2 ⟨fun y hy => ?_, List.pairwise_cons.2 h⟩
      rcases List.mem_cons.1 hy with rfl | hy
      · exact .inl hl
      · rcases h.1 y hy with h1 | ⟨h1, _⟩
        · exact .inl (List.lt_trans hl h1)
        · exact .inl (h1 ▸ hl)
    · rename_i hnl
      refine List.pairwise_cons.2 ⟨fun y hy => ?_,
        asc_mapInsert e h.2 (fun z hz => hlt z (List.mem_cons_of_mem _ hz))⟩
      rcases mem_mapInsert.1 hy with rfl | hy
      · rcases List.le_iff_lt_or_eq.mp (List.not_lex_lt.mp hnl) with h1 | h1
        · exact .inl h1
        · exact .inr ⟨h1, hlt x (List.mem_cons_self) h1⟩
      · exact h.1 y hy

/-! ## `CreateMap` -/

theorem foldl_build (ks : List Key) : ∀ (start : Nat) (acc : MapT),
    (∀ x, x ∈ (ks.zipIdx start).foldl (fun mp e => mapInsert e mp) acc ↔ x ∈ acc ∨ x ∈ ks.zipIdx start) ∧
    (MapAsc acc → (∀ x ∈ acc, x.2 < start) → MapAsc ((ks.zipIdx start).foldl (fun mp e => mapInsert e mp) acc)) := by
  induction ks with
  | nil => intro start acc; exact ⟨by simp, fun h _ => by simpa using h⟩
  | cons k ks ih =>
    intro start acc
    rw [List.zipIdx_cons, List.foldl_cons]
    obtain ⟨ih1, ih2⟩ := ih (start + 1) (mapInsert (k, start) acc)
    refine ⟨fun x => ?_, fun hasc hlt => ?_⟩
    · rw [ih1 x, mem_mapInsert, List.mem_cons]
      constructor
      · rintro ((h | h) | h)
        · exact .inr (.inl h)
        · exact .inl h
        · exact .inr (.inr h)
      · rintro (h | h | h)
        · exact .inl (.inr h)
        · exact .inl (.inl h)
        · exact .inr h
    · refine ih2 (asc_mapInsert _ hasc (fun x hx _ => hlt x hx)) (fun x hx => ?_)
      rcases mem_mapInsert.1 hx with rfl | hx
      · exact Nat.lt_succ_self _
      · exact Nat.lt_succ_of_lt (hlt x hx)

theorem buildMap_asc (ms : List Member) : MapAsc (buildMap ms) :=
  (foldl_build (ms.map mkey) 0 []).2 List.Pairwise.nil (by simp)

theorem buildMap_exact (ms : List Member) : MapExact (ms.map mkey) (buildMap ms) := by
  refine ⟨(buildMap_asc ms).nodup, fun x => ?_⟩
  unfold buildMap
  rw [(foldl_build (ms.map mkey) 0 []).1 x, List.mem_zipIdx_iff_getElem?]
  simp

/-! ## `find` -/

theorem mapFind_some {key : Key} {mp : MapT} {e : Key × Nat} (h : mapFind key mp = some e) :
    e ∈ mp ∧ e.1 = key := by
  unfold mapFind at h
  have h1 := List.mem_of_find?_eq_some h
  have h2 := List.find?_some h
  exact ⟨h1, by simpa using h2⟩

/-- without any order assumption: the map finds a member with that key iff there is one -/
theorem mapFind_none_iff {ks : List Key} {mp : MapT} (hex : MapExact ks mp) (key : Key) :
    mapFind key mp = none ↔ ks.findIdx? (fun k => k == key) = none := by
  unfold mapFind
  rw [List.find?_eq_none, List.findIdx?_eq_none_iff]
  constructor
  · intro h k hk
    obtain ⟨i, hi, rfl⟩ := List.getElem_of_mem hk
    have : (ks[i], i) ∈ mp := (hex.2 (ks[i], i)).2 (by simp [hi])
    simpa using h _ this
  · intro h x hx
    have := (hex.2 x).1 hx
    have hm : x.1 ∈ ks := List.mem_of_getElem? this
    simpa using h _ hm

theorem mapFind_some_key {ks : List Key} {mp : MapT} (hex : MapExact ks mp) {key : Key} {e : Key × Nat}
    (h : mapFind key mp = some e) : ks[e.2]? = some key := by
  obtain ⟨h1, h2⟩ := mapFind_some h
  rw [← h2]; exact (hex.2 e).1 h1

/-- with the map order equal to the vector order among equal keys, `find` is the linear first match -/
theorem findFromMap_eq_linear {ks : List Key} {mp : MapT} (hex : MapExact ks mp) (hasc : MapAsc mp) (key : Key) :
    findFromMap key mp = ks.findIdx? (fun k => k == key) := by
  unfold findFromMap
  cases hf : mapFind key mp with
  | none => simp [((mapFind_none_iff hex key).1 hf)]
  | some e =>
    simp only [Option.map_some]
    symm
    rw [List.findIdx?_eq_some_iff_getElem]
    have hk := mapFind_some_key hex hf
    obtain ⟨hlt, hget⟩ := List.getElem?_eq_some_iff.1 hk
    refine ⟨hlt, by simp [hget], fun j hj => ?_⟩
    intro hkj
    have hkj' : ks[j]'(Nat.lt_trans hj hlt) = key := by simpa using hkj
    have hmem : (key, j) ∈ mp := (hex.2 (key, j)).2 (by simp [List.getElem?_eq_getElem (Nat.lt_trans hj hlt), hkj'])
    unfold mapFind at hf
    obtain ⟨_, as, bs, hsplit, has⟩ := List.find?_eq_some_iff_append.1 hf
    rw [hsplit, List.mem_append, List.mem_cons] at hmem
    rcases hmem with h | h | h
    · simpa using has _ h
    · have : j = e.2 := by rw [← h]
      omega
    · unfold MapAsc at hasc
      rw [hsplit, List.pairwise_append] at hasc
      have := (List.pairwise_cons.1 hasc.2.1).1 _ h
      have he1 : e.1 = key := (mapFind_some (by unfold mapFind; exact hf)).2
      rcases this with h1 | ⟨_, h1⟩
      · rw [he1] at h1; exact List.lt_irrefl _ h1
      · simp at h1; omega

/-! ## `erase` -/

theorem eraseP_eq_erase_of_find {α : Type} [BEq α] [LawfulBEq α] (p : α → Bool) :
    ∀ {l : List α} {e : α}, l.find? p = some e → l.eraseP p = l.erase e
  | [], _, h => by simp at h
  | x :: xs, e, h => by
    rw [List.find?_cons] at h
    cases hp : p x with
    | true =>
      rw [hp] at h
      simp only [Option.some.injEq] at h
      subst h
      simp [hp]
    | false =>
      rw [hp] at h
      have hne : x ≠ e := by
        intro hxe
        have := List.find?_some h
        rw [← hxe, hp] at this
        exact Bool.false_ne_true this
      rw [List.eraseP_cons, hp, List.erase_cons]
      simp [hne, eraseP_eq_erase_of_find p h]

theorem MapSorted.erase {mp : MapT} (h : MapSorted mp) (e : Key × Nat) : MapSorted (mp.erase e) :=
  List.Pairwise.sublist List.erase_sublist h

theorem MapAsc.erase {mp : MapT} (h : MapAsc mp) (e : Key × Nat) : MapAsc (mp.erase e) :=
  List.Pairwise.sublist List.erase_sublist h

/-- the entry of an index is determined by the index -/
theorem MapExact.eq_of_idx {ks : List Key} {mp : MapT} (hex : MapExact ks mp) {a b : Key × Nat}
    (ha : a ∈ mp) (hb : b ∈ mp) (h : a.2 = b.2) : a = b := by
  have h1 := (hex.2 a).1 ha
  have h2 := (hex.2 b).1 hb
  rw [h] at h1
  rw [h1] at h2
  exact Prod.ext (by simpa using h2) h

/-- removing the LAST member: its entry is erased -/
theorem MapExact.erase_last {ks : List Key} {mp : MapT} (hex : MapExact ks mp) {e : Key × Nat} (he : e ∈ mp)
    (hlast : e.2 = ks.length - 1) : MapExact ks.dropLast (mp.erase e) := by
  refine ⟨hex.1.erase e, fun x => ?_⟩
  rw [hex.1.mem_erase_iff, hex.2 x, List.getElem?_dropLast]
  have hek := (hex.2 e).1 he
  constructor
  · rintro ⟨hne, hx⟩
    have hlt := (List.getElem?_eq_some_iff.1 hx).1
    have : x.2 ≠ e.2 := fun h => hne (hex.eq_of_idx ((hex.2 x).2 hx) he h)
    rw [if_pos (by omega)]; exact hx
  · intro h
    split at h
    · rename_i hlt
      refine ⟨fun hxe => ?_, h⟩
      rw [hxe] at hlt; omega
    · simp at h

/-- removing member `pos` by moving the last member (key `tk`) into the hole -/
theorem MapExact.move_tail {ks : List Key} {mp : MapT} (hex : MapExact ks mp) {e : Key × Nat} (he : e ∈ mp)
    {tk : Key} (htk : ks[ks.length - 1]? = some tk) (hpos : e.2 ≠ ks.length - 1) :
    MapExact ((ks.set e.2 tk).dropLast) (mapInsert (tk, e.2) ((mp.erase e).erase (tk, ks.length - 1))) := by
  have hek := (hex.2 e).1 he
  have hepos := (List.getElem?_eq_some_iff.1 hek).1
  have hnd1 : (mp.erase e).Nodup := hex.1.erase e
  have hnd2 : ((mp.erase e).erase (tk, ks.length - 1)).Nodup := hnd1.erase _
  have hmem2 : ∀ x, x ∈ (mp.erase e).erase (tk, ks.length - 1) ↔
      x ≠ (tk, ks.length - 1) ∧ x ≠ e ∧ x ∈ mp := by
    intro x; rw [hnd1.mem_erase_iff, hex.1.mem_erase_iff]
  refine ⟨nodup_mapInsert.2 ⟨fun hin => ?_, hnd2⟩, fun x => ?_⟩
  · obtain ⟨_, hne, hin⟩ := (hmem2 _).1 hin
    exact hne (hex.eq_of_idx hin he rfl)
  · rw [mem_mapInsert, hmem2, hex.2 x, List.getElem?_dropLast, List.length_set, List.getElem?_set]
    constructor
    · rintro (rfl | ⟨hnt, hne, hx⟩)
      · have : e.2 < ks.length - 1 := by omega
        simp [this, hepos]
      · have hlt := (List.getElem?_eq_some_iff.1 hx).1
        have h1 : x.2 ≠ ks.length - 1 := by
          intro h
          apply hnt
          rw [h] at hx
          rw [hx] at htk
          exact Prod.ext (by simpa using htk) h
        have h2 : x.2 ≠ e.2 := fun h => hne (hex.eq_of_idx ((hex.2 x).2 hx) he h)
        rw [if_pos (by omega), if_neg (fun h => h2 h.symm)]; exact hx
    · intro h
      split at h
      · rename_i hlt
        split at h
        · rename_i heq
          left
          exact Prod.ext (by simpa using h.symm) heq.symm
        · rename_i hneq
          right
          refine ⟨fun hx => ?_, fun hx => hneq (by rw [hx]), h⟩
          rw [hx] at hlt; simp at hlt
      · simp at h

end Sonic.Proofs.Dom
