import Sonic.Proofs.DecFinal
import Sonic.Proofs.DecToken
import Sonic.Proofs.NumberRound
import Sonic.Proofs.NumberFloat

/-!
# `DecimalToF64` / `AtofNative`: the correctly rounded double
-/
namespace Sonic.Proofs.Dec

open Sonic.Model.BigDecimal
open Sonic.Spec.Number
open Sonic.Proofs.Number (allDigits fracLen)

set_option exponentiation.threshold 2000 in
theorem big1 : (10 : ℚ) ^ (-9 : ℤ) ≤ 10 ^ (-331 : ℤ) * 2 ^ (27 * 41) := by
  have h : (10 : ℕ) ^ 331 ≤ 10 ^ 9 * 2 ^ 1107 := by decide
  have hq : (10 : ℚ) ^ (331 : ℕ) ≤ 10 ^ (9 : ℕ) * 2 ^ (1107 : ℕ) := by exact_mod_cast h
  rw [show (-9 : ℤ) = -((9 : ℕ) : ℤ) by rfl, show (-331 : ℤ) = -((331 : ℕ) : ℤ) by rfl, zpow_neg, zpow_neg,
    zpow_natCast, zpow_natCast, show 27 * 41 = 1107 by rfl, ← one_div, ← one_div, one_div_mul_eq_div,
    div_le_div_iff₀ (by positivity) (by positivity)]
  linarith

/-- the initial potential of the scale-up loop -/
theorem pot_init (y : ℚ) (hy : (10 : ℚ) ^ (-331 : ℤ) ≤ y) : Pot 400 y := by
  have hypos : 0 < y := lt_of_lt_of_le (by positivity) hy
  have hex : ∃ a : ℕ, (10 : ℚ) ^ (-9 : ℤ) ≤ y * 2 ^ (27 * a) := by
    refine ⟨41, ?_⟩
    have h2 : (10 : ℚ) ^ (-331 : ℤ) * 2 ^ (27 * 41) ≤ y * 2 ^ (27 * 41) :=
      mul_le_mul_of_nonneg_right hy (by positivity)
    exact le_trans big1 h2
  classical
  refine ⟨Nat.find hex, 30, ?_, ?_, ?_⟩
  · have : Nat.find hex ≤ 41 := Nat.find_le (by
      have h2 : (10 : ℚ) ^ (-331 : ℤ) * 2 ^ (27 * 41) ≤ y * 2 ^ (27 * 41) :=
        mul_le_mul_of_nonneg_right hy (by positivity)
      exact le_trans big1 h2)
    omega
  · have h := Nat.find_spec hex
    rw [pow_add, ← mul_assoc]
    have h30 : (1 : ℚ) / 2 ≤ 10 ^ (-9 : ℤ) * 2 ^ 30 := by norm_num
    have : (10 : ℚ) ^ (-9 : ℤ) * 2 ^ 30 ≤ y * 2 ^ (27 * Nat.find hex) * 2 ^ 30 :=
      mul_le_mul_of_nonneg_right h (by positivity)
    exact le_trans h30 this
  · intro hpos
    have := Nat.find_min hex (m := Nat.find hex - 1) (by omega)
    exact not_le.1 this

theorem inv_init (x : ℚ) (d : Decimal) (hwf : WF d) (hpos : 0 < Dnat d) (hstep : StepQ x false d)
    (hhi : d.dp ≤ 310) : Inv x d 0 := by
  obtain ⟨h1, h2, h3⟩ := hstep
  refine ⟨hwf, hpos, by simpa using h1, ?_, ?_, ?_, Or.inl (le_refl _), hhi⟩
  · intro htr
    rcases h3 with ⟨_, e2⟩ | ⟨e1, _⟩
    · simpa using e2
    · rw [e1] at htr; cases htr
  · intro htr
    rcases h3 with ⟨e1, _⟩ | ⟨_, e2⟩
    · rw [e1] at htr; cases htr
    · simpa using e2
  · intro M q hM hq hg hx2
    obtain ⟨hlead, _, N, hN⟩ := val_bounds d hwf hpos
    rw [add_zero]
    exact floor_grid x (val d) d.dp N hN h1 h2 hlead hhi M q hM (Or.inl hq) hg hx2

/-- the exact value of a token as a rational -/
def tokVal (t : Token) : ℚ := (t.mantissa : ℚ) * (10 : ℚ) ^ t.exponent

theorem setout_step (d : Decimal) (t : Token) (h : SetOut d t) (hM : 0 < t.mantissa) :
    0 < Dnat d ∧ StepQ (tokVal t) false d := by
  obtain ⟨hwf, hneg, hnd, hdnat, htr, hdp, hmlo, hmhi⟩ := h
  generalize hS : (strip (allDigits t)).length = S at *
  generalize hMm : t.mantissa = M at *
  have hSpos : 0 < S := by
    rcases Nat.eq_zero_or_pos S with h0 | h0
    · rw [h0] at hmhi; simp at hmhi; omega
    · exact h0
  have hMlo := hmlo hSpos
  have hpc : 0 < 10 ^ (S - 800) := Nat.pow_pos (by omega)
  have hDpos : 0 < Dnat d := by
    rw [hdnat]
    apply Nat.div_pos _ hpc
    calc 10 ^ (S - 800) ≤ 10 ^ (S - 1) := Nat.pow_le_pow_right (by omega) (by omega)
      _ ≤ M := hMlo
  refine ⟨hDpos, ?_⟩
  have hdm := Nat.div_add_mod M (10 ^ (S - 800))
  rw [← hdnat] at hdm
  have hexpo : d.dp - (d.nd : ℤ) = ((S - 800 : ℕ) : ℤ) + t.exponent := by
    have h1 : (d.nd : ℤ) + ((S - 800 : ℕ) : ℤ) = (S : ℤ) := by rw [hnd]; omega
    have h2 := Sonic.Proofs.Number.exponent_eq t
    omega
  have hMq : (M : ℚ) = (Dnat d : ℚ) * 10 ^ (S - 800 : ℕ) + ((M % 10 ^ (S - 800) : ℕ) : ℚ) := by
    have : (M : ℚ) = ((10 ^ (S - 800) * Dnat d + M % 10 ^ (S - 800) : ℕ) : ℚ) := by rw [hdm]
    rw [this]; push_cast; ring
  have hvd : val d = (Dnat d : ℚ) * 10 ^ (S - 800 : ℕ) * 10 ^ t.exponent := by
    unfold val
    rw [hexpo, zpow_add₀ ten_ne, zpow_natCast]; ring
  have hpe : (0 : ℚ) < 10 ^ t.exponent := by positivity
  have hdiff : tokVal t - val d = ((M % 10 ^ (S - 800) : ℕ) : ℚ) * 10 ^ t.exponent := by
    unfold tokVal
    rw [hvd, hMm, hMq]; ring
  unfold StepQ
  by_cases h0 : M % 10 ^ (S - 800) = 0
  · rw [h0] at hdiff
    simp only [Nat.cast_zero, zero_mul] at hdiff
    have heq : val d = tokVal t := by linarith
    have hu : (0 : ℚ) < 10 ^ (d.dp - 800) := by positivity
    refine ⟨le_of_eq heq, by linarith, Or.inl ⟨by rw [htr]; simp [h0], heq⟩⟩
  · have hrpos : (0 : ℚ) < ((M % 10 ^ (S - 800) : ℕ) : ℚ) := by
      exact_mod_cast Nat.pos_of_ne_zero h0
    have hS8 : 800 < S := by
      by_contra hcon
      have : S - 800 = 0 := by omega
      rw [this] at h0; simp [Nat.mod_one] at h0
    have hrlt : ((M % 10 ^ (S - 800) : ℕ) : ℚ) < 10 ^ (S - 800 : ℕ) := by
      exact_mod_cast Nat.mod_lt M hpc
    have hu : (10 : ℚ) ^ (d.dp - 800) = 10 ^ (S - 800 : ℕ) * 10 ^ t.exponent := by
      rw [← zpow_natCast, ← zpow_add₀ ten_ne]
      congr 1
      rw [hnd] at hexpo
      have : min S 800 = 800 := by omega
      rw [this] at hexpo
      push_cast at hexpo ⊢
      omega
    have h1 : ((M % 10 ^ (S - 800) : ℕ) : ℚ) * 10 ^ t.exponent < 10 ^ (d.dp - 800) := by
      rw [hu]; exact mul_lt_mul_of_pos_right hrlt hpe
    have h2 : 0 < ((M % 10 ^ (S - 800) : ℕ) : ℚ) * 10 ^ t.exponent := mul_pos hrpos hpe
    refine ⟨by linarith, by linarith, Or.inr ⟨by rw [htr]; simp [h0], by linarith⟩⟩

/-! ## assembling the bits -/

theorem or_shift_add (a b i : Nat) (ha : a < 2 ^ i) : a ||| (b * 2 ^ i) = b * 2 ^ i + a := by
  rw [Nat.or_comm, ← Nat.shiftLeft_eq, Nat.shiftLeft_add_eq_or_of_lt ha]

def sgnBit (neg : Bool) : Nat := if neg then 2 ^ 63 else 0

/-- the bit pattern the model stands for: finite magnitude `b`, or infinity -/
def encodeBits (neg : Bool) (o : Option Nat) : Nat :=
  match o with
  | some b => b + sgnBit neg
  | none => 0x7FF0000000000000 + sgnBit neg

theorem assemble_eq (d : Decimal) (mant : Nat) (exp2 : Int) (be : Nat) (hbe : be ≤ 2047)
    (he : exp2 + 1023 = (be : Int)) :
    assemble d mant exp2 = be * 2 ^ 52 + mant % 2 ^ 52 + sgnBit d.neg := by
  unfold assemble sgnBit
  have h1 : ((exp2 + 1023) % 2048).toNat = be := by rw [he]; omega
  have hm : mant % 2 ^ 52 < 2 ^ 52 := Nat.mod_lt _ (by decide)
  have h2 : be * 2 ^ 52 % 2 ^ 64 = be * 2 ^ 52 := Nat.mod_eq_of_lt (by omega)
  simp only [h1, h2]
  rw [or_shift_add _ _ _ hm]
  cases d.neg with
  | false => simp
  | true =>
    simp only [if_true]
    have hlt : be * 2 ^ 52 + mant % 2 ^ 52 < 2 ^ 63 := by omega
    have := Nat.two_pow_add_eq_or_of_lt hlt 1
    rw [Nat.mul_one] at this
    rw [Nat.or_comm, ← this]; omega

/-- the tail of `DecimalToF64` after `RoundedInteger` -/
def finishBlock (d : Decimal) (mant : Nat) (exp2 : Int) : Nat × Bool :=
  let step : Option (Nat × Int) :=
    if mant = 2 * 2 ^ 52 then
      if exp2 + 1 + 1023 ≥ 0x7FF then none else some (mant / 2, exp2 + 1)
    else some (mant, exp2)
  match step with
  | none => (assemble d 0 (0x7FF - 1023), d.fault)
  | some (mant, exp2) =>
    let exp2 := if mant / 2 ^ 52 % 2 = 0 then -1023 else exp2
    (assemble d mant exp2, d.fault)

theorem overflow_bits (d : Decimal) : assemble d 0 (0x7FF - 1023) = encodeBits d.neg none := by
  rw [assemble_eq d 0 (0x7FF - 1023) 2047 (by omega) (by norm_num)]
  unfold encodeBits; norm_num

theorem finishBlock_eq (d : Decimal) (q' : Nat) (X : Int) (hX1 : -1022 ≤ X) (hX2 : X ≤ 1023) (hq : q' ≤ 2 ^ 53)
    (hsub : q' < 2 ^ 52 → X = -1022) :
    finishBlock d q' X =
      (encodeBits d.neg (if (X + 1022).toNat * 2 ^ 52 + q' ≥ 2047 * 2 ^ 52 then none
        else some ((X + 1022).toNat * 2 ^ 52 + q')), d.fault) := by
  obtain ⟨t, ht⟩ : ∃ t : ℕ, X = (t : ℤ) - 1022 := ⟨(X + 1022).toNat, by omega⟩
  subst ht
  have htt : ((t : ℤ) - 1022 + 1022).toNat = t := by omega
  rw [htt]
  have ht2 : t ≤ 2045 := by omega
  unfold finishBlock
  by_cases h53 : q' = 2 * 2 ^ 52
  · subst h53
    simp only [if_true]
    by_cases hov : (t : ℤ) - 1022 + 1 + 1023 ≥ 0x7FF
    · have ht' : t = 2045 := by omega
      subst ht'
      simp only [hov, if_true]
      rw [overflow_bits, if_pos (by norm_num)]
    · rw [if_neg hov]
      simp only
      have hbit : 2 * 2 ^ 52 / 2 / 2 ^ 52 % 2 ≠ 0 := by norm_num
      rw [if_neg hbit, assemble_eq d _ _ (t + 2) (by omega) (by push_cast; ring), if_neg (by omega)]
      unfold encodeBits
      simp only
      norm_num; omega
  · rw [if_neg h53]
    simp only
    have hq2 : q' < 2 ^ 53 := by omega
    have hnov : ¬ (t * 2 ^ 52 + q' ≥ 2047 * 2 ^ 52) := by omega
    rw [if_neg hnov]
    by_cases h52 : q' < 2 ^ 52
    · have ht0 : t = 0 := by have := hsub h52; omega
      subst ht0
      have hbit : q' / 2 ^ 52 % 2 = 0 := by rw [Nat.div_eq_of_lt h52]
      rw [if_pos hbit, assemble_eq d _ _ 0 (by omega) (by norm_num)]
      unfold encodeBits
      simp only
      rw [Nat.mod_eq_of_lt h52]
    · have hbit : q' / 2 ^ 52 % 2 ≠ 0 := by
        have : q' / 2 ^ 52 = 1 := by omega
        rw [this]; decide
      rw [if_neg hbit, assemble_eq d _ _ (t + 1) (by omega) (by push_cast; ring)]
      unfold encodeBits
      simp only
      have : q' % 2 ^ 52 = q' - 2 ^ 52 := by omega
      rw [this, Prod.mk.injEq]
      exact ⟨by omega, rfl⟩

/-! ## the reference side -/

open Sonic.Spec.Rne (roundRat floorLog2Rat)
open Sonic.Proofs.Rne (dl dl_pos dl_le_iff round_eq optLe roundRat_mono le2 lt2 exp_unique floorLog2Rat_spec
  roundRat_closed q2_range roundQ_bounds ulpOf pL_pos pR_pos pL pR roundQ)

theorem dl_eq (M S : ℕ) (hS : 0 < S) (hlo : 10 ^ (S - 1) ≤ M) (hhi : M < 10 ^ S) : dl M = S := by
  apply Nat.le_antisymm
  · exact (dl_le_iff M S hS).2 hhi
  · by_contra hcon
    have h1 : dl M ≤ S - 1 := by omega
    have hp := dl_pos M
    have h2 := (dl_le_iff M (S - 1) (by omega)).1 h1
    omega

/-- the token value as a fraction of naturals, in the form `Spec.Rne.round` uses -/
theorem tokVal_frac (t : Token) :
    tokVal t = ((t.mantissa * 10 ^ t.exponent.toNat : ℕ) : ℚ) / ((10 ^ (-t.exponent).toNat : ℕ) : ℚ) := by
  unfold tokVal
  push_cast
  rcases le_total 0 t.exponent with h | h
  · have e1 : (-t.exponent).toNat = 0 := by omega
    rw [e1, pow_zero, div_one, ← zpow_natCast, Int.toNat_of_nonneg h]
  · have e1 : t.exponent.toNat = 0 := by omega
    rw [e1, pow_zero, mul_one, ← zpow_natCast, Int.toNat_of_nonneg (by omega), div_eq_mul_inv, ← zpow_neg, neg_neg]

theorem le2_iff_rat (e : ℤ) (num den : ℕ) (hd : 0 < den) : le2 e num den ↔ (2 : ℚ) ^ e ≤ (num : ℚ) / den := by
  have hdq : (0 : ℚ) < den := by exact_mod_cast hd
  have hpR : (0 : ℚ) < (pR e : ℚ) := by exact_mod_cast pR_pos e
  rw [two_zpow_eq, div_le_div_iff₀ hpR hdq]
  unfold le2
  constructor
  · intro h
    have : ((den * pL e : ℕ) : ℚ) ≤ ((num * pR e : ℕ) : ℚ) := by exact_mod_cast h
    push_cast at this; linarith
  · intro h
    have : ((den * pL e : ℕ) : ℚ) ≤ ((num * pR e : ℕ) : ℚ) := by push_cast; linarith
    exact_mod_cast this

theorem lt2_iff_rat (e : ℤ) (num den : ℕ) (hd : 0 < den) : lt2 e num den ↔ (num : ℚ) / den < (2 : ℚ) ^ e := by
  rw [← Sonic.Proofs.Rne.not_le2_iff, le2_iff_rat e num den hd, not_le]

theorem floorLog2_of_rat (num den : ℕ) (hn : 0 < num) (hd : 0 < den) (E : ℤ) (h1 : (2 : ℚ) ^ E ≤ (num : ℚ) / den)
    (h2 : (num : ℚ) / den < (2 : ℚ) ^ (E + 1)) : floorLog2Rat num den = E := by
  obtain ⟨a1, a2⟩ := floorLog2Rat_spec num den hn hd
  exact exp_unique a1 a2 ((le2_iff_rat E num den hd).2 h1) ((lt2_iff_rat (E + 1) num den hd).2 h2)

set_option exponentiation.threshold 3000 in
theorem roundRat_huge (num den : ℕ) (hn : 0 < num) (hd : 0 < den) (h : (2 : ℚ) ^ (1024 : ℕ) ≤ (num : ℚ) / den) :
    roundRat num den = none := by
  have hdq : (0 : ℚ) < den := by exact_mod_cast hd
  rw [le_div_iff₀ hdq] at h
  have h' : 2 ^ 1024 * den ≤ num * 1 := by rw [Nat.mul_one]; exact_mod_cast h
  have hm := roundRat_mono (2 ^ 1024) 1 num den (Nat.pow_pos (by omega)) (by omega) hd h'
  have h0 : roundRat (2 ^ 1024) 1 = none := by decide +kernel
  rw [h0] at hm
  cases hr : roundRat num den with
  | none => rfl
  | some b => rw [hr] at hm; exact absurd hm (by simp [optLe])

set_option maxRecDepth 8000 in
set_option exponentiation.threshold 3000 in
theorem roundRat_tiny (num den : ℕ) (hn : 0 < num) (hd : 0 < den) (h : (num : ℚ) / den ≤ (2 : ℚ) ^ (-1075 : ℤ)) :
    roundRat num den = some 0 := by
  have hdq : (0 : ℚ) < den := by exact_mod_cast hd
  have hp : (0 : ℚ) < 2 ^ (1075 : ℕ) := by positivity
  rw [show (-1075 : ℤ) = -((1075 : ℕ) : ℤ) by rfl, zpow_neg, zpow_natCast, inv_eq_one_div,
    div_le_div_iff₀ hdq hp] at h
  have h' : num * 2 ^ 1075 ≤ 1 * den := by exact_mod_cast h
  have hm := roundRat_mono num den 1 (2 ^ 1075) hn hd (Nat.pow_pos (by omega)) h'
  have h0 : roundRat 1 (2 ^ 1075) = some 0 := by decide +kernel
  rw [h0] at hm
  cases hr : roundRat num den with
  | none => rw [hr] at hm; exact absurd hm (by simp [optLe])
  | some b =>
    rw [hr] at hm
    have : b ≤ 0 := hm
    congr 1; omega

/-! ## `DecimalToF64` -/

theorem decimalToF64_unfold (d : Decimal) (hnd : d.nd ≠ 0) (h1 : ¬ d.dp > 310) (h2 : ¬ d.dp < -330)
    (d1 d2 : Decimal) (e1 e2 : Int) (hsd : scaleDown 400 d 0 = (d1, e1)) (hsu : scaleUp 400 d1 e1 = (d2, e2)) :
    decimalToF64 d =
      if (if e2 - 1 < -1022 then e2 - 1 + (-1022 - (e2 - 1)) else e2 - 1) + 1023 ≥ 0x7FF then
        (assemble (if e2 - 1 < -1022 then decimalShift d2 (-(-1022 - (e2 - 1))) else d2) 0 (0x7FF - 1023),
          (if e2 - 1 < -1022 then decimalShift d2 (-(-1022 - (e2 - 1))) else d2).fault)
      else
        finishBlock (decimalShift (if e2 - 1 < -1022 then decimalShift d2 (-(-1022 - (e2 - 1))) else d2) 53)
          (roundedInteger (decimalShift (if e2 - 1 < -1022 then decimalShift d2 (-(-1022 - (e2 - 1))) else d2) 53))
          (if e2 - 1 < -1022 then e2 - 1 + (-1022 - (e2 - 1)) else e2 - 1) := by
  unfold decimalToF64
  rw [if_neg hnd, if_neg h1, if_neg h2]
  simp only [hsd, hsu]
  by_cases hc : e2 - 1 < -1022
  · simp only [hc, if_true]; rfl
  · simp only [hc, if_false]; rfl

/-- the optional extra right shift that brings a subnormal to the fixed exponent `-1022` -/
theorem subnormal_shift (x : ℚ) (hx : 0 < x) (d2 : Decimal) (s2 : ℤ) (hinv : Inv x d2 s2) (hhi : val d2 < 1)
    (nn : ℕ) (hnn1 : 1 ≤ nn) (hnn : nn ≤ 120) (hs : 60 ≤ s2 - nn) :
    Inv x (decimalShift d2 (-(nn : ℤ))) (s2 - nn) ∧ (decimalShift d2 (-(nn : ℤ))).neg = d2.neg ∧
    val (decimalShift d2 (-(nn : ℤ))) < 1 := by
  have hndne := nd_pos_of_dnat d2 hinv.pos
  have hdiv : ∀ (d : Decimal) (k : ℕ), 0 < val d → val d / 2 ^ k ≤ val d := fun d k hv =>
    div_le_self hv.le (one_le_pow₀ (by norm_num))
  have hvpos : ∀ (d : Decimal) (s : ℤ), Inv x d s → 0 < val d := fun d s h =>
    lt_of_lt_of_le (by positivity) (val_bounds d h.wf h.pos).1
  by_cases h60 : nn ≤ 60
  · rw [decimalShift_right d2 nn hndne hnn1 h60]
    obtain ⟨h1, h2, _, _, h5⟩ := inv_rightShift x hx d2 s2 nn hinv h60 (Or.inl (by omega))
    exact ⟨h1, h2, lt_of_le_of_lt (le_trans h5.1 (hdiv d2 nn (hvpos d2 s2 hinv))) hhi⟩
  · rw [decimalShift_right2 d2 nn hndne (by omega) hnn]
    obtain ⟨h1, h2, _, _, h5⟩ := inv_rightShift x hx d2 s2 60 hinv (le_refl _) (Or.inl (by omega))
    have hv1 : val (rightShift d2 60) < 1 := lt_of_le_of_lt (le_trans h5.1 (hdiv d2 60 (hvpos d2 s2 hinv))) hhi
    obtain ⟨g1, g2, _, _, g5⟩ := inv_rightShift x hx (rightShift d2 60) (s2 - (60 : ℕ)) (nn - 60) h1 (by omega)
      (Or.inl (by omega))
    have e : s2 - ((60 : ℕ) : ℤ) - ((nn - 60 : ℕ) : ℤ) = s2 - nn := by omega
    rw [e] at g1
    exact ⟨g1, by rw [g2, h2],
      lt_of_le_of_lt (le_trans g5.1 (hdiv _ (nn - 60) (hvpos _ _ h1))) hv1⟩

/-- the last step: 53 more bits, `RoundedInteger`, and the assembly of the bit pattern -/
theorem mantissa_step (x : ℚ) (num den : ℕ) (hnum : 0 < num) (hden : 0 < den) (hxdef : x = (num : ℚ) / den)
    (hxlo : (2 : ℚ) ^ (-1110 : ℤ) ≤ x) (d3 : Decimal) (s3 X E : ℤ) (hinv : Inv x d3 s3) (hv1 : val d3 < 1)
    (hs3 : s3 = -X - 1) (hX : X = max E (-1022)) (hX2 : X ≤ 1023) (hE : floorLog2Rat num den = E) :
    finishBlock (decimalShift d3 53) (roundedInteger (decimalShift d3 53)) X
      = (encodeBits d3.neg (roundRat num den), false) := by
  have hnumq : (0 : ℚ) < num := by exact_mod_cast hnum
  have hdenq : (0 : ℚ) < den := by exact_mod_cast hden
  have hx : 0 < x := by rw [hxdef]; positivity
  have hndne := nd_pos_of_dnat d3 hinv.pos
  have hsh : decimalShift d3 53 = leftShift d3 53 := decimalShift_left d3 53 hndne (by omega) (by omega)
  rw [hsh]
  have h253 : (0 : ℚ) < 2 ^ (53 : ℕ) := by positivity
  obtain ⟨hinv4, hneg4, htrim4, _, hstep4⟩ := inv_leftShift x hx d3 s3 53 hinv (by omega) (by omega) (by nlinarith)
  obtain ⟨hlead4, _, _⟩ := val_bounds _ hinv4.wf hinv4.pos
  have hv4 : val (leftShift d3 53) < 2 ^ (53 : ℕ) := by
    have := hstep4.1
    nlinarith
  have hdp4 : (leftShift d3 53).dp ≤ 19 := by
    by_contra hcon
    have a1 : (10 : ℚ) ^ (16 : ℤ) ≤ 10 ^ ((leftShift d3 53).dp - 1) := zpow_le_zpow_right₀ (by norm_num) (by omega)
    have a3 : (10 : ℚ) ^ (16 : ℤ) < 2 ^ (53 : ℕ) := by linarith
    norm_num at a3
  have hy3 : x * 2 ^ s3 < 1 := by
    have := inv_lt_pow x hx hxlo d3 s3 hinv 0 (by simpa using hv1)
    simpa using this
  have hy4 : x * 2 ^ (s3 + ((53 : ℕ) : ℤ)) < 2 ^ (53 : ℕ) := by
    rw [zpow_add₀ two_ne, zpow_natCast, ← mul_assoc]
    nlinarith
  have hround := final_round x num den hnum hden hxdef (leftShift d3 53) (s3 + ((53 : ℕ) : ℤ)) hinv4 htrim4 hy4
    (by omega) hdp4
  -- the reference in closed form
  obtain ⟨hclosed, _⟩ := roundRat_closed num den hnum hden
  obtain ⟨hr1, hr2⟩ := q2_range num den hnum hden
  simp only [hE] at hclosed hr1 hr2
  have hg : ulpOf E = X - 52 := by
    unfold ulpOf; rw [hX]
    by_cases h : E - 52 < -1074
    · rw [if_pos h, max_eq_right (by omega)]; norm_num
    · rw [if_neg h, max_eq_left (by omega)]
  rw [hg] at hclosed hr1 hr2
  have hexp : (1 : ℤ) - (X - 52) = s3 + ((53 : ℕ) : ℤ) + 1 := by rw [hs3]; push_cast; ring
  rw [hexp] at hclosed hr1 hr2
  rw [← hround] at hclosed
  have hbnd := roundQ_bounds (num * pL (s3 + ((53 : ℕ) : ℤ) + 1) / (den * pR (s3 + ((53 : ℕ) : ℤ) + 1)))
    ((num * pL (s3 + ((53 : ℕ) : ℤ) + 1)) % (den * pR (s3 + ((53 : ℕ) : ℤ) + 1)) != 0)
  rw [← hround] at hbnd
  generalize roundedInteger (leftShift d3 53) = q' at *
  generalize num * pL (s3 + ((53 : ℕ) : ℤ) + 1) / (den * pR (s3 + ((53 : ℕ) : ℤ) + 1)) = q2 at *
  have hq53 : q' ≤ 2 ^ 53 := by
    by_cases hn : X - 52 = E - 52
    · have := (hr1 hn).2; omega
    · have := (hr2 hn).2; omega
  have hsub : q' < 2 ^ 52 → X = -1022 := by
    intro hlt
    by_contra hne
    have hn : X - 52 = E - 52 := by
      rw [hX] at hne ⊢
      rcases le_total E (-1022) with h | h
      · rw [max_eq_right h] at hne; exact absurd rfl hne
      · rw [max_eq_left h]
    have := (hr1 hn).1
    omega
  have hXlo : -1022 ≤ X := by rw [hX]; exact le_max_right _ _
  rw [finishBlock_eq _ q' X hXlo hX2 hq53 hsub, hneg4, hinv4.wf.nofault, hclosed]
  have : (X - 52 + 1074).toNat = (X + 1022).toNat := by congr 1; ring
  rw [this]

/-- the bit pattern for a reference result (`none` = rounds to infinity) -/
def specBits (neg : Bool) (r : Option Nat) : Nat :=
  match r with
  | some b => b
  | none => 0x7FF0000000000000 + sgnBit neg

theorem specBits_map (neg : Bool) (o : Option Nat) :
    specBits neg (o.map (· + (if neg then 2 ^ 63 else 0))) = encodeBits neg o := by
  cases o <;> rfl

set_option exponentiation.threshold 3000 in
theorem pow_facts : (2 : ℚ) ^ (1024 : ℕ) ≤ 10 ^ (309 : ℤ) ∧ (10 : ℚ) ^ (-331 : ℤ) ≤ 2 ^ (-1075 : ℤ) ∧
    (2 : ℚ) ^ (-1110 : ℤ) ≤ 10 ^ (-331 : ℤ) ∧ (10 : ℚ) ^ (310 : ℤ) ≤ 2 ^ (3 * (400 - 1)) := by
  have h1 : (2 : ℕ) ^ 1024 ≤ 10 ^ 309 := by decide
  have h2 : (2 : ℕ) ^ 1075 ≤ 10 ^ 331 := by decide
  have h3 : (10 : ℕ) ^ 331 ≤ 2 ^ 1110 := by decide
  have h4 : (10 : ℕ) ^ 310 ≤ 2 ^ 1197 := by decide
  have q1 : (2 : ℚ) ^ (1024 : ℕ) ≤ 10 ^ (309 : ℕ) := by exact_mod_cast h1
  have q2 : (2 : ℚ) ^ (1075 : ℕ) ≤ 10 ^ (331 : ℕ) := by exact_mod_cast h2
  have q3 : (10 : ℚ) ^ (331 : ℕ) ≤ 2 ^ (1110 : ℕ) := by exact_mod_cast h3
  have q4 : (10 : ℚ) ^ (310 : ℕ) ≤ 2 ^ (1197 : ℕ) := by exact_mod_cast h4
  refine ⟨?_, ?_, ?_, ?_⟩
  · rw [show (309 : ℤ) = ((309 : ℕ) : ℤ) by rfl, zpow_natCast]; exact q1
  · rw [show (-331 : ℤ) = -((331 : ℕ) : ℤ) by rfl, show (-1075 : ℤ) = -((1075 : ℕ) : ℤ) by rfl, zpow_neg, zpow_neg,
      zpow_natCast, zpow_natCast]
    exact inv_anti₀ (by positivity) q2
  · rw [show (-331 : ℤ) = -((331 : ℕ) : ℤ) by rfl, show (-1110 : ℤ) = -((1110 : ℕ) : ℤ) by rfl, zpow_neg, zpow_neg,
      zpow_natCast, zpow_natCast]
    exact inv_anti₀ (by positivity) q3
  · rw [show (310 : ℤ) = ((310 : ℕ) : ℤ) by rfl, zpow_natCast]; exact q4

end Sonic.Proofs.Dec
