import Sonic.Proofs.LedgerOps

/-!
# Ledger model: the session invariant `LedgerInv` is preserved by every command (helper lemmas for C13)
-/
namespace Sonic.Proofs.Ledger
open Sonic.Spec Sonic.Model.Dom Sonic.Model.Ledger
open Sonic.Spec.Containers (Key Step Path PStep Val NodeOp Res Op Out AllocKind)

/-! ## the ledger -/

theorem free_mem {L : Ledger} {id : Nat} (h : id ∈ L.live) :
    (L.free id).live = L.live.erase id ∧ (L.free id).faults = L.faults ∧ (L.free id).next = L.next := by
  simp [Ledger.free, h]

theorem freeAll_spec : ∀ (ids : List Nat) (L : Ledger), L.live.Nodup →
    (∀ a, List.count a ids ≤ List.count a L.live) →
    (∀ a, List.count a (L.freeAll ids).live + List.count a ids = List.count a L.live) ∧
    (L.freeAll ids).faults = L.faults ∧ (L.freeAll ids).next = L.next ∧ (L.freeAll ids).live.Nodup
  | [], L, hnd, _ => by simp [Ledger.freeAll, hnd]
  | id :: rest, L, hnd, hle => by
    have hmem : id ∈ L.live := by
      have := hle id
      simp only [List.count_cons_self] at this
      exact List.count_pos_iff.1 (by omega)
    obtain ⟨h1, h2, h3⟩ := free_mem hmem
    have hnd' : (L.free id).live.Nodup := by rw [h1]; exact hnd.erase id
    have hle' : ∀ a, List.count a rest ≤ List.count a (L.free id).live := by
      intro a
      have := hle a
      rw [h1]
      by_cases ha : a = id
      · subst ha
        simp only [List.count_cons_self] at this
        rw [List.count_erase_self]; omega
      · rw [List.count_erase_of_ne ha]
        simp only [List.count_cons, beq_iff_eq] at this
        have hne : ¬ id = a := fun h => ha h.symm
        simp only [hne, ↓reduceIte, Nat.add_zero] at this
        exact this
    obtain ⟨g1, g2, g3, g4⟩ := freeAll_spec rest (L.free id) hnd' hle'
    refine ⟨fun a => ?_, by simpa [Ledger.freeAll] using g2.trans h2, by simpa [Ledger.freeAll] using g3.trans h3,
      by simpa [Ledger.freeAll] using g4⟩
    have := g1 a
    simp only [Ledger.freeAll, List.foldl_cons] at this ⊢
    rw [h1] at this
    by_cases ha : a = id
    · subst ha
      rw [List.count_erase_self] at this
      simp only [List.count_cons_self]
      have := List.count_pos_iff.2 hmem
      omega
    · rw [List.count_erase_of_ne ha] at this
      have hne : ¬ id = a := fun h => ha h.symm
      simp only [List.count_cons, beq_iff_eq, hne, ↓reduceIte, Nat.add_zero]
      exact this

/-- the part of the invariant that concerns the ledger, for an arbitrary multiset `blocks` of owned ids -/
structure LedgerOK (blocks : List Nat) (L : Ledger) : Prop where
  bal : ∀ a, List.count a blocks = List.count a L.live
  nodup : L.live.Nodup
  lt : ∀ id ∈ L.live, id < L.next
  faults : L.faults = 0

theorem commit_ok {blocks blocks' freed : List Nat} {L : Ledger} {n' : Nat} (h : LedgerOK blocks L)
    (hb : Bal blocks L.next blocks' n' freed) : LedgerOK blocks' (L.commit n' freed) := by
  obtain ⟨hle, hb⟩ := hb
  have hlive1 : (L.alloc n').live = L.live ++ List.range' L.next (n' - L.next) := rfl
  have hnd1 : (L.alloc n').live.Nodup := by
    rw [hlive1, List.nodup_append]
    refine ⟨h.nodup, List.nodup_range' 1, fun a ha b hb' hab => ?_⟩
    have := h.lt a ha
    have := (List.mem_range'_1.1 hb').1
    omega
  have hle1 : ∀ a, List.count a freed ≤ List.count a (L.alloc n').live := by
    intro a
    have := hb a
    rw [hlive1, List.count_append, ← h.bal a]
    omega
  obtain ⟨g1, g2, g3, g4⟩ := freeAll_spec freed (L.alloc n') hnd1 hle1
  refine ⟨fun a => ?_, g4, fun id hid => ?_, ?_⟩
  · have h1 := g1 a
    have h2 := hb a
    rw [hlive1, List.count_append, ← h.bal a] at h1
    simp only [Ledger.commit]
    omega
  · simp only [Ledger.commit] at hid ⊢
    rw [g3]
    have hpos : 0 < List.count id ((L.alloc n').freeAll freed).live := List.count_pos_iff.2 hid
    have h1 := g1 id
    have : id ∈ (L.alloc n').live := List.count_pos_iff.1 (by omega)
    rw [hlive1, List.mem_append] at this
    show id < n'
    rcases this with h2 | h2
    · have := h.lt id h2; omega
    · have := (List.mem_range'_1.1 h2).2; omega
  · simp only [Ledger.commit]
    rw [g2]
    exact h.faults

theorem same_ok {blocks blocks' : List Nat} {L : Ledger} (h : LedgerOK blocks L)
    (hb : ∀ a, List.count a blocks' = List.count a blocks) : LedgerOK blocks' L :=
  ⟨fun a => (hb a).trans (h.bal a), h.nodup, h.lt, h.faults⟩

/-! ## documents -/

theorem docsBlocks_eq : ∀ docs : List LDoc, docsBlocks docs = docs.flatMap LDoc.blocks
  | [] => rfl
  | d :: ds => by simp [docsBlocks, docsBlocks_eq ds]

theorem docs_set_count {docs : List LDoc} {d : Nat} {doc : LDoc} (doc' : LDoc) (h : docs[d]? = some doc) : ∀ a,
    List.count a (docsBlocks (docs.set d doc')) + List.count a doc.blocks =
      List.count a (docsBlocks docs) + List.count a doc'.blocks := by
  intro a
  rw [docsBlocks_eq, docsBlocks_eq]
  exact count_flatMap_set LDoc.blocks docs d doc doc' h a

theorem docs_set_get_other {docs : List LDoc} {d d2 : Nat} {x S : LDoc} (h : docs[d2]? = some S)
    (hne : d ≠ d2) : (docs.set d x)[d2]? = some S := by
  rw [List.getElem?_set, if_neg hne]; exact h

/-- every `kStringCopy` string of a document points into that document's own parse buffer -/
def RefsOK (docs : List LDoc) : Prop := ∀ doc ∈ docs, ∀ r ∈ doc.root.refs, doc.str = some r

theorem refs_set {docs : List LDoc} {d : Nat} {x : LDoc} (h : RefsOK docs)
    (hx : ∀ r ∈ x.root.refs, x.str = some r) : RefsOK (docs.set d x) := by
  intro doc hdoc
  rcases List.mem_or_eq_of_mem_set hdoc with h1 | rfl
  · exact h doc h1
  · exact hx

theorem refs_fresh : RefsOK freshDocs := by
  intro doc hdoc
  simp only [freshDocs, List.mem_cons, List.not_mem_nil, or_false, or_self] at hdoc
  subst hdoc
  simp [LDoc.fresh]

/-- the representation invariant of a session with ledger -/
structure LedgerInv (s : LSession) : Prop where
  ok : LedgerOK (docsBlocks s.docs) s.ledger
  refs : RefsOK s.docs

/-! ## disjoint paths -/

theorem child_setChild_ne {v x v' : LNode} {s t : Step} (hs : v.setChild s x = some v') (hne : s ≠ t) :
    v'.child t = v.child t := by
  cases v <;> cases s <;> simp only [LNode.setChild, reduceCtorEq] at hs
  · rename_i st es i
    split at hs
    · simp only [Option.some.injEq] at hs
      subst hs
      cases t with
      | idx j =>
        have : i ≠ j := fun h => hne (by rw [h])
        simp [LNode.child, this]
      | mem j => simp [LNode.child]
    · simp at hs
  · rename_i st ms i
    cases hm : ms[i]? with
    | none => simp [hm] at hs
    | some m =>
      simp only [hm, Option.map_some, Option.some.injEq] at hs
      subst hs
      cases t with
      | idx j => simp [LNode.child]
      | mem j =>
        have : i ≠ j := fun h => hne (by rw [h])
        simp [LNode.child, this]

theorem child_setChild_self {v x v' : LNode} {s : Step} (hs : v.setChild s x = some v') : v'.child s = some x := by
  cases v <;> cases s <;> simp only [LNode.setChild, reduceCtorEq] at hs
  · rename_i st es i
    split at hs
    · rename_i hi
      simp only [Option.some.injEq] at hs
      subst hs
      simp [LNode.child, hi]
    · simp at hs
  · rename_i st ms i
    cases hm : ms[i]? with
    | none => simp [hm] at hs
    | some m =>
      simp only [hm, Option.map_some, Option.some.injEq] at hs
      subst hs
      have hi := (List.getElem?_eq_some_iff.1 hm).1
      simp [LNode.child, hi, lval]

/-- writing at `a` does not change what is found at `b` when neither path is a prefix of the other -/
theorem get_set_disjoint : ∀ {a b : Path} {doc y d1 : LNode}, a.isPrefixOf b = false → b.isPrefixOf a = false →
    doc.set a y = some d1 → d1.get b = doc.get b
  | [], _, _, _, _, h, _, _ => by simp at h
  | _ :: _, [], _, _, _, _, h, _ => by simp at h
  | s :: a, t :: b, doc, y, d1, h1, h2, hs => by
    simp only [LNode.set, Option.bind_eq_some_iff] at hs
    obtain ⟨c, hc, c', hset, hs⟩ := hs
    simp only [LNode.get]
    by_cases hst : s = t
    · subst hst
      simp only [List.isPrefixOf_cons_cons, beq_self_eq_true, Bool.true_and] at h1 h2
      rw [child_setChild_self hs, hc]
      simp only [Option.bind_some]
      exact get_set_disjoint h1 h2 hset
    · rw [child_setChild_ne hs hst]

/-! ## two-node operations -/

theorem lmoveNode_ok {doc d2 : LNode} {dst src : Path} {freed : List Nat}
    (h : lmoveNode doc dst src = some (d2, freed)) :
    (∀ a, List.count a d2.blocks + List.count a freed = List.count a doc.blocks) ∧
    ∀ r ∈ d2.refs, r ∈ doc.refs := by
  unfold lmoveNode at h
  split at h
  · simp only [Option.map_eq_some_iff, Prod.mk.injEq] at h
    obtain ⟨_, _, rfl, rfl⟩ := h
    exact ⟨fun a => by simp, fun r hr => hr⟩
  · split at h
    · simp at h
    · simp only [Option.bind_eq_some_iff, Option.map_eq_some_iff, Prod.mk.injEq] at h
      obtain ⟨v, hv, d1, hd1, old, hold, dd, hdd, rfl, rfl⟩ := h
      refine ⟨fun a => ?_, fun r hr => ?_⟩
      · have h1 := set_frame hv hd1 a
        have h2 := set_frame hold hdd a
        simp only [blocks_null, List.count_nil, Nat.add_zero] at h1
        omega
      · rcases set_refs hdd r hr with h1 | h1
        · rcases set_refs hd1 r h1 with h2 | h2
          · exact h2
          · simp at h2
        · exact get_refs hv r h1

theorem lmoveNode2_ok {D S D' S' : LNode} {dst src : Path} {freed : List Nat}
    (h : lmoveNode2 D dst S src = some (D', S', freed)) :
    ∃ v, S.get src = some v ∧
    (∀ a, List.count a D'.blocks + List.count a S'.blocks + List.count a freed =
      List.count a D.blocks + List.count a S.blocks) ∧
    (∀ r ∈ D'.refs, r ∈ D.refs ∨ r ∈ v.refs) ∧ (∀ r ∈ S'.refs, r ∈ S.refs) := by
  unfold lmoveNode2 at h
  simp only [Option.bind_eq_some_iff, Option.map_eq_some_iff, Prod.mk.injEq] at h
  obtain ⟨v, hv, S1, hS1, old, hold, D1, hD1, rfl, rfl, rfl⟩ := h
  refine ⟨v, hv, fun a => ?_, fun r hr => set_refs hD1 r hr, fun r hr => ?_⟩
  · have h1 := set_frame hv hS1 a
    have h2 := set_frame hold hD1 a
    simp only [blocks_null, List.count_nil, Nat.add_zero] at h1
    omega
  · rcases set_refs hS1 r hr with h1 | h1
    · exact h1
    · simp at h1

theorem lcopyNode_ok {cs : Bool} {doc : LNode} {dst src : Path} {n : Nat} {e : Eff}
    (h : lcopyNode cs doc dst src n = some e) : EffOK doc [] [] n e := by
  unfold lcopyNode at h
  split at h
  · simp at h
  · simp only [Option.bind_eq_some_iff, Option.map_eq_some_iff] at h
    obtain ⟨v, hv, old, hold, d, hd, rfl⟩ := h
    obtain ⟨⟨hle, hf⟩, hnr⟩ := lcopy_fresh cs v n
    refine ⟨⟨hle, fun a => ?_⟩, fun r hr => ?_⟩
    · have h1 := set_frame hold hd a
      have := hf a
      simp only [List.append_nil]
      omega
    · rcases set_refs hd r hr with h1 | h1
      · exact .inl h1
      · rw [hnr] at h1; simp at h1

theorem lcopyNode2_ok {cs : Bool} {D S : LNode} {dst src : Path} {n : Nat} {e : Eff}
    (h : lcopyNode2 cs D dst S src n = some e) : EffOK D [] [] n e := by
  unfold lcopyNode2 at h
  simp only [Option.bind_eq_some_iff, Option.map_eq_some_iff] at h
  obtain ⟨v, hv, old, hold, d, hd, rfl⟩ := h
  obtain ⟨⟨hle, hf⟩, hnr⟩ := lcopy_fresh cs v n
  refine ⟨⟨hle, fun a => ?_⟩, fun r hr => ?_⟩
  · have h1 := set_frame hold hd a
    have := hf a
    simp only [List.append_nil]
    omega
  · rcases set_refs hd r hr with h1 | h1
    · exact .inl h1
    · rw [hnr] at h1; simp at h1

theorem lswapNodes_ok {doc d2 : LNode} {a b : Path} (h : lswapNodes doc a b = some d2) :
    (∀ c, List.count c d2.blocks = List.count c doc.blocks) ∧ ∀ r ∈ d2.refs, r ∈ doc.refs := by
  unfold lswapNodes at h
  split at h
  · simp only [Option.map_eq_some_iff] at h
    obtain ⟨_, _, rfl⟩ := h
    exact ⟨fun _ => rfl, fun r hr => hr⟩
  · split at h
    · simp at h
    · rename_i hpre
      simp only [Bool.or_eq_true, not_or, Bool.not_eq_true] at hpre
      simp only [Option.bind_eq_some_iff] at h
      obtain ⟨x, hx, y, hy, d1, hd1, h⟩ := h
      have hy1 : d1.get b = some y := by rw [get_set_disjoint hpre.1 hpre.2 hd1]; exact hy
      refine ⟨fun c => ?_, fun r hr => ?_⟩
      · have h1 := set_frame hx hd1 c
        have h2 := set_frame hy1 h c
        omega
      · rcases set_refs h r hr with h1 | h1
        · rcases set_refs hd1 r h1 with h2 | h2
          · exact h2
          · exact get_refs hy r h2
        · exact get_refs hx r h1

theorem lswapNodes2_ok {D S D' S' x y : LNode} {a b : Path} (h : lswapNodes2 D a S b = some (D', S', x, y)) :
    (∀ c, List.count c D'.blocks + List.count c S'.blocks = List.count c D.blocks + List.count c S.blocks) ∧
    (∀ r ∈ D'.refs, r ∈ D.refs ∨ r ∈ y.refs) ∧ (∀ r ∈ S'.refs, r ∈ S.refs ∨ r ∈ x.refs) := by
  unfold lswapNodes2 at h
  simp only [Option.bind_eq_some_iff, Option.map_eq_some_iff, Prod.mk.injEq] at h
  obtain ⟨x', hx, y', hy, D1, hD1, S1, hS1, rfl, rfl, rfl, rfl⟩ := h
  refine ⟨fun c => ?_, fun r hr => set_refs hD1 r hr, fun r hr => set_refs hS1 r hr⟩
  have h1 := set_frame hx hD1 c
  have h2 := set_frame hy hS1 c
  omega

/-! ## every command preserves the invariant -/

theorem count_doc_blocks (root : LNode) (str : Option Nat) (a : Nat) :
    List.count a (LDoc.blocks ⟨root, str⟩) = List.count a root.blocks + List.count a str.toList := by
  simp [LDoc.blocks]

theorem fresh_blocks : docsBlocks freshDocs = [] := by
  simp [freshDocs, docsBlocks, LDoc.blocks, LDoc.fresh]

theorem destroy_all_inv {s : LSession} (h : LedgerInv s) (live : Bool) (a : AllocKind) :
    LedgerInv ⟨live, a, freshDocs, s.ledger.commit s.ledger.next (docsBlocks s.docs)⟩ := by
  refine ⟨commit_ok h.ok ⟨Nat.le_refl _, fun c => ?_⟩, refs_fresh⟩
  simp [fresh_blocks]

theorem stepLive_inv (env : Containers.Env) {s s' : LSession} {op : Op} (hinv : LedgerInv s)
    (h : lstepLive env s op = some s') : LedgerInv s' := by
  cases op with
  | reset a =>
    simp only [lstepLive] at h
    split at h
    · simp at h
    · simp only [Option.some.injEq] at h
      subst h
      exact destroy_all_inv hinv _ _
  | fin =>
    simp only [lstepLive, Option.some.injEq] at h
    subst h
    exact destroy_all_inv hinv _ _
  | parse d text =>
    simp only [lstepLive, Option.map_eq_some_iff] at h
    obtain ⟨doc, hdoc, rfl⟩ := h
    split
    · rename_i v hp
      obtain ⟨⟨hle, hf⟩, hr⟩ := lofJVal_fresh s.ledger.next v (s.ledger.next + 1)
      refine ⟨commit_ok hinv.ok ⟨by omega, fun a => ?_⟩, refs_set hinv.refs (fun r hr' => by rw [hr r hr'])⟩
      have h1 := docs_set_count ⟨(lofJVal s.ledger.next v (s.ledger.next + 1)).1, some s.ledger.next⟩ hdoc a
      have h2 := hf a
      rw [count_range'_append a s.ledger.next (s.ledger.next + 1) _ (Nat.le_succ _) hle, count_range'_one]
      simp only [LDoc.blocks, List.count_append, Option.toList_some] at h1 ⊢
      omega
    · refine ⟨commit_ok hinv.ok ⟨Nat.le_succ _, fun a => ?_⟩, refs_set hinv.refs (fun r hr' => by simp at hr')⟩
      have h1 := docs_set_count ⟨.null, some s.ledger.next⟩ hdoc a
      rw [count_range'_one]
      simp only [LDoc.blocks, List.count_append, Option.toList_some, blocks_null, List.count_nil, Nat.zero_add] at h1 ⊢
      omega
  | node d p nop =>
    simp only [lstepLive, Option.bind_eq_some_iff, Option.map_eq_some_iff] at h
    obtain ⟨doc, hdoc, e, he, rfl⟩ := h
    obtain ⟨⟨hle, hb⟩, hr⟩ := modifyAt_ok (fun x n e h => apply_ok env nop h) he
    refine ⟨commit_ok hinv.ok ⟨hle, fun a => ?_⟩, refs_set hinv.refs (fun r hr' => ?_)⟩
    · have h1 := docs_set_count { doc with root := e.node } hdoc a
      have h2 := hb a
      simp only [LDoc.blocks, List.count_append, List.append_nil] at h1 h2 ⊢
      omega
    · rcases hr r hr' with h1 | h1
      · exact hinv.refs doc (List.mem_of_getElem? hdoc) r h1
      · simp at h1
  | move d p d2 p2 =>
    simp only [lstepLive] at h
    split at h
    · simp only [Option.bind_eq_some_iff, Option.map_eq_some_iff] at h
      obtain ⟨doc, hdoc, ⟨r1, fr⟩, hm, rfl⟩ := h
      obtain ⟨hb, hr⟩ := lmoveNode_ok hm
      refine ⟨commit_ok hinv.ok ⟨Nat.le_refl _, fun a => ?_⟩, refs_set hinv.refs (fun r hr' => ?_)⟩
      · have h1 := docs_set_count { doc with root := r1 } hdoc a
        have h2 := hb a
        simp only [LDoc.blocks, List.count_append, Nat.sub_self, List.range'_zero, List.count_nil] at h1 ⊢
        omega
      · exact hinv.refs doc (List.mem_of_getElem? hdoc) r (hr r hr')
    · rename_i hne
      split at h
      · simp at h
      simp only [Option.bind_eq_some_iff] at h
      obtain ⟨D, hD, S, hS, ⟨D', S', fr⟩, hm, v, hv, h⟩ := h
      split at h
      · rename_i hnr
        simp only [Option.some.injEq] at h
        subst h
        obtain ⟨v', hv', hb, hrD, hrS⟩ := lmoveNode2_ok hm
        rw [hv] at hv'
        simp only [Option.some.injEq] at hv'
        subst hv'
        refine ⟨commit_ok hinv.ok ⟨Nat.le_refl _, fun a => ?_⟩, ?_⟩
        · have h1 := docs_set_count { D with root := D' } hD a
          have h2 := docs_set_count { S with root := S' } (docs_set_get_other (x := { D with root := D' }) hS hne) a
          have h3 := hb a
          simp only [LDoc.blocks, List.count_append, Nat.sub_self, List.range'_zero, List.count_nil] at h1 h2 ⊢
          omega
        · refine refs_set (refs_set hinv.refs (fun r hr' => ?_)) (fun r hr' => ?_)
          · rcases hrD r hr' with h1 | h1
            · exact hinv.refs D (List.mem_of_getElem? hD) r h1
            · rw [hnr] at h1; simp at h1
          · exact hinv.refs S (List.mem_of_getElem? hS) r (hrS r hr')
      · simp at h
  | copy d p d2 p2 cs =>
    simp only [lstepLive] at h
    split at h
    · simp only [Option.bind_eq_some_iff, Option.map_eq_some_iff] at h
      obtain ⟨doc, hdoc, e, he, rfl⟩ := h
      obtain ⟨⟨hle, hb⟩, hr⟩ := lcopyNode_ok he
      refine ⟨commit_ok hinv.ok ⟨hle, fun a => ?_⟩, refs_set hinv.refs (fun r hr' => ?_)⟩
      · have h1 := docs_set_count { doc with root := e.node } hdoc a
        have h2 := hb a
        simp only [LDoc.blocks, List.count_append, List.append_nil] at h1 h2 ⊢
        omega
      · rcases hr r hr' with h1 | h1
        · exact hinv.refs doc (List.mem_of_getElem? hdoc) r h1
        · simp at h1
    · simp only [Option.bind_eq_some_iff, Option.map_eq_some_iff] at h
      obtain ⟨D, hD, S, hS, e, he, rfl⟩ := h
      obtain ⟨⟨hle, hb⟩, hr⟩ := lcopyNode2_ok he
      refine ⟨commit_ok hinv.ok ⟨hle, fun a => ?_⟩, refs_set hinv.refs (fun r hr' => ?_)⟩
      · have h1 := docs_set_count { D with root := e.node } hD a
        have h2 := hb a
        simp only [LDoc.blocks, List.count_append, List.append_nil] at h1 h2 ⊢
        omega
      · rcases hr r hr' with h1 | h1
        · exact hinv.refs D (List.mem_of_getElem? hD) r h1
        · simp at h1
  | swap d p d2 p2 =>
    simp only [lstepLive] at h
    split at h
    · simp only [Option.bind_eq_some_iff, Option.map_eq_some_iff] at h
      obtain ⟨doc, hdoc, r1, hm, rfl⟩ := h
      obtain ⟨hb, hr⟩ := lswapNodes_ok hm
      refine ⟨same_ok hinv.ok (fun a => ?_), refs_set hinv.refs (fun r hr' => ?_)⟩
      · have h1 := docs_set_count { doc with root := r1 } hdoc a
        have h2 := hb a
        simp only [LDoc.blocks, List.count_append] at h1 ⊢
        omega
      · exact hinv.refs doc (List.mem_of_getElem? hdoc) r (hr r hr')
    · rename_i hne
      split at h
      · simp at h
      simp only [Option.bind_eq_some_iff] at h
      obtain ⟨D, hD, S, hS, ⟨D', S', x, y⟩, hm, h⟩ := h
      split at h
      · rename_i hnr
        simp only [Option.some.injEq] at h
        subst h
        obtain ⟨hb, hrD, hrS⟩ := lswapNodes2_ok hm
        refine ⟨same_ok hinv.ok (fun a => ?_), ?_⟩
        · have h1 := docs_set_count { D with root := D' } hD a
          have h2 := docs_set_count { S with root := S' } (docs_set_get_other (x := { D with root := D' }) hS hne) a
          have h3 := hb a
          simp only [LDoc.blocks, List.count_append] at h1 h2 ⊢
          omega
        · refine refs_set (refs_set hinv.refs (fun r hr' => ?_)) (fun r hr' => ?_)
          · rcases hrD r hr' with h1 | h1
            · exact hinv.refs D (List.mem_of_getElem? hD) r h1
            · rw [hnr.2] at h1; simp at h1
          · rcases hrS r hr' with h1 | h1
            · exact hinv.refs S (List.mem_of_getElem? hS) r h1
            · rw [hnr.1] at h1; simp at h1
      · simp at h
  | docMove d d2 =>
    simp only [lstepLive] at h
    split at h
    · simp at h
    · rename_i hne
      simp only [Option.bind_eq_some_iff, Option.map_eq_some_iff] at h
      obtain ⟨D, hD, S, hS, rfl⟩ := h
      refine ⟨commit_ok hinv.ok ⟨Nat.le_refl _, fun a => ?_⟩, ?_⟩
      · have h1 := docs_set_count S hD a
        have h2 := docs_set_count LDoc.fresh (docs_set_get_other (x := S) hS hne) a
        simp only [LDoc.fresh, LDoc.blocks, blocks_null, Option.toList_none, List.append_nil, List.count_nil,
          Nat.add_zero, Nat.sub_self, List.range'_zero] at h1 h2 ⊢
        omega
      · refine refs_set (refs_set hinv.refs (hinv.refs S (List.mem_of_getElem? hS))) (fun r hr' => ?_)
        simp [LDoc.fresh] at hr'
  | docSwap d d2 =>
    simp only [lstepLive, Option.bind_eq_some_iff, Option.map_eq_some_iff] at h
    obtain ⟨D, hD, S, hS, rfl⟩ := h
    have hS1 : (s.docs.set d S)[d2]? = some S := by
      rw [List.getElem?_set]
      split
      · rename_i hdd
        have := (List.getElem?_eq_some_iff.1 hD).1
        simp [this]
      · exact hS
    refine ⟨same_ok hinv.ok (fun a => ?_), ?_⟩
    · have h1 := docs_set_count S hD a
      have h2 := docs_set_count D hS1 a
      show List.count a (docsBlocks ((s.docs.set d S).set d2 D)) = List.count a (docsBlocks s.docs)
      omega
    · exact refs_set (refs_set hinv.refs (hinv.refs S (List.mem_of_getElem? hS)))
        (hinv.refs D (List.mem_of_getElem? hD))

theorem step_inv (env : Containers.Env) {s s' : LSession} {op : Op} (hinv : LedgerInv s)
    (h : lstep env s op = some s') : LedgerInv s' := by
  cases op with
  | reset a =>
    simp only [lstep] at h
    split at h
    · simp at h
    · simp only [Option.some.injEq] at h
      subst h
      exact destroy_all_inv hinv _ _
  | fin | parse _ _ | node _ _ _ | move _ _ _ _ | copy _ _ _ _ _ | swap _ _ _ _ | docMove _ _ | docSwap _ _ =>
    simp only [lstep] at h
    split at h
    · exact stepLive_inv env hinv h
    · simp at h

theorem init_inv : LedgerInv LSession.init := by
  refine ⟨⟨fun a => ?_, List.nodup_nil, fun id hid => by simp [LSession.init, Ledger.empty] at hid, rfl⟩, refs_fresh⟩
  have : docsBlocks LSession.init.docs = [] := fresh_blocks
  rw [this]; rfl

theorem run_inv (env : Containers.Env) : ∀ (ops : List Op) (s : LSession), LedgerInv s → LedgerInv (lrun env s ops)
  | [], _, h => h
  | op :: ops, s, h => by
    simp only [lrun]
    cases hst : lstep env s op with
    | none => exact run_inv env ops s h
    | some s' => exact run_inv env ops s' (step_inv env h hst)

theorem lrun_append (env : Containers.Env) : ∀ (ops₁ ops₂ : List Op) (s : LSession),
    lrun env s (ops₁ ++ ops₂) = lrun env (lrun env s ops₁) ops₂
  | [], _, _ => rfl
  | op :: ops, ops₂, s => by
    simp only [List.cons_append, lrun]
    cases lstep env s op with
    | none => exact lrun_append env ops ops₂ s
    | some s' => exact lrun_append env ops ops₂ s'

/-- outside a case (before the first `dom-reset`, after `dom-end`) there are only the four fresh documents -/
def Closed (s : LSession) : Prop := s.live = false → s.docs = freshDocs

theorem step_closed (env : Containers.Env) {s s' : LSession} {op : Op} (h : lstep env s op = some s') : Closed s' := by
  cases op with
  | reset a =>
    simp only [lstep] at h
    split at h
    · simp at h
    · simp only [Option.some.injEq] at h
      subst h
      intro hl; simp at hl
  | fin =>
    simp only [lstep] at h
    split at h
    · simp only [lstepLive, Option.some.injEq] at h
      subst h
      intro _; rfl
    · simp at h
  | parse d t =>
    simp only [lstep] at h
    split at h
    · rename_i hl
      simp only [lstepLive, Option.map_eq_some_iff] at h
      obtain ⟨doc, _, rfl⟩ := h
      intro hl'
      split at hl' <;> simp [hl] at hl'
    · simp at h
  | node d p nop =>
    simp only [lstep] at h
    split at h
    · rename_i hl
      simp only [lstepLive, Option.bind_eq_some_iff, Option.map_eq_some_iff] at h
      obtain ⟨_, _, _, _, rfl⟩ := h
      intro hl'; simp [hl] at hl'
    · simp at h
  | move d p d2 p2 =>
    simp only [lstep] at h
    split at h
    · rename_i hl
      simp only [lstepLive] at h
      intro hl'
      split at h
      · simp only [Option.bind_eq_some_iff, Option.map_eq_some_iff] at h
        obtain ⟨_, _, _, _, rfl⟩ := h
        simp [hl] at hl'
      · split at h
        · simp at h
        · simp only [Option.bind_eq_some_iff] at h
          obtain ⟨_, _, _, _, _, _, _, _, h⟩ := h
          split at h
          · simp only [Option.some.injEq] at h
            subst h
            simp [hl] at hl'
          · simp at h
    · simp at h
  | copy d p d2 p2 cs =>
    simp only [lstep] at h
    split at h
    · rename_i hl
      simp only [lstepLive] at h
      intro hl'
      split at h
      · simp only [Option.bind_eq_some_iff, Option.map_eq_some_iff] at h
        obtain ⟨_, _, _, _, rfl⟩ := h
        simp [hl] at hl'
      · simp only [Option.bind_eq_some_iff, Option.map_eq_some_iff] at h
        obtain ⟨_, _, _, _, _, _, rfl⟩ := h
        simp [hl] at hl'
    · simp at h
  | swap d p d2 p2 =>
    simp only [lstep] at h
    split at h
    · rename_i hl
      simp only [lstepLive] at h
      intro hl'
      split at h
      · simp only [Option.bind_eq_some_iff, Option.map_eq_some_iff] at h
        obtain ⟨_, _, _, _, rfl⟩ := h
        simp [hl] at hl'
      · split at h
        · simp at h
        · simp only [Option.bind_eq_some_iff] at h
          obtain ⟨_, _, _, _, _, _, h⟩ := h
          split at h
          · simp only [Option.some.injEq] at h
            subst h
            simp [hl] at hl'
          · simp at h
    · simp at h
  | docMove d d2 =>
    simp only [lstep] at h
    split at h
    · rename_i hl
      simp only [lstepLive] at h
      intro hl'
      split at h
      · simp at h
      · simp only [Option.bind_eq_some_iff, Option.map_eq_some_iff] at h
        obtain ⟨_, _, _, _, rfl⟩ := h
        simp [hl] at hl'
    · simp at h
  | docSwap d d2 =>
    simp only [lstep] at h
    split at h
    · rename_i hl
      simp only [lstepLive, Option.bind_eq_some_iff, Option.map_eq_some_iff] at h
      obtain ⟨_, _, _, _, rfl⟩ := h
      intro hl'; simp [hl] at hl'
    · simp at h

theorem run_closed (env : Containers.Env) : ∀ (ops : List Op) (s : LSession), Closed s → Closed (lrun env s ops)
  | [], _, h => h
  | op :: ops, s, h => by
    simp only [lrun]
    cases hst : lstep env s op with
    | none => exact run_closed env ops s h
    | some s' => exact run_closed env ops s' (step_closed env hst)

theorem live_nil_of_no_blocks {s : LSession} (h : LedgerInv s) (hb : docsBlocks s.docs = []) : s.ledger.live = [] := by
  apply List.eq_nil_iff_forall_not_mem.2
  intro a ha
  have := h.ok.bal a
  rw [hb] at this
  have hpos := List.count_pos_iff.2 ha
  simp at this
  omega

end Sonic.Proofs.Ledger
