import Sonic.Model.Parse
import Sonic.Props.C05

/-!
# String literals inside the parser

* the reference decoder only looks at the bytes of the literal (`decodeFrom_window`): this moves `decodeLit` between
  the input `bs`, the padded buffer, and the buffer whose prefix has been mutated by earlier in-place decoding;
* `strErrPos` is defined whenever `parseStringInplace` reports an error.
-/
namespace Sonic.Proofs.Parse
open Sonic.Spec Sonic.Model.Parse Sonic.Proofs.StringDec

theorem hex4_window {b o : List Nat} {p : Nat} (h : ∀ i, p ≤ i → i < p + 4 → b[i]? = o[i]?) :
    hex4 b p = hex4 o p := by
  unfold hex4
  rw [h p (by omega) (by omega), h (p + 1) (by omega) (by omega), h (p + 2) (by omega) (by omega),
    h (p + 3) (by omega) (by omega)]

/-- an accepted escape only depends on the bytes it consumes -/
theorem escapeAt_window {o1 o2 : List Nat} {q : Nat} {out : List Nat} {p' : Nat}
    (h : escapeAt o1 q = some (out, p')) (hw : ∀ i, q ≤ i → i < p' → o2[i]? = o1[i]?) :
    escapeAt o2 q = some (out, p') := by
  have hlt := escapeAt_next h
  have h0 := h
  unfold escapeAt at h
  split at h
  · cases h
  · rename_i c hc
    have e0 : o2[q]? = some c := by rw [hw q (by omega) hlt, hc]
    split at h
    · rename_i hu
      split at h
      · cases h
      · rename_i hi hhi
        split at h
        · rename_i hsur
          split at h
          · rename_i hbu
            split at h
            · cases h
            · rename_i lo hlo
              split at h
              · rename_i hlow
                simp only [Option.some.injEq, Prod.mk.injEq] at h
                obtain ⟨h1, h2⟩ := h
                subst h2
                have e1 : hex4 o2 (q + 1) = some hi := by
                  rw [hex4_window (fun i a b => hw i (by omega) (by omega)), hhi]
                have e2 : hex4 o2 (q + 7) = some lo := by
                  rw [hex4_window (fun i a b => hw i (by omega) (by omega)), hlo]
                have e5 : o2[q + 5]? = some 0x5C := by rw [hw (q + 5) (by omega) (by omega)]; exact hbu.1
                have e6 : o2[q + 6]? = some 0x75 := by rw [hw (q + 6) (by omega) (by omega)]; exact hbu.2
                unfold escapeAt
                simp only [e0, hu, if_true, e1, hsur, e5, e6, and_self, e2, hlow, h1]
              · cases h
          · cases h
        · rename_i hsur
          split at h
          · cases h
          · rename_i hlow
            simp only [Option.some.injEq, Prod.mk.injEq] at h
            obtain ⟨h1, h2⟩ := h
            subst h2
            have e1 : hex4 o2 (q + 1) = some hi := by
              rw [hex4_window (fun i a b => hw i (by omega) (by omega)), hhi]
            unfold escapeAt
            simp only [e0, hu, if_true, e1, hsur, hlow, h1]
            simp
    · rename_i hu
      split at h
      · cases h
      · rename_i v hv
        simp only [Option.some.injEq, Prod.mk.injEq] at h
        obtain ⟨h1, h2⟩ := h
        subst h2
        unfold escapeAt
        simp only [e0, hu, if_false, hv, h1]

/-- an accepted literal ends after its start -/
theorem decodeFrom_gt {o : List Nat} : ∀ (f p : Nat) (out : List Nat) (next : Nat),
    decodeFrom o f p = some (out, next) → p < next := by
  intro f
  induction f with
  | zero => intro p out next h; simp [decodeFrom] at h
  | succ f ih =>
    intro p out next h
    rw [decodeFrom_step] at h
    cases hc : o[p]? with
    | none => rw [hc] at h; cases h
    | some c =>
      rw [hc] at h
      simp only at h
      split at h
      · injection h with h; injection h with h1 h2; omega
      · split at h
        · cases he : escapeAt o (p + 1) with
          | none => rw [he] at h; cases h
          | some x =>
            obtain ⟨eo, p'⟩ := x
            rw [he] at h
            simp only at h
            have hp' := escapeAt_next he
            cases hr : decodeFrom o f p' with
            | none => rw [hr] at h; cases h
            | some y =>
              obtain ⟨rest, nx⟩ := y
              rw [hr] at h
              simp only [prepend] at h
              injection h with h; injection h with h1 h2
              have := ih p' rest nx hr
              omega
        · split at h
          · cases h
          · cases hr : decodeFrom o f (p + 1) with
            | none => rw [hr] at h; cases h
            | some y =>
              obtain ⟨rest, nx⟩ := y
              rw [hr] at h
              simp only [prepend] at h
              injection h with h; injection h with h1 h2
              have := ih (p + 1) rest nx hr
              omega

/-- the reference decoder only depends on the bytes `[p, next)` of an accepted literal -/
theorem decodeFrom_window {o1 o2 : List Nat} : ∀ (f1 f2 p : Nat) (out : List Nat) (next : Nat),
    decodeFrom o1 f1 p = some (out, next) → (∀ i, p ≤ i → i < next → o2[i]? = o1[i]?) → next - p ≤ f2 →
    decodeFrom o2 f2 p = some (out, next) := by
  intro f1
  induction f1 with
  | zero => intro f2 p out next h; simp [decodeFrom] at h
  | succ f1 ih =>
    intro f2 p out next h hw hf
    have hgt := decodeFrom_gt _ _ _ _ h
    obtain ⟨f2, rfl⟩ : ∃ k, f2 = k + 1 := ⟨f2 - 1, by omega⟩
    rw [decodeFrom_step] at h
    cases hc : o1[p]? with
    | none => rw [hc] at h; cases h
    | some c =>
      rw [hc] at h
      simp only at h
      have e0 : o2[p]? = some c := by rw [hw p (by omega) (by omega), hc]
      rw [decodeFrom_step, e0]
      simp only
      split at h
      · rename_i hq
        simp only [hq, if_true]
        exact h
      · rename_i hq
        rw [if_neg hq]
        split at h
        · rename_i hb
          rw [if_pos hb]
          cases he : escapeAt o1 (p + 1) with
          | none => rw [he] at h; cases h
          | some x =>
            obtain ⟨eo, p'⟩ := x
            rw [he] at h
            simp only at h
            have hp' := escapeAt_next he
            cases hr : decodeFrom o1 f1 p' with
            | none => rw [hr] at h; cases h
            | some y =>
              obtain ⟨rest, nx⟩ := y
              rw [hr] at h
              simp only [prepend] at h
              injection h with h; injection h with h1 h2
              subst h2
              have hgt' := decodeFrom_gt _ _ _ _ hr
              rw [escapeAt_window he (fun i a b => hw i (by omega) (by omega))]
              simp only
              rw [ih f2 p' rest nx hr (fun i a b => hw i (by omega) b) (by omega)]
              simp only [prepend, h1]
        · rename_i hb
          rw [if_neg hb]
          split at h
          · cases h
          · rename_i hctl
            rw [if_neg hctl]
            cases hr : decodeFrom o1 f1 (p + 1) with
            | none => rw [hr] at h; cases h
            | some y =>
              obtain ⟨rest, nx⟩ := y
              rw [hr] at h
              simp only [prepend] at h
              injection h with h; injection h with h1 h2
              subst h2
              rw [ih f2 (p + 1) rest nx hr (fun i a b => hw i (by omega) b) (by omega)]
              simp only [prepend, h1]

/-- `decodeLit` on two buffers that agree on the bytes of the literal -/
theorem decodeLit_window {o1 o2 : List Nat} {start : Nat} {out : List Nat} {next : Nat}
    (h : decodeLit o1 start = some (out, next)) (hw : ∀ i, start ≤ i → i < next → o2[i]? = o1[i]?)
    (hlen : next ≤ o2.length) : decodeLit o2 start = some (out, next) := by
  unfold decodeLit at h ⊢
  exact decodeFrom_window _ _ _ _ _ h hw (by omega)

/-- an accepted literal ends inside the buffer -/
theorem decodeFrom_le {o : List Nat} : ∀ (f p : Nat) (out : List Nat) (next : Nat),
    decodeFrom o f p = some (out, next) → next ≤ o.length := by
  intro f
  induction f with
  | zero => intro p out next h; simp [decodeFrom] at h
  | succ f ih =>
    intro p out next h
    rw [decodeFrom_step] at h
    cases hc : o[p]? with
    | none => rw [hc] at h; cases h
    | some c =>
      rw [hc] at h
      simp only at h
      have hp : p < o.length := (List.getElem?_eq_some_iff.mp hc).1
      split at h
      · injection h with h; injection h with h1 h2; omega
      · split at h
        · cases he : escapeAt o (p + 1) with
          | none => rw [he] at h; cases h
          | some x =>
            obtain ⟨eo, p'⟩ := x
            rw [he] at h
            simp only at h
            cases hr : decodeFrom o f p' with
            | none => rw [hr] at h; cases h
            | some y =>
              obtain ⟨rest, nx⟩ := y
              rw [hr] at h
              simp only [prepend] at h
              injection h with h; injection h with h1 h2
              have := ih p' rest nx hr
              omega
        · split at h
          · cases h
          · cases hr : decodeFrom o f (p + 1) with
            | none => rw [hr] at h; cases h
            | some y =>
              obtain ⟨rest, nx⟩ := y
              rw [hr] at h
              simp only [prepend] at h
              injection h with h; injection h with h1 h2
              have := ih (p + 1) rest nx hr
              omega

/-! ## `strErrPos` -/

open Sonic.Model.StringDec in
theorem strErrPosFuel_ok (W start : Nat) : ∀ (fuel : Nat) (c : Cfg) (code : Nat),
    runFuel W start fuel c = .ok (.err code) → ∃ p, strErrPosFuel W start fuel c = .ok p := by
  intro fuel
  induction fuel with
  | zero => intro c code h; simp [runFuel] at h
  | succ fuel ih =>
    intro c code h
    unfold runFuel at h
    unfold strErrPosFuel
    cases hs : step W start c with
    | error e => rw [hs] at h; cases h
    | ok r =>
      rw [hs] at h
      cases r with
      | inr o =>
        simp only at h
        injection h with h
        subst h
        exact ⟨_, rfl⟩
      | inl c' =>
        simp only at h ⊢
        exact ih c' code h

open Sonic.Model.StringDec in
theorem strErrPos_ok {W : Nat} {buf : List Nat} {start code : Nat} (h : run W buf start = .ok (.err code)) :
    ∃ p, strErrPos W buf start = .ok p :=
  strErrPosFuel_ok W start _ _ code h

end Sonic.Proofs.Parse
