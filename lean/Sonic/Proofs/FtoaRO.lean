import Sonic.Proofs.FtoaRange
import Sonic.Proofs.FtoaNT

/-!
# C07 / Schubfach: `RoundToOdd` computes the exact round-to-odd of the scaled value

With `A/B = 2^q·10^(-k)` exactly and `g` the 128-bit table entry (an over-estimate of `10^(-k)` by less than one unit
in the last place): for every multiplier `m ≤ 2^54 + 1`,
`RoundToOdd(g, 2m·2^h) = 2·⌊m·A/B⌋ + [m·A/B ∉ ℤ]`,
i.e. the value compares with every even integer exactly as the real number `2m·A/B` does.
-/
namespace Sonic.Proofs.Ftoa
open Sonic.Gen Sonic.Model.Ftoa Sonic.Model.Itoa

theorem or_one_even (n : Nat) : 2 * n ||| 1 = 2 * n + 1 := by
  have h := or_one_bounds (2 * n)
  have h2 : (2 * n ||| 1) % 2 = 1 := Nat.or_mod_two_eq_one.2 (Or.inr rfl)
  omega

theorem or_b2n_odd (n : Nat) (b : Bool) : (2 * n + 1) ||| b2n b = 2 * n + 1 := by
  cases b
  · simp [b2n]
  · have h := or_one_bounds (2 * n + 1)
    have h2 : ((2 * n + 1) ||| 1) % 2 = 1 := Nat.or_mod_two_eq_one.2 (Or.inr rfl)
    simp only [b2n, if_true]
    omega

/-- `RoundToOdd` in terms of the 192-bit product -/
theorem roundToOdd_eq (hi lo cp : Nat) (hhi : hi < 2 ^ 64) (hlo : lo < 2 ^ 64) (hcp : cp < 2 ^ 64) :
    roundToOdd (hi, lo) cp =
      cp * (hi * 2 ^ 64 + lo) / 2 ^ 128 ||| b2n (decide (cp * (hi * 2 ^ 64 + lo) / 2 ^ 64 % 2 ^ 64 > 1)) := by
  have m1 : cp * lo < 2 ^ 128 := by
    calc cp * lo < 2 ^ 64 * 2 ^ 64 := Nat.mul_lt_mul'' hcp hlo
      _ = 2 ^ 128 := by decide
  have m2 : cp * hi ≤ (2 ^ 64 - 1) * (2 ^ 64 - 1) := Nat.mul_le_mul (by omega) (by omega)
  have m3 : cp * lo / 2 ^ 64 < 2 ^ 64 := by
    rw [Nat.div_lt_iff_lt_mul (by decide)]
    calc cp * lo < 2 ^ 128 := m1
      _ = 2 ^ 64 * 2 ^ 64 := by decide
  have m4 : cp * hi + cp * lo / 2 ^ 64 < 2 ^ 128 := by
    have : (2 ^ 64 - 1) * (2 ^ 64 - 1) + 2 ^ 64 ≤ 2 ^ 128 := by decide
    omega
  have e : cp * (hi * 2 ^ 64 + lo) = cp * hi * 2 ^ 64 + cp * lo := by
    rw [Nat.mul_add, Nat.mul_assoc]
  have e2 : cp * hi + cp * lo / 2 ^ 64 = cp * (hi * 2 ^ 64 + lo) / 2 ^ 64 := by
    rw [e, Nat.mul_comm (cp * hi), Nat.mul_add_div (by decide)]
  unfold roundToOdd
  simp only [Nat.mod_eq_of_lt m1, Nat.mod_eq_of_lt m3, Nat.mod_eq_of_lt m4]
  rw [e2, Nat.div_div_eq_div_mul, show (2 : Nat) ^ 64 * 2 ^ 64 = 2 ^ 128 by decide]
  have m5 : cp * (hi * 2 ^ 64 + lo) / 2 ^ 128 < 2 ^ 64 := by
    rw [Nat.div_lt_iff_lt_mul (by decide)]
    have : cp * (hi * 2 ^ 64 + lo) / 2 ^ 64 < 2 ^ 128 := by rw [← e2]; exact m4
    rw [Nat.div_lt_iff_lt_mul (by decide)] at this
    have e3 : (2 : Nat) ^ 64 * 2 ^ 128 = 2 ^ 128 * 2 ^ 64 := by decide
    omega
  rw [Nat.mod_eq_of_lt m5]

theorem ro_fin (P n : Nat) (l1 : 2 ^ 128 * (2 * n) + 2 ^ 65 ≤ P) (l2 : P < 2 ^ 128 * (2 * n + 2)) :
    P / 2 ^ 128 ||| b2n (decide (P / 2 ^ 64 % 2 ^ 64 > 1)) = 2 * n + 1 := by
  by_cases hc : P < 2 ^ 128 * (2 * n + 1)
  · have d1 : P / 2 ^ 128 = 2 * n := by omega
    have d2 : P / 2 ^ 64 % 2 ^ 64 > 1 := by omega
    have hb2 : b2n (decide (P / 2 ^ 64 % 2 ^ 64 > 1)) = 1 := by simp [b2n, d2]
    rw [d1, hb2]
    exact or_one_even n
  · have d1 : P / 2 ^ 128 = 2 * n + 1 := by omega
    rw [d1]
    exact or_b2n_odd n _

theorem ro_fin0 (P n cp : Nat) (hcp : cp < 2 ^ 64) (l1 : 2 ^ 128 * (2 * n) ≤ P) (l2 : P < 2 ^ 128 * (2 * n) + cp) :
    P / 2 ^ 128 ||| b2n (decide (P / 2 ^ 64 % 2 ^ 64 > 1)) = 2 * n := by
  have d1 : P / 2 ^ 128 = 2 * n := by omega
  have d2 : P / 2 ^ 64 % 2 ^ 64 = 0 := by omega
  rw [d1, d2]
  simp [b2n]

/-- the arithmetic core: `P = cp·g` squeezed between the exact product and the exact product plus `cp` -/
theorem ro_core (A B P cp m n r : Nat) (hB : 0 < B) (hcp : cp ≤ 2 ^ 60)
    (hdiv : m * A = B * n + r) (hr : r < B)
    (lo : 2 ^ 128 * (2 * (m * A)) ≤ P * B) (up : P * B < 2 ^ 128 * (2 * (m * A)) + cp * B)
    (nt : r = 0 ∨ (B ≤ r * 2 ^ 64 ∧ B ≤ (B - r) * 2 ^ 69)) :
    P / 2 ^ 128 ||| b2n (decide (P / 2 ^ 64 % 2 ^ 64 > 1)) = 2 * n + b2n (decide (r ≠ 0)) := by
  rw [hdiv] at lo up
  have e1 : 2 ^ 128 * (2 * (B * n + r)) = (2 ^ 128 * (2 * n)) * B + 2 ^ 128 * (2 * r) := by
    rw [Nat.mul_add, Nat.mul_add]
    congr 1
    ac_rfl
  rw [e1] at lo up
  rcases nt with h0 | ⟨n1, n2⟩
  · subst h0
    simp only [Nat.mul_zero, Nat.add_zero] at lo up
    have l1 : 2 ^ 128 * (2 * n) ≤ P := Nat.le_of_mul_le_mul_right lo hB
    have l2 : P < 2 ^ 128 * (2 * n) + cp := by
      rw [← Nat.add_mul] at up
      exact Nat.lt_of_mul_lt_mul_right up
    have hb : b2n (decide ((0 : Nat) ≠ 0)) = 0 := by simp [b2n]
    rw [hb]
    exact ro_fin0 P n cp (by omega) l1 l2
  · have hr0 : r ≠ 0 := by
      intro h; subst h; omega
    have l1 : 2 ^ 128 * (2 * n) + 2 ^ 65 ≤ P := by
      apply Nat.le_of_mul_le_mul_right _ hB
      rw [Nat.add_mul]
      have : 2 ^ 65 * B ≤ 2 ^ 128 * (2 * r) := by
        have := Nat.mul_le_mul_left (2 ^ 65) n1
        have e : 2 ^ 65 * (r * 2 ^ 64) = 2 ^ 128 * (2 * r) := by
          rw [show (2 : Nat) ^ 128 = 2 ^ 64 * 2 ^ 64 by decide, show (2 : Nat) ^ 65 = 2 * 2 ^ 64 by decide]
          ac_rfl
        omega
      omega
    have l2 : P < 2 ^ 128 * (2 * n + 2) := by
      apply Nat.lt_of_mul_lt_mul_right (a := B)
      have a1 : cp * B ≤ 2 ^ 60 * B := Nat.mul_le_mul_right _ hcp
      have a2 : 2 ^ 60 * B ≤ 2 ^ 60 * ((B - r) * 2 ^ 69) := Nat.mul_le_mul_left _ n2
      have a3 : 2 ^ 60 * ((B - r) * 2 ^ 69) + 2 ^ 128 * (2 * r) = 2 ^ 128 * 2 * B := by
        have : 2 ^ 60 * ((B - r) * 2 ^ 69) = 2 ^ 128 * 2 * (B - r) := by
          rw [show (2 : Nat) ^ 128 * 2 = 2 ^ 60 * 2 ^ 69 by decide]
          ac_rfl
        rw [this, show 2 ^ 128 * (2 * r) = 2 ^ 128 * 2 * r by ac_rfl, ← Nat.mul_add]
        congr 1; omega
      have a4 : 2 ^ 128 * (2 * n + 2) * B = 2 ^ 128 * (2 * n) * B + 2 ^ 128 * 2 * B := by
        rw [Nat.mul_add, Nat.add_mul]
      omega
    have hb : b2n (decide (r ≠ 0)) = 1 := by simp [b2n, hr0]
    rw [hb]
    exact ro_fin P n l1 l2

/-! ## the table entry against the exact ratio -/

theorem rv_shift (a : Nat) (x y d : Int) : rv a (x + d) y = rv a x y * (2 : Rat) ^ d := by
  unfold rv
  rw [Rat.zpow_add (by decide)]
  grind

theorem sideP_small (g : Nat) (hn : Nat) (h : hn ≤ 128) : sideP g ((hn : Int) - 128) 0 = g := by
  unfold sideP
  rw [show ((hn : Int) - 128).toNat = 0 by omega]
  simp

theorem negP_small (hn : Nat) (h : hn ≤ 128) : negP ((hn : Int) - 128) 0 = 2 ^ (128 - hn) := by
  unfold negP
  rw [show (-((hn : Int) - 128)).toNat = 128 - hn by omega]
  simp

theorem key_le (q k e : Int) (g hn : Nat) (hh : q + e + 1 = (hn : Int)) (hn4 : hn ≤ 128)
    (r8 : LeS 1 0 (-k) g (e - 127) 0) : sideP 1 q (-k) * 2 ^ 128 ≤ g * 2 ^ hn * negP q (-k) := by
  rw [leS_iff] at r8
  have hp : (0 : Rat) < (2 : Rat) ^ q := Rat.zpow_pos (by decide)
  have := Rat.mul_le_mul_of_nonneg_right r8 (Rat.le_of_lt hp)
  rw [← rv_shift, ← rv_shift, show e - 127 + q = (hn : Int) - 128 by omega, Int.zero_add, ← leS_iff] at this
  unfold LeS at this
  rw [sideP_small g hn hn4, negP_small hn hn4] at this
  have h2 := Nat.mul_le_mul_right (2 ^ hn) this
  have e1 : (2 : Nat) ^ 128 = 2 ^ (128 - hn) * 2 ^ hn := by rw [← Nat.pow_add]; congr 1; omega
  rw [e1]
  calc sideP 1 q (-k) * (2 ^ (128 - hn) * 2 ^ hn) = sideP 1 q (-k) * 2 ^ (128 - hn) * 2 ^ hn := by ac_rfl
    _ ≤ g * negP q (-k) * 2 ^ hn := h2
    _ = g * 2 ^ hn * negP q (-k) := by ac_rfl

theorem key_lt (q k e : Int) (g hn : Nat) (hh : q + e + 1 = (hn : Int)) (hn4 : hn ≤ 128)
    (r7 : LtS g (e - 127) 0 1 0 (-k)) : g * 2 ^ hn * negP q (-k) < sideP 1 q (-k) * 2 ^ 128 := by
  rw [ltS_iff] at r7
  have hp : (0 : Rat) < (2 : Rat) ^ q := Rat.zpow_pos (by decide)
  have := Rat.mul_lt_mul_of_pos_right r7 hp
  rw [← rv_shift, ← rv_shift, show e - 127 + q = (hn : Int) - 128 by omega, Int.zero_add, ← ltS_iff] at this
  unfold LtS at this
  rw [sideP_small g hn hn4, negP_small hn hn4] at this
  have h2 := Nat.mul_lt_mul_of_pos_right this (Nat.pow_pos (n := hn) (by decide : 0 < 2))
  have e1 : (2 : Nat) ^ 128 = 2 ^ (128 - hn) * 2 ^ hn := by rw [← Nat.pow_add]; congr 1; omega
  rw [e1]
  calc g * 2 ^ hn * negP q (-k) = g * negP q (-k) * 2 ^ hn := by ac_rfl
    _ < sideP 1 q (-k) * 2 ^ (128 - hn) * 2 ^ hn := h2
    _ = sideP 1 q (-k) * (2 ^ (128 - hn) * 2 ^ hn) := by ac_rfl

/-- the table entry against the exact `A/B = 2^q·10^(-k)`: `(g-1)·2^h/2^128 < A/B ≤ g·2^h/2^128` -/
theorem key_ineq (q : Int) (h1 : -1074 ≤ q) (h2 : q ≤ 971) :
    ∃ (hi lo hn : Nat), pow10CeilSigAt (-(kOf q false)) = some (hi, lo) ∧ hi < 2 ^ 64 ∧ lo < 2 ^ 64 ∧
      hOf q (kOf q false) = (hn : Int) ∧ 1 ≤ hn ∧ hn ≤ 4 ∧ 1 ≤ hi * 2 ^ 64 + lo ∧
      numQ q * 2 ^ 128 ≤ (hi * 2 ^ 64 + lo) * 2 ^ hn * denQ q ∧
      (hi * 2 ^ 64 + lo - 1) * 2 ^ hn * denQ q < numQ q * 2 ^ 128 := by
  obtain ⟨⟨hi, lo⟩, hrow, rhi, rlo, k1, k2, hh1, hh2, g1, g2⟩ := exp_ok q h1 h2 false
  simp only at rhi rlo g1 g2
  have hrow' := hrow
  unfold pow10CeilSigAt at hrow'
  rw [if_pos (by omega)] at hrow'
  obtain ⟨r1, r2, r3, r4, r5, r6, r7, r8⟩ := row_ok _ _ hrow'
  simp only at r3 r7 r8
  rw [show (((-kOf q false + 292).toNat : Nat) : Int) - 292 = -kOf q false by omega] at r7 r8
  have hh : q + ((-kOf q false * 1741647) >>> 19) + 1 = ((hOf q (kOf q false)).toNat : Int) := by
    have : hOf q (kOf q false) = q + ((-kOf q false * 1741647) >>> 19) + 1 := rfl
    omega
  refine ⟨hi, lo, (hOf q (kOf q false)).toNat, hrow, rhi, rlo, by omega, by omega, by omega, by omega, ?_, ?_⟩
  · exact key_le q (kOf q false) _ _ _ hh (by omega) r8
  · exact key_lt q (kOf q false) _ _ _ hh (by omega) r7

/-! ## exactness -/

/-- `RoundToOdd(g, 2m·2^h) = 2·⌊m·A/B⌋ + [B ∤ m·A]` -/
theorem ro_exact (A B hi lo hn m : Nat) (hhi : hi < 2 ^ 64) (hlo : lo < 2 ^ 64) (hn4 : hn ≤ 4) (hB : 0 < B)
    (hg : 1 ≤ hi * 2 ^ 64 + lo)
    (K1 : A * 2 ^ 128 ≤ (hi * 2 ^ 64 + lo) * 2 ^ hn * B)
    (K2 : (hi * 2 ^ 64 + lo - 1) * 2 ^ hn * B < A * 2 ^ 128)
    (hm0 : 0 < m) (hm : m ≤ mMax) (nt : NtOk A B m) :
    roundToOdd (hi, lo) (2 * m * 2 ^ hn) = 2 * (m * A / B) + b2n (decide (m * A % B ≠ 0)) := by
  have hp : 2 ^ hn ≤ 16 := by
    have : hn = 0 ∨ hn = 1 ∨ hn = 2 ∨ hn = 3 ∨ hn = 4 := by omega
    rcases this with h | h | h | h | h <;> subst h <;> decide
  have hcp : 2 * m * 2 ^ hn ≤ 2 ^ 60 := by
    calc 2 * m * 2 ^ hn ≤ 2 * mMax * 16 := Nat.mul_le_mul (Nat.mul_le_mul_left _ hm) hp
      _ ≤ 2 ^ 60 := by decide
  rw [roundToOdd_eq hi lo _ hhi hlo (by omega)]
  generalize hi * 2 ^ 64 + lo = g at *
  apply ro_core A B _ (2 * m * 2 ^ hn) m (m * A / B) (m * A % B) hB hcp (Nat.div_add_mod _ _).symm
    (Nat.mod_lt _ hB) ?_ ?_ nt
  · calc 2 ^ 128 * (2 * (m * A)) = 2 * m * (A * 2 ^ 128) := by ac_rfl
      _ ≤ 2 * m * (g * 2 ^ hn * B) := Nat.mul_le_mul_left _ K1
      _ = 2 * m * 2 ^ hn * g * B := by ac_rfl
  · have e : (g - 1) * 2 ^ hn * B + 2 ^ hn * B = g * 2 ^ hn * B := by
      rw [← Nat.add_mul, ← Nat.add_one_mul, Nat.sub_add_cancel hg]
    have K3 : g * 2 ^ hn * B < A * 2 ^ 128 + 2 ^ hn * B := by omega
    calc 2 * m * 2 ^ hn * g * B = 2 * m * (g * 2 ^ hn * B) := by ac_rfl
      _ < 2 * m * (A * 2 ^ 128 + 2 ^ hn * B) := Nat.mul_lt_mul_of_pos_left K3 (by omega)
      _ = 2 ^ 128 * (2 * (m * A)) + 2 * m * 2 ^ hn * B := by rw [Nat.mul_add]; ac_rfl

end Sonic.Proofs.Ftoa
