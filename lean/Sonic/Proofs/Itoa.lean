import Sonic.Model.Itoa
import Sonic.Spec.Decimal
import Sonic.Proofs.Decimal

/-! Helper lemmas for C08 (itoa kernels). -/
namespace Sonic.Proofs.Itoa
open Sonic.Model.Itoa Sonic.Gen Sonic.Spec
theorem lane16_0 (x : Nat) (h : x < 65536) : lane16 x 0 = x := by
  simp only [lane16]; omega
theorem lane16_1 (x : Nat) (h : x < 65536) : lane16 x 1 = 0 := by
  simp only [lane16]; omega

theorem sseV06_spec (n : Nat) (h : n < 100000000) :
    sseV06 n = 4 * (n / 10000) + 65536 * (4 * (n % 10000)) := by
  have e1 : n % 2 ^ 32 = n := Nat.mod_eq_of_lt (by omega)
  have h02 : n * 3518437209 % 2 ^ 64 / 2 ^ 45 = n / 10000 := by
    rw [Nat.mod_eq_of_lt (by omega)]; omega
  have h03 : (n / 10000) % 2 ^ 32 * 10000 % 2 ^ 64 = n / 10000 * 10000 := by
    rw [Nat.mod_eq_of_lt (a := n / 10000) (by omega), Nat.mod_eq_of_lt (by omega)]
  have h04 : (n + 2 ^ 32 - (n / 10000 * 10000) % 2 ^ 32) % 2 ^ 32 = n % 10000 := by
    rw [Nat.mod_eq_of_lt (a := n / 10000 * 10000) (by omega)]; omega
  unfold sseV06
  simp only [kVec4xDiv10k, kVec4x10k, List.getD_cons_zero, e1, h02, h03, h04]
  rw [lane16_0 _ (by omega), lane16_0 _ (by omega), lane16_1 _ (by omega), lane16_1 _ (by omega)]
  omega

theorem mulhi16_lt (a b : Nat) (ha : a < 65536) (hb : b < 65536) : mulhi16 a b = a * b / 65536 := by
  simp only [mulhi16]; rw [Nat.mod_eq_of_lt (by omega : a < 2^16), Nat.mod_eq_of_lt (by omega : b < 2^16)]

theorem lanes4 (x : Nat) (h : x < 10000) :
  mulhi16 (mulhi16 (4 * x) 0x20c5) 0x0080 = x / 1000 ∧
  mulhi16 (mulhi16 (4 * x) 0x147b) 0x0800 = x / 100 ∧
  mulhi16 (mulhi16 (4 * x) 0x3334) 0x2000 = x / 10 ∧
  mulhi16 (mulhi16 (4 * x) 0x8000) 0x8000 = x := by
  refine ⟨?_, ?_, ?_, ?_⟩ <;>
  · rw [mulhi16_lt (4 * x) _ (by omega) (by omega), mulhi16_lt _ _ (by omega) (by omega)]; omega

theorem sseV10_spec (n : Nat) (h : n < 100000000) :
    sseV10 n = [n / 10000 / 1000, n / 10000 / 100, n / 10000 / 10, n / 10000,
                n % 10000 / 1000, n % 10000 / 100, n % 10000 / 10, n % 10000] := by
  have q1 : n / 10000 < 10000 := by omega
  have q2 : n % 10000 < 10000 := by omega
  have l0 : lane16 (4 * (n / 10000) + 65536 * (4 * (n % 10000))) 0 = 4 * (n / 10000) := by
    simp only [lane16, Nat.reduceMul, Nat.reducePow]; omega
  have l1 : lane16 (4 * (n / 10000) + 65536 * (4 * (n % 10000))) 1 = 4 * (n % 10000) := by
    simp only [lane16, Nat.reduceMul, Nat.reducePow]
    rw [Nat.add_mul_div_left _ _ (by decide : 0 < 65536), Nat.div_eq_of_lt (by omega), Nat.zero_add,
      Nat.mod_eq_of_lt (by omega)]
  obtain ⟨a1, a2, a3, a4⟩ := lanes4 _ q1
  obtain ⟨b1, b2, b3, b4⟩ := lanes4 _ q2
  simp only [sseV10, sseV06_spec n h, kVecDivPowers, kVecShiftPowers,
    List.range, List.range.loop, List.map, List.getD_cons_zero, List.getD_cons_succ, Nat.reduceDiv, l0, l1]
  simp only [a1, a2, a3, a4, b1, b2, b3, b4]

theorem utoaSSE_spec (n : Nat) (h : n < 100000000) :
    utoaSSE n = [n / 10000000 % 10, n / 1000000 % 10, n / 100000 % 10, n / 10000 % 10,
                 n / 1000 % 10, n / 100 % 10, n / 10 % 10, n % 10] := by
  simp only [utoaSSE, sseV10_spec n h, kVec8x10,
    List.range, List.range.loop, List.map, List.getD_cons_zero, List.getD_cons_succ]
  simp only [Nat.reduceMod, Nat.reduceSub, Nat.reduceEqDiff, ↓reduceIte,
     List.getD_cons_zero]
  simp only [List.cons.injEq, and_true]
  refine ⟨?_, ?_, ?_, ?_, ?_, ?_, ?_, ?_⟩ <;> omega

/-! ## buffer / slice algebra -/

theorem wr_apply (b : Buf) (i v j : Nat) : wr b i v j = if j = i then v else b j := rfl

theorem copy2_apply (b : Buf) (pos src j : Nat) :
    copy2 b pos src j = if j = pos + 1 then dig (src + 1) else if j = pos then dig src else b j := rfl

theorem copy2_frame (b : Buf) (pos src j : Nat) (h : j < pos ∨ pos + 2 ≤ j) :
    copy2 b pos src j = b j := by
  rw [copy2_apply, if_neg (by omega), if_neg (by omega)]

theorem wrList_apply : ∀ (l : List Nat) (b : Buf) (pos j : Nat),
    wrList b pos l j = if pos ≤ j ∧ j < pos + l.length then l.getD (j - pos) 0 else b j := by
  intro l
  induction l with
  | nil => intro b pos j; simp [wrList]; omega
  | cons x xs ih =>
    intro b pos j
    simp only [wrList, ih, wr_apply, List.length_cons]
    by_cases h1 : pos + 1 ≤ j
    · have e : j - pos = (j - (pos + 1)) + 1 := by omega
      rw [e, List.getD_cons_succ]
      by_cases h2 : j < pos + 1 + xs.length
      · rw [if_pos ⟨h1, h2⟩, if_pos ⟨by omega, by omega⟩]
      · rw [if_neg (by omega), if_neg (by omega), if_neg (by omega)]
    · rw [if_neg (by omega)]
      by_cases h3 : j = pos
      · subst h3; simp
      · rw [if_neg h3, if_neg (by omega)]

theorem wrList_frame (l : List Nat) (b : Buf) (pos j : Nat) (h : j < pos ∨ pos + l.length ≤ j) :
    wrList b pos l j = b j := by
  rw [wrList_apply, if_neg (by omega)]

theorem slice_length (b : Buf) (lo hi : Nat) : (slice b lo hi).length = hi - lo := by simp [slice]

theorem slice_getElem (b : Buf) (lo hi i : Nat) (h : i < (slice b lo hi).length) :
    (slice b lo hi)[i] = b (lo + i) := by
  simp [slice]

theorem slice_congr (b b' : Buf) (lo hi : Nat) (h : ∀ j, lo ≤ j → j < hi → b j = b' j) :
    slice b lo hi = slice b' lo hi := by
  apply List.ext_getElem
  · simp [slice_length]
  · intro i h1 h2
    rw [slice_getElem, slice_getElem]
    rw [slice_length] at h1
    exact h _ (by omega) (by omega)

theorem slice_append (b : Buf) (lo mid hi : Nat) (h1 : lo ≤ mid) (h2 : mid ≤ hi) :
    slice b lo hi = slice b lo mid ++ slice b mid hi := by
  unfold slice
  rw [← List.map_append]
  congr 1
  have e : hi - lo = (mid - lo) + (hi - mid) := by omega
  rw [e, ← List.range'_append]
  congr 2
  omega

theorem slice_eq_of_pointwise (b : Buf) (lo : Nat) (l : List Nat)
    (h : ∀ i (hi : i < l.length), b (lo + i) = l[i]) : slice b lo (lo + l.length) = l := by
  apply List.ext_getElem
  · simp [slice_length]
  · intro i h1 h2
    rw [slice_getElem]; exact h i h2

theorem slice_wrList (b : Buf) (pos : Nat) (l : List Nat) (k : Nat) (hk : k ≤ l.length) :
    slice (wrList b pos l) pos (pos + k) = l.take k := by
  have := slice_eq_of_pointwise (wrList b pos l) pos (l.take k) (by
    intro i hi
    simp at hi
    rw [wrList_apply, if_pos ⟨by omega, by omega⟩]
    simp [List.getD_eq_getElem?_getD, List.getElem?_eq_getElem (show i < l.length by omega)])
  simpa [Nat.min_eq_left hk] using this

/-! ## the digit-pair table -/

theorem dig_table : ∀ i, i < 100 → dig (i * 2) = 48 + i / 10 ∧ dig (i * 2 + 1) = 48 + i % 10 := by
  decide

theorem dig_even (i : Nat) (h : i < 100) : dig (i * 2) = 48 + i / 10 := (dig_table i h).1
theorem dig_odd (i : Nat) (h : i < 100) : dig (i * 2 + 1) = 48 + i % 10 := (dig_table i h).2

/-! ## `Utoa_1_8`, `Utoa_8`, `Utoa_16` -/

theorem b2n_true (p : Prop) [Decidable p] (h : p) : b2n (decide p) = 1 := by simp [b2n, h]
theorem b2n_false (p : Prop) [Decidable p] (h : ¬p) : b2n (decide p) = 0 := by simp [b2n, h]

/-- what `Utoa_1_8` guarantees, with the spelling given as a list `ds` -/
def Spec18 (b : Buf) (out val : Nat) (ds : List Nat) : Prop :=
  slice (utoa_1_8 b out val).buf out (utoa_1_8 b out val).out = ds ∧
  out < (utoa_1_8 b out val).out ∧
  (utoa_1_8 b out val).out ≤ (utoa_1_8 b out val).ext ∧
  (utoa_1_8 b out val).ext ≤ out + 8 ∧
  ∀ j, j < out ∨ (utoa_1_8 b out val).ext ≤ j → (utoa_1_8 b out val).buf j = b j

set_option linter.unusedSimpArgs false

macro "utoa18_tac" : tactic => `(tactic| (
  unfold Spec18
  simp (disch := omega) only [utoa_1_8, if_pos, if_neg, b2n_true, b2n_false]
  refine ⟨?_, by omega, by omega, by omega, ?_⟩
  · simp [slice, List.range', copy2_apply, digitsW, Nat.add_assoc]
    simp (disch := omega) only [dig_even, dig_odd, and_true]
    try omega
  · intro j hj
    simp (disch := omega) only [copy2_frame]))

theorem utoa18_d8 (b : Buf) (out val : Nat) (h0 : 10000000 ≤ val) (h : val < 100000000) :
    Spec18 b out val (digitsW 8 val) := by utoa18_tac
theorem utoa18_d7 (b : Buf) (out val : Nat) (h0 : 1000000 ≤ val) (h : val < 10000000) :
    Spec18 b out val (digitsW 7 val) := by utoa18_tac
theorem utoa18_d6 (b : Buf) (out val : Nat) (h0 : 100000 ≤ val) (h : val < 1000000) :
    Spec18 b out val (digitsW 6 val) := by utoa18_tac
theorem utoa18_d5 (b : Buf) (out val : Nat) (h0 : 10000 ≤ val) (h : val < 100000) :
    Spec18 b out val (digitsW 5 val) := by utoa18_tac
theorem utoa18_d4 (b : Buf) (out val : Nat) (h0 : 1000 ≤ val) (h : val < 10000) :
    Spec18 b out val (digitsW 4 val) := by utoa18_tac
theorem utoa18_d3 (b : Buf) (out val : Nat) (h0 : 100 ≤ val) (h : val < 1000) :
    Spec18 b out val (digitsW 3 val) := by utoa18_tac
theorem utoa18_d2 (b : Buf) (out val : Nat) (h0 : 10 ≤ val) (h : val < 100) :
    Spec18 b out val (digitsW 2 val) := by utoa18_tac
theorem utoa18_d1 (b : Buf) (out val : Nat) (h : val < 10) :
    Spec18 b out val (digitsW 1 val) := by utoa18_tac


theorem decimal_eq_digitsW1 (n : Nat) (h : n < 10) : decimal n = digitsW 1 n := by
  rw [decimal_lt n h]; simp [digitsW]; omega

theorem utoa_1_8_spec (b : Buf) (out val : Nat) (h : val < 100000000) :
    Spec18 b out val (decimal val) := by
  by_cases c1 : val < 10
  · rw [decimal_eq_digitsW1 val c1]; exact utoa18_d1 b out val c1
  by_cases c2 : val < 100
  · rw [decimal_eq_digitsW 1 val (by omega) (by omega)]; exact utoa18_d2 b out val (by omega) c2
  by_cases c3 : val < 1000
  · rw [decimal_eq_digitsW 2 val (by omega) (by omega)]; exact utoa18_d3 b out val (by omega) c3
  by_cases c4 : val < 10000
  · rw [decimal_eq_digitsW 3 val (by omega) (by omega)]; exact utoa18_d4 b out val (by omega) c4
  by_cases c5 : val < 100000
  · rw [decimal_eq_digitsW 4 val (by omega) (by omega)]; exact utoa18_d5 b out val (by omega) c5
  by_cases c6 : val < 1000000
  · rw [decimal_eq_digitsW 5 val (by omega) (by omega)]; exact utoa18_d6 b out val (by omega) c6
  by_cases c7 : val < 10000000
  · rw [decimal_eq_digitsW 6 val (by omega) (by omega)]; exact utoa18_d7 b out val (by omega) c7
  · rw [decimal_eq_digitsW 7 val (by omega) (by omega)]; exact utoa18_d8 b out val (by omega) h

theorem packus_mod10 (x : Nat) : packus (x % 10) = x % 10 := by
  unfold packus; split
  · omega
  · split <;> omega

theorem utoa_8_buf (b : Buf) (out val : Nat) (h : val < 100000000) :
    (utoa_8 b out val).buf = wrList b out (digitsW 8 val ++ List.replicate 8 48) := by
  simp only [utoa_8, utoaSSE_spec val h, kVec16xAsc0, List.map, packus_mod10,
    List.range, List.range.loop, List.replicate, List.cons_append, List.nil_append,
    List.getD_cons_zero, List.getD_cons_succ, digitsW]
  congr 1
  simp only [List.cons.injEq, Nat.zero_add, Nat.reduceMod, and_true]
  refine ⟨?_, ?_, ?_, ?_, ?_, ?_, ?_, ?_⟩ <;> omega

theorem utoa_16_buf (b : Buf) (out val : Nat) (h : val < 10000000000000000) :
    (utoa_16 b out val).buf = wrList b out (digitsW 16 val) := by
  have e1 : val / 100000000 % 2 ^ 32 = val / 100000000 := Nat.mod_eq_of_lt (by omega)
  have e2 : val % 100000000 % 2 ^ 32 = val % 100000000 := Nat.mod_eq_of_lt (by omega)
  simp only [utoa_16, e1, e2, utoaSSE_spec (val / 100000000) (by omega),
    utoaSSE_spec (val % 100000000) (by omega), kVec16xAsc0, List.map, packus_mod10,
    List.range, List.range.loop, List.cons_append, List.nil_append,
    List.getD_cons_zero, List.getD_cons_succ, digitsW]
  congr 1
  simp only [List.cons.injEq, and_true]
  refine ⟨?_, ?_, ?_, ?_, ?_, ?_, ?_, ?_, ?_, ?_, ?_, ?_, ?_, ?_, ?_, ?_⟩ <;> omega
/-! ## composition: `U64toa`, `I64toa` -/

theorem b2n_le (c : Bool) : b2n c ≤ 1 := by unfold b2n; split <;> omega

theorem compose (b : Buf) (out hi : Nat) (hhi : hi < 100000000) (hpos : 0 < hi)
    (buf2 : Buf) (k lo : Nat) (hlo : lo < 10 ^ k)
    (hframe : ∀ j, j < (utoa_1_8 b out hi).out → buf2 j = (utoa_1_8 b out hi).buf j)
    (hs : slice buf2 (utoa_1_8 b out hi).out ((utoa_1_8 b out hi).out + k) = digitsW k lo) :
    slice buf2 out ((utoa_1_8 b out hi).out + k) = decimal (hi * 10 ^ k + lo) := by
  obtain ⟨s1, s2, s3, s4, s5⟩ := utoa_1_8_spec b out hi hhi
  rw [decimal_split k hi lo hpos hlo,
    slice_append buf2 out (utoa_1_8 b out hi).out _ (by omega) (by omega), hs,
    slice_congr buf2 (utoa_1_8 b out hi).buf out _ (fun j _ h2 => hframe j h2), s1]

theorem utoa_8_slice (b : Buf) (out val : Nat) (h : val < 100000000) :
    slice (utoa_8 b out val).buf out (out + 8) = digitsW 8 val := by
  rw [utoa_8_buf b out val h, slice_wrList _ _ _ 8 (by simp [digitsW_length]),
    List.take_left' (digitsW_length 8 val)]

theorem utoa_8_frame (b : Buf) (out val : Nat) (h : val < 100000000) (j : Nat)
    (hj : j < out ∨ out + 16 ≤ j) : (utoa_8 b out val).buf j = b j := by
  rw [utoa_8_buf b out val h, wrList_frame _ _ _ _ (by simpa [digitsW_length] using hj)]

theorem utoa_16_slice (b : Buf) (out val : Nat) (h : val < 10000000000000000) :
    slice (utoa_16 b out val).buf out (out + 16) = digitsW 16 val := by
  have := slice_wrList b out (digitsW 16 val) 16 (by simp [digitsW_length])
  rw [utoa_16_buf b out val h, this, List.take_of_length_le (by simp [digitsW_length])]

theorem utoa_16_frame (b : Buf) (out val : Nat) (h : val < 10000000000000000) (j : Nat)
    (hj : j < out ∨ out + 16 ≤ j) : (utoa_16 b out val).buf j = b j := by
  rw [utoa_16_buf b out val h, wrList_frame _ _ _ _ (by simpa [digitsW_length] using hj)]

/-- full contract of `U64toa` -/
def SpecU64 (b : Buf) (out v : Nat) : Prop :=
  slice (u64toa b out v).buf out (u64toa b out v).out = decimal v ∧
  out < (u64toa b out v).out ∧
  (u64toa b out v).out ≤ (u64toa b out v).ext ∧
  (u64toa b out v).ext ≤ out + 24 ∧
  ∀ j, j < out ∨ (u64toa b out v).ext ≤ j → (u64toa b out v).buf j = b j

theorem u64toa_small (b : Buf) (out v : Nat) (h : v < 100000000) : SpecU64 b out v := by
  have e : v % 2 ^ 32 = v := Nat.mod_eq_of_lt (by omega)
  have e2 : u64toa b out v = utoa_1_8 b out v := by simp only [u64toa, if_pos h, e]
  obtain ⟨s1, s2, s3, s4, s5⟩ := utoa_1_8_spec b out v h
  unfold SpecU64; rw [e2]
  exact ⟨s1, s2, s3, by omega, s5⟩

theorem u64toa_mid (b : Buf) (out v : Nat) (h1 : 100000000 ≤ v) (h2 : v < 10000000000000000) :
    SpecU64 b out v := by
  have e1 : v / 100000000 % 2 ^ 32 = v / 100000000 := Nat.mod_eq_of_lt (by omega)
  have e2 : v % 100000000 % 2 ^ 32 = v % 100000000 := Nat.mod_eq_of_lt (by omega)
  have hhi : v / 100000000 < 100000000 := by omega
  have hlo : v % 100000000 < 100000000 := by omega
  have ev : v = v / 100000000 * 10 ^ 8 + v % 100000000 := by omega
  obtain ⟨s1, s2, s3, s4, s5⟩ := utoa_1_8_spec b out (v / 100000000) hhi
  unfold SpecU64
  simp only [u64toa, if_neg (show ¬ v < 100000000 by omega), if_pos h2, e1, e2]
  refine ⟨?_, ?_, ?_, ?_, ?_⟩
  · show slice (utoa_8 _ _ _).buf out ((utoa_1_8 b out (v / 100000000)).out + 8) = _
    have := compose b out (v / 100000000) hhi (by omega) _ 8 (v % 100000000) (by omega)
      (fun j hj => utoa_8_frame _ _ _ hlo j (Or.inl hj)) (utoa_8_slice _ _ _ hlo)
    rw [← ev] at this
    exact this
  · show out < (utoa_1_8 b out (v / 100000000)).out + 8
    omega
  · show (utoa_1_8 b out (v / 100000000)).out + 8 ≤ max _ ((utoa_1_8 b out (v / 100000000)).out + 16)
    omega
  · show max _ ((utoa_1_8 b out (v / 100000000)).out + 16) ≤ _
    omega
  · intro j hj
    have hj' : j < out ∨ max (utoa_1_8 b out (v / 100000000)).ext
      ((utoa_1_8 b out (v / 100000000)).out + 16) ≤ j := hj
    show (utoa_8 _ _ _).buf j = b j
    rw [utoa_8_frame _ _ _ hlo j (by omega), s5 j (by omega)]

theorem u64toa_17_20_eq (b : Buf) (out v : Nat) (hhi : v / 10000000000000000 < 10000) :
    u64toa_17_20 b out v =
      { utoa_16 (utoa_1_8 b out (v / 10000000000000000)).buf
          (utoa_1_8 b out (v / 10000000000000000)).out (v % 10000000000000000) with
        ext := max ((utoa_1_8 b out (v / 10000000000000000)).out + 16) (out + 2) } := by
  have e : v / 10000000000000000 % 2 ^ 32 = v / 10000000000000000 := Nat.mod_eq_of_lt (by omega)
  unfold u64toa_17_20
  simp only [e]
  by_cases c : v / 10000000000000000 < 100
  · simp only [if_pos c, utoa_1_8, utoa_16]
  · simp only [if_neg c, if_pos hhi, utoa_1_8, utoa_16]
    have hb := b2n_le (decide (v / 10000000000000000 / 100 < 10))
    congr 1
    omega

theorem u64toa_big (b : Buf) (out v : Nat) (h1 : 10000000000000000 ≤ v) (h2 : v < 2 ^ 64) :
    SpecU64 b out v := by
  have hhi : v / 10000000000000000 < 10000 := by omega
  have hhi' : v / 10000000000000000 < 100000000 := by omega
  have hlo : v % 10000000000000000 < 10000000000000000 := by omega
  have ev : v = v / 10000000000000000 * 10 ^ 16 + v % 10000000000000000 := by omega
  have e2 : u64toa b out v = u64toa_17_20 b out v := by
    simp only [u64toa, if_neg (show ¬ v < 100000000 by omega),
      if_neg (show ¬ v < 10000000000000000 by omega)]
  rw [u64toa_17_20_eq b out v hhi] at e2
  obtain ⟨s1, s2, s3, s4, s5⟩ := utoa_1_8_spec b out (v / 10000000000000000) hhi'
  unfold SpecU64
  rw [e2]
  refine ⟨?_, ?_, ?_, ?_, ?_⟩
  · show slice (utoa_16 _ _ _).buf out ((utoa_1_8 b out (v / 10000000000000000)).out + 16) = _
    have := compose b out (v / 10000000000000000) hhi' (by omega) _ 16 (v % 10000000000000000)
      (by omega) (fun j hj => utoa_16_frame _ _ _ hlo j (Or.inl hj)) (utoa_16_slice _ _ _ hlo)
    rw [← ev] at this
    exact this
  · show out < (utoa_1_8 b out (v / 10000000000000000)).out + 16
    omega
  · show (utoa_1_8 b out (v / 10000000000000000)).out + 16 ≤
      max ((utoa_1_8 b out (v / 10000000000000000)).out + 16) (out + 2)
    omega
  · show max ((utoa_1_8 b out (v / 10000000000000000)).out + 16) (out + 2) ≤ _
    omega
  · intro j hj
    have hj' : j < out ∨ max ((utoa_1_8 b out (v / 10000000000000000)).out + 16) (out + 2) ≤ j := hj
    show (utoa_16 _ _ _).buf j = b j
    rw [utoa_16_frame _ _ _ hlo j (by omega), s5 j (by omega)]

theorem u64toa_full (b : Buf) (out v : Nat) (h : v < 2 ^ 64) : SpecU64 b out v := by
  by_cases c1 : v < 100000000
  · exact u64toa_small b out v c1
  by_cases c2 : v < 10000000000000000
  · exact u64toa_mid b out v (by omega) c2
  · exact u64toa_big b out v (by omega) h

theorem u64toa_spec (b : Buf) (out v : Nat) (h : v < 2 ^ 64) :
    slice (u64toa b out v).buf out (u64toa b out v).out = decimal v := (u64toa_full b out v h).1

theorem u64toa_extent (b : Buf) (out v : Nat) (h : v < 2 ^ 64) :
    (u64toa b out v).ext ≤ out + 24 ∧ (u64toa b out v).out ≤ (u64toa b out v).ext ∧
    (∀ j, j < out ∨ (u64toa b out v).ext ≤ j → (u64toa b out v).buf j = b j) := by
  obtain ⟨_, _, s3, s4, s5⟩ := u64toa_full b out v h
  exact ⟨s4, s3, s5⟩

theorem slice_one (b : Buf) (i : Nat) : slice b i (i + 1) = [b i] := by
  simp [slice]

/-- full contract of `I64toa` -/
def SpecI64 (b : Buf) (out v : Nat) : Prop :=
  slice (i64toa b out v).buf out (i64toa b out v).out = decimalI64 v ∧
  (i64toa b out v).ext ≤ out + 25 ∧
  (i64toa b out v).out ≤ (i64toa b out v).ext ∧
  ∀ j, j < out ∨ (i64toa b out v).ext ≤ j → (i64toa b out v).buf j = b j

theorem i64toa_nonneg (b : Buf) (out v : Nat) (h : v < 2 ^ 63) : SpecI64 b out v := by
  have hn : ¬ v ≥ 2 ^ 63 := by omega
  obtain ⟨s1, s2, s3, s4, s5⟩ := u64toa_full (wr b out 45) out v (by omega)
  unfold SpecI64
  simp only [i64toa, decimalI64, if_neg hn, b2n_false _ hn, Nat.add_zero]
  refine ⟨s1, ?_, ?_, ?_⟩
  · show max _ (out + 1) ≤ _
    omega
  · show _ ≤ max _ (out + 1)
    omega
  · intro j hj
    have hj' : j < out ∨ max (u64toa (wr b out 45) out v).ext (out + 1) ≤ j := hj
    show (u64toa (wr b out 45) out v).buf j = b j
    rw [s5 j (by omega), wr_apply, if_neg (by omega)]

theorem i64toa_neg (b : Buf) (out v : Nat) (h0 : 2 ^ 63 ≤ v) (h : v < 2 ^ 64) : SpecI64 b out v := by
  have hn : v ≥ 2 ^ 63 := h0
  have em : (2 ^ 64 - v) % 2 ^ 64 = 2 ^ 64 - v := Nat.mod_eq_of_lt (by omega)
  obtain ⟨s1, s2, s3, s4, s5⟩ := u64toa_full (wr b out 45) (out + 1) (2 ^ 64 - v) (by omega)
  unfold SpecI64
  simp only [i64toa, decimalI64, if_pos hn, b2n_true _ hn, em]
  refine ⟨?_, ?_, ?_, ?_⟩
  · show slice (u64toa (wr b out 45) (out + 1) (2 ^ 64 - v)).buf out
      (u64toa (wr b out 45) (out + 1) (2 ^ 64 - v)).out = _
    rw [slice_append _ out (out + 1) _ (by omega) (by omega), s1, slice_one,
      s5 out (by omega), wr_apply, if_pos rfl]
    rfl
  · show max _ (out + 1) ≤ _
    omega
  · show _ ≤ max _ (out + 1)
    omega
  · intro j hj
    have hj' : j < out ∨ max (u64toa (wr b out 45) (out + 1) (2 ^ 64 - v)).ext (out + 1) ≤ j := hj
    show (u64toa (wr b out 45) (out + 1) (2 ^ 64 - v)).buf j = b j
    rw [s5 j (by omega), wr_apply, if_neg (by omega)]

theorem i64toa_full (b : Buf) (out v : Nat) (h : v < 2 ^ 64) : SpecI64 b out v := by
  by_cases c : v < 2 ^ 63
  · exact i64toa_nonneg b out v c
  · exact i64toa_neg b out v (by omega) h

theorem i64toa_spec (b : Buf) (out bits : Nat) (h : bits < 2 ^ 64) :
    slice (i64toa b out bits).buf out (i64toa b out bits).out = decimalI64 bits :=
  (i64toa_full b out bits h).1

theorem i64toa_extent (b : Buf) (out bits : Nat) (h : bits < 2 ^ 64) :
    (i64toa b out bits).ext ≤ out + 25 ∧ (i64toa b out bits).out ≤ (i64toa b out bits).ext ∧
    (∀ j, j < out ∨ (i64toa b out bits).ext ≤ j → (i64toa b out bits).buf j = b j) :=
  (i64toa_full b out bits h).2


end Sonic.Proofs.Itoa
