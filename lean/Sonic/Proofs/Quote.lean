import Sonic.Model.Quote

/-!
# Helper lemmas for C09 (`Quote` / `DoEscape`)

The loops are verified against `Spec.escapeByte` with one invariant `Inv E L d pre dst nb`:
the destination holds `pre` on `[0, dst)`, `dst + 6·nb ≤ L` (room for the worst case of the `nb`
remaining bytes), the write extent is `≤ E` and `E ≤ cap`.  With `L = 6n+1` the stores of the algorithm
(`W` bytes by `CopyAndGetEscapMask`, 8 bytes by `DoEscape`, always issued while `nb ≥ 1`) end at most at
`max (L+2) (L+W-6)`, which is the tight extent bound `6n + max 3 (W-5)`.
-/

namespace Sonic.Proofs.Quote
open Sonic.Gen Sonic.Spec Sonic.Model.Quote

/-! ## facts about the spec and the generated tables -/

theorem needEsc_iff (b : Nat) : needEsc b = true ↔ (b < 0x20 ∨ b = 0x22 ∨ b = 0x5C) := by
  simp only [needEsc, Bool.or_eq_true, decide_eq_true_eq, beq_iff_eq]
  omega

theorem needEsc_lt {b : Nat} (h : needEsc b = true) : b < 256 := by
  rw [needEsc_iff] at h; omega

theorem escapeByte_plain {b : Nat} (h : needEsc b = false) : escapeByte b = [b] := by
  have h' : ¬ (b < 0x20 ∨ b = 0x22 ∨ b = 0x5C) := by
    rw [← needEsc_iff]; simp [h]
  unfold escapeByte
  repeat' split
  all_goals first | rfl | omega

theorem escapeByte_len_le (b : Nat) : (escapeByte b).length ≤ 6 := by
  unfold escapeByte
  repeat' split
  all_goals simp

theorem escapeByte_len_pos (b : Nat) : 1 ≤ (escapeByte b).length := by
  unfold escapeByte
  repeat' split
  all_goals simp

theorem flatMap_escape_len_le (l : List Nat) : (l.flatMap escapeByte).length ≤ 6 * l.length := by
  induction l with
  | nil => simp
  | cons a l ih =>
    have := escapeByte_len_le a
    simp only [List.flatMap_cons, List.length_append, List.length_cons]
    omega

theorem flatMap_escape_plain : ∀ (l : List Nat), (∀ b ∈ l, needEsc b = false) → l.flatMap escapeByte = l
  | [], _ => rfl
  | a :: l, h => by
    rw [List.flatMap_cons, escapeByte_plain (h a (by simp)),
      flatMap_escape_plain l (fun b hb => h b (by simp [hb]))]
    rfl

/-- `kNeedEscaped` is exactly the SIMD predicate -/
theorem tab_need : ∀ b, b < 256 → kNeedEscaped[b]? = some (if needEsc b then 1 else 0) := by
  decide +kernel

/-- the rows of `kQuoteTab` used by `DoEscape`: 8 readable bytes whose first `.n` are the JSON escape -/
def rowOk (b : Nat) : Bool :=
  match kQuoteTabS[b]?, kQuoteTabN[b]? with
  | some row, some nc => row.length == 8 && decide (1 ≤ nc) && decide (nc ≤ 6) && row.take nc == escapeByte b
  | _, _ => false

theorem tab_row : ∀ b, b < 256 → needEsc b = true → rowOk b = true := by
  decide +kernel

/-- rows of bytes that are never escaped are null pointers (`{0, 0}`) -/
theorem tab_null : ∀ b, b < 256 → needEsc b = false →
    kQuoteTabS[b]? = some [] ∧ kQuoteTabN[b]? = some 0 := by
  decide +kernel

theorem tab_row' {b : Nat} (h : needEsc b = true) :
    ∃ row nc, kQuoteTabS[b]? = some row ∧ kQuoteTabN[b]? = some nc ∧ row.length = 8 ∧ 1 ≤ nc ∧ nc ≤ 6 ∧
      row.take nc = escapeByte b := by
  have := tab_row b (needEsc_lt h) h
  unfold rowOk at this
  split at this
  · next row nc h1 h2 =>
    simp only [Bool.and_eq_true, beq_iff_eq, decide_eq_true_eq] at this
    exact ⟨row, nc, h1, h2, this.1.1.1, this.1.1.2, this.1.2, this.2⟩
  · exact absurd this (by simp)

/-! ## masks -/

theorem ctz_split : ∀ (v : List Nat), (v.map needEsc).any id = true →
    ∃ v1 c v2, v = v1 ++ c :: v2 ∧ ctz (v.map needEsc) = v1.length ∧
      (∀ b ∈ v1, needEsc b = false) ∧ needEsc c = true
  | [], h => by simp at h
  | a :: v, h => by
    cases ha : needEsc a with
    | true => exact ⟨[], a, v, rfl, by simp [ctz, ha], by simp, ha⟩
    | false =>
      have h' : (v.map needEsc).any id = true := by
        simpa [ha] using h
      obtain ⟨v1, c, v2, e, hc, hp, hs⟩ := ctz_split v h'
      refine ⟨a :: v1, c, v2, by simp [e], by simp [ctz, ha, hc], ?_, hs⟩
      intro b hb
      rcases List.mem_cons.mp hb with rfl | hb
      · exact ha
      · exact hp b hb

theorem mask_none {v : List Nat} (h : ¬ (v.map needEsc).any id = true) : ∀ b ∈ v, needEsc b = false := by
  intro b hb
  cases hn : needEsc b with
  | false => rfl
  | true =>
    exfalso; apply h
    simp only [List.any_map, List.any_eq_true]
    exact ⟨b, hb, by simpa using hn⟩

/-! ## source memory -/

/-- `m` holds the bytes `t` at `[p, p + t.length)` -/
def Reads (m : Mem) (p : Nat) (t : List Nat) : Prop := ∀ i (h : i < t.length), m (p + i) = some t[i]

/-- every element is a byte -/
def Bytes (t : List Nat) : Prop := ∀ b ∈ t, b < 256

theorem Reads.append_right {m : Mem} {p : Nat} {t1 t2 : List Nat} (h : Reads m p (t1 ++ t2)) :
    Reads m (p + t1.length) t2 := by
  intro i hi
  have := h (t1.length + i) (by simp; omega)
  rw [Nat.add_assoc, this]
  simp

theorem Reads.head {m : Mem} {p c : Nat} {t : List Nat} (h : Reads m p (c :: t)) : m p = some c := by
  have := h 0 (by simp)
  simpa using this

theorem Bytes.append_right {t1 t2 : List Nat} (h : Bytes (t1 ++ t2)) : Bytes t2 :=
  fun b hb => h b (by simp [hb])

theorem loadByte_ok {m : Mem} {p b : Nat} (h : m p = some b) : loadByte m p = .ok b := by
  simp [loadByte, h]

theorem loadVec_ok {m : Mem} : ∀ (w p : Nat), (∀ i, i < w → (m (p + i)).isSome = true) →
    ∃ v, loadVec m p w = .ok v ∧ v.length = w ∧ ∀ i (h : i < v.length), m (p + i) = some v[i]
  | 0, p, _ => ⟨[], rfl, rfl, by simp⟩
  | w + 1, p, h => by
    have h0 := h 0 (by omega)
    obtain ⟨b, hb⟩ := Option.isSome_iff_exists.mp h0
    rw [Nat.add_zero] at hb
    obtain ⟨r, hr, hl, hg⟩ := loadVec_ok w (p + 1) (fun i hi => by
      have := h (i + 1) (by omega)
      rwa [show p + 1 + i = p + (i + 1) by omega])
    refine ⟨b :: r, by simp [loadVec, loadByte_ok hb, hr], by simp [hl], ?_⟩
    intro i hi
    cases i with
    | zero => simpa using hb
    | succ i =>
      have := hg i (by simpa using hi)
      rw [show p + (i + 1) = p + 1 + i by omega, this]
      simp

/-- a load that lies inside the string returns that part of the string -/
theorem loadVec_take {m : Mem} {p w : Nat} {t : List Nat} (h : Reads m p t) (hw : w ≤ t.length) :
    loadVec m p w = .ok (t.take w) := by
  obtain ⟨v, hv, hl, hg⟩ := loadVec_ok (m := m) w p (fun i hi => by rw [h i (by omega)]; rfl)
  rw [hv]
  congr 1
  apply List.ext_getElem
  · simp [hl]; omega
  · intro i h1 h2
    have a := hg i h1
    rw [h i (by omega)] at a
    simp only [List.getElem_take]
    exact (Option.some.inj a).symm

/-- a load that covers the (short) string and otherwise readable bytes starts with the string -/
theorem loadVec_cover {m : Mem} {p w : Nat} {t : List Nat} (h : Reads m p t) (hw : t.length ≤ w)
    (hm : ∀ i, i < w → (m (p + i)).isSome = true) :
    ∃ v, loadVec m p w = .ok v ∧ v.length = w ∧ v.take t.length = t := by
  obtain ⟨v, hv, hl, hg⟩ := loadVec_ok (m := m) w p hm
  refine ⟨v, hv, hl, ?_⟩
  apply List.ext_getElem
  · simp [hl]; omega
  · intro i h1 h2
    have a := hg i (by omega)
    rw [h i h2] at a
    simp only [List.getElem_take]
    exact (Option.some.inj a).symm

/-! ## destination -/

/-- loop invariant, see the header -/
structure Inv (E L : Nat) (d : Dst) (pre : List Nat) (dst nb : Nat) : Prop where
  len : dst = pre.length
  pre : ∀ i (h : i < pre.length), d.buf i = pre[i]
  room : dst + 6 * nb ≤ L
  ext : d.ext ≤ E
  cap : E ≤ d.cap

theorem store_ok {d : Dst} {i : Nat} {bs : List Nat} (hc : i + bs.length ≤ d.cap) :
    store d i bs = .ok ⟨fun j => if j < i then d.buf j else
                            match bs[j - i]? with
                            | some x => x
                            | none => d.buf j, d.cap, max d.ext (i + bs.length)⟩ := by
  unfold store; rw [if_pos hc]; rfl

/-- store `bs` at `dst`, then advance `dst` by `k ≤ bs.length` -/
theorem store_inv {E L : Nat} {d : Dst} {pre bs : List Nat} {dst nb nb' k : Nat}
    (h : Inv E L d pre dst nb) (hfit : dst + bs.length ≤ E) (hk : k ≤ bs.length)
    (hroom : dst + k + 6 * nb' ≤ L) :
    ∃ d', store d dst bs = .ok d' ∧ Inv E L d' (pre ++ bs.take k) (dst + k) nb' := by
  have hc : dst + bs.length ≤ d.cap := Nat.le_trans hfit h.cap
  have hl := h.len
  refine ⟨_, store_ok hc, ?_⟩
  refine ⟨by simp [h.len]; omega, ?_, hroom, ?_, h.cap⟩
  · intro i hi
    simp only [List.length_append, List.length_take] at hi
    by_cases hlt : i < dst
    · have : i < pre.length := h.len ▸ hlt
      simp only [hlt, if_true]
      rw [List.getElem_append_left this]
      exact h.pre i this
    · have h1 : i - dst < bs.length := by omega
      have h2 : pre.length ≤ i := by rw [← h.len]; omega
      simp only [hlt, if_false, List.getElem?_eq_getElem h1]
      rw [List.getElem_append_right h2]
      simp only [List.getElem_take, h.len]
  · have := h.ext
    simp only [Nat.max_le]
    omega

theorem Inv.weaken {E L : Nat} {d : Dst} {pre : List Nat} {dst nb nb' : Nat}
    (h : Inv E L d pre dst nb) (hn : nb' ≤ nb) : Inv E L d pre dst nb' :=
  ⟨h.len, h.pre, by have := h.room; omega, h.ext, h.cap⟩

/-! ## `DoEscape` -/

theorem doEscape_ok {E L : Nat} {m : Mem} (hL : L + 2 ≤ E) :
    ∀ (t2 : List Nat) (c : Nat) (pre : List Nat) (d : Dst) (p dst : Nat),
      needEsc c = true → Bytes (c :: t2) → Reads m p (c :: t2) → Inv E L d pre dst (t2.length + 1) →
      ∃ d' t1 t3 dst', c :: t2 = t1 ++ t3 ∧ 1 ≤ t1.length ∧
        doEscape m (t2.length + 1) d p dst = .ok (d', p + t1.length, dst', t3.length) ∧
        Inv E L d' (pre ++ t1.flatMap escapeByte) dst' t3.length := by
  intro t2
  induction t2 with
  | nil =>
    intro c pre d p dst hc _ hr hi
    obtain ⟨row, nc, hrow, hnc, hlen, hnc1, hnc6, htake⟩ := tab_row' hc
    have hroom := hi.room
    obtain ⟨d1, hst, hi1⟩ := store_inv (bs := row) (k := nc) (nb' := 0) hi (by omega) (by omega) (by omega)
    refine ⟨d1, [c], [], dst + nc, rfl, by simp, ?_, ?_⟩
    · have he : row.isEmpty = false := by
        cases row with
        | nil => simp at hlen
        | cons _ _ => rfl
      rw [doEscape]
      simp [loadByte_ok hr.head, hrow, hnc, he, hst]
    · simpa [htake] using hi1
  | cons c2 t2 ih =>
    intro c pre d p dst hc hb hr hi
    obtain ⟨row, nc, hrow, hnc, hlen, hnc1, hnc6, htake⟩ := tab_row' hc
    have hroom := hi.room
    simp only [List.length_cons] at hroom
    obtain ⟨d1, hst, hi1⟩ := store_inv (bs := row) (k := nc) (nb' := t2.length + 1) hi
      (by omega) (by omega) (by omega)
    rw [htake] at hi1
    have he : row.isEmpty = false := by
      cases row with
      | nil => simp at hlen
      | cons _ _ => rfl
    have hr2 : Reads m (p + 1) (c2 :: t2) := Reads.append_right (t1 := [c]) hr
    have hb2 : Bytes (c2 :: t2) := Bytes.append_right (t1 := [c]) hb
    have hc2 : c2 < 256 := hb2 c2 (by simp)
    have hneed := tab_need c2 hc2
    cases hn : needEsc c2 with
    | false =>
      refine ⟨d1, [c], c2 :: t2, dst + nc, rfl, by simp, ?_, ?_⟩
      · simp only [List.length_cons]
        rw [doEscape]
        simp [loadByte_ok hr.head, hrow, hnc, he, hst, loadByte_ok hr2.head, hneed, hn]
      · simpa using hi1
    | true =>
      obtain ⟨d2, t1, t3, dst', e, h1, hrun, hi2⟩ :=
        ih c2 (pre ++ escapeByte c) d1 (p + 1) (dst + nc) hn hb2 hr2 hi1
      refine ⟨d2, c :: t1, t3, dst', by simp [e], by simp, ?_, ?_⟩
      · simp only [List.length_cons] at hrun ⊢
        rw [doEscape]
        simp [loadByte_ok hr.head, hrow, hnc, he, hst, loadByte_ok hr2.head, hneed, hn, hrun]
        omega
      · simpa [List.flatMap_cons, List.append_assoc] using hi2

/-! ## the loops -/

theorem copyMask_eq {W : Nat} {m : Mem} {src dst : Nat} {d d' : Dst} {v : List Nat}
    (hv : loadVec m src W = .ok v) (hs : store d dst v = .ok d') :
    copyAndGetEscapMask W m src d dst = .ok (d', v.map needEsc) := by
  simp [copyAndGetEscapMask, hv, hs]

theorem mainLoop_ok {E L W : Nat} {m : Mem} (hW : 0 < W) (hL : L + 2 ≤ E) (hLW : L + W ≤ E + 6) :
    ∀ (fuel : Nat) (t pre : List Nat) (d : Dst) (p dst : Nat),
      t.length < fuel → Bytes t → Reads m p t → Inv E L d pre dst t.length →
      ∃ d' t1 t3 dst', t = t1 ++ t3 ∧ t3.length < W ∧
        mainLoop W m fuel d p dst t.length = .ok (d', p + t1.length, dst', t3.length) ∧
        Inv E L d' (pre ++ t1.flatMap escapeByte) dst' t3.length := by
  intro fuel
  induction fuel with
  | zero => intro t _ _ _ _ h; omega
  | succ fuel ih =>
    intro t pre d p dst hf hb hr hi
    by_cases hle : W ≤ t.length
    · -- one more block
      obtain ⟨v, r, ht, hvl⟩ : ∃ v r, t = v ++ r ∧ v.length = W :=
        ⟨t.take W, t.drop W, (List.take_append_drop W t).symm, by simp; omega⟩
      have hv : loadVec m p W = .ok v := by
        have := loadVec_take hr hle
        rwa [ht, List.take_left' hvl] at this
      have hroom := hi.room
      by_cases hany : (v.map needEsc).any id = true
      · obtain ⟨v1, c, v2, hvE, hctz, hplain, hspec⟩ := ctz_split v hany
        have hlen : t.length = v1.length + ((v2 ++ r).length + 1) := by
          rw [ht, hvE]; simp only [List.length_append, List.length_cons]; omega
        have hlv : v.length = v1.length + v2.length + 1 := by rw [hvE]; simp; omega
        have htE : t = v1 ++ c :: (v2 ++ r) := by rw [ht, hvE]; simp
        obtain ⟨d1, hst, hi1⟩ := store_inv (bs := v) (k := v1.length) (nb' := (v2 ++ r).length + 1) hi
          (by omega) (by omega) (by omega)
        have htk : v.take v1.length = v1 := by rw [hvE]; exact List.take_left' rfl
        rw [htk] at hi1
        have hr1 : Reads m (p + v1.length) (c :: (v2 ++ r)) := Reads.append_right (htE ▸ hr)
        have hb1 : Bytes (c :: (v2 ++ r)) := Bytes.append_right (t1 := v1) (htE ▸ hb)
        obtain ⟨d2, u1, u3, dst2, hu, hu1, hrun2, hi2⟩ :=
          doEscape_ok hL (v2 ++ r) c (pre ++ v1) d1 (p + v1.length) (dst + v1.length) hspec hb1 hr1 hi1
        have hlu : (v2 ++ r).length + 1 = u1.length + u3.length := by
          have := congrArg List.length hu
          simpa using this
        have hr2 : Reads m (p + v1.length + u1.length) u3 := Reads.append_right (hu ▸ hr1)
        have hb2 : Bytes u3 := Bytes.append_right (t1 := u1) (hu ▸ hb1)
        obtain ⟨d3, w1, w3, dst3, hw, hw3, hrun3, hi3⟩ :=
          ih u3 (pre ++ v1 ++ u1.flatMap escapeByte) d2 (p + v1.length + u1.length) dst2
            (by omega) hb2 hr2 hi2
        refine ⟨d3, v1 ++ u1 ++ w1, w3, dst3, ?_, hw3, ?_, ?_⟩
        · rw [htE, hu, hw]; simp
        · have hnb : t.length - v1.length = (v2 ++ r).length + 1 := by omega
          rw [mainLoop, if_pos hle, copyMask_eq hv hst]
          simp only [hany, if_true, hctz, hnb, hrun2, hrun3]
          simp [Nat.add_assoc]
        · simpa [List.flatMap_append, List.append_assoc, flatMap_escape_plain v1 hplain] using hi3
      · -- no special byte in the block
        have hplain := mask_none hany
        have hlen : t.length = W + r.length := by rw [ht]; simp [hvl]
        obtain ⟨d1, hst, hi1⟩ := store_inv (bs := v) (k := W) (nb' := r.length) hi
          (by omega) (by omega) (by omega)
        have htk : v.take W = v := by rw [← hvl]; exact List.take_length
        rw [htk] at hi1
        have hr1 : Reads m (p + W) r := hvl ▸ Reads.append_right (ht ▸ hr)
        have hb1 : Bytes r := Bytes.append_right (t1 := v) (ht ▸ hb)
        obtain ⟨d3, w1, w3, dst3, hw, hw3, hrun3, hi3⟩ :=
          ih r (pre ++ v) d1 (p + W) (dst + W) (by omega) hb1 hr1 hi1
        refine ⟨d3, v ++ w1, w3, dst3, by rw [ht, hw]; simp, hw3, ?_, ?_⟩
        · have hnb : t.length - W = r.length := by omega
          rw [mainLoop, if_pos hle, copyMask_eq hv hst]
          simp only [hany, hnb, hrun3]
          simp [hvl, Nat.add_assoc]
        · simpa [List.flatMap_append, flatMap_escape_plain v hplain] using hi3
    · refine ⟨d, [], t, dst, rfl, by omega, ?_, by simpa using hi⟩
      rw [mainLoop, if_neg hle]; rfl

theorem take_prefix {v t v1 rest : List Nat} (h : v.take t.length = t) (ht : t = v1 ++ rest) :
    v.take v1.length = v1 := by
  have h2 : (v.take t.length).take v1.length = v1 := by rw [h, ht]; exact List.take_left' rfl
  rw [List.take_take] at h2
  have : min v1.length t.length = v1.length := by rw [ht]; simp
  rwa [this] at h2

theorem tailLoop_ok {E L W : Nat} {m : Mem} (hL : L + 2 ≤ E) (hLW : L + W ≤ E + 6) :
    ∀ (fuel : Nat) (t pre : List Nat) (d : Dst) (p dst : Nat),
      t.length < fuel → t.length ≤ W → Bytes t → Reads m p t →
      (∀ i, i < t.length + W - 1 → (m (p + i)).isSome = true) → Inv E L d pre dst t.length →
      ∃ d' dst', tailLoop W m fuel d p dst t.length = .ok (d', dst') ∧
        Inv E L d' (pre ++ t.flatMap escapeByte) dst' 0 := by
  intro fuel
  induction fuel with
  | zero => intro t _ _ _ _ h; omega
  | succ fuel ih =>
    intro t pre d p dst hf htW hb hr hm hi
    by_cases hpos : 0 < t.length
    · obtain ⟨v, hv, hvl, hvt⟩ := loadVec_cover hr htW (fun i h => hm i (by omega))
      have hmask : (v.map needEsc).take t.length = t.map needEsc := by rw [← List.map_take, hvt]
      have hroom := hi.room
      by_cases hany : (t.map needEsc).any id = true
      · obtain ⟨v1, c, v2, htE, hctz, hplain, hspec⟩ := ctz_split t hany
        have hlen : t.length = v1.length + (v2.length + 1) := by
          rw [htE]; simp only [List.length_append, List.length_cons]
        obtain ⟨d1, hst, hi1⟩ := store_inv (bs := v) (k := v1.length) (nb' := v2.length + 1) hi
          (by omega) (by omega) (by omega)
        rw [take_prefix hvt htE] at hi1
        have hr1 : Reads m (p + v1.length) (c :: v2) := Reads.append_right (htE ▸ hr)
        have hb1 : Bytes (c :: v2) := Bytes.append_right (t1 := v1) (htE ▸ hb)
        obtain ⟨d2, u1, u3, dst2, hu, hu1, hrun2, hi2⟩ :=
          doEscape_ok hL v2 c (pre ++ v1) d1 (p + v1.length) (dst + v1.length) hspec hb1 hr1 hi1
        have hlu : v2.length + 1 = u1.length + u3.length := by
          have := congrArg List.length hu
          simpa using this
        have hr2 : Reads m (p + v1.length + u1.length) u3 := Reads.append_right (hu ▸ hr1)
        have hb2 : Bytes u3 := Bytes.append_right (t1 := u1) (hu ▸ hb1)
        obtain ⟨d3, dst3, hrun3, hi3⟩ :=
          ih u3 (pre ++ v1 ++ u1.flatMap escapeByte) d2 (p + v1.length + u1.length) dst2
            (by omega) (by omega) hb2 hr2
            (fun i h => by
              have := hm (v1.length + u1.length + i) (by omega)
              rwa [show p + v1.length + u1.length + i = p + (v1.length + u1.length + i) by omega])
            hi2
        refine ⟨d3, dst3, ?_, ?_⟩
        · have hnb : t.length - v1.length = v2.length + 1 := by omega
          rw [tailLoop, if_pos hpos, copyMask_eq hv hst]
          simp only [hmask, hany, if_true, hctz, hnb, hrun2, hrun3]
        · have hfl : t.flatMap escapeByte = v1 ++ u1.flatMap escapeByte ++ u3.flatMap escapeByte := by
            rw [htE, hu, List.flatMap_append, List.flatMap_append, flatMap_escape_plain v1 hplain,
              List.append_assoc]
          rw [hfl]
          simpa [List.append_assoc] using hi3
      · have hplain := mask_none hany
        obtain ⟨d1, hst, hi1⟩ := store_inv (bs := v) (k := t.length) (nb' := 0) hi
          (by omega) (by omega) (by omega)
        rw [hvt] at hi1
        obtain ⟨d3, dst3, hrun3, hi3⟩ :=
          ih [] (pre ++ t) d1 p (dst + t.length) (by simp; omega) (by simp) (by intro b hb; simp at hb)
            (by intro i h; simp at h) (fun i h => hm i (by simp at h; omega)) hi1
        refine ⟨d3, dst3, ?_, ?_⟩
        · rw [tailLoop, if_pos hpos, copyMask_eq hv hst]
          simp only [hmask, hany]
          simpa using hrun3
        · simpa [flatMap_escape_plain t hplain] using hi3
    · have ht : t = [] := by
        cases t with
        | nil => rfl
        | cons _ _ => simp at hpos
      subst ht
      refine ⟨d, dst, ?_, by simpa using hi⟩
      rw [tailLoop, if_neg hpos]

/-! ## `Quote` -/

theorem tmpMem_reads (W : Nat) (t : List Nat) (junk : Nat → Nat) (h : t.length ≤ 2 * W) :
    Reads (tmpMem W t junk) 0 t := by
  intro i hi
  have : i < 2 * W := by omega
  simp only [tmpMem, Nat.zero_add, this, if_true, List.getElem?_eq_getElem hi]

theorem tmpMem_mapped (W : Nat) (t : List Nat) (junk : Nat → Nat) (i : Nat) (h : i < 2 * W) :
    (tmpMem W t junk (0 + i)).isSome = true := by
  simp only [tmpMem, Nat.zero_add, h, if_true]
  cases t[i]? <;> rfl

/-- The memory hypothesis of C09: every page that contains a byte of the string is mapped
(nothing is assumed about any other page). -/
def PagesMapped (m : Mem) (addr n : Nat) : Prop :=
  ∀ i, i < n → ∀ q, q / pageSize = (addr + i) / pageSize → (m q).isSome = true

theorem quote_ok {W : Nat} (hW : 0 < W) (hW2 : 2 * W ≤ pageSize) (san : Bool) (m : Mem) (junk : Nat → Nat)
    (addr : Nat) (s : List Nat) (d0 : Dst) (hb : Bytes s) (hr : Reads m addr s)
    (hp : PagesMapped m addr s.length)
    (E : Nat) (hE3 : 6 * s.length + 3 ≤ E) (hEW : 6 * s.length + W ≤ E + 5)
    (hcap : E ≤ d0.cap) (hext : d0.ext ≤ E) :
    ∃ d', quote W san m junk addr s.length d0 = .ok (d', (Spec.quote s).length) ∧
      (∀ i (h : i < (Spec.quote s).length), d'.buf i = (Spec.quote s)[i]) ∧ d'.ext ≤ E := by
  have hL : (6 * s.length + 1) + 2 ≤ E := by omega
  have hLW : (6 * s.length + 1) + W ≤ E + 6 := by omega
  have hi0 : Inv E (6 * s.length + 1) d0 [] 0 s.length :=
    ⟨rfl, by intro i h; simp at h, by omega, hext, hcap⟩
  obtain ⟨d1, hst1, hi1⟩ := store_inv (bs := [34]) (k := 1) (nb' := s.length) hi0
    (by simp; omega) (by simp) (by omega)
  simp only [List.nil_append, List.take_succ_cons, List.take_zero, Nat.zero_add] at hi1
  obtain ⟨d2, t1, t3, dst2, hs, ht3, hrun2, hi2⟩ :=
    mainLoop_ok hW hL hLW (s.length + 1) s [34] d1 addr 1 (by omega) hb hr hi1
  have hr3 : Reads m (addr + t1.length) t3 := Reads.append_right (hs ▸ hr)
  have hb3 : Bytes t3 := Bytes.append_right (t1 := t1) (hs ▸ hb)
  -- the tail
  have htail : ∃ d3 dst3,
      tailPart W san m junk d2 (addr + t1.length) dst2 t3.length = Except.ok (d3, dst3) ∧
      Inv E (6 * s.length + 1) d3 ([34] ++ t1.flatMap escapeByte ++ t3.flatMap escapeByte) dst3 0 := by
    unfold tailPart
    by_cases hpos : 0 < t3.length
    · rw [if_pos hpos]
      by_cases hc : (!san && decide ((addr + t1.length) % pageSize ≤ pageSize - 2 * W)) = true
      · rw [if_pos hc]
        have hc' : (addr + t1.length) % pageSize ≤ pageSize - 2 * W := by
          simp only [Bool.and_eq_true, decide_eq_true_eq] at hc
          exact hc.2
        have hlt : t1.length < s.length := by rw [hs]; simp; omega
        refine tailLoop_ok hL hLW (t3.length + 1) t3 _ d2 (addr + t1.length) dst2 (by omega) (by omega)
          hb3 hr3 ?_ hi2
        intro i hi
        apply hp t1.length hlt
        unfold pageSize at *
        omega
      · rw [if_neg hc]
        have hld : loadVec m (addr + t1.length) t3.length = .ok t3 := by
          have := loadVec_take hr3 (Nat.le_refl _)
          rwa [List.take_length] at this
        rw [hld]
        exact tailLoop_ok hL hLW (t3.length + 1) t3 _ d2 0 dst2 (by omega) (by omega) hb3
          (tmpMem_reads W t3 junk (by omega))
          (fun i hi => tmpMem_mapped W t3 junk i (by omega)) hi2
    · have : t3 = [] := by
        cases t3 with
        | nil => rfl
        | cons _ _ => simp at hpos
      subst this
      rw [if_neg hpos]
      exact ⟨d2, dst2, rfl, by simpa using hi2⟩
  obtain ⟨d3, dst3, hrun3, hi3⟩ := htail
  -- closing quote
  have hi3' : Inv E (6 * s.length + 2) d3 ([34] ++ t1.flatMap escapeByte ++ t3.flatMap escapeByte) dst3 0 :=
    ⟨hi3.len, hi3.pre, by have := hi3.room; omega, hi3.ext, hi3.cap⟩
  have hroom3 := hi3.room
  obtain ⟨d4, hst4, hi4⟩ := store_inv (bs := [34]) (k := 1) (nb' := 0) hi3'
    (by simp; omega) (by simp) (by omega)
  have hq : [34] ++ t1.flatMap escapeByte ++ t3.flatMap escapeByte ++ List.take 1 [34] = Spec.quote s := by
    rw [hs]; simp [Spec.quote, List.flatMap_append]
  rw [hq] at hi4
  refine ⟨d4, ?_, hi4.pre, hi4.ext⟩
  unfold Model.Quote.quote
  rw [hst1]
  simp only [hrun2, hrun3, hst4]
  rw [hi4.len]

/-- `run` returns exactly `Spec.quote s`, and its write extent is at most `E` for every `E` that bounds the
stores (`6n+3` for the 8-byte table store, `6n+W-5` for the vector store) and fits in the capacity. -/
theorem run_ok {W : Nat} (hW : 0 < W) (hW2 : 2 * W ≤ pageSize) (san : Bool) (m : Mem) (junk fill : Nat → Nat)
    (addr : Nat) (s : List Nat) (cap : Nat) (hb : Bytes s) (hr : Reads m addr s)
    (hp : PagesMapped m addr s.length)
    (E : Nat) (hE3 : 6 * s.length + 3 ≤ E) (hEW : 6 * s.length + W ≤ E + 5) (hcap : E ≤ cap) :
    ∃ ext, run W san addr m s.length cap junk fill = .ok (Spec.quote s, ext) ∧ ext ≤ E := by
  obtain ⟨d', hq, hpre, hext⟩ := quote_ok hW hW2 san m junk addr s ⟨fill, cap, 0⟩ hb hr hp E hE3 hEW
    hcap (Nat.zero_le _)
  refine ⟨d'.ext, ?_, hext⟩
  unfold run
  rw [hq]
  simp only
  congr 2
  apply List.ext_getElem
  · simp
  · intro i h1 h2
    simp only [List.getElem_map, List.getElem_range]
    exact hpre i h2

end Sonic.Proofs.Quote
