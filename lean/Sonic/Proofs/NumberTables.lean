import Sonic.Gen.Tables
import Sonic.Spec.Rne

/-!
# Helper definitions for C04: what the generated number tables must contain

All facts are decidable statements about the generated tables (`Sonic/Gen/Tables.lean`); they are proved in
`Props/C04.lean` by kernel evaluation (`decide +kernel`), so any change of a table entry in the C++ source breaks
the proof.
-/
namespace Sonic.Proofs.NumberTables

open Sonic.Gen

/-- `⌊log2 10^e⌋` as `AtofEiselLemire64` computes it: `(217706 * exp10) >> 16` (arithmetic shift) -/
def log2Pow10 (e : Int) : Int := (217706 * e) >>> 16

/-- `2^b ≤ 10^e < 2^(b+1)` for integers `e`, `b` of any sign (cross-multiplied) -/
def IsFloorLog2Pow10 (e b : Int) : Prop :=
  2 ^ b.toNat * 10 ^ (-e).toNat ≤ 10 ^ e.toNat * 2 ^ (-b).toNat ∧
  10 ^ e.toNat * 2 ^ (-(b + 1)).toNat < 2 ^ (b + 1).toNat * 10 ^ (-e).toNat

instance (e b : Int) : Decidable (IsFloorLog2Pow10 e b) := by unfold IsFloorLog2Pow10; infer_instance

/-- Row `i` of `kPow10M128Tab` holds `(lo, hi)` with `hi·2^64 + lo = ⌊10^e · 2^s⌋`, `e = i - 348`, where
    `s = 127 - ⌊log2 10^e⌋` is the unique shift that makes the value a 128-bit number with its top bit set.
    (`v·den ≤ num < (v+1)·den` with `num/den = 10^e·2^s`.) -/
def RowSpec (i : Nat) (lo hi : Nat) : Prop :=
  let v := hi * 2 ^ 64 + lo
  let e : Int := (i : Int) - 348
  let s : Int := 127 - log2Pow10 e
  let num := 10 ^ e.toNat * 2 ^ s.toNat
  let den := 10 ^ (-e).toNat * 2 ^ (-s).toNat
  lo < 2 ^ 64 ∧ 2 ^ 63 ≤ hi ∧ hi < 2 ^ 64 ∧ v * den ≤ num ∧ num < (v + 1) * den

instance (i lo hi : Nat) : Decidable (RowSpec i lo hi) := by unfold RowSpec; infer_instance

/-- decimal digits of `n`, most significant first (`[]` for 0) -/
def decDigits : Nat → Nat → List Nat
  | 0, _ => []
  | fuel + 1, n => if n = 0 then [] else decDigits fuel (n / 10) ++ [n % 10]

/-- Row `k ≥ 1` of `LSHIFT_TAB`: the cutoff string is `5^k` in decimal, and `delta` is the number of decimal digits
    of `2^k` (`10^(delta-1) < 2^k ≤ 10^delta`): multiplying an `n`-digit decimal by `2^k` gives `n + delta` digits,
    or `n + delta - 1` when its leading digits are below those of `5^k`. -/
def LshiftRowSpec (k : Nat) (delta : Nat) (cutoff : List Nat) : Prop :=
  cutoff = decDigits 100 (5 ^ k) ∧ 10 ^ (delta - 1) < 2 ^ k ∧ 2 ^ k ≤ 10 ^ delta ∧ 1 ≤ delta

instance (k d : Nat) (c : List Nat) : Decidable (LshiftRowSpec k d c) := by unfold LshiftRowSpec; infer_instance

end Sonic.Proofs.NumberTables
