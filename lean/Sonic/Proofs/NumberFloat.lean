import Sonic.Proofs.NumberRound
import Sonic.Model.Number

/-!
# Helper lemmas for C04: values of bit patterns, the hardware operations, and the exact fast path

`u b` is the value of the finite non-negative binary64 `b` in units of `2^-1074` (a natural number: every finite
double is a multiple of `2^-1074`).
-/
namespace Sonic.Proofs.Rne

open Sonic.Spec.Rne
open Sonic.Model.Number

/-- value of a finite non-negative double in units of `2^-1074` -/
def u (b : Nat) : Nat := (decodeF64 b).1 * 2 ^ ((decodeF64 b).2 + 1074).toNat

theorem decode_exp_ge (b : Nat) : -1074 ≤ (decodeF64 b).2 := by
  unfold decodeF64
  simp only
  split <;> simp <;> omega

/-- the bit pattern `t·2^52 + q'` produced by `roundRat` has the value `q'·2^t` -/
theorem u_closed (t q' : Nat) (hq : q' ≤ 2 ^ 53) (h0 : q' < 2 ^ 52 → t = 0)
    (hlim : t * 2 ^ 52 + q' < 2047 * 2 ^ 52) : u (t * 2 ^ 52 + q') = q' * 2 ^ t := by
  unfold u decodeF64
  simp only [Nat.reducePow, Nat.reduceMul] at *
  by_cases h1 : q' < 4503599627370496
  · have := h0 h1; subst this
    rw [Nat.zero_mul, Nat.zero_add]
    have e1 : q' / 4503599627370496 % 2048 = 0 := by omega
    have e2 : q' % 4503599627370496 = q' := by omega
    simp only [e1, if_true, e2]
    have e3 : ((-1074 : Int) + 1074).toNat = 0 := by decide
    rw [e3, Nat.pow_zero, Nat.mul_one]
  · by_cases h2 : q' < 9007199254740992
    · have e1 : (t * 4503599627370496 + q') / 4503599627370496 % 2048 = t + 1 := by omega
      have e2 : (t * 4503599627370496 + q') % 4503599627370496 = q' - 4503599627370496 := by omega
      simp only [e1, e2, Nat.add_one_ne_zero, if_false]
      have e3 : (((t + 1 : Nat) : Int) - 1075 + 1074).toNat = t := by omega
      have e4 : 4503599627370496 + (q' - 4503599627370496) = q' := by omega
      rw [e3, e4]
    · have hq' : q' = 9007199254740992 := by omega
      subst hq'
      have e1 : (t * 4503599627370496 + 9007199254740992) / 4503599627370496 % 2048 = t + 2 := by omega
      have e2 : (t * 4503599627370496 + 9007199254740992) % 4503599627370496 = 0 := by omega
      simp only [e1, e2, Nat.add_one_ne_zero, if_false, Nat.add_zero]
      have e3 : (((t + 2 : Nat) : Int) - 1075 + 1074).toNat = t + 1 := by omega
      rw [e3, Nat.pow_succ]; omega

/-- what `roundRat` returns, in terms of the value: `q'·2^t` with the data of `roundRat_closed` -/
theorem u_roundRat (num den : Nat) (hn : 0 < num) (hd : 0 < den) (b : Nat) (h : roundRat num den = some b) :
    let g := ulpOf (floorLog2Rat num den)
    let A := num * pL (1 - g)
    let B := den * pR (1 - g)
    u b = roundQ (A / B) (A % B != 0) * 2 ^ (g + 1074).toNat ∧ b < 2047 * 2 ^ 52 := by
  intro g A B
  obtain ⟨hc, hcase⟩ := roundRat_closed num den hn hd
  rw [hc] at h
  split at h
  · cases h
  · rename_i hlim
    simp only [Option.some.injEq] at h
    subst h
    refine ⟨u_closed _ _ ?_ ?_ (by omega), by omega⟩
    · rcases hcase with h | h <;> omega
    · intro hlt
      rcases hcase with h | h
      · show (ulpOf (floorLog2Rat num den) + 1074).toNat = 0
        omega
      · omega

theorem roundRat_lt (num den : Nat) (hn : 0 < num) (hd : 0 < den) (b : Nat) (h : roundRat num den = some b) :
    b < 2047 * 2 ^ 52 := (u_roundRat num den hn hd b h).2

/-- **a value on the grid is not changed by rounding** -/
theorem u_exact (num den : Nat) (hn : 0 < num) (hd : 0 < den) (b : Nat) (h : roundRat num den = some b)
    (hgrid : let g := ulpOf (floorLog2Rat num den)
             (num * pL (1 - g)) % (den * pR (1 - g)) = 0 ∧ (num * pL (1 - g)) / (den * pR (1 - g)) % 2 = 0) :
    u b * den = num * 2 ^ 1074 := by
  obtain ⟨hu, _⟩ := u_roundRat num den hn hd b h
  have hg := ulpOf_ge (floorLog2Rat num den)
  generalize ulpOf (floorLog2Rat num den) = g at *
  simp only at hgrid hu
  obtain ⟨h1, h2⟩ := hgrid
  generalize hA : num * pL (1 - g) = A at *
  generalize hB : den * pR (1 - g) = B at *
  have hq : roundQ (A / B) (A % B != 0) = A / B / 2 := by
    unfold roundQ; simp [h2]
  rw [hq] at hu
  have hAB : A = B * (2 * (A / B / 2)) := by
    have := Nat.div_add_mod A B
    have e2 : A / B = 2 * (A / B / 2) := by omega
    rw [← e2]; omega
  -- 2^(1-g) · 2^t = 2^1075
  have hid : pL (1 - g) * 2 ^ (g + 1074).toNat = pR (1 - g) * (2 ^ 1074 * 2) := by
    set_option exponentiation.threshold 1100 in
    rw [← Nat.pow_succ]
    unfold pL pR
    rw [← Nat.pow_add, ← Nat.pow_add]; congr 1; omega
  have hpos : 0 < pR (1 - g) := pR_pos _
  rw [hu]
  generalize A / B / 2 = q at *
  generalize (2 : Nat) ^ 1074 = P at *
  apply Nat.eq_of_mul_eq_mul_left (Nat.mul_pos hpos (by omega : 0 < 2))
  calc pR (1 - g) * 2 * (q * 2 ^ (g + 1074).toNat * den)
      = (den * pR (1 - g)) * (2 * q) * 2 ^ (g + 1074).toNat := by ac_rfl
    _ = A * 2 ^ (g + 1074).toNat := by rw [hB, ← hAB]
    _ = num * (pL (1 - g) * 2 ^ (g + 1074).toNat) := by rw [← hA]; ac_rfl
    _ = num * (pR (1 - g) * (P * 2)) := by rw [hid]
    _ = pR (1 - g) * 2 * (num * P) := by ac_rfl


/-! ## integers below `2^53` are exactly representable -/

theorem exp_lt_of_lt (N k : Nat) (hN : 0 < N) (h : N < 2 ^ k) : floorLog2Rat N 1 < (k : Int) := by
  obtain ⟨h1, _⟩ := floorLog2Rat_spec N 1 hN (by omega)
  apply Classical.byContradiction
  intro hge
  have := (le2_ofNat k N 1).1 (le2_mono (by omega) h1)
  omega

theorem exp_ge_of_le (N k : Nat) (hN : 0 < N) (h : 2 ^ k ≤ N) : (k : Int) ≤ floorLog2Rat N 1 := by
  obtain ⟨_, h2⟩ := floorLog2Rat_spec N 1 hN (by omega)
  apply Classical.byContradiction
  intro hlt
  have := (lt2_ofNat k N 1).1 (lt2_mono (by omega) h2)
  omega

theorem pR_of_pos (s : Int) (h : 0 ≤ s) : pR s = 1 := by
  unfold pR
  have : (-s).toNat = 0 := by omega
  rw [this]

theorem nat_exact (N : Nat) (hN : 0 < N) (h53 : N < 2 ^ 53) :
    ∃ b, roundRat N 1 = some b ∧ u b = N * 2 ^ 1074 ∧ b < 2047 * 2 ^ 52 := by
  have he := exp_lt_of_lt N 53 hN h53
  obtain ⟨hc, hcase⟩ := roundRat_closed N 1 hN (by omega)
  have hgle : ulpOf (floorLog2Rat N 1) ≤ 0 := by unfold ulpOf; split <;> omega
  have hgge := ulpOf_ge (floorLog2Rat N 1)
  -- no overflow
  have hlim : ¬ ((ulpOf (floorLog2Rat N 1) + 1074).toNat * 2 ^ 52 +
      roundQ (N * pL (1 - ulpOf (floorLog2Rat N 1)) / (1 * pR (1 - ulpOf (floorLog2Rat N 1))))
        (N * pL (1 - ulpOf (floorLog2Rat N 1)) % (1 * pR (1 - ulpOf (floorLog2Rat N 1))) != 0) ≥ 2047 * 2 ^ 52) := by
    have : (ulpOf (floorLog2Rat N 1) + 1074).toNat ≤ 1074 := by omega
    have := Nat.mul_le_mul_right (2 ^ 52) this
    rcases hcase with h | h <;> omega
  rw [if_neg hlim] at hc
  refine ⟨_, hc, ?_, by omega⟩
  have := u_exact N 1 hN (by omega) _ hc (by
    intro g
    have hg : g ≤ 0 := hgle
    have hpr : pR (1 - g) = 1 := pR_of_pos _ (by omega)
    rw [hpr, Nat.mul_one, Nat.mod_one, Nat.div_one]
    refine ⟨rfl, ?_⟩
    unfold pL
    have : (1 - g).toNat = ((1 - g).toNat - 1) + 1 := by omega
    rw [this, Nat.pow_succ, ← Nat.mul_assoc]
    exact Nat.mul_mod_left _ _)
  rw [Nat.mul_one] at this
  exact this

/-! ## the hardware operations in terms of values -/

theorem roundScaled_eq (n d : Nat) (e : Int) (hn : n ≠ 0) :
    roundScaled n d e = (roundRat (n * pL e) (d * pR e)).getD infBits := by
  unfold roundScaled
  rw [if_neg hn]
  cases e with
  | ofNat k =>
    have h1 : pL (Int.ofNat k) = 2 ^ k := pL_ofNat k
    have h2 : pR (Int.ofNat k) = 1 := pR_ofNat k
    simp only [h1, h2, Nat.mul_one]
  | negSucc k =>
    have h1 : pL (Int.negSucc k) = 1 := by
      rw [show Int.negSucc k = -((k + 1 : Nat) : Int) by omega, pL_neg]
    have h2 : pR (Int.negSucc k) = 2 ^ (k + 1) := by
      rw [show Int.negSucc k = -((k + 1 : Nat) : Int) by omega, pR_neg]
    simp only [h1, h2, Nat.mul_one]

theorem u_pos_iff (b : Nat) : 0 < u b ↔ 0 < (decodeF64 b).1 := by
  unfold u
  constructor
  · intro h
    rcases Nat.eq_zero_or_pos (decodeF64 b).1 with h0 | h0
    · rw [h0, Nat.zero_mul] at h; omega
    · exact h0
  · intro h; exact Nat.mul_pos h (Nat.pow_pos (by omega))

/-- `a * b` is the correctly rounded exact product -/
theorem fmul_eq (a b : Nat) (ha : 0 < u a) (hb : 0 < u b) :
    fmul a b = (roundRat (u a * u b) (2 ^ 1074 * 2 ^ 1074)).getD infBits := by
  have hsa := (u_pos_iff a).1 ha
  have hsb := (u_pos_iff b).1 hb
  have hea := decode_exp_ge a
  have heb := decode_exp_ge b
  unfold fmul u
  generalize decodeF64 a = da at *
  generalize decodeF64 b = db at *
  obtain ⟨sa, ea⟩ := da
  obtain ⟨sb, eb⟩ := db
  simp only at *
  rw [roundScaled_eq _ _ _ (Nat.ne_of_gt (Nat.mul_pos hsa hsb))]
  apply congrArg (fun r => Option.getD r infBits)
  apply roundRat_congr
  · exact Nat.mul_pos (Nat.mul_pos hsa hsb) (pL_pos _)
  · exact Nat.mul_pos (by omega) (pR_pos _)
  · exact Nat.mul_pos (Nat.mul_pos hsa (Nat.pow_pos (by omega))) (Nat.mul_pos hsb (Nat.pow_pos (by omega)))
  · set_option exponentiation.threshold 1100 in
    exact Nat.mul_pos (Nat.pow_pos (by omega)) (Nat.pow_pos (by omega))
  · unfold pL pR
    have key : 2 ^ (ea + eb).toNat * (2 ^ 1074 * 2 ^ 1074)
        = 2 ^ (ea + 1074).toNat * 2 ^ (eb + 1074).toNat * 2 ^ (-(ea + eb)).toNat := by
      set_option exponentiation.threshold 2200 in
      rw [← Nat.pow_add, ← Nat.pow_add, ← Nat.pow_add, ← Nat.pow_add]
      congr 1; omega
    calc sa * sb * 2 ^ (ea + eb).toNat * (2 ^ 1074 * 2 ^ 1074)
        = sa * sb * (2 ^ (ea + eb).toNat * (2 ^ 1074 * 2 ^ 1074)) := by rw [Nat.mul_assoc]
      _ = sa * sb * (2 ^ (ea + 1074).toNat * 2 ^ (eb + 1074).toNat * 2 ^ (-(ea + eb)).toNat) := by rw [key]
      _ = sa * 2 ^ (ea + 1074).toNat * (sb * 2 ^ (eb + 1074).toNat) * (1 * 2 ^ (-(ea + eb)).toNat) := by
        rw [Nat.one_mul]; ac_rfl

/-- `a / b` is the correctly rounded exact quotient -/
theorem fdiv_eq (a b : Nat) (ha : 0 < u a) (hb : 0 < u b) :
    fdiv a b = (roundRat (u a) (u b)).getD infBits := by
  have hsa := (u_pos_iff a).1 ha
  have hsb := (u_pos_iff b).1 hb
  have hea := decode_exp_ge a
  have heb := decode_exp_ge b
  unfold fdiv u
  generalize decodeF64 a = da at *
  generalize decodeF64 b = db at *
  obtain ⟨sa, ea⟩ := da
  obtain ⟨sb, eb⟩ := db
  simp only at *
  rw [roundScaled_eq _ _ _ (Nat.ne_of_gt hsa)]
  apply congrArg (fun r => Option.getD r infBits)
  apply roundRat_congr
  · exact Nat.mul_pos hsa (pL_pos _)
  · exact Nat.mul_pos hsb (pR_pos _)
  · exact Nat.mul_pos hsa (Nat.pow_pos (by omega))
  · exact Nat.mul_pos hsb (Nat.pow_pos (by omega))
  · unfold pL pR
    have key : 2 ^ (ea - eb).toNat * 2 ^ (eb + 1074).toNat = 2 ^ (ea + 1074).toNat * 2 ^ (-(ea - eb)).toNat := by
      rw [← Nat.pow_add, ← Nat.pow_add]
      congr 1; omega
    calc sa * 2 ^ (ea - eb).toNat * (sb * 2 ^ (eb + 1074).toNat)
        = sa * sb * (2 ^ (ea - eb).toNat * 2 ^ (eb + 1074).toNat) := by ac_rfl
      _ = sa * sb * (2 ^ (ea + 1074).toNat * 2 ^ (-(ea - eb)).toNat) := by rw [key]
      _ = sa * 2 ^ (ea + 1074).toNat * (sb * 2 ^ (-(ea - eb)).toNat) := by ac_rfl

/-- `a > b` compares the values -/
theorem fgt_eq (a b : Nat) : fgt a b = decide (u a > u b) := by
  have hea := decode_exp_ge a
  have heb := decode_exp_ge b
  unfold fgt u
  generalize decodeF64 a = da at *
  generalize decodeF64 b = db at *
  obtain ⟨sa, ea⟩ := da
  obtain ⟨sb, eb⟩ := db
  simp only at *
  cases hd : ea - eb with
  | ofNat k =>
    have hk : ea - eb = (k : Int) := hd
    have e1 : (ea + 1074).toNat = (eb + 1074).toNat + k := by omega
    rw [e1, Nat.pow_add 2 (eb + 1074).toNat k]
    have hp : 0 < 2 ^ (eb + 1074).toNat := Nat.pow_pos (by omega)
    have : sa * (2 ^ (eb + 1074).toNat * 2 ^ k) = sa * 2 ^ k * 2 ^ (eb + 1074).toNat := by ac_rfl
    rw [this]
    apply decide_eq_decide.2
    exact (mul_lt_mul_right_iff hp).symm
  | negSucc k =>
    have hk : ea - eb = -((k + 1 : Nat) : Int) := by rw [hd]; omega
    have e1 : (eb + 1074).toNat = (ea + 1074).toNat + (k + 1) := by omega
    rw [e1, Nat.pow_add 2 (ea + 1074).toNat (k + 1)]
    have hp : 0 < 2 ^ (ea + 1074).toNat := Nat.pow_pos (by omega)
    have : sb * (2 ^ (ea + 1074).toNat * 2 ^ (k + 1)) = sb * 2 ^ (k + 1) * 2 ^ (ea + 1074).toNat := by ac_rfl
    rw [this]
    apply decide_eq_decide.2
    exact (mul_lt_mul_right_iff hp).symm


/-! ## finiteness and lower bounds of rounded results -/

theorem roundRat_finite (n d : Nat) (hn : 0 < n) (hd : 0 < d) (h : lt2 1023 n d) : ∃ b, roundRat n d = some b := by
  obtain ⟨hc, hcase⟩ := roundRat_closed n d hn hd
  obtain ⟨h1, _⟩ := floorLog2Rat_spec n d hn hd
  have he : floorLog2Rat n d < 1023 := by
    apply Classical.byContradiction
    intro hge
    exact (not_le2_iff _ _ _).2 h (le2_mono (by omega) h1)
  have hg : ulpOf (floorLog2Rat n d) ≤ 970 := by unfold ulpOf; split <;> omega
  have hgge := ulpOf_ge (floorLog2Rat n d)
  rw [if_neg] at hc
  · exact ⟨_, hc⟩
  · have : (ulpOf (floorLog2Rat n d) + 1074).toNat ≤ 2044 := by omega
    have := Nat.mul_le_mul_right (2 ^ 52) this
    rcases hcase with h | h <;> omega

theorem u_ge_of_exp (n d : Nat) (hn : 0 < n) (hd : 0 < d) (b : Nat) (h : roundRat n d = some b)
    (he : 53 ≤ floorLog2Rat n d) : 2 ^ 53 * 2 ^ 1074 ≤ u b := by
  obtain ⟨hu, _⟩ := u_roundRat n d hn hd b h
  obtain ⟨_, hcase⟩ := roundRat_closed n d hn hd
  have hg : 1 ≤ ulpOf (floorLog2Rat n d) := by unfold ulpOf; split <;> omega
  rw [hu]
  rcases hcase with h | h
  · omega
  · obtain ⟨_, hq, _⟩ := h
    have ht : (ulpOf (floorLog2Rat n d) + 1074).toNat = 1075 + ((ulpOf (floorLog2Rat n d) + 1074).toNat - 1075) := by
      omega
    set_option exponentiation.threshold 1100 in
    rw [ht, Nat.pow_add, show (2 : Nat) ^ 1075 = 2 ^ 1074 * 2 from Nat.pow_succ 2 1074]
    have hR : 1 ≤ (2 : Nat) ^ ((ulpOf (floorLog2Rat n d) + 1074).toNat - 1075) := Nat.pow_pos (by omega)
    generalize (2 : Nat) ^ ((ulpOf (floorLog2Rat n d) + 1074).toNat - 1075) = R at *
    generalize (2 : Nat) ^ 1074 = P
    calc 2 ^ 53 * P = 2 ^ 52 * (P * 2 * 1) := by omega
      _ ≤ _ := Nat.mul_le_mul hq (Nat.mul_le_mul_left _ hR)

end Sonic.Proofs.Rne
