import Sonic.Proofs.NumberRound
import Sonic.Model.Number

/-!
# Helper lemmas for C04: values of bit patterns, the hardware operations, and the exact fast path

`u b` is the value of the finite non-negative binary64 `b` in units of `2^-1074` (a natural number: every finite
double is a multiple of `2^-1074`).
-/
namespace Sonic.Proofs.Rne

open Sonic.Spec.Rne
open Sonic.Model.Number

/-- value of a finite non-negative double in units of `2^-1074` -/
def u (b : Nat) : Nat := (decodeF64 b).1 * 2 ^ ((decodeF64 b).2 + 1074).toNat

/-- `2^s = 2^(s+1074) / 2^1074` for `s ≥ -1074` -/
theorem pL_pR_units (s : Int) (hs : -1074 ≤ s) : pL s * 2 ^ 1074 = pR s * 2 ^ (s + 1074).toNat := by
  unfold pL pR
  rw [← Nat.pow_add, ← Nat.pow_add]
  congr 1; omega

theorem decode_exp_ge (b : Nat) : -1074 ≤ (decodeF64 b).2 := by
  unfold decodeF64
  simp only
  split <;> simp <;> omega

/-- the bit pattern `t·2^52 + q'` produced by `roundRat` has the value `q'·2^t` -/
theorem u_closed (t q' : Nat) (hq : q' ≤ 2 ^ 53) (h0 : q' < 2 ^ 52 → t = 0)
    (hlim : t * 2 ^ 52 + q' < 2047 * 2 ^ 52) : u (t * 2 ^ 52 + q') = q' * 2 ^ t := by
  unfold u decodeF64
  simp only [Nat.reducePow, Nat.reduceMul] at *
  by_cases h1 : q' < 4503599627370496
  · have := h0 h1; subst this
    rw [Nat.zero_mul, Nat.zero_add]
    have e1 : q' / 4503599627370496 % 2048 = 0 := by omega
    have e2 : q' % 4503599627370496 = q' := by omega
    simp only [e1, if_true, e2]
    have e3 : ((-1074 : Int) + 1074).toNat = 0 := by decide
    rw [e3, Nat.pow_zero, Nat.mul_one]
  · by_cases h2 : q' < 9007199254740992
    · have e1 : (t * 4503599627370496 + q') / 4503599627370496 % 2048 = t + 1 := by omega
      have e2 : (t * 4503599627370496 + q') % 4503599627370496 = q' - 4503599627370496 := by omega
      simp only [e1, e2, Nat.add_one_ne_zero, if_false]
      have e3 : (((t + 1 : Nat) : Int) - 1075 + 1074).toNat = t := by omega
      have e4 : 4503599627370496 + (q' - 4503599627370496) = q' := by omega
      rw [e3, e4]
    · have hq' : q' = 9007199254740992 := by omega
      subst hq'
      have e1 : (t * 4503599627370496 + 9007199254740992) / 4503599627370496 % 2048 = t + 2 := by omega
      have e2 : (t * 4503599627370496 + 9007199254740992) % 4503599627370496 = 0 := by omega
      simp only [e1, e2, Nat.add_one_ne_zero, if_false, Nat.add_zero]
      have e3 : (((t + 2 : Nat) : Int) - 1075 + 1074).toNat = t + 1 := by omega
      rw [e3, Nat.pow_succ]; omega

/-- what `roundRat` returns, in terms of the value: `q'·2^t` with the data of `roundRat_closed` -/
theorem u_roundRat (num den : Nat) (hn : 0 < num) (hd : 0 < den) (b : Nat) (h : roundRat num den = some b) :
    let g := ulpOf (floorLog2Rat num den)
    let A := num * pL (1 - g)
    let B := den * pR (1 - g)
    u b = roundQ (A / B) (A % B != 0) * 2 ^ (g + 1074).toNat ∧ b < 2047 * 2 ^ 52 := by
  intro g A B
  obtain ⟨hc, hcase⟩ := roundRat_closed num den hn hd
  rw [hc] at h
  split at h
  · cases h
  · rename_i hlim
    simp only [Option.some.injEq] at h
    subst h
    refine ⟨u_closed _ _ ?_ ?_ (by omega), by omega⟩
    · rcases hcase with h | h <;> omega
    · intro hlt
      rcases hcase with h | h
      · show (ulpOf (floorLog2Rat num den) + 1074).toNat = 0
        omega
      · omega

theorem roundRat_lt (num den : Nat) (hn : 0 < num) (hd : 0 < den) (b : Nat) (h : roundRat num den = some b) :
    b < 2047 * 2 ^ 52 := (u_roundRat num den hn hd b h).2

/-- **a value on the grid is not changed by rounding** -/
theorem u_exact (num den : Nat) (hn : 0 < num) (hd : 0 < den) (b : Nat) (h : roundRat num den = some b)
    (hgrid : let g := ulpOf (floorLog2Rat num den)
             (num * pL (1 - g)) % (den * pR (1 - g)) = 0 ∧ (num * pL (1 - g)) / (den * pR (1 - g)) % 2 = 0) :
    u b * den = num * 2 ^ 1074 := by
  obtain ⟨hu, _⟩ := u_roundRat num den hn hd b h
  have hg := ulpOf_ge (floorLog2Rat num den)
  generalize ulpOf (floorLog2Rat num den) = g at *
  simp only at hgrid hu
  obtain ⟨h1, h2⟩ := hgrid
  generalize hA : num * pL (1 - g) = A at *
  generalize hB : den * pR (1 - g) = B at *
  have hq : roundQ (A / B) (A % B != 0) = A / B / 2 := by
    unfold roundQ; simp [h2]
  rw [hq] at hu
  have hAB : A = B * (2 * (A / B / 2)) := by
    have := Nat.div_add_mod A B
    have e2 : A / B = 2 * (A / B / 2) := by omega
    rw [← e2]; omega
  -- 2^(1-g) · 2^t = 2^1075
  have hid : pL (1 - g) * 2 ^ (g + 1074).toNat = pR (1 - g) * (2 ^ 1074 * 2) := by
    rw [← Nat.pow_succ]
    unfold pL pR
    rw [← Nat.pow_add, ← Nat.pow_add]; congr 1; omega
  have hpos : 0 < pR (1 - g) := pR_pos _
  rw [hu]
  generalize A / B / 2 = q at *
  generalize (2 : Nat) ^ 1074 = P at *
  apply Nat.eq_of_mul_eq_mul_left (Nat.mul_pos hpos (by omega : 0 < 2))
  calc pR (1 - g) * 2 * (q * 2 ^ (g + 1074).toNat * den)
      = (den * pR (1 - g)) * (2 * q) * 2 ^ (g + 1074).toNat := by ac_rfl
    _ = A * 2 ^ (g + 1074).toNat := by rw [hB, ← hAB]
    _ = num * (pL (1 - g) * 2 ^ (g + 1074).toNat) := by rw [← hA]; ac_rfl
    _ = num * (pR (1 - g) * (P * 2)) := by rw [hid]
    _ = pR (1 - g) * 2 * (num * P) := by ac_rfl

end Sonic.Proofs.Rne
