import Sonic.Proofs.FtoaSchub

/-!
# C07 / Schubfach: every finite non-zero double

* regular case with `c ≥ 20`: `FtoaSchub.algOut_chk` (the general argument);
* irregular case (`c = 2^52`, `q > -1074`: 2045 doubles) and the subnormals with `c < 20`: evaluated by the kernel.
-/
namespace Sonic.Proofs.Ftoa
open Sonic.Gen Sonic.Model.Ftoa Sonic.Model.Itoa Sonic.Spec.Shortest

/-- the regular case -/
theorem schub_regular (rsig rexp c : Nat) (q : Int) (hq1 : -1074 ≤ q) (hq2 : q ≤ 971)
    (hc20 : 20 ≤ c) (hc2 : c < 2 ^ 53) (hirr : (rsig == 0 && decide (rexp > 1)) = false)
    (hreg : irregular c q = false) :
    ∀ d, f64ToDecimal rsig rexp c q = some d →
      chk c q (normalize d.sig d.exp).1 (normalize d.sig d.exp).2 = true := by
  intro d hd
  rw [f64ToDecimal_regular rsig rexp c q hq1 hq2 (by omega) hc2 hirr] at hd
  cases hd
  exact algOut_chk c q hq1 hq2 hc20 hreg

/-! ## the irregular doubles `2^(rexp - 1023)`, `2 ≤ rexp ≤ 2046`, and the smallest subnormals -/

def irrOk (rexp : Nat) : Bool :=
  match f64ToDecimal 0 rexp (2 ^ 52) ((rexp : Int) - 1075) with
  | some d => chk (2 ^ 52) ((rexp : Int) - 1075) (normalize d.sig d.exp).1 (normalize d.sig d.exp).2
  | none => false

theorem irr_checked1 : (List.range 512).all (fun i => irrOk (i + 2)) = true := by decide +kernel
theorem irr_checked2 : (List.range 512).all (fun i => irrOk (i + 514)) = true := by decide +kernel
theorem irr_checked3 : (List.range 512).all (fun i => irrOk (i + 1026)) = true := by decide +kernel
theorem irr_checked4 : (List.range 509).all (fun i => irrOk (i + 1538)) = true := by decide +kernel

theorem range_all (P : Nat → Bool) (n off : Nat) (h : (List.range n).all (fun i => P (i + off)) = true)
    (x : Nat) (h1 : off ≤ x) (h2 : x < off + n) : P x = true := by
  rw [List.all_eq_true] at h
  have := h (x - off) (List.mem_range.2 (by omega))
  rwa [Nat.sub_add_cancel h1] at this

theorem irr_ok (rexp : Nat) (h1 : 2 ≤ rexp) (h2 : rexp ≤ 2046) : irrOk rexp = true := by
  by_cases c1 : rexp < 514
  · exact range_all irrOk 512 2 irr_checked1 rexp h1 (by omega)
  by_cases c2 : rexp < 1026
  · exact range_all irrOk 512 514 irr_checked2 rexp (by omega) (by omega)
  by_cases c3 : rexp < 1538
  · exact range_all irrOk 512 1026 irr_checked3 rexp (by omega) (by omega)
  · exact range_all irrOk 509 1538 irr_checked4 rexp (by omega) (by omega)

def subOk (c : Nat) : Bool :=
  match f64ToDecimal c 0 c (-1074) with
  | some d => chk c (-1074) (normalize d.sig d.exp).1 (normalize d.sig d.exp).2
  | none => false

theorem sub_checked : (List.range 19).all (fun i => subOk (i + 1)) = true := by decide +kernel

theorem sub_ok (c : Nat) (h1 : 1 ≤ c) (h2 : c < 20) : subOk c = true :=
  range_all subOk 19 1 sub_checked c h1 (by omega)

/-! ## all finite non-zero doubles -/

theorem schub_all (bits : Nat) (hfin : bits / 2 ^ 52 % 2 ^ 11 ≠ 2047) (hnz : bits % 2 ^ 63 ≠ 0) :
    ∀ d, f64ToDecimal (bits % 2 ^ 52) (bits / 2 ^ 52 % 2 ^ 11) (cqOfBits bits).1 (cqOfBits bits).2 = some d →
      chk (cqOfBits bits).1 (cqOfBits bits).2 (normalize d.sig d.exp).1 (normalize d.sig d.exp).2 = true := by
  have hsig : bits % 2 ^ 52 < 2 ^ 52 := Nat.mod_lt _ (by decide)
  have hexp : bits / 2 ^ 52 % 2 ^ 11 < 2 ^ 11 := Nat.mod_lt _ (by decide)
  unfold cqOfBits
  simp only
  generalize hrs : bits % 2 ^ 52 = rsig at *
  generalize hre : bits / 2 ^ 52 % 2 ^ 11 = rexp at *
  by_cases h0 : rexp = 0
  · -- subnormal
    simp only [if_pos h0]
    subst h0
    have hr0 : rsig ≠ 0 := by omega
    by_cases hsmall : rsig < 20
    · intro d hd
      have := sub_ok rsig (by omega) hsmall
      unfold subOk at this
      rw [hd] at this
      exact this
    · exact schub_regular rsig 0 rsig (-1074) (by omega) (by omega) (by omega) (by omega)
        (by simp) (by simp [irregular])
  · simp only [if_neg h0]
    by_cases hirr : rsig = 0 ∧ 1 < rexp
    · -- start of a binade
      obtain ⟨hz, h1⟩ := hirr
      subst hz
      intro d hd
      have := irr_ok rexp (by omega) (by omega)
      unfold irrOk at this
      rw [Nat.zero_add] at hd
      rw [hd] at this
      rw [Nat.zero_add]
      exact this
    · refine schub_regular rsig rexp (rsig + 2 ^ 52) ((rexp : Int) - 1075) (by omega) (by omega) (by omega)
        (by omega) ?_ ?_
      · by_cases hz : rsig = 0
        · have : ¬ (rexp > 1) := by omega
          simp [hz, this]
        · simp [hz]
      · unfold irregular
        by_cases hz : rsig = 0
        · have : rexp = 1 := by omega
          subst this; subst hz; decide
        · have : (rsig + 2 ^ 52 == 2 ^ 52) = false := by
            simp only [beq_eq_false_iff_ne, ne_eq]; omega
          rw [this]; rfl

end Sonic.Proofs.Ftoa
