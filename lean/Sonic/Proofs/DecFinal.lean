import Sonic.Proofs.DecLoop
import Sonic.Proofs.NumberRne

/-!
# From the invariant to the correctly rounded mantissa
-/
namespace Sonic.Proofs.Dec

open Sonic.Model.BigDecimal
open Sonic.Proofs.Rne (roundQ pL pR)

/-- the decision of `RoundedInteger` is round-half-even with a sticky bit -/
theorem rne_nat (D e : ℕ) (tr : Bool) :
    (if 2 * (D % 10 ^ e) > 10 ^ e ∨ (2 * (D % 10 ^ e) = 10 ^ e ∧ (tr = true ∨ D / 10 ^ e % 2 = 1))
      then D / 10 ^ e + 1 else D / 10 ^ e)
    = roundQ (2 * D / 10 ^ e) (decide (2 * D % 10 ^ e ≠ 0) || tr) := by
  have hP : 0 < 10 ^ e := Nat.pow_pos (by omega)
  have hdm := Nat.div_add_mod D (10 ^ e)
  have hr : D % 10 ^ e < 10 ^ e := Nat.mod_lt _ hP
  generalize 10 ^ e = P at *
  generalize hq : D / P = q at *
  generalize hrr : D % P = r at *
  have h2D : 2 * D = P * (2 * q) + 2 * r := by rw [← hdm]; ring
  unfold roundQ
  by_cases hlt : 2 * r < P
  · have h1 : 2 * D / P = 2 * q := by
      rw [h2D, Nat.mul_add_div hP, Nat.div_eq_of_lt hlt]; simp
    rw [h1, if_neg (by omega)]
    have : (2 * q % 2 == 1) = false := by simp
    simp [this]
  · have h1 : 2 * D / P = 2 * q + 1 := by
      have : 2 * D = P * (2 * q + 1) + (2 * r - P) := by rw [h2D]; ring_nf; omega
      rw [this, Nat.mul_add_div hP, Nat.div_eq_of_lt (by omega)]
    have h2 : 2 * D % P = 2 * r - P := by
      have : 2 * D = P * (2 * q + 1) + (2 * r - P) := by rw [h2D]; ring_nf; omega
      rw [this, Nat.mul_add_mod, Nat.mod_eq_of_lt (by omega)]
    rw [h1, h2]
    have e1 : (2 * q + 1) / 2 = q := by omega
    have e2 : ((2 * q + 1) % 2 == 1) = true := by simp
    rw [e1, e2]
    by_cases hup : 2 * r > P ∨ (2 * r = P ∧ (tr = true ∨ q % 2 = 1))
    · rw [if_pos hup]
      have : ((decide (2 * r - P ≠ 0) || tr) || (q % 2 == 1)) = true := by
        rcases hup with h | ⟨_, h | h⟩
        · have : 2 * r - P ≠ 0 := by omega
          simp [this]
        · simp [h]
        · simp [h]
      rw [this]; rfl
    · rw [if_neg hup]
      have : ((decide (2 * r - P ≠ 0) || tr) || (q % 2 == 1)) = false := by
        have h1 : ¬ 2 * r > P := fun h => hup (Or.inl h)
        have h2 : 2 * r = P := by omega
        have h3 : ¬ (tr = true ∨ q % 2 = 1) := fun h => hup (Or.inr ⟨h2, h⟩)
        have h4 : tr = false := by cases tr <;> simp_all
        have h5 : q % 2 ≠ 1 := fun h => h3 (Or.inr h)
        have h6 : 2 * r - P = 0 := by omega
        simp [h4, h5, h6]
      rw [this]; rfl

theorem two_zpow_eq (s : ℤ) : (2 : ℚ) ^ s = (pL s : ℚ) / (pR s : ℚ) := by
  unfold pL pR
  push_cast
  rcases le_total 0 s with h | h
  · have e1 : (-s).toNat = 0 := by omega
    rw [e1, pow_zero, div_one, ← zpow_natCast, Int.toNat_of_nonneg h]
  · have e1 : s.toNat = 0 := by omega
    rw [e1, pow_zero, one_div, ← zpow_natCast, Int.toNat_of_nonneg (by omega), zpow_neg, inv_inv]

/-- Nat division as the floor of the rational quotient -/
theorem nat_div_eq_of_rat (A B n : ℕ) (hB : 0 < B) (h1 : (n : ℚ) ≤ (A : ℚ) / B) (h2 : (A : ℚ) / B < n + 1) :
    A / B = n := by
  have hBq : (0 : ℚ) < B := by exact_mod_cast hB
  rw [le_div_iff₀ hBq] at h1
  rw [div_lt_iff₀ hBq] at h2
  have h1' : n * B ≤ A := by exact_mod_cast h1
  have h2' : A < (n + 1) * B := by exact_mod_cast h2
  exact Nat.div_eq_of_lt_le h1' h2'

theorem nat_floor_bounds (A B : ℕ) (hB : 0 < B) :
    ((A / B : ℕ) : ℚ) ≤ (A : ℚ) / B ∧ (A : ℚ) / B < ((A / B : ℕ) : ℚ) + 1 := by
  have hBq : (0 : ℚ) < B := by exact_mod_cast hB
  constructor
  · rw [le_div_iff₀ hBq]
    exact_mod_cast Nat.div_mul_le_self A B
  · rw [div_lt_iff₀ hBq]
    have : A < (A / B + 1) * B := by
      have := Nat.lt_div_mul_add hB (a := A)
      rw [Nat.add_mul]; omega
    exact_mod_cast this

theorem nat_mod_eq_zero_iff_rat (A B : ℕ) (hB : 0 < B) : A % B = 0 ↔ (A : ℚ) / B = ((A / B : ℕ) : ℚ) := by
  have hBq : (0 : ℚ) < B := by exact_mod_cast hB
  rw [div_eq_iff hBq.ne']
  constructor
  · intro h
    have := Nat.div_add_mod A B
    rw [h, Nat.add_zero] at this
    have : A = A / B * B := by rw [Nat.mul_comm]; exact this.symm
    exact_mod_cast this
  · intro h
    have h' : A = A / B * B := by exact_mod_cast h
    have := Nat.div_add_mod A B
    rw [Nat.mul_comm] at this
    omega

/-- the value of a decimal as a natural number over a power of ten, with `RoundedInteger` in `roundQ` form -/
theorem rounded_as_roundQ (d : Decimal) (hwf : WF d) (htrim : Trimmed d) (hnd0 : 0 < d.nd) (hdp : d.dp ≤ 19) :
    ∃ D' e : ℕ, val d = (D' : ℚ) / 10 ^ e ∧
      roundedInteger d = roundQ (2 * D' / 10 ^ e) (decide (2 * D' % 10 ^ e ≠ 0) || d.trunc) := by
  obtain ⟨hA, hB⟩ := roundedInteger_spec d hwf htrim hnd0 hdp
  by_cases hcase : (d.nd : ℤ) ≤ d.dp
  · refine ⟨Dnat d * 10 ^ (d.dp - d.nd).toNat, 0, ?_, ?_⟩
    · unfold val
      push_cast
      rw [pow_zero, div_one, ← zpow_natCast, Int.toNat_of_nonneg (by omega)]
    · rw [hA hcase, ← rne_nat]
      simp [Nat.mod_one]
  · have hlt : d.dp < (d.nd : ℤ) := by omega
    refine ⟨Dnat d, ((d.nd : ℤ) - d.dp).toNat, ?_, ?_⟩
    · unfold val
      rw [← zpow_natCast, Int.toNat_of_nonneg (by omega), div_eq_mul_inv, ← zpow_neg]
      congr 2; ring
    · rw [hB hlt, rne_nat]

/-- half-integers are never crossed: the grid property at the final scale -/
theorem half_grid (x : ℚ) (hx : 0 < x) (d : Decimal) (s : ℤ) (h : Inv x d s) (hs : s ≤ 1100)
    (hy : x * 2 ^ s < 2 ^ (53 : ℕ)) (m : ℕ) (hm1 : 1 ≤ m) (hm : (m : ℚ) ≤ 2 * (x * 2 ^ s))
    (hm2 : 2 * (x * 2 ^ s) < (m : ℚ) + 1) : (m : ℚ) ≤ 2 * val d := by
  have h2s : (0 : ℚ) < 2 ^ s := by positivity
  have hM : m < 2 ^ 54 := by
    have : (m : ℚ) < 2 ^ (54 : ℕ) := by
      have : (2 : ℚ) ^ (54 : ℕ) = 2 * 2 ^ (53 : ℕ) := by norm_num
      linarith
    exact_mod_cast this
  have hm1q : (1 : ℚ) ≤ m := by exact_mod_cast hm1
  have e1 : (m : ℚ) * 2 ^ (-1 - s) = (m : ℚ) / 2 / 2 ^ s := by
    rw [show (-1 - s) = -1 + -s by ring, zpow_add₀ two_ne, zpow_neg, zpow_neg, zpow_one]; ring
  have hg := h.grid m (-1 - s) hM (by omega)
    (by rw [e1, div_le_iff₀ h2s]; linarith)
    (by rw [e1, ← mul_div_assoc, lt_div_iff₀ h2s]; linarith)
  rw [show -1 - s + s = -1 by ring, zpow_neg, zpow_one] at hg
  linarith

theorem final_round (x : ℚ) (num den : ℕ) (hnum : 0 < num) (hden : 0 < den) (hxdef : x = (num : ℚ) / den)
    (d : Decimal) (s : ℤ) (h : Inv x d s) (htrim : Trimmed d) (hy : x * 2 ^ s < 2 ^ (53 : ℕ)) (hs : s ≤ 1100)
    (hdp : d.dp ≤ 19) :
    roundedInteger d = roundQ (num * pL (s + 1) / (den * pR (s + 1)))
      ((num * pL (s + 1)) % (den * pR (s + 1)) != 0) := by
  have hnumq : (0 : ℚ) < num := by exact_mod_cast hnum
  have hdenq : (0 : ℚ) < den := by exact_mod_cast hden
  have hx : 0 < x := by rw [hxdef]; positivity
  have hnd0 : 0 < d.nd := Nat.pos_of_ne_zero (nd_pos_of_dnat d h.pos)
  obtain ⟨D', e, hval, hri⟩ := rounded_as_roundQ d h.wf htrim hnd0 hdp
  rw [hri]
  have hB : 0 < den * pR (s + 1) := Nat.mul_pos hden (Sonic.Proofs.Rne.pR_pos _)
  have hpRq : (0 : ℚ) < (pR (s + 1) : ℚ) := by exact_mod_cast Sonic.Proofs.Rne.pR_pos (s + 1)
  have hAB : ((num * pL (s + 1) : ℕ) : ℚ) / ((den * pR (s + 1) : ℕ) : ℚ) = 2 * (x * 2 ^ s) := by
    push_cast
    rw [hxdef, mul_div_mul_comm, ← two_zpow_eq, zpow_add₀ two_ne, zpow_one]; ring
  have hP : 0 < 10 ^ e := Nat.pow_pos (by omega)
  have hV2 : ((2 * D' : ℕ) : ℚ) / ((10 ^ e : ℕ) : ℚ) = 2 * val d := by
    rw [hval]; push_cast; ring
  generalize hA : num * pL (s + 1) = A at *
  generalize hBd : den * pR (s + 1) = B at *
  obtain ⟨m1, m2⟩ := nat_floor_bounds A B hB
  obtain ⟨n1, n2⟩ := nat_floor_bounds (2 * D') (10 ^ e) hP
  rw [hAB] at m1 m2
  rw [hV2] at n1 n2
  have hvy : 2 * val d ≤ 2 * (x * 2 ^ s) := by have := h.le; linarith
  have hmodA := nat_mod_eq_zero_iff_rat A B hB
  have hmodV := nat_mod_eq_zero_iff_rat (2 * D') (10 ^ e) hP
  rw [hAB] at hmodA
  rw [hV2] at hmodV
  generalize A / B = m at *
  generalize 2 * D' / 10 ^ e = n at *
  have hgrid : 1 ≤ m → (m : ℚ) ≤ 2 * val d := fun hm1 => half_grid x hx d s h hs hy m hm1 m1 m2
  -- the quotients agree
  have hquot : m = n := by
    apply Nat.le_antisymm
    · by_contra hcon
      have := hgrid (by omega)
      have h3 : (m : ℚ) < (n : ℚ) + 1 := by linarith
      have h4 : m < n + 1 := by exact_mod_cast h3
      omega
    · have h3 : (n : ℚ) < (m : ℚ) + 1 := by linarith
      have h4 : n < m + 1 := by exact_mod_cast h3
      omega
  rw [hquot]
  congr 1
  -- the sticky bits agree
  cases htr : d.trunc with
  | false =>
    have heq := h.exact htr
    have : (A % B = 0) ↔ (2 * D' % 10 ^ e = 0) := by
      rw [hmodA, hmodV, hquot, heq]
    by_cases h0 : A % B = 0
    · have h1 := this.1 h0
      simp [h0, h1]
    · have h1 : ¬ (2 * D' % 10 ^ e = 0) := fun hh => h0 (this.2 hh)
      simp [h0, h1]
  | true =>
    have hlt := h.strict htr
    have hne : A % B ≠ 0 := by
      intro h0
      have heq := hmodA.1 h0
      have hm1 : 1 ≤ m := by
        by_contra hcon
        have hm0 : m = 0 := by omega
        rw [hm0] at heq
        have : (0 : ℚ) < x * 2 ^ s := by positivity
        push_cast at heq
        linarith
      have := hgrid hm1
      linarith
    simp [hne]

end Sonic.Proofs.Dec
