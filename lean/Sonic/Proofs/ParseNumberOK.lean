import Sonic.Proofs.ParseInv
import Sonic.Proofs.DecPlug
import Sonic.Proofs.MergeShift
import Sonic.Proofs.NumberPad
import Sonic.Proofs.NumberAllB
import Sonic.Proofs.NumberBig

/-!
# `NumberOK` from the facts proved about the number model

`NumberFacts` bundles what the parser proofs need to know about `Model.Number.parseNumber` (property C04), in the form
in which it is used here; `numberOK_of_facts` derives the per-input contract `NumberOK bs` (`Proofs/ParseInv.lean`) from
it for every text shorter than `2^32` bytes (`numberOK_all`).  Known finding F6 (the `int exp` accumulators of
`parseNumber` / `SetDecimal` saturating at 100000) has been FIXED in the code: the accumulators are 64 bits wide and
saturate at `10^15`, the sums with the digit counts are clamped (`exp10` to `±100000`, `dp` to `±10^6`), and a
saturated exponent cannot be compensated by fewer than `2^32` digits.  The former guard `ExpSmall` (written exponent
below 100000 or token of at most 9600 bytes) is kept as a definition (`numberOK_of_exp`, `expSmall_of_short`,
`expSmallCheck` still hold) but no theorem needs it any more.

* (a) `correct`: on every buffer, where the reference finds a token `t` that ends inside the input, is shorter than
  `2^32` bytes (or has a written exponent below `10^16`) and satisfies `nativeGuard` (not followed by `.` after a fraction / by a digit after a lone `0`, when
  there is no exponent part), `parseNumber` agrees with the reference: kind, value, end index, `infinity`.
* (b) `malformed`: where the reference finds no token, `parseNumber` reports `kParseErrorInvalidChar`
  (this is `Props/C04.lean`: `C04_scan_grammar`).
* (c) `doomed`: where `nativeGuard` fails, `parseNumber` returns *some* value ending at the end of the token, or one
  of its two parse error codes (never the model fault of `AtofNative`).
* (d) `padIndep`: the outcome does not depend on the 61 padding bytes nor on the buffer below the number
  (the scan stops at the sentinel `x`; `AtofNative` is handed `len_ - pos_ + 1` bytes).
(b) and (d) are proved here (`parseNumber_malformed`, `parseNumber_padIndep`); `NumberFacts.of_ac` builds the
structure from (a) and (c), which property C04 supplies.
-/
namespace Sonic.Proofs.Parse
open Sonic.Gen Sonic.Spec Sonic.Spec.Number Sonic.Model.Parse
open Sonic.Proofs.Dec (nativeGuard nativeGuard_false)

/-- every number token of `bs` — a token that `Spec.Number.scanToken` finds at any index — has a written exponent of
    absolute value below 100000, or is at most 9600 bytes long (the `int exp` accumulators of `parseNumber` and of
    `SetDecimal` saturate at 100000: known finding F6, which therefore needs a token of more than 9600 bytes) -/
def ExpSmall (bs : List Nat) : Prop :=
  ∀ start t, scanToken (bs.drop start) = some t → (expVal t.exp).natAbs < 100000 ∨ t.len ≤ 9600

/-- decidable form of `ExpSmall` for concrete inputs -/
def expSmallCheck (bs : List Nat) : Bool :=
  (List.range bs.length).all fun start =>
    match scanToken (bs.drop start) with
    | none => true
    | some t => decide ((expVal t.exp).natAbs < 100000) || decide (t.len ≤ 9600)

theorem expSmall_of_check (bs : List Nat) (h : expSmallCheck bs = true) : ExpSmall bs := by
  intro start t ht
  by_cases hs : start < bs.length
  · unfold expSmallCheck at h
    rw [List.all_eq_true] at h
    have := h start (List.mem_range.mpr hs)
    rw [ht] at this
    simp only [Bool.or_eq_true, decide_eq_true_eq] at this
    exact this
  · rw [List.drop_eq_nil_of_le (by omega)] at ht
    have h0 : scanToken [] = none := by decide
    rw [h0] at ht
    cases ht

/-- what the number theorems really need of every token: a written exponent below `10^16` in magnitude (then the
    64-bit accumulator is exact) or fewer than `2^32` bytes (then a saturated exponent cannot be compensated) -/
def ExpOK (bs : List Nat) : Prop :=
  ∀ start t, scanToken (bs.drop start) = some t → (expVal t.exp).natAbs < 10000000000000000 ∨ t.len < 2 ^ 32

theorem expOK_of_small {bs : List Nat} (h : ExpSmall bs) : ExpOK bs := by
  intro start t ht
  rcases h start t ht with h1 | h1
  · left; omega
  · right; omega

theorem expOK_of_length {bs : List Nat} (h : bs.length < 2 ^ 32) : ExpOK bs := by
  intro start t ht
  right
  have := Sonic.Proofs.NumberAll.token_len_le _ t ht
  rw [List.length_drop] at this
  omega

/-- the facts about `parseNumber` that the parser needs (see the header) -/
structure NumberFacts : Prop where
  correct : ∀ (buf : List Nat) (len start : Nat) (t : Token), scanToken (buf.drop start) = some t →
    start + t.len ≤ len → ((expVal t.exp).natAbs < 10000000000000000 ∨ t.len < 2 ^ 32) →
    nativeGuard t ((buf.drop start).drop t.len) = true →
    NumAgrees start len (scanNumber buf start) (numOut (Sonic.Model.Number.parseNumber buf len start))
  malformed : ∀ (buf : List Nat) (len start : Nat), scanToken (buf.drop start) = none →
    ∃ p, Sonic.Model.Number.parseNumber buf len start = .err Sonic.Model.Number.errInvalidChar p
  doomed : ∀ (buf : List Nat) (len start : Nat) (t : Token), scanToken (buf.drop start) = some t →
    start + t.len ≤ len → nativeGuard t ((buf.drop start).drop t.len) = false →
    NumDoomedOut start t.len (numOut (Sonic.Model.Number.parseNumber buf len start))
  padIndep : ∀ (bs pad pad' buf buf' : List Nat) (start : Nat), start < bs.length →
    pad.length = 61 → pad'.length = 61 → BufAt bs pad buf start → BufAt bs pad' buf' start →
    numOut (Sonic.Model.Number.parseNumber buf bs.length start) =
      numOut (Sonic.Model.Number.parseNumber buf' bs.length start)

/-- (b) is already proved (`Proofs/NumberMaster.lean`: `accumulate_spec`; `Props/C04.lean`: `C04_scan_grammar`) -/
theorem parseNumber_malformed (buf : List Nat) (len start : Nat) (h : scanToken (buf.drop start) = none) :
    ∃ p, Sonic.Model.Number.parseNumber buf len start = .err Sonic.Model.Number.errInvalidChar p := by
  obtain ⟨p, hp⟩ := (Sonic.Proofs.Number.accumulate_spec buf start).1 h
  exact ⟨p, by unfold Sonic.Model.Number.parseNumber; rw [hp]⟩

/-- (d) is proved as well (`Proofs/NumberPad.lean`: the scanning phase stops at the sentinel `x`; `AtofNative` is handed
    bytes of the input only) -/
theorem parseNumber_padIndep (bs pad pad' buf buf' : List Nat) (start : Nat) (hs : start < bs.length)
    (_ : pad.length = 61) (_ : pad'.length = 61) (hb : BufAt bs pad buf start) (hb' : BufAt bs pad' buf' start) :
    numOut (Sonic.Model.Number.parseNumber buf bs.length start) =
      numOut (Sonic.Model.Number.parseNumber buf' bs.length start) := by
  have e : ∀ p : List Nat, (paddedBuf bs p).drop start = bs.drop start ++ 120 :: ([0x22, 0x78] ++ p) := by
    intro p
    unfold paddedBuf
    rw [List.append_assoc, List.drop_append_of_le_length (Nat.le_of_lt hs)]
    rfl
  rw [Sonic.Proofs.NumberPad.parseNumber_sim buf buf' bs.length start (bs.drop start) _ _
    (by rw [hb.2, e]) (by rw [hb'.2, e]) (by rw [List.length_drop])]

/-- `NumberFacts` from the two facts that are not yet available as theorems -/
theorem NumberFacts.of_ac
    (correct : ∀ (buf : List Nat) (len start : Nat) (t : Token), scanToken (buf.drop start) = some t →
      start + t.len ≤ len → ((expVal t.exp).natAbs < 10000000000000000 ∨ t.len < 2 ^ 32) →
    nativeGuard t ((buf.drop start).drop t.len) = true →
      NumAgrees start len (scanNumber buf start) (numOut (Sonic.Model.Number.parseNumber buf len start)))
    (doomed : ∀ (buf : List Nat) (len start : Nat) (t : Token), scanToken (buf.drop start) = some t →
      start + t.len ≤ len → nativeGuard t ((buf.drop start).drop t.len) = false →
      NumDoomedOut start t.len (numOut (Sonic.Model.Number.parseNumber buf len start))) : NumberFacts :=
  ⟨correct, parseNumber_malformed, doomed, parseNumber_padIndep⟩

/-- `NumberFacts` from the three facts (a), (c), (d) -/
theorem NumberFacts.of_abc
    (correct : ∀ (buf : List Nat) (len start : Nat) (t : Token), scanToken (buf.drop start) = some t →
      start + t.len ≤ len → ((expVal t.exp).natAbs < 10000000000000000 ∨ t.len < 2 ^ 32) →
    nativeGuard t ((buf.drop start).drop t.len) = true →
      NumAgrees start len (scanNumber buf start) (numOut (Sonic.Model.Number.parseNumber buf len start)))
    (doomed : ∀ (buf : List Nat) (len start : Nat) (t : Token), scanToken (buf.drop start) = some t →
      start + t.len ≤ len → nativeGuard t ((buf.drop start).drop t.len) = false →
      NumDoomedOut start t.len (numOut (Sonic.Model.Number.parseNumber buf len start)))
    (padIndep : ∀ (bs pad pad' buf buf' : List Nat) (start : Nat), start < bs.length →
      pad.length = 61 → pad'.length = 61 → BufAt bs pad buf start → BufAt bs pad' buf' start →
      numOut (Sonic.Model.Number.parseNumber buf bs.length start) =
        numOut (Sonic.Model.Number.parseNumber buf' bs.length start)) : NumberFacts :=
  ⟨correct, parseNumber_malformed, doomed, padIndep⟩

/-- the reference scanner sees the same token on the padded buffer as on the bare input: the sentinel `x` continues
    no number -/
theorem scanToken_padded (bs pad : List Nat) {start : Nat} (hs : start ≤ bs.length) :
    scanToken ((paddedBuf bs pad).drop start) = scanToken (bs.drop start) := by
  have e : (paddedBuf bs pad).drop start = bs.drop start ++ ([0x78, 0x22, 0x78] ++ pad) := by
    unfold paddedBuf
    rw [List.append_assoc, List.drop_append_of_le_length hs]
  rw [e]
  exact Sonic.Proofs.MergeShift.scanToken_append (Or.inr ⟨0x78, _, rfl, by decide⟩) _

theorem scanNumber_padded (bs pad : List Nat) {start : Nat} (hs : start ≤ bs.length) :
    scanNumber (paddedBuf bs pad) start = scanNumber bs start := by
  unfold scanNumber
  rw [scanToken_padded bs pad hs]

/-- **`NumberOK` holds for every text whose tokens satisfy `ExpOK`** -/
theorem numberOK_of_facts (facts : NumberFacts) {bs : List Nat} (hexp : ExpOK bs) : NumberOK bs := by
  intro start c hs hc hn
  let pad0 : List Nat := List.replicate 61 0
  have hp0 : pad0.length = 61 := List.length_replicate ..
  have hb0 : BufAt bs pad0 (paddedBuf bs pad0) start := ⟨by rw [B0_length hp0], rfl⟩
  refine ⟨numOut (Sonic.Model.Number.parseNumber (paddedBuf bs pad0) bs.length start), ?_, ?_⟩
  case refine_2 =>
    intro pad buf hpl _ hb
    exact facts.padIndep bs pad pad0 buf (paddedBuf bs pad0) start hs hpl hp0 hb hb0
  have hst := scanToken_padded bs pad0 (Nat.le_of_lt hs)
  have hsn := scanNumber_padded bs pad0 (Nat.le_of_lt hs)
  cases ht : scanToken (bs.drop start) with
  | none =>
    rw [ht] at hst
    obtain ⟨p, hp⟩ := facts.malformed (paddedBuf bs pad0) bs.length start hst
    left
    rw [hp]
    unfold scanNumber
    rw [ht]
    rfl
  | some t =>
    rw [ht] at hst
    obtain ⟨htpos, htl, _⟩ := Sonic.Proofs.OnDemand.scanToken_chars ht
    have hle : start + t.len ≤ bs.length := by
      rw [List.length_take, List.length_drop] at htl
      omega
    have hsmall := hexp start t ht
    cases hg : nativeGuard t (((paddedBuf bs pad0).drop start).drop t.len) with
    | true =>
      left
      rw [← hsn]
      exact facts.correct _ _ _ t hst hle hsmall hg
    | false =>
      right
      obtain ⟨_, d, r, hrest, hd⟩ := nativeGuard_false t _ hg
      have hget : (paddedBuf bs pad0)[start + t.len]? = some d := by
        have := congrArg (fun l => l[0]?) hrest
        simp only [List.drop_drop, List.getElem?_drop, List.getElem?_cons_zero] at this
        simpa using this
      have hlt : start + t.len < bs.length := by
        apply Decidable.byContradiction
        intro hcon
        have he : start + t.len = bs.length := by omega
        rw [he, B0_L] at hget
        injection hget with hget
        subst hget
        rcases hd with ⟨_, h46⟩ | ⟨_, hdig⟩
        · exact absurd h46 (by decide)
        · exact absurd hdig (by decide)
      rw [B0_lt hlt] at hget
      refine ⟨t, rfl, htpos, ⟨d, hget, ?_⟩, facts.doomed _ _ _ t hst hle hg⟩
      rcases hd with ⟨_, h46⟩ | ⟨_, hdig⟩
      · exact Or.inl h46
      · exact Or.inr hdig

/-- **the facts hold**: (a) `NumberAll.parseNumber_correct` (= `C04_parseNumber_correct`), (b) `accumulate_spec`,
    (c) `NumberAll.parseNumber_shape` (= `C04_parseNumber_shape`, with `C04_native_never_faults`), (d)
    `NumberPad.parseNumber_sim` -/
theorem numberFacts : NumberFacts :=
  NumberFacts.of_ac
    (fun buf len start t ht hl he hg => Sonic.Proofs.NumberAll.parseNumber_correct buf len start t ht hl he hg)
    (fun buf len start t ht _ _ => by
      rcases Sonic.Proofs.NumberAll.parseNumber_shape buf len start t ht with ⟨v, p, h⟩ | h
      · rw [h]; rfl
      · rw [h]; exact Or.inl rfl)

/-- **`NumberOK bs` for every text whose written exponents are below 100000 or whose number tokens are short** — no
    assumption about the number model is left -/
theorem numberOK_of_exp {bs : List Nat} (hexp : ExpSmall bs) : NumberOK bs :=
  numberOK_of_facts numberFacts (expOK_of_small hexp)

/-- **`NumberOK bs` for every text shorter than `2^32` bytes**: no hypothesis about numbers is left (known finding F6
    is fixed in the code) -/
theorem numberOK_all {bs : List Nat} (hL : bs.length < 2 ^ 32) : NumberOK bs :=
  numberOK_of_facts numberFacts (expOK_of_length hL)

/-- **Every text of at most 9600 bytes satisfies `ExpSmall`**, so for such texts the parser theorems hold
    unconditionally -/
theorem expSmall_of_short {bs : List Nat} (h : bs.length ≤ 9600) : ExpSmall bs := by
  intro start t ht
  right
  have := Sonic.Proofs.NumberAll.token_len_le _ t ht
  rw [List.length_drop] at this
  omega

end Sonic.Proofs.Parse
