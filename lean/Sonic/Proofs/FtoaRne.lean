import Sonic.Spec.Shortest
import Sonic.Proofs.NumberRound

/-!
# C07 ↔ C04: the rounding interval of `Spec.Shortest` is the preimage of a bit pattern under `Spec.Rne.round`

`inInterval (cqOfBits bits) sig exp = true ↔ Rne.round false sig exp = some bits` for every finite non-zero
non-negative bit pattern.  Everything is cross-multiplied natural-number arithmetic (`pL`/`pR` of `NumberRne`).
Core only.
-/
namespace Sonic.Proofs.FtoaRne

open Sonic.Spec.Rne Sonic.Proofs.Rne Sonic.Spec.Shortest

/-! ## transporting comparisons between equal ratios -/

theorem ratio_le (X Y u v u' v' : Nat) (hv : 0 < v) (hv' : 0 < v') (h : u * v' = u' * v) :
    X * u ≤ Y * v ↔ X * u' ≤ Y * v' := by
  rw [← mul_le_mul_right_iff (a := X * u) hv', ← mul_le_mul_right_iff (a := X * u') hv]
  have e1 : X * u * v' = X * (u * v') := by ac_rfl
  have e2 : X * u' * v = X * (u' * v) := by ac_rfl
  have e3 : Y * v * v' = Y * v' * v := by ac_rfl
  rw [e1, e2, e3, h]

theorem ratio_le' (X Y u v u' v' : Nat) (hu : 0 < u) (hu' : 0 < u') (h : u * v' = u' * v) :
    Y * v ≤ X * u ↔ Y * v' ≤ X * u' := by
  rw [← mul_le_mul_right_iff (a := Y * v) hu', ← mul_le_mul_right_iff (a := Y * v') hu]
  have e1 : Y * v * u' = Y * (u' * v) := by ac_rfl
  have e2 : Y * v' * u = Y * (u * v') := by ac_rfl
  have e3 : X * u * u' = X * u' * u := by ac_rfl
  rw [e1, e2, e3, h]

theorem ratio_lt (X Y u v u' v' : Nat) (hu : 0 < u) (hu' : 0 < u') (h : u * v' = u' * v) :
    X * u < Y * v ↔ X * u' < Y * v' := by
  rw [← Nat.not_le, ← Nat.not_le, ratio_le' X Y u v u' v' hu hu' h]

theorem ratio_lt' (X Y u v u' v' : Nat) (hv : 0 < v) (hv' : 0 < v') (h : u * v' = u' * v) :
    Y * v < X * u ↔ Y * v' < X * u' := by
  rw [← Nat.not_le, ← Nat.not_le, ratio_le X Y u v u' v' hv hv' h]

/-- `2^(2-q) / 2^-(2-q) = 2 · 2^(1-q) / 2^-(1-q)` -/
theorem pow2_step (q : Int) : pR (1 - q) * pL (2 - q) = 2 * pR (2 - q) * pL (1 - q) := by
  have h := pow2_add (1 - q) 1
  have e1 : pR 1 = 1 := by decide
  have e2 : pL 1 = 2 := by decide
  rw [show 1 - q + 1 = 2 - q by omega, e1, e2, Nat.mul_one] at h
  rw [Nat.mul_comm, h]; ac_rfl

/-! ## the rounding step -/

theorem roundQ_split (h p : Nat) (hp : p < 2) (st : Bool) :
    roundQ (2 * h + p) st = if p = 1 ∧ (st = true ∨ h % 2 = 1) then h + 1 else h := by
  unfold roundQ
  have e1 : (2 * h + p) / 2 = h := by omega
  have e2 : (2 * h + p) % 2 = p := by omega
  rw [e1, e2]
  by_cases h1 : p = 1 <;> by_cases h2 : st = true <;> by_cases h3 : h % 2 = 1 <;> simp [h1, h2, h3]

theorem roundQ_eq_iff (A B c : Nat) (hB : 0 < B) (hc : 0 < c) :
    roundQ (A / B) (A % B != 0) = c ↔
      (if c % 2 = 0 then (2 * c - 1) * B ≤ A ∧ A ≤ (2 * c + 1) * B
       else (2 * c - 1) * B < A ∧ A < (2 * c + 1) * B) := by
  have hA := Nat.div_add_mod A B
  have hr := Nat.mod_lt A hB
  generalize A / B = q2 at *
  generalize A % B = r at *
  obtain ⟨h, p, hp, rfl⟩ : ∃ h p, p < 2 ∧ q2 = 2 * h + p := ⟨q2 / 2, q2 % 2, by omega, by omega⟩
  rw [roundQ_split h p hp]
  simp only [bne_iff_ne]
  have hAe : A = 2 * (h * B) + p * B + r := by
    rw [← hA, Nat.mul_add]
    have : B * (2 * h) = 2 * (h * B) := by ac_rfl
    have e2 : B * p = p * B := Nat.mul_comm _ _
    omega
  have hp' : p = 0 ∨ p = 1 := by omega
  -- the position of `c` relative to `h`
  rcases Nat.lt_trichotomy c h with hlt | heq | hgt
  · -- c < h : (2c+1)·B ≤ (2h-1)·B < A
    have h1 : (2 * c + 1) * B + B ≤ 2 * (h * B) := by
      have := Nat.mul_le_mul_right B (show 2 * c + 2 ≤ 2 * h by omega)
      rw [Nat.add_mul] at this
      have e : 2 * h * B = 2 * (h * B) := by ac_rfl
      rw [Nat.add_mul]; omega
    have hne : (if p = 1 ∧ (r ≠ 0 ∨ h % 2 = 1) then h + 1 else h) ≠ c := by split <;> omega
    constructor
    · intro hh; exact absurd hh hne
    · intro hh; split at hh <;> omega
  · subst heq
    have e1 : (2 * c - 1) * B + B = 2 * (c * B) := by
      have : (2 * c - 1 + 1) * B = 2 * c * B := by congr 1; omega
      rw [Nat.add_mul, Nat.one_mul] at this
      rw [this]; ac_rfl
    have e2 : (2 * c + 1) * B = 2 * (c * B) + B := by
      rw [Nat.add_mul, Nat.one_mul]; congr 1; ac_rfl
    rw [e2]
    generalize (2 * c - 1) * B = L at *
    generalize c * B = P at *
    rcases hp' with rfl | rfl
    · simp only [Nat.zero_mul, Nat.add_zero] at hAe
      constructor
      · intro _; split <;> omega
      · intro _; simp
    · simp only [Nat.one_mul] at hAe
      constructor
      · intro hh; split at hh
        · omega
        · rename_i hn
          have : r = 0 ∧ c % 2 = 0 := by omega
          rw [if_pos this.2]; omega
      · intro hh
        split at hh
        · rw [if_neg]; omega
        · rw [if_neg]; omega
  · -- h < c
    rcases Nat.lt_or_ge (h + 1) c with hgt2 | hle
    · -- c ≥ h + 2 : A < (2h+2)·B ≤ (2c-1)·B - B
      have h1 : 2 * (h * B) + 3 * B ≤ (2 * c - 1) * B := by
        have := Nat.mul_le_mul_right B (show 2 * h + 3 ≤ 2 * c - 1 by omega)
        rw [Nat.add_mul] at this
        have e : 2 * h * B = 2 * (h * B) := by ac_rfl
        omega
      have hb : p * B ≤ B := by rcases hp' with rfl | rfl <;> omega
      have hne : (if p = 1 ∧ (r ≠ 0 ∨ h % 2 = 1) then h + 1 else h) ≠ c := by split <;> omega
      constructor
      · intro hh; exact absurd hh hne
      · intro hh; split at hh <;> omega
    · have hc1 : c = h + 1 := by omega
      subst hc1
      have e1 : (2 * (h + 1) - 1) * B = 2 * (h * B) + B := by
        have : 2 * (h + 1) - 1 = 2 * h + 1 := by omega
        rw [this, Nat.add_mul, Nat.one_mul]; congr 1; ac_rfl
      have e2 : (2 * (h + 1) + 1) * B = 2 * (h * B) + 3 * B := by
        have : 2 * (h + 1) + 1 = 2 * h + 3 := by omega
        rw [this, Nat.add_mul]; congr 1; ac_rfl
      rw [e1, e2]
      generalize h * B = P at *
      rcases hp' with rfl | rfl
      · simp only [Nat.zero_mul, Nat.add_zero] at hAe
        constructor
        · intro hh; simp at hh
        · intro hh; split at hh <;> omega
      · simp only [Nat.one_mul] at hAe
        constructor
        · intro hh
          split at hh
          · rename_i hc
            split
            · omega
            · omega
          · omega
        · intro hh
          split at hh
          · rw [if_pos]; omega
          · rw [if_pos]; omega


/-! ## the closed form of `roundRat`, without `let`s -/

theorem roundRat_form (N D : Nat) (hN : 0 < N) (hD : 0 < D) :
    ∃ (e : Int) (q' : Nat), le2 e N D ∧ lt2 (e + 1) N D ∧
      q' = roundQ (N * pL (1 - ulpOf e) / (D * pR (1 - ulpOf e)))
            (N * pL (1 - ulpOf e) % (D * pR (1 - ulpOf e)) != 0) ∧
      roundRat N D = (if (ulpOf e + 1074).toNat * 2 ^ 52 + q' ≥ 2047 * 2 ^ 52 then none
                      else some ((ulpOf e + 1074).toNat * 2 ^ 52 + q')) ∧
      ((ulpOf e = -1074 ∧ q' ≤ 2 ^ 52) ∨ (ulpOf e = e - 52 ∧ 2 ^ 52 ≤ q' ∧ q' ≤ 2 ^ 53)) := by
  obtain ⟨h1, h2⟩ := floorLog2Rat_spec N D hN hD
  obtain ⟨hc, hcase⟩ := roundRat_closed N D hN hD
  exact ⟨floorLog2Rat N D, _, h1, h2, rfl, hc, hcase⟩

/-! ## the interval in cross-multiplied form: `x = N/D` against `m·2^(q-2)` as `N·pL(2-q)` against `m·(D·pR(2-q))` -/

def IntervalN (c : Nat) (q : Int) (N D : Nat) : Prop :=
  if c % 2 = 0 then loUnits c q * (D * pR (2 - q)) ≤ N * pL (2 - q) ∧ N * pL (2 - q) ≤ hiUnits c * (D * pR (2 - q))
  else loUnits c q * (D * pR (2 - q)) < N * pL (2 - q) ∧ N * pL (2 - q) < hiUnits c * (D * pR (2 - q))

theorem inInterval_iff_N (c : Nat) (q : Int) (sig : Nat) (exp : Int) :
    inInterval c q sig exp = true ↔ IntervalN c q (sig * 10 ^ exp.toNat) (10 ^ (-exp).toNat) := by
  unfold inInterval IntervalN scaleA scaleB pL pR
  have e1 : (-(q - 2)).toNat = (2 - q).toNat := by congr 1; omega
  have e2 : (q - 2).toNat = (-(2 - q)).toNat := by congr 1; omega
  rw [e1, e2]
  have a1 : sig * (10 ^ exp.toNat * 2 ^ (2 - q).toNat) = sig * 10 ^ exp.toNat * 2 ^ (2 - q).toNat := by ac_rfl
  have a2 : ∀ m : Nat, m * (2 ^ (-(2 - q)).toNat * 10 ^ (-exp).toNat) = m * (10 ^ (-exp).toNat * 2 ^ (-(2 - q)).toNat) := by
    intro m; ac_rfl
  simp only [a1, a2]
  split <;> simp only [Bool.and_eq_true, decide_eq_true_eq]

/-- `m·B ≤ A` at the half-ulp scale `2^(q-1)` is `2m·U ≤ X` at the scale `2^(q-2)` -/
theorem half_le (N D : Nat) (q : Int) (m : Nat) :
    m * (D * pR (1 - q)) ≤ N * pL (1 - q) ↔ (2 * m) * (D * pR (2 - q)) ≤ N * pL (2 - q) := by
  have := ratio_le (m * D) N (pR (1 - q)) (pL (1 - q)) (2 * pR (2 - q)) (pL (2 - q)) (pL_pos _) (pL_pos _)
    (pow2_step q)
  rw [show m * (D * pR (1 - q)) = m * D * pR (1 - q) by ac_rfl,
    show 2 * m * (D * pR (2 - q)) = m * D * (2 * pR (2 - q)) by ac_rfl]
  exact this

theorem half_le' (N D : Nat) (q : Int) (m : Nat) :
    N * pL (1 - q) ≤ m * (D * pR (1 - q)) ↔ N * pL (2 - q) ≤ (2 * m) * (D * pR (2 - q)) := by
  have := ratio_le' (m * D) N (pR (1 - q)) (pL (1 - q)) (2 * pR (2 - q)) (pL (2 - q)) (pR_pos _)
    (Nat.mul_pos (by omega) (pR_pos _)) (pow2_step q)
  rw [show m * (D * pR (1 - q)) = m * D * pR (1 - q) by ac_rfl,
    show 2 * m * (D * pR (2 - q)) = m * D * (2 * pR (2 - q)) by ac_rfl]
  exact this

theorem half_lt (N D : Nat) (q : Int) (m : Nat) :
    m * (D * pR (1 - q)) < N * pL (1 - q) ↔ (2 * m) * (D * pR (2 - q)) < N * pL (2 - q) := by
  rw [← Nat.not_le, ← Nat.not_le, half_le']

theorem half_lt' (N D : Nat) (q : Int) (m : Nat) :
    N * pL (1 - q) < m * (D * pR (1 - q)) ↔ N * pL (2 - q) < (2 * m) * (D * pR (2 - q)) := by
  rw [← Nat.not_le, ← Nat.not_le, half_le]

/-- `2^(q+k-2) ≤ x` and `x < 2^(q+k-2)` at the scale `2^(q-2)` -/
theorem le2_units (N D : Nat) (q : Int) (k : Nat) :
    le2 (q - 2 + k) N D ↔ 2 ^ k * (D * pR (2 - q)) ≤ N * pL (2 - q) :=
  le2_shift (q - 2 + k) (2 - q) k (by omega) N D

theorem lt2_units (N D : Nat) (q : Int) (k : Nat) :
    lt2 (q - 2 + k) N D ↔ N * pL (2 - q) < 2 ^ k * (D * pR (2 - q)) :=
  lt2_shift (q - 2 + k) (2 - q) k (by omega) N D

/-- bounds on the binary exponent from bounds on the number -/
theorem exp_lt_of_lt2 {e k : Int} {N D : Nat} (h1 : le2 e N D) (h2 : lt2 k N D) : e < k := by
  apply Classical.byContradiction
  intro hn
  exact (not_le2_iff _ _ _).2 h2 (le2_mono (by omega) h1)

theorem exp_ge_of_le2 {e k : Int} {N D : Nat} (h1 : lt2 (e + 1) N D) (h2 : le2 k N D) : k ≤ e := by
  have := exp_lt_of_lt2 h2 h1
  omega

/-! ## bit patterns -/

theorem cq_of_enc (t q' : Nat) (h1 : q' ≤ 2 ^ 53) (h2 : t * 2 ^ 52 + q' < 2047 * 2 ^ 52)
    (h3 : t = 0 ∨ 2 ^ 52 ≤ q') :
    cqOfBits (t * 2 ^ 52 + q') =
      if q' < 2 ^ 52 then (q', -1074)
      else if q' < 2 ^ 53 then (q', (t : Int) - 1074) else (2 ^ 52, (t : Int) - 1073) := by
  unfold cqOfBits
  simp only [Nat.reducePow, Nat.reduceMul] at *
  by_cases c1 : q' < 4503599627370496
  · have ht : t = 0 := by omega
    subst ht
    have : (0 * 4503599627370496 + q') / 4503599627370496 % 2048 = 0 := by omega
    simp only [this, if_true, c1]
    rw [Prod.mk.injEq]; constructor <;> omega
  · simp only [c1, if_false]
    by_cases c2 : q' < 9007199254740992
    · have : (t * 4503599627370496 + q') / 4503599627370496 % 2048 = t + 1 := by omega
      simp only [this, c2, if_true]
      rw [if_neg (by omega)]
      rw [Prod.mk.injEq]; constructor <;> omega
    · have hq : q' = 9007199254740992 := by omega
      subst hq
      have : (t * 4503599627370496 + 9007199254740992) / 4503599627370496 % 2048 = t + 2 := by omega
      simp only [this, c2, if_false]
      rw [if_neg (by omega)]
      rw [Prod.mk.injEq]; constructor <;> omega


/-! ## the interval is the preimage of `c` under the rounding step (grid `2^q`) -/

theorem irregular_false_of (c : Nat) (q : Int) (h : c ≠ 2 ^ 52 ∨ q = -1074) : irregular c q = false := by
  unfold irregular
  rcases h with h | h
  · simp [h]
  · subst h; simp

theorem irregular_true_iff (c : Nat) (q : Int) : irregular c q = true ↔ c = 2 ^ 52 ∧ -1074 < q := by
  unfold irregular; simp

theorem interval_iff_roundQ (N D c : Nat) (q : Int) (hD : 0 < D) (hc : 0 < c)
    (hlow : irregular c q = true → 4 * c * (D * pR (2 - q)) ≤ N * pL (2 - q)) :
    IntervalN c q N D ↔
      roundQ (N * pL (1 - q) / (D * pR (1 - q))) (N * pL (1 - q) % (D * pR (1 - q)) != 0) = c := by
  rw [roundQ_eq_iff _ _ c (Nat.mul_pos hD (pR_pos _)) hc]
  unfold IntervalN
  rw [half_le, half_le', half_lt, half_lt']
  have ehi : hiUnits c = 2 * (2 * c + 1) := by unfold hiUnits; omega
  rw [ehi]
  by_cases hirr : irregular c q = true
  · have hl := hlow hirr
    have hceven : c % 2 = 0 := by
      rw [irregular_true_iff] at hirr; rw [hirr.1]
    have elo : loUnits c q = 4 * c - 1 := by unfold loUnits; simp only [hirr, if_true]
    rw [elo, if_pos hceven, if_pos hceven]
    have m1 : (4 * c - 1) * (D * pR (2 - q)) ≤ 4 * c * (D * pR (2 - q)) := Nat.mul_le_mul_right _ (by omega)
    have m2 : 2 * (2 * c - 1) * (D * pR (2 - q)) ≤ 4 * c * (D * pR (2 - q)) := Nat.mul_le_mul_right _ (by omega)
    constructor
    · intro h; exact ⟨by omega, h.2⟩
    · intro h; exact ⟨by omega, h.2⟩
  · have elo : loUnits c q = 2 * (2 * c - 1) := by unfold loUnits; rw [if_neg hirr]; omega
    rw [elo]


/-! ## `roundRat N D = some bits` implies `N/D` is in the rounding interval of `bits` -/

theorem interval_of_roundRat (N D bits : Nat) (hN : 0 < N) (hD : 0 < D) (hnz : bits ≠ 0)
    (h : roundRat N D = some bits) : IntervalN (cqOfBits bits).1 (cqOfBits bits).2 N D := by
  obtain ⟨e, q', he1, he2, hq', hr, hcase⟩ := roundRat_form N D hN hD
  have hg := ulpOf_ge e
  generalize hgg : ulpOf e = g at *
  rw [hr] at h
  split at h
  · cases h
  · rename_i hfin
    simp only [Option.some.injEq] at h
    subst h
    obtain ⟨t, ht⟩ : ∃ t : Nat, (g + 1074).toNat = t := ⟨_, rfl⟩
    have hgt : g = (t : Int) - 1074 := by omega
    rw [ht] at hfin hnz ⊢
    have hP : (2 : Nat) ^ 52 = 4503599627370496 := by decide
    have hP3 : (2 : Nat) ^ 53 = 9007199254740992 := by decide
    have hq'pos : 0 < q' := by
      rcases hcase with ⟨h1, _⟩ | ⟨_, h1, _⟩
      · have : t = 0 := by omega
        subst this; omega
      · omega
    have hq53 : q' ≤ 2 ^ 53 := by rcases hcase with ⟨_, h1⟩ | ⟨_, _, h1⟩ <;> omega
    have ht0 : t = 0 ∨ 2 ^ 52 ≤ q' := by
      rcases hcase with ⟨h1, _⟩ | ⟨_, h1, _⟩
      · left; omega
      · right; exact h1
    rw [cq_of_enc t q' hq53 (by omega) ht0]
    by_cases c1 : q' < 2 ^ 52
    · rw [if_pos c1]
      have hg1 : g = -1074 := by rcases hcase with ⟨h1, _⟩ | ⟨_, h1, _⟩ <;> omega
      subst hg1
      exact (interval_iff_roundQ N D q' (-1074) hD hq'pos (fun hi => by
        rw [irregular_false_of _ _ (Or.inr rfl)] at hi; cases hi)).2 hq'.symm
    · rw [if_neg c1]
      by_cases c2 : q' < 2 ^ 53
      · rw [if_pos c2]
        show IntervalN q' ((t : Int) - 1074) N D
        rw [← hgt]
        refine (interval_iff_roundQ N D q' g hD hq'pos (fun hi => ?_)).2 hq'.symm
        -- irregular: q' = 2^52, g > -1074, so g = e - 52 and 2^(g+52) ≤ x
        rw [irregular_true_iff] at hi
        have he : g = e - 52 := by rcases hcase with ⟨h1, _⟩ | ⟨h1, _⟩ <;> omega
        have := (le2_units N D g 54).1 (by rw [show g - 2 + ((54 : Nat) : Int) = e by omega]; exact he1)
        rw [hi.1]
        exact this
      · rw [if_neg c2]
        have hq : q' = 2 ^ 53 := by omega
        show IntervalN (2 ^ 52) ((t : Int) - 1073) N D
        have hI := (roundQ_eq_iff _ _ q' (Nat.mul_pos hD (pR_pos _)) hq'pos).1 hq'.symm
        rw [hq, if_pos (by decide)] at hI
        unfold IntervalN
        rw [if_pos (by decide), show (2 : Int) - ((t : Int) - 1073) = 1 - g by omega]
        have elo : loUnits (2 ^ 52) ((t : Int) - 1073) = 2 * 2 ^ 53 - 1 := by
          unfold loUnits
          rw [(irregular_true_iff _ _).2 ⟨rfl, by omega⟩]
          decide
        have ehi : hiUnits (2 ^ 52) = 2 * 2 ^ 53 + 1 + 1 := by decide
        rw [elo, ehi]
        refine ⟨hI.1, Nat.le_trans hI.2 (Nat.mul_le_mul_right _ (by omega))⟩


/-! ## `N/D` in the rounding interval of `(c, q)` implies `roundRat N D` is the bit pattern of `(c, q)` -/

theorem interval_weak (c : Nat) (q : Int) (N D : Nat) (h : IntervalN c q N D) :
    loUnits c q * (D * pR (2 - q)) ≤ N * pL (2 - q) ∧ N * pL (2 - q) ≤ hiUnits c * (D * pR (2 - q)) := by
  unfold IntervalN at h
  split at h
  · exact h
  · exact ⟨Nat.le_of_lt h.1, Nat.le_of_lt h.2⟩

theorem roundQ_top (st : Bool) : roundQ (2 ^ 54 - 1) st = 2 ^ 53 := by
  have := roundQ_split (2 ^ 53 - 1) 1 (by omega) st
  rw [show 2 * (2 ^ 53 - 1) + 1 = 2 ^ 54 - 1 by decide] at this
  rw [this, if_pos ⟨rfl, Or.inr (by decide)⟩]

theorem roundRat_of_interval_cq (N D c : Nat) (q : Int) (hN : 0 < N) (hD : 0 < D) (hv : ValidCQ c q)
    (h : IntervalN c q N D) : roundRat N D = some ((q + 1074).toNat * 2 ^ 52 + c) := by
  obtain ⟨hc0, hc53, hq1, hq2, hnorm⟩ := hv
  obtain ⟨e, q', he1, he2, hq', hr, hcase⟩ := roundRat_form N D hN hD
  obtain ⟨hlo, hhi⟩ := interval_weak c q N D h
  have hU : 0 < D * pR (2 - q) := Nat.mul_pos hD (pR_pos _)
  have hP : (2 : Nat) ^ 52 = 4503599627370496 := by decide
  have hP3 : (2 : Nat) ^ 53 = 9007199254740992 := by decide
  -- x < 2^(q+53)
  have hup : e < q + 53 := by
    have h1 : hiUnits c * (D * pR (2 - q)) < 2 ^ 55 * (D * pR (2 - q)) :=
      Nat.mul_lt_mul_of_pos_right (by unfold hiUnits; omega) hU
    have := (lt2_units N D q 55).2 (Nat.lt_of_le_of_lt hhi h1)
    have := exp_lt_of_lt2 he1 this
    omega
  -- the regular finish: the grid is `2^q`
  have fin : ulpOf e = q → (irregular c q = true → 4 * c * (D * pR (2 - q)) ≤ N * pL (2 - q)) →
      roundRat N D = some ((q + 1074).toNat * 2 ^ 52 + c) := by
    intro hg hlow
    rw [hg] at hq' hr
    have := (interval_iff_roundQ N D c q hD hc0 hlow).1 h
    rw [this] at hq'
    subst hq'
    rw [hr, if_neg (by omega)]
  by_cases hqs : q = -1074
  · apply fin
    · unfold ulpOf; split <;> omega
    · intro hi; rw [irregular_true_iff] at hi; omega
  · have hcn := hnorm hqs
    by_cases hbig : 2 ^ 54 * (D * pR (2 - q)) ≤ N * pL (2 - q)
    · apply fin
      · have := exp_ge_of_le2 he2 ((le2_units N D q 54).2 hbig)
        unfold ulpOf; split <;> omega
      · intro hi; rw [irregular_true_iff] at hi
        rw [hi.1]; exact hbig
    · -- below the power of two: only possible at the start of a binade
      have hc : c = 2 ^ 52 := by
        apply Classical.byContradiction
        intro hne
        have h1 : 2 ^ 54 * (D * pR (2 - q)) ≤ loUnits c q * (D * pR (2 - q)) :=
          Nat.mul_le_mul_right _ (by unfold loUnits; split <;> omega)
        omega
      subst hc
      have hirr : irregular (2 ^ 52) q = true := (irregular_true_iff _ _).2 ⟨rfl, by omega⟩
      have elo : loUnits (2 ^ 52) q = 2 ^ 54 - 1 := by
        unfold loUnits; rw [hirr]; decide
      rw [elo] at hlo
      have hlt : N * pL (2 - q) < 2 ^ 54 * (D * pR (2 - q)) := by omega
      have h53 : 2 ^ 53 * (D * pR (2 - q)) ≤ N * pL (2 - q) :=
        Nat.le_trans (Nat.mul_le_mul_right _ (by decide)) hlo
      have e1 := exp_lt_of_lt2 he1 ((lt2_units N D q 54).2 hlt)
      have e2 := exp_ge_of_le2 he2 ((le2_units N D q 53).2 h53)
      have hg : ulpOf e = q - 1 := by unfold ulpOf; split <;> omega
      rw [hg, show (1 : Int) - (q - 1) = 2 - q by omega] at hq'
      rw [hg] at hr
      have hdiv : N * pL (2 - q) / (D * pR (2 - q)) = 2 ^ 54 - 1 := by
        have a1 := (Nat.le_div_iff_mul_le hU).2 hlo
        have a2 := (Nat.div_lt_iff_lt_mul hU).2 hlt
        omega
      rw [hdiv, roundQ_top] at hq'
      subst hq'
      rw [hr, if_neg (by omega)]
      apply congrArg some
      omega


/-! ## bit patterns of finite non-zero non-negative doubles -/

theorem cq_of_bits (bits : Nat) (hb : bits < 2 ^ 63) (hfin : bits / 2 ^ 52 % 2 ^ 11 ≠ 2047) (hnz : bits ≠ 0) :
    ValidCQ (cqOfBits bits).1 (cqOfBits bits).2 ∧
    ((cqOfBits bits).2 + 1074).toNat * 2 ^ 52 + (cqOfBits bits).1 = bits := by
  unfold cqOfBits ValidCQ
  simp only [Nat.reducePow] at *
  by_cases h0 : bits / 4503599627370496 % 2048 = 0
  · simp only [h0, if_true]
    refine ⟨⟨by omega, by omega, by omega, by omega, by omega⟩, by omega⟩
  · simp only [h0, if_false]
    refine ⟨⟨by omega, by omega, by omega, by omega, by omega⟩, by omega⟩

theorem roundRat_iff_interval (N D bits : Nat) (hN : 0 < N) (hD : 0 < D) (hb : bits < 2 ^ 63)
    (hfin : bits / 2 ^ 52 % 2 ^ 11 ≠ 2047) (hnz : bits ≠ 0) :
    roundRat N D = some bits ↔ IntervalN (cqOfBits bits).1 (cqOfBits bits).2 N D := by
  constructor
  · exact interval_of_roundRat N D bits hN hD hnz
  · intro h
    obtain ⟨hv, hbits⟩ := cq_of_bits bits hb hfin hnz
    rw [roundRat_of_interval_cq N D _ _ hN hD hv h, hbits]

/-! ## the clamps of `Rne.round`: decimals outside `[10^-401, 10^400]` are in no rounding interval -/

theorem pow10_le_of_add (a k n : Nat) (h : a + k ≤ n) : 10 ^ a * 10 ^ k ≤ 10 ^ n := by
  rw [← Nat.pow_add]; exact Nat.pow_le_pow_right (by omega) h

/-- opaque powers (kept out of reach of `omega` / `simp` literal evaluation) -/
@[irreducible] def twoP (k : Nat) : Nat := 2 ^ k
@[irreducible] def tenP (k : Nat) : Nat := 10 ^ k

theorem pow_le_twoP (a k : Nat) (h : a ≤ k) : 2 ^ a ≤ twoP k := by
  unfold twoP; exact Nat.pow_le_pow_right (by omega) h

theorem tenP_pos (k : Nat) : 0 < tenP k := by unfold tenP; exact Nat.pow_pos (by omega)

theorem tenP_mul_le (a k n : Nat) (h : a + k ≤ n) : tenP a * 10 ^ k ≤ 10 ^ n := by
  unfold tenP; exact pow10_le_of_add a k n h

theorem mul_tenP_le (a k n : Nat) (h : a + k ≤ n) : 10 ^ a * tenP k ≤ 10 ^ n := by
  unfold tenP; exact pow10_le_of_add a k n h

theorem big_pow : twoP 55 * twoP 969 < tenP 400 := by decide +kernel
theorem small_pow : twoP 1076 ≤ tenP 401 := by decide +kernel

theorem interval_not_big (c : Nat) (q : Int) (sig : Nat) (exp : Int) (hv : ValidCQ c q) (hs : 0 < sig)
    (h : exp + (dl sig : Int) > 400) : ¬ IntervalN c q (sig * 10 ^ exp.toNat) (10 ^ (-exp).toNat) := by
  intro hI
  obtain ⟨hc0, hc53, hq1, hq2, _⟩ := hv
  obtain ⟨_, hhi⟩ := interval_weak _ _ _ _ hI
  have hdl := pow_dl_le sig hs
  have hdp := dl_pos sig
  -- sig·10^exp⁺ ≥ 10^400·D
  have h1 : tenP 400 * 10 ^ (-exp).toNat ≤ sig * 10 ^ exp.toNat :=
    Nat.le_trans (tenP_mul_le 400 (-exp).toNat (dl sig - 1 + exp.toNat) (by omega))
      (by rw [Nat.pow_add]; exact Nat.mul_le_mul_right _ hdl)
  have h2 : sig * 10 ^ exp.toNat ≤ sig * 10 ^ exp.toNat * pL (2 - q) := Nat.le_mul_of_pos_right _ (pL_pos _)
  have h3 : pR (2 - q) ≤ twoP 969 := by
    unfold pR; exact pow_le_twoP _ _ (by omega)
  have h55 : hiUnits c ≤ twoP 55 := by
    have : twoP 55 = 36028797018963968 := by unfold twoP; decide
    rw [this]; unfold hiUnits; omega
  have h4 : hiUnits c * (10 ^ (-exp).toNat * pR (2 - q)) ≤ twoP 55 * (10 ^ (-exp).toNat * twoP 969) :=
    Nat.mul_le_mul h55 (Nat.mul_le_mul_left _ h3)
  have h5 : twoP 55 * (10 ^ (-exp).toNat * twoP 969) = twoP 55 * twoP 969 * 10 ^ (-exp).toNat := by
    rw [Nat.mul_comm (10 ^ (-exp).toNat) (twoP 969), Nat.mul_assoc]
  have h6 : twoP 55 * twoP 969 * 10 ^ (-exp).toNat < tenP 400 * 10 ^ (-exp).toNat :=
    Nat.mul_lt_mul_of_pos_right big_pow (Nat.pow_pos (by omega))
  rw [h5] at h4
  exact Nat.lt_irrefl _ (Nat.lt_of_lt_of_le h6 (Nat.le_trans h1 (Nat.le_trans h2 (Nat.le_trans hhi h4))))

theorem interval_not_small (c : Nat) (q : Int) (sig : Nat) (exp : Int) (hv : ValidCQ c q)
    (h : exp + (dl sig : Int) < -400) : ¬ IntervalN c q (sig * 10 ^ exp.toNat) (10 ^ (-exp).toNat) := by
  intro hI
  obtain ⟨hc0, hc53, hq1, hq2, _⟩ := hv
  obtain ⟨hlo, _⟩ := interval_weak _ _ _ _ hI
  have hdl := lt_pow_dl sig
  have hdp := dl_pos sig
  have he : exp.toNat = 0 := by omega
  rw [he, Nat.pow_zero, Nat.mul_one] at hlo
  have h1 : pL (2 - q) ≤ twoP 1076 := by
    unfold pL; exact pow_le_twoP _ _ (by omega)
  have h2 : sig * pL (2 - q) < 10 ^ dl sig * tenP 401 :=
    Nat.mul_lt_mul_of_lt_of_le hdl (Nat.le_trans h1 small_pow) (tenP_pos _)
  have h3 : 10 ^ dl sig * tenP 401 ≤ 10 ^ (-exp).toNat := mul_tenP_le _ _ _ (by omega)
  have h4 : 10 ^ (-exp).toNat ≤ loUnits c q * (10 ^ (-exp).toNat * pR (2 - q)) := by
    have a1 : 1 ≤ loUnits c q := by unfold loUnits; split <;> omega
    have a2 : 10 ^ (-exp).toNat ≤ 10 ^ (-exp).toNat * pR (2 - q) := Nat.le_mul_of_pos_right _ (pR_pos _)
    exact Nat.le_trans a2 (Nat.le_mul_of_pos_left _ a1)
  exact Nat.lt_irrefl _ (Nat.lt_of_lt_of_le h2 (Nat.le_trans h3 (Nat.le_trans h4 hlo)))

/-! ## the theorem -/

/-- For every finite non-zero non-negative bit pattern and every decimal `sig·10^exp`, `sig > 0`: the decimal is in
    the rounding interval of the double iff the reference rounding of the decimal is that bit pattern. -/
theorem inInterval_iff_round (bits : Nat) (hb : bits < 2 ^ 63) (hfin : bits / 2 ^ 52 % 2 ^ 11 ≠ 2047)
    (hnz : bits ≠ 0) (sig : Nat) (exp : Int) (hs : 0 < sig) :
    inInterval (cqOfBits bits).1 (cqOfBits bits).2 sig exp = true ↔ round false sig exp = some bits := by
  obtain ⟨hv, _⟩ := cq_of_bits bits hb hfin hnz
  rw [inInterval_iff_N, round_eq false sig exp (by omega)]
  simp only [Bool.false_eq_true, if_false, map_add_zero]
  by_cases h1 : exp + (dl sig : Int) > 400
  · rw [if_pos h1]
    constructor
    · intro h; exact absurd h (interval_not_big _ _ sig exp hv hs h1)
    · intro h; cases h
  · rw [if_neg h1]
    by_cases h2 : exp + (dl sig : Int) < -400
    · rw [if_pos h2]
      constructor
      · intro h; exact absurd h (interval_not_small _ _ sig exp hv h2)
      · intro h
        simp only [Option.some.injEq] at h
        exact absurd h.symm hnz
    · rw [if_neg h2]
      exact (roundRat_iff_interval _ _ bits (Nat.mul_pos hs (Nat.pow_pos (by omega))) (Nat.pow_pos (by omega))
        hb hfin hnz).symm


/-- the same with a sign: `neg` is the sign bit (bit 63) of the pattern, `b` its 63 low bits -/
theorem inInterval_iff_round_signed (neg : Bool) (b : Nat) (hb : b < 2 ^ 63) (hfin : b / 2 ^ 52 % 2 ^ 11 ≠ 2047)
    (hnz : b ≠ 0) (sig : Nat) (exp : Int) (hs : 0 < sig) :
    inInterval (cqOfBits b).1 (cqOfBits b).2 sig exp = true ↔
      round neg sig exp = some (b + (if neg then 2 ^ 63 else 0)) := by
  rw [inInterval_iff_round b hb hfin hnz sig exp hs]
  cases neg with
  | false => simp
  | true =>
    rw [round_neg]
    cases round false sig exp with
    | none => simp
    | some x => simp

/-- `(c, q)` only depends on the 63 low bits -/
theorem cqOfBits_low (bits : Nat) : cqOfBits (bits % 2 ^ 63) = cqOfBits bits := by
  unfold cqOfBits
  have e1 : bits % 2 ^ 63 % 2 ^ 52 = bits % 2 ^ 52 := by omega
  have e2 : bits % 2 ^ 63 / 2 ^ 52 % 2 ^ 11 = bits / 2 ^ 52 % 2 ^ 11 := by omega
  rw [e1, e2]

end Sonic.Proofs.FtoaRne
