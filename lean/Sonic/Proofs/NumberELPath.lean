import Sonic.Proofs.NumberConvert

/-!
# Helper lemmas for C04: a result with path `el` / `el2` comes from `AtofEiselLemire64`
-/
namespace Sonic.Proofs.Number

open Sonic.Spec (JNum)
open Sonic.Model.Number
open Sonic.Model.EiselLemire (atofEiselLemire64)

/-- `parseFloatEiselLemire64` answering through Eisel-Lemire: one call for an exact mantissa, two agreeing calls
    (`man`, `man + 1`) for a truncated one -/
theorem pfel_el (f : FloatIn) (native : List Nat) (v : JNum) (n : Nat) (p : Path) (hp : p = .el ∨ p = .el2)
    (h : parseFloatEiselLemire64 f native = .ok v n p) :
    n = f.next ∧ ∃ b, v = .real b ∧ atofEiselLemire64 f.man f.exp10 f.neg = some b ∧
      ((p = .el ∧ f.trunc = false) ∨
       (p = .el2 ∧ f.trunc = true ∧ atofEiselLemire64 ((f.man + 1) % 2 ^ 64) f.exp10 f.neg = some b)) := by
  have tail : ∀ r : PResult,
      r = (let (bits, fault) := Sonic.Model.BigDecimal.atofNative native
           if fault then PResult.err 255 f.next
           else if bits * 2 % 2 ^ 64 = 0xFFE0000000000000 then PResult.err errInfinity f.next
           else PResult.ok (JNum.real bits) f.next Path.native) →
      r ≠ .ok v n p := by
    intro r hr
    rw [hr]
    generalize Sonic.Model.BigDecimal.atofNative native = res
    obtain ⟨bits, fault⟩ := res
    dsimp only
    by_cases hf : fault = true
    · rw [if_pos hf]; exact fun hh => by cases hh
    · rw [if_neg hf]
      by_cases hi : bits * 2 % 2 ^ 64 = 0xFFE0000000000000
      · rw [if_pos hi]; exact fun hh => by cases hh
      · rw [if_neg hi]
        intro hh
        simp only [PResult.ok.injEq] at hh
        rcases hp with hp | hp <;> rw [hp] at hh <;> exact absurd hh.2.2 (by decide)
  unfold parseFloatEiselLemire64 at h
  cases h1 : atofEiselLemire64 f.man f.exp10 f.neg with
  | none => rw [h1] at h; exact absurd h (tail _ rfl)
  | some b =>
    rw [h1] at h
    dsimp only at h
    by_cases ht : (!f.trunc) = true
    · rw [if_pos ht] at h
      simp only [PResult.ok.injEq] at h
      have : f.trunc = false := by simpa using ht
      exact ⟨h.2.1.symm, b, h.1.symm, rfl, Or.inl ⟨h.2.2.symm, this⟩⟩
    · rw [if_neg ht] at h
      have htr : f.trunc = true := by simpa using ht
      cases h2 : atofEiselLemire64 ((f.man + 1) % 2 ^ 64) f.exp10 f.neg with
      | none => rw [h2] at h; exact absurd h (tail _ rfl)
      | some up =>
        rw [h2] at h
        dsimp only at h
        by_cases hu : up = b
        · rw [if_pos hu] at h
          simp only [PResult.ok.injEq] at h
          exact ⟨h.2.1.symm, b, h.1.symm, rfl, Or.inr ⟨h.2.2.symm, htr, by rw [hu]⟩⟩
        · rw [if_neg hu] at h; exact absurd h (tail _ rfl)

/-- a result of `convert` with path `el` / `el2` comes from the Eisel-Lemire branch -/
theorem convert_el (f : FloatIn) (native : List Nat) (v : JNum) (n : Nat) (p : Path) (hp : p = .el ∨ p = .el2)
    (h : convert f native = .ok v n p) :
    f.man ≠ 0 ∧ n = f.next ∧ ∃ b, v = .real b ∧ atofEiselLemire64 f.man f.exp10 f.neg = some b ∧
      ((p = .el ∧ f.trunc = false) ∨
       (p = .el2 ∧ f.trunc = true ∧ atofEiselLemire64 ((f.man + 1) % 2 ^ 64) f.exp10 f.neg = some b)) := by
  rcases convert_cases f native with ⟨_, h'⟩ | ⟨_, _, d, _, h'⟩ | ⟨_, raw, h'⟩ | ⟨h0, h'⟩
  · rw [h'] at h
    simp only [PResult.ok.injEq] at h
    rcases hp with hp | hp <;> rw [hp] at h <;> exact absurd h.2.2 (by decide)
  · rw [h'] at h
    simp only [PResult.ok.injEq] at h
    rcases hp with hp | hp <;> rw [hp] at h <;> exact absurd h.2.2 (by decide)
  · rw [h'] at h
    simp only [PResult.ok.injEq] at h
    rcases hp with hp | hp <;> rw [hp] at h <;> exact absurd h.2.2 (by decide)
  · rw [h'] at h
    exact ⟨h0, pfel_el f native v n p hp h⟩

open Sonic.Spec Sonic.Spec.Number in
/-- the reference value of a token that is not a 64-bit integer text is the correctly rounded double -/
theorem value_of_round (t : Token) (hn : ¬ (t.isInteger = true ∧ t.mantissa < 2 ^ 64)) (b : Nat)
    (hr : Rne.round t.neg t.mantissa t.exponent = some b) : t.value = some (.real b) := by
  unfold Token.value
  by_cases hi : t.isInteger = true
  · have hbig : ¬ (t.mantissa < 2 ^ 64) := fun hh => hn ⟨hi, hh⟩
    have h0 : t.mantissa ≠ 0 := by
      intro h0; rw [h0] at hbig; exact hbig (Nat.pow_pos (by omega))
    have h63 : ¬ (t.mantissa ≤ 2 ^ 63) := by
      intro h63; exact hbig (Nat.lt_of_le_of_lt h63 (by decide))
    simp only [hi, Bool.true_and, Bool.and_eq_true, decide_eq_true_eq, hbig, and_false, if_false, h0, h63]
    rw [hr]; rfl
  · have hi' : t.isInteger = false := by simpa using hi
    simp only [hi', Bool.false_and, Bool.false_eq_true, if_false]
    rw [hr]; rfl

end Sonic.Proofs.Number
