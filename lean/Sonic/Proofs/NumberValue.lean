import Sonic.Proofs.NumberMaster
import Sonic.Proofs.NumberFast

/-!
# Helper lemmas for C04: the value the reference assigns to integer tokens, and `malformed`
-/
namespace Sonic.Proofs.Number

open Sonic.Spec
open Sonic.Spec.Number
open Sonic.Model.Number

theorem scanNumber_malformed_iff (buf : List Nat) (start : Nat) :
    scanNumber buf start = .malformed ↔ scanToken (buf.drop start) = none := by
  unfold scanNumber
  cases scanToken (buf.drop start) with
  | none => simp
  | some t =>
    simp only
    cases t.value <;> simp

theorem value_int (t : Token) (hint : t.isInteger = true) (hfit : t.mantissa < 2 ^ 64) :
    t.value = some (intVal t.neg t.mantissa) := by
  have hexp : t.exponent = 0 := by
    unfold Token.isInteger at hint
    unfold Token.exponent
    cases hf : t.fracDigits <;> cases he : t.exp <;> simp_all [expVal]
  unfold Token.value intVal
  simp only [hint, Bool.true_and]
  cases hneg : t.neg
  · simp only [Bool.not_false, Bool.true_and, decide_eq_true_eq, hfit, if_true, Bool.false_eq_true, if_false]
    split <;> simp_all
  · simp only [Bool.not_true, Bool.false_and, Bool.false_eq_true, if_false, Bool.true_and, decide_eq_true_eq, if_true]
    by_cases h0 : t.mantissa = 0
    · simp [h0]
    · simp only [h0, if_false]
      by_cases h63 : t.mantissa ≤ 2 ^ 63
      · have : ¬ (t.mantissa > 2 ^ 63) := by omega
        simp [h63, this]
      · have : t.mantissa > 2 ^ 63 := by omega
        simp only [h63, if_false, this, if_true]
        rw [hexp, Sonic.Proofs.Rne.neg_u64 true t.mantissa (by omega) hfit]
        rfl

end Sonic.Proofs.Number
