import Sonic.Proofs.DecLeftShift

/-!
# `RoundedInteger(d)`: the integer nearest to the decimal, ties to even, `trunc` as the sticky bit
-/
namespace Sonic.Proofs.Dec

open Sonic.Model.BigDecimal

theorem dval_split (a : Array Nat) (i : Nat) : ∀ m, dval a (i + m) = dval a i * 10 ^ m + mval a i m
  | 0 => by simp [mval]
  | m + 1 => by
    rw [← Nat.add_assoc, dval_succ, dval_split a i m, mval_snoc, Nat.pow_succ]; ring

theorem mval_pos (a : Array Nat) (i m : Nat) (hm : 0 < m) (h : 48 < rd a (i + m - 1)) : 0 < mval a i m := by
  obtain ⟨m', rfl⟩ : ∃ m', m = m' + 1 := ⟨m - 1, by omega⟩
  rw [mval_snoc]
  have : i + (m' + 1) - 1 = i + m' := by omega
  rw [this] at h
  omega

theorem riDigits_eq (a : Array Nat) : ∀ c i n, (∀ j, i ≤ j → j < i + c → 48 ≤ rd a j ∧ rd a j ≤ 57) →
    n * 10 ^ c + mval a i c < 2 ^ 64 → riDigits a i c n = n * 10 ^ c + mval a i c
  | 0, i, n, _, _ => by simp [riDigits, mval]
  | c + 1, i, n, hd, hlt => by
    have hdg := hd i (Nat.le_refl _) (by omega)
    have e : n * 10 ^ (c + 1) + mval a i (c + 1) = (n * 10 + (rd a i - 48)) * 10 ^ c + mval a (i + 1) c := by
      rw [mval_succ, Nat.pow_succ]; ring
    have hp : 0 < 10 ^ c := Nat.pow_pos (by omega)
    have hsmall : n * 10 + (rd a i - 48) < 2 ^ 64 := by
      rw [e] at hlt
      have : (n * 10 + (rd a i - 48)) * 1 ≤ (n * 10 + (rd a i - 48)) * 10 ^ c := Nat.mul_le_mul_left _ hp
      omega
    have hu : u64 ((n : Int) * 10 + ((rd a i : Int) - 48)) = n * 10 + (rd a i - 48) := by
      unfold u64
      have e : (n : Int) * 10 + ((rd a i : Int) - 48) = ((n * 10 + (rd a i - 48) : Nat) : Int) := by omega
      rw [e]
      have : ((n * 10 + (rd a i - 48) : Nat) : Int) % (2 ^ 64 : Int) = ((n * 10 + (rd a i - 48)) % 2 ^ 64 : Nat) := by
        norm_cast
      rw [this, Int.toNat_natCast, Nat.mod_eq_of_lt hsmall]
    rw [riDigits, hu, riDigits_eq a c (i + 1) _ (fun j h1 h2 => hd j (by omega) (by omega)) (by rw [← e]; exact hlt), e]

theorem riPad_eq : ∀ c n, n * 10 ^ c < 2 ^ 64 → riPad c n = n * 10 ^ c
  | 0, n, _ => by simp [riPad]
  | c + 1, n, h => by
    have e : n * 10 ^ (c + 1) = n * 10 * 10 ^ c := by rw [Nat.pow_succ]; ring
    have hp : 0 < 10 ^ c := Nat.pow_pos (by omega)
    have : n * 10 * 1 ≤ n * 10 * 10 ^ c := Nat.mul_le_mul_left _ hp
    rw [riPad, Nat.mod_eq_of_lt (by omega), riPad_eq c (n * 10) (by omega), e]

/-- the rounding decision on the fractional part `R/10^e` of an integer-plus-fraction split at digit `i` -/
theorem shouldRoundup_iff (d : Decimal) (hwf : WF d) (htrim : Trimmed d) (i : Nat) (hi : i < d.nd) :
    (shouldRoundup d (i : Int) = true ↔
      (2 * mval d.d i (d.nd - i) > 10 ^ (d.nd - i) ∨
        (2 * mval d.d i (d.nd - i) = 10 ^ (d.nd - i) ∧ (d.trunc = true ∨ dval d.d i % 2 = 1)))) := by
  obtain ⟨_, hnd, hdig, _, _⟩ := hwf
  have hx := hdig i hi
  have e1 : d.nd - i = (d.nd - (i + 1)) + 1 := by omega
  have hR' : mval d.d (i + 1) (d.nd - (i + 1)) < 10 ^ (d.nd - (i + 1)) :=
    mval_lt _ _ _ (fun j h1 h2 => hdig j (by omega))
  have hP : 0 < 10 ^ (d.nd - (i + 1)) := Nat.pow_pos (by omega)
  unfold shouldRoundup
  rw [if_neg (by omega)]
  simp only [Int.toNat_natCast]
  rw [e1, mval_succ, Nat.pow_succ]
  by_cases h5 : rd d.d i = 53 ∧ i + 1 = d.nd
  · rw [if_pos h5]
    have hz : d.nd - (i + 1) = 0 := by omega
    rw [hz, h5.1]
    simp only [mval, Nat.pow_zero]
    have hpar : (i > 0 ∧ (rd d.d (i - 1) - 48) % 2 ≠ 0) ↔ dval d.d i % 2 = 1 := by
      rcases Nat.eq_zero_or_pos i with h0 | h0
      · subst h0; simp [dval]
      · obtain ⟨i', rfl⟩ : ∃ i', i = i' + 1 := ⟨i - 1, by omega⟩
        rw [dval_succ]
        simp only [Nat.add_sub_cancel]
        omega
    by_cases ht : d.trunc = true
    · simp [ht]
    · have ht' : d.trunc = false := by simpa using ht
      rw [ht']
      simp only [Bool.false_eq_true, if_false, false_or, decide_eq_true_eq]
      constructor
      · intro h; right; exact ⟨by norm_num, hpar.1 h⟩
      · intro h; rcases h with h | h
        · omega
        · exact hpar.2 h.2
  · rw [if_neg h5]
    simp only [decide_eq_true_eq]
    generalize hPdef : 10 ^ (d.nd - (i + 1)) = P at *
    generalize hR'def : mval d.d (i + 1) (d.nd - (i + 1)) = R' at *
    by_cases hge : rd d.d i ≥ 54
    · have : 6 * P ≤ (rd d.d i - 48) * P := Nat.mul_le_mul_right _ (by omega)
      constructor
      · intro _; left; omega
      · intro _; omega
    · by_cases h53 : rd d.d i = 53
      · have hne : i + 1 ≠ d.nd := fun h => h5 ⟨h53, h⟩
        have hlast : 48 < rd d.d (i + 1 + (d.nd - (i + 1)) - 1) := by
          have e : i + 1 + (d.nd - (i + 1)) - 1 = d.nd - 1 := by omega
          rw [e]
          rcases htrim with h | h
          · omega
          · have := hdig (d.nd - 1) (by omega); omega
        have hpos := mval_pos d.d (i + 1) (d.nd - (i + 1)) (by omega) hlast
        rw [hR'def] at hpos
        rw [h53]
        constructor
        · intro _; left; omega
        · intro _; omega
      · have : (rd d.d i - 48) * P ≤ 4 * P := Nat.mul_le_mul_right _ (by omega)
        constructor
        · intro h; omega
        · intro h; exfalso; rcases h with h | h <;> omega

theorem shouldRoundup_false (d : Decimal) (n : Int) (h : n < 0 ∨ n ≥ d.nd) : shouldRoundup d n = false := by
  unfold shouldRoundup; rw [if_pos h]

/-- **`RoundedInteger`** (for `dp ≤ 19`, so that nothing overflows 64 bits): with `e = nd - dp` fraction digits,
    `q = ⌊D/10^e⌋`, `r = D mod 10^e`: the result is `q + 1` if the fraction is above one half, or exactly one half and
    (`trunc` or `q` odd); otherwise `q`.  Without fraction digits the result is `D·10^(dp-nd)` exactly. -/
theorem roundedInteger_spec (d : Decimal) (hwf : WF d) (htrim : Trimmed d) (hnd0 : 0 < d.nd) (hdp : d.dp ≤ 19) :
    ((d.nd : Int) ≤ d.dp → roundedInteger d = Dnat d * 10 ^ (d.dp - d.nd).toNat) ∧
    (d.dp < (d.nd : Int) →
      roundedInteger d =
        if 2 * (Dnat d % 10 ^ ((d.nd : Int) - d.dp).toNat) > 10 ^ ((d.nd : Int) - d.dp).toNat ∨
            (2 * (Dnat d % 10 ^ ((d.nd : Int) - d.dp).toNat) = 10 ^ ((d.nd : Int) - d.dp).toNat ∧
              (d.trunc = true ∨ Dnat d / 10 ^ ((d.nd : Int) - d.dp).toNat % 2 = 1))
        then Dnat d / 10 ^ ((d.nd : Int) - d.dp).toNat + 1 else Dnat d / 10 ^ ((d.nd : Int) - d.dp).toNat) := by
  have hdig := hwf.digits
  have hDlt : Dnat d < 10 ^ d.nd := dval_lt _ _ hdig
  have h1019 : (10 : Nat) ^ 19 < 2 ^ 64 := by decide
  constructor
  · intro hge
    obtain ⟨p, hp⟩ : ∃ p : Nat, d.dp = (d.nd : Int) + p := ⟨(d.dp - d.nd).toNat, by omega⟩
    have e1 : (d.dp - (d.nd : Int)).toNat = p := by omega
    have e2 : d.dp.toNat = d.nd + p := by omega
    have hle : 10 ^ (d.nd + p) ≤ 10 ^ 19 := Nat.pow_le_pow_right (by omega) (by omega)
    have hb : Dnat d * 10 ^ p < 2 ^ 64 := by
      have : Dnat d * 10 ^ p < 10 ^ d.nd * 10 ^ p := Nat.mul_lt_mul_of_pos_right hDlt (Nat.pow_pos (by omega))
      rw [← Nat.pow_add] at this; omega
    have hb0 : Dnat d < 2 ^ 64 := by
      have : Dnat d * 1 ≤ Dnat d * 10 ^ p := Nat.mul_le_mul_left _ (Nat.pow_pos (by omega))
      omega
    unfold roundedInteger
    rw [if_neg (by omega), shouldRoundup_false d d.dp (Or.inr hge)]
    simp only [Bool.false_eq_true, if_false]
    rw [e1, e2, Nat.min_eq_right (by omega), riDigits_eq d.d d.nd 0 0 (fun j _ h2 => hdig j (by omega))
      (by rw [← dval_eq_mval]; simp only [Nat.zero_mul, Nat.zero_add]; exact hb0), ← dval_eq_mval]
    simp only [Nat.zero_mul, Nat.zero_add, Nat.add_sub_cancel_left]
    exact riPad_eq p _ hb
  · intro hlt
    by_cases hneg : d.dp < 0
    · -- no integer digit at all
      obtain ⟨p, hp⟩ : ∃ p : Nat, d.dp = -((p : Int) + 1) := ⟨(-d.dp - 1).toNat, by omega⟩
      have e1 : ((d.nd : Int) - d.dp).toNat = d.nd + (p + 1) := by omega
      have e2 : d.dp.toNat = 0 := by omega
      have hpow : 10 ^ (d.nd + (p + 1)) = 10 ^ d.nd * 10 ^ p * 10 := by rw [Nat.pow_add, Nat.pow_succ]; ring
      have hpp : 0 < 10 ^ p := Nat.pow_pos (by omega)
      have hbig : 2 * Dnat d < 10 ^ (d.nd + (p + 1)) := by
        rw [hpow]
        have : 10 ^ d.nd * 1 ≤ 10 ^ d.nd * 10 ^ p := Nat.mul_le_mul_left _ hpp
        omega
      have hDX : Dnat d < 10 ^ (d.nd + (p + 1)) := by omega
      have hq : Dnat d / 10 ^ (d.nd + (p + 1)) = 0 := Nat.div_eq_of_lt hDX
      have hr : Dnat d % 10 ^ (d.nd + (p + 1)) = Dnat d := Nat.mod_eq_of_lt hDX
      unfold roundedInteger
      rw [if_neg (by omega), shouldRoundup_false d d.dp (Or.inl hneg), e1, e2, hq, hr]
      have hc : ¬ (2 * Dnat d > 10 ^ (d.nd + (p + 1)) ∨
          2 * Dnat d = 10 ^ (d.nd + (p + 1)) ∧ (d.trunc = true ∨ 0 % 2 = 1)) := by
        intro h
        rcases h with h | h
        · omega
        · omega
      rw [if_neg hc]
      simp [riDigits, riPad]
    · obtain ⟨i, hi⟩ : ∃ i : Nat, d.dp = (i : Int) := ⟨d.dp.toNat, by omega⟩
      have hind : i < d.nd := by omega
      have e1 : ((d.nd : Int) - d.dp).toNat = d.nd - i := by omega
      have e2 : d.dp.toNat = i := by omega
      have hsplit := dval_split d.d i (d.nd - i)
      rw [show i + (d.nd - i) = d.nd by omega] at hsplit
      have hR : mval d.d i (d.nd - i) < 10 ^ (d.nd - i) := mval_lt _ _ _ (fun j h1 h2 => hdig j (by omega))
      have hpe : 0 < 10 ^ (d.nd - i) := Nat.pow_pos (by omega)
      have hq : Dnat d / 10 ^ (d.nd - i) = dval d.d i := by
        unfold Dnat; rw [hsplit, Nat.add_comm, Nat.add_mul_div_right _ _ hpe, Nat.div_eq_of_lt hR, Nat.zero_add]
      have hr : Dnat d % 10 ^ (d.nd - i) = mval d.d i (d.nd - i) := by
        unfold Dnat; rw [hsplit, Nat.add_comm, Nat.add_mul_mod_self_right, Nat.mod_eq_of_lt hR]
      have hqlt : dval d.d i < 10 ^ 19 :=
        Nat.lt_of_lt_of_le (dval_lt _ _ (hdig.mono (by omega))) (Nat.pow_le_pow_right (by omega) (by omega))
      have hsr := shouldRoundup_iff d hwf htrim i hind
      unfold roundedInteger
      rw [if_neg (by omega), e1, e2, hq, hr]
      dsimp only
      rw [Nat.min_eq_left (by omega), Nat.sub_self,
        riDigits_eq d.d i 0 0 (fun j _ h2 => hdig j (by omega)) (by rw [← dval_eq_mval]; simp; omega), ← dval_eq_mval]
      simp only [Nat.zero_mul, Nat.zero_add, riPad]
      rw [hi]
      by_cases hup : shouldRoundup d (i : Int) = true
      · rw [if_pos hup, if_pos (hsr.1 hup), Nat.mod_eq_of_lt (by omega)]
      · rw [if_neg hup, if_neg (fun h => hup (hsr.2 h))]

end Sonic.Proofs.Dec
