import Sonic.Proofs.FtoaChkC
import Sonic.Proofs.FtoaFormat

/-!
# C07: the integer printed by the fast path satisfies the certificate

If the double `c·2^q` (`q ≤ 0`) is the integer `u`, the rounding interval has half-width `2^(q-1) ≤ 1/2`, so `u` is the
only integer in it; every decimal that `chk` compares with `u` (stripped of its trailing zeros) is an integer, hence
`u` itself.
-/
namespace Sonic.Proofs.Ftoa
open Sonic.Spec.Shortest

/-- the only integer in the rounding interval of the integer-valued double `u = c·2^q`, `q ≤ 0`, is `u` -/
theorem int_interval (c : Nat) (q : Int) (u : Nat) (hc : 0 < c) (hq : q ≤ 0) (hval : dblVal c q = (u : Rat))
    (w : Nat) : InInterval c q (w : Rat) ↔ w = u := by
  rw [inInterval_units c q hc]
  rw [dblVal_units] at hval
  have hw0 : (0 : Rat) < (2 : Rat) ^ (q - 2) := Rat.zpow_pos (by decide)
  have hw4 : (2 : Rat) ^ (q - 2) ≤ (2 : Rat) ^ (-2 : Int) := zpow_le_zpow 2 (by decide) (by omega)
  have h14 : (2 : Rat) ^ (-2 : Int) = 1 / 4 := by decide +kernel
  rw [h14] at hw4
  have hlo1 : 4 * c ≤ loUnits c q + 2 := by unfold loUnits; split <;> omega
  have hlo2 : loUnits c q + 1 ≤ 4 * c := by unfold loUnits; split <;> omega
  have hlo1' : (4 : Rat) * (c : Rat) ≤ (loUnits c q : Rat) + 2 := by
    have := Rat.natCast_le_natCast.2 hlo1
    simpa [Rat.natCast_add, Rat.natCast_mul] using this
  have hlo2' : (loUnits c q : Rat) + 1 ≤ (4 : Rat) * (c : Rat) := by
    have := Rat.natCast_le_natCast.2 hlo2
    simpa [Rat.natCast_add, Rat.natCast_mul] using this
  have hhi : (hiUnits c : Rat) = 4 * (c : Rat) + 2 := by
    unfold hiUnits; simp [Rat.natCast_add, Rat.natCast_mul]
  have h4c : ((4 * c : Nat) : Rat) = 4 * (c : Rat) := by simp [Rat.natCast_mul]
  rw [h4c] at hval
  rw [hhi]
  have m1 := Rat.mul_le_mul_of_nonneg_right hlo1' (Rat.le_of_lt hw0)
  have m2 := Rat.mul_le_mul_of_nonneg_right hlo2' (Rat.le_of_lt hw0)
  generalize (2 : Rat) ^ (q - 2) = x at *
  generalize (loUnits c q : Rat) = lo at *
  generalize (c : Rat) = cr at *
  constructor
  · intro h
    have hb : (u : Rat) - 1 / 2 ≤ (w : Rat) ∧ (w : Rat) ≤ (u : Rat) + 1 / 2 := by
      split at h <;> constructor <;> grind
    have h1 : (w : Rat) < ((u + 1 : Nat) : Rat) := by rw [Rat.natCast_add]; simp; grind
    have h2 : (u : Rat) < ((w + 1 : Nat) : Rat) := by rw [Rat.natCast_add]; simp; grind
    have := Rat.natCast_lt_natCast.1 h1
    have := Rat.natCast_lt_natCast.1 h2
    omega
  · intro h
    subst h
    split <;> constructor <;> grind


/-- at `chk`'s scale `10^(z-1)`: the multiples of ten in the interval -/
theorem int_tRange (c : Nat) (q : Int) (u : Nat) (hc : 0 < c) (hq : q ≤ 0) (hval : dblVal c q = (u : Rat))
    (z t : Nat) :
    ((tRange c q ((0 : Int) + z - 1)).1 ≤ 10 * t ∧ 10 * t < (tRange c q ((0 : Int) + z - 1)).2) ↔ t * 10 ^ z = u := by
  rw [tRange_spec c q _ hc (10 * t), ← decVal_units, decVal_shift, Rat.zpow_zero, Rat.mul_one]
  exact int_interval c q u hc hq hval _

theorem int_chk (c : Nat) (q : Int) (u : Nat) (hc : 0 < c) (hq : q ≤ 0) (hu : 1 ≤ u)
    (hval : dblVal c q = (u : Rat)) : chk c q (normalize u 0).1 (normalize u 0).2 = true := by
  obtain ⟨sig, z, hst⟩ := exists_stripped u hu
  rw [normalize_spec u sig z 0 hst]
  obtain ⟨hx, hsig⟩ := hst
  have hz : 0 < 10 ^ z := Nat.pow_pos (by decide)
  have hsig0 : 0 < sig := by omega
  have rng := int_tRange c q u hc hq hval z
  have hX := (rng sig).2 hx.symm
  obtain ⟨nb1, nb2⟩ := nDigits_bounds sig hsig0
  -- the decimal is the value itself
  have hXV : 10 * sig * scaleA ((0 : Int) + z - 1) (q - 2) = 4 * c * scaleB ((0 : Int) + z - 1) (q - 2) := by
    have e : ((10 * sig : Nat) : Rat) * (10 : Rat) ^ ((0 : Int) + z - 1) = ((4 * c : Nat) : Rat) * (2 : Rat) ^ (q - 2) := by
      rw [← decVal_units, decVal_shift, Rat.zpow_zero, Rat.mul_one, ← hx, ← dblVal_units, hval]
    apply Nat.le_antisymm
    · exact (sc_le_AB _ _ _ _).2 (by rw [e]; exact Rat.le_refl)
    · exact (sc_le_BA _ _ _ _).2 (by rw [e]; exact Rat.le_refl)
  apply chk_intro c q sig _ hsig0 hX.1 hX.2
  · intro hn j hj s b1 b2 b3 b4
    have hj' : j = 1 ∨ j = 2 ∨ j = 3 := by simpa using hj
    have key : ∀ w, s * 10 ^ j = 10 * w → w = sig := by
      intro w hw
      rw [hw] at b3 b4
      have := (rng w).1 ⟨b3, b4⟩
      rw [hx] at this
      exact Nat.eq_of_mul_eq_mul_right hz this
    rcases hj' with rfl | rfl | rfl
    · have := key s (by omega); omega
    · have := key (s * 10) (by omega); omega
    · have := key (s * 100) (by omega); omega
  · intro j hj s b1 b2 b3 b4
    unfold CloseOk
    rw [hXV]
    omega

end Sonic.Proofs.Ftoa
