import Sonic.Proofs.ParseInv

/-!
# Progress of the reference reader `Spec.Json.parseValue / parseElems / parseMembers`

Every accepted value, element list, member list ends after its start and inside the input.  (For number tokens the
bounds come from the contract `NumberOK`: `start < next ≤ len`.)
-/
namespace Sonic.Proofs.Parse
open Sonic.Gen Sonic.Spec Sonic.Model.Parse

theorem skipWs_ge (bs : List Nat) {pos : Nat} (h : pos ≤ bs.length) :
    pos ≤ Json.skipWs bs bs.length pos ∧ Json.skipWs bs bs.length pos ≤ bs.length :=
  ⟨(skipWs_spec bs bs.length pos (by omega) h).1, (skipWs_spec bs bs.length pos (by omega) h).2.1⟩

theorem lt_of_get_some {bs : List Nat} {i c : Nat} (h : bs[i]? = some c) : i < bs.length :=
  (List.getElem?_eq_some_iff.mp h).1

theorem beq_some_iff {bs : List Nat} {i x : Nat} : (bs[i]? == some x) = true ↔ bs[i]? = some x := by
  rw [beq_iff_eq]

theorem specNumTest (c : Nat) : (c == 45 || decide (48 ≤ c) && decide (c ≤ 57)) = isNumStart c := by
  unfold isNumStart
  rw [Bool.or_comm]

theorem num_bounds {bs : List Nat} (hnum : NumberOK bs) {p c : Nat} {v : JNum} {next : Nat}
    (hc : bs[p]? = some c) (hn : isNumStart c = true) (h : Number.scanNumber bs p = .ok v next) :
    p < next ∧ next ≤ bs.length := by
  obtain ⟨r, hcase, _⟩ := hnum p c (lt_of_get_some hc) hc hn
  rcases hcase with hagr | ⟨t, ht, hpos, hd, _⟩
  · rw [h] at hagr
    cases r with
    | ok v' n' => exact ⟨hagr.2.2.1, hagr.2.2.2⟩
    | err _ _ => exact hagr.elim
  · have := hd.lt
    unfold Number.scanNumber at h
    rw [ht] at h
    simp only at h
    split at h
    · injection h with _ h2; omega
    · cases h

theorem spec_progress {bs : List Nat} (hnum : NumberOK bs) : ∀ (fuel p : Nat),
    (∀ v next, Json.parseValue bs fuel p = .ok (v, next) → p < next ∧ next ≤ bs.length) ∧
    (∀ vs e, Json.parseElems bs fuel p = .ok (vs, e) → p + 1 < e ∧ e ≤ bs.length) ∧
    (∀ kvs e, Json.parseMembers bs fuel p = .ok (kvs, e) → p + 4 < e ∧ e ≤ bs.length) := by
  intro fuel
  induction fuel with
  | zero =>
    intro p
    refine ⟨?_, ?_, ?_⟩ <;> intro a b h <;> simp [Json.parseValue, Json.parseElems, Json.parseMembers] at h
  | succ fuel ih =>
    intro p
    refine ⟨?_, ?_, ?_⟩
    · intro v next h
      rw [Json.parseValue] at h
      cases hc : bs[p]? with
      | none => rw [hc] at h; cases h
      | some c =>
        rw [hc] at h
        simp only at h
        have hp := lt_of_get_some hc
        split at h
        · -- string
          cases hd : decodeLit bs (p + 1) with
          | none => rw [hd] at h; cases h
          | some x =>
            obtain ⟨str, nx⟩ := x
            rw [hd] at h
            simp only [Except.ok.injEq, Prod.mk.injEq] at h
            have := decodeFrom_gt _ _ _ _ hd
            have := decodeFrom_le _ _ _ _ hd
            omega
        · split at h
          · -- array
            have hq := skipWs_ge bs (pos := p + 1) (by omega)
            split at h
            · rename_i hb
              simp only [Except.ok.injEq, Prod.mk.injEq] at h
              have := lt_of_get_some (beq_some_iff.mp hb)
              omega
            · cases he : Json.parseElems bs fuel (Json.skipWs bs bs.length (p + 1)) with
              | error e => rw [he] at h; cases h
              | ok x =>
                obtain ⟨xs, nx⟩ := x
                rw [he] at h
                simp only [Except.ok.injEq, Prod.mk.injEq] at h
                have := (ih _).2.1 xs nx he
                omega
          · split at h
            · -- object
              have hq := skipWs_ge bs (pos := p + 1) (by omega)
              split at h
              · rename_i hb
                simp only [Except.ok.injEq, Prod.mk.injEq] at h
                have := lt_of_get_some (beq_some_iff.mp hb)
                omega
              · cases he : Json.parseMembers bs fuel (Json.skipWs bs bs.length (p + 1)) with
                | error e => rw [he] at h; cases h
                | ok x =>
                  obtain ⟨xs, nx⟩ := x
                  rw [he] at h
                  simp only [Except.ok.injEq, Prod.mk.injEq] at h
                  have := (ih _).2.2 xs nx he
                  omega
            · split at h
              · split at h
                · rename_i hm
                  simp only [Except.ok.injEq, Prod.mk.injEq] at h
                  have := (matchLit_iff bs p _).mp hm 3 (by simp)
                  simp only [List.getElem?_cons_succ, List.getElem?_cons_zero] at this
                  have := lt_of_get_some this
                  omega
                · cases h
              · split at h
                · split at h
                  · rename_i hm
                    simp only [Except.ok.injEq, Prod.mk.injEq] at h
                    have := (matchLit_iff bs p _).mp hm 4 (by simp)
                    simp only [List.getElem?_cons_succ, List.getElem?_cons_zero] at this
                    have := lt_of_get_some this
                    omega
                  · cases h
                · split at h
                  · split at h
                    · rename_i hm
                      simp only [Except.ok.injEq, Prod.mk.injEq] at h
                      have := (matchLit_iff bs p _).mp hm 3 (by simp)
                      simp only [List.getElem?_cons_succ, List.getElem?_cons_zero] at this
                      have := lt_of_get_some this
                      omega
                    · cases h
                  · split at h
                    · rename_i hn
                      rw [specNumTest] at hn
                      cases hs : Number.scanNumber bs p with
                      | ok nv nx =>
                        rw [hs] at h
                        simp only [Except.ok.injEq, Prod.mk.injEq] at h
                        have := num_bounds hnum hc hn hs
                        omega
                      | infinity _ => rw [hs] at h; cases h
                      | malformed => rw [hs] at h; cases h
                    · cases h
    · intro vs e h
      rw [Json.parseElems] at h
      cases hv : Json.parseValue bs fuel p with
      | error x => rw [hv] at h; cases h
      | ok x =>
        obtain ⟨v, next⟩ := x
        rw [hv] at h
        simp only at h
        have hvp := (ih p).1 v next hv
        have hq := skipWs_ge bs (pos := next) hvp.2
        split at h
        · rename_i hb
          simp only [Except.ok.injEq, Prod.mk.injEq] at h
          have := lt_of_get_some (beq_some_iff.mp hb)
          omega
        · split at h
          · rename_i hb
            have hql := lt_of_get_some (beq_some_iff.mp hb)
            have hq2 := skipWs_ge bs (pos := Json.skipWs bs bs.length next + 1) (by omega)
            cases he : Json.parseElems bs fuel (Json.skipWs bs bs.length (Json.skipWs bs bs.length next + 1)) with
            | error x => rw [he] at h; cases h
            | ok x =>
              obtain ⟨vs', e'⟩ := x
              rw [he] at h
              simp only [Except.ok.injEq, Prod.mk.injEq] at h
              have := (ih _).2.1 vs' e' he
              omega
          · cases h
    · intro kvs e h
      rw [Json.parseMembers] at h
      split at h
      · cases h
      · cases hd : decodeLit bs (p + 1) with
        | none => rw [hd] at h; cases h
        | some x =>
          obtain ⟨key, afterKey⟩ := x
          rw [hd] at h
          simp only at h
          have hk1 := decodeFrom_gt _ _ _ _ hd
          have hk2 := decodeFrom_le _ _ _ _ hd
          have hq := skipWs_ge bs (pos := afterKey) hk2
          split at h
          · cases h
          · rename_i hcol
            simp only [bne_iff_ne, ne_eq, Decidable.not_not] at hcol
            have hql := lt_of_get_some hcol
            have hq2 := skipWs_ge bs (pos := Json.skipWs bs bs.length afterKey + 1) (by omega)
            cases hv : Json.parseValue bs fuel (Json.skipWs bs bs.length (Json.skipWs bs bs.length afterKey + 1)) with
            | error x => rw [hv] at h; cases h
            | ok x =>
              obtain ⟨v, next⟩ := x
              rw [hv] at h
              simp only at h
              have hvp := (ih _).1 v next hv
              have hr := skipWs_ge bs (pos := next) hvp.2
              split at h
              · rename_i hb
                simp only [Except.ok.injEq, Prod.mk.injEq] at h
                have := lt_of_get_some (beq_some_iff.mp hb)
                omega
              · split at h
                · rename_i hb
                  have hrl := lt_of_get_some (beq_some_iff.mp hb)
                  have hr2 := skipWs_ge bs (pos := Json.skipWs bs bs.length next + 1) (by omega)
                  cases hm : Json.parseMembers bs fuel
                      (Json.skipWs bs bs.length (Json.skipWs bs bs.length next + 1)) with
                  | error x => rw [hm] at h; cases h
                  | ok x =>
                    obtain ⟨kvs', e'⟩ := x
                    rw [hm] at h
                    simp only [Except.ok.injEq, Prod.mk.injEq] at h
                    have := (ih _).2.2 kvs' e' hm
                    omega
                · cases h

end Sonic.Proofs.Parse
