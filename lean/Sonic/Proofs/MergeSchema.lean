import Sonic.Spec.Merge
import Sonic.Model.Schema

/-!
# Helper lemmas for C19: the spec `Spec.Merge.schema` and the functional reading `Model.Schema.apply`
-/
namespace Sonic.Proofs.MergeSchema
open Sonic.Spec Sonic.Spec.Merge Sonic.Model.Schema

/-! ## lists of members -/

theorem keys_cons (k : List Nat) (v : JVal) (rest : Members) : keys ((k, v) :: rest) = k :: keys rest := rfl

theorem keys_modifyFirst (k : List Nat) (f : JVal → JVal) : ∀ kvs : Members, keys (modifyFirst k f kvs) = keys kvs
  | [] => rfl
  | (k', v) :: rest => by
    by_cases h : k' = k
    · simp [modifyFirst, h, keys]
    · simp only [modifyFirst, h, if_false, keys_cons, keys_modifyFirst k f rest]

theorem length_modifyFirst (k : List Nat) (f : JVal → JVal) (kvs : Members) :
    (modifyFirst k f kvs).length = kvs.length := by
  have := congrArg List.length (keys_modifyFirst k f kvs)
  simpa [keys] using this

theorem hasKey_modifyFirst (k' k : List Nat) (f : JVal → JVal) (kvs : Members) :
    hasKey k' (modifyFirst k f kvs) = hasKey k' kvs := by
  simp [hasKey, keys_modifyFirst]

theorem hasKey_cons (k k' : List Nat) (v : JVal) (rest : Members) :
    hasKey k ((k', v) :: rest) = (k == k' || hasKey k rest) := by
  simp [hasKey, keys]

theorem hasKey_nil (k : List Nat) : hasKey k [] = false := rfl

theorem lookup_none_of_not_hasKey {k : List Nat} : ∀ {kvs : Members}, hasKey k kvs = false → lookup k kvs = none
  | [], _ => rfl
  | (k', v) :: rest, h => by
    rw [hasKey_cons] at h
    simp only [Bool.or_eq_false_iff, beq_eq_false_iff_ne, ne_eq] at h
    have h1 : ¬ k' = k := fun e => h.1 e.symm
    simp only [lookup, h1, if_false]
    exact lookup_none_of_not_hasKey h.2

theorem hasKey_of_lookup {k : List Nat} {v : JVal} : ∀ {kvs : Members}, lookup k kvs = some v → hasKey k kvs = true
  | [], h => by simp [lookup] at h
  | (k', v') :: rest, h => by
    rw [hasKey_cons]
    by_cases e : k' = k
    · simp [e]
    · simp only [lookup, e, if_false] at h
      simp [hasKey_of_lookup h]

theorem distinct_cons (k : List Nat) (ks : List (List Nat)) :
    distinct (k :: ks) = (!ks.contains k && distinct ks) := rfl

/-! ## `noDupKeys` on members -/

theorem noDup_of_lookup {k : List Nat} {v : JVal} : ∀ {kvs : Members},
    noDupMembers kvs = true → lookup k kvs = some v → noDupKeys v = true
  | [], _, h => by simp [lookup] at h
  | (k', v') :: rest, hd, h => by
    simp only [noDupMembers, Bool.and_eq_true] at hd
    by_cases e : k' = k
    · simp only [lookup, e, if_true, Option.some.injEq] at h
      exact h ▸ hd.1
    · simp only [lookup, e, if_false] at h
      exact noDup_of_lookup hd.2 h

/-- in a duplicate-free member list the first match of a member's key is that member's value -/
theorem lookup_self_of_distinct (k : List Nat) (v : JVal) (rest : Members) : lookup k ((k, v) :: rest) = some v := by
  simp [lookup]

theorem lookup_cons_ne {k k' : List Nat} (v : JVal) (rest : Members) (h : k' ≠ k) :
    lookup k ((k', v) :: rest) = lookup k rest := by
  simp [lookup, h]

/-! ## the spec `schema` -/

/-- what `schema` does to one declared member -/
def specMember (tkvs : Members) (m : List Nat × JVal) : List Nat × JVal :=
  match lookup m.1 tkvs with
  | some tv => (m.1, schema m.2 tv)
  | none => m

theorem schemaMembers_eq_map (tkvs : Members) : ∀ ekvs : Members, schemaMembers ekvs tkvs = ekvs.map (specMember tkvs)
  | [] => rfl
  | (k, ev) :: rest => by
    rw [schemaMembers, List.map_cons, schemaMembers_eq_map tkvs rest]
    congr 1

theorem keys_schemaMembers (tkvs : Members) : ∀ ekvs : Members, keys (schemaMembers ekvs tkvs) = keys ekvs
  | [] => rfl
  | (k, ev) :: rest => by
    rw [schemaMembers, keys_cons, keys_cons, keys_schemaMembers tkvs rest]
    cases lookup k tkvs <;> rfl

theorem lookup_append_cons_ne {k k' : List Nat} (v : JVal) (h : k ≠ k') :
    ∀ (a b : Members), lookup k' (a ++ (k, v) :: b) = lookup k' (a ++ b)
  | [], b => by simp [lookup, h]
  | (k₀, v₀) :: a, b => by
    simp only [List.cons_append, lookup]
    rw [lookup_append_cons_ne v h a b]

theorem schemaMembers_undeclared {k : List Nat} (v : JVal) (a b : Members) :
    ∀ ekvs : Members, hasKey k ekvs = false →
      schemaMembers ekvs (a ++ (k, v) :: b) = schemaMembers ekvs (a ++ b)
  | [], _ => rfl
  | (k', ev) :: rest, h => by
    rw [hasKey_cons] at h
    simp only [Bool.or_eq_false_iff, beq_eq_false_iff_ne, ne_eq] at h
    rw [schemaMembers, schemaMembers, lookup_append_cons_ne v h.1 a b, schemaMembers_undeclared v a b rest h.2]

theorem mem_keys_of_mem {k : List Nat} {v : JVal} {kvs : Members} (h : (k, v) ∈ kvs) : k ∈ keys kvs :=
  List.mem_map.mpr ⟨(k, v), h, rfl⟩

/-- with pairwise distinct keys, looking a member's key up finds that member -/
theorem lookup_of_mem : ∀ {kvs : Members}, distinct (keys kvs) = true →
    ∀ k v, (k, v) ∈ kvs → lookup k kvs = some v
  | [], _, _, _, h => by simp at h
  | (k₀, v₀) :: rest, hd, k, v, h => by
    rw [keys_cons, distinct_cons] at hd
    simp only [Bool.and_eq_true, Bool.not_eq_true', List.contains_eq_mem, decide_eq_false_iff_not] at hd
    rcases List.mem_cons.mp h with e | h'
    · cases e; simp [lookup]
    · have hne : k₀ ≠ k := fun e => hd.1 (e ▸ mem_keys_of_mem h')
      rw [lookup_cons_ne _ _ hne]
      exact lookup_of_mem hd.2 k v h'

mutual
/-- a duplicate-free value parsed into itself is unchanged -/
theorem schema_self : ∀ t : JVal, noDupKeys t = true → schema t t = t
  | .null, _ => by simp [schema]
  | .bool _, _ => by simp [schema]
  | .num _, _ => by simp [schema]
  | .str _, _ => by simp [schema]
  | .arr _, _ => by simp [schema]
  | .obj [], _ => by simp [schema]
  | .obj (m :: ms), h => by
    rw [schema]
    simp only [noDupKeys, Bool.and_eq_true] at h
    rw [schemaMembers_self (m :: ms) (m :: ms) h.2 (lookup_of_mem h.1)]
theorem schemaMembers_self : ∀ (sfx all : Members), noDupMembers sfx = true →
    (∀ k v, (k, v) ∈ sfx → lookup k all = some v) → schemaMembers sfx all = sfx
  | [], _, _, _ => rfl
  | (k, v) :: rest, all, hd, hl => by
    simp only [noDupMembers, Bool.and_eq_true] at hd
    rw [schemaMembers, hl k v (List.mem_cons_self ..)]
    simp only
    rw [schema_self v hd.1,
      schemaMembers_self rest all hd.2 (fun k' v' h' => hl k' v' (List.mem_cons_of_mem _ h'))]
end

theorem schema_of_not_obj_left {e : JVal} (t : JVal) (h : isNonEmptyObj e = false) : schema e t = t := by
  cases e with
  | obj kvs => cases kvs with
    | nil => simp [schema]
    | cons m ms => simp [isNonEmptyObj] at h
  | _ => simp [schema]

theorem schema_of_not_obj_right (e : JVal) {t : JVal} (h : isNonEmptyObj t = false) : schema e t = t := by
  cases t with
  | obj kvs => cases kvs with
    | nil => simp [schema]
    | cons m ms => simp [isNonEmptyObj] at h
  | _ => simp [schema]

mutual
theorem schema_idem : ∀ (e t : JVal), noDupKeys t = true → schema (schema e t) t = schema e t
  | .null, t, h => by rw [schema_of_not_obj_left (e := .null) t rfl, schema_self t h]
  | .bool _, t, h => by rw [schema_of_not_obj_left (e := .bool _) t rfl, schema_self t h]
  | .num _, t, h => by rw [schema_of_not_obj_left (e := .num _) t rfl, schema_self t h]
  | .str _, t, h => by rw [schema_of_not_obj_left (e := .str _) t rfl, schema_self t h]
  | .arr _, t, h => by rw [schema_of_not_obj_left (e := .arr _) t rfl, schema_self t h]
  | .obj [], t, h => by rw [schema_of_not_obj_left (e := .obj []) t rfl, schema_self t h]
  | .obj ((k, ev) :: ms), t, h => by
    by_cases ht : isNonEmptyObj t = true
    · cases t with
      | obj tkvs =>
        cases tkvs with
        | nil => simp [isNonEmptyObj] at ht
        | cons tm tms =>
          have hd : noDupMembers (tm :: tms) = true := by
            simp only [noDupKeys, Bool.and_eq_true] at h; exact h.2
          have := schemaMembers_idem ((k, ev) :: ms) (tm :: tms) hd
          rw [schema]
          rw [schemaMembers] at this ⊢
          rw [schema, this]
      | _ => simp [isNonEmptyObj] at ht
    · have ht' : isNonEmptyObj t = false := by simpa using ht
      rw [schema_of_not_obj_right (.obj ((k, ev) :: ms)) ht', schema_self t h]
theorem schemaMembers_idem : ∀ (ekvs tkvs : Members), noDupMembers tkvs = true →
    schemaMembers (schemaMembers ekvs tkvs) tkvs = schemaMembers ekvs tkvs
  | [], _, _ => rfl
  | (k, ev) :: rest, tkvs, hd => by
    rw [schemaMembers]
    cases hl : lookup k tkvs with
    | none =>
      simp only
      rw [schemaMembers, hl, schemaMembers_idem rest tkvs hd]
    | some tv =>
      simp only
      rw [schemaMembers, hl]
      simp only
      rw [schema_idem ev tv (noDup_of_lookup hd hl), schemaMembers_idem rest tkvs hd]
end

/-! ## `apply` (the handler's functional reading) against `schema` -/

mutual
/-- no EMPTY object of the text sits at a position (along matched keys) where the existing document has a
    non-empty object — the complement of the known finding F12 -/
def NoEmptyOverNonEmpty : JVal → JVal → Bool
  | .obj (_ :: _), .obj [] => false
  | .obj (m :: ms), .obj (tm :: tms) => neMembers (m :: ms) (tm :: tms)
  | _, _ => true
def neMembers : Members → Members → Bool
  | [], _ => true
  | (k, ev) :: rest, tkvs =>
    (match lookup k tkvs with
     | some tv => NoEmptyOverNonEmpty ev tv
     | none => true) && neMembers rest tkvs
end

/-- what `apply` does to one declared member when the text's keys are pairwise distinct -/
def modelMember (tkvs : Members) (m : List Nat × JVal) : List Nat × JVal :=
  match lookup m.1 tkvs with
  | some tv => (m.1, apply m.2 tv)
  | none => m

/-- how many of the text's members are declared -/
def cnt (eks : List (List Nat)) : Members → Nat
  | [] => 0
  | (k, _) :: rest => (if eks.contains k then 1 else 0) + cnt eks rest

theorem cnt_nil : ∀ tkvs : Members, cnt [] tkvs = 0
  | [] => rfl
  | (k, v) :: rest => by simp [cnt, cnt_nil rest]

theorem cnt_cons_le (a : List Nat) (eks : List (List Nat)) : ∀ tkvs : Members, distinct (keys tkvs) = true →
    cnt (a :: eks) tkvs ≤ (if hasKey a tkvs then 1 else 0) + cnt eks tkvs
  | [], _ => by simp [cnt]
  | (k, v) :: rest, hd => by
    rw [keys_cons, distinct_cons] at hd
    simp only [Bool.and_eq_true, Bool.not_eq_true', List.contains_eq_mem, decide_eq_false_iff_not] at hd
    have ih := cnt_cons_le a eks rest hd.2
    simp only [cnt, hasKey_cons, List.contains_cons]
    by_cases e : k = a
    · subst e
      have : hasKey k rest = false := by simpa [hasKey] using hd.1
      simp only [this, Bool.false_eq_true, if_false] at ih
      simp only [BEq.rfl, Bool.true_or, if_true]
      split <;> omega
    · have e' : (k == a) = false := by simpa using e
      have e'' : (a == k) = false := by simpa using fun h : a = k => e h.symm
      simp only [e', e'', Bool.false_or]
      split <;> split <;> simp_all <;> omega

/-- pigeonhole: pairwise distinct text keys hit at most `eks.length` declared keys -/
theorem cnt_le_length : ∀ (eks : List (List Nat)) (tkvs : Members), distinct (keys tkvs) = true →
    cnt eks tkvs ≤ eks.length
  | [], tkvs, _ => by simp [cnt_nil]
  | a :: eks, tkvs, hd => by
    have h1 := cnt_cons_le a eks tkvs hd
    have h2 := cnt_le_length eks tkvs hd
    simp only [List.length_cons]
    split at h1 <;> omega

theorem lookup_cons_of_ne {k k' : List Nat} (tv : JVal) (rest : Members) (h : k' ≠ k) :
    lookup k' ((k, tv) :: rest) = lookup k' rest := by
  simp [lookup, h.symm]

theorem map_modelMember_cons_of_ne (k : List Nat) (tv : JVal) (rest : Members) :
    ∀ es : Members, (∀ m ∈ es, m.1 ≠ k) → es.map (modelMember ((k, tv) :: rest)) = es.map (modelMember rest) := by
  intro es h
  apply List.map_congr_left
  intro m hm
  unfold modelMember
  rw [lookup_cons_of_ne tv rest (h m hm)]

theorem ne_of_not_hasKey {k : List Nat} : ∀ {es : Members}, hasKey k es = false → ∀ m ∈ es, m.1 ≠ k
  | [], _, m, hm => by simp at hm
  | (k', v) :: rest, h, m, hm => by
    rw [hasKey_cons] at h
    simp only [Bool.or_eq_false_iff, beq_eq_false_iff_ne, ne_eq] at h
    rcases List.mem_cons.mp hm with e | hm'
    · subst e; exact fun e => h.1 e.symm
    · exact ne_of_not_hasKey h.2 m hm'

theorem map_modifyFirst (k : List Nat) (tv : JVal) (rest : Members) (hk : hasKey k rest = false) :
    ∀ ekvs : Members, distinct (keys ekvs) = true →
      (modifyFirst k (fun ev => apply ev tv) ekvs).map (modelMember rest)
        = ekvs.map (modelMember ((k, tv) :: rest))
  | [], _ => rfl
  | (k', ev) :: es, hd => by
    rw [keys_cons, distinct_cons] at hd
    simp only [Bool.and_eq_true, Bool.not_eq_true', List.contains_eq_mem, decide_eq_false_iff_not] at hd
    by_cases e : k' = k
    · subst e
      have hes : hasKey k' es = false := by simpa [hasKey] using hd.1
      simp only [modifyFirst, if_true, List.map_cons]
      rw [map_modelMember_cons_of_ne k' tv rest es (ne_of_not_hasKey hes)]
      congr 1
      simp [modelMember, lookup, lookup_none_of_not_hasKey hk]
    · simp only [modifyFirst, e, if_false, List.map_cons]
      rw [map_modifyFirst k tv rest hk es hd.2]
      congr 1
      unfold modelMember
      rw [lookup_cons_of_ne tv rest e]

theorem map_modelMember_nil (ekvs : Members) : ekvs.map (modelMember []) = ekvs := by
  have : modelMember [] = id := by funext m; simp [modelMember, lookup]
  rw [this, List.map_id]

/-- with pairwise distinct keys on both sides the early stop never cuts a declared key off, and the sequential
    first-match updates are a map over the declared members -/
theorem applyMembers_eq_map : ∀ (tkvs ekvs : Members) (found : Nat),
    distinct (keys tkvs) = true → distinct (keys ekvs) = true →
    found + cnt (keys ekvs) tkvs ≤ ekvs.length →
    applyMembers ekvs tkvs found = ekvs.map (modelMember tkvs)
  | [], ekvs, found, _, _, _ => by rw [applyMembers, map_modelMember_nil]
  | (k, tv) :: rest, ekvs, found, ht, he, hc => by
    rw [keys_cons, distinct_cons] at ht
    simp only [Bool.and_eq_true, Bool.not_eq_true', List.contains_eq_mem, decide_eq_false_iff_not] at ht
    have hk : hasKey k rest = false := by simpa [hasKey] using ht.1
    rw [applyMembers]
    simp only [cnt] at hc
    by_cases hh : hasKey k ekvs = true
    · have hc1 : (keys ekvs).contains k = true := hh
      simp only [hc1, if_true] at hc
      have hlt : ¬ found ≥ ekvs.length := by omega
      simp only [hlt, if_false, hh, if_true]
      rw [applyMembers_eq_map rest _ (found + 1) ht.2 (by rw [keys_modifyFirst]; exact he)
            (by rw [keys_modifyFirst, length_modifyFirst]; omega)]
      exact map_modifyFirst k tv rest hk ekvs he
    · have hh' : hasKey k ekvs = false := by simpa using hh
      have hc1 : (keys ekvs).contains k = false := hh'
      simp only [hc1] at hc
      have ih := applyMembers_eq_map rest ekvs found ht.2 he (by simpa using hc)
      simp only [hh', ite_self, Bool.false_eq_true, if_false]
      rw [ih, map_modelMember_cons_of_ne k tv rest ekvs (ne_of_not_hasKey hh')]

mutual
theorem apply_eq_schema : ∀ (e t : JVal), noDupKeys e = true → noDupKeys t = true →
    NoEmptyOverNonEmpty e t = true → apply e t = schema e t
  | .null, t, _, _, _ => by rw [schema_of_not_obj_left (e := .null) t rfl]; simp [apply]
  | .bool _, t, _, _, _ => by rw [schema_of_not_obj_left (e := .bool _) t rfl]; simp [apply]
  | .num _, t, _, _, _ => by rw [schema_of_not_obj_left (e := .num _) t rfl]; simp [apply]
  | .str _, t, _, _, _ => by rw [schema_of_not_obj_left (e := .str _) t rfl]; simp [apply]
  | .arr _, t, _, _, _ => by rw [schema_of_not_obj_left (e := .arr _) t rfl]; simp [apply]
  | .obj [], t, _, _, _ => by rw [schema_of_not_obj_left (e := .obj []) t rfl]; simp [apply]
  | .obj (m :: ms), t, he, ht, hn => by
    cases t with
    | obj tkvs =>
      cases tkvs with
      | nil => simp [NoEmptyOverNonEmpty] at hn
      | cons tm tms =>
        simp only [noDupKeys, Bool.and_eq_true] at he ht
        rw [NoEmptyOverNonEmpty] at hn
        rw [apply, schema, schemaMembers_eq_map]
        rw [applyMembers_eq_map (tm :: tms) (m :: ms) 0 ht.1 he.1
              (by have := cnt_le_length (keys (m :: ms)) (tm :: tms) ht.1
                  simp only [keys, List.length_map] at this ⊢; omega)]
        rw [members_eq (m :: ms) (tm :: tms) he.2 ht.2 hn]
    | _ => simp [apply, schema]
theorem members_eq : ∀ (ekvs tkvs : Members), noDupMembers ekvs = true → noDupMembers tkvs = true →
    neMembers ekvs tkvs = true → ekvs.map (modelMember tkvs) = ekvs.map (specMember tkvs)
  | [], _, _, _, _ => rfl
  | (k, ev) :: rest, tkvs, he, ht, hn => by
    simp only [noDupMembers, Bool.and_eq_true] at he
    simp only [neMembers, Bool.and_eq_true] at hn
    simp only [List.map_cons]
    rw [members_eq rest tkvs he.2 ht hn.2]
    congr 1
    unfold modelMember specMember
    cases hl : lookup k tkvs with
    | none => simp
    | some tv =>
      simp only [hl] at hn ⊢
      rw [apply_eq_schema ev tv he.1 (noDup_of_lookup ht hl) hn.1]
end

/-! ## `schema` keeps duplicate-freeness (for repeated application) -/

mutual
theorem noDup_schema : ∀ (e t : JVal), noDupKeys e = true → noDupKeys t = true → noDupKeys (schema e t) = true
  | .null, t, _, ht => by rw [schema_of_not_obj_left (e := .null) t rfl]; exact ht
  | .bool _, t, _, ht => by rw [schema_of_not_obj_left (e := .bool _) t rfl]; exact ht
  | .num _, t, _, ht => by rw [schema_of_not_obj_left (e := .num _) t rfl]; exact ht
  | .str _, t, _, ht => by rw [schema_of_not_obj_left (e := .str _) t rfl]; exact ht
  | .arr _, t, _, ht => by rw [schema_of_not_obj_left (e := .arr _) t rfl]; exact ht
  | .obj [], t, _, ht => by rw [schema_of_not_obj_left (e := .obj []) t rfl]; exact ht
  | .obj (m :: ms), t, he, ht => by
    by_cases hn : isNonEmptyObj t = true
    · cases t with
      | obj tkvs =>
        cases tkvs with
        | nil => simp [isNonEmptyObj] at hn
        | cons tm tms =>
          simp only [noDupKeys, Bool.and_eq_true] at he ht
          rw [schema]
          simp only [noDupKeys, Bool.and_eq_true, keys_schemaMembers]
          exact ⟨he.1, noDup_schemaMembers (m :: ms) (tm :: tms) he.2 ht.2⟩
      | _ => simp [isNonEmptyObj] at hn
    · have hn' : isNonEmptyObj t = false := by simpa using hn
      rw [schema_of_not_obj_right _ hn']; exact ht
theorem noDup_schemaMembers : ∀ (ekvs tkvs : Members), noDupMembers ekvs = true → noDupMembers tkvs = true →
    noDupMembers (schemaMembers ekvs tkvs) = true
  | [], _, _, _ => rfl
  | (k, ev) :: rest, tkvs, he, ht => by
    simp only [noDupMembers, Bool.and_eq_true] at he
    rw [schemaMembers]
    cases hl : lookup k tkvs with
    | none =>
      simp only [noDupMembers, Bool.and_eq_true]
      exact ⟨he.1, noDup_schemaMembers rest tkvs he.2 ht⟩
    | some tv =>
      simp only [noDupMembers, Bool.and_eq_true]
      exact ⟨noDup_schema ev tv he.1 (noDup_of_lookup ht hl), noDup_schemaMembers rest tkvs he.2 ht⟩
end

end Sonic.Proofs.MergeSchema
