import Sonic.Proofs.LedgerBasic
import Sonic.Proofs.DomSession

/-!
# Ledger model: forgetting the block ids gives back `Model.Dom` (helper lemmas for C13)

Every operation of `Model.Ledger` erases to the operation of `Model.Dom` of the same name, so the ledger model is
the tested DOM model plus bookkeeping: `lstep env s op = some s' → step env s.erase op = some (s'.erase, _)`.
-/
namespace Sonic.Proofs.Ledger
open Sonic.Spec Sonic.Model.Dom Sonic.Model.Ledger
open Sonic.Spec.Containers (Key Step Path PStep Val NodeOp Res Op Out AllocKind)
open Sonic.Proofs.Dom (bind_refine map_refine modifyAt_eq)

/-! ## paths -/

theorem erase_child (v : LNode) (s : Step) : (v.child s).map LNode.erase = v.erase.child s := by
  cases v <;> cases s <;> simp [LNode.child, Node.child, Function.comp_def]

theorem erase_setChild (v x : LNode) (s : Step) :
    (v.setChild s x).map LNode.erase = v.erase.setChild s x.erase := by
  cases v <;> cases s <;> simp [LNode.setChild, Node.setChild]
  · rename_i st ms i
    cases h : ms[i]? <;> simp [List.map_set, eraseMem, lkey, lval]

theorem erase_get : ∀ (p : Path) (v : LNode), (v.get p).map LNode.erase = v.erase.get p
  | [], v => by simp [LNode.get, Node.get]
  | s :: p, v => by
    simp only [LNode.get, Node.get, ← erase_child]
    cases v.child s with
    | none => simp
    | some c => simp [erase_get p c]

theorem erase_set : ∀ (p : Path) (v x : LNode), (v.set p x).map LNode.erase = v.erase.set p x.erase
  | [], v, x => by simp [LNode.set, Node.set]
  | s :: p, v, x => by
    simp only [LNode.set, Node.set, ← erase_child]
    cases v.child s with
    | none => simp
    | some c =>
      simp only [Option.bind_some, Option.map_some, ← erase_set p c x]
      cases c.set p x with
      | none => simp
      | some c' => simp [erase_setChild]

theorem erase_set_null (p : Path) (v : LNode) : (v.set p .null).map LNode.erase = v.erase.set p .null := by
  simpa using erase_set p v .null

/-! ## constructors -/

theorem erase_lofVal (v : Val) (n : Nat) : (lofVal v n).1.erase = ofVal v := by
  cases v <;> simp [lofVal, ofVal, LOwn.erase]
  split <;> simp

mutual
theorem erase_lofJVal (buf : Nat) : ∀ (v : JVal) (n : Nat), (lofJVal buf v n).1.erase = ofJVal v
  | .null, n => by simp [lofJVal, ofJVal]
  | .bool b, n => by simp [lofJVal, ofJVal]
  | .num k, n => by simp [lofJVal, ofJVal]
  | .str s, n => by simp [lofJVal, ofJVal, LOwn.erase]
  | .arr xs, n => by
    simp only [lofJVal, ofJVal]
    split
    · rename_i h
      have : xs = [] := by simpa using h
      subst this
      simp [ofJList]
    · have := erase_lofJList buf xs (n + 1)
      simp [this]
  | .obj kvs, n => by
    simp only [lofJVal, ofJVal]
    split
    · rename_i h
      have : kvs = [] := by simpa using h
      subst this
      simp [ofJMems]
    · have := erase_lofJMems buf kvs (n + 1)
      simp [this, LMeta.erase]
theorem erase_lofJList (buf : Nat) : ∀ (xs : List JVal) (n : Nat),
    (lofJList buf xs n).1.map LNode.erase = ofJList xs
  | [], n => by simp [lofJList, ofJList]
  | x :: xs, n => by
    simp [lofJList, ofJList, erase_lofJVal buf x n, erase_lofJList buf xs (lofJVal buf x n).2]
theorem erase_lofJMems (buf : Nat) : ∀ (kvs : List (Key × JVal)) (n : Nat),
    (lofJMems buf kvs n).1.map eraseMem = ofJMems kvs
  | [], n => by simp [lofJMems, ofJMems]
  | (k, v) :: kvs, n => by
    simp [lofJMems, ofJMems, eraseMem, lkey, lval, LOwn.erase, erase_lofJVal buf v n,
      erase_lofJMems buf kvs (lofJVal buf v n).2]
end

theorem erase_lcopyOwn (cs : Bool) (o : LOwn) (n : Nat) : (lcopyOwn cs o n).1.erase = copyOwn cs o.erase := by
  cases o with
  | const => cases cs <;> rfl
  | copy b => simp [lcopyOwn, copyOwn, LOwn.erase]
  | free b => simp [lcopyOwn, copyOwn, LOwn.erase]

mutual
theorem erase_lcopy (cs : Bool) : ∀ (x : LNode) (n : Nat), (lcopy cs x n).1.erase = copyOf cs x.erase
  | .null, n => by simp [lcopy, copyOf]
  | .bool b, n => by simp [lcopy, copyOf]
  | .num k, n => by simp [lcopy, copyOf]
  | .str o s, n => by simp [lcopy, copyOf, erase_lcopyOwn]
  | .arr st es, n => by
    simp only [lcopy, erase_arr, copyOf, List.isEmpty_map, List.length_map]
    split
    · rename_i h
      have : es = [] := by simpa using h
      subst this
      simp [copyList]
    · have := erase_lcopyList cs es (n + 1)
      simp [this]
  | .obj st ms, n => by
    simp only [lcopy, erase_obj, copyOf, List.isEmpty_map, List.length_map]
    split
    · rename_i h
      have : ms = [] := by simpa using h
      subst this
      simp [copyMems]
    · have := erase_lcopyMems cs ms (n + 1)
      simp [this, LMeta.erase]
theorem erase_lcopyList (cs : Bool) : ∀ (es : List LNode) (n : Nat),
    (lcopyList cs es n).1.map LNode.erase = copyList cs (es.map LNode.erase)
  | [], n => by simp [lcopyList, copyList]
  | x :: xs, n => by
    simp [lcopyList, copyList, erase_lcopy cs x n, erase_lcopyList cs xs (lcopy cs x n).2]
theorem erase_lcopyMems (cs : Bool) : ∀ (ms : List (LOwn × Key × LNode)) (n : Nat),
    (lcopyMems cs ms n).1.map eraseMem = copyMems cs (ms.map eraseMem)
  | [], n => by simp [lcopyMems, copyMems]
  | (o, k, v) :: ms, n => by
    simp [lcopyMems, copyMems, eraseMem, lkey, lval, erase_lcopyOwn, erase_lcopy cs v (lcopyOwn cs o n).2,
      erase_lcopyMems cs ms (lcopy cs v (lcopyOwn cs o n).2).2]
end

/-! ## node operations -/

theorem objCap_erase (st : Option LMeta) : objCap (st.map LMeta.erase) = lcap st := by
  cases st <;> rfl

theorem objMap_erase (st : Option LMeta) : objMap (st.map LMeta.erase) = st.bind fun m => m.map.map (·.1) := by
  cases st <;> rfl

theorem erase_laddGrowMeta (count n : Nat) (st : Option LMeta) :
    (laddGrowMeta count n st).1.erase = addGrowMeta count (st.map LMeta.erase) := by
  cases st with
  | none => rfl
  | some m =>
    simp only [laddGrowMeta, Option.map_some, addGrowMeta, LMeta.erase]
    split
    · split <;> rfl
    · rfl

theorem erase_laddMember (key : Key) (v : LNode) (ck : Bool) (x : LNode) (n : Nat) :
    (laddMember key v ck x n).map (fun e => e.node.erase) = (addMemberImpl key v.erase ck x.erase).map (·.1) := by
  cases x <;> simp [laddMember, addMemberImpl]
  rename_i st ms
  refine ⟨?_, ?_⟩
  · rw [← erase_laddGrowMeta ms.length n st]
    simp [LMeta.erase, Option.map_map, Function.comp_def]
  · cases ck <;> simp [eraseMem, lkey, lval, LOwn.erase]

theorem erase_lremoveAt (m : LMeta) (mpo : Option (MapT × Nat)) (ms : List LMember) (pos : Nat) :
    (lremoveAt m mpo ms pos).map (fun r => r.1.erase) =
      removeAt m.erase (mpo.map (·.1)) (ms.map eraseMem) pos := by
  unfold lremoveAt removeAt
  simp only [List.getElem?_map, List.length_map]
  cases hp : ms[pos]? with
  | none => simp
  | some victim =>
    cases ht : ms[ms.length - 1]? with
    | none => simp
    | some tail =>
      simp only [Option.map_some]
      split
      · simp [LMeta.erase, List.map_dropLast, List.map_set, Option.map_map, Function.comp_def]
      · simp [LMeta.erase, List.map_dropLast]

theorem findIdx_erase (key : Key) (ms : List LMember) :
    (ms.map eraseMem).findIdx? (fun x => mkey x == key) = ms.findIdx? (fun x => lkey x == key) := by
  rw [List.findIdx?_map]; rfl

theorem erase_lremoveMember (key : Key) (x : LNode) (n : Nat) :
    (lremoveMember key x n).map (fun e => e.node.erase) = (removeMemberImpl key x.erase).map (·.1) := by
  cases x <;> simp only [lremoveMember, removeMemberImpl, erase_null, erase_bool, erase_num, erase_str, erase_arr,
    erase_obj, Option.map_none]
  rename_i st ms
  cases st with
  | none => simp
  | some m =>
    simp only [Option.map_some]
    cases hm : m.map with
    | some mb =>
      have : m.erase.map = some mb.1 := by simp [LMeta.erase, hm]
      simp only [this]
      cases hf : mapFind key mb.1 with
      | none => simp [LMeta.erase, hm]
      | some e =>
        simp only [Option.map_map]
        have := erase_lremoveAt m (some (mb.1.eraseP (fun x => x.1 == key), mb.2)) ms e.2
        simp only [Option.map_some] at this
        rw [← this]
        simp [Function.comp_def]
    | none =>
      have : m.erase.map = none := by simp [LMeta.erase, hm]
      simp only [this, findIdx_erase]
      cases hf : ms.findIdx? (fun x => lkey x == key) with
      | none => simp [LMeta.erase, hm]
      | some pos =>
        simp only [Option.map_map]
        have := erase_lremoveAt m none ms pos
        simp only [Option.map_none] at this
        rw [← this]
        simp [Function.comp_def]

theorem erase_ldestroyMapMeta (st : Option LMeta) :
    (ldestroyMapMeta st).map LMeta.erase = destroyMapMeta (st.map LMeta.erase) := by
  cases st <;> rfl

theorem erase_leraseMember (f l : Nat) (x : LNode) (n : Nat) :
    (leraseMember f l x n).map (fun e => e.node.erase) = (eraseMemberImpl f l x.erase).map (·.1) := by
  cases x <;> simp only [leraseMember, eraseMemberImpl, erase_null, erase_bool, erase_num, erase_str, erase_arr,
    erase_obj, Option.map_none, List.length_map]
  rename_i st ms
  split
  · split
    · simp
    · simp [erase_ldestroyMapMeta, List.map_take, List.map_drop]
  · simp

theorem lbuildMap_erase (ms : List LMember) : lbuildMap ms = buildMap (ms.map eraseMem) := by
  unfold lbuildMap buildMap
  congr 2
  simp [Function.comp_def]

theorem erase_lcreateMap (x : LNode) (n : Nat) :
    (lcreateMap x n).map (fun e => e.node.erase) = createMapImpl x.erase := by
  cases x <;> simp only [lcreateMap, createMapImpl, erase_null, erase_bool, erase_num, erase_str, erase_arr,
    erase_obj, Option.map_none]
  rename_i st ms
  cases st with
  | none =>
    have : memberReserveMeta 16 none = some ⟨16, none⟩ := rfl
    simp [this, LMeta.erase, lbuildMap_erase]
  | some m =>
    simp only [Option.map_some]
    cases hm : m.map with
    | some mb => simp [LMeta.erase, hm]
    | none => simp [LMeta.erase, hm, lbuildMap_erase]

theorem erase_ldestroyMap (x : LNode) (n : Nat) :
    (ldestroyMap x n).map (fun e => e.node.erase) = destroyMapImpl x.erase := by
  cases x <;> simp [ldestroyMap, destroyMapImpl, erase_ldestroyMapMeta]

theorem erase_lmemberReserve (k : Nat) (x : LNode) (n : Nat) :
    (lmemberReserve k x n).map (fun e => e.node.erase) = memberReserveImpl k x.erase := by
  cases x <;> simp only [lmemberReserve, memberReserveImpl, erase_null, erase_bool, erase_num, erase_str, erase_arr,
    erase_obj, Option.map_none]
  rename_i st ms
  simp only [memberReserveMeta, objCap_erase]
  split
  · cases st with
    | none => simp [LMeta.erase, lcap]
    | some m =>
      simp only [Option.map_some, objMap, LMeta.erase, lcap]
      split <;> simp [LMeta.erase, *]
  · simp

theorem arrCap_erase (st : Option (Nat × Nat)) : arrCap (st.map (·.1)) = larrCap st := by
  cases st <;> rfl

theorem erase_lpushBack (v x : LNode) (n : Nat) :
    (lpushBack v x n).map (fun e => e.node.erase) = pushBackImpl v.erase x.erase := by
  cases x <;> simp only [lpushBack, pushBackImpl, erase_null, erase_bool, erase_num, erase_str, erase_arr,
    erase_obj, Option.map_none, List.length_map, arrCap_erase]
  rename_i st es
  split
  · simp
  · rename_i h
    cases st with
    | none => simp [larrCap] at h
    | some c => simp [larrCap]

theorem erase_lpopBack (x : LNode) (n : Nat) :
    (lpopBack x n).map (fun e => e.node.erase) = popBackImpl x.erase := by
  cases x <;> simp only [lpopBack, popBackImpl, erase_null, erase_bool, erase_num, erase_str, erase_arr,
    erase_obj, Option.map_none, List.isEmpty_map]
  rename_i st es
  cases hl : es.getLast? with
  | none =>
    have : es = [] := List.getLast?_eq_none_iff.1 hl
    subst this
    simp
  | some l =>
    have hne : es ≠ [] := fun h => by subst h; simp at hl
    have : es.isEmpty = false := by cases es <;> simp_all
    simp [this, List.map_dropLast]

theorem erase_lerase (f l : Nat) (x : LNode) (n : Nat) :
    (lerase f l x n).map (fun e => e.node.erase) = (eraseImpl f l x.erase).map (·.1) := by
  cases x <;> simp only [lerase, eraseImpl, erase_null, erase_bool, erase_num, erase_str, erase_arr,
    erase_obj, Option.map_none, List.length_map]
  split <;> simp [List.map_take, List.map_drop]

theorem erase_lreserve (k : Nat) (x : LNode) (n : Nat) :
    (lreserve k x n).map (fun e => e.node.erase) = reserveImpl k x.erase := by
  cases x <;> simp only [lreserve, reserveImpl, erase_null, erase_bool, erase_num, erase_str, erase_arr,
    erase_obj, Option.map_none, arrCap_erase]
  split <;> simp

theorem erase_lclear (x : LNode) (n : Nat) : (lclear x n).map (fun e => e.node.erase) = clearImpl x.erase := by
  cases x <;> simp [lclear, clearImpl]

theorem map_fst_withUnit (r : Option Node) : (Sonic.Model.Dom.withUnit r).map (·.1) = r := by
  cases r <;> rfl

theorem erase_apply (env : Containers.Env) (op : NodeOp) (x : LNode) (n : Nat) :
    (LNode.apply env op x n).map (fun e => e.node.erase) = (Node.apply env op x.erase).map (·.1) := by
  cases op with
  | set v => simp [LNode.apply, Node.apply, erase_lofVal]
  | add k v ck =>
    simp only [LNode.apply, Node.apply, erase_laddMember, erase_lofVal, Option.map_map]
    rfl
  | remove k =>
    simp only [LNode.apply, Node.apply, erase_lremoveMember, Option.map_map]
    rfl
  | eraseMem f l =>
    simp only [LNode.apply, Node.apply, erase_leraseMember, Option.map_map]
    rfl
  | mreserve k => simp only [LNode.apply, Node.apply, map_fst_withUnit, erase_lmemberReserve]
  | createMap => simp only [LNode.apply, Node.apply, map_fst_withUnit, erase_lcreateMap]
  | destroyMap => simp only [LNode.apply, Node.apply, map_fst_withUnit, erase_ldestroyMap]
  | push v => simp only [LNode.apply, Node.apply, map_fst_withUnit, erase_lpushBack, erase_lofVal]
  | pop => simp only [LNode.apply, Node.apply, map_fst_withUnit, erase_lpopBack]
  | erase f l =>
    simp only [LNode.apply, Node.apply, erase_lerase, Option.map_map]
    rfl
  | reserve k => simp only [LNode.apply, Node.apply, map_fst_withUnit, erase_lreserve]
  | clear => simp only [LNode.apply, Node.apply, map_fst_withUnit, erase_lclear]
  | find k =>
    simp only [LNode.apply]
    cases h : Node.apply env (.find k) x.erase with
    | none => simp
    | some r =>
      simp only [Option.isSome_some, ↓reduceIte, Option.map_some, Option.some.injEq]
      simp only [Node.apply, Option.map_eq_some_iff] at h
      obtain ⟨_, _, rfl⟩ := h
      rfl
  | atPtr ps => simp [LNode.apply, Node.apply]
  | info => simp [LNode.apply, Node.apply]
  | dump c r => simp [LNode.apply, Node.apply]

theorem erase_modifyAt {f : LNode → Nat → Option Eff} {ρ : Type} {g : Node → Option (Node × ρ)} {n : Nat}
    (hfg : ∀ x, (f x n).map (fun e => e.node.erase) = (g x.erase).map (·.1)) (doc : LNode) (p : Path) :
    (doc.modifyAt f p n).map (fun e => e.node.erase) = (doc.erase.modifyAt g p).map (·.1) := by
  rw [modifyAt_eq]
  unfold LNode.modifyAt
  have hget := erase_get p doc
  cases hx : doc.get p with
  | none => rw [hx] at hget; simp [← hget]
  | some x =>
    rw [hx] at hget
    simp only [Option.map_some] at hget
    simp only [Option.bind_some, ← hget]
    have h1 := hfg x
    cases hf : f x n with
    | none =>
      rw [hf] at h1
      simp only [Option.map_none] at h1
      have : g x.erase = none := by
        cases hg : g x.erase with
        | none => rfl
        | some r => rw [hg] at h1; simp at h1
      simp [this]
    | some e =>
      rw [hf] at h1
      simp only [Option.map_some] at h1
      cases hg : g x.erase with
      | none => rw [hg] at h1; simp at h1
      | some r =>
        rw [hg] at h1
        simp only [Option.map_some, Option.some.injEq] at h1
        simp only [Option.bind_some, ← h1]
        have hset := erase_set p doc e.node
        cases hs : doc.set p e.node with
        | none => rw [hs] at hset; simp [← hset]
        | some d' => rw [hs] at hset; simp [← hset]

/-! ## two-node operations -/

theorem set_none_of_get_none : ∀ {p : Path} {doc : LNode} (x : LNode), doc.get p = none → doc.set p x = none
  | [], _, _, h => by simp [LNode.get] at h
  | s :: p, doc, x, h => by
    simp only [LNode.get] at h
    simp only [LNode.set]
    cases hc : doc.child s with
    | none => simp
    | some c =>
      rw [hc] at h
      simp only [Option.bind_some] at h ⊢
      simp [set_none_of_get_none x h]

theorem erase_lmoveNode (doc : LNode) (dst src : Path) :
    (lmoveNode doc dst src).map (fun r => r.1.erase) = moveNode doc.erase dst src := by
  unfold lmoveNode moveNode
  split
  · exact map_refine (erase_get dst doc) (fun _ _ => rfl)
  · split
    · rfl
    · refine bind_refine (erase_get src doc) fun v _ => ?_
      refine bind_refine (erase_set_null src doc) fun d1 _ => ?_
      have hs := erase_set dst d1 v
      cases hold : d1.get dst with
      | none =>
        rw [set_none_of_get_none v hold] at hs
        simp [← hs]
      | some old =>
        simp only [Option.bind_some, Option.map_map, ← hs]
        cases d1.set dst v <;> simp

theorem erase_lmoveNode2 (D : LNode) (dst : Path) (S : LNode) (src : Path) :
    (lmoveNode2 D dst S src).map (fun r => (r.1.erase, r.2.1.erase)) = moveNode2 D.erase dst S.erase src := by
  unfold lmoveNode2 moveNode2
  refine bind_refine (erase_get src S) fun v _ => ?_
  refine bind_refine (erase_set_null src S) fun S' _ => ?_
  have hs := erase_set dst D v
  cases hold : D.get dst with
  | none =>
    rw [set_none_of_get_none v hold] at hs
    simp [← hs]
  | some old =>
    simp only [Option.bind_some, Option.map_map, ← hs]
    cases D.set dst v <;> simp

theorem erase_lcopyNode (cs : Bool) (doc : LNode) (dst src : Path) (n : Nat) :
    (lcopyNode cs doc dst src n).map (fun e => e.node.erase) = copyNode cs doc.erase dst src := by
  unfold lcopyNode copyNode
  split
  · rfl
  · refine bind_refine (erase_get src doc) fun v _ => ?_
    have hs := erase_set dst doc (lcopy cs v n).1
    rw [erase_lcopy] at hs
    cases hold : doc.get dst with
    | none =>
      rw [set_none_of_get_none _ hold] at hs
      simp [← hs]
    | some old =>
      simp only [Option.bind_some, Option.map_map, ← hs]
      cases doc.set dst (lcopy cs v n).1 <;> simp

theorem erase_lcopyNode2 (cs : Bool) (D : LNode) (dst : Path) (S : LNode) (src : Path) (n : Nat) :
    (lcopyNode2 cs D dst S src n).map (fun e => e.node.erase) = copyNode2 cs D.erase dst S.erase src := by
  unfold lcopyNode2 copyNode2
  refine bind_refine (erase_get src S) fun v _ => ?_
  have hs := erase_set dst D (lcopy cs v n).1
  rw [erase_lcopy] at hs
  cases hold : D.get dst with
  | none =>
    rw [set_none_of_get_none _ hold] at hs
    simp [← hs]
  | some old =>
    simp only [Option.bind_some, Option.map_map, ← hs]
    cases D.set dst (lcopy cs v n).1 <;> simp

theorem erase_lswapNodes (doc : LNode) (a b : Path) :
    (lswapNodes doc a b).map LNode.erase = swapNodes doc.erase a b := by
  unfold lswapNodes swapNodes
  split
  · exact map_refine (erase_get a doc) (fun _ _ => rfl)
  · split
    · rfl
    · exact bind_refine (erase_get a doc) fun x _ =>
        bind_refine (erase_get b doc) fun y _ =>
          bind_refine (erase_set a doc y) fun d1 _ => erase_set b d1 x

theorem erase_lswapNodes2 (D : LNode) (a : Path) (S : LNode) (b : Path) :
    (lswapNodes2 D a S b).map (fun r => (r.1.erase, r.2.1.erase)) = swapNodes2 D.erase a S.erase b := by
  unfold lswapNodes2 swapNodes2
  exact bind_refine (erase_get a D) fun x _ =>
    bind_refine (erase_get b S) fun y _ =>
      bind_refine (erase_set a D y) fun D' _ =>
        map_refine (erase_set b S x) fun _ _ => rfl

end Sonic.Proofs.Ledger
