import Sonic.Spec.Json
import Sonic.Proofs.OnDemandJson

/-!
# The spec reader is local: a successful `parseValue` only depends on the bytes of the value itself (and, for a
# number, on the fact that no number character follows).  Used by C20 (raw slices are re-read out of context).
-/
namespace Sonic.Proofs.MergeShift
open Sonic.Spec Sonic.Spec.Json Sonic.Model.OnDemand Sonic.Proofs.OnDemand

/-- `d2` at `p2` carries the same `n` bytes as `d1` at `p1` -/
def Agree (d1 : List Nat) (p1 : Nat) (d2 : List Nat) (p2 n : Nat) : Prop :=
  ∀ j, j < n → d2[p2 + j]? = d1[p1 + j]?

theorem Agree.sub {d1 d2 : List Nat} {p1 p2 n : Nat} (h : Agree d1 p1 d2 p2 n) (i m : Nat) (hm : i + m ≤ n) :
    Agree d1 (p1 + i) d2 (p2 + i) m := by
  intro j hj
  have := h (i + j) (by omega)
  rwa [← Nat.add_assoc, ← Nat.add_assoc] at this

theorem Agree.at {d1 d2 : List Nat} {p1 p2 n : Nat} (h : Agree d1 p1 d2 p2 n) (q : Nat) (h1 : p1 ≤ q)
    (h2 : q < p1 + n) : d2[p2 + (q - p1)]? = d1[q]? := by
  have := h (q - p1) (by omega)
  rwa [show p1 + (q - p1) = q by omega] at this

/-- no number character at `e` (or the end of the input) -/
def NumEnd (d : List Nat) (e : Nat) : Prop := ∀ c, d[e]? = some c → isNumChar c = false

/-! ## whitespace -/

theorem skipWs_unique_fuel {d : List Nat} {q : Nat} : ∀ (f a : Nat), IsFirstNS d a q → q - a < f →
    skipWs d f a = q := by
  intro f
  induction f with
  | zero => intro a _ h; omega
  | succ f ih =>
    intro a h hf
    obtain ⟨h1, h2, h3, h4⟩ := h
    have ha : a < d.length := by omega
    unfold skipWs
    rw [List.getElem?_eq_getElem ha]
    simp only
    by_cases he : a = q
    · subst he
      have := h4 _ (List.getElem?_eq_getElem ha)
      rw [← isWs_eq] at this
      rw [if_neg (by rw [this]; simp)]
    · have := h3 a (Nat.le_refl _) (by omega) _ (List.getElem?_eq_getElem ha)
      rw [← isWs_eq] at this
      rw [if_pos this]
      exact ih (a + 1) ⟨by omega, h2, fun j hj hq => h3 j (by omega) hq, h4⟩ (by omega)

theorem skipWs_unique {d : List Nat} {a q : Nat} (h : IsFirstNS d a q) : skipWs d d.length a = q :=
  skipWs_unique_fuel d.length a h (by have := h.2.1; omega)

theorem skipWs_end_fuel {d : List Nat} : ∀ (f a : Nat), a ≤ d.length → WsRange d a d.length → d.length - a ≤ f →
    skipWs d f a = d.length := by
  intro f
  induction f with
  | zero => intro a ha _ hf; simp only [skipWs]; omega
  | succ f ih =>
    intro a ha h hf
    unfold skipWs
    by_cases he : a = d.length
    · subst he; simp
    · have ha' : a < d.length := by omega
      rw [List.getElem?_eq_getElem ha']
      simp only
      have := h a (Nat.le_refl _) ha' _ (List.getElem?_eq_getElem ha')
      rw [← isWs_eq] at this
      rw [if_pos this]
      exact ih (a + 1) (by omega) (fun j hj hq => h j (by omega) hq) (by omega)

theorem skipWs_end {d : List Nat} {a : Nat} (ha : a ≤ d.length) (h : WsRange d a d.length) :
    skipWs d d.length a = d.length := skipWs_end_fuel d.length a ha h (by omega)

/-- `skipWs` inside the agreeing region: the same (shifted) result -/
theorem skipWs_shift {d1 d2 : List Nat} {p1 p2 n a : Nat} (hA : Agree d1 p1 d2 p2 n) (ha : p1 ≤ a)
    {c : Nat} (hq : d1[skipWs d1 d1.length a]? = some c) (hc : isSpace c = false)
    (hin : skipWs d1 d1.length a < p1 + n) :
    skipWs d2 d2.length (p2 + (a - p1)) = p2 + (skipWs d1 d1.length a - p1) := by
  have hf := skipWs_first hq hc
  obtain ⟨f1, f2, f3, f4⟩ := hf
  apply skipWs_unique
  have hget : d2[p2 + (skipWs d1 d1.length a - p1)]? = some c := by
    rw [hA.at _ (by omega) hin]; exact hq
  refine ⟨by omega, Sonic.Proofs.StringDec.lt_of_get hget, ?_, ?_⟩
  · intro j hj1 hj2 c' hc'
    have : d2[p2 + ((j - p2 + p1) - p1)]? = d1[j - p2 + p1]? := hA.at _ (by omega) (by omega)
    rw [show p2 + ((j - p2 + p1) - p1) = j by omega] at this
    rw [this] at hc'
    exact f3 _ (by omega) (by omega) _ hc'
  · intro c' hc'
    rw [hget] at hc'; cases hc'; exact hc

/-! ## numbers -/

section Num
open Sonic.Spec.Number

/-- the rest of the text does not continue a number token -/
def NonNum (rest : List Nat) : Prop := rest = [] ∨ ∃ c t, rest = c :: t ∧ isNumChar c = false

theorem nonNum_facts {c : Nat} (h : isNumChar c = false) :
    Number.isDigit c = false ∧ c ≠ 45 ∧ c ≠ 46 ∧ c ≠ 101 ∧ c ≠ 69 ∧ c ≠ 43 ∧ c ≠ 48 := by
  simp only [isNumChar, Bool.or_eq_false_iff, beq_eq_false_iff_ne, ne_eq] at h
  obtain ⟨⟨⟨⟨⟨h1, h2⟩, h3⟩, h4⟩, h5⟩, h6⟩ := h
  refine ⟨h2, h1, h3, h4, h5, h6, ?_⟩
  intro e; subst e; simp [Number.isDigit] at h2

theorem takeDigits_nonNum {rest : List Nat} (h : NonNum rest) : takeDigits rest = [] := by
  rcases h with rfl | ⟨c, t, rfl, hc⟩
  · rfl
  · simp [takeDigits, (nonNum_facts hc).1]

theorem takeDigits_append {rest : List Nat} (h : NonNum rest) : ∀ a, takeDigits (a ++ rest) = takeDigits a
  | [] => by simpa [takeDigits] using takeDigits_nonNum h
  | x :: a => by
    have ih := takeDigits_append h a
    unfold takeDigits at ih ⊢
    simp only [List.cons_append, List.takeWhile_cons, ih]

theorem takeDigits_length_le (a : List Nat) : (takeDigits a).length ≤ a.length := by
  unfold takeDigits; exact List.takeWhile_sublist _ |>.length_le

theorem scanInt_append {rest : List Nat} (h : NonNum rest) (a : List Nat) (ha : a ≠ []) :
    scanInt (a ++ rest) = scanInt a := by
  cases a with
  | nil => exact absurd rfl ha
  | cons c a =>
    have := takeDigits_append h (c :: a)
    simp only [List.cons_append] at this
    simp only [scanInt, List.cons_append, this]

theorem scanInt_len {a ids : List Nat} (h : scanInt a = some ids) : ids.length ≤ a.length := by
  cases a with
  | nil => simp [scanInt] at h
  | cons c a =>
    simp only [scanInt] at h
    split at h
    · cases h; simp
    · split at h
      · cases h; exact takeDigits_length_le _
      · cases h

theorem scanFrac_ne46 (c : Nat) (a : List Nat) (hc : c ≠ 46) : scanFrac (c :: a) = some none := by
  unfold scanFrac; split
  · rename_i heq; cases heq; exact absurd rfl hc
  · rfl

theorem scanFrac_append {rest : List Nat} (h : NonNum rest) (a : List Nat) : scanFrac (a ++ rest) = scanFrac a := by
  cases a with
  | nil =>
    rcases h with rfl | ⟨c, t, rfl, hc⟩
    · rfl
    · rw [List.nil_append, scanFrac_ne46 c t (nonNum_facts hc).2.2.1]; rfl
  | cons c a =>
    by_cases hc : c = 46
    · subst hc
      simp only [List.cons_append, scanFrac, takeDigits_append h a]
    · rw [List.cons_append, scanFrac_ne46 c a hc, scanFrac_ne46 c _ hc]

theorem scanFrac_len {a : List Nat} {fs : List Nat} (h : scanFrac a = some (some fs)) : 1 + fs.length ≤ a.length := by
  unfold scanFrac at h
  split at h
  · rename_i r
    split at h
    · cases h
    · cases h
      have := takeDigits_length_le r
      simp only [List.length_cons]; omega
  · cases h

theorem expSign_other (c : Nat) (t : List Nat) (h1 : c ≠ 43) (h2 : c ≠ 45) : expSign (c :: t) = (1, 0) := by
  unfold expSign; split
  · rename_i heq; cases heq; exact absurd rfl h1
  · rename_i heq; cases heq; exact absurd rfl h2
  · rfl

theorem expSign_append {rest : List Nat} (h : NonNum rest) (r : List Nat) : expSign (r ++ rest) = expSign r := by
  cases r with
  | nil =>
    rcases h with rfl | ⟨c, t, rfl, hc⟩
    · rfl
    · have := nonNum_facts hc
      rw [List.nil_append, expSign_other c t this.2.2.2.2.2.1 this.2.1]; rfl
  | cons c r =>
    by_cases h1 : c = 43
    · subst h1; rfl
    · by_cases h2 : c = 45
      · subst h2; rfl
      · rw [List.cons_append, expSign_other c _ h1 h2, expSign_other c _ h1 h2]

theorem expSign_len (r : List Nat) : (expSign r).2 ≤ r.length := by
  unfold expSign; split <;> simp

theorem scanExp_append {rest : List Nat} (h : NonNum rest) (a : List Nat) : scanExp (a ++ rest) = scanExp a := by
  cases a with
  | nil =>
    rcases h with rfl | ⟨c, t, rfl, hc⟩
    · rfl
    · have := nonNum_facts hc
      simp [scanExp, this.2.2.2.1, this.2.2.2.2.1]
  | cons c r =>
    simp only [List.cons_append, scanExp, expSign_append h r]
    rw [List.drop_append_of_le_length (expSign_len r), takeDigits_append h]

theorem signLen_append (a rest : List Nat) (ha : a ≠ []) : signLen (a ++ rest) = signLen a := by
  cases a with
  | nil => exact absurd rfl ha
  | cons c a => unfold signLen; split <;> simp_all

theorem signLen_le (a : List Nat) : signLen a ≤ a.length := by
  unfold signLen; split <;> simp

theorem signLen_nonNum {rest : List Nat} (h : NonNum rest) : signLen rest = 0 := by
  rcases h with rfl | ⟨c, t, rfl, hc⟩
  · rfl
  · have := (nonNum_facts hc).2.1
    unfold signLen; split
    · rename_i heq; cases heq; exact absurd rfl this
    · rfl

theorem scanInt_nonNum {rest : List Nat} (h : NonNum rest) : scanInt rest = none := by
  rcases h with rfl | ⟨c, t, rfl, hc⟩
  · rfl
  · have := nonNum_facts hc
    simp [scanInt, this.1, this.2.2.2.2.2.2]

/-- appending something that does not continue a number does not change the token -/
theorem scanToken_append {rest : List Nat} (h : NonNum rest) (t : List Nat) : scanToken (t ++ rest) = scanToken t := by
  by_cases ht : t = []
  · subst ht
    simp only [List.nil_append]
    unfold scanToken
    simp only [signLen_nonNum h, List.drop_zero, scanInt_nonNum h]
    rfl
  · unfold scanToken
    simp only [signLen_append t rest ht]
    rw [List.drop_append_of_le_length (signLen_le t)]
    by_cases h1 : List.drop (signLen t) t = []
    · simp only [h1, List.nil_append, scanInt_nonNum h]
      rfl
    · rw [scanInt_append h _ h1]
      cases hi : scanInt (List.drop (signLen t) t) with
      | none => rfl
      | some ids =>
        simp only
        rw [List.drop_append_of_le_length (scanInt_len hi), scanFrac_append h]
        cases hfr : scanFrac (List.drop ids.length (List.drop (signLen t) t)) with
        | none => rfl
        | some fr =>
          simp only
          have hlen : fracBytes fr ≤ (List.drop ids.length (List.drop (signLen t) t)).length := by
            cases fr with
            | none => simp [fracBytes]
            | some fs => exact scanFrac_len hfr
          rw [List.drop_append_of_le_length hlen, scanExp_append h]

theorem nonNum_drop {d : List Nat} {e : Nat} (h : NumEnd d e) : NonNum (d.drop e) := by
  cases hd : d.drop e with
  | nil => exact Or.inl rfl
  | cons c t =>
    refine Or.inr ⟨c, t, rfl, h c ?_⟩
    have : (d.drop e)[0]? = some c := by rw [hd]; rfl
    simpa using this

theorem drop_eq_seg_append {d : List Nat} {p e : Nat} (h1 : p ≤ e) :
    d.drop p = seg d p e ++ d.drop e := by
  unfold seg
  rw [show d.drop e = (d.drop p).drop (e - p) by rw [List.drop_drop]; congr 1; omega]
  exact (List.take_append_drop _ _).symm

theorem seg_eq_of_agree {d1 d2 : List Nat} {p1 p2 n : Nat} (hA : Agree d1 p1 d2 p2 n) (_h1 : p1 + n ≤ d1.length) :
    seg d2 p2 (p2 + n) = seg d1 p1 (p1 + n) := by
  apply List.ext_getElem?
  intro j
  unfold seg
  simp only [Nat.add_sub_cancel_left, List.getElem?_take, List.getElem?_drop]
  by_cases hj : j < n
  · simp only [hj, if_true]; exact hA j hj
  · simp only [hj, if_false]

/-- a number token is read the same way wherever it stands, as long as no number character follows -/
theorem scanNumber_shift {d1 d2 : List Nat} {p1 p2 e1 : Nat} {n : JNum} (h : scanNumber d1 p1 = .ok n e1)
    (hA : Agree d1 p1 d2 p2 (e1 - p1)) (h1 : NumEnd d1 e1) (h2 : NumEnd d2 (p2 + (e1 - p1))) :
    scanNumber d2 p2 = .ok n (p2 + (e1 - p1)) := by
  obtain ⟨b1, b2, _⟩ := scanNumber_chars h
  have hA' : Agree d1 p1 d2 p2 (e1 - p1) := hA
  have hs : seg d2 p2 (p2 + (e1 - p1)) = seg d1 p1 e1 := by
    have := seg_eq_of_agree hA' (by omega)
    rwa [show p1 + (e1 - p1) = e1 by omega] at this
  have e1' : scanToken (d1.drop p1) = scanToken (seg d1 p1 e1) := by
    rw [drop_eq_seg_append (Nat.le_of_lt b1), scanToken_append (nonNum_drop h1)]
  have e2' : scanToken (d2.drop p2) = scanToken (seg d1 p1 e1) := by
    rw [drop_eq_seg_append (show p2 ≤ p2 + (e1 - p1) by omega), scanToken_append (nonNum_drop h2), hs]
  unfold scanNumber at h ⊢
  rw [e1'] at h
  rw [e2']
  cases ht : scanToken (seg d1 p1 e1) with
  | none => rw [ht] at h; cases h
  | some t =>
    rw [ht] at h
    simp only at h ⊢
    cases hv : t.value with
    | none => rw [hv] at h; cases h
    | some w =>
      rw [hv] at h
      simp only at h ⊢
      injection h with h3 h4
      rw [h3]
      congr 1
      omega

end Num

/-! ## building a successful read (the converses of `parseValue_inv`, `parseElems_inv`, `parseMembers_inv`) -/

theorem parseValue_of_shape {d : List Nat} {f p c : Nat} {v : JVal} {e : Nat} (hc : d[p]? = some c)
    (sh : ValShape d f p v e c) : parseValue d (f + 1) p = .ok (v, e) := by
  rw [parseValue]
  simp only [hc]
  cases sh with
  | str s h hv => subst hv; simp [h]
  | arrEmpty hq hv he => subst hv he; simp [hq]
  | arr xs hq h hv =>
    subst hv
    have : (d[skipWs d d.length (p + 1)]? == some 0x5D) = false := by simpa using hq
    simp [this, h]
  | objEmpty hq hv he => subst hv he; simp [hq]
  | obj kvs hq h hv =>
    subst hv
    have : (d[skipWs d d.length (p + 1)]? == some 0x7D) = false := by simpa using hq
    simp [this, h]
  | tru h hv he => subst hv he; simp [h]
  | fls h hv he => subst hv he; simp [h]
  | nul h hv he => subst hv he; simp [h]
  | num c' hc' n h hv =>
    subst hv
    have h1 : (c == 0x22) = false := by rcases hc' with rfl | hc' <;> simp <;> omega
    have h2 : (c == 0x5B) = false := by rcases hc' with rfl | hc' <;> simp <;> omega
    have h3 : (c == 0x7B) = false := by rcases hc' with rfl | hc' <;> simp <;> omega
    have h4 : (c == 0x74) = false := by rcases hc' with rfl | hc' <;> simp <;> omega
    have h5 : (c == 0x66) = false := by rcases hc' with rfl | hc' <;> simp <;> omega
    have h6 : (c == 0x6E) = false := by rcases hc' with rfl | hc' <;> simp <;> omega
    have h7 : (c == 0x2D || (decide (0x30 ≤ c) && decide (c ≤ 0x39))) = true := by
      rcases hc' with rfl | hc' <;> simp <;> omega
    simp [h1, h2, h3, h4, h5, h6, h7, h]

theorem parseElems_last {d : List Nat} {f p : Nat} {v : JVal} {next : Nat}
    (hv : parseValue d f p = .ok (v, next)) (hq : d[skipWs d d.length next]? = some 0x5D) :
    parseElems d (f + 1) p = .ok ([v], skipWs d d.length next + 1) := by
  rw [parseElems]; simp [hv, hq]

theorem parseElems_cons {d : List Nat} {f p : Nat} {v : JVal} {next : Nat} {vs : List JVal} {e : Nat}
    (hv : parseValue d f p = .ok (v, next)) (hq : d[skipWs d d.length next]? = some 0x2C)
    (hr : parseElems d f (skipWs d d.length (skipWs d d.length next + 1)) = .ok (vs, e)) :
    parseElems d (f + 1) p = .ok (v :: vs, e) := by
  rw [parseElems]; simp [hv, hq, hr]

theorem parseMembers_last {d : List Nat} {f p : Nat} {k : List Nat} {ak : Nat} {v : JVal} {next : Nat}
    (h0 : d[p]? = some 0x22) (hk : decodeLit d (p + 1) = some (k, ak))
    (hc : d[skipWs d d.length ak]? = some 0x3A)
    (hv : parseValue d f (skipWs d d.length (skipWs d d.length ak + 1)) = .ok (v, next))
    (hq : d[skipWs d d.length next]? = some 0x7D) :
    parseMembers d (f + 1) p = .ok ([(k, v)], skipWs d d.length next + 1) := by
  rw [parseMembers]; simp [h0, hk, hc, hv, hq]

theorem parseMembers_cons {d : List Nat} {f p : Nat} {k : List Nat} {ak : Nat} {v : JVal} {next : Nat}
    {rest : List (List Nat × JVal)} {e : Nat}
    (h0 : d[p]? = some 0x22) (hk : decodeLit d (p + 1) = some (k, ak))
    (hc : d[skipWs d d.length ak]? = some 0x3A)
    (hv : parseValue d f (skipWs d d.length (skipWs d d.length ak + 1)) = .ok (v, next))
    (hq : d[skipWs d d.length next]? = some 0x2C)
    (hr : parseMembers d f (skipWs d d.length (skipWs d d.length next + 1)) = .ok (rest, e)) :
    parseMembers d (f + 1) p = .ok ((k, v) :: rest, e) := by
  rw [parseMembers]; simp [h0, hk, hc, hv, hq, hr]

/-! ## the shift theorem -/

theorem Agree.shiftTo {d1 d2 : List Nat} {p1 p2 n : Nat} (h : Agree d1 p1 d2 p2 n) (x1 y1 : Nat) (hx : p1 ≤ x1)
    (hy : y1 ≤ p1 + n) : Agree d1 x1 d2 (p2 + (x1 - p1)) (y1 - x1) := by
  intro j hj
  have := h.at (x1 + j) (by omega) (by omega)
  rw [← this]; congr 1; omega

theorem skipWs_nonws {d : List Nat} : ∀ (f a c : Nat), d.length - a ≤ f → d[skipWs d f a]? = some c →
    isSpace c = false := by
  intro f
  induction f with
  | zero =>
    intro a c hf h
    simp only [skipWs] at h
    rw [List.getElem?_eq_none (by omega)] at h; cases h
  | succ f ih =>
    intro a c hf h
    unfold skipWs at h
    cases hc : d[a]? with
    | none => simp only [hc] at h; cases h
    | some c0 =>
      simp only [hc] at h
      by_cases hw : isWs c0 = true
      · rw [if_pos hw] at h
        exact ih (a + 1) c (by omega) h
      · rw [if_neg hw, hc] at h
        cases h
        rw [← isWs_eq]; simpa using hw

/-- `skipWs` inside the agreeing region: the same (shifted) result -/
theorem skipWs_shift' {d1 d2 : List Nat} {p1 p2 n a : Nat} (hA : Agree d1 p1 d2 p2 n) (ha : p1 ≤ a)
    (hin : skipWs d1 d1.length a < p1 + n) (hlen : p1 + n ≤ d1.length) :
    skipWs d2 d2.length (p2 + (a - p1)) = p2 + (skipWs d1 d1.length a - p1) := by
  have hq : d1[skipWs d1 d1.length a]? = some d1[skipWs d1 d1.length a] :=
    List.getElem?_eq_getElem (by omega)
  exact skipWs_shift hA ha hq (skipWs_nonws _ _ _ (by omega) hq) hin

theorem isNumChar_of_space {c : Nat} (h : isSpace c = true) : isNumChar c = false := by
  simp only [isSpace, Bool.or_eq_true, beq_iff_eq] at h
  rcases h with ((h | h) | h) | h <;> subst h <;> rfl

/-- after a value inside a container, no number character follows -/
theorem numEnd_of_skipWs {d : List Nat} {next c : Nat} (h : d[skipWs d d.length next]? = some c)
    (hc : isNumChar c = false) : NumEnd d next := by
  intro c' hc'
  obtain ⟨h1, h2⟩ := skipWs_spec d d.length next
  by_cases he : skipWs d d.length next = next
  · rw [he] at h; rw [h] at hc'; cases hc'; exact hc
  · exact isNumChar_of_space (h2 next (Nat.le_refl _) (by omega) c' hc')

theorem matchLit_intro {d : List Nat} {p : Nat} {lit : List Nat} (h : ∀ i, i < lit.length → d[p + i]? = lit[i]?) :
    matchLit d p lit = true := by
  unfold matchLit
  rw [List.all_eq_true]
  intro i hi
  simpa using h i (List.mem_range.mp hi)

theorem matchLit_shift {d1 d2 : List Nat} {p1 p2 n : Nat} {lit : List Nat} (hA : Agree d1 p1 d2 p2 n)
    (hn : lit.length ≤ n) (h : matchLit d1 p1 lit = true) : matchLit d2 p2 lit = true :=
  matchLit_intro fun i hi => by rw [hA i (by omega)]; exact matchLit_get h i hi

theorem decodeLit_shift {d1 d2 : List Nat} {a1 a2 : Nat} {s : List Nat} {e1 : Nat}
    (h : decodeLit d1 a1 = some (s, e1)) (hA : Agree d1 a1 d2 a2 (e1 - a1)) :
    decodeLit d2 a2 = some (s, a2 + (e1 - a1)) := by
  rw [Sonic.Proofs.StringDec.decodeLit_eq_dec] at h ⊢
  exact dec_shift d1 d2 _ a1 a2 s e1 (Nat.le_refl _) h hA

theorem shape_nonws {d : List Nat} {f p : Nat} {v : JVal} {e c : Nat} (sh : ValShape d f p v e c) :
    isSpace c = false := by
  cases sh with
  | num c' hc n h hv => rcases hc with rfl | hc
                        · rfl
                        · simp only [isSpace, Bool.or_eq_false_iff, beq_eq_false_iff_ne, ne_eq]; omega
  | _ => rfl

theorem notNum_delims {c : Nat} (h : c = 0x2C ∨ c = 0x5D ∨ c = 0x7D ∨ c = 0x3A) : isNumChar c = false := by
  rcases h with rfl | rfl | rfl | rfl <;> rfl

/-- **Locality of the spec reader.**  A successful read of a value / element list / member list at `p1` in `d1`
    is reproduced at `p2` in any `d2` that carries the same bytes there — for a value under the proviso that in
    both texts no number character follows it — with any fuel of at least twice the number of bytes read. -/
theorem shift_all (d1 d2 : List Nat) : ∀ (f : Nat),
    (∀ p1 p2 v e1, parseValue d1 f p1 = .ok (v, e1) → Agree d1 p1 d2 p2 (e1 - p1) → NumEnd d1 e1 →
      NumEnd d2 (p2 + (e1 - p1)) → ∀ f2, 2 * (e1 - p1) ≤ f2 → parseValue d2 f2 p2 = .ok (v, p2 + (e1 - p1))) ∧
    (∀ p1 p2 xs e1, parseElems d1 f p1 = .ok (xs, e1) → Agree d1 p1 d2 p2 (e1 - p1) →
      ∀ f2, 2 * (e1 - p1) - 1 ≤ f2 → parseElems d2 f2 p2 = .ok (xs, p2 + (e1 - p1))) ∧
    (∀ p1 p2 kvs e1, parseMembers d1 f p1 = .ok (kvs, e1) → Agree d1 p1 d2 p2 (e1 - p1) →
      ∀ f2, 2 * (e1 - p1) - 1 ≤ f2 → parseMembers d2 f2 p2 = .ok (kvs, p2 + (e1 - p1))) := by
  intro f
  induction f with
  | zero =>
    refine ⟨fun p1 p2 v e1 h => absurd h parseValue_zero, fun p1 p2 xs e1 h => ?_, fun p1 p2 kvs e1 h => ?_⟩
    · simp [parseElems] at h
    · simp [parseMembers] at h
  | succ f ih =>
    obtain ⟨ihV, ihE, ihM⟩ := ih
    refine ⟨?_, ?_, ?_⟩
    · -- value
      intro p1 p2 v e1 h hA hN1 hN2 f2 hf2
      obtain ⟨b1, b2, _⟩ := (value_neut d1 (f + 1)).1 _ _ _ h
      obtain ⟨g, rfl⟩ : ∃ g, f2 = g + 1 := ⟨f2 - 1, by omega⟩
      obtain ⟨c, hc, sh⟩ := parseValue_inv h
      have hc2 : d2[p2]? = some c := by
        have := hA 0 (by omega); simpa [hc] using this
      have hlen : p1 + (e1 - p1) ≤ d1.length := by omega
      apply parseValue_of_shape hc2
      cases sh with
      | str s hd hv =>
        refine .str s ?_ hv
        have := decodeLit_shift hd (by
          have := hA.shiftTo (p1 + 1) e1 (by omega) (by omega)
          rwa [show p1 + 1 - p1 = 1 by omega] at this)
        rw [this]; congr 2
        have := (decodeLit_closeAt hd).1
        omega
      | arrEmpty hq hv he =>
        have hs := skipWs_shift' hA (a := p1 + 1) (by omega) (by omega) hlen
        rw [show p1 + 1 - p1 = 1 by omega] at hs
        have hge := (skipWs_spec d1 d1.length (p1 + 1)).1
        refine .arrEmpty ?_ hv (by rw [hs]; omega)
        rw [hs, hA.at _ (by omega) (by omega)]; exact hq
      | arr xs hq hel hv =>
        obtain ⟨e0, e2, _⟩ := (value_neut d1 f).2.1 _ _ _ hel
        have hs := skipWs_shift' hA (a := p1 + 1) (by omega) (by omega) hlen
        rw [show p1 + 1 - p1 = 1 by omega] at hs
        have hge := (skipWs_spec d1 d1.length (p1 + 1)).1
        refine .arr xs ?_ ?_ hv
        · rw [hs, hA.at _ (by omega) (by omega)]; exact hq
        · rw [hs]
          have := ihE _ (p2 + (skipWs d1 d1.length (p1 + 1) - p1)) _ _ hel
            (hA.shiftTo _ e1 (by omega) (by omega)) g (by omega)
          rw [this]; congr 2; omega
      | objEmpty hq hv he =>
        have hs := skipWs_shift' hA (a := p1 + 1) (by omega) (by omega) hlen
        rw [show p1 + 1 - p1 = 1 by omega] at hs
        have hge := (skipWs_spec d1 d1.length (p1 + 1)).1
        refine .objEmpty ?_ hv (by rw [hs]; omega)
        rw [hs, hA.at _ (by omega) (by omega)]; exact hq
      | obj kvs hq hm hv =>
        obtain ⟨e0, e2, _⟩ := (value_neut d1 f).2.2 _ _ _ hm
        have hs := skipWs_shift' hA (a := p1 + 1) (by omega) (by omega) hlen
        rw [show p1 + 1 - p1 = 1 by omega] at hs
        have hge := (skipWs_spec d1 d1.length (p1 + 1)).1
        refine .obj kvs ?_ ?_ hv
        · rw [hs, hA.at _ (by omega) (by omega)]; exact hq
        · rw [hs]
          have := ihM _ (p2 + (skipWs d1 d1.length (p1 + 1) - p1)) _ _ hm
            (hA.shiftTo _ e1 (by omega) (by omega)) g (by omega)
          rw [this]; congr 2; omega
      | tru hm hv he => exact .tru (matchLit_shift hA (by simp; omega) hm) hv (by omega)
      | fls hm hv he => exact .fls (matchLit_shift hA (by simp; omega) hm) hv (by omega)
      | nul hm hv he => exact .nul (matchLit_shift hA (by simp; omega) hm) hv (by omega)
      | num c' hc' n hn hv => exact .num c hc' n (scanNumber_shift hn hA hN1 hN2) hv
    · -- elements
      intro p1 p2 xs e1 h hA f2 hf2
      obtain ⟨b1, b2, _⟩ := (value_neut d1 (f + 1)).2.1 _ _ _ h
      obtain ⟨g, rfl⟩ : ∃ g, f2 = g + 1 := ⟨f2 - 1, by omega⟩
      have hlen : p1 + (e1 - p1) ≤ d1.length := by omega
      obtain ⟨v, next, hv, hcase⟩ := parseElems_inv h
      obtain ⟨v1, v2, _⟩ := (value_neut d1 f).1 _ _ _ hv
      have hge := (skipWs_spec d1 d1.length next).1
      have hq1 : skipWs d1 d1.length next < e1 := by
        rcases hcase with ⟨_, _, he⟩ | ⟨hq, vs, hr, _⟩
        · omega
        · obtain ⟨r1, _, _⟩ := (value_neut d1 f).2.1 _ _ _ hr
          have := (skipWs_spec d1 d1.length (skipWs d1 d1.length next + 1)).1
          omega
      have hqc : ∃ c, d1[skipWs d1 d1.length next]? = some c ∧ (c = 0x2C ∨ c = 0x5D ∨ c = 0x7D ∨ c = 0x3A) := by
        rcases hcase with ⟨hq, _, _⟩ | ⟨hq, _, _, _⟩
        · exact ⟨_, hq, Or.inr (Or.inl rfl)⟩
        · exact ⟨_, hq, Or.inl rfl⟩
      obtain ⟨cq, hcq, hcq'⟩ := hqc
      have hN1 : NumEnd d1 next := numEnd_of_skipWs hcq (notNum_delims hcq')
      have hN2 : NumEnd d2 (p2 + (next - p1)) := by
        intro c' hc'
        rw [hA.at next (by omega) (by omega)] at hc'
        exact hN1 c' hc'
      have hv2 := ihV p1 p2 v next hv (by
        have := hA.shiftTo p1 next (Nat.le_refl _) (by omega)
        rwa [Nat.sub_self, Nat.add_zero] at this) hN1 hN2 g (by omega)
      have hs := skipWs_shift' hA (a := next) (by omega) (by omega) hlen
      rcases hcase with ⟨hq, hxs, he⟩ | ⟨hq, vs, hr, hxs⟩
      · subst hxs
        have := parseElems_last hv2 (by rw [hs, hA.at _ (by omega) (by omega)]; exact hq)
        rw [this, hs]; congr 2; omega
      · subst hxs
        obtain ⟨r1, r2, _⟩ := (value_neut d1 f).2.1 _ _ _ hr
        have hge2 := (skipWs_spec d1 d1.length (skipWs d1 d1.length next + 1)).1
        have hs2 := skipWs_shift' hA (a := skipWs d1 d1.length next + 1) (by omega) (by omega) hlen
        have hr2 := ihE _ (p2 + (skipWs d1 d1.length (skipWs d1 d1.length next + 1) - p1)) _ _ hr
          (hA.shiftTo _ e1 (by omega) (by omega)) g (by omega)
        have := parseElems_cons hv2 (by rw [hs, hA.at _ (by omega) (by omega)]; exact hq)
          (vs := vs) (e := p2 + (e1 - p1)) (by
            rw [hs, show p2 + (skipWs d1 d1.length next - p1) + 1 = p2 + (skipWs d1 d1.length next + 1 - p1) by omega,
              hs2, hr2]; congr 2; omega)
        exact this
    · -- members
      intro p1 p2 kvs e1 h hA f2 hf2
      obtain ⟨b1, b2, _⟩ := (value_neut d1 (f + 1)).2.2 _ _ _ h
      obtain ⟨g, rfl⟩ : ∃ g, f2 = g + 1 := ⟨f2 - 1, by omega⟩
      have hlen : p1 + (e1 - p1) ≤ d1.length := by omega
      obtain ⟨h0, k, ak, hk, hcol, v, next, hv, hcase⟩ := parseMembers_inv h
      obtain ⟨k1, _⟩ := decodeLit_closeAt hk
      obtain ⟨v1, v2, _⟩ := (value_neut d1 f).1 _ _ _ hv
      have g1 := (skipWs_spec d1 d1.length ak).1
      have g2 := (skipWs_spec d1 d1.length (skipWs d1 d1.length ak + 1)).1
      have hge := (skipWs_spec d1 d1.length next).1
      have hq1 : skipWs d1 d1.length next < e1 := by
        rcases hcase with ⟨_, _, he⟩ | ⟨hq, rest, hr, _⟩
        · omega
        · obtain ⟨r1, _, _⟩ := (value_neut d1 f).2.2 _ _ _ hr
          have := (skipWs_spec d1 d1.length (skipWs d1 d1.length next + 1)).1
          omega
      have hqc : ∃ c, d1[skipWs d1 d1.length next]? = some c ∧ (c = 0x2C ∨ c = 0x5D ∨ c = 0x7D ∨ c = 0x3A) := by
        rcases hcase with ⟨hq, _, _⟩ | ⟨hq, _, _, _⟩
        · exact ⟨_, hq, Or.inr (Or.inr (Or.inl rfl))⟩
        · exact ⟨_, hq, Or.inl rfl⟩
      obtain ⟨cq, hcq, hcq'⟩ := hqc
      have hN1 : NumEnd d1 next := numEnd_of_skipWs hcq (notNum_delims hcq')
      have hN2 : NumEnd d2 (p2 + (next - p1)) := by
        intro c' hc'
        rw [hA.at next (by omega) (by omega)] at hc'
        exact hN1 c' hc'
      have h02 : d2[p2]? = some 0x22 := by
        have := hA 0 (by omega); simpa [h0] using this
      have hk2 : decodeLit d2 (p2 + 1) = some (k, p2 + (ak - p1)) := by
        have := decodeLit_shift hk (by
          have := hA.shiftTo (p1 + 1) ak (by omega) (by omega)
          rwa [show p1 + 1 - p1 = 1 by omega] at this)
        rw [this]; congr 2; omega
      have hsA := skipWs_shift' hA (a := ak) (by omega) (by omega) hlen
      have hsB := skipWs_shift' hA (a := skipWs d1 d1.length ak + 1) (by omega) (by omega) hlen
      have hv2 := ihV _ (p2 + (skipWs d1 d1.length (skipWs d1 d1.length ak + 1) - p1)) v next hv
        (hA.shiftTo _ next (by omega) (by omega)) hN1 (by
          rw [show p2 + (skipWs d1 d1.length (skipWs d1 d1.length ak + 1) - p1) +
            (next - skipWs d1 d1.length (skipWs d1 d1.length ak + 1)) = p2 + (next - p1) by omega]
          exact hN2) g (by omega)
      rw [show p2 + (skipWs d1 d1.length (skipWs d1 d1.length ak + 1) - p1) +
            (next - skipWs d1 d1.length (skipWs d1 d1.length ak + 1)) = p2 + (next - p1) by omega] at hv2
      have hcol2 : d2[skipWs d2 d2.length (p2 + (ak - p1))]? = some 0x3A := by
        rw [hsA, hA.at _ (by omega) (by omega)]; exact hcol
      have hvpos : skipWs d2 d2.length (skipWs d2 d2.length (p2 + (ak - p1)) + 1) =
          p2 + (skipWs d1 d1.length (skipWs d1 d1.length ak + 1) - p1) := by
        rw [hsA, show p2 + (skipWs d1 d1.length ak - p1) + 1 = p2 + (skipWs d1 d1.length ak + 1 - p1) by omega, hsB]
      have hs := skipWs_shift' hA (a := next) (by omega) (by omega) hlen
      rcases hcase with ⟨hq, hxs, he⟩ | ⟨hq, rest, hr, hxs⟩
      · subst hxs
        have := parseMembers_last h02 hk2 hcol2 (by rw [hvpos]; exact hv2)
          (by rw [hs, hA.at _ (by omega) (by omega)]; exact hq)
        rw [this, hs]; congr 2; omega
      · subst hxs
        obtain ⟨r1, r2, _⟩ := (value_neut d1 f).2.2 _ _ _ hr
        have hge2 := (skipWs_spec d1 d1.length (skipWs d1 d1.length next + 1)).1
        have hs2 := skipWs_shift' hA (a := skipWs d1 d1.length next + 1) (by omega) (by omega) hlen
        have hr2 := ihM _ (p2 + (skipWs d1 d1.length (skipWs d1 d1.length next + 1) - p1)) _ _ hr
          (hA.shiftTo _ e1 (by omega) (by omega)) g (by omega)
        exact parseMembers_cons h02 hk2 hcol2 (by rw [hvpos]; exact hv2)
          (by rw [hs, hA.at _ (by omega) (by omega)]; exact hq)
          (rest := rest) (e := p2 + (e1 - p1)) (by
            rw [hs, show p2 + (skipWs d1 d1.length next - p1) + 1 = p2 + (skipWs d1 d1.length next + 1 - p1) by omega,
              hs2, hr2]; congr 2; omega)

/-- the value part, with the fuel of a whole text -/
theorem parseValue_shift {d1 d2 : List Nat} {f p1 p2 : Nat} {v : JVal} {e1 : Nat}
    (h : parseValue d1 f p1 = .ok (v, e1)) (hA : Agree d1 p1 d2 p2 (e1 - p1)) (h1 : NumEnd d1 e1)
    (h2 : NumEnd d2 (p2 + (e1 - p1))) (f2 : Nat) (hf : 2 * (e1 - p1) ≤ f2) :
    parseValue d2 f2 p2 = .ok (v, p2 + (e1 - p1)) :=
  (shift_all d1 d2 f).1 p1 p2 v e1 h hA h1 h2 f2 hf

end Sonic.Proofs.MergeShift
