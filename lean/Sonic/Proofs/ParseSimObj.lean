import Sonic.Proofs.ParseSimInd

/-!
# Simulation: the induction step for object members, and the main induction `sim_all`
-/
namespace Sonic.Proofs.Parse
open Sonic.Gen Sonic.Spec Sonic.Model.Parse

theorem tok_test_ne {bs pad : List Nat} {q c : Nat} (htok : (paddedBuf bs pad)[q]? = some c) (hq : q ≤ bs.length)
    (x : Nat) (hx : x ≠ 0x78) : (bs[q]? != some x) = true ↔ c ≠ x := by
  have := tok_test htok hq x hx
  rw [beq_iff_eq] at this
  rw [bne_iff_ne]
  exact not_congr this

theorem ErrT.mono {W : Nat} {bs : List Nat} {r : StepResult} {p0 p1 : Nat} (h : ErrT W bs r p1) (hp : p0 ≤ p1) :
    ErrT W bs r p0 := by
  obtain ⟨k, s', hr, hfin, hk⟩ := h
  exact ⟨k, s', hr, hfin, by omega⟩

/-- `MembersGoal` when `parseImpl` has already failed because the stack is full -/
theorem MembersGoal_of_full {W : Nat} {bs pad : List Nat} {s : PState} {rest : List Frame} {c p : Nat}
    {dkvs : List (List Nat × JVal)} (hfull : ¬ s.sax.np < s.sax.cap)
    (hE : ErrT W bs (.ok (s, some (.objKey c))) p) (res : Except Json.Reject (List (List Nat × JVal) × Nat)) :
    MembersGoal W bs pad s rest c p dkvs res := by
  cases res with
  | error e => exact hE
  | ok x =>
    obtain ⟨kvs, e⟩ := x
    exact Or.inr ⟨hE, by unfold CapE; omega⟩

theorem MembersGoal_of_error {W : Nat} {bs pad : List Nat} {s : PState} {rest : List Frame} {c p : Nat}
    {dkvs : List (List Nat × JVal)} {e : Json.Reject}
    (hE : ErrT W bs (.ok (s, some (.objKey c))) p) :
    MembersGoal W bs pad s rest c p dkvs (.error e) := hE

/-- the first half of the `obj_key` label: the key, the colon, the token that starts the member's value -/
theorem key_phase {W : Nat} {bs pad : List Nat} {s : PState} {f : Frame} {rest : List Frame} {p : Nat}
    (ctx : Ctx W bs pad) (hat : At bs pad .key s (f :: rest) p 0x22) :
    (∃ n next1 out s3 c3, decodeLit bs (p + 1) = some (out, next1) ∧ s.sax.np < s.sax.cap ∧
        bs[Json.skipWs bs bs.length next1]? = some 0x3A ∧
        step W s (.objKey 0x22) = valueSwitch W s3 c3 .objCont ∧
        At bs pad .val s3 (pushItem (.str (p + 1) n) (f :: rest))
          (Json.skipWs bs bs.length (Json.skipWs bs bs.length next1 + 1)) c3 ∧ Pres s s3 ∧
        (∀ buf', Agree s3 buf' → (buf'.drop (p + 1)).take n = out)) ∨
    ((decodeLit bs (p + 1) = none ∨ ∃ out next1, decodeLit bs (p + 1) = some (out, next1) ∧
          (bs[Json.skipWs bs bs.length next1]? != some 0x3A) = true) ∧
        ∃ s', step W s (.objKey 0x22) = .ok (s', none) ∧ ErrFinal bs s') ∨
    (¬ s.sax.np < s.sax.cap ∧ ∃ s', step W s (.objKey 0x22) = .ok (s', none) ∧ ErrFinal bs s') := by
  have hp : p < bs.length := (hat.lt_of_ne (by decide)).1
  have hpos : s.pos ≤ bs.length := by rw [hat.pos]; omega
  rw [← hat.pos]
  rcases parseStr_cases ctx hat.inv.b hpos with
    ⟨n, next1, b', out, hdec, hin, hn, hps, hB, hpres, hout, hlen⟩ | ⟨hdec, n, b', hps, hB, hlen⟩ |
    ⟨hdec, code, p', hcode, hps⟩
  · by_cases hlt : s.sax.np < s.sax.cap
    · rw [scalar_ok hat.inv.st.1 hlt] at hps
      have hM1 : MInv bs pad .val { s with buf := b', pos := next1, sax := pushed s.sax (.str s.pos n) }
          (pushItem (.str s.pos n) (f :: rest)) :=
        hat.inv.push_key hlt _ rfl (hB.congr rfl rfl rfl (Nat.le_refl _)) hat.inv.err rfl rfl
      obtain ⟨c2, s2, hsk, hat2, hpres12, _, _⟩ := skip_at hM1 hin
      simp only at hat2
      by_cases hc2 : c2 = 0x3A
      · have hq := (hat2.lt_of_ne (by omega)).1
        obtain ⟨c3, s3, hsk3, hat3, hpres23, _, _⟩ := skip_at hat2.inv (by rw [hat2.pos]; omega)
        rw [hat2.pos] at hat3
        refine Or.inl ⟨n, next1, out, s3, c3, hdec, hlt, ?_, ?_, hat3, (hpres.trans hpres12).trans hpres23, ?_⟩
        · rw [← hc2]; exact (hat2.lt_of_ne (by omega)).2
        · simp only [step, ne_eq, not_true_eq_false, if_false, hps]
          simp only [hat.inv.err, kErrorNone, not_true_eq_false, if_false, Bool.not_true,
            Bool.false_eq_true]
          simp only [pushed, hat.inv.err] at hsk
          rw [hsk]
          simp only [hc2, not_true_eq_false, if_false, hsk3]
        · intro buf' ha
          have ha1 : Agree { s with buf := b', pos := next1, sax := pushed s.sax (.str s.pos n) } buf' :=
            ha.of_pres (hpres12.trans hpres23)
          rw [slice_agree ha1 (by simp only; omega)]
          exact hout
      · refine Or.inr (Or.inl ⟨Or.inr ⟨out, next1, hdec, (tok_test_ne hat2.tok hat2.le 0x3A (by decide)).mpr hc2⟩,
          { s2 with err := kParseErrorInvalidChar }, ?_, hat2.inv.errFull rfl rfl rfl rfl⟩)
        simp only [step, ne_eq, not_true_eq_false, if_false, hps]
        simp only [hat.inv.err, kErrorNone, not_true_eq_false, if_false, Bool.not_true,
          Bool.false_eq_true]
        simp only [pushed, hat.inv.err] at hsk
        rw [hsk]
        simp only [hc2, not_false_eq_true, if_true]
        rfl
    · rw [scalar_full hlt] at hps
      refine Or.inr (Or.inr ⟨hlt, { s with buf := b', pos := next1, err := kParseErrorInvalidChar }, ?_,
        hat.inv.errFull rfl rfl hlen rfl⟩)
      simp only [step, ne_eq, not_true_eq_false, if_false, hps]
      simp only [hat.inv.err, kErrorNone, not_true_eq_false, if_false, Bool.not_false, if_true]
      rfl
  · by_cases hlt : s.sax.np < s.sax.cap
    · rw [scalar_ok hat.inv.st.1 hlt] at hps
      have hM1 : MInv bs pad .val { s with buf := b', pos := bs.length + 2, sax := pushed s.sax (.str s.pos n) }
          (pushItem (.str s.pos n) (f :: rest)) :=
        hat.inv.push_key hlt _ rfl (hB.congr rfl rfl rfl (Nat.le_refl _)) hat.inv.err rfl rfl
      obtain ⟨k', hsk, hB2⟩ := skip_sentinel hM1.b rfl
      refine Or.inr (Or.inl ⟨Or.inl hdec, _, ?_, hM1.errFull (s' :=
        { s with buf := b', pos := bs.length + 3, cache := k', sax := pushed s.sax (.str s.pos n),
                 err := kParseErrorInvalidChar }) rfl rfl rfl rfl⟩)
      simp only [step, ne_eq, not_true_eq_false, if_false, hps]
      simp only [hat.inv.err, kErrorNone, not_true_eq_false, if_false, Bool.not_true,
        Bool.false_eq_true]
      simp only [pushed, hat.inv.err] at hsk
      rw [hsk]
      rfl
    · rw [scalar_full hlt] at hps
      refine Or.inr (Or.inr ⟨hlt, { s with buf := b', pos := bs.length + 2, err := kParseErrorInvalidChar }, ?_,
        hat.inv.errFull rfl rfl hlen rfl⟩)
      simp only [step, ne_eq, not_true_eq_false, if_false, hps]
      simp only [hat.inv.err, kErrorNone, not_true_eq_false, if_false, Bool.not_false, if_true]
      rfl
  · have hne : code ≠ kErrorNone := by simp only [kErrorNone]; omega
    by_cases hlt : s.sax.np < s.sax.cap
    · rw [scalar_ok hat.inv.st.1 hlt] at hps
      refine Or.inr (Or.inl ⟨Or.inl hdec, { s with err := code, pos := p', sax := pushed s.sax (.str s.pos 0) }, ?_,
        hat.inv.errPushed hlt (.str s.pos 0) rfl (by simp only; omega) rfl rfl rfl⟩)
      simp only [step, ne_eq, not_true_eq_false, if_false, hps]
      simp only [hne, not_false_eq_true, if_true]
      rfl
    · rw [scalar_full hlt] at hps
      refine Or.inr (Or.inl ⟨Or.inl hdec, { s with err := code, pos := p' }, ?_,
        hat.inv.errFinal (by simp only; omega) rfl rfl rfl⟩)
      simp only [step, ne_eq, not_true_eq_false, if_false, hps]
      simp only [hne, not_false_eq_true, if_true]

theorem members_step {W : Nat} {bs pad : List Nat} (ctx : Ctx W bs pad) (hnum : NumberOK bs) (fuel : Nat)
    (ihV : ValueSim W bs pad fuel) (ihM : MembersSim W bs pad fuel) : MembersSim W bs pad (fuel + 1) := by
  intro s f rest p c dkvs hf hat hgood hfuel
  rw [Json.parseMembers]
  by_cases hc : c = 0x22
  case neg =>
    -- not a key
    rw [if_pos ((tok_test_ne hat.tok hat.le 0x22 (by decide)).mpr hc)]
    refine ⟨1, { s with err := kParseErrorInvalidChar }, ⟨_, rfl, Reaches.step ?_ (Reaches.refl _)⟩,
      hat.inv.errFull rfl rfl rfl rfl, by have := hat.le; omega⟩
    simp only [step, ne_eq, hc, not_false_eq_true, if_true]
    rfl
  subst hc
  have hp := (hat.lt_of_ne (by decide)).1
  rw [if_neg (fun h => (tok_test_ne hat.tok hat.le 0x22 (by decide)).mp h rfl)]
  rcases key_phase ctx hat with ⟨n, next1, out, s3, c3, hdec, hlt, hcolon, hst, hat3, hpres3, hkey⟩ |
      ⟨hspec, s', hst, hfin⟩ | ⟨hfull, s', hst, hfin⟩
  · -- key and colon read
    rw [hdec]
    simp only
    rw [if_neg (by rw [hcolon]; simp)]
    have hk1 := decodeFrom_gt _ _ _ _ hdec
    have hk2 := decodeFrom_le _ _ _ _ hdec
    have hq := skipWs_ge bs (pos := next1) hk2
    have hql := lt_of_get_some hcolon
    have hpv := skipWs_ge bs (pos := Json.skipWs bs bs.length next1 + 1) (by omega)
    have hf1 : ({ f with items := f.items ++ [Node.str (p + 1) n] } : Frame).isArr = false := hf
    have hV := ihV s3 { f with items := f.items ++ [.str (p + 1) n] } rest _ c3 hat3 (by omega)
    replace hst : step W s (.objKey 0x22) =
        valueSwitch W s3 c3 (contOf { f with items := f.items ++ [.str (p + 1) n] }) := by
      rw [hst, contOf_obj hf1]
    have hnp3 := hat.np_push hat3
    cases hv : Json.parseValue bs fuel (Json.skipWs bs bs.length (Json.skipWs bs bs.length next1 + 1)) with
    | error e =>
      rw [hv] at hV
      exact ErrT.step hst (hV.mono (p0 := p + 1) (by omega))
    | ok x =>
      obtain ⟨v, next⟩ := x
      rw [hv] at hV
      simp only
      have hvp := (spec_progress hnum fuel _).1 v next hv
      have hr := skipWs_ge bs (pos := next) hvp.2
      rcases hV with ⟨k, s', node, c', ⟨cfg0, hcfg0, hreach⟩, hat', hgood', hpres, hk, hnl⟩ | ⟨hErr, hncap⟩ |
          ⟨hErr, hdoom⟩
      · have hreach1 : Reaches W (k + 1) (s, some (.objKey 0x22)) (s', some (.objCont c')) := by
          have := Reaches.step (by rw [hst, hcfg0]) hreach
          rwa [contOf_obj hf1] at this
        have ht7D := tok_test hat'.tok hat'.le 0x7D (by decide)
        have ht2C := tok_test hat'.tok hat'.le 0x2C (by decide)
        have hnp := hat3.np_push hat'
        have hgm : GoodMem s' (f.items ++ [.str (p + 1) n, node]) (dkvs ++ [(out, v)]) :=
          (hgood.mono (hpres3.trans hpres)).snoc (fun buf' ha => hkey buf' (ha.of_pres hpres)) hgood'
        have hitems : (f.items ++ [Node.str (p + 1) n]) ++ [node] = f.items ++ [.str (p + 1) n, node] := by simp
        have hat'' : At bs pad .cont s' ({ f with items := f.items ++ [.str (p + 1) n, node] } :: rest)
            (Json.skipWs bs bs.length next) c' := by
          have := hat'
          simp only [pushItem, hitems] at this
          exact this
        rcases objCont_step (W := W) ctx.hL hat'' hf with ⟨hc, hqL, s2, c2, hst2, hat2, hpres2, hsax⟩ |
            ⟨hc, hqL, cfg, hst2, hland, hpres2⟩ | ⟨hc1, hc2, s4, hst2, hfin⟩
        · -- `,`
          rw [if_neg (fun h => by have := ht7D.mp h; omega), if_pos (ht2C.mpr hc)]
          have hq2 := skipWs_ge bs (pos := Json.skipWs bs bs.length next + 1) (by omega)
          have hreach2 : Reaches W (k + 1 + 1) (s, some (.objKey 0x22)) (s2, some (.objKey c2)) :=
            hreach1.trans (Reaches.step hst2 (Reaches.refl _))
          have hE := ihM s2 { f with items := f.items ++ [.str (p + 1) n, node] } rest _ c2 (dkvs ++ [(out, v)]) hf
            hat2 (hgm.mono hpres2) (by omega)
          cases hres : Json.parseMembers bs fuel
              (Json.skipWs bs bs.length (Json.skipWs bs bs.length next + 1)) with
          | error e =>
            rw [hres] at hE
            exact ErrT.prepend hreach2 hE (by omega)
          | ok y =>
            obtain ⟨kvs, e⟩ := y
            rw [hres] at hE
            have hpe := (spec_progress hnum fuel _).2.2 kvs e hres
            rcases hE with ⟨k2, cfg, node2, hr2, hland, hg2, hp2, hk2, he⟩ | ⟨hErr, hncap⟩
            · refine Or.inl ⟨k + 1 + 1 + k2, cfg, node2, hreach2.trans hr2, hland, ?_,
                ((hpres3.trans hpres).trans hpres2).trans hp2, by omega, he⟩
              simpa using hg2
            · refine Or.inr ⟨ErrT.prepend hreach2 hErr (by omega), fun hcv => hncap ?_⟩
              unfold CapE at hcv ⊢
              rw [hsax, hnp.1, hnp.2, hnp3.1, hnp3.2]
              omega
        · -- `}`
          rw [if_pos (ht7D.mpr hc)]
          refine Or.inl ⟨k + 1 + 1, cfg, .obj (f.items ++ [.str (p + 1) n, node]),
            hreach1.trans (Reaches.step hst2 (Reaches.refl _)), hland, GoodAt.obj (hgm.mono hpres2),
            (hpres3.trans hpres).trans hpres2, by omega, by omega⟩
        · rw [if_neg (fun h => hc2 (ht7D.mp h)), if_neg (fun h => hc1 (ht2C.mp h))]
          exact ⟨k + 1 + 1, s4, ⟨_, rfl, hreach1.trans (Reaches.step hst2 (Reaches.refl _))⟩, hfin, by omega⟩
      · -- the stack was exhausted inside the member's value
        have hE := ErrT.step hst (hErr.mono (p0 := p + 1) (by omega))
        have hcapv : ∀ e, next + 1 ≤ e → CapE s p e → CapV s3
            (Json.skipWs bs bs.length (Json.skipWs bs bs.length next1 + 1)) next := by
          intro e he hcv
          unfold CapE at hcv
          unfold CapV
          rw [hnp3.1, hnp3.2]
          omega
        by_cases hb1 : (bs[Json.skipWs bs bs.length next]? == some 125) = true
        · rw [if_pos hb1]
          exact Or.inr ⟨hE, fun hcv => hncap (hcapv _ (by omega) hcv)⟩
        · rw [if_neg hb1]
          by_cases hb2 : (bs[Json.skipWs bs bs.length next]? == some 44) = true
          · rw [if_pos hb2]
            have hrl := lt_of_get_some (beq_some_iff.mp hb2)
            have hr2 := skipWs_ge bs (pos := Json.skipWs bs bs.length next + 1) (by omega)
            cases hres : Json.parseMembers bs fuel
                (Json.skipWs bs bs.length (Json.skipWs bs bs.length next + 1)) with
            | error e => exact hE
            | ok y =>
              obtain ⟨kvs, e⟩ := y
              have hpe := (spec_progress hnum fuel _).2.2 kvs e hres
              exact Or.inr ⟨hE, fun hcv => hncap (hcapv e (by omega) hcv)⟩
          · rw [if_neg hb2]
            exact hE
      · -- a doomed number: its next byte is neither `}` nor `,`
        obtain ⟨d, hdd, hsp, hd1, _, hd3, _⟩ := hdoom.notWs
        rw [skipWs_fix hdd hsp, hdd]
        rw [if_neg (by simp only [beq_iff_eq, Option.some.injEq]; exact hd3),
          if_neg (by simp only [beq_iff_eq, Option.some.injEq]; exact hd1)]
        exact ErrT.step hst (hErr.mono (p0 := p + 1) (by omega))
  · -- the spec rejects the key or misses the colon
    have hE : ErrT W bs (.ok (s, some (.objKey 0x22))) p :=
      ⟨1, s', ⟨_, rfl, Reaches.step hst (Reaches.refl _)⟩, hfin, by omega⟩
    rcases hspec with hnone | ⟨out, next1, hdec, hcol⟩
    · rw [hnone]; exact hE
    · rw [hdec]
      simp only
      rw [if_pos hcol]
      exact hE
  · -- no room for the key
    exact MembersGoal_of_full hfull ⟨1, s', ⟨_, rfl, Reaches.step hst (Reaches.refl _)⟩, hfin, by omega⟩ _

/-- **the machine follows the reference reader** (`machine_eq_descent`), for every fuel -/
theorem sim_all {W : Nat} {bs pad : List Nat} (ctx : Ctx W bs pad) (hnum : NumberOK bs) : ∀ fuel,
    ValueSim W bs pad fuel ∧ ElemsSim W bs pad fuel ∧ MembersSim W bs pad fuel := by
  intro fuel
  induction fuel with
  | zero =>
    refine ⟨?_, ?_, ?_⟩
    · intro s f rest p c _ h; omega
    · intro s f rest p c dv _ _ _ h; omega
    · intro s f rest p c dk _ _ _ h; omega
  | succ fuel ih =>
    exact ⟨value_step ctx hnum fuel ih.2.1 ih.2.2, elems_step ctx hnum fuel ih.1 ih.2.1,
      members_step ctx hnum fuel ih.1 ih.2.2⟩

/-- the name used in the design notes for `sim_all` -/
theorem machine_eq_descent {W : Nat} {bs pad : List Nat} (ctx : Ctx W bs pad) (hnum : NumberOK bs) (fuel : Nat) :
    ValueSim W bs pad fuel ∧ ElemsSim W bs pad fuel ∧ MembersSim W bs pad fuel := sim_all ctx hnum fuel

end Sonic.Proofs.Parse
