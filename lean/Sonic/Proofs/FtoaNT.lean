import Sonic.Proofs.FtoaRat
import Sonic.Proofs.FtoaTables
import Sonic.Proofs.FtoaNTCert
import Sonic.Model.Ftoa

/-!
# C07 / Schubfach: the number-theoretic fact behind `RoundToOdd`

For every binary exponent `q` of a finite double, with `A/B = 2^q·10^(-k)` (`k = ⌊log10 2^q⌋` as computed by the
code): for every `1 ≤ m ≤ 2^54 + 1` the residue `r = m·A mod B` is `0` or satisfies `B ≤ r·2^64` and
`B ≤ (B - r)·2^69`, i.e. the exact scaled value `m·A/B`, if it is not an integer, is at distance at least `2^-64`
above and `2^-69` below the nearest integers.  This is what makes the 128-bit over-estimate of `10^(-k)` harmless.

There is no uniform argument for this (it is a statement about how well `2^a/5^b` is approximated by fractions
with denominator `≤ 2^54`); it is proved per exponent from a certificate checked by the kernel:
* either the reduced denominator `B / gcd(A, B)` is at most `2^64` (`186` exponents), or
* two lattice vectors `(m1, y1)`, `(m2, -y2)` of `{(m, y) : y ≡ m·A (mod B)}` with `m1·y2 + m2·y1 = B` (a basis) and
  `m1 + m2 > 2^54 + 1`: then every `0 < m ≤ 2^54 + 1` has `y1 ≤ m·A mod B ≤ B - y2` (best approximations from
  above and from below), and `y1`, `y2` are large enough.
-/
namespace Sonic.Proofs.Ftoa
open Sonic.Model.Ftoa

/-! ## the lattice argument (over `Int`) -/

theorem det_one (A B m1 m2 t1 t2 y1 y2 : Int) (hB : 0 < B)
    (e1 : m1 * A = t1 * B + y1) (e2 : m2 * A + y2 = t2 * B)
    (hdet : m1 * y2 + m2 * y1 = B) : m1 * t2 - m2 * t1 = 1 := by
  have h2 : (m1 * t2 - m2 * t1 - 1) * B = 0 := by grind
  rcases Int.mul_eq_zero.1 h2 with h | h
  · omega
  · omega

theorem pos_of_mul_pos (i B : Int) (hB : 0 < B) (h : 0 < i * B) : 1 ≤ i := by
  rcases Int.lt_or_le 0 i with h' | h'
  · omega
  · have := Int.mul_nonpos_of_nonpos_of_nonneg h' (Int.le_of_lt hB); omega

/-- a lattice point `(m, y)`, `0 < m ≤ M`, `y = m·A - t·B ≥ 0` has `y ≥ y1` -/
theorem lat_low (A B m1 m2 t1 t2 y1 y2 m t r M : Int)
    (hB : 0 < B) (hm1 : 0 < m1) (hm2 : 0 ≤ m2) (hy1 : 0 < y1) (hy2 : 0 < y2)
    (e1 : m1 * A = t1 * B + y1) (e2 : m2 * A + y2 = t2 * B)
    (hdet : m1 * y2 + m2 * y1 = B) (hM : M < m1 + m2)
    (hm : 0 < m) (hmM : m ≤ M) (e : m * A = t * B + r) (hr0 : 0 ≤ r) : y1 ≤ r := by
  have hd := det_one A B m1 m2 t1 t2 y1 y2 hB e1 e2 hdet
  have hi : (m * t2 - m2 * t) * B = m * y2 + m2 * r := by grind
  have hsum : (m * t2 - m2 * t) * m1 + (m1 * t - m * t1) * m2 = m := by grind
  have hy : (m * t2 - m2 * t) * y1 - (m1 * t - m * t1) * y2 = r := by grind
  generalize m * t2 - m2 * t = i at *
  generalize m1 * t - m * t1 = j at *
  apply Decidable.byContradiction
  intro hlt
  have hi1 : 1 ≤ i := by
    apply pos_of_mul_pos i B hB
    rw [hi]
    have := Int.mul_pos hm hy2
    have := Int.mul_nonneg hm2 hr0
    omega
  rcases Int.lt_or_le 0 j with h | h
  · have a1 : m1 ≤ i * m1 := by
      have := Int.mul_le_mul_of_nonneg_right hi1 (Int.le_of_lt hm1); omega
    have a2 : m2 ≤ j * m2 := by
      have := Int.mul_le_mul_of_nonneg_right (show 1 ≤ j by omega) hm2; omega
    omega
  · have a1 : y1 ≤ i * y1 := by
      have := Int.mul_le_mul_of_nonneg_right hi1 (Int.le_of_lt hy1); omega
    have a2 : j * y2 ≤ 0 := Int.mul_nonpos_of_nonpos_of_nonneg h (Int.le_of_lt hy2)
    omega

/-- a lattice point `(m, y)`, `0 < m ≤ M`, `y = m·A - t·B < 0` has `y ≤ -y2` -/
theorem lat_high (A B m1 m2 t1 t2 y1 y2 m t r M : Int)
    (hB : 0 < B) (hm1 : 0 ≤ m1) (hm2 : 0 < m2) (hy1 : 0 < y1) (hy2 : 0 < y2)
    (e1 : m1 * A = t1 * B + y1) (e2 : m2 * A + y2 = t2 * B)
    (hdet : m1 * y2 + m2 * y1 = B) (hM : M < m1 + m2)
    (hm : 0 < m) (hmM : m ≤ M) (e : m * A + r = t * B) (hr0 : 0 ≤ r) : y2 ≤ r := by
  have hd := det_one A B m1 m2 t1 t2 y1 y2 hB e1 e2 hdet
  have hj : (m1 * t - m * t1) * B = m * y1 + m1 * r := by grind
  have hsum : (m * t2 - m2 * t) * m1 + (m1 * t - m * t1) * m2 = m := by grind
  have hy : (m1 * t - m * t1) * y2 - (m * t2 - m2 * t) * y1 = r := by grind
  generalize m * t2 - m2 * t = i at *
  generalize m1 * t - m * t1 = j at *
  apply Decidable.byContradiction
  intro hlt
  have hj1 : 1 ≤ j := by
    apply pos_of_mul_pos j B hB
    rw [hj]
    have := Int.mul_pos hm hy1
    have := Int.mul_nonneg hm1 hr0
    omega
  rcases Int.lt_or_le 0 i with h | h
  · have a1 : m1 ≤ i * m1 := by
      have := Int.mul_le_mul_of_nonneg_right (show 1 ≤ i by omega) hm1; omega
    have a2 : m2 ≤ j * m2 := by
      have := Int.mul_le_mul_of_nonneg_right hj1 (Int.le_of_lt hm2); omega
    omega
  · have a1 : y2 ≤ j * y2 := by
      have := Int.mul_le_mul_of_nonneg_right hj1 (Int.le_of_lt hy2); omega
    have a2 : i * y1 ≤ 0 := Int.mul_nonpos_of_nonpos_of_nonneg h (Int.le_of_lt hy1)
    omega


/-! ## over `Nat` -/

theorem basis_sound (A B m1 m2 M m : Nat) (hB : 0 < B) (hm1 : 0 < m1) (hm2 : 0 < m2)
    (hy1 : 0 < m1 * A % B) (hdet : m1 * (B - m2 * A % B) + m2 * (m1 * A % B) = B) (hM : M < m1 + m2)
    (hm : 0 < m) (hmM : m ≤ M) :
    m1 * A % B ≤ m * A % B ∧ B - m2 * A % B ≤ B - m * A % B := by
  have d1 : m1 * A = (m1 * A / B) * B + m1 * A % B := by
    rw [Nat.mul_comm (m1 * A / B)]; exact (Nat.div_add_mod _ _).symm
  have d2 : m2 * A + (B - m2 * A % B) = (m2 * A / B + 1) * B := by
    have := Nat.div_add_mod (m2 * A) B
    have := Nat.mod_lt (m2 * A) hB
    rw [Nat.add_mul, Nat.mul_comm (m2 * A / B)]; omega
  have d3 : m * A = (m * A / B) * B + m * A % B := by
    rw [Nat.mul_comm (m * A / B)]; exact (Nat.div_add_mod _ _).symm
  have d4 : m * A + (B - m * A % B) = (m * A / B + 1) * B := by
    have := Nat.div_add_mod (m * A) B
    have := Nat.mod_lt (m * A) hB
    rw [Nat.add_mul, Nat.mul_comm (m * A / B)]; omega
  have hr2 := Nat.mod_lt (m2 * A) hB
  have hr := Nat.mod_lt (m * A) hB
  generalize m1 * A % B = y1 at *
  generalize hy2 : B - m2 * A % B = y2 at *
  generalize hr' : B - m * A % B = r' at *
  generalize m * A % B = r at *
  generalize m1 * A / B = t1 at *
  generalize m2 * A / B + 1 = t2 at *
  generalize m * A / B = t at *
  have c1 : (m1 : Int) * A = t1 * B + y1 := by exact_mod_cast d1
  have c2 : (m2 : Int) * A + y2 = t2 * B := by exact_mod_cast d2
  have c3 : (m : Int) * A = t * B + r := by exact_mod_cast d3
  have c4 : (m : Int) * A + r' = ((t : Int) + 1) * B := by exact_mod_cast d4
  have cdet : (m1 : Int) * y2 + m2 * y1 = B := by exact_mod_cast hdet
  have l := lat_low A B m1 m2 t1 t2 y1 y2 m t r M (by omega) (by omega) (by omega) (by omega) (by omega)
    c1 c2 cdet (by omega) (by omega) (by omega) c3 (by omega)
  have u := lat_high A B m1 m2 t1 t2 y1 y2 m (t + 1) r' M (by omega) (by omega) (by omega) (by omega) (by omega)
    c1 c2 cdet (by omega) (by omega) (by omega) c4 (by omega)
  omega

/-- the residue `m·A mod B` is `0` or at least `B/2^64` away from `0` and `B/2^69` away from `B` -/
def NtOk (A B m : Nat) : Prop :=
  m * A % B = 0 ∨ (B ≤ (m * A % B) * 2 ^ 64 ∧ B ≤ (B - m * A % B) * 2 ^ 69)

/-- the range of multipliers: `m = 2c - 1, 2c, 2c + 1` with `c < 2^53` -/
def mMax : Nat := 2 ^ 54 + 1

/-- check of one certificate (see the header) -/
def certRow (A B : Nat) (c : Nat × Nat) : Bool :=
  if c.1 = 0 then decide (B ≤ Nat.gcd A B * 2 ^ 64)
  else
    decide (0 < c.2) && decide (0 < c.1 * A % B) &&
    decide (c.1 * (B - c.2 * A % B) + c.2 * (c.1 * A % B) = B) && decide (mMax < c.1 + c.2) &&
    decide (B ≤ (c.1 * A % B) * 2 ^ 64) && decide (B ≤ (B - c.2 * A % B) * 2 ^ 69)

theorem small_sound (A B m : Nat) (hB : 0 < B) (h : B ≤ Nat.gcd A B * 2 ^ 64) : NtOk A B m := by
  have hg : Nat.gcd A B ∣ m * A % B :=
    (Nat.dvd_mod_iff (Nat.gcd_dvd_right A B)).2 (Nat.dvd_trans (Nat.gcd_dvd_left A B) (Nat.dvd_mul_left A m))
  have hgB : Nat.gcd A B ∣ B - m * A % B := Nat.dvd_sub (Nat.gcd_dvd_right A B) hg
  have hr := Nat.mod_lt (m * A) hB
  unfold NtOk
  generalize m * A % B = r at *
  generalize Nat.gcd A B = g at *
  by_cases h0 : r = 0
  · exact Or.inl h0
  · right
    have l1 : g ≤ r := Nat.le_of_dvd (by omega) hg
    have l2 : g ≤ B - r := Nat.le_of_dvd (by omega) hgB
    have p1 : g * 2 ^ 64 ≤ r * 2 ^ 64 := Nat.mul_le_mul_right _ l1
    have p2 : g * 2 ^ 69 ≤ (B - r) * 2 ^ 69 := Nat.mul_le_mul_right _ l2
    have p3 : g * 2 ^ 64 ≤ g * 2 ^ 69 := Nat.mul_le_mul_left _ (by decide)
    omega

theorem certRow_sound (A B : Nat) (c : Nat × Nat) (hB : 0 < B) (h : certRow A B c = true)
    (m : Nat) (hm : 0 < m) (hmM : m ≤ mMax) : NtOk A B m := by
  unfold certRow at h
  by_cases h0 : c.1 = 0
  · simp only [if_pos h0, decide_eq_true_eq] at h
    exact small_sound A B m hB h
  · simp only [if_neg h0, Bool.and_eq_true, decide_eq_true_eq] at h
    obtain ⟨⟨⟨⟨⟨k1, k2⟩, k3⟩, k4⟩, k5⟩, k6⟩ := h
    obtain ⟨b1, b2⟩ := basis_sound A B c.1 c.2 mMax m hB (by omega) k1 k2 k3 k4 hm hmM
    right
    have p1 := Nat.mul_le_mul_right (2 ^ 64) b1
    have p2 := Nat.mul_le_mul_right (2 ^ 69) b2
    omega

/-! ## all exponents -/

/-- `A/B = 2^q·10^(-k)`, `k = ⌊log10 2^q⌋` as computed by the code -/
def numQ (q : Int) : Nat := sideP 1 q (-(kOf q false))
def denQ (q : Int) : Nat := negP q (-(kOf q false))

def checkCerts : List (Nat × Nat) → Int → Bool
  | [], _ => true
  | c :: cs, q => certRow (numQ q) (denQ q) c && checkCerts cs (q + 1)

theorem checkCerts_sound : ∀ (l : List (Nat × Nat)) (q0 : Int), checkCerts l q0 = true →
    ∀ (j : Nat), j < l.length → ∃ c, certRow (numQ (q0 + j)) (denQ (q0 + j)) c = true := by
  intro l
  induction l with
  | nil => intro q0 _ j hj; simp at hj
  | cons x xs ih =>
    intro q0 h j hj
    simp only [checkCerts, Bool.and_eq_true] at h
    cases j with
    | zero => exact ⟨x, by simpa using h.1⟩
    | succ j =>
      obtain ⟨c, hc⟩ := ih (q0 + 1) h.2 j (by simpa using hj)
      refine ⟨c, ?_⟩
      rwa [show q0 + ((j + 1 : Nat) : Int) = q0 + 1 + (j : Int) by omega]

theorem ntCerts_length : ntCerts.length = 2046 := by decide +kernel

theorem ntCerts_checked : checkCerts ntCerts (-1074) = true := by decide +kernel

/-- the number-theoretic fact, for every exponent of a finite double and every multiplier -/
theorem nt_all (q : Int) (h1 : -1074 ≤ q) (h2 : q ≤ 971) (m : Nat) (hm : 0 < m) (hmM : m ≤ mMax) :
    NtOk (numQ q) (denQ q) m := by
  obtain ⟨c, hc⟩ := checkCerts_sound ntCerts (-1074) ntCerts_checked (q + 1074).toNat
    (by rw [ntCerts_length]; omega)
  rw [show (-1074 : Int) + ((q + 1074).toNat : Int) = q by omega] at hc
  exact certRow_sound _ _ c (negP_pos _ _) hc m hm hmM

end Sonic.Proofs.Ftoa
