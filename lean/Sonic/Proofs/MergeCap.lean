import Sonic.Spec.Json
import Sonic.Model.Schema
import Sonic.Proofs.MergeHandler
import Sonic.Proofs.MergeLazyText
import Sonic.Proofs.OnDemandJson

/-!
# C19: the node stack that `SetUp` allocates (`max(16, len/2 + 2)` slots) suffices for every valid text:
# a text that spells a value of `n` stack nodes has at least `2n - 1` bytes
-/
namespace Sonic.Proofs.MergeCap
open Sonic.Spec Sonic.Spec.Json Sonic.Model.Schema Sonic.Proofs.OnDemand Sonic.Proofs.MergeHandler
open Sonic.Proofs.MergeLazyText

theorem nodes_bound (d : List Nat) : ∀ (f : Nat),
    (∀ p v e, parseValue d f p = .ok (v, e) → 2 * nodes v ≤ e - p + 1) ∧
    (∀ p xs e, parseElems d f p = .ok (xs, e) → 2 * nodesList xs ≤ e - p) ∧
    (∀ p kvs e, parseMembers d f p = .ok (kvs, e) → 2 * nodesMembers kvs ≤ e - p) := by
  intro f
  induction f with
  | zero =>
    refine ⟨fun p v e h => absurd h parseValue_zero, fun p xs e h => ?_, fun p kvs e h => ?_⟩
    · simp [parseElems] at h
    · simp [parseMembers] at h
  | succ f ih =>
    obtain ⟨ihV, ihE, ihM⟩ := ih
    refine ⟨?_, ?_, ?_⟩
    · intro p v e h
      obtain ⟨b1, b2, _⟩ := (value_neut d (f + 1)).1 _ _ _ h
      obtain ⟨c, hc, sh⟩ := parseValue_inv h
      cases sh with
      | str s hd hv => subst hv; simp only [nodes]; omega
      | arrEmpty hq hv he => subst hv; simp only [nodes, nodesList]; omega
      | arr xs hq hel hv =>
        subst hv
        have := ihE _ _ _ hel
        have := (skipWs_spec d d.length (p + 1)).1
        obtain ⟨r1, _, _⟩ := (value_neut d f).2.1 _ _ _ hel
        simp only [nodes]; omega
      | objEmpty hq hv he => subst hv; simp only [nodes, nodesMembers]; omega
      | obj kvs hq hm hv =>
        subst hv
        have := ihM _ _ _ hm
        have := (skipWs_spec d d.length (p + 1)).1
        obtain ⟨r1, _, _⟩ := (value_neut d f).2.2 _ _ _ hm
        simp only [nodes]; omega
      | tru hm hv he => subst hv; simp only [nodes]; omega
      | fls hm hv he => subst hv; simp only [nodes]; omega
      | nul hm hv he => subst hv; simp only [nodes]; omega
      | num c' hcc n hn hv => subst hv; simp only [nodes]; omega
    · intro p xs e h
      obtain ⟨v, next, hv, hcase⟩ := parseElems_inv h
      obtain ⟨v1, v2, _⟩ := (value_neut d f).1 _ _ _ hv
      have h1 := ihV _ _ _ hv
      have hge := (skipWs_spec d d.length next).1
      rcases hcase with ⟨_, rfl, he⟩ | ⟨_, vs, hr, rfl⟩
      · simp only [nodesList]; omega
      · have h2 := ihE _ _ _ hr
        obtain ⟨r1, _, _⟩ := (value_neut d f).2.1 _ _ _ hr
        have := (skipWs_spec d d.length (skipWs d d.length next + 1)).1
        simp only [nodesList]; omega
    · intro p kvs e h
      obtain ⟨h0, k, ak, hk, hcol, v, next, hv, hcase⟩ := parseMembers_inv h
      obtain ⟨k1, _⟩ := decodeLit_closeAt hk
      obtain ⟨v1, v2, _⟩ := (value_neut d f).1 _ _ _ hv
      have h1 := ihV _ _ _ hv
      have g1 := (skipWs_spec d d.length ak).1
      have g2 := (skipWs_spec d d.length (skipWs d d.length ak + 1)).1
      have hge := (skipWs_spec d d.length next).1
      rcases hcase with ⟨_, rfl, he⟩ | ⟨_, rest, hr, rfl⟩
      · simp only [nodesMembers]; omega
      · have h2 := ihM _ _ _ hr
        obtain ⟨r1, _, _⟩ := (value_neut d f).2.2 _ _ _ hr
        have := (skipWs_spec d d.length (skipWs d d.length next + 1)).1
        simp only [nodesMembers]; omega

/-- the stack `SetUp` allocates for a valid text has room for the text's value -/
theorem nodes_le_setUpCap {text : List Nat} {t : JVal} (h : parse text = .ok t) : nodes t ≤ setUpCap text.length := by
  obtain ⟨e, hv, _⟩ := parse_inv h
  have h1 := (nodes_bound text _).1 _ _ _ hv
  obtain ⟨_, b2, _⟩ := (value_neut text _).1 _ _ _ hv
  unfold setUpCap
  split <;> omega

end Sonic.Proofs.MergeCap
