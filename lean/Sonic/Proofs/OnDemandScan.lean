import Sonic.Model.OnDemand
import Sonic.Proofs.OnDemandBits
import Sonic.Proofs.OnDemandBounds

/-!
# Exact results of `SkipSpaceSafe` and `GetNextToken` (used by C10)

`IsFirstNS d pos q`: `q` is the first index `≥ pos` holding a non-whitespace byte.
`IsFirstTok d toks pos q`: `q` is the first index `≥ pos` holding one of the bytes `toks`.
`CValid d cache`: the scanner's cached mask really is the non-space mask of the block `[nbEnd - 64, nbEnd)`.
-/
namespace Sonic.Proofs.OnDemand
open Sonic.Model.OnDemand Sonic.Gen

def IsFirstNS (d : List Nat) (pos q : Nat) : Prop :=
  pos ≤ q ∧ q < d.length ∧ (∀ j, pos ≤ j → j < q → ∀ c, d[j]? = some c → isSpace c = true) ∧
    (∀ c, d[q]? = some c → isSpace c = false)

def IsFirstTok (d : List Nat) (toks : List Nat) (pos q : Nat) : Prop :=
  pos ≤ q ∧ q < d.length ∧ (∀ j, pos ≤ j → j < q → ∀ c, d[j]? = some c → toks.contains c = false) ∧
    (∀ c, d[q]? = some c → toks.contains c = true)

def NoTok (d : List Nat) (toks : List Nat) (pos : Nat) : Prop :=
  ∀ j, pos ≤ j → ∀ c, d[j]? = some c → toks.contains c = false

/-- the cache describes the input -/
def CValid (d : List Nat) (cache : Cache) : Prop :=
  cache.nbEnd = 0 ∨ (64 ≤ cache.nbEnd ∧ cache.nbEnd ≤ d.length ∧
    cache.nb = ((d.drop (cache.nbEnd - 64)).take 64).map (fun b => !isSpace b))

theorem CValid.init (d : List Nat) : CValid d Cache.init := Or.inl rfl

theorem IsFirstNS.shrink {d : List Nat} {pos p' q : Nat} (h : IsFirstNS d pos q) (h1 : pos ≤ p') (h2 : p' ≤ q) :
    IsFirstNS d p' q := ⟨h2, h.2.1, fun j hj hq => h.2.2.1 j (by omega) hq, h.2.2.2⟩

theorem tz_eq {m : Mask} {k : Nat} (hk : m[k]? = some true) (hlt : ∀ j, j < k → m[j]? = some false) :
    tz m = k := by
  have h1 := tz_le_of_get hk
  rcases Nat.lt_or_ge (tz m) k with h | h
  · have := hlt _ h
    rw [tz_get (nonzero_of_get hk)] at this; cases this
  · omega

/-! ## `GetNextToken` -/

theorem nextTokenScalar_found (d toks : List Nat) (q : Nat) : ∀ (f pos : Nat), IsFirstTok d toks pos q →
    d.length - pos < f → nextTokenScalar d toks f pos = .ok (d[q]?.getD 0, q) := by
  intro f
  induction f with
  | zero => intro pos _ h; omega
  | succ f ih =>
    intro pos hq hf
    obtain ⟨h1, h2, h3, h4⟩ := hq
    unfold nextTokenScalar
    have hp : pos < d.length := by omega
    rw [if_pos hp, rd_ok hp]
    simp only [bind, Except.bind, pure, Except.pure]
    by_cases he : pos = q
    · subst he
      rw [if_pos (h4 _ (List.getElem?_eq_getElem hp)), List.getElem?_eq_getElem hp]; rfl
    · rw [if_neg (by rw [h3 pos (Nat.le_refl _) (by omega) _ (List.getElem?_eq_getElem hp)]; simp)]
      exact ih (pos + 1) ⟨by omega, h2, fun j hj hjq => h3 j (by omega) hjq, h4⟩ (by omega)

theorem nextTokenScalar_none (d toks : List Nat) : ∀ (f pos : Nat), NoTok d toks pos → pos ≤ d.length →
    d.length - pos < f → nextTokenScalar d toks f pos = .ok (0, d.length) := by
  intro f
  induction f with
  | zero => intro pos _ _ h; omega
  | succ f ih =>
    intro pos hn hle hf
    unfold nextTokenScalar
    by_cases hp : pos < d.length
    · rw [if_pos hp, rd_ok hp]
      simp only [bind, Except.bind, pure, Except.pure]
      rw [if_neg (by rw [hn pos (Nat.le_refl _) _ (List.getElem?_eq_getElem hp)]; simp)]
      exact ih (pos + 1) (fun j hj => hn j (by omega)) (by omega) (by omega)
    · rw [if_neg hp]
      have : pos = d.length := by omega
      rw [this]; rfl

theorem tokMask_get {v toks : List Nat} {j x : Nat} (h : v[j]? = some x) :
    (tokMask v toks)[j]? = some (toks.contains x) := by
  unfold tokMask; rw [List.getElem?_map, h]; rfl

theorem nextTokenBlock_found {W : Nat} (hW : 0 < W) (d toks : List Nat) (q : Nat) : ∀ (f pos : Nat),
    IsFirstTok d toks pos q → d.length - pos < f →
    nextTokenBlock W d toks f pos = .ok (d[q]?.getD 0, q) := by
  intro f
  induction f with
  | zero => intro pos _ h; omega
  | succ f ih =>
    intro pos hq hf
    obtain ⟨h1, h2, h3, h4⟩ := hq
    unfold nextTokenBlock
    by_cases hp : pos + W ≤ d.length
    · rw [if_pos hp, rdVec_ok hp]
      simp only [bind, Except.bind, pure, Except.pure]
      by_cases hin : q < pos + W
      · -- the token is in this block
        have hk : (tokMask ((d.drop pos).take W) toks)[q - pos]? = some true := by
          have hg : ((d.drop pos).take W)[q - pos]? = some d[q] := by
            rw [vec_get (by omega), show pos + (q - pos) = q by omega, List.getElem?_eq_getElem h2]
          rw [tokMask_get hg, h4 _ (List.getElem?_eq_getElem h2)]
        have hlt : ∀ j, j < q - pos → (tokMask ((d.drop pos).take W) toks)[j]? = some false := by
          intro j hj
          have hjl : pos + j < d.length := by omega
          have hg : ((d.drop pos).take W)[j]? = some d[pos + j] := by
            rw [vec_get (by omega), List.getElem?_eq_getElem hjl]
          rw [tokMask_get hg, h3 (pos + j) (by omega) (by omega) _ (List.getElem?_eq_getElem hjl)]
        rw [if_pos (nonzero_of_get hk), tz_eq hk hlt, show pos + (q - pos) = q by omega, rd_ok h2,
          List.getElem?_eq_getElem h2]
        rfl
      · have hz : nonzero (tokMask ((d.drop pos).take W) toks) = false := by
          apply Bool.eq_false_iff.mpr
          intro hn
          have hlt := tz_lt hn
          rw [tokMask_length, vec_length hp] at hlt
          have hg := tz_get hn
          have hjl : pos + tz (tokMask ((d.drop pos).take W) toks) < d.length := by omega
          have hg2 : ((d.drop pos).take W)[tz (tokMask ((d.drop pos).take W) toks)]? =
              some d[pos + tz (tokMask ((d.drop pos).take W) toks)] := by
            rw [vec_get hlt, List.getElem?_eq_getElem hjl]
          rw [tokMask_get hg2, h3 _ (by omega) (by omega) _ (List.getElem?_eq_getElem hjl)] at hg
          cases hg
        rw [if_neg (by rw [hz]; simp)]
        exact ih (pos + W) ⟨by omega, h2, fun j hj hjq => h3 j (by omega) hjq, h4⟩ (by omega)
    · rw [if_neg hp]
      exact nextTokenScalar_found d toks q _ pos ⟨h1, h2, h3, h4⟩ (by omega)

theorem nextTokenBlock_none {W : Nat} (hW : 0 < W) (d toks : List Nat) : ∀ (f pos : Nat),
    NoTok d toks pos → pos ≤ d.length → d.length - pos < f →
    nextTokenBlock W d toks f pos = .ok (0, d.length) := by
  intro f
  induction f with
  | zero => intro pos _ _ h; omega
  | succ f ih =>
    intro pos hn hle hf
    unfold nextTokenBlock
    by_cases hp : pos + W ≤ d.length
    · rw [if_pos hp, rdVec_ok hp]
      simp only [bind, Except.bind, pure, Except.pure]
      have hz : nonzero (tokMask ((d.drop pos).take W) toks) = false := by
        apply Bool.eq_false_iff.mpr
        intro hnz
        have hlt := tz_lt hnz
        rw [tokMask_length, vec_length hp] at hlt
        have hg := tz_get hnz
        have hjl : pos + tz (tokMask ((d.drop pos).take W) toks) < d.length := by omega
        have hg2 : ((d.drop pos).take W)[tz (tokMask ((d.drop pos).take W) toks)]? =
            some d[pos + tz (tokMask ((d.drop pos).take W) toks)] := by
          rw [vec_get hlt, List.getElem?_eq_getElem hjl]
        rw [tokMask_get hg2, hn _ (by omega) _ (List.getElem?_eq_getElem hjl)] at hg
        cases hg
      rw [if_neg (by rw [hz]; simp)]
      exact ih (pos + W) (fun j hj => hn j (by omega)) hp (by omega)
    · rw [if_neg hp]
      exact nextTokenScalar_none d toks _ pos hn hle (by omega)

/-- `GetNextToken` stops AT the first token byte -/
theorem getNextToken_found {W : Nat} (hW : 0 < W) (d toks : List Nat) (pos q : Nat)
    (h : IsFirstTok d toks pos q) : getNextToken W d toks pos = .ok (d[q]?.getD 0, q) :=
  nextTokenBlock_found hW d toks q _ pos h (by omega)

/-- no token byte from `pos` on: `GetNextToken` returns 0 with `pos = len` -/
theorem getNextToken_none {W : Nat} (hW : 0 < W) (d toks : List Nat) (pos : Nat) (h : NoTok d toks pos)
    (hle : pos ≤ d.length) : getNextToken W d toks pos = .ok (0, d.length) :=
  nextTokenBlock_none hW d toks _ pos h hle (by omega)

/-! ## `SkipSpaceSafe` -/

theorem spaceTail_found (d : List Nat) (q : Nat) : ∀ (f pos : Nat), IsFirstNS d pos q → d.length - pos < f →
    spaceTail d f pos = .ok (d[q]?.getD 0, q + 1) := by
  intro f
  induction f with
  | zero => intro pos _ h; omega
  | succ f ih =>
    intro pos hq hf
    obtain ⟨h1, h2, h3, h4⟩ := hq
    unfold spaceTail
    have hp : pos < d.length := by omega
    rw [if_pos hp, rd_ok hp]
    simp only [bind, Except.bind]
    by_cases he : pos = q
    · subst he
      rw [if_neg (by rw [h4 _ (List.getElem?_eq_getElem hp)]; simp)]
      unfold tailRet
      rw [if_pos (by omega), show pos + 1 - 1 = pos by omega, rd_ok hp, List.getElem?_eq_getElem hp]
      rfl
    · rw [if_pos (h3 pos (Nat.le_refl _) (by omega) _ (List.getElem?_eq_getElem hp))]
      exact ih (pos + 1) ⟨by omega, h2, fun j hj hjq => h3 j (by omega) hjq, h4⟩ (by omega)

theorem nsMask_get {v : List Nat} {j x : Nat} (h : v[j]? = some x) :
    (v.map (fun b => !isSpace b))[j]? = some (!isSpace x) := by
  rw [List.getElem?_map, h]; rfl

theorem foundSpace_found (d : List Nat) (q : Nat) : ∀ (f : Nat) (cache : Cache) (pos : Nat),
    IsFirstNS d pos q → CInv d cache pos → CValid d cache → d.length - pos < f →
    ∃ cache', foundSpace d f cache pos = .ok (d[q]?.getD 0, q + 1, cache') ∧ CInv d cache' (q + 1) ∧
      CValid d cache' := by
  intro f
  induction f with
  | zero => intro _ pos _ _ _ h; omega
  | succ f ih =>
    intro cache pos hq hI hV hf
    obtain ⟨h1, h2, h3, h4⟩ := hq
    unfold foundSpace
    by_cases hp : pos + 64 ≤ d.length
    · rw [if_pos hp, rdVec_ok hp]
      simp only [bind, Except.bind, pure, Except.pure]
      by_cases hin : q < pos + 64
      · have hk : (((d.drop pos).take 64).map (fun b => !isSpace b))[q - pos]? = some true := by
          have hg : ((d.drop pos).take 64)[q - pos]? = some d[q] := by
            rw [vec_get (by omega), show pos + (q - pos) = q by omega, List.getElem?_eq_getElem h2]
          rw [nsMask_get hg, h4 _ (List.getElem?_eq_getElem h2)]; rfl
        have hlt : ∀ j, j < q - pos → (((d.drop pos).take 64).map (fun b => !isSpace b))[j]? = some false := by
          intro j hj
          have hjl : pos + j < d.length := by omega
          have hg : ((d.drop pos).take 64)[j]? = some d[pos + j] := by
            rw [vec_get (by omega), List.getElem?_eq_getElem hjl]
          rw [nsMask_get hg, h3 (pos + j) (by omega) (by omega) _ (List.getElem?_eq_getElem hjl)]; rfl
        rw [if_pos (nonzero_of_get hk), tz_eq hk hlt, show pos + (q - pos) = q by omega, rd_ok h2,
          List.getElem?_eq_getElem h2]
        refine ⟨_, rfl, ⟨?_, hp, ?_, Or.inr (Nat.le_add_left _ _)⟩, Or.inr ⟨Nat.le_add_left _ _, hp, ?_⟩⟩
        · show (List.map _ _).length = 64
          rw [List.length_map, vec_length hp]
        · show pos + 64 ≤ _
          omega
        · show _ = ((d.drop (pos + 64 - 64)).take 64).map _
          rw [show pos + 64 - 64 = pos by omega]
      · have hz : nonzero (((d.drop pos).take 64).map (fun b => !isSpace b)) = false := by
          apply Bool.eq_false_iff.mpr
          intro hnz
          have hlt := tz_lt hnz
          rw [List.length_map, vec_length hp] at hlt
          have hg := tz_get hnz
          have hjl : pos + tz (((d.drop pos).take 64).map (fun b => !isSpace b)) < d.length := by omega
          have hg2 : ((d.drop pos).take 64)[tz (((d.drop pos).take 64).map (fun b => !isSpace b))]? =
              some d[pos + tz (((d.drop pos).take 64).map (fun b => !isSpace b))] := by
            rw [vec_get hlt, List.getElem?_eq_getElem hjl]
          rw [nsMask_get hg2, h3 _ (by omega) (by omega) _ (List.getElem?_eq_getElem hjl)] at hg
          cases hg
        rw [if_neg (by rw [hz]; simp)]
        obtain ⟨c', e, hI', hV'⟩ := ih cache (pos + 64) ⟨by omega, h2, fun j hj hjq => h3 j (by omega) hjq, h4⟩
          (hI.mono (by omega)) hV (by omega)
        exact ⟨c', e, hI', hV'⟩
    · rw [if_neg hp]
      simp only [bind, Except.bind, pure, Except.pure]
      rw [spaceTail_found d q _ pos ⟨h1, h2, h3, h4⟩ (by omega)]
      exact ⟨cache, rfl, hI.mono (by omega), hV⟩

/-- **`SkipSpaceSafe` returns the first non-whitespace byte at or after `pos`** and leaves `pos` just after it;
    the cache stays valid -/
theorem skipSpaceSafe_found (d : List Nat) (cache : Cache) (pos q : Nat) (hq : IsFirstNS d pos q)
    (hI : CInv d cache pos) (hV : CValid d cache) :
    ∃ cache', skipSpaceSafe d cache pos = .ok (d[q]?.getD 0, q + 1, cache') ∧ CInv d cache' (q + 1) ∧
      CValid d cache' := by
  obtain ⟨h1, h2, h3, h4⟩ := hq
  unfold skipSpaceSafe
  by_cases hp : pos + 64 + 2 > d.length
  · rw [if_pos hp]
    simp only [bind, Except.bind, pure, Except.pure]
    rw [spaceTail_found d q _ pos ⟨h1, h2, h3, h4⟩ (by omega)]
    exact ⟨cache, rfl, hI.mono (by omega), hV⟩
  · rw [if_neg hp]
    simp only [bind, Except.bind, pure, Except.pure, throw, throwThe, MonadExceptOf.throw]
    have hp0 : pos < d.length := by omega
    have hp1 : pos + 1 < d.length := by omega
    rw [rd_ok hp0]
    simp only
    by_cases he0 : pos = q
    · subst he0
      have := h4 _ (List.getElem?_eq_getElem hp0)
      rw [if_pos (by rw [this]; rfl), List.getElem?_eq_getElem hp0]
      exact ⟨cache, rfl, hI.mono (by omega), hV⟩
    · have hs0 := h3 pos (Nat.le_refl _) (by omega) _ (List.getElem?_eq_getElem hp0)
      rw [if_neg (by rw [hs0]; simp), rd_ok hp1]
      simp only
      by_cases he1 : pos + 1 = q
      · subst he1
        have := h4 _ (List.getElem?_eq_getElem hp1)
        rw [if_pos (by rw [this]; rfl), List.getElem?_eq_getElem hp1]
        exact ⟨cache, rfl, hI.mono (by omega), hV⟩
      · have hs1 := h3 (pos + 1) (by omega) (by omega) _ (List.getElem?_eq_getElem hp1)
        rw [if_neg (by rw [hs1]; simp)]
        have hq2 : IsFirstNS d (pos + 2) q := ⟨by omega, h2, fun j hj hjq => h3 j (by omega) hjq, h4⟩
        by_cases hge : pos + 2 ≥ cache.nbEnd
        · rw [if_pos hge]
          exact foundSpace_found d q _ cache (pos + 2) hq2 (hI.mono (by omega)) hV (by omega)
        · rw [if_neg hge]
          have hge' := hI.ge
          have hblk := hI.blk
          have hcle := hI.le
          rw [if_neg (by omega), if_neg (by omega), if_neg (by omega)]
          have hVv : 64 ≤ cache.nbEnd ∧ cache.nbEnd ≤ d.length ∧
              cache.nb = ((d.drop (cache.nbEnd - 64)).take 64).map (fun b => !isSpace b) := by
            rcases hV with h0 | h
            · omega
            · exact h
          obtain ⟨v1, v2, v3⟩ := hVv
          have hbs : cache.nbEnd - 64 + 64 ≤ d.length := by omega
          by_cases hin : q < cache.nbEnd
          · -- the first non-space byte is in the cached block
            have hk : (clearBelow (pos + 2 - (cache.nbEnd - 64)) cache.nb)[q - (cache.nbEnd - 64)]? = some true := by
              rw [clearBelow_get_ge (by omega) (by rw [hI.len]; omega), v3]
              have hg : ((d.drop (cache.nbEnd - 64)).take 64)[q - (cache.nbEnd - 64)]? = some d[q] := by
                rw [vec_get (by omega), show cache.nbEnd - 64 + (q - (cache.nbEnd - 64)) = q by omega,
                  List.getElem?_eq_getElem h2]
              rw [nsMask_get hg, h4 _ (List.getElem?_eq_getElem h2)]; rfl
            have hlt : ∀ j, j < q - (cache.nbEnd - 64) →
                (clearBelow (pos + 2 - (cache.nbEnd - 64)) cache.nb)[j]? = some false := by
              intro j hj
              by_cases hjk : j < pos + 2 - (cache.nbEnd - 64)
              · exact clearBelow_get_lt hjk (by rw [hI.len]; omega)
              · rw [clearBelow_get_ge (by omega) (by rw [hI.len]; omega), v3]
                have hjl : cache.nbEnd - 64 + j < d.length := by omega
                have hg : ((d.drop (cache.nbEnd - 64)).take 64)[j]? = some d[cache.nbEnd - 64 + j] := by
                  rw [vec_get (by omega), List.getElem?_eq_getElem hjl]
                rw [nsMask_get hg, h3 _ (by omega) (by omega) _ (List.getElem?_eq_getElem hjl)]; rfl
            rw [if_neg (by rw [nonzero_of_get hk]; simp), tz_eq hk hlt,
              show cache.nbEnd - 64 + (q - (cache.nbEnd - 64)) = q by omega, rd_ok h2,
              List.getElem?_eq_getElem h2]
            exact ⟨cache, rfl, ⟨hI.len, hcle, by omega, hge'⟩, hV⟩
          · have hz : nonzero (clearBelow (pos + 2 - (cache.nbEnd - 64)) cache.nb) = false := by
              apply Bool.eq_false_iff.mpr
              intro hnz
              have hlt := tz_lt hnz
              rw [clearBelow_length, hI.len] at hlt
              have hge2 := le_tz_clearBelow hnz
              have hg := tz_get hnz
              generalize tz (clearBelow (pos + 2 - (cache.nbEnd - 64)) cache.nb) = t at hlt hge2 hg
              rw [clearBelow_get_ge hge2 (by rw [hI.len]; omega), v3] at hg
              have hjl : cache.nbEnd - 64 + t < d.length := by omega
              have hg2 : ((d.drop (cache.nbEnd - 64)).take 64)[t]? = some d[cache.nbEnd - 64 + t] := by
                rw [vec_get hlt, List.getElem?_eq_getElem hjl]
              rw [nsMask_get hg2, h3 _ (by omega) (by omega) _ (List.getElem?_eq_getElem hjl)] at hg
              cases hg
            rw [if_pos (by rw [hz]; rfl)]
            exact foundSpace_found d q _ cache cache.nbEnd
              ⟨by omega, h2, fun j hj hjq => h3 j (by omega) hjq, h4⟩
              ⟨hI.len, hcle, by omega, hge'⟩ hV (by omega)

end Sonic.Proofs.OnDemand
