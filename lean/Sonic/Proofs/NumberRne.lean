import Sonic.Spec.Rne

/-!
# Helper lemmas for C04: the reference rounding `Spec.Rne.roundRat` analysed

`2^s` for an integer `s` of any sign is the fraction `pL s / pR s` of two natural powers of two (one of them is 1).
All statements about the positive rational `num/den` are cross-multiplied statements about naturals.
-/
namespace Sonic.Proofs.Rne

open Sonic.Spec.Rne

/-- numerator of `2^s` -/
def pL (s : Int) : Nat := 2 ^ s.toNat
/-- denominator of `2^s` -/
def pR (s : Int) : Nat := 2 ^ (-s).toNat

theorem pL_pos (s : Int) : 0 < pL s := Nat.pow_pos (by omega)
theorem pR_pos (s : Int) : 0 < pR s := Nat.pow_pos (by omega)

/-- `2^e ≤ num/den` -/
def le2 (e : Int) (num den : Nat) : Prop := den * pL e ≤ num * pR e
/-- `num/den < 2^e` -/
def lt2 (e : Int) (num den : Nat) : Prop := num * pR e < den * pL e

theorem not_le2_iff (e : Int) (num den : Nat) : ¬ le2 e num den ↔ lt2 e num den := by
  unfold le2 lt2; omega

/-- `2^a · 2^b = 2^(a+b)` on fractions -/
theorem pow2_add (a b : Int) : pL (a + b) * (pR a * pR b) = pR (a + b) * (pL a * pL b) := by
  unfold pL pR
  rw [← Nat.pow_add, ← Nat.pow_add, ← Nat.pow_add, ← Nat.pow_add]
  congr 1
  omega

theorem pL_ofNat (k : Nat) : pL (k : Int) = 2 ^ k := by simp [pL]
theorem pR_ofNat (k : Nat) : pR (k : Int) = 1 := by
  unfold pR
  have : (-(k : Int)).toNat = 0 := by omega
  rw [this]

/-- cancel a positive common factor -/
theorem mul_le_mul_right_iff {a b c : Nat} (hc : 0 < c) : a * c ≤ b * c ↔ a ≤ b :=
  ⟨fun h => Nat.le_of_mul_le_mul_right h hc, fun h => Nat.mul_le_mul_right c h⟩

theorem mul_lt_mul_right_iff {a b c : Nat} (hc : 0 < c) : a * c < b * c ↔ a < b :=
  ⟨fun h => Nat.lt_of_mul_lt_mul_right h, fun h => Nat.mul_lt_mul_of_pos_right h hc⟩

/-- transport `2^e ≤ x` to the scaled fraction `x·2^s = (num·pL s)/(den·pR s)` when `e + s = k ≥ 0` -/
theorem le2_shift (e s : Int) (k : Nat) (h : e + s = k) (num den : Nat) :
    le2 e num den ↔ 2 ^ k * (den * pR s) ≤ num * pL s := by
  have hid := pow2_add e s
  rw [h, pL_ofNat, pR_ofNat, Nat.one_mul] at hid
  -- hid : 2^k * (pR e * pR s) = pL e * pL s
  unfold le2
  rw [← mul_le_mul_right_iff (pL_pos s), ← mul_le_mul_right_iff (c := pR e) (a := 2 ^ k * (den * pR s)) (pR_pos e)]
  have e1 : den * pL e * pL s = den * (pL e * pL s) := by ac_rfl
  have e2 : 2 ^ k * (den * pR s) * pR e = den * (2 ^ k * (pR e * pR s)) := by ac_rfl
  have e3 : num * pR e * pL s = num * pL s * pR e := by ac_rfl
  rw [e1, e2, e3, hid]

theorem lt2_shift (e s : Int) (k : Nat) (h : e + s = k) (num den : Nat) :
    lt2 e num den ↔ num * pL s < 2 ^ k * (den * pR s) := by
  rw [← not_le2_iff, le2_shift e s k h]
  omega

/-- monotonicity in the exponent -/
theorem lt2_mono {e e' : Int} (h : e ≤ e') {num den : Nat} (hl : lt2 e num den) : lt2 e' num den := by
  -- 2^e ≤ 2^e' : pL e * pR e' ≤ pL e' * pR e
  have hid := pow2_add e (e' - e)
  have he : e + (e' - e) = e' := by omega
  rw [he] at hid
  have hk : pR (e' - e) = 1 := by
    unfold pR
    have : (-(e' - e)).toNat = 0 := by omega
    rw [this]
  rw [hk, Nat.mul_one] at hid
  -- hid : pL e' * pR e = pR e' * (pL e * pL (e' - e))
  unfold lt2 at *
  have h1 : num * pR e * (pR e' * pL (e' - e)) < den * pL e * (pR e' * pL (e' - e)) :=
    Nat.mul_lt_mul_of_pos_right hl (Nat.mul_pos (pR_pos _) (pL_pos _))
  have e1 : den * pL e * (pR e' * pL (e' - e)) = den * pL e' * pR e := by
    calc den * pL e * (pR e' * pL (e' - e)) = den * (pR e' * (pL e * pL (e' - e))) := by ac_rfl
      _ = den * (pL e' * pR e) := by rw [hid]
      _ = den * pL e' * pR e := by ac_rfl
  have e2 : num * pR e * (pR e' * pL (e' - e)) = num * pR e' * pR e * pL (e' - e) := by ac_rfl
  rw [e1, e2] at h1
  have h2 : num * pR e' * pR e ≤ num * pR e' * pR e * pL (e' - e) := Nat.le_mul_of_pos_right _ (pL_pos _)
  exact Nat.lt_of_mul_lt_mul_right (Nat.lt_of_le_of_lt h2 h1)

theorem le2_mono {e e' : Int} (h : e' ≤ e) {num den : Nat} (hl : le2 e num den) : le2 e' num den := by
  apply Classical.byContradiction
  intro hn
  exact (not_le2_iff e num den).2 (lt2_mono h ((not_le2_iff _ _ _).1 hn)) hl

/-- the binary exponent of a positive rational is unique -/
theorem exp_unique {e e' : Int} {num den : Nat} (h1 : le2 e num den) (h2 : lt2 (e + 1) num den)
    (h1' : le2 e' num den) (h2' : lt2 (e' + 1) num den) : e = e' := by
  by_cases h : e < e'
  · exact absurd h1' ((not_le2_iff _ _ _).2 (lt2_mono (by omega) h2))
  · by_cases h' : e' < e
    · exact absurd h1 ((not_le2_iff _ _ _).2 (lt2_mono (by omega) h2'))
    · omega


theorem le2_ofNat (k : Nat) (n d : Nat) : le2 (k : Int) n d ↔ d * 2 ^ k ≤ n := by
  unfold le2; rw [pL_ofNat, pR_ofNat, Nat.mul_one]

theorem lt2_ofNat (k : Nat) (n d : Nat) : lt2 (k : Int) n d ↔ n < d * 2 ^ k := by
  unfold lt2; rw [pL_ofNat, pR_ofNat, Nat.mul_one]

theorem pL_neg (k : Nat) : pL (-(k : Int)) = 1 := by
  unfold pL
  have : (-(k : Int)).toNat = 0 := by omega
  rw [this]

theorem pR_neg (k : Nat) : pR (-(k : Int)) = 2 ^ k := by
  unfold pR
  have : (-(-(k : Int))).toNat = k := by omega
  rw [this]

theorem le2_neg (k : Nat) (n d : Nat) : le2 (-(k : Int)) n d ↔ d ≤ n * 2 ^ k := by
  unfold le2; rw [pL_neg, pR_neg, Nat.mul_one]

theorem lt2_neg (k : Nat) (n d : Nat) : lt2 (-(k : Int)) n d ↔ n * 2 ^ k < d := by
  unfold lt2; rw [pL_neg, pR_neg, Nat.mul_one]

/-! ## `bitLen` and `floorLog2Rat` -/

theorem bitLen_pos {n : Nat} (h : 0 < n) : 1 ≤ bitLen n := by
  unfold bitLen; rw [if_neg (by omega)]; omega

theorem bitLen_lo {n : Nat} (h : 0 < n) : 2 ^ (bitLen n - 1) ≤ n := by
  unfold bitLen; rw [if_neg (by omega)]
  exact Nat.log2_self_le (by omega)

theorem bitLen_hi (n : Nat) : n < 2 ^ bitLen n := by
  unfold bitLen
  by_cases h : n = 0
  · subst h; decide
  · rw [if_neg h]; exact Nat.lt_log2_self

theorem floorLog2Rat_spec (num den : Nat) (hn : 0 < num) (hd : 0 < den) :
    le2 (floorLog2Rat num den) num den ∧ lt2 (floorLog2Rat num den + 1) num den := by
  have hnp := bitLen_pos hn
  have hdp := bitLen_pos hd
  have hnl := bitLen_lo hn
  have hdl := bitLen_lo hd
  have hnh := bitLen_hi num
  have hdh := bitLen_hi den
  unfold floorLog2Rat
  generalize bitLen num = bn at *
  generalize bitLen den = bd at *
  cases he0 : ((bn : Int) - (bd : Int)) with
  | ofNat k =>
    have he0' : (bn : Int) - (bd : Int) = (k : Int) := he0
    have hbn : bn = bd + k := by omega
    subst hbn
    simp only [Int.ofNat_eq_natCast]
    by_cases hge : num ≥ den * 2 ^ k
    · simp only [hge, decide_true, if_true]
      rw [show (k : Int) + 1 = ((k + 1 : Nat) : Int) by omega, le2_ofNat, lt2_ofNat]
      refine ⟨hge, ?_⟩
      calc num < 2 ^ (bd + k) := hnh
        _ = 2 ^ (bd - 1) * 2 ^ (k + 1) := by rw [← Nat.pow_add]; congr 1; omega
        _ ≤ den * 2 ^ (k + 1) := Nat.mul_le_mul_right _ hdl
    · simp only [hge, decide_false, Bool.false_eq_true, if_false]
      rw [show (k : Int) - 1 + 1 = (k : Int) by omega, lt2_ofNat]
      refine ⟨?_, by omega⟩
      cases k with
      | zero =>
        rw [show ((0 : Nat) : Int) - 1 = -((1 : Nat) : Int) by omega, le2_neg]
        simp only [Nat.add_zero] at *
        have : 2 ^ bd = 2 ^ (bd - 1) * 2 ^ 1 := by rw [← Nat.pow_add]; congr 1; omega
        omega
      | succ j =>
        rw [show ((j + 1 : Nat) : Int) - 1 = (j : Int) by omega, le2_ofNat]
        have h1 : den * 2 ^ j ≤ 2 ^ bd * 2 ^ j := Nat.mul_le_mul_right _ (by omega)
        have h2 : 2 ^ bd * 2 ^ j = 2 ^ (bd + (j + 1) - 1) := by rw [← Nat.pow_add]; congr 1
        omega
  | negSucc k =>
    have he0' : (bn : Int) - (bd : Int) = -((k + 1 : Nat) : Int) := by rw [he0]; omega
    have hbd : bd = bn + k + 1 := by omega
    subst hbd
    simp only
    by_cases hge : num * 2 ^ (k + 1) ≥ den
    · simp only [hge, decide_true, if_true]
      rw [show Int.negSucc k = -((k + 1 : Nat) : Int) by omega,
        show -((k + 1 : Nat) : Int) + 1 = -((k : Nat) : Int) by omega, le2_neg, lt2_neg]
      refine ⟨hge, ?_⟩
      calc num * 2 ^ k < 2 ^ bn * 2 ^ k := Nat.mul_lt_mul_of_pos_right hnh (Nat.pow_pos (by omega))
        _ = 2 ^ (bn + k + 1 - 1) := by rw [← Nat.pow_add]; congr 1
        _ ≤ den := hdl
    · simp only [hge, decide_false, Bool.false_eq_true, if_false]
      rw [show Int.negSucc k - 1 = -((k + 2 : Nat) : Int) by omega,
        show -((k + 2 : Nat) : Int) + 1 = -((k + 1 : Nat) : Int) by omega, le2_neg, lt2_neg]
      refine ⟨?_, by omega⟩
      calc den ≤ 2 ^ (bn + k + 1) := by omega
        _ = 2 ^ (bn - 1) * 2 ^ (k + 2) := by rw [← Nat.pow_add]; congr 1; omega
        _ ≤ num * 2 ^ (k + 2) := Nat.mul_le_mul_right _ hnl


/-! ## `scaledDiv` and the tail of `roundRat` -/

theorem scaledDiv_eq (num den : Nat) (s : Int) :
    scaledDiv num den s = ((num * pL s) / (den * pR s), (num * pL s) % (den * pR s) != 0) := by
  cases s with
  | ofNat k =>
    have h1 : pL (Int.ofNat k) = 2 ^ k := pL_ofNat k
    have h2 : pR (Int.ofNat k) = 1 := pR_ofNat k
    simp only [scaledDiv, h1, h2, Nat.mul_one]
  | negSucc k =>
    have h1 : pL (Int.negSucc k) = 1 := by
      rw [show Int.negSucc k = -((k + 1 : Nat) : Int) by omega, pL_neg]
    have h2 : pR (Int.negSucc k) = 2 ^ (k + 1) := by
      rw [show Int.negSucc k = -((k + 1 : Nat) : Int) by omega, pR_neg]
    simp only [scaledDiv, h1, h2, Nat.mul_one]

/-- exponent of the last place -/
def ulpOf (e : Int) : Int := if e - 52 < -1074 then -1074 else e - 52

/-- the rounding step: `q2 = ⌊2·x/ulp⌋`, `sticky` = "something below the half bit" -/
def roundQ (q2 : Nat) (sticky : Bool) : Nat :=
  if (q2 % 2 == 1) && (sticky || (q2 / 2) % 2 == 1) then q2 / 2 + 1 else q2 / 2

/-- the tail of `roundRat`: from the rounded significand `q'` at the grid `2^g` to the bit pattern -/
def encode (g : Int) (q' : Nat) : Option Nat :=
  if q' = 0 then some 0
  else
    let (sig, ex) := if q' ≥ 2 ^ 53 then (q' / 2, g + 1) else (q', g)
    if sig < 2 ^ 52 then some sig
    else
      let biased : Int := ex + 52 + 1023
      if biased ≥ 2047 then none
      else some (biased.toNat * 2 ^ 52 + (sig - 2 ^ 52))

theorem roundRat_eq (num den : Nat) :
    roundRat num den =
      encode (ulpOf (floorLog2Rat num den))
        (roundQ ((num * pL (1 - ulpOf (floorLog2Rat num den))) / (den * pR (1 - ulpOf (floorLog2Rat num den))))
          ((num * pL (1 - ulpOf (floorLog2Rat num den))) % (den * pR (1 - ulpOf (floorLog2Rat num den))) != 0)) := by
  unfold roundRat
  simp only [scaledDiv_eq]
  rfl


/-- closed form of the encoding: the bit pattern is `t·2^52 + q'` where `2^(t-1074)` is the grid; it overflows to
    infinity exactly when that reaches the exponent field `0x7FF` -/
theorem encode_closed (g : Int) (hg : -1074 ≤ g) (q' : Nat)
    (h : (g = -1074 ∧ q' ≤ 2 ^ 52) ∨ (2 ^ 52 ≤ q' ∧ q' ≤ 2 ^ 53)) :
    encode g q' =
      if (g + 1074).toNat * 2 ^ 52 + q' ≥ 2047 * 2 ^ 52 then none else some ((g + 1074).toNat * 2 ^ 52 + q') := by
  unfold encode
  generalize ht : (g + 1074).toNat = t
  have hgt : g = (t : Int) - 1074 := by omega
  subst hgt
  simp only [Nat.reducePow, Nat.reduceMul] at *
  by_cases h0 : q' = 0
  · subst h0
    have : t = 0 := by omega
    subst this
    simp
  · simp only [h0, if_false]
    by_cases h53 : q' ≥ 9007199254740992
    · have hq : q' = 9007199254740992 := by omega
      subst hq
      simp only [ge_iff_le, Nat.le_refl, if_true]
      have e1 : (9007199254740992 : Nat) / 2 = 4503599627370496 := by decide
      simp only [e1, Nat.lt_irrefl, if_false, Nat.sub_self, Nat.add_zero]
      by_cases hb : (t : Int) - 1074 + 1 + 52 + 1023 ≥ 2047
      · have : 9218868437227405312 ≤ t * 4503599627370496 + 9007199254740992 := by omega
        simp [hb, this]
      · have : ¬ (9218868437227405312 ≤ t * 4503599627370496 + 9007199254740992) := by omega
        simp only [hb, if_false, this]
        have : ((t : Int) - 1074 + 1 + 52 + 1023).toNat = t + 2 := by omega
        rw [this]
        apply congrArg some
        omega
    · simp only [h53, if_false]
      by_cases h52 : q' < 4503599627370496
      · have : t = 0 := by omega
        subst this
        have : ¬ (q' ≥ 9218868437227405312) := by omega
        simp only [h52, if_true, Nat.zero_mul, Nat.zero_add, this, if_false]
      · simp only [h52, if_false]
        by_cases hb : (t : Int) - 1074 + 52 + 1023 ≥ 2047
        · have : 9218868437227405312 ≤ t * 4503599627370496 + q' := by omega
          simp [hb, this]
        · have : ¬ (9218868437227405312 ≤ t * 4503599627370496 + q') := by omega
          simp only [hb, if_false, this]
          have : ((t : Int) - 1074 + 52 + 1023).toNat = t + 1 := by omega
          rw [this]
          apply congrArg some
          omega


theorem ulpOf_ge (e : Int) : -1074 ≤ ulpOf e := by unfold ulpOf; split <;> omega

theorem roundQ_bounds (q2 : Nat) (st : Bool) : q2 / 2 ≤ roundQ q2 st ∧ roundQ q2 st ≤ q2 / 2 + 1 := by
  unfold roundQ; split <;> omega

/-- the scaled quotient `q2 = ⌊2x/ulp⌋` has 54 bits for a normal result and fewer than 54 for a subnormal one -/
theorem q2_range (num den : Nat) (hn : 0 < num) (hd : 0 < den) :
    let e := floorLog2Rat num den
    let g := ulpOf e
    let q2 := (num * pL (1 - g)) / (den * pR (1 - g))
    (g = e - 52 → 2 ^ 53 ≤ q2 ∧ q2 < 2 ^ 54) ∧ (g ≠ e - 52 → g = -1074 ∧ q2 < 2 ^ 53) := by
  intro e g q2
  obtain ⟨h1, h2⟩ := floorLog2Rat_spec num den hn hd
  have hB : 0 < den * pR (1 - g) := Nat.mul_pos hd (pR_pos _)
  constructor
  · intro hg
    have s1 := (le2_shift e (1 - g) 53 (by omega) num den).1 h1
    have s2 := (lt2_shift (e + 1) (1 - g) 54 (by omega) num den).1 h2
    constructor
    · exact (Nat.le_div_iff_mul_le hB).2 s1
    · exact (Nat.div_lt_iff_lt_mul hB).2 s2
  · intro hg
    have hg' : g = -1074 ∧ e - 52 < -1074 := by
      show ulpOf e = -1074 ∧ _
      have : ulpOf e ≠ e - 52 := hg
      unfold ulpOf at this ⊢
      split <;> simp_all
    refine ⟨hg'.1, ?_⟩
    have h3 : lt2 (-1022) num den := lt2_mono (by omega) h2
    have s2 := (lt2_shift (-1022) (1 - g) 53 (by omega) num den).1 h3
    exact (Nat.div_lt_iff_lt_mul hB).2 s2

/-- **Closed form of `roundRat`.**  With `g` the exponent of the last place, `t = g + 1074`, and `q'` the significand
    rounded to nearest-even on the grid `2^g`, the result is the bit pattern `t·2^52 + q'`, or infinity when that
    reaches the exponent field `0x7FF`. -/
theorem roundRat_closed (num den : Nat) (hn : 0 < num) (hd : 0 < den) :
    let e := floorLog2Rat num den
    let g := ulpOf e
    let t := (g + 1074).toNat
    let A := num * pL (1 - g)
    let B := den * pR (1 - g)
    let q' := roundQ (A / B) (A % B != 0)
    roundRat num den = (if t * 2 ^ 52 + q' ≥ 2047 * 2 ^ 52 then none else some (t * 2 ^ 52 + q')) ∧
    ((g = -1074 ∧ q' ≤ 2 ^ 52) ∨ (g = e - 52 ∧ 2 ^ 52 ≤ q' ∧ q' ≤ 2 ^ 53)) := by
  intro e g t A B q'
  have hr := q2_range num den hn hd
  have hb := roundQ_bounds (A / B) (A % B != 0)
  have hcase : (g = -1074 ∧ q' ≤ 2 ^ 52) ∨ (g = e - 52 ∧ 2 ^ 52 ≤ q' ∧ q' ≤ 2 ^ 53) := by
    by_cases hg : g = e - 52
    · right
      have := hr.1 hg
      refine ⟨hg, ?_, ?_⟩
      · show 2 ^ 52 ≤ roundQ (A / B) (A % B != 0)
        have : 2 ^ 53 ≤ A / B := this.1
        omega
      · show roundQ (A / B) (A % B != 0) ≤ 2 ^ 53
        have : A / B < 2 ^ 54 := this.2
        omega
    · left
      have := hr.2 hg
      refine ⟨this.1, ?_⟩
      show roundQ (A / B) (A % B != 0) ≤ 2 ^ 52
      have : A / B < 2 ^ 53 := this.2
      omega
  refine ⟨?_, hcase⟩
  rw [roundRat_eq]
  exact encode_closed g (ulpOf_ge e) q' (by
    rcases hcase with h | h
    · exact Or.inl h
    · exact Or.inr h.2)


/-! ## `roundRat` depends only on the rational number -/

theorem le2_scale (e : Int) (n d c : Nat) (hc : 0 < c) : le2 e (n * c) (d * c) ↔ le2 e n d := by
  unfold le2
  rw [show d * c * pL e = d * pL e * c by ac_rfl, show n * c * pR e = n * pR e * c by ac_rfl]
  exact mul_le_mul_right_iff hc

theorem lt2_scale (e : Int) (n d c : Nat) (hc : 0 < c) : lt2 e (n * c) (d * c) ↔ lt2 e n d := by
  rw [← not_le2_iff, ← not_le2_iff, le2_scale e n d c hc]

theorem floorLog2Rat_scale (n d c : Nat) (hn : 0 < n) (hd : 0 < d) (hc : 0 < c) :
    floorLog2Rat (n * c) (d * c) = floorLog2Rat n d := by
  obtain ⟨h1, h2⟩ := floorLog2Rat_spec (n * c) (d * c) (Nat.mul_pos hn hc) (Nat.mul_pos hd hc)
  obtain ⟨h1', h2'⟩ := floorLog2Rat_spec n d hn hd
  exact exp_unique ((le2_scale _ n d c hc).1 h1) ((lt2_scale _ n d c hc).1 h2) h1' h2'

theorem roundRat_scale (n d c : Nat) (hn : 0 < n) (hd : 0 < d) (hc : 0 < c) :
    roundRat (n * c) (d * c) = roundRat n d := by
  rw [roundRat_eq, roundRat_eq, floorLog2Rat_scale n d c hn hd hc]
  generalize ulpOf (floorLog2Rat n d) = g
  have hA : n * c * pL (1 - g) = n * pL (1 - g) * c := by ac_rfl
  have hB : d * c * pR (1 - g) = d * pR (1 - g) * c := by ac_rfl
  rw [hA, hB, Nat.mul_div_mul_right _ _ hc, Nat.mul_mod_mul_right]
  congr 2
  have : (n * pL (1 - g) % (d * pR (1 - g)) * c = 0) ↔ (n * pL (1 - g) % (d * pR (1 - g)) = 0) := by
    constructor
    · intro h
      rcases Nat.mul_eq_zero.1 h with h | h
      · exact h
      · omega
    · intro h; rw [h, Nat.zero_mul]
  by_cases h0 : n * pL (1 - g) % (d * pR (1 - g)) = 0
  · rw [h0, Nat.zero_mul]
  · have h1 : ¬ (n * pL (1 - g) % (d * pR (1 - g)) * c = 0) := fun h => h0 (this.1 h)
    have a1 : (n * pL (1 - g) % (d * pR (1 - g)) * c != 0) = true := bne_iff_ne.2 h1
    have a2 : (n * pL (1 - g) % (d * pR (1 - g)) != 0) = true := bne_iff_ne.2 h0
    rw [a1, a2]

/-- equal fractions round equally -/
theorem roundRat_congr (n d n' d' : Nat) (hn : 0 < n) (hd : 0 < d) (hn' : 0 < n') (hd' : 0 < d')
    (h : n * d' = n' * d) : roundRat n d = roundRat n' d' := by
  rw [← roundRat_scale n d d' hn hd hd', ← roundRat_scale n' d' d hn' hd' hd, h, Nat.mul_comm d d']


/-! ## monotonicity -/

/-- order on results: `none` (infinity) is the top element -/
def optLe : Option Nat → Option Nat → Prop
  | _, none => True
  | none, some _ => False
  | some a, some b => a ≤ b

theorem roundQ_mono (A A' B : Nat) (h : A ≤ A') :
    roundQ (A / B) (A % B != 0) ≤ roundQ (A' / B) (A' % B != 0) := by
  have hq : A / B ≤ A' / B := Nat.div_le_div_right h
  have hb := roundQ_bounds (A / B) (A % B != 0)
  have hb' := roundQ_bounds (A' / B) (A' % B != 0)
  by_cases h1 : A / B / 2 < A' / B / 2
  · omega
  · by_cases h2 : A / B = A' / B
    · -- same quotient: the remainder can only grow
      have e1 := Nat.div_add_mod A B
      have e2 := Nat.div_add_mod A' B
      rw [h2] at e1
      have hr : A % B ≤ A' % B := by omega
      unfold roundQ
      rw [h2]
      by_cases hs : A % B = 0
      · have : (A % B != 0) = false := by simp [hs]
        rw [this]
        cases (A' % B != 0) <;> simp <;> split <;> split <;> omega
      · have hs' : A' % B ≠ 0 := by omega
        have a1 : (A % B != 0) = true := bne_iff_ne.2 hs
        have a2 : (A' % B != 0) = true := bne_iff_ne.2 hs'
        rw [a1, a2]; exact Nat.le_refl _
    · -- quotients 2q and 2q+1: the smaller one is even, so it is not rounded up
      have hev : A / B % 2 = 0 := by omega
      have : roundQ (A / B) (A % B != 0) = A / B / 2 := by
        unfold roundQ
        simp [hev]
      omega


theorem exp_mono (a a' D : Nat) (ha : 0 < a) (haa : a ≤ a') (hD : 0 < D) :
    floorLog2Rat a D ≤ floorLog2Rat a' D := by
  obtain ⟨h1, _⟩ := floorLog2Rat_spec a D ha hD
  obtain ⟨_, h2'⟩ := floorLog2Rat_spec a' D (by omega) hD
  apply Classical.byContradiction
  intro hlt
  have h3 : le2 (floorLog2Rat a' D + 1) a D := le2_mono (by omega) h1
  unfold le2 at h3
  unfold lt2 at h2'
  have : a * pR (floorLog2Rat a' D + 1) ≤ a' * pR (floorLog2Rat a' D + 1) := Nat.mul_le_mul_right _ haa
  omega

theorem ulpOf_mono {e e' : Int} (h : e ≤ e') : ulpOf e ≤ ulpOf e' := by
  unfold ulpOf; split <;> split <;> omega

theorem optLe_bits (b b' : Nat) (h : b ≤ b') (L : Nat) :
    optLe (if b ≥ L then none else some b) (if b' ≥ L then none else some b') := by
  by_cases h1 : b' ≥ L
  · rw [if_pos h1]; cases (if b ≥ L then none else some b) <;> trivial
  · have h2 : ¬ (b ≥ L) := by omega
    rw [if_neg h1, if_neg h2]; exact h

/-- rounding is monotone (fractions with a common denominator) -/
theorem roundRat_mono_den (a a' D : Nat) (ha : 0 < a) (haa : a ≤ a') (hD : 0 < D) :
    optLe (roundRat a D) (roundRat a' D) := by
  obtain ⟨hc, hcase⟩ := roundRat_closed a D ha hD
  obtain ⟨hc', hcase'⟩ := roundRat_closed a' D (by omega) hD
  have he := exp_mono a a' D ha haa hD
  have hg := ulpOf_mono he
  have hg1 := ulpOf_ge (floorLog2Rat a D)
  rw [hc, hc']
  apply optLe_bits
  generalize floorLog2Rat a D = e at *
  generalize floorLog2Rat a' D = e' at *
  generalize ulpOf e = g at *
  generalize ulpOf e' = g' at *
  by_cases hgg : g = g'
  · subst hgg
    have := roundQ_mono (a * pL (1 - g)) (a' * pL (1 - g)) (D * pR (1 - g)) (Nat.mul_le_mul_right _ haa)
    omega
  · have hlt : g < g' := by omega
    have h1 : roundQ (a * pL (1 - g) / (D * pR (1 - g))) (a * pL (1 - g) % (D * pR (1 - g)) != 0) ≤ 2 ^ 53 := by
      rcases hcase with h | h <;> omega
    have h2 : 2 ^ 52 ≤ roundQ (a' * pL (1 - g') / (D * pR (1 - g'))) (a' * pL (1 - g') % (D * pR (1 - g')) != 0) := by
      rcases hcase' with h | h <;> omega
    have ht : (g + 1074).toNat + 1 ≤ (g' + 1074).toNat := by omega
    have := Nat.mul_le_mul_right (2 ^ 52) ht
    omega

theorem optLe_of_eq {x y x' y' : Option Nat} (h1 : x = x') (h2 : y = y') (h : optLe x' y') : optLe x y := by
  rw [h1, h2]; exact h

/-- **Rounding is monotone**: `n/d ≤ n'/d'` implies `roundRat n d ≤ roundRat n' d'` (bit patterns of non-negative
    doubles are ordered like their values; `none` = +∞) -/
theorem roundRat_mono (n d n' d' : Nat) (hn : 0 < n) (hd : 0 < d) (hd' : 0 < d')
    (h : n * d' ≤ n' * d) : optLe (roundRat n d) (roundRat n' d') := by
  have hn' : 0 < n' := by
    rcases Nat.eq_zero_or_pos n' with h0 | h0
    · subst h0; have := Nat.mul_pos hn hd'; omega
    · exact h0
  refine optLe_of_eq (roundRat_scale n d d' hn hd hd').symm ?_ (roundRat_mono_den (n * d') (n' * d) (d * d')
    (Nat.mul_pos hn hd') h (Nat.mul_pos hd hd'))
  rw [Nat.mul_comm d d']
  exact (roundRat_scale n' d' d hn' hd' hd).symm

end Sonic.Proofs.Rne
