import Sonic.Props.C07
import Sonic.Proofs.SerializeStep
import Sonic.Proofs.SerializeNumber
import Sonic.Proofs.NumberRound

/-!
# C06 ∘ C07: the literal `F64toa` model satisfies `FtoaFacts`

* reader equivalence: a text that `Spec.Shortest.parseDecText` reads as `(neg, sig, exp)` is one number token for
  `Spec.Number.scanToken`, of the full length, denoting the same decimal (up to trailing zeros of the mantissa);
* the integer fast path prints a value that lies in its own rounding interval;
* assembly with `C07_output`, `C07_integer_path`, `C07_decimal_path`, `C07_schubfach`, `C07_chk_reparse_signed`.
Core only.
-/
namespace Sonic.Proofs.FtoaFacts

open Sonic.Spec Sonic.Spec.Shortest Sonic.Spec.Number Sonic.Proofs.Ftoa

/-! ## digit runs: `spanDigits` (C07 reader) is `takeDigits` (C04 reader) -/

theorem isDig_eq (c : Nat) : isDig c = Number.isDigit c := rfl

theorem span_eq (s : List Nat) :
    spanDigits s = (vals (takeDigits s), s.drop (takeDigits s).length) := by
  induction s with
  | nil => rfl
  | cons c s ih =>
    unfold spanDigits takeDigits
    rw [List.takeWhile_cons]
    by_cases h : Number.isDigit c = true
    · have h' : isDig c = true := h
      simp only [h, h', if_true, ih, vals, List.map_cons, List.length_cons, List.drop_succ_cons, takeDigits]
    · have h' : ¬ isDig c = true := h
      simp only [h, h', vals]
      rfl

theorem takeDigits_allDig (s : List Nat) : AllDig (takeDigits s) := by
  unfold takeDigits
  induction s with
  | nil => intro d hd; cases hd
  | cons c s ih =>
    rw [List.takeWhile_cons]
    split
    · rename_i hc
      intro d hd
      rcases List.mem_cons.1 hd with rfl | hd
      · simpa [Number.isDigit] using hc
      · exact ih d hd
    · intro d hd; cases hd

theorem takeDigits_prefix (s : List Nat) : takeDigits s ++ s.drop (takeDigits s).length = s := by
  unfold takeDigits
  induction s with
  | nil => rfl
  | cons c s ih =>
    rw [List.takeWhile_cons]
    split
    · simp only [List.length_cons, List.drop_succ_cons, List.cons_append, ih]
    · rfl

theorem vals_length (L : List Nat) : (vals L).length = L.length := by simp [vals]


theorem takeDigits_len_le (s : List Nat) : (takeDigits s).length ≤ s.length :=
  Sonic.Proofs.Serialize.takeDigits_length_le s

theorem digitsVal_eq (L : List Nat) : digitsVal L = valOf (vals L) := by
  rw [valOf_vals]; rfl

theorem vals_isEmpty (L : List Nat) : (vals L).isEmpty = L.isEmpty := by
  cases L <;> rfl

/-! ## the four parts of the grammar -/

theorem sign_agree (t : List Nat) :
    t.drop (signLen t) = (if t.head? = some 45 then (true, t.tail) else (false, t)).2 ∧
    (signLen t == 1) = (if t.head? = some 45 then (true, t.tail) else (false, t)).1 ∧
    t.length = signLen t + (if t.head? = some 45 then (true, t.tail) else (false, t)).2.length := by
  cases t with
  | nil => simp [signLen]
  | cons c r =>
    by_cases hc : c = 45
    · subst hc; simp [signLen]; omega
    · have hs : signLen (c :: r) = 0 := by
        unfold signLen; split
        · rename_i heq; cases heq; exact absurd rfl hc
        · rfl
      simp [hs, hc]

theorem int_agree (s : List Nat) (h1 : (vals (takeDigits s)).isEmpty = false)
    (h2 : (decide (1 < (vals (takeDigits s)).length) && (vals (takeDigits s)).head? == some 0) = false) :
    scanInt s = some (takeDigits s) := by
  cases s with
  | nil => simp [takeDigits, vals] at h1
  | cons c r =>
    have htd : takeDigits (c :: r) = if Number.isDigit c = true then c :: takeDigits r else [] := by
      unfold takeDigits; rw [List.takeWhile_cons]
    by_cases hd : Number.isDigit c = true
    · rw [htd, if_pos hd] at h2 ⊢
      unfold scanInt
      by_cases h48 : c = 48
      · subst h48
        simp only [if_true]
        have : takeDigits r = [] := by
          cases htr : takeDigits r with
          | nil => rfl
          | cons x xs => rw [htr] at h2; simp [vals] at h2
        rw [this]
      · simp only [h48, if_false, hd, if_true, htd]
    · rw [htd, if_neg hd] at h1
      simp [vals] at h1

theorem frac_agree (s fp r : List Nat) (h : parseFrac s = some (fp, r)) :
    ∃ fr, scanFrac s = some fr ∧ fp = vals (fr.getD []) ∧ r = s.drop (fracBytes fr) ∧
      s.length = fracBytes fr + r.length ∧ (fr = none → s.head? ≠ some 46) := by
  unfold parseFrac at h
  cases s with
  | nil =>
    simp at h
    refine ⟨none, rfl, ?_, ?_, ?_, ?_⟩ <;> simp [h.1, h.2, fracBytes, vals]
  | cons c r0 =>
    by_cases hc : c = 46
    · subst hc
      simp only [List.head?_cons, if_true, List.tail_cons, span_eq, vals_isEmpty] at h
      cases hF : takeDigits r0 with
      | nil => rw [hF] at h; simp at h
      | cons x xs =>
        rw [hF] at h
        simp only [List.isEmpty_cons, Bool.false_eq_true, if_false, Option.some.injEq, Prod.mk.injEq] at h
        have hl := takeDigits_len_le r0
        rw [hF] at hl
        refine ⟨some (x :: xs), ?_, h.1.symm, ?_, ?_, fun hh => by cases hh⟩
        · simp [scanFrac, hF]
        · rw [← h.2]; simp [fracBytes, Nat.add_comm 1]
        · rw [← h.2]; simp [fracBytes] at hl ⊢; omega
    · have h46 : (c :: r0).head? ≠ some 46 := by simp [hc]
      rw [if_neg h46] at h
      simp only [Option.some.injEq, Prod.mk.injEq] at h
      refine ⟨none, ?_, by rw [← h.1]; rfl, by rw [← h.2]; rfl, by rw [← h.2]; simp [fracBytes], fun _ => h46⟩
      unfold scanFrac
      split
      · rename_i heq; cases heq; exact absurd rfl hc
      · rfl

theorem expSign_agree (r : List Nat) :
    r.drop (expSign r).2 =
      (if r.head? = some 45 then (true, r.tail) else if r.head? = some 43 then (false, r.tail) else (false, r)).2 ∧
    (expSign r).1 =
      (if (if r.head? = some 45 then (true, r.tail) else if r.head? = some 43 then (false, r.tail)
        else (false, r)).1 = true then -1 else 1) ∧
    r.length = (expSign r).2 +
      (if r.head? = some 45 then (true, r.tail) else if r.head? = some 43 then (false, r.tail) else (false, r)).2.length := by
  cases r with
  | nil => simp [expSign]
  | cons c r =>
    by_cases h45 : c = 45
    · subst h45; simp [expSign]; omega
    · by_cases h43 : c = 43
      · subst h43; simp [expSign]; omega
      · have he : expSign (c :: r) = (1, 0) := by
          unfold expSign; split
          · rename_i heq; cases heq; exact absurd rfl h43
          · rename_i heq; cases heq; exact absurd rfl h45
          · rfl
        simp [he, h45, h43]


theorem exp_agree (r : List Nat) (e : Int) (h : parseExp r = some e) :
    ∃ ex, scanExp r = some ex ∧ expVal ex = e ∧ expLen ex = r.length ∧ (ex = none → r = []) := by
  cases r with
  | nil =>
    simp [parseExp] at h
    exact ⟨none, rfl, by simp [expVal, h], rfl, fun _ => rfl⟩
  | cons c r' =>
    unfold parseExp at h
    by_cases hc : (c == 101 || c == 69) = true
    · obtain ⟨a1, a2, a3⟩ := expSign_agree r'
      simp only [hc, if_true] at h
      generalize hsr : (if r'.head? = some 45 then (true, r'.tail) else if r'.head? = some 43 then (false, r'.tail)
        else (false, r')) = sr at *
      rw [span_eq, vals_isEmpty] at h
      simp only at h
      have hc' : c = 101 ∨ c = 69 := by simpa using hc
      cases hds : takeDigits sr.2 with
      | nil => rw [hds] at h; simp at h
      | cons x xs =>
        rw [hds] at h
        simp only [List.isEmpty_cons, Bool.false_eq_true, if_false] at h
        by_cases hrest : (List.drop (x :: xs).length sr.2).isEmpty = true
        · simp only [hrest, Bool.not_true, Bool.false_eq_true, if_false, Option.some.injEq] at h
          have hlen : sr.2.length = (x :: xs).length := by
            have h1 := takeDigits_len_le sr.2
            rw [hds] at h1
            have h2 : (List.drop (x :: xs).length sr.2).length = 0 := by
              rw [List.isEmpty_iff] at hrest; rw [hrest]; rfl
            rw [List.length_drop] at h2
            omega
          refine ⟨some ((expSign r').1 * (digitsVal (x :: xs) : Int), 1 + (expSign r').2 + (x :: xs).length),
            ?_, ?_, ?_, fun hh => by cases hh⟩
          · unfold scanExp
            simp only [hc', if_true, a1, hds]
            simp
          · simp only [expVal, a2, digitsVal_eq, ← h]
            split <;> simp
          · simp only [expLen, List.length_cons] at hlen ⊢
            omega
        · have hrest' : (List.drop (x :: xs).length sr.2).isEmpty = false := by
            cases hb : (List.drop (x :: xs).length sr.2).isEmpty
            · rfl
            · exact absurd hb hrest
          simp only [hrest', Bool.not_false, if_true] at h
          cases h
    · simp only [hc, Bool.false_eq_true, if_false] at h
      cases h


/-! ## the whole token -/

theorem scanToken_of_parseDec (t : List Nat) (neg : Bool) (sig : Nat) (exp : Int)
    (hp : parseDecText t = some (neg, sig, exp)) :
    ∃ tok, scanToken t = some tok ∧ tok.len = t.length ∧ tok.neg = neg ∧
      (sig, exp) = mkDec (vals tok.intDigits) (vals (tok.fracDigits.getD [])) (expVal tok.exp) ∧
      (tok.isInteger = true → t = (if neg then [45] else []) ++ tok.intDigits) ∧ AllDig tok.intDigits := by
  unfold parseDecText at hp
  obtain ⟨s1, s2, s3⟩ := sign_agree t
  generalize hst : (if t.head? = some 45 then (true, t.tail) else (false, t)) = st at *
  simp only [span_eq] at hp
  by_cases h1 : (vals (takeDigits st.2)).isEmpty = true
  · simp [h1] at hp
  have h1' : (vals (takeDigits st.2)).isEmpty = false := by
    cases hb : (vals (takeDigits st.2)).isEmpty
    · rfl
    · exact absurd hb h1
  simp only [h1', Bool.false_eq_true, if_false] at hp
  by_cases h2 : (decide (1 < (vals (takeDigits st.2)).length) && (vals (takeDigits st.2)).head? == some 0) = true
  · simp [h2] at hp
  have h2' : (decide (1 < (vals (takeDigits st.2)).length) && (vals (takeDigits st.2)).head? == some 0) = false := by
    cases hb : (decide (1 < (vals (takeDigits st.2)).length) && (vals (takeDigits st.2)).head? == some 0)
    · rfl
    · exact absurd hb h2
  simp only [h2', Bool.false_eq_true, if_false] at hp
  have hint := int_agree st.2 h1' h2'
  have hIdig := takeDigits_allDig st.2
  generalize hI : takeDigits st.2 = I at *
  cases hpf : parseFrac (List.drop I.length st.2) with
  | none => rw [hpf] at hp; cases hp
  | some pr =>
    obtain ⟨fp, r⟩ := pr
    rw [hpf] at hp
    simp only at hp
    cases hpe : parseExp r with
    | none => rw [hpe] at hp; cases hp
    | some e =>
      rw [hpe] at hp
      simp only [Option.some.injEq, Prod.mk.injEq] at hp
      obtain ⟨fr, f1, f2, f3, f4, f5⟩ := frac_agree _ fp r hpf
      obtain ⟨ex, e1, e2, e3, e4⟩ := exp_agree r e hpe
      have hIl : I.length ≤ st.2.length := by rw [← hI]; exact takeDigits_len_le _
      refine ⟨{ neg := signLen t == 1, intDigits := I, fracDigits := fr, exp := ex }, ?_, ?_, ?_, ?_, ?_, hIdig⟩
      · unfold scanToken
        simp only [s1, hint, f1, ← f3, e1]
      · simp only [Token.len, s2, e3]
        rw [List.length_drop] at f4
        have : (if st.1 = true then 1 else 0) = signLen t := by
          rw [← s2]
          have : signLen t ≤ 1 := by unfold signLen; split <;> omega
          by_cases h : signLen t = 1
          · simp [h]
          · have h0 : signLen t = 0 := by omega
            simp [h0]
        omega
      · simp only [s2, hp.1]
      · simp only [← f2, e2, ← hp.2]
      · intro hint'
        simp only [Token.isInteger, Bool.and_eq_true, Option.isNone_iff_eq_none] at hint'
        have hr : r = [] := e4 hint'.2
        have hfr := hint'.1
        subst hfr
        simp only [fracBytes, List.drop_zero] at f3
        have hpre := takeDigits_prefix st.2
        rw [hI, ← f3, hr, List.append_nil] at hpre
        rw [← hp.1, hpre, ← hst]
        cases t with
        | nil => simp
        | cons c t' =>
          by_cases hc : c = 45
          · subst hc; simp
          · simp [hc]


/-! ## the value: trailing zeros of the mantissa do not matter to `Rne.round` -/

theorem mem_takeWhile_p {α : Type} (p : α → Bool) : ∀ (l : List α) (x : α), x ∈ l.takeWhile p → p x = true
  | [], _, h => by cases h
  | a :: l, x, h => by
    rw [List.takeWhile_cons] at h
    split at h
    · rename_i ha
      rcases List.mem_cons.1 h with rfl | h'
      · exact ha
      · exact mem_takeWhile_p p l x h'
    · cases h

theorem strip_split (L : List Nat) :
    L = stripTrailingZeros L ++ List.replicate (L.length - (stripTrailingZeros L).length) 0 := by
  unfold stripTrailingZeros
  have h := List.takeWhile_append_dropWhile (p := (· == 0)) (l := L.reverse)
  have hz : ∀ M : List Nat, (∀ x ∈ M, x = 0) → M = List.replicate M.length 0 := by
    intro M hM
    exact List.eq_replicate_iff.2 ⟨rfl, hM⟩
  have ht : L.reverse.takeWhile (· == 0) = List.replicate (L.reverse.takeWhile (· == 0)).length 0 :=
    hz _ (fun x hx => by
      have := mem_takeWhile_p _ _ _ hx
      simpa using this)
  have hL : L = (L.reverse.dropWhile (· == 0)).reverse ++ (L.reverse.takeWhile (· == 0)).reverse := by
    rw [← List.reverse_append, h, List.reverse_reverse]
  have hlen : L.length = (L.reverse.dropWhile (· == 0)).length + (L.reverse.takeWhile (· == 0)).length := by
    have := congrArg List.length h
    simp only [List.length_append, List.length_reverse] at this
    omega
  rw [List.length_reverse]
  have e : L.length - (L.reverse.dropWhile (· == 0)).length = (L.reverse.takeWhile (· == 0)).length := by omega
  rw [e, ← ht]
  conv => lhs; rw [hL]
  rw [ht, List.reverse_replicate, ← ht]

theorem valOf_append_zeros (L : List Nat) (k : Nat) : valOf (L ++ List.replicate k 0) = valOf L * 10 ^ k := by
  unfold valOf
  rw [List.foldl_append]
  generalize List.foldl (fun a d => a * 10 + d) 0 L = a
  induction k generalizing a with
  | zero => simp
  | succ k ih =>
    rw [List.replicate_succ, List.foldl_cons, ih, Nat.pow_succ]
    simp only [Nat.add_zero]
    rw [Nat.mul_assoc, Nat.mul_comm 10]

theorem round_mkDec (neg : Bool) (ip fp : List Nat) (e : Int) (sig : Nat) (exp : Int)
    (h : (sig, exp) = mkDec ip fp e) :
    Rne.round neg (valOf (ip ++ fp)) (e - (fp.length : Int)) = Rne.round neg sig exp := by
  unfold mkDec at h
  simp only at h
  have hs := strip_split (ip ++ fp)
  generalize hk : (ip ++ fp).length - (stripTrailingZeros (ip ++ fp)).length = k at *
  have hv : valOf (ip ++ fp) = valOf (stripTrailingZeros (ip ++ fp)) * 10 ^ k := by
    conv => lhs; rw [hs]
    exact valOf_append_zeros _ _
  rw [hv]
  by_cases h0 : valOf (stripTrailingZeros (ip ++ fp)) = 0
  · rw [if_pos h0] at h
    simp only [Prod.mk.injEq] at h
    rw [h0, h.1, h.2]
    simp [Rne.round]
  · rw [if_neg h0] at h
    simp only [Prod.mk.injEq] at h
    rw [h.1, h.2]
    have := Sonic.Proofs.Rne.round_scale neg (valOf (stripTrailingZeros (ip ++ fp))) k (e - (fp.length : Int) + (k : Int))
    rw [show e - (fp.length : Int) + (k : Int) - (k : Int) = e - (fp.length : Int) by omega] at this
    exact this


/-! ## reader equivalence -/

theorem noFrac_of_digits (neg : Bool) (I : List Nat) (hI : AllDig I) :
    hasFracOrExp ((if neg then [45] else []) ++ I) = false := by
  have hc : ∀ x, x ≠ 45 → (x < 48 ∨ 57 < x) → ((if neg then [45] else []) ++ I).contains x = false := by
    intro x h45 hx
    rw [List.contains_eq_mem]
    simp only [decide_eq_false_iff_not, List.mem_append, not_or]
    constructor
    · cases neg <;> simp [h45]
    · intro hm; have := hI x hm; omega
  unfold hasFracOrExp
  rw [hc 46 (by decide) (by decide), hc 101 (by decide) (by decide), hc 69 (by decide) (by decide)]
  rfl

/-- a text that the C07 reader reads as the decimal `(neg, sig, exp)`, and that has a fraction or an exponent, is read
    by the C04 reference reader as one `real` token of the full length whose value is `Rne.round neg sig exp` -/
theorem scan_of_parseDec (t : List Nat) (neg : Bool) (sig : Nat) (exp : Int) (bits : Nat)
    (hp : parseDecText t = some (neg, sig, exp)) (hf : hasFracOrExp t = true)
    (hr : Rne.round neg sig exp = some bits) :
    scanNumber t 0 = .ok (.real bits) t.length := by
  obtain ⟨tok, h1, h2, h3, h4, h5, h6⟩ := scanToken_of_parseDec t neg sig exp hp
  have hni : tok.isInteger = false := by
    cases hb : tok.isInteger
    · rfl
    · have := h5 hb
      rw [this, noFrac_of_digits neg _ h6] at hf
      cases hf
  have hval : tok.value = some (.real bits) := by
    unfold Token.value
    simp only [hni, Bool.false_and, Bool.false_eq_true, if_false]
    have hm : tok.mantissa = valOf (vals tok.intDigits ++ vals (tok.fracDigits.getD [])) := by
      unfold Token.mantissa; rw [digitsVal_eq, vals_append]
    have he : tok.exponent = expVal tok.exp - ((vals (tok.fracDigits.getD [])).length : Int) := by
      unfold Token.exponent; rw [vals_length]
    rw [hm, he, h3, round_mkDec neg _ _ _ sig exp h4, hr]
    rfl
  unfold scanNumber
  simp only [List.drop_zero, h1, hval, h2, Nat.zero_add]


/-! ## the integer fast path: the printed integer lies in its own rounding interval -/

theorem fast_inInterval (u n : Nat) (hu : 0 < u) : inInterval (u * 2 ^ n) (-(n : Int)) u 0 = true := by
  have hA : scaleA 0 (-(n : Int) - 2) = 4 * 2 ^ n := by
    unfold scaleA
    have : (-(-(n : Int) - 2)).toNat = n + 2 := by omega
    rw [this, Nat.pow_add]
    simp only [Int.toNat_zero, Nat.pow_zero, Nat.one_mul]
    omega
  have hB : scaleB 0 (-(n : Int) - 2) = 1 := by
    unfold scaleB
    have : (-(n : Int) - 2).toNat = 0 := by omega
    rw [this]; rfl
  have hpos : 0 < u * 2 ^ n := Nat.mul_pos hu (Nat.pow_pos (by omega))
  unfold inInterval
  simp only [hA, hB, Nat.mul_one]
  have e : u * (4 * 2 ^ n) = 4 * (u * 2 ^ n) := by ac_rfl
  rw [e]
  generalize u * 2 ^ n = c at *
  have hlo1 : loUnits c (-(n : Int)) < 4 * c := by unfold loUnits; split <;> omega
  have hhi : 4 * c < hiUnits c := by unfold hiUnits; omega
  split <;> simp only [Bool.and_eq_true, decide_eq_true_eq] <;> omega

open Sonic.Model.Ftoa Sonic.Model.Itoa in
/-- `(c, q)` of a fast-path double is `fastVal · 2^n`, `-n` -/
theorem fast_cq (raw : Nat) (hfast : FastInt raw) :
    (cqOfBits raw).1 = fastVal raw * 2 ^ (1075 - rexpOf raw) ∧
    (cqOfBits raw).2 = -((1075 - rexpOf raw : Nat) : Int) ∧ 0 < fastVal raw := by
  obtain ⟨f1, f2, f3, f4⟩ := hfast
  have hsig : rsigOf raw < 2 ^ 52 := Nat.mod_lt _ (by decide)
  have hpow : 2 ^ (1075 - rexpOf raw) ≤ 2 ^ 52 := Nat.pow_le_pow_right (by decide) (by omega)
  have hpos : 0 < 2 ^ (1075 - rexpOf raw) := Nat.pow_pos (by decide)
  refine ⟨?_, ?_, ?_⟩
  · unfold cqOfBits fastVal
    unfold rexpOf at f1
    simp only [if_neg f1]
    exact (Nat.div_mul_cancel (Nat.dvd_of_mod_eq_zero f4)).symm
  · unfold cqOfBits
    unfold rexpOf at f1 f2 f3 ⊢
    simp only [if_neg f1]
    omega
  · unfold fastVal
    exact (Nat.le_div_iff_mul_le hpos).2 (by omega)

open Sonic.Model.Ftoa Sonic.Model.Itoa in
theorem fast_round (raw : Nat) (h : raw < 2 ^ 64) (hfin : raw / 2 ^ 52 % 2 ^ 11 ≠ 2047) (hnz : raw % 2 ^ 63 ≠ 0)
    (hfast : FastInt raw) :
    Rne.round (negOf raw) (normalize (fastVal raw) 0).1 (normalize (fastVal raw) 0).2 = some raw := by
  obtain ⟨hc, hq, hu⟩ := fast_cq raw hfast
  obtain ⟨t, n1, n2, _⟩ := Sonic.Props.C07.C07_normalize (fastVal raw) 0 hu
  have hs := Sonic.Proofs.Rne.round_scale (negOf raw) (normalize (fastVal raw) 0).1 t (normalize (fastVal raw) 0).2
  rw [← n1, n2, show (0 : Int) + (t : Int) - (t : Int) = 0 by omega] at hs
  rw [n2, ← hs]
  apply (Sonic.Props.C07.C07_roundTrips_iff_rne_signed raw h hfin hnz (fastVal raw) 0 hu).1
  rw [hc, hq]
  exact fast_inInterval _ _ hu


/-! ## every finite double: the printed text denotes a decimal that rounds back to the same bits -/

open Sonic.Model.Ftoa Sonic.Model.Itoa in
theorem model_finite (bits : Nat) (h : bits < 2 ^ 64) (hfin : bits / 2 ^ 52 % 2 ^ 11 ≠ 2047) :
    ∃ o sig exp, f64toa zeroBuf 0 bits = some o ∧
      parseDecText (slice o.st.buf 0 o.ret) = some (negOf bits, sig, exp) ∧
      hasFracOrExp (slice o.st.buf 0 o.ret) = true ∧ (slice o.st.buf 0 o.ret).length ≤ 25 ∧ o.st.ext ≤ 32 ∧
      Rne.round (negOf bits) sig exp = some bits := by
  by_cases hz : bits % 2 ^ 63 = 0
  · obtain ⟨o, h1, h2, _, h4⟩ := f64toa_zero zeroBuf 0 bits hz
    refine ⟨o, 0, 0, h1, ?_, ?_, ?_, by omega, ?_⟩
    · rw [h2]; cases negOf bits <;> decide
    · rw [h2]; cases negOf bits <;> decide
    · rw [h2]; cases negOf bits <;> decide
    · unfold negOf
      by_cases hn : bits / 2 ^ 63 ≠ 0
      · rw [decide_eq_true hn]
        have : bits = 2 ^ 63 := by omega
        rw [this]; decide
      · rw [decide_eq_false hn]
        have : bits = 0 := by omega
        rw [this]; decide
  by_cases hfast : FastInt bits
  · obtain ⟨o, h1, _, _, h4, h5, h6, _, h8⟩ := Sonic.Props.C07.C07_integer_path zeroBuf 0 bits hfin hz hfast
    have hr := fast_round bits h hfin hz hfast
    cases hn : normalize (fastVal bits) 0 with
    | mk m e =>
      rw [hn] at h4 hr
      exact ⟨o, m, e, h1, h4, h5, h6, by omega, hr⟩
  · obtain ⟨o, d, h1, _, h3, _, _, _, _, _, h5, h6, h7, _, h9⟩ :=
      Sonic.Props.C07.C07_decimal_path zeroBuf 0 bits hfin hz hfast
    have hchk := Sonic.Props.C07.C07_schubfach bits h hfin hz hfast d h3
    have hr := Sonic.Props.C07.C07_chk_reparse_signed bits h hfin hz _ _ hchk
    cases hn : normalize d.sig d.exp with
    | mk m e =>
      rw [hn] at h5 hr
      exact ⟨o, m, e, h1, h5, h6, h7, by omega, hr⟩

/-! ## `FtoaFacts` for the literal model -/

open Sonic.Model.Serialize Sonic.Proofs.Serialize Sonic.Spec.Render in
theorem ftoaModel_facts : FtoaFacts ftoaModel := by
  have hfinite : ∀ bits, bits < 2 ^ 64 → finiteBits bits = true →
      ∃ o, ftoaModel bits = some o ∧ 1 ≤ o.text.length ∧ o.text.length ≤ 25 ∧ o.ext ≤ 32 ∧
        Number.scanNumber o.text 0 = .ok (.real bits) o.text.length := by
    intro bits hb hf
    have hfin : bits / 2 ^ 52 % 2 ^ 11 ≠ 2047 := by simpa [finiteBits] using hf
    obtain ⟨o, sig, exp, h1, h2, h3, h4, h5, h6⟩ := model_finite bits hb hfin
    refine ⟨⟨Sonic.Model.Itoa.slice o.st.buf 0 o.ret, o.st.ext⟩, by simp [ftoaModel, h1], ?_, h4, h5,
      scan_of_parseDec _ _ _ _ _ h2 h3 h6⟩
    show 1 ≤ (Sonic.Model.Itoa.slice o.st.buf 0 o.ret).length
    cases hl : Sonic.Model.Itoa.slice o.st.buf 0 o.ret with
    | nil => rw [hl] at h2; cases h2
    | cons _ _ => simp
  refine ⟨⟨?_, ?_⟩, ?_⟩
  · intro bits hb hf
    obtain ⟨o, h1, h2, h3, h4, _⟩ := hfinite bits hb hf
    exact ⟨o, h1, h2, h3, h4⟩
  · intro bits _ hf
    have h' : bits / 2 ^ 52 % 2 ^ 11 = 2047 := by simpa [finiteBits] using hf
    refine ⟨⟨[], 0⟩, ?_, rfl, by simp⟩
    simp [ftoaModel, Sonic.Model.Ftoa.f64toa, h', Sonic.Model.Itoa.slice]
  · intro bits o hb hf ho
    obtain ⟨o', h1, _, _, _, h5⟩ := hfinite bits hb hf
    rw [ho] at h1
    cases h1
    exact h5

end Sonic.Proofs.FtoaFacts
