import Sonic.Proofs.FtoaBridge

/-!
# C07 / Schubfach: `F64ToDecimal` on exact quantities

In the regular case (`irregular = false`) every `RoundToOdd` result is the exact round-to-odd `RO` of the scaled
end point / centre, so every test of the algorithm is a comparison of exact rationals: `F64ToDecimal` returns
`algOut`, a function of `c`, `A`, `B` (`A/B = 2^q·10^(-k)`) only.
-/
namespace Sonic.Proofs.Ftoa
open Sonic.Gen Sonic.Model.Ftoa Sonic.Model.Itoa Sonic.Spec.Shortest

/-- exact round-to-odd of `2·x/B` -/
def RO (x B : Nat) : Nat := 2 * (x / B) + b2n (decide (x % B ≠ 0))

theorem eq_mul_iff (x B N : Nat) (hB : 0 < B) : x = N * B ↔ x / B = N ∧ x % B = 0 := by
  constructor
  · intro h; subst h
    exact ⟨Nat.mul_div_cancel _ hB, Nat.mul_mod_left _ _⟩
  · intro ⟨h1, h2⟩
    have := Nat.div_add_mod x B
    rw [h1, h2, Nat.add_zero, Nat.mul_comm] at this
    exact this.symm

theorem ro_cases (x B : Nat) : (x % B = 0 ∧ RO x B = 2 * (x / B)) ∨ (x % B ≠ 0 ∧ RO x B = 2 * (x / B) + 1) := by
  unfold RO
  by_cases h : x % B = 0
  · left; simp [h, b2n]
  · right; simp [h, b2n]

theorem ro_ge (x B N : Nat) (hB : 0 < B) : 2 * N ≤ RO x B ↔ N * B ≤ x := by
  rw [← Nat.le_div_iff_mul_le hB]
  rcases ro_cases x B with ⟨_, h⟩ | ⟨_, h⟩ <;> rw [h] <;> omega

theorem ro_lt (x B N : Nat) (hB : 0 < B) : RO x B + 1 ≤ 2 * N ↔ x < N * B := by
  rw [← Nat.div_lt_iff_lt_mul hB]
  rcases ro_cases x B with ⟨_, h⟩ | ⟨_, h⟩ <;> rw [h] <;> omega

theorem ro_le (x B N : Nat) (hB : 0 < B) : RO x B ≤ 2 * N ↔ x ≤ N * B := by
  have h1 := Nat.div_lt_iff_lt_mul hB (x := x) (y := N)
  have h2 := eq_mul_iff x B N hB
  rcases ro_cases x B with ⟨h0, h⟩ | ⟨h0, h⟩ <;> rw [h] <;> constructor <;> intro hh
  · rcases Nat.lt_or_eq_of_le (show x / B ≤ N by omega) with a | a
    · exact Nat.le_of_lt (h1.1 a)
    · exact Nat.le_of_eq (h2.2 ⟨a, h0⟩)
  · rcases Nat.lt_or_eq_of_le hh with a | a
    · have := h1.2 a; omega
    · have := h2.1 a; omega
  · exact Nat.le_of_lt (h1.1 (by omega))
  · rcases Nat.lt_or_eq_of_le hh with a | a
    · have := h1.2 a; omega
    · have := h2.1 a; omega

theorem ro_gt (x B N : Nat) (hB : 0 < B) : 2 * N + 1 ≤ RO x B ↔ N * B < x := by
  have := ro_le x B N hB
  omega

theorem ro_div4 (x B : Nat) : RO x B / 4 = x / B / 2 := by
  rcases ro_cases x B with ⟨_, h⟩ | ⟨_, h⟩ <;> rw [h] <;> omega

theorem ro_eq (x B N : Nat) (hB : 0 < B) : RO x B = 2 * N ↔ x = N * B := by
  have h2 := eq_mul_iff x B N hB
  rcases ro_cases x B with ⟨h0, h⟩ | ⟨h0, h⟩ <;> rw [h] <;> constructor <;> intro hh
  · exact h2.2 ⟨by omega, h0⟩
  · have := h2.1 hh; omega
  · omega
  · have := h2.1 hh; omega

/-- `10^k ≤ 2^q < 10^(k+1)` on the integer scale -/
theorem ratio_bounds (q : Int) (h1 : -1074 ≤ q) (h2 : q ≤ 971) :
    0 < denQ q ∧ denQ q ≤ numQ q ∧ numQ q < 10 * denQ q := by
  obtain ⟨r1, r2, _, _⟩ := q_ok q (by omega) (by omega)
  rw [leS_iff] at r1
  rw [ltS_iff] at r2
  refine ⟨negP_pos _ _, ?_, ?_⟩
  · have := (cmpQ_ge q 1 1).2 (by
      simp only [rv, Rat.zpow_zero, Rat.mul_one] at r1
      have : kOf q false = (q * 1262611) >>> 22 := by unfold kOf; simp
      rw [this]
      exact r1)
    omega
  · have := (cmpQ_lt q 1 10).2 (by
      simp only [rv, Rat.zpow_zero, Rat.mul_one] at r2
      have : kOf q false = (q * 1262611) >>> 22 := by unfold kOf; simp
      rw [this, show ((10 : Nat) : Rat) * (10 : Rat) ^ ((q * 1262611) >>> 22) = (10 : Rat) ^ ((q * 1262611) >>> 22 + 1) by
        rw [Rat.zpow_add (by decide), Rat.zpow_one, show ((10 : Nat) : Rat) = 10 from rfl]; grind]
      simp only [show ((1 : Nat) : Rat) = 1 from rfl, Rat.one_mul] at r2 ⊢
      exact r2)
    omega

instance (c A B u : Nat) : Decidable (LowOk c A B u) := by unfold LowOk; infer_instance
instance (c A B u : Nat) : Decidable (HighOk c A B u) := by unfold HighOk; infer_instance

/-- `F64ToDecimal` on exact quantities (regular case) -/
def algOut (c A B : Nat) (k : Int) : Dec :=
  let s := c * A / B
  let sp := s / 10
  let upIn : Bool := decide (LowOk c A B (10 * sp))
  let wpIn : Bool := decide (HighOk c A B (10 * sp + 10))
  if decide (s ≥ 10) && (upIn != wpIn) then ⟨sp + b2n wpIn, k + 1⟩
  else
    let uIn : Bool := decide (LowOk c A B s)
    let wIn : Bool := decide (HighOk c A B (s + 1))
    if uIn != wIn then ⟨s + b2n wIn, k⟩
    else
      let roundUp : Bool := decide ((2 * s + 1) * B < 2 * c * A) ||
        (decide (2 * c * A = (2 * s + 1) * B) && decide (s % 2 ≠ 0))
      ⟨s + b2n roundUp, k⟩

theorem b2n_par_even (c : Nat) (h : c % 2 = 0) : b2n (!(c % 2 == 0)) = 0 := by simp [b2n, h]
theorem b2n_par_odd (c : Nat) (h : ¬ c % 2 = 0) : b2n (!(c % 2 == 0)) = 1 := by simp [b2n, h]

theorem lower_test (c A B u : Nat) (hB : 0 < B) :
    RO ((2 * c - 1) * A) B + b2n (!(c % 2 == 0)) ≤ 4 * u ↔ LowOk c A B u := by
  unfold LowOk
  by_cases h : c % 2 = 0
  · rw [b2n_par_even c h, if_pos h, Nat.add_zero, show 4 * u = 2 * (2 * u) by omega, ro_le _ _ _ hB]
  · rw [b2n_par_odd c h, if_neg h, show 4 * u = 2 * (2 * u) by omega, ro_lt _ _ _ hB]

theorem upper_test (c A B w vbr : Nat) (hB : 0 < B) (hv : vbr = RO ((2 * c + 1) * A) B) (h1 : 1 ≤ vbr) :
    4 * w ≤ vbr - b2n (!(c % 2 == 0)) ↔ HighOk c A B w := by
  unfold HighOk
  by_cases h : c % 2 = 0
  · rw [b2n_par_even c h, if_pos h, Nat.sub_zero, show 4 * w = 2 * (2 * w) by omega, hv, ro_ge _ _ _ hB]
  · rw [b2n_par_odd c h, if_neg h, show 4 * w ≤ vbr - 1 ↔ 2 * (2 * w) + 1 ≤ vbr by omega, hv, ro_gt _ _ _ hB]


theorem f64ToDecimal_regular (rsig rexp c : Nat) (q : Int) (hq1 : -1074 ≤ q) (hq2 : q ≤ 971)
    (hc1 : 1 ≤ c) (hc2 : c < 2 ^ 53) (hirr : (rsig == 0 && decide (rexp > 1)) = false) :
    f64ToDecimal rsig rexp c q = some (algOut c (numQ q) (denQ q) (kOf q false)) := by
  obtain ⟨hi, lo, hn, hrow, rhi, rlo, hh, hn1, hn4, hg, K1, K2⟩ := key_ineq q hq1 hq2
  obtain ⟨hB, hBA, hAB⟩ := ratio_bounds q hq1 hq2
  have ro := fun m (h0 : 0 < m) (hm : m ≤ mMax) =>
    ro_exact (numQ q) (denQ q) hi lo hn m rhi rlo hn4 hB hg K1 K2 h0 hm (nt_all q hq1 hq2 m h0 hm)
  have hp : 2 ^ hn ≤ 16 := by
    have : hn = 1 ∨ hn = 2 ∨ hn = 3 ∨ hn = 4 := by omega
    rcases this with h | h | h | h <;> subst h <;> decide
  have hp1 : 1 ≤ 2 ^ hn := Nat.pow_pos (by decide)
  unfold f64ToDecimal
  simp only [hirr, hrow, hh]
  have hsh : ∀ x, shl64 x (hn : Int) = some (x * 2 ^ hn % 2 ^ 64) := by
    intro x; unfold shl64; rw [if_pos ⟨by omega, by omega⟩]; rfl
  simp only [hsh]
  have e_b : 4 * c % 2 ^ 64 * 2 ^ hn % 2 ^ 64 = 2 * (2 * c) * 2 ^ hn := by
    rw [Nat.mod_eq_of_lt (show 4 * c < 2 ^ 64 by omega), Nat.mod_eq_of_lt, ← Nat.mul_assoc]
    calc 4 * c * 2 ^ hn ≤ 4 * c * 16 := Nat.mul_le_mul_left _ hp
      _ < 2 ^ 64 := by omega
  have e_l : (4 * c + 2 ^ 64 - 2 + b2n false) % 2 ^ 64 * 2 ^ hn % 2 ^ 64 = 2 * (2 * c - 1) * 2 ^ hn := by
    have : (4 * c + 2 ^ 64 - 2 + b2n false) % 2 ^ 64 = 2 * (2 * c - 1) := by
      rw [show b2n false = 0 from rfl]; omega
    rw [this, Nat.mod_eq_of_lt]
    calc 2 * (2 * c - 1) * 2 ^ hn ≤ 2 * (2 * c - 1) * 16 := Nat.mul_le_mul_left _ hp
      _ < 2 ^ 64 := by omega
  have e_r : (4 * c + 2) % 2 ^ 64 * 2 ^ hn % 2 ^ 64 = 2 * (2 * c + 1) * 2 ^ hn := by
    have : (4 * c + 2) % 2 ^ 64 = 2 * (2 * c + 1) := by omega
    rw [this, Nat.mod_eq_of_lt]
    calc 2 * (2 * c + 1) * 2 ^ hn ≤ 2 * (2 * c + 1) * 16 := Nat.mul_le_mul_left _ hp
      _ < 2 ^ 64 := by omega
  rw [e_b, e_l, e_r, ro (2 * c) (by omega) (by unfold mMax; omega), ro (2 * c - 1) (by omega) (by unfold mMax; omega),
    ro (2 * c + 1) (by omega) (by unfold mMax; omega)]
  have fold : ∀ x, 2 * (x / denQ q) + b2n (decide (x % denQ q ≠ 0)) = RO x (denQ q) := fun x => rfl
  simp only [fold]
  generalize hvbl : RO ((2 * c - 1) * numQ q) (denQ q) = vbl
  generalize hvb : RO (2 * c * numQ q) (denQ q) = vb
  generalize hvbr : RO ((2 * c + 1) * numQ q) (denQ q) = vbr
  -- the integer part
  have hs : vb / 4 = c * numQ q / denQ q := by
    rw [← hvb, ro_div4, Nat.div_div_eq_div_mul, Nat.mul_assoc, Nat.mul_comm (denQ q) 2,
      Nat.mul_div_mul_left _ _ (by decide : 0 < 2)]
  have hsB : c * numQ q / denQ q * denQ q ≤ c * numQ q := Nat.div_mul_le_self _ _
  have hs10 : c * numQ q / denQ q < 10 * c := by
    rw [Nat.div_lt_iff_lt_mul hB]
    calc c * numQ q < c * (10 * denQ q) := Nat.mul_lt_mul_of_pos_left hAB (by omega)
      _ = 10 * c * denQ q := by ac_rfl
  have hvbr1 : 2 * (2 * c + 1) ≤ vbr := by
    rw [← hvbr, ro_ge _ _ _ hB]
    exact Nat.mul_le_mul_left _ hBA
  have hvbr2 : vbr + 1 ≤ 2 * (10 * (2 * c + 1)) := by
    rw [← hvbr, ro_lt _ _ _ hB]
    calc (2 * c + 1) * numQ q < (2 * c + 1) * (10 * denQ q) := Nat.mul_lt_mul_of_pos_left hAB (by omega)
      _ = 10 * (2 * c + 1) * denQ q := by ac_rfl
  have hvbl2 : vbl + 1 ≤ 2 * (10 * (2 * c - 1)) := by
    rw [← hvbl, ro_lt _ _ _ hB]
    calc (2 * c - 1) * numQ q < (2 * c - 1) * (10 * denQ q) := Nat.mul_lt_mul_of_pos_left hAB (by omega)
      _ = 10 * (2 * c - 1) * denQ q := by ac_rfl
  rw [hs]
  generalize hsdef : c * numQ q / denQ q = s at *
  have hb1 := b2n_le_one (!(c % 2 == 0))
  have m1 : (vbl + b2n (!(c % 2 == 0))) % 2 ^ 64 = vbl + b2n (!(c % 2 == 0)) := Nat.mod_eq_of_lt (by omega)
  have m2 : (vbr + 2 ^ 64 - b2n (!(c % 2 == 0))) % 2 ^ 64 = vbr - b2n (!(c % 2 == 0)) := by omega
  have m3 : 40 * (s / 10) % 2 ^ 64 = 4 * (10 * (s / 10)) := by omega
  have m4 : (40 * (s / 10) + 40) % 2 ^ 64 = 4 * (10 * (s / 10) + 10) := by omega
  have m5 : 4 * s % 2 ^ 64 = 4 * s := by omega
  have m6 : (4 * s + 4) % 2 ^ 64 = 4 * (s + 1) := by omega
  have m7 : (4 * s + 2) % 2 ^ 64 = 4 * s + 2 := by omega
  rw [m1, m2, m3, m4, m5, m6, m7]
  have t1 := fun u => lower_test c (numQ q) (denQ q) u hB
  rw [hvbl] at t1
  have t2 := fun w => upper_test c (numQ q) (denQ q) w vbr hB hvbr.symm (by omega)
  have t3 : vb > 4 * s + 2 ↔ (2 * s + 1) * denQ q < 2 * c * numQ q := by
    rw [← hvb, ← ro_gt _ _ _ hB]; omega
  have t4 : vb = 4 * s + 2 ↔ 2 * c * numQ q = (2 * s + 1) * denQ q := by
    rw [← hvb, ← ro_eq _ _ _ hB]; omega
  simp only [decide_eq_decide.2 (t1 _), decide_eq_decide.2 (t2 _), decide_eq_decide.2 t3, decide_eq_decide.2 t4]
  unfold algOut
  simp only [hsdef]
  have mm1 : ∀ b : Bool, (s / 10 + b2n b) % 2 ^ 64 = s / 10 + b2n b := by
    intro b; have := b2n_le_one b; exact Nat.mod_eq_of_lt (by omega)
  have mm2 : ∀ b : Bool, (s + b2n b) % 2 ^ 64 = s + b2n b := by
    intro b; have := b2n_le_one b; exact Nat.mod_eq_of_lt (by omega)
  simp only [mm1, mm2]
  split
  · rfl
  · split <;> rfl

end Sonic.Proofs.Ftoa
