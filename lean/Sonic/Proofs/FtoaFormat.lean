import Sonic.Proofs.FtoaFmt

/-!
# C07: the three output formats, stage by stage (buffer level)

Each stage lemma describes the bytes between the start pointer and the running end pointer as a list, says
that nothing below the start pointer changes, and bounds the write extent.
-/
namespace Sonic.Proofs.Ftoa
open Sonic.Model.Itoa Sonic.Model.Ftoa Sonic.Spec Sonic.Proofs.Itoa

open Sonic.Spec.Shortest (mant)

theorem fxMant_spec (st : St) (out : Nat) (D : List Nat) (hD : D ≠ [])
    (hs : slice st.buf (out + 1) (out + 1 + D.length) = D) :
    (fxMant st out (out + 1 + D.length)).2 = out + (mant D).length ∧
    slice (fxMant st out (out + 1 + D.length)).1.buf out (out + (mant D).length) = mant D ∧
    (∀ j, j < out ∨ out + 2 ≤ j → (fxMant st out (out + 1 + D.length)).1.buf j = st.buf j) ∧
    st.ext ≤ (fxMant st out (out + 1 + D.length)).1.ext ∧
    (fxMant st out (out + 1 + D.length)).1.ext ≤ max st.ext (out + 2) := by
  cases D with
  | nil => exact absurd rfl hD
  | cons d rest =>
    have hd : st.buf (out + 1) = d ∧ slice st.buf (out + 2) (out + 1 + (d :: rest).length) = rest := by
      rw [slice_cons _ _ _ (by simp)] at hs
      exact List.cons.inj hs
    cases rest with
    | nil =>
      simp only [fxMant, List.length_cons, List.length_nil, mant, List.isEmpty_nil, if_true]
      rw [if_neg (by omega)]
      simp only [w_buf, w_ext, hd.1]
      refine ⟨by omega, ?_, ?_, by omega, by omega⟩
      · rw [slice_one, wr_apply, if_pos rfl]
      · intro j hj; rw [wr_apply, if_neg (by omega)]
    | cons d2 rest =>
      simp only [fxMant, List.length_cons, mant, List.isEmpty_cons, Bool.false_eq_true, if_false]
      rw [if_pos (by omega)]
      simp only [w_buf, w_ext, hd.1]
      refine ⟨by omega, ?_, ?_, by omega, by omega⟩
      · rw [slice_cons _ _ _ (by omega), slice_cons _ _ _ (by omega)]
        simp only [wr_apply, ↓reduceIte]
        rw [slice_wr_frame _ _ _ _ _ (Or.inl (by omega)), slice_wr_frame _ _ _ _ _ (Or.inl (by omega))]
        have := hd.2
        simp only [List.length_cons] at this
        rw [show out + 1 + 1 = out + 2 by omega,
          show out + (rest.length + 1 + 1 + 1) = out + 1 + (rest.length + 1 + 1) by omega, this,
          if_neg (by omega)]
      · intro j hj; rw [wr_apply, wr_apply, if_neg (by omega), if_neg (by omega)]

theorem decimal_3 (a : Nat) (h0 : 100 ≤ a) (h : a < 1000) :
    decimal a = [48 + a / 10 / 10, 48 + a / 10 % 10, 48 + a % 10] := by
  rw [decimal_eq_digitsW 2 a (by omega) (by omega)]
  simp [digitsW]; omega

theorem decimal_2 (a : Nat) (h0 : 10 ≤ a) (h : a < 100) :
    decimal a = [48 + a / 10, 48 + a % 10] := by
  rw [decimal_eq_digitsW 1 a (by omega) (by omega)]
  simp [digitsW]; omega

theorem fxExp_spec (st : St) (lo e : Nat) (ex : Int) (hlo : lo ≤ e) (h1 : -1000 < ex) (h2 : ex < 1000) :
    (fxExp st e ex).2 = e + 2 + (decimal ex.natAbs).length ∧
    slice (fxExp st e ex).1.buf lo (fxExp st e ex).2 =
      slice st.buf lo e ++ [101, if ex < 0 then 45 else 43] ++ decimal ex.natAbs ∧
    (∀ j, j < e → (fxExp st e ex).1.buf j = st.buf j) ∧
    st.ext ≤ (fxExp st e ex).1.ext ∧ (fxExp st e ex).1.ext ≤ max st.ext (e + 5) := by
  have hab : (if ex < 0 then (-ex).toNat else ex.toNat) = ex.natAbs := by split <;> omega
  have ha : ex.natAbs < 1000 := by omega
  -- the state after 'e' and the sign
  have key : ∀ (sg : Nat) (st1 : St), st1 = (st.w e 101).w (e + 1) sg →
      slice st1.buf lo (e + 2) = slice st.buf lo e ++ [101, sg] ∧
      (∀ j, j < e → st1.buf j = st.buf j) ∧ st1.ext = max st.ext (e + 2) := by
    intro sg st1 h
    subst h
    simp only [w_buf, w_ext]
    refine ⟨?_, ?_, by omega⟩
    · rw [show e + 2 = (e + 1) + 1 by omega, slice_wr_snoc _ _ _ _ (by omega),
        slice_wr_snoc _ _ _ _ hlo]
      simp
    · intro j hj; rw [wr_apply, wr_apply, if_neg (by omega), if_neg (by omega)]
  have hst : (if ex < 0 then (st.w e 101).w (e + 1) 45 else (st.w e 101).w (e + 1) 43) =
      (st.w e 101).w (e + 1) (if ex < 0 then 45 else 43) := by split <;> rfl
  simp only [fxExp, hab, hst]
  generalize (if ex < 0 then 45 else 43) = sg
  obtain ⟨k1, k2, k3⟩ := key sg _ rfl
  generalize (st.w e 101).w (e + 1) sg = st1 at *
  generalize ex.natAbs = a at *
  by_cases c1 : a ≥ 100
  · simp only [if_pos c1, c2_buf, c2_ext, w_buf, w_ext]
    rw [decimal_3 a c1 ha]
    refine ⟨by simp <;> omega, ?_, ?_, by omega, by omega⟩
    · rw [show e + 1 + 1 + 3 = (e + 1 + 1 + 2) + 1 by omega, slice_wr_snoc _ _ _ _ (by omega),
        slice_copy2_snoc _ _ _ _ (by omega), show e + 1 + 1 = e + 2 by omega, k1,
        dig_even _ (by omega), dig_odd _ (by omega), Nat.mod_eq_of_lt (by omega : 48 + a % 10 < 256)]
      simp
    · intro j hj
      rw [wr_apply, if_neg (by omega), copy2_frame _ _ _ _ (by omega), k2 j hj]
  · simp only [if_neg c1]
    by_cases c2 : a ≥ 10
    · simp only [if_pos c2, c2_buf, c2_ext]
      rw [decimal_2 a c2 (by omega)]
      refine ⟨by simp, ?_, ?_, by omega, by omega⟩
      · rw [slice_copy2_snoc _ _ _ _ (by omega), show e + 1 + 1 = e + 2 by omega, k1,
          dig_even _ (by omega), dig_odd _ (by omega)]
      · intro j hj
        rw [copy2_frame _ _ _ _ (by omega), k2 j hj]
    · simp only [if_neg c2, w_buf, w_ext]
      rw [decimal_lt a (by omega)]
      refine ⟨by simp, ?_, ?_, by omega, by omega⟩
      · rw [slice_wr_snoc _ _ _ _ (by omega), show e + 1 + 1 = e + 2 by omega, k1,
          Nat.mod_eq_of_lt (by omega : 48 + a < 256)]
      · intro j hj
        rw [wr_apply, if_neg (by omega), k2 j hj]


theorem mant_length (D : List Nat) (hD : D ≠ []) : 1 ≤ (mant D).length ∧ (mant D).length ≤ D.length + 1 := by
  cases D with
  | nil => exact absurd rfl hD
  | cons d rest => cases rest <;> simp [mant]

/-- the exponent format as a whole -/
theorem formatExponent_spec (st : St) (sig : Nat) (exp : Int) (p : Nat) (h1 : 1 ≤ sig) (h2 : sig < 10 ^ 17)
    (hlo : -1000 < (ctz10 sig : Int) + exp - 1) (hhi : (ctz10 sig : Int) + exp - 1 < 1000) :
    ∃ m t, Stripped sig m t ∧ (decimal m).length + t = ctz10 sig ∧
      slice (formatExponent st ⟨sig, exp⟩ p (ctz10 sig)).1.buf p (formatExponent st ⟨sig, exp⟩ p (ctz10 sig)).2 =
        mant (decimal m) ++ [101, if exp + (ctz10 sig : Int) - 1 < 0 then 45 else 43] ++
          decimal (exp + (ctz10 sig : Int) - 1).natAbs ∧
      p ≤ (formatExponent st ⟨sig, exp⟩ p (ctz10 sig)).2 ∧
      (∀ j, j < p → (formatExponent st ⟨sig, exp⟩ p (ctz10 sig)).1.buf j = st.buf j) ∧
      st.ext ≤ (formatExponent st ⟨sig, exp⟩ p (ctz10 sig)).1.ext ∧
      (formatExponent st ⟨sig, exp⟩ p (ctz10 sig)).1.ext ≤ max st.ext (p + 25) := by
  obtain ⟨m, t, hs, hl, e1, e2, e3, e4, e5⟩ := fs_trim_spec st sig (p + 1) h1 h2
  have hc := ctz10_le sig
  have hD := decimal_ne_nil m
  obtain ⟨ml1, ml2⟩ := mant_length (decimal m) hD
  refine ⟨m, t, hs, hl, ?_⟩
  simp only [formatExponent]
  rw [e1]
  obtain ⟨f1, f2, f3, f4, f5⟩ := fxMant_spec (formatSignificand st sig (p + 1) (ctz10 sig)).1 p (decimal m) hD e2
  rw [f1]
  obtain ⟨g1, g2, g3, g4, g5⟩ := fxExp_spec (fxMant (formatSignificand st sig (p + 1) (ctz10 sig)).1 p
    (p + 1 + (decimal m).length)).1 p (p + (mant (decimal m)).length) (exp + (ctz10 sig : Int) - 1)
    (by omega) (by omega) (by omega)
  refine ⟨?_, ?_, ?_, ?_, ?_⟩
  · rw [g2, f2]
  · rw [g1]; omega
  · intro j hj
    rw [g3 j (by omega), f3 j (by omega), e3 j (by omega)]
  · omega
  · omega


/-! ## `memset` / `memmove` -/

theorem fill_buf (st : St) (pos n v j : Nat) :
    (st.fill pos n v).buf j = if pos ≤ j ∧ j < pos + n then v else st.buf j := by
  unfold St.fill
  by_cases h : n = 0
  · subst h; simp; intro h1 h2; omega
  · simp [h]

theorem fill_ext (st : St) (pos n v : Nat) :
    st.ext ≤ (st.fill pos n v).ext ∧ (st.fill pos n v).ext ≤ max st.ext (pos + n) := by
  unfold St.fill
  by_cases h : n = 0
  · subst h; simp; omega
  · simp [h]; omega

theorem slice_replicate (b : Buf) (lo n v : Nat) (h : ∀ j, lo ≤ j → j < lo + n → b j = v) :
    slice b lo (lo + n) = List.replicate n v := by
  have := slice_eq_of_pointwise b lo (List.replicate n v) (by
    intro i hi
    simp at hi
    simp [h (lo + i) (by omega) (by omega)])
  simpa using this

theorem slice_fill_snoc (st : St) (lo pos n v : Nat) (h : lo ≤ pos) :
    slice (st.fill pos n v).buf lo (pos + n) = slice st.buf lo pos ++ List.replicate n v := by
  rw [slice_append _ lo pos (pos + n) h (by omega),
    slice_congr (st.fill pos n v).buf st.buf lo pos (fun j h1 h2 => by rw [fill_buf, if_neg (by omega)]),
    slice_replicate _ pos n v (fun j h1 h2 => by rw [fill_buf, if_pos ⟨h1, h2⟩])]

theorem move_buf (st : St) (dst src n j : Nat) :
    (st.move dst src n).buf j = if dst ≤ j ∧ j < dst + n then st.buf (src + (j - dst)) else st.buf j := by
  unfold St.move
  by_cases h : n = 0
  · subst h; simp; intro h1 h2; omega
  · simp [h]

theorem move_ext (st : St) (dst src n : Nat) :
    st.ext ≤ (st.move dst src n).ext ∧ (st.move dst src n).ext ≤ max st.ext (dst + n) := by
  unfold St.move
  by_cases h : n = 0
  · subst h; simp; omega
  · simp [h]; omega

theorem slice_take (b : Buf) (lo hi k : Nat) (h : lo + k ≤ hi) :
    (slice b lo hi).take k = slice b lo (lo + k) := by
  rw [slice_append b lo (lo + k) hi (by omega) h, List.take_left' (by rw [slice_length]; omega)]

theorem slice_drop (b : Buf) (lo hi k : Nat) (h : lo + k ≤ hi) :
    (slice b lo hi).drop k = slice b (lo + k) hi := by
  rw [slice_append b lo (lo + k) hi (by omega) h, List.drop_left' (by rw [slice_length]; omega)]

theorem slice_shift (b b' : Buf) (lo hi : Nat) (h : ∀ j, lo ≤ j → j < hi → b' (j + 1) = b j) :
    slice b' (lo + 1) (hi + 1) = slice b lo hi := by
  apply List.ext_getElem
  · simp [slice_length]
  · intro i h1 h2
    rw [slice_getElem, slice_getElem]
    rw [slice_length] at h2
    rw [show lo + 1 + i = (lo + i) + 1 by omega]
    exact h _ (by omega) (by omega)

/-! ## `FormatDecimal` -/

theorem fdLead_spec (st : St) (out : Nat) (point : Int) (hp : point ≤ 0) :
    (fdLead st out point).2 = out + 2 + (-point).toNat ∧
    slice (fdLead st out point).1.buf out (out + 2 + (-point).toNat) =
      [48, 46] ++ List.replicate (-point).toNat 48 ∧
    (∀ j, j < out → (fdLead st out point).1.buf j = st.buf j) ∧
    st.ext ≤ (fdLead st out point).1.ext ∧
    (fdLead st out point).1.ext ≤ max st.ext (out + 2 + (-point).toNat) := by
  simp only [fdLead, if_pos hp]
  generalize (-point).toNat = nz
  obtain ⟨x1, x2⟩ := fill_ext ((st.w out 48).w (out + 1) 46) (out + 2) nz 48
  simp only [w_ext] at x1 x2
  refine ⟨by first | rfl | trivial, ?_, ?_, by omega, by omega⟩
  · rw [slice_fill_snoc _ _ _ _ _ (by omega)]
    simp only [w_buf]
    rw [show out + 2 = (out + 1) + 1 by omega, slice_wr_snoc _ _ _ _ (by omega),
      slice_wr_snoc _ _ _ _ (Nat.le_refl _), slice_nil]
    simp
  · intro j hj
    rw [fill_buf, if_neg (by omega)]
    simp only [w_buf, wr_apply]
    rw [if_neg (by omega), if_neg (by omega)]

theorem fdPoint_spec (st : St) (p pt : Nat) (D : List Nat) (hpt : 1 ≤ pt)
    (hs : slice st.buf p (p + D.length) = D) :
    slice (fdPoint st p (p + D.length) pt).1.buf p (fdPoint st p (p + D.length) pt).2 =
      (if D.length > pt then D.take pt ++ 46 :: D.drop pt
       else D ++ List.replicate (pt - D.length) 48 ++ [46, 48]) ∧
    p ≤ (fdPoint st p (p + D.length) pt).2 ∧
    (∀ j, j < p → (fdPoint st p (p + D.length) pt).1.buf j = st.buf j) ∧
    st.ext ≤ (fdPoint st p (p + D.length) pt).1.ext ∧
    (fdPoint st p (p + D.length) pt).1.ext ≤ max st.ext (max (p + D.length + 1) (p + pt + 2)) := by
  simp only [fdPoint, Nat.add_sub_cancel_left]
  by_cases c : D.length > pt
  · simp only [if_pos c, w_buf, w_ext]
    obtain ⟨x1, x2⟩ := move_ext st (p + pt + 1) (p + pt) (D.length - pt)
    have t1 : D.take pt = slice st.buf p (p + pt) := by
      have := slice_take st.buf p (p + D.length) pt (by omega)
      rwa [hs] at this
    have t2 : D.drop pt = slice st.buf (p + pt) (p + D.length) := by
      have := slice_drop st.buf p (p + D.length) pt (by omega)
      rwa [hs] at this
    refine ⟨?_, by omega, ?_, by omega, by omega⟩
    · rw [slice_append _ p (p + pt) _ (by omega) (by omega), slice_cons _ (p + pt) _ (by omega),
        slice_wr_frame _ _ _ _ _ (Or.inr (Nat.le_refl _)), wr_apply, if_pos rfl,
        slice_wr_frame _ _ _ _ _ (Or.inl (by omega)), t1, t2]
      congr 1
      · exact slice_congr _ _ _ _ (fun j h1 h2 => by rw [move_buf, if_neg (by omega)])
      · congr 1
        apply slice_shift
        intro j h1 h2
        rw [move_buf, if_pos ⟨by omega, by omega⟩]
        congr 1; omega
    · intro j hj
      rw [wr_apply, if_neg (by omega), move_buf, if_neg (by omega)]
  · simp only [if_neg c, w_buf, w_ext]
    obtain ⟨x1, x2⟩ := fill_ext st (p + D.length) (pt - D.length + 2) 48
    generalize hnz : pt - D.length = nz at *
    generalize he : p + D.length = e at *
    refine ⟨?_, by omega, ?_, by omega, by omega⟩
    · rw [show e + nz + 2 = (e + nz + 1) + 1 by omega,
        slice_snoc _ _ _ (by omega), slice_snoc _ p (e + nz) (by omega),
        slice_wr_frame _ _ _ _ _ (Or.inr (Nat.le_refl _)), wr_apply, if_pos rfl, wr_apply,
        if_neg (by omega), fill_buf, if_pos ⟨by omega, by omega⟩,
        slice_append _ p e _ (by omega) (by omega),
        slice_congr (st.fill e (nz + 2) 48).buf st.buf p e
          (fun j h1 h2 => by rw [fill_buf, if_neg (by omega)]), hs,
        slice_replicate _ e nz 48
          (fun j h1 h2 => by rw [fill_buf, if_pos ⟨by omega, by omega⟩])]
      simp
    · intro j hj
      rw [wr_apply, if_neg (by omega), fill_buf, if_neg (by omega)]


/-- the positional format with a point inside or in front of the digits -/
theorem formatDecimal_spec (st : St) (sig : Nat) (exp : Int) (p : Nat) (h1 : 1 ≤ sig) (h2 : sig < 10 ^ 17)
    (hp1 : -5 ≤ (ctz10 sig : Int) + exp) (hp2 : (ctz10 sig : Int) + exp ≤ 21) :
    ∃ m t, Stripped sig m t ∧ (decimal m).length + t = ctz10 sig ∧
      slice (formatDecimal st ⟨sig, exp⟩ p (ctz10 sig)).1.buf p (formatDecimal st ⟨sig, exp⟩ p (ctz10 sig)).2 =
        (if (ctz10 sig : Int) + exp ≤ 0 then
          [48, 46] ++ List.replicate (-((ctz10 sig : Int) + exp)).toNat 48 ++ decimal m
         else if (decimal m).length > ((ctz10 sig : Int) + exp).toNat then
          (decimal m).take ((ctz10 sig : Int) + exp).toNat ++ 46 :: (decimal m).drop ((ctz10 sig : Int) + exp).toNat
         else decimal m ++ List.replicate (((ctz10 sig : Int) + exp).toNat - (decimal m).length) 48 ++ [46, 48]) ∧
      p ≤ (formatDecimal st ⟨sig, exp⟩ p (ctz10 sig)).2 ∧
      (∀ j, j < p → (formatDecimal st ⟨sig, exp⟩ p (ctz10 sig)).1.buf j = st.buf j) ∧
      st.ext ≤ (formatDecimal st ⟨sig, exp⟩ p (ctz10 sig)).1.ext ∧
      (formatDecimal st ⟨sig, exp⟩ p (ctz10 sig)).1.ext ≤ max st.ext (p + 25) := by
  have hc := ctz10_le sig
  simp only [formatDecimal]
  by_cases c : (ctz10 sig : Int) + exp ≤ 0
  · obtain ⟨l1, l2, l3, l4, l5⟩ := fdLead_spec st p _ c
    generalize fdLead st p ((ctz10 sig : Int) + exp) = fd at *
    obtain ⟨st1, p1⟩ := fd
    simp only at l1 l2 l3 l4 l5 ⊢
    subst l1
    obtain ⟨m, t, hs, hl, e1, e2, e3, e4, e5⟩ := fs_trim_spec st1 sig (p + 2 + (-((ctz10 sig : Int) + exp)).toNat) h1 h2
    refine ⟨m, t, hs, hl, ?_⟩
    simp only [if_pos c]
    rw [e1]
    refine ⟨?_, by omega, ?_, by omega, by omega⟩
    · rw [slice_append _ p (p + 2 + (-((ctz10 sig : Int) + exp)).toNat) _ (by omega) (by omega), e2,
        slice_congr _ st1.buf p _ (fun j h1 h2 => e3 j (by omega)), l2]
    · intro j hj
      rw [e3 j (by omega), l3 j hj]
  · have hl0 : fdLead st p ((ctz10 sig : Int) + exp) = (st, p) := by simp only [fdLead, if_neg c]
    obtain ⟨m, t, hs, hl, e1, e2, e3, e4, e5⟩ := fs_trim_spec st sig p h1 h2
    refine ⟨m, t, hs, hl, ?_⟩
    simp only [if_neg c, hl0]
    rw [e1]
    obtain ⟨d1, d2, d3, d4, d5⟩ := fdPoint_spec (formatSignificand st sig p (ctz10 sig)).1 p
      ((ctz10 sig : Int) + exp).toNat (decimal m) (by omega) e2
    refine ⟨d1, d2, ?_, by omega, by omega⟩
    intro j hj
    rw [d3 j hj, e3 j (by omega)]

/-! ## the integer format: `U64toa`, zeros, `".0"` -/

theorem stU64toa_spec (st : St) (p u : Nat) (h : u < 2 ^ 64) :
    (stU64toa st p u).2 = p + (decimal u).length ∧
    slice (stU64toa st p u).1.buf p (p + (decimal u).length) = decimal u ∧
    (∀ j, j < p → (stU64toa st p u).1.buf j = st.buf j) ∧
    st.ext ≤ (stU64toa st p u).1.ext ∧ (stU64toa st p u).1.ext ≤ max st.ext (p + 24) := by
  obtain ⟨s1, s2, s3, s4, s5⟩ := u64toa_full st.buf p u h
  have hlen : (u64toa st.buf p u).out = p + (decimal u).length := by
    have := congrArg List.length s1
    rw [slice_length] at this
    omega
  simp only [stU64toa]
  refine ⟨hlen, ?_, ?_, by omega, by omega⟩
  · rw [← hlen]; exact s1
  · intro j hj; exact s5 j (Or.inl hj)

/-- digits, `nz` zeros and `".0"` appended after position `e` -/
theorem zeros_dot_spec (st : St) (p e nz : Nat) (hpe : p ≤ e) :
    slice ((st.fill e (nz + 2) 48).w (e + nz) 46).buf p (e + nz + 2) =
      slice st.buf p e ++ List.replicate nz 48 ++ [46, 48] ∧
    (∀ j, j < e → ((st.fill e (nz + 2) 48).w (e + nz) 46).buf j = st.buf j) ∧
    st.ext ≤ ((st.fill e (nz + 2) 48).w (e + nz) 46).ext ∧
    ((st.fill e (nz + 2) 48).w (e + nz) 46).ext ≤ max st.ext (e + nz + 2) := by
  obtain ⟨x1, x2⟩ := fill_ext st e (nz + 2) 48
  simp only [w_buf, w_ext]
  refine ⟨?_, ?_, by omega, by omega⟩
  · rw [show e + nz + 2 = (e + nz + 1) + 1 by omega,
      slice_snoc _ _ _ (by omega), slice_snoc _ p (e + nz) (by omega),
      slice_wr_frame _ _ _ _ _ (Or.inr (Nat.le_refl _)), wr_apply, if_pos rfl, wr_apply,
      if_neg (by omega), fill_buf, if_pos ⟨by omega, by omega⟩,
      slice_append _ p e _ (by omega) (by omega),
      slice_congr (st.fill e (nz + 2) 48).buf st.buf p e
        (fun j h1 h2 => by rw [fill_buf, if_neg (by omega)]),
      slice_replicate _ e nz 48
        (fun j h1 h2 => by rw [fill_buf, if_pos ⟨by omega, by omega⟩])]
    simp
  · intro j hj
    rw [wr_apply, if_neg (by omega), fill_buf, if_neg (by omega)]


/-! ## the three-way switch against the reference rendering -/

open Sonic.Spec.Shortest in
theorem exists_stripped : ∀ (n : Nat), 1 ≤ n → ∃ m t, Stripped n m t := by
  intro n
  induction n using Nat.strongRecOn with
  | _ n ih =>
    intro hn
    by_cases h : n % 10 = 0
    · obtain ⟨m, t, s1, s2⟩ := ih (n / 10) (by omega) (by omega)
      refine ⟨m, t + 1, ?_, s2⟩
      rw [Nat.pow_succ, ← Nat.mul_assoc, ← s1]; omega
    · exact ⟨n, 0, by simp, h⟩

theorem stripped_decimal (n m t : Nat) (h : Stripped n m t) :
    decimal n = decimal m ++ List.replicate t 48 := by
  obtain ⟨h1, h2⟩ := h
  have := decimal_split t m 0 (by omega) (Nat.pow_pos (by decide))
  rw [Nat.add_zero, digitsW_zero] at this
  rw [h1]; exact this

open Sonic.Spec.Shortest in
theorem refBody_exp (m : Nat) (e : Int) (cnt : Nat) (exp : Int) (t : Nat)
    (he : e = exp + (t : Int)) (hl : (decimal m).length + t = cnt)
    (hx : exp + (cnt : Int) - 1 < -6 ∨ exp + (cnt : Int) - 1 > 20) :
    refBody m e = mant (decimal m) ++ [101, if exp + (cnt : Int) - 1 < 0 then 45 else 43] ++
      decimal (exp + (cnt : Int) - 1).natAbs := by
  have hsci : ((decimal m).length : Int) + e - 1 = exp + (cnt : Int) - 1 := by omega
  simp only [refBody, hsci]
  rw [if_pos hx]

open Sonic.Spec.Shortest in
theorem refBody_dec (m : Nat) (e : Int) (cnt : Nat) (exp : Int) (t : Nat)
    (he : e = exp + (t : Int)) (hl : (decimal m).length + t = cnt)
    (hx : ¬(exp + (cnt : Int) - 1 < -6 ∨ exp + (cnt : Int) - 1 > 20)) :
    refBody m e =
      (if (cnt : Int) + exp ≤ 0 then
        [48, 46] ++ List.replicate (-((cnt : Int) + exp)).toNat 48 ++ decimal m
       else if (decimal m).length > ((cnt : Int) + exp).toNat then
        (decimal m).take ((cnt : Int) + exp).toNat ++ 46 :: (decimal m).drop ((cnt : Int) + exp).toNat
       else decimal m ++ List.replicate (((cnt : Int) + exp).toNat - (decimal m).length) 48 ++ [46, 48]) := by
  have hsci : ((decimal m).length : Int) + e - 1 = exp + (cnt : Int) - 1 := by omega
  have hpt : ((decimal m).length : Int) + e = (cnt : Int) + exp := by omega
  have hnd := decimal_length_pos m
  simp only [refBody, hpt]
  rw [if_neg (by omega)]
  by_cases c0 : 0 ≤ e
  · rw [if_pos c0, if_neg (by omega), if_neg (by omega)]
    congr 3; omega
  · rw [if_neg c0]
    by_cases c1 : (cnt : Int) + exp ≤ 0
    · rw [if_pos c1, if_pos c1]
    · rw [if_neg c1, if_neg c1, if_pos (by omega)]

open Sonic.Spec.Shortest in
theorem refBody_int (n m : Nat) (e : Int) (cnt : Nat) (exp : Int) (t : Nat) (hs : Stripped n m t)
    (he : e = exp + (t : Int)) (hl : (decimal m).length + t = cnt) (hpos : 0 ≤ exp)
    (hx : ¬(exp + (cnt : Int) - 1 < -6 ∨ exp + (cnt : Int) - 1 > 20)) :
    refBody m e = decimal n ++ List.replicate exp.toNat 48 ++ [46, 48] := by
  have hsci : ((decimal m).length : Int) + e - 1 = exp + (cnt : Int) - 1 := by omega
  simp only [refBody, hsci]
  have het : e.toNat = t + exp.toNat := by omega
  rw [if_neg hx, if_pos (by omega), stripped_decimal n m t hs, het, ← List.replicate_append_replicate]
  simp [List.append_assoc]

open Sonic.Spec.Shortest in
/-- the format switch of `F64toa` produces exactly the reference rendering of the normalised decimal -/
theorem formatDec_spec (st : St) (sig : Nat) (exp : Int) (p : Nat) (h1 : 1 ≤ sig) (h2 : sig < 10 ^ 17)
    (he1 : -900 ≤ exp) (he2 : exp ≤ 900) :
    ∃ st' ret, formatDec st ⟨sig, exp⟩ p = some (st', ret) ∧
      slice st'.buf p ret = refBody (normalize sig exp).1 (normalize sig exp).2 ∧
      p ≤ ret ∧ (∀ j, j < p → st'.buf j = st.buf j) ∧ st.ext ≤ st'.ext ∧ st'.ext ≤ max st.ext (p + 25) := by
  have hc := ctz10_le sig
  simp only [formatDec]
  by_cases cx : (ctz10 sig : Int) + exp - 1 < -6 ∨ (ctz10 sig : Int) + exp - 1 > 20
  · have cx' : exp + (ctz10 sig : Int) - 1 < -6 ∨ exp + (ctz10 sig : Int) - 1 > 20 := by omega
    obtain ⟨m, t, hs, hl, f1, f2, f3, f4, f5⟩ := formatExponent_spec st sig exp p h1 h2 (by omega) (by omega)
    rw [normalize_spec sig m t exp hs]
    refine ⟨_, _, by simp [cx], ?_, f2, f3, f4, f5⟩
    rw [f1, refBody_exp m _ (ctz10 sig) exp t rfl hl cx']
  · have cx' : ¬(exp + (ctz10 sig : Int) - 1 < -6 ∨ exp + (ctz10 sig : Int) - 1 > 20) := by omega
    have hcx : (decide ((ctz10 sig : Int) + exp - 1 < -6) || decide ((ctz10 sig : Int) + exp - 1 > 20)) = false := by
      simp; omega
    simp only [hcx, Bool.false_eq_true, if_false]
    by_cases cd : (ctz10 sig : Int) + exp < (ctz10 sig : Int)
    · obtain ⟨m, t, hs, hl, f1, f2, f3, f4, f5⟩ := formatDecimal_spec st sig exp p h1 h2 (by omega) (by omega)
      rw [normalize_spec sig m t exp hs]
      refine ⟨_, _, by simp [cd], ?_, f2, f3, f4, f5⟩
      rw [f1, refBody_dec m _ (ctz10 sig) exp t rfl hl cx']
    · obtain ⟨m, t, hs⟩ := exists_stripped sig h1
      have hl : (decimal m).length + t = ctz10 sig := by
        rw [ctz10_eq sig h2, stripped_decimal sig m t hs]; simp
      rw [normalize_spec sig m t exp hs]
      obtain ⟨u1, u2, u3, u4, u5⟩ := stU64toa_spec st p sig (by omega)
      rw [← ctz10_eq sig h2] at u1 u2
      have hdp : ¬ ((p : Int) + ((ctz10 sig : Int) + exp) < ((stU64toa st p sig).2 : Int)) := by
        rw [u1]; omega
      simp only [show decide ((ctz10 sig : Int) + exp < (ctz10 sig : Int)) = false by simpa using cd,
        Bool.false_eq_true, if_false, if_neg hdp]
      have hnz : ((p : Int) + ((ctz10 sig : Int) + exp) - ((stU64toa st p sig).2 : Int)).toNat = exp.toNat := by
        rw [u1]; omega
      have hdpn : ((p : Int) + ((ctz10 sig : Int) + exp)).toNat = (stU64toa st p sig).2 + exp.toNat := by
        rw [u1]; omega
      rw [hnz, hdpn]
      obtain ⟨z1, z2, z3, z4⟩ := zeros_dot_spec (stU64toa st p sig).1 p (stU64toa st p sig).2 exp.toNat (by omega)
      refine ⟨_, _, rfl, ?_, by omega, ?_, by omega, by omega⟩
      · rw [z1, u1, u2, refBody_int sig m _ (ctz10 sig) exp t hs rfl hl (by omega) cx']
      · intro j hj
        rw [z2 j (by omega), u3 j hj]

end Sonic.Proofs.Ftoa
